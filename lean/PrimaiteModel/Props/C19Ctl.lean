/-
C19, part 10 (round 7): the methods that MOVE a threat-actor agent through its kill chain, translated statement by
statement from the sources (Gen/AgentsCtl.lean, regenerated on every run by harness/extract/agents_ctl.py), compute what
the hand-written model functions compute — for EVERY state.

    AbstractTAP._tap_outcome_handler   = Tap1.outcomeHandler / Tap3.outcomeHandler
    AbstractTAP._tap_start             = Tap1.tapStart / Tap3.tapStart
    AbstractTAP._tap_return_handler    = Tap1.returnHandler / Tap3.returnHandler (+ the answer `resp.ok`; no item: no change)
    AbstractTAP._agent_trial_handler   = failStage on a failed trial, nothing on a passed one
    TAP001._progress_kill_chain        = Tap1.progress
    TAP003._progress_kill_chain        = Tap3.progress

`Agree s m g`: the translated method, run on the encoding of the model state `s`, ended in `g`; the model function ended in
`m`.  They raise together; when they do not raise, stage, next stage, stage progress and `actions_concluded` are equal and
the chosen action is do-nothing exactly when the method assigned it (otherwise it is untouched).
A rewrite of one of these methods that keeps its meaning keeps these theorems (they are proved by running both sides on
every stage); one that changes it (seeded C19-f: a guard-clause rewrite of `_tap_outcome_handler` whose re-attack branch
returned early) breaks them.
-/
import PrimaiteModel.Gen.AgentsCtl
import PrimaiteModel.Props.C19Wf
namespace Primaite.Agents
open Primaite.Gen.AgentsCtl (Ctl)

namespace Tap3

def enc (s : St) : Ctl := { cur := s.cur.val, nxt := s.nxt.val, prog := s.prog.val, concluded := s.concluded }
def mem (v : Int) : Bool := (Stage.ofVal? v).isSome
def initial : Int := Stage.reconnaissance.val

def Agree (s m : St) (g : Ctl) : Prop :=
  g.raised = m.err ∧ (g.raised = false → g.cur = m.cur.val ∧ g.nxt = m.nxt.val ∧ g.prog = m.prog.val ∧
    g.concluded = m.concluded ∧ m.chosen = (if g.nothing then Act.nothing else s.chosen))

theorem C19_gen_ctl_tap3_progress (s : St) (he : s.err = false) (rkc rs : Bool) :
    Agree s (progress s) (Gen.AgentsCtl.tap3ProgressKillChain initial rkc rs mem (enc s)) := by
  obtain ⟨cur, nxt, prog, conc, ne, ct, ch, hi, sn, aq, na, se, ss, cp, ca, nu, cr, pl, er, de⟩ := s
  simp only at he
  subst he
  cases cur <;> cases nxt <;>
    simp [Agree, progress, Gen.AgentsCtl.tap3ProgressKillChain, enc, mem, Stage.ofVal?, Stage.all, Stage.val, St.raise,
      Progress.val]

theorem C19_gen_ctl_tap3_outcome (c : Cfg) (s : St) (he : s.err = false) (rs : Bool) :
    Agree s (outcomeHandler c s) (Gen.AgentsCtl.tapOutcomeHandler initial c.repeatKillChain rs mem (enc s)) := by
  obtain ⟨cur, nxt, prog, conc, ne, ct, ch, hi, sn, aq, na, se, ss, cp, ca, nu, cr, pl, er, de⟩ := s
  simp only at he
  subst he
  cases cur <;> cases conc <;> cases hr : c.repeatKillChain <;>
    simp [Agree, outcomeHandler, Gen.AgentsCtl.tapOutcomeHandler, enc, initial, Stage.val, Progress.val, hr]

theorem C19_gen_ctl_tap3_start (s : St) (he : s.err = false) (rkc rs : Bool) :
    Agree s (tapStart s) (Gen.AgentsCtl.tapStart initial rkc rs mem (enc s)) := by
  obtain ⟨cur, nxt, prog, conc, ne, ct, ch, hi, sn, aq, na, se, ss, cp, ca, nu, cr, pl, er, de⟩ := s
  simp only at he
  subst he
  cases cur <;>
    simp [Agree, tapStart, Gen.AgentsCtl.tapStart, enc, mem, initial, Stage.ofVal?, Stage.all, Stage.val]

/-- `_tap_return_handler` on an existing history item: the model's `returnHandler`, and the answer is `response ok`. -/
theorem C19_gen_ctl_tap3_return (c : Cfg) (h : Hist) (s : St) (he : s.err = false) (rkc : Bool) :
    Agree s (returnHandler c h s) (Gen.AgentsCtl.tapReturnHandler initial rkc c.repeatStages mem false h.resp.ok (enc s)).1 ∧
    (Gen.AgentsCtl.tapReturnHandler initial rkc c.repeatStages mem false h.resp.ok (enc s)).2 = h.resp.ok := by
  obtain ⟨cur, nxt, prog, conc, ne, ct, ch, hi, sn, aq, na, se, ss, cp, ca, nu, cr, pl, er, de⟩ := s
  simp only at he
  subst he
  cases hk : h.resp.ok <;> cases hr : c.repeatStages <;>
    simp [Agree, returnHandler, Gen.AgentsCtl.tapReturnHandler, enc, Stage.val, hk, hr]

/-- … and without an item to look back at (`timestep >= len(history)`) it answers True and changes nothing — what
`lookBack`'s synthetic successful item stands for. -/
theorem C19_gen_ctl_return_no_item (initial : Int) (rkc rs ok : Bool) (mem : Int → Bool) (g : Ctl) :
    Gen.AgentsCtl.tapReturnHandler initial rkc rs mem true ok g = (g, true) := by
  simp [Gen.AgentsCtl.tapReturnHandler]

/-- `_agent_trial_handler`: a failed trial is the model's `failStage`, a passed one changes nothing. -/
theorem C19_gen_ctl_tap3_trial (c : Cfg) (s : St) (he : s.err = false) (rkc : Bool) :
    Agree s (failStage c s) (Gen.AgentsCtl.agentTrialHandler initial rkc c.repeatStages mem false (enc s)).1 ∧
    (Gen.AgentsCtl.agentTrialHandler initial rkc c.repeatStages mem false (enc s)).2 = false ∧
    Gen.AgentsCtl.agentTrialHandler initial rkc c.repeatStages mem true (enc s) = (enc s, true) := by
  obtain ⟨cur, nxt, prog, conc, ne, ct, ch, hi, sn, aq, na, se, ss, cp, ca, nu, cr, pl, er, de⟩ := s
  simp only at he
  subst he
  cases hr : c.repeatStages <;>
    simp [Agree, failStage, Gen.AgentsCtl.agentTrialHandler, enc, Stage.val, hr]

end Tap3

namespace Tap1

def enc (s : St) : Ctl := { cur := s.cur.val, nxt := s.nxt.val, prog := s.prog.val, concluded := s.concluded }
def mem (v : Int) : Bool := (Stage.ofVal? v).isSome
def initial : Int := Stage.download.val

def Agree (s m : St) (g : Ctl) : Prop :=
  g.raised = m.err ∧ (g.raised = false → g.cur = m.cur.val ∧ g.nxt = m.nxt.val ∧ g.prog = m.prog.val ∧
    g.concluded = m.concluded ∧ m.chosen = (if g.nothing then Act.nothing else s.chosen))

theorem C19_gen_ctl_tap1_progress (s : St) (he : s.err = false) (rkc rs : Bool) :
    Agree s (progress s) (Gen.AgentsCtl.tap1ProgressKillChain initial rkc rs mem (enc s)) := by
  cases hc : s.cur <;> cases hn : s.nxt <;>
    simp [Agree, progress, Gen.AgentsCtl.tap1ProgressKillChain, enc, mem, Stage.ofVal?, Stage.all, Stage.val, St.raise,
      Progress.val, hc, hn, he]

theorem C19_gen_ctl_tap1_outcome (c : Cfg) (s : St) (he : s.err = false) (rs : Bool) :
    Agree s (outcomeHandler c s) (Gen.AgentsCtl.tapOutcomeHandler initial c.repeatKillChain rs mem (enc s)) := by
  cases hc : s.cur <;> cases hcc : s.concluded <;> cases hr : c.repeatKillChain <;>
    simp [Agree, outcomeHandler, Gen.AgentsCtl.tapOutcomeHandler, enc, initial, Stage.val, Progress.val, hr, hc, hcc, he]

theorem C19_gen_ctl_tap1_start (s : St) (he : s.err = false) (rkc rs : Bool) :
    Agree s (tapStart s) (Gen.AgentsCtl.tapStart initial rkc rs mem (enc s)) := by
  cases hc : s.cur <;>
    simp [Agree, tapStart, Gen.AgentsCtl.tapStart, enc, mem, initial, Stage.ofVal?, Stage.all, Stage.val, hc, he]

theorem C19_gen_ctl_tap1_return (c : Cfg) (h : Hist) (s : St) (he : s.err = false) (rkc : Bool) :
    Agree s (returnHandler c h s) (Gen.AgentsCtl.tapReturnHandler initial rkc c.repeatStages mem false h.resp.ok (enc s)).1 ∧
    (Gen.AgentsCtl.tapReturnHandler initial rkc c.repeatStages mem false h.resp.ok (enc s)).2 = h.resp.ok := by
  cases hk : h.resp.ok <;> cases hr : c.repeatStages <;>
    simp [Agree, returnHandler, Gen.AgentsCtl.tapReturnHandler, enc, Stage.val, hk, hr, he]

theorem C19_gen_ctl_tap1_trial (c : Cfg) (s : St) (he : s.err = false) (rkc : Bool) :
    Agree s (failStage c s) (Gen.AgentsCtl.agentTrialHandler initial rkc c.repeatStages mem false (enc s)).1 ∧
    (Gen.AgentsCtl.agentTrialHandler initial rkc c.repeatStages mem false (enc s)).2 = false ∧
    Gen.AgentsCtl.agentTrialHandler initial rkc c.repeatStages mem true (enc s) = (enc s, true) := by
  cases hr : c.repeatStages <;>
    simp [Agree, failStage, Gen.AgentsCtl.agentTrialHandler, enc, Stage.val, hr, he]

end Tap1

/-! ## The responses TAP003 reads (`SimOk`, Props/C19Wf.lean) against the sites that build them -/

/-- The keys `_handle_login_response` reads from a login response. -/
def loginKeysRead : List String :=
  (Gen.AgentsCtl.tap3DataReads.filter (·.1 == "_handle_login_response")).map (·.2)

/-- **`SimOk` holds of the construction sites.**
(1) the simulation answers the `do-nothing` request with `success`;
(2) EVERY `RequestResponse` that `Terminal._remote_login` builds with status `success` carries every key
    `_handle_login_response` reads (the comparison is by key sets: a further key, another order, a further failure
    site keep it);
(3) TAP003 reads `response.data` nowhere else than in `_handle_login_response` (behind the guards "action is
    node-session-remote-login and status is success") and, for `reason`, in `get_action` inside
    `if current stage == PLANNING` — the two raise points `Tap3.handleLogin` and `Tap3.reasonCheck` of the model.
Assumed, not proved: that the response recorded for an action in `agent.history` is the one these handlers return (request
routing through the RequestManager tree and the permission validators in front of them, which answer `failure` /
`unreachable`, never `success`), and that a do-nothing ACTION is formed into the `do-nothing` request. -/
theorem C19_gen_resp_wf_sites :
    Gen.AgentsCtl.doNothingStatus = "success" ∧
    (Gen.AgentsCtl.remoteLoginSites.any (·.1 == "success")) = true ∧
    (Gen.AgentsCtl.remoteLoginSites.all fun st => st.1 != "success" || loginKeysRead.all (st.2.contains ·)) = true ∧
    (Gen.AgentsCtl.tap3DataReads.all fun r => r.1 == "_handle_login_response" || (r.1 == "get_action" && r.2 == "reason")) = true ∧
    Gen.AgentsCtl.tap3ReasonGuard = "self.current_kill_chain_stage == InsiderKillChain.PLANNING" ∧
    Gen.AgentsCtl.tap3LoginGuards = ["not self.history",
      "not last_hist_item.action == 'node-session-remote-login' or last_hist_item.response.status != 'success'"] := by
  decide

end Primaite.Agents
