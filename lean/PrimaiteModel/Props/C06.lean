/-
C06 — blocking is effective: a host cut off from another cannot affect it; a denied frame is never forwarded
nor handed to the device's own software.

Layer 1 (element lemmas): what one interface / router / firewall does with one frame (Model/Filter.lean).
Layer 2 (cut theorem): any sequence of operations on the attacker side of a cut leaves every protected node's
state unchanged (generic part in Lemmas/C06Cut.lean, instantiated here for PrimAITE's element kinds).
Software above the filtering layer is an arbitrary parameter (`Soft`): every theorem holds for all of it.
-/
import PrimaiteModel.Model.Filter
import PrimaiteModel.Lemmas.C06Cut
import PrimaiteModel.Props.C07
import PrimaiteModel.Gen.Filter
namespace Primaite.Filter
open Primaite Primaite.Acl Primaite.Cut

variable {W : Type}

/-! ## 1. Element lemmas -/

/-! ### interfaces -/

/-- **A disabled (or absent) interface receives nothing**: the node's state is untouched, nothing is emitted,
whatever the node kind, power state, rule lists and software. -/
theorem C06_iface_disabled_inert_rx (soft : Soft W) (s : Node W) (p : Nat) (f : Frame)
    (h : portEnabled s p = false) : nodeRx soft s p f = .done s := by
  unfold nodeRx
  unfold portEnabled at h
  cases hi : s.ifaces[p]? with
  | none => rfl
  | some i =>
    simp only [hi] at h
    simp [ifaceRx, h]

/-- Every emission of a script satisfies `Q own-state port frame` at the moment it is made. -/
inductive Emits {S Port F : Type} (Q : S → Port → F → Prop) : Act S Port F → Prop
  | done {s} : Emits Q (.done s)
  | send {s q g k} : Q s q g → (∀ s', Emits Q (k s')) → Emits Q (.send s q g k)

/-- **A disabled interface sends nothing**: behind the interface-send layer every emission happens on a port
that is enabled in the node's state at that moment — for every script. -/
theorem C06_iface_disabled_inert_tx (a : Script W) :
    Emits (fun s q _ => portEnabled s q = true) (guardSends portEnabled a) := by
  induction a with
  | done s => exact Emits.done
  | send s q g k ih =>
    simp only [guardSends]
    split
    · rename_i h; exact Emits.send h (fun s' => ih s')
    · exact ih s

/-- Every emission of a whole element goes through the interface-send layer. -/
theorem C06_node_tx_only_enabled (soft : Soft W) (s : Node W) (p : Nat) (f : Frame) :
    Emits (fun s q _ => portEnabled s q = true) (nodeRx soft s p f) := by
  unfold nodeRx
  split
  · exact Emits.done
  · split
    · exact C06_iface_disabled_inert_tx _
    · exact Emits.done

/-- A frame whose TTL is exhausted at the receiving interface is dropped before the node sees it. -/
theorem C06_ttl_expired_inert (soft : Soft W) (s : Node W) (p : Nat) (f : Frame) (h : f.ttl ≤ 1) :
    nodeRx soft s p f = .done s := by
  unfold nodeRx
  cases hi : s.ifaces[p]? with
  | none => rfl
  | some i =>
    have : f.ttl - 1 < 1 := by omega
    cases he : i.enabled <;> simp [ifaceRx, he, this]

/-- **Hosts emit their own source** (`SessionManager.receive_payload_from_software_manager`): every frame a
host's software puts on a wire carries the MAC and IP of the interface it leaves through. -/
theorem C06_host_emits_own_src (a : Script W) :
    Emits (fun s q g => ∀ i, s.ifaces[q]? = some i → g.srcMac = i.mac ∧ g.pkt.srcIp = i.ip) (localOp a) := by
  unfold localOp
  induction a with
  | done s => exact Emits.done
  | send s q g k ih =>
    simp only [stampSends, guardSends]
    split
    · refine Emits.send ?_ (fun s' => ih s')
      intro i hi
      simp [ownSrc, hi]
    · exact ih s

/-! ### power -/

/-- **A router that is not ON ignores every frame**, even on an enabled interface. -/
theorem C06_router_off_inert (soft : Soft W) (s : Node W) (p : Nat) (f : Frame)
    (hk : s.kind = .router) (hoff : s.on = false) : nodeRx soft s p f = .done s := by
  unfold nodeRx
  split
  · rfl
  · split
    · simp [nodeLayer, hk, routerRx, routerRxWith, hoff, guardSends]
    · rfl

/-- The statement one would like for every node kind: a node that is not ON ignores frames. -/
def C06_FullNodeOffInert : Prop :=
  ∀ (soft : Soft Unit) (s : Node Unit) (p : Nat) (f : Frame), s.on = false → nodeRx soft s p f = .done s

/-- What the code gives: it holds for routers (explicit guard) and for every node whose interfaces are all
disabled — the invariant "not ON ⇒ interfaces disabled" is C12's (it holds in every reachable state since the
repair of F-14; `Gen.Filter.powerGuard` keeps the missing guards visible). -/
theorem C06_node_off_inert_partial (soft : Soft W) (s : Node W) (p : Nat) (f : Frame) (hoff : s.on = false)
    (h : s.kind = .router ∨ ∀ i ∈ s.ifaces, i.enabled = false) : nodeRx soft s p f = .done s := by
  rcases h with hk | hall
  · exact C06_router_off_inert soft s p f hk hoff
  · apply C06_iface_disabled_inert_rx
    unfold portEnabled
    cases hi : s.ifaces[p]? with
    | none => rfl
    | some i => exact hall i (List.mem_of_getElem? hi)

/-- a host that is OFF with its NIC still enabled (was reachable on the unchanged tree through `power_off` with
`shut_down_duration = 0`, F-14; after C12's repair no request sequence produces it any more, but nothing in
`HostNode.receive_frame` itself excludes it) -/
def exOffHost : Node Unit :=
  { kind := .host, on := false, ifaces := [{ enabled := true, mac := 7, ip := 0x0A000202#32, mask := 0xFFFFFF00#32 }],
    acls := fun _ => Acl.empty 0 .deny, sw := () }

def exPing : Frame :=
  { srcMac := 5, dstMac := 7, pkt := { proto := .icmp, srcIp := 0x0A000102#32, dstIp := 0x0A000202#32, ports := none },
    ttl := 63, arp := false, tag := 0 }

/-- software that answers every accepted frame on the port it came from -/
def exEchoSoft : Soft Unit :=
  { capture := fun _ _ _ => (), learn := fun _ _ _ => (), hostAccept := fun _ _ => true, toSession := fun _ _ => true,
    session := fun s p f => .send s p f (fun s' => .done s'), process := fun s p f => .send s p f (fun s' => .done s'),
    dmzLookup := fun s _ _ => .done s, dmzOutNic := fun _ _ => none,
    switchFwd := fun s p f => .send s p f (fun s' => .done s') }

/-- F-13: `HostNode.receive_frame` (likewise `Switch`, `Firewall`) has no operating-state guard of its own:
an OFF host whose NIC is enabled hands the frame to its software, which answers. -/
theorem C06_node_off_counterexample : ¬ C06_FullNodeOffInert := by
  intro h
  have := h exEchoSoft exOffHost 0 exPing rfl
  simp [nodeRx, exOffHost, exPing, ifaceRx, nodeLayer, hostRx, exEchoSoft, guardSends, portEnabled, bcastMac] at this

/-! ### rule lists -/

/-- A list that denies every packet (e.g. an any-any DENY rule ahead of every other rule). -/
def DeniesAll (a : Acl) : Prop := ∀ pkt, (isPermitted a pkt).1 = false

/-- A list that denies every packet of class `C`. -/
def DeniesClass (C : Packet → Prop) (a : Acl) : Prop := ∀ pkt, C pkt → (isPermitted a pkt).1 = false

/-- Hit counters never weaken a block: after any verdict the list denies the same class. -/
theorem deniesClass_stable (C : Packet → Prop) (a : Acl) (q : Packet) (h : DeniesClass C a) :
    DeniesClass C (isPermitted a q).2.2 := by
  intro pkt hc
  have := (C07_verdict_stable a pkt q).1
  exact this.trans (h pkt hc)

theorem deniesAll_stable (a : Acl) (q : Packet) (h : DeniesAll a) : DeniesAll (isPermitted a q).2.2 := by
  intro pkt
  exact deniesClass_stable (fun _ => True) a q (fun p _ => h p) pkt trivial

/-- the any-any DENY rule -/
def denyAnyAny : Rule :=
  { action := .deny, proto := none, srcIp := none, srcWc := none, dstIp := none, dstWc := none, srcPort := none, dstPort := none }

theorem firstMatch_skip_nones (p : Packet) (k off : Nat) (rest : List (Option Rule)) :
    firstMatch p (List.replicate k none ++ rest) off = firstMatch p rest (off + k) := by
  induction k generalizing off with
  | zero => simp
  | succ k ih =>
    simp only [List.replicate_succ, List.cons_append, firstMatch]
    rw [ih]
    congr 1
    omega

/-- **Rule shape "any-any"**: if the first non-empty slot holds a DENY rule with no field specified, the list
denies everything, whatever follows and whatever the implicit action. -/
theorem deniesAll_of_first_anyany (k : Nat) (r : Rule) (rest : List (Option Rule)) (imp : Action) (ih : Nat)
    (hr : r.action = .deny ∧ r.proto = none ∧ r.srcIp = none ∧ r.dstIp = none ∧ r.srcPort = none ∧ r.dstPort = none) :
    DeniesAll { rules := List.replicate k none ++ some r :: rest, implicit := imp, implicitHits := ih } := by
  intro pkt
  obtain ⟨h1, h2, h3, h4, h5, h6⟩ := hr
  have hm : r.hits? pkt = true := by
    simp [Rule.hits?, protoMatches, addrMatches, portMatches, h2, h3, h4, h5, h6]
  simp [isPermitted, firstMatch_skip_nones, firstMatch, hm, h1]

/-- **Rule shape "source range"** (exact address when the wildcard is absent): a DENY rule in the first
non-empty slot that specifies only a source address / wildcard denies every packet whose source it covers. -/
theorem deniesClass_of_first_src (k : Nat) (r : Rule) (rest : List (Option Rule)) (imp : Action) (ih : Nat)
    (hr : r.action = .deny ∧ r.proto = none ∧ r.dstIp = none ∧ r.srcPort = none ∧ r.dstPort = none) :
    DeniesClass (fun pkt => addrMatches r.srcIp r.srcWc pkt.srcIp = true)
      { rules := List.replicate k none ++ some r :: rest, implicit := imp, implicitHits := ih } := by
  intro pkt hc
  obtain ⟨h1, h2, h4, h5, h6⟩ := hr
  have hm : r.hits? pkt = true := by
    simp [Rule.hits?, protoMatches, portMatches, h2, h5, h6, hc]
    simp [addrMatches, h4]
  simp [isPermitted, firstMatch_skip_nones, firstMatch, hm, h1]

/-- An empty list with implicit DENY (a firewall's internal and DMZ lists by default) denies everything. -/
theorem deniesAll_of_empty (k : Nat) (ih : Nat) :
    DeniesAll { rules := List.replicate k none, implicit := .deny, implicitHits := ih } := by
  intro pkt
  have : firstMatch pkt (List.replicate k none) 0 = none := by
    have := firstMatch_skip_nones pkt k 0 []
    simpa [firstMatch] using this
  simp [isPermitted, this]

/-! ### router -/

/-- **A frame the router's list denies is inert**: the handler finishes at once; the only change is the
deciding rule's hit counter — no ARP learning (`sw` untouched), no delivery to the session manager, no
`process_frame`, nothing emitted. -/
theorem C06_router_deny_inert (soft : Soft W) (s : Node W) (p : Nat) (f : Frame)
    (hk : s.kind = .router) (hon : s.on = true) (hsub : subjectToAcl f = some true)
    (hdeny : (isPermitted (s.acls .router) f.pkt).1 = false) :
    nodeLayer soft s p f = .done (s.setAcl .router (isPermitted (s.acls .router) f.pkt).2.2) := by
  simp [nodeLayer, hk, routerRx, routerRxWith, hon, hsub, hdeny]

/-- The same through the interface: the frame arrives on an enabled interface, addressed to it, TTL alive. -/
theorem C06_router_deny_inert_rx (soft : Soft W) (s : Node W) (p : Nat) (i : Iface) (f f' : Frame)
    (hi : s.ifaces[p]? = some i) (hg : ifaceRx s.kind s.ifaces i f = .up f')
    (hk : s.kind = .router) (hon : s.on = true) (hsub : subjectToAcl f' = some true)
    (hdeny : (isPermitted (s.acls .router) f'.pkt).1 = false) :
    nodeRx soft s p f = .done (s.setAcl .router (isPermitted (s.acls .router) f'.pkt).2.2) := by
  simp [nodeRx, hi, hg, C06_router_deny_inert soft s p f' hk hon hsub hdeny, guardSends]

/-- What `setAcl` touches: one list; power, interfaces, software state and the other lists stay. -/
theorem setAcl_frame (s : Node W) (a : AclId) (x : Acl) :
    (s.setAcl a x).kind = s.kind ∧ (s.setAcl a x).on = s.on ∧ (s.setAcl a x).ifaces = s.ifaces ∧
    (s.setAcl a x).sw = s.sw ∧ (s.setAcl a x).acls a = x ∧ ∀ b, b ≠ a → (s.setAcl a x).acls b = s.acls b := by
  refine ⟨rfl, rfl, rfl, rfl, by simp [Node.setAcl], ?_⟩
  intro b hb
  simp [Node.setAcl, hb]

/-- Which frames skip the router's list: exactly UDP frames to port 219 that carry an ARP packet. -/
theorem C06_router_exempt_iff (f : Frame) :
    subjectToAcl f = some false ↔ f.pkt.proto = .udp ∧ f.arp = true ∧ ∃ sp, f.pkt.ports = some (sp, arpPort) := by
  unfold subjectToAcl
  by_cases hp : f.pkt.proto = .udp
  · cases hports : f.pkt.ports with
    | none => simp [hp]
    | some sd =>
      obtain ⟨sp, d⟩ := sd
      simp [hp]
      constructor
      · rintro ⟨h1, h2⟩; exact ⟨h2, h1⟩
      · rintro ⟨h1, h2⟩; exact ⟨h2, h1⟩
  · simp [hp]

/-- With a deny-everything list, a router drops every frame that does not carry an ARP packet
(frames whose IP protocol says UDP are assumed to have a UDP header, as the session manager builds them). -/
theorem C06_router_deny_all_nonarp_inert (soft : Soft W) (s : Node W) (p : Nat) (f : Frame)
    (hk : s.kind = .router) (hall : DeniesAll (s.acls .router)) (hna : f.arp = false)
    (hwf : f.pkt.proto = .udp → f.pkt.ports ≠ none) :
    ∃ s', nodeLayer soft s p f = .done s' ∧ s'.sw = s.sw ∧ s'.ifaces = s.ifaces ∧ s'.on = s.on := by
  cases hon : s.on with
  | false => exact ⟨s, by simp [nodeLayer, hk, routerRx, routerRxWith, hon], rfl, rfl, hon⟩
  | true =>
    have hsub : subjectToAcl f = some true := by
      unfold subjectToAcl
      by_cases hp : f.pkt.proto = .udp
      · cases hports : f.pkt.ports with
        | none => exact absurd hports (hwf hp)
        | some sd => simp [hp, hna]
      · simp [hp]
    exact ⟨_, C06_router_deny_inert soft s p f hk hon hsub (hall f.pkt), rfl, rfl, hon⟩

/-- The router as it was before the repair of F-33 (every UDP frame to port 219 skipped the list). -/
def C06_FullRouterDenyUnfixed : Prop :=
  ∀ (soft : Soft Unit) (s : Node Unit) (p : Nat) (f : Frame), s.kind = .router → DeniesAll (s.acls .router) →
    f.arp = false → ∃ s', routerRxWith subjectToAclUnfixed soft s p f = .done s'

def exDenyAllAcl : Acl := { rules := [some denyAnyAny] ++ List.replicate 23 none, implicit := .deny }

def exRouter : Node Unit :=
  { kind := .router, on := true,
    ifaces := [{ enabled := true, mac := 1, ip := 0x0A000101#32, mask := 0xFFFFFF00#32 },
               { enabled := true, mac := 2, ip := 0x0A000201#32, mask := 0xFFFFFF00#32 }],
    acls := fun _ => exDenyAllAcl, sw := () }

/-- an nmap port-scan probe: UDP, destination port 219, payload not an ARP packet -/
def exScan219 : Frame :=
  { srcMac := 5, dstMac := 1, pkt := { proto := .udp, srcIp := 0x0A000102#32, dstIp := 0x0A000202#32, ports := some (219, 219) },
    ttl := 63, arp := false, tag := 1 }

theorem exDenyAllAcl_deniesAll : DeniesAll exDenyAllAcl :=
  deniesAll_of_first_anyany 0 denyAnyAny (List.replicate 23 none) .deny 0 ⟨rfl, rfl, rfl, rfl, rfl, rfl⟩

/-- F-33 (found by this check, repaired): on the unchanged tree a router whose list denies everything still
handed a UDP/219 data frame to `process_frame`, which forwarded it. -/
theorem C06_router_deny_unfixed_counterexample : ¬ C06_FullRouterDenyUnfixed := by
  intro h
  obtain ⟨s', hs'⟩ := h exEchoSoft exRouter 0 exScan219 rfl exDenyAllAcl_deniesAll rfl
  simp [routerRxWith, subjectToAclUnfixed, exRouter, exScan219, arpPort, permitted, exEchoSoft] at hs'

/-- non-vacuity of `C06_router_deny_all_nonarp_inert` on the same witness, repaired test -/
example : ∃ s', nodeLayer exEchoSoft exRouter 0 exScan219 = .done s' ∧ s'.sw = exRouter.sw :=
  let ⟨s', h, hsw, _, _⟩ := C06_router_deny_all_nonarp_inert exEchoSoft exRouter 0 exScan219 rfl
    exDenyAllAcl_deniesAll rfl (by simp [exScan219])
  ⟨s', h, hsw⟩

/-! ### firewall -/

/-- **First-stage entry points** (`_process_external_inbound_frame`, `_process_internal_outbound_frame`,
`_process_dmz_outbound_frame`): a frame denied by the arrival zone's list is inert — only that list's hit
counter changes; no ARP learning, no session manager, no second stage, nothing emitted. No frame is exempt and
the firewall's power state is not consulted. -/
theorem C06_firewall_first_deny_inert (soft : Soft W) (s : Node W) (p : Nat) (f : Frame) (e : FwEntry)
    (hk : s.kind = .firewall) (hp : portEntry p = some e)
    (hdeny : (isPermitted (s.acls (entryAcl e)) f.pkt).1 = false) :
    nodeLayer soft s p f = .done (s.setAcl (entryAcl e) (isPermitted (s.acls (entryAcl e)) f.pkt).2.2) := by
  simp [nodeLayer, hk, fwRx, hp, fwFirst, hdeny]

/-- **Second-stage entry points** (`_process_external_outbound_frame`, `_process_internal_inbound_frame`,
`_process_dmz_inbound_frame`): a frame denied by the destination zone's list never reaches `process_frame`. -/
theorem C06_firewall_final_deny_inert (soft : Soft W) (s : Node W) (p : Nat) (f : Frame) (e : FwEntry)
    (hdeny : (isPermitted (s.acls (entryAcl e)) f.pkt).1 = false) :
    fwFinal soft e s p f = .done (s.setAcl (entryAcl e) (isPermitted (s.acls (entryAcl e)) f.pkt).2.2) := by
  simp [fwFinal, hdeny]

/-- zones -/
inductive Zone | ext | int | dmz
deriving DecidableEq, Repr

/-- The zone → list table: arrival zone, destination zone ↦ second list consulted (`none` = dropped without a
second verdict). Quirks kept: a frame from the external zone that is not for the DMZ network is checked against
*internal inbound* whatever its real destination; likewise internal → non-DMZ is checked against
*external outbound*. -/
def zoneTable : Zone → Zone → Option FwEntry
  | .ext, .dmz => some .dmzIn
  | .ext, _ => some .intIn
  | .int, .dmz => some .dmzIn
  | .int, _ => some .extOut
  | .dmz, .ext => some .extOut
  | .dmz, .int => some .intIn
  | .dmz, .dmz => none

def zoneEntry : Zone → FwEntry
  | .ext => .extIn | .int => .intOut | .dmz => .dmzOut
def zonePort : Zone → Nat
  | .ext => extPort | .int => intPort | .dmz => dmzPort

/-- destination zone as the code determines it, per arrival zone -/
def dstZone (soft : Soft W) (z : Zone) (s : Node W) (f : Frame) : Option Zone :=
  match z with
  | .dmz =>
    match soft.dmzOutNic s f with
    | some q => if q = extPort then some .ext else if q = intPort then some .int else none
    | none => none
  | .ext => if inDmzNet s f then some .dmz else some .int
  | .int => if inDmzNet s f then some .dmz else some .ext

/-- **`firewall_path`**: for a frame arriving from zone `z₁`, permitted by `z₁`'s first list and not addressed
to the firewall's own software, the second stage is exactly the `zoneTable z₁ z₂` entry point (with its list),
where `z₂` is the destination zone as resolved by the code (from the DMZ a layer-2 broadcast is dropped before any look-up). -/
theorem C06_firewall_path (soft : Soft W) (z₁ : Zone) (s2 : Node W) (f : Frame) :
    fwNext soft (zoneEntry z₁) (zonePort z₁) f s2 =
      match z₁ with
      | .dmz =>
        if f.dstMac == bcastMac then .done s2 else
        (soft.dmzLookup s2 (zonePort .dmz) f).bind fun s3 =>
          match (dstZone soft .dmz s3 f).bind (zoneTable .dmz) with
          | some e => fwFinal soft e s3 (zonePort .dmz) f
          | none => .done s3
      | z => match (dstZone soft z s2 f).bind (zoneTable z) with
          | some e => fwFinal soft e s2 (zonePort z) f
          | none => .done s2 := by
  cases z₁ with
  | ext => simp only [zoneEntry, fwNext, dstZone]; split <;> simp [zoneTable]
  | int => simp only [zoneEntry, fwNext, dstZone]; split <;> simp [zoneTable]
  | dmz =>
    simp only [zoneEntry, fwNext, dstZone]
    split
    · rfl
    congr 1
    funext s3
    cases soft.dmzOutNic s3 f with
    | none => simp
    | some q =>
      by_cases h1 : q = extPort
      · simp [h1, zoneTable]
      · by_cases h2 : q = intPort
        · simp [h2, zoneTable, extPort, intPort]
        · simp [h1, h2]

/-- The arrival port selects the first list: external ↦ external inbound, internal ↦ internal outbound,
DMZ ↦ DMZ outbound; frames on any other port are dropped. -/
theorem C06_firewall_first_list (z : Zone) : portEntry (zonePort z) = some (zoneEntry z) := by
  cases z <;> rfl

/-! ## 2. The cut theorem for PrimAITE's element kinds -/

section cut
variable {N : Type} [DecidableEq N]

/-- frame class: "arrived over a wire from an attacker-side node" (no restriction on its contents) -/
def SideFacing (sys : Sys N Nat Frame (Node W)) (side : N → Bool) (n : N) (p : Nat) : Prop :=
  ∃ n' q, side n' = true ∧ sys.wire n' q = some (n, p)

def FromSide (sys : Sys N Nat Frame (Node W)) (side : N → Bool) (n : N) (p : Nat) (_ : Frame) : Prop :=
  SideFacing sys side n p

/-- Why an attacker-side node lets nothing through to the protected side. -/
inductive Role (W : Type)
  /-- every wire of the node stays on the attacker side (A itself, its switches, routers, …): the node may do anything -/
  | interior
  /-- an element (of any kind) whose every interface towards the protected side is disabled — this covers a
      disabled router / switch / firewall port, a disabled NIC, and a powered-off device (C12: not ON ⇒ interfaces
      disabled) -/
  | ifaceDown (soft : Soft W)
  /-- a router that is not ON -/
  | routerOff (soft : Soft W)
  /-- a router whose list denies everything -/
  | routerDeny (soft : Soft W)
  /-- a firewall whose first-stage list denies everything on every port facing the attacker side -/
  | fwDeny (soft : Soft W)
  /-- a device whose every interface facing the attacker side is disabled (B itself powered off or with its NIC
      disabled, a switch / router / firewall on B's side whose uplink port is disabled): it may be wired to enabled
      attacker-side ports; its state stays exactly `s0` -/
  | frozen (soft : Soft W) (s0 : Node W)

/-- every port of `n` whose wire leaves the attacker side is disabled -/
def BoundaryDown (sys : Sys N Nat Frame (Node W)) (side : N → Bool) (n : N) (s : Node W) : Prop :=
  ∀ q m r, sys.wire n q = some (m, r) → side m = false → portEnabled s q = false

/-- the invariant each role maintains -/
def inv (sys : Sys N Nat Frame (Node W)) (side : N → Bool) (role : N → Role W) (n : N) (s : Node W) : Prop :=
  match role n with
  | .interior => True
  | .ifaceDown _ => BoundaryDown sys side n s
  | .routerOff _ => s.kind = .router ∧ s.on = false
  | .routerDeny _ => s.kind = .router ∧ DeniesAll (s.acls .router)
  | .fwDeny _ => s.kind = .firewall ∧
      ∀ p e, SideFacing sys side n p → portEntry p = some e → DeniesAll (s.acls (entryAcl e))
  | .frozen _ s0 => s = s0 ∧ ∀ p, SideFacing sys side n p → portEnabled s0 p = false

/-- The software of an element never writes a state violating `P` (e.g. never re-enables a boundary interface
while processing frames). -/
structure SoftKeeps (soft : Soft W) (P : Node W → Prop) : Prop where
  session : ∀ s p f, P s → Pres P (soft.session s p f)
  process : ∀ s p f, P s → Pres P (soft.process s p f)
  dmzLookup : ∀ s p f, P s → Pres P (soft.dmzLookup s p f)
  switchFwd : ∀ s p f, P s → Pres P (soft.switchFwd s p f)

/-- what must be checked of each attacker-side node, by role -/
def RoleOK (sys : Sys N Nat Frame (Node W)) (side : N → Bool) (role : N → Role W) (n : N) : Prop :=
  match role n with
  | .interior => ∀ q m r, sys.wire n q = some (m, r) → side m = true
  | .ifaceDown soft => sys.handler n = nodeRx soft ∧ SoftKeeps soft (BoundaryDown sys side n)
  | .routerOff soft => sys.handler n = nodeRx soft
  | .routerDeny soft => sys.handler n = nodeRx soft ∧
      -- the only frames that skip the list are ARP packets; what the router's ARP handling emits stays on the attacker side
      ∀ s p f, inv sys side role n s → SideFacing sys side n p → subjectToAcl f = some false →
        SafeAct sys side (FromSide sys side) (inv sys side role) n (guardSends portEnabled (permitted soft s p f))
  | .fwDeny soft => sys.handler n = nodeRx soft
  | .frozen soft _ => sys.handler n = nodeRx soft

omit [DecidableEq N] in
theorem fromSide_of_wire (sys : Sys N Nat Frame (Node W)) (side : N → Bool) (n : N) (hn : side n = true)
    (q : Nat) (m : N) (r : Nat) (g : Frame) (h : sys.wire n q = some (m, r)) : FromSide sys side m r g :=
  ⟨n, q, hn, h⟩

/-- predicates that only read the interfaces survive counter bumps and software-state updates -/
theorem nodeLayer_pres (soft : Soft W) (P : Node W → Prop) (hsw : ∀ s x, P s → P { s with sw := x })
    (hacl : ∀ s a x, P s → P (s.setAcl a x)) (hk : SoftKeeps soft P) (s : Node W) (p : Nat) (f : Frame) (hs : P s) :
    Pres P (nodeLayer soft s p f) := by
  have hfinal : ∀ e s, P s → Pres P (fwFinal soft e s p f) := by
    intro e s hs
    simp only [fwFinal]
    split
    · exact Pres.done (hacl _ _ _ hs)
    · exact hk.process _ _ _ (hacl _ _ _ hs)
  have hperm : ∀ s, P s → Pres P (permitted soft s p f) := by
    intro s hs
    simp only [permitted]
    split
    · exact hk.session _ _ _ (hsw _ _ hs)
    · exact hk.process _ _ _ (hsw _ _ hs)
  unfold nodeLayer
  cases hkind : s.kind with
  | host =>
    simp only [hostRx]
    have h0 : P { s with sw := soft.capture s p f } := hsw _ _ hs
    split
    · split
      · exact hk.session _ _ _ (hsw _ _ hs)
      · exact Pres.done (hsw _ _ hs)
    · split
      · exact hk.session _ _ _ h0
      · exact Pres.done h0
  | switch => exact hk.switchFwd _ _ _ hs
  | router =>
    simp only [routerRx, routerRxWith]
    split
    · exact Pres.done hs
    · split
      · exact Pres.done hs
      · exact hperm _ hs
      · split
        · exact Pres.done (hacl _ _ _ hs)
        · exact hperm _ (hacl _ _ _ hs)
  | firewall =>
    simp only [fwRx]
    split
    · rename_i e _
      simp only [fwFirst]
      split
      · exact Pres.done (hacl _ _ _ hs)
      · have h2 := hsw _ (soft.learn (s.setAcl (entryAcl e) (isPermitted (s.acls (entryAcl e)) f.pkt).2.2) p f) (hacl _ (entryAcl e) (isPermitted (s.acls (entryAcl e)) f.pkt).2.2 hs)
        split
        · exact hk.session _ _ _ h2
        · cases e with
          | extIn => simp only [fwNext]; split <;> exact hfinal _ _ h2
          | intOut => simp only [fwNext]; split <;> exact hfinal _ _ h2
          | dmzOut =>
            simp only [fwNext]
            split
            · exact Pres.done h2
            refine pres_bind P _ _ (hk.dmzLookup _ _ _ h2) ?_
            intro s3 hs3
            split
            · split
              · exact hfinal _ _ hs3
              · split
                · exact hfinal _ _ hs3
                · exact Pres.done hs3
            · exact Pres.done hs3
          | extOut => exact Pres.done h2
          | intIn => exact Pres.done h2
          | dmzIn => exact Pres.done h2
    · exact Pres.done hs

theorem boundaryDown_sw (sys : Sys N Nat Frame (Node W)) (side : N → Bool) (n : N) (s : Node W) (x : W)
    (h : BoundaryDown sys side n s) : BoundaryDown sys side n { s with sw := x } := h

theorem boundaryDown_acl (sys : Sys N Nat Frame (Node W)) (side : N → Bool) (n : N) (s : Node W) (a : AclId) (x : Acl)
    (h : BoundaryDown sys side n s) : BoundaryDown sys side n (s.setAcl a x) := h

/-- **Cut theorem for PrimAITE topologies.**  Let `side` mark the attacker side together with the blocking
elements, and give every such node a role.  If every node meets its role's condition, the system is a cut:
every frame that arrives over a wire from the attacker side is processed without anything reaching the
protected side, and the role invariants (interfaces still disabled, router still off, lists still denying —
hit counters change, verdicts do not) are re-established after every step. -/
theorem C06_cut (sys : Sys N Nat Frame (Node W)) (side : N → Bool) (role : N → Role W)
    (hroles : ∀ n, side n = true → RoleOK sys side role n) :
    IsCut sys side (FromSide sys side) (inv sys side role) := by
  constructor
  intro n s p f hn hI hK
  have hKw : ∀ q m r g, sys.wire n q = some (m, r) → FromSide sys side m r g :=
    fun q m r g h => fromSide_of_wire sys side n hn q m r g h
  have hok := hroles n hn
  unfold RoleOK at hok
  cases hr : role n with
  | interior =>
    simp only [hr] at hok
    exact safe_of_interior sys side _ _ n hKw (fun s => by simp [inv, hr]) hok _
  | ifaceDown soft =>
    simp only [hr] at hok
    obtain ⟨hh, hkeeps⟩ := hok
    have hI' : BoundaryDown sys side n s := by simpa [inv, hr] using hI
    have hinv : ∀ s', inv sys side role n s' ↔ BoundaryDown sys side n s' := by intro s'; simp [inv, hr]
    rw [hh]
    unfold nodeRx
    split
    · exact SafeAct.done hI
    · split
      · rename_i f' _
        apply safe_of_guard sys side _ _ n portEnabled hKw
        · intro s' q m r hs' hen hw
          cases hsm : side m with
          | true => rfl
          | false =>
            have := (hinv s').mp hs' q m r hw hsm
            rw [this] at hen; cases hen
        · have hp := nodeLayer_pres soft (BoundaryDown sys side n) (boundaryDown_sw sys side n)
            (boundaryDown_acl sys side n) hkeeps s p f' hI'
          have hfun : inv sys side role n = BoundaryDown sys side n := by funext s'; exact propext (hinv s')
          rw [hfun]; exact hp
      · exact SafeAct.done hI
  | routerOff soft =>
    simp only [hr] at hok
    have hI' : s.kind = .router ∧ s.on = false := by simpa [inv, hr] using hI
    rw [hok, C06_router_off_inert soft s p f hI'.1 hI'.2]
    exact SafeAct.done hI
  | routerDeny soft =>
    simp only [hr] at hok
    obtain ⟨hh, hex⟩ := hok
    have hI' : s.kind = .router ∧ DeniesAll (s.acls .router) := by simpa [inv, hr] using hI
    rw [hh]
    unfold nodeRx
    split
    · exact SafeAct.done hI
    · split
      · rename_i f' _
        have hnl : nodeLayer soft s p f' = routerRxWith subjectToAcl soft s p f' := by
          simp [nodeLayer, hI'.1, routerRx]
        rw [hnl]
        simp only [routerRxWith]
        split
        · exact SafeAct.done hI
        · split
          · exact SafeAct.done hI
          · rename_i hsub
            exact hex s p f' hI hK hsub
          · have hd : (isPermitted (s.acls .router) f'.pkt).1 = false := hI'.2 f'.pkt
            simp only [hd, Bool.not_false, if_true, guardSends]
            apply SafeAct.done
            simp only [inv, hr]
            refine ⟨hI'.1, ?_⟩
            simp only [Node.setAcl, if_true]
            exact deniesAll_stable _ _ hI'.2
      · exact SafeAct.done hI
  | fwDeny soft =>
    simp only [hr] at hok
    have hI' : s.kind = .firewall ∧
        ∀ p e, SideFacing sys side n p → portEntry p = some e → DeniesAll (s.acls (entryAcl e)) := by
      simpa [inv, hr] using hI
    rw [hok]
    unfold nodeRx
    split
    · exact SafeAct.done hI
    · split
      · rename_i f' _
        have hnl : nodeLayer soft s p f' = fwRx soft s p f' := by simp [nodeLayer, hI'.1]
        rw [hnl]
        simp only [fwRx]
        cases hpe : portEntry p with
        | none => exact SafeAct.done hI
        | some e =>
          have hall := hI'.2 p e hK hpe
          have hd : (isPermitted (s.acls (entryAcl e)) f'.pkt).1 = false := hall f'.pkt
          simp only [fwFirst, hd, Bool.not_false, if_true, guardSends]
          apply SafeAct.done
          simp only [inv, hr]
          refine ⟨hI'.1, ?_⟩
          intro p' e' hfs hpe'
          by_cases hee : entryAcl e' = entryAcl e
          · simp only [Node.setAcl, hee, if_true]
            exact deniesAll_stable _ _ hall
          · simp only [Node.setAcl, hee, if_false]
            exact hI'.2 p' e' hfs hpe'
      · exact SafeAct.done hI
  | frozen soft s0 =>
    simp only [hr] at hok
    have hI' : s = s0 ∧ ∀ p, SideFacing sys side n p → portEnabled s0 p = false := by simpa [inv, hr] using hI
    rw [hok, C06_iface_disabled_inert_rx soft s p f (by rw [hI'.1]; exact hI'.2 p hK)]
    exact SafeAct.done hI

/-- **C06, headline.**  In a cut, any sequence of admissible local operations on the attacker side — each
running to completion with all the traffic it triggers, whatever the ARP caches, MAC tables, sessions and
software states are (they are part of the universally quantified initial state) — leaves the state of every
protected node exactly as it was. -/
theorem C06_blocked_unchanged (sys : Sys N Nat Frame (Node W)) (side : N → Bool) (role : N → Role W)
    (hroles : ∀ n, side n = true → RoleOK sys side role n)
    (ops : List (Nat × Op N Nat Frame (Node W)))
    (hops : ∀ o ∈ ops, SafeOp sys side (FromSide sys side) (inv sys side role) o.2)
    (σ : St N (Node W)) (hσ : ∀ n, side n = true → inv sys side role n (σ n)) :
    ∀ t, side t = false → runOps sys σ ops t = σ t :=
  (runOps_good sys side _ _ (C06_cut sys side role hroles) ops σ hops hσ).2

/-- Operations on interior nodes (host A and everything on its side of the block) are admissible whatever
they do: any action, application or attack. -/
theorem C06_safeOp_interior (sys : Sys N Nat Frame (Node W)) (side : N → Bool) (role : N → Role W)
    (o : Op N Nat Frame (Node W)) (hn : side o.node = true) (hr : role o.node = .interior)
    (hw : ∀ q m r, sys.wire o.node q = some (m, r) → side m = true) :
    SafeOp sys side (FromSide sys side) (inv sys side role) o :=
  ⟨hn, fun _ _ => safe_of_interior sys side _ _ o.node
    (fun q m r g h => fromSide_of_wire sys side o.node hn q m r g h) (fun s => by simp [inv, hr]) hw _⟩

/-- Operations on an element whose boundary interfaces are disabled (e.g. A itself with its NIC disabled) are
admissible when they go through the session manager / interface-send layer and do not re-enable the
interface. -/
theorem C06_safeOp_ifaceDown (sys : Sys N Nat Frame (Node W)) (side : N → Bool) (role : N → Role W) (soft : Soft W)
    (n : N) (a : Node W → Script W) (hn : side n = true) (hr : role n = .ifaceDown soft)
    (ha : ∀ s, BoundaryDown sys side n s → Pres (BoundaryDown sys side n) (stampSends ownSrc (a s))) :
    SafeOp sys side (FromSide sys side) (inv sys side role) { node := n, script := fun s => localOp (a s) } := by
  refine ⟨hn, ?_⟩
  intro s hs
  have hinv : ∀ s', inv sys side role n s' ↔ BoundaryDown sys side n s' := by intro s'; simp [inv, hr]
  have hfun : inv sys side role n = BoundaryDown sys side n := by funext s'; exact propext (hinv s')
  show SafeAct sys side _ _ n (guardSends portEnabled (stampSends ownSrc (a s)))
  apply safe_of_guard sys side _ _ n portEnabled (fun q m r g h => fromSide_of_wire sys side n hn q m r g h)
  · intro s' q m r hs' hen hw
    cases hsm : side m with
    | true => rfl
    | false =>
      have := (hinv s').mp hs' q m r hw hsm
      rw [this] at hen; cases hen
  · rw [hfun]; exact ha s ((hinv s).mp hs)

/-- A frozen node (attacker-facing interfaces disabled: B powered off, B's NIC disabled, …) keeps exactly its state even though
attacker-side ports wired to it are enabled. -/
theorem C06_frozen_unchanged (sys : Sys N Nat Frame (Node W)) (side : N → Bool) (role : N → Role W)
    (hroles : ∀ n, side n = true → RoleOK sys side role n)
    (ops : List (Nat × Op N Nat Frame (Node W)))
    (hops : ∀ o ∈ ops, SafeOp sys side (FromSide sys side) (inv sys side role) o.2)
    (σ : St N (Node W)) (hσ : ∀ n, side n = true → inv sys side role n (σ n))
    (n : N) (hn : side n = true) (soft : Soft W) (s0 : Node W) (hr : role n = .frozen soft s0) :
    runOps sys σ ops n = σ n := by
  have h := (runOps_good sys side _ _ (C06_cut sys side role hroles) ops σ hops hσ).1 n hn
  have h0 := hσ n hn
  simp only [inv, hr] at h h0
  rw [h.1, h0.1]

end cut

/-! ### the decidable certificate the R-net rig evaluates on every generated scenario -/

section certify

theorem firstMatch_of_firstSome (p : Packet) (rules : List (Option Rule)) (off : Nat) :
    (∀ r, firstSome rules = some r → r.hits? p = true → ∃ i, firstMatch p rules off = some (i, r)) ∧
    (firstSome rules = none → firstMatch p rules off = none) := by
  induction rules generalizing off with
  | nil => simp [firstSome, firstMatch]
  | cons x rest ih =>
    cases x with
    | none => simpa [firstSome, firstMatch] using ih (off + 1)
    | some r0 =>
      constructor
      · intro r hr hm
        simp only [firstSome, Option.some.injEq] at hr
        subst hr
        exact ⟨off, by simp [firstMatch, hm]⟩
      · intro h; simp [firstSome] at h

theorem denyAllCheck_sound (a : Acl) (h : denyAllCheck a = true) : DeniesAll a := by
  intro pkt
  unfold denyAllCheck at h
  cases hf : firstSome a.rules with
  | none =>
    simp only [hf] at h
    have := (firstMatch_of_firstSome pkt a.rules 0).2 hf
    simp only [isPermitted, this]
    cases hi : a.implicit <;> simp_all
  | some r =>
    simp only [hf] at h
    simp only [anyAnyDeny, Bool.and_eq_true, Option.isNone_iff_eq_none, beq_iff_eq] at h
    obtain ⟨⟨⟨⟨⟨h1, h2⟩, h3⟩, h4⟩, h5⟩, h6⟩ := h
    have hm : r.hits? pkt = true := by
      simp [Rule.hits?, protoMatches, addrMatches, portMatches, h2, h3, h4, h5, h6]
    obtain ⟨i, hi⟩ := (firstMatch_of_firstSome pkt a.rules 0).1 r hf hm
    simp [isPermitted, hi, h1]

variable (t : Topo) (softs : Nat → Soft W) (hInt : Nat → Node W → Nat → Frame → Script W)

/-- the system a topology denotes: interior nodes run arbitrary handlers `hInt`, every other attacker-side node
is a PrimAITE element with software `softs n` -/
def topoSys : Sys Nat Nat Frame (Node W) :=
  { handler := fun n => match t.role n with
      | .interior => hInt n
      | _ => nodeRx (softs n),
    wire := t.wire }

def topoRole (σ : St Nat (Node W)) (n : Nat) : Role W :=
  match t.role n with
  | .interior => .interior
  | .ifaceDown => .ifaceDown (softs n)
  | .routerOff => .routerOff (softs n)
  | .routerDeny => .routerDeny (softs n)
  | .fwDeny => .fwDeny (softs n)
  | .frozen => .frozen (softs n) (σ n)

theorem wire_mem (n q m r : Nat) (h : t.wire n q = some (m, r)) : ((n, q), (m, r)) ∈ t.wires := by
  unfold Topo.wire at h
  cases hf : t.wires.find? (fun w => w.1.1 == n && w.1.2 == q) with
  | none => simp [hf] at h
  | some w =>
    simp only [hf, Option.map_some, Option.some.injEq] at h
    have hp := List.find?_some hf
    have hmem := List.mem_of_find?_eq_some hf
    simp only [Bool.and_eq_true, beq_iff_eq] at hp
    obtain ⟨⟨a, b⟩, c⟩ := w
    simp only at hp h
    obtain ⟨rfl, rfl⟩ := hp
    subst h
    exact hmem

theorem certify_node (σ : St Nat (Node W)) (hc : certify t σ = true) (n : Nat) (hn : t.side n = true) :
    certifyNode t n (σ n) = true := by
  have hlt : n < t.nodes.length := by
    unfold Topo.side at hn
    cases hx : t.nodes[n]? with
    | none => simp [hx] at hn
    | some x => exact (List.getElem?_eq_some_iff.mp hx).1
  unfold certify at hc
  have := List.all_eq_true.mp hc n (List.mem_range.mpr hlt)
  simpa [hn] using this

/-- **Soundness of the certificate**: if `certify` accepts, every attacker-side node satisfies its role's
invariant in the given state, and interior nodes have no wire leaving the attacker side. -/
theorem C06_certify_sound (σ : St Nat (Node W)) (hc : certify t σ = true) (n : Nat) (hn : t.side n = true) :
    inv (topoSys t softs hInt) t.side (topoRole t softs σ) n (σ n) ∧
    (t.role n = .interior → ∀ q m r, t.wire n q = some (m, r) → t.side m = true) := by
  have hcn := certify_node t σ hc n hn
  unfold certifyNode at hcn
  cases hr : t.role n with
  | interior =>
    simp only [hr] at hcn
    refine ⟨by simp [inv, topoRole, hr], fun _ q m r hw => ?_⟩
    have := List.all_eq_true.mp hcn _ (wire_mem t n q m r hw)
    simpa using this
  | ifaceDown =>
    simp only [hr] at hcn
    refine ⟨?_, fun h => by cases h⟩
    simp only [inv, topoRole, hr]
    intro q m r hw hm
    have := List.all_eq_true.mp hcn _ (wire_mem t n q m r hw)
    simpa [hm] using this
  | routerOff =>
    simp only [hr] at hcn
    refine ⟨?_, fun h => by cases h⟩
    simp only [inv, topoRole, hr]
    simpa using hcn
  | routerDeny =>
    simp only [hr, Bool.and_eq_true, beq_iff_eq] at hcn
    refine ⟨?_, fun h => by cases h⟩
    simp only [inv, topoRole, hr]
    exact ⟨hcn.1, denyAllCheck_sound _ hcn.2⟩
  | fwDeny =>
    simp only [hr, Bool.and_eq_true, beq_iff_eq] at hcn
    refine ⟨?_, fun h => by cases h⟩
    simp only [inv, topoRole, hr]
    refine ⟨hcn.1, ?_⟩
    intro p e hsf hpe
    obtain ⟨n', q, hs', hw⟩ := hsf
    have := List.all_eq_true.mp hcn.2 _ (wire_mem t n' q n p hw)
    simp only [bne_self_eq_false, hs', Bool.not_true, Bool.false_or, hpe] at this
    exact denyAllCheck_sound _ this
  | frozen =>
    simp only [hr] at hcn
    refine ⟨?_, fun h => by cases h⟩
    simp only [inv, topoRole, hr, true_and]
    intro p hsf
    obtain ⟨n', q, hs', hw⟩ := hsf
    have := List.all_eq_true.mp hcn _ (wire_mem t n' q n p hw)
    simpa [hs'] using this

/-- **C06 for a certified scenario.**  If the certificate accepts topology `t` in state `σ`, then for all
software of the blocking elements that (a) never re-enables a boundary interface while processing frames and
(b) keeps a denying router's ARP handling on the attacker side, and for ALL handlers of the interior nodes, any
sequence of operations on interior nodes leaves every protected node — and every frozen one — exactly as in `σ`. -/
theorem C06_certified_unchanged (σ : St Nat (Node W)) (hc : certify t σ = true)
    (hkeep : ∀ n, t.side n = true → t.role n = .ifaceDown →
      SoftKeeps (softs n) (BoundaryDown (topoSys t softs hInt) t.side n))
    (hexempt : ∀ n, t.side n = true → t.role n = .routerDeny → ∀ s p f,
      inv (topoSys t softs hInt) t.side (topoRole t softs σ) n s → SideFacing (topoSys t softs hInt) t.side n p →
      subjectToAcl f = some false →
      SafeAct (topoSys t softs hInt) t.side (FromSide (topoSys t softs hInt) t.side)
        (inv (topoSys t softs hInt) t.side (topoRole t softs σ)) n (guardSends portEnabled (permitted (softs n) s p f)))
    (ops : List (Nat × Op Nat Nat Frame (Node W)))
    (hops : ∀ o ∈ ops, t.side o.2.node = true ∧
      (t.role o.2.node = .interior ∨
       -- an operation on a node whose own boundary interface is down (A with its NIC disabled): it goes through the
       -- session manager and the interface-send layer and does not re-enable the interface
       (t.role o.2.node = .ifaceDown ∧ ∃ a : Node W → Script W, o.2.script = (fun s => localOp (a s)) ∧
          ∀ s, BoundaryDown (topoSys t softs hInt) t.side o.2.node s →
            Pres (BoundaryDown (topoSys t softs hInt) t.side o.2.node) (stampSends ownSrc (a s))))) :
    ∀ m, (t.side m = false ∨ t.role m = .frozen) → runOps (topoSys t softs hInt) σ ops m = σ m := by
  have hroles : ∀ n, t.side n = true → RoleOK (topoSys t softs hInt) t.side (topoRole t softs σ) n := by
    intro n hn
    have hs := (C06_certify_sound t softs hInt σ hc n hn).2
    unfold RoleOK
    cases hr : t.role n with
    | interior => simp only [topoRole, hr]; exact hs hr
    | ifaceDown => simp only [topoRole, hr]; exact ⟨by simp [topoSys, hr], hkeep n hn hr⟩
    | routerOff => simp only [topoRole, hr]; simp [topoSys, hr]
    | routerDeny =>
      simp only [topoRole, hr]
      exact ⟨by simp [topoSys, hr], hexempt n hn hr⟩
    | fwDeny => simp only [topoRole, hr]; simp [topoSys, hr]
    | frozen => simp only [topoRole, hr]; simp [topoSys, hr]
  have hσ : ∀ n, t.side n = true → inv (topoSys t softs hInt) t.side (topoRole t softs σ) n (σ n) :=
    fun n hn => (C06_certify_sound t softs hInt σ hc n hn).1
  have hops' : ∀ o ∈ ops, SafeOp (topoSys t softs hInt) t.side (FromSide (topoSys t softs hInt) t.side)
      (inv (topoSys t softs hInt) t.side (topoRole t softs σ)) o.2 := by
    intro o ho
    obtain ⟨h1, h2 | ⟨h2, a, ha, hp⟩⟩ := hops o ho
    · exact C06_safeOp_interior _ _ _ o.2 h1 (by simp [topoRole, h2])
        ((C06_certify_sound t softs hInt σ hc o.2.node h1).2 h2)
    · have := C06_safeOp_ifaceDown (topoSys t softs hInt) t.side (topoRole t softs σ) (softs o.2.node) o.2.node a h1
        (by simp [topoRole, h2]) hp
      have heq : o.2 = { node := o.2.node, script := fun s => localOp (a s) } := by
        cases ho2 : o.2 with
        | mk nd sc => simp only [ho2] at ha; subst ha; rfl
      rw [heq]; exact this
  intro m hm
  cases hsm : t.side m with
  | false => exact C06_blocked_unchanged _ _ _ hroles ops hops' σ hσ m hsm
  | true =>
    rcases hm with hm | hm
    · rw [hsm] at hm; cases hm
    · exact C06_frozen_unchanged _ _ _ hroles ops hops' σ hσ m hsm (softs m) (σ m) (by simp [topoRole, hm])

end certify

section cut
variable {N : Type} [DecidableEq N]

/-! ### non-vacuity: A — X — B with each kind of block at X -/

/-- node 0 = A, node 1 = the blocking element X, node 2 = B; A—X on X's port 0, X—B on X's port 1 -/
def exWire : Fin 3 → Nat → Option (Fin 3 × Nat)
  | 0, 0 => some (1, 0)
  | 1, 0 => some (0, 0)
  | 1, 1 => some (2, 0)
  | 2, 0 => some (1, 1)
  | _, _ => none

def exSide : Fin 3 → Bool
  | 2 => false
  | _ => true

/-- A and B run arbitrary handlers `hA`, `hB`; X is a PrimAITE element with echoing software -/
def exSys (hA hB : Node Unit → Nat → Frame → Script Unit) : Sys (Fin 3) Nat Frame (Node Unit) :=
  { handler := fun n => if n = 0 then hA else if n = 1 then nodeRx exEchoSoft else hB, wire := exWire }

def exRole (r : Role Unit) : Fin 3 → Role Unit := fun n => if n = 1 then r else .interior

theorem exSideFacing (hA hB) (p : Nat) (h : SideFacing (exSys hA hB) exSide 1 p) : p = 0 := by
  obtain ⟨n', q, hs, hw⟩ := h
  have : ∀ (n' : Fin 3) (q : Nat), exSide n' = true → exWire n' q = some (1, p) → p = 0 := by
    intro n' q
    match n', q with
    | 0, 0 => intro _ h; simp [exWire] at h; exact h.symm
    | 0, _ + 1 => intro _ h; simp [exWire] at h
    | 1, 0 => intro _ h; simp [exWire] at h
    | 1, 1 => intro _ h; simp [exWire] at h
    | 1, _ + 2 => intro _ h; simp [exWire] at h
    | 2, _ => intro h; simp [exSide] at h
  exact this n' q hs hw

theorem exInterior0 (q : Nat) (m : Fin 3) (r : Nat) (h : exWire 0 q = some (m, r)) : exSide m = true := by
  match q with
  | 0 => simp [exWire] at h; rw [← h.1]; rfl
  | _ + 1 => simp [exWire] at h

/-- X = firewall, A on its external port, external-inbound list denies everything: whatever A and its software do
(and whatever the firewall's own software would do with a permitted frame), B's state never changes. -/
example (hA hB) (ops : List (Nat × Op (Fin 3) Nat Frame (Node Unit))) (hops : ∀ o ∈ ops, o.2.node = 0)
    (σ : St (Fin 3) (Node Unit)) (hk : (σ 1).kind = .firewall) (hd : DeniesAll ((σ 1).acls .extIn)) :
    runOps (exSys hA hB) σ ops 2 = σ 2 := by
  apply C06_blocked_unchanged (exSys hA hB) exSide (exRole (.fwDeny exEchoSoft))
  · intro n hn
    match n with
    | 0 => exact exInterior0
    | 1 => simp [RoleOK, exRole, exSys]
    | 2 => simp [exSide] at hn
  · intro o ho
    have h0 := hops o ho
    exact C06_safeOp_interior _ _ _ o.2 (by rw [h0]; rfl) (by rw [h0]; rfl) (by rw [h0]; exact exInterior0)
  · intro n hn
    match n with
    | 0 => simp [inv, exRole]
    | 1 =>
      simp only [inv, exRole, if_true]
      refine ⟨hk, ?_⟩
      intro p e hp hpe
      have := exSideFacing hA hB p hp
      subst this
      simp [portEntry, extPort] at hpe
      subst hpe
      exact hd
    | 2 => simp [exSide] at hn
  · rfl

/-- X = router that is OFF (its interfaces may even still be enabled). -/
example (hA hB) (ops : List (Nat × Op (Fin 3) Nat Frame (Node Unit))) (hops : ∀ o ∈ ops, o.2.node = 0)
    (σ : St (Fin 3) (Node Unit)) (hk : (σ 1).kind = .router) (hoff : (σ 1).on = false) :
    runOps (exSys hA hB) σ ops 2 = σ 2 := by
  apply C06_blocked_unchanged (exSys hA hB) exSide (exRole (.routerOff exEchoSoft))
  · intro n hn
    match n with
    | 0 => exact exInterior0
    | 1 => simp [RoleOK, exRole, exSys]
    | 2 => simp [exSide] at hn
  · intro o ho
    have h0 := hops o ho
    exact C06_safeOp_interior _ _ _ o.2 (by rw [h0]; rfl) (by rw [h0]; rfl) (by rw [h0]; exact exInterior0)
  · intro n hn
    match n with
    | 0 => simp [inv, exRole]
    | 1 => simp only [inv, exRole, if_true]; exact ⟨hk, hoff⟩
    | 2 => simp [exSide] at hn
  · rfl

/-- X = router whose list denies everything; its software answers ARP on the port the request came from. -/
example (hA hB) (ops : List (Nat × Op (Fin 3) Nat Frame (Node Unit))) (hops : ∀ o ∈ ops, o.2.node = 0)
    (σ : St (Fin 3) (Node Unit)) (hk : (σ 1).kind = .router) (hd : DeniesAll ((σ 1).acls .router)) :
    runOps (exSys hA hB) σ ops 2 = σ 2 := by
  apply C06_blocked_unchanged (exSys hA hB) exSide (exRole (.routerDeny exEchoSoft))
  · intro n hn
    match n with
    | 0 => exact exInterior0
    | 1 =>
      simp only [RoleOK, exRole, if_true]
      refine ⟨by simp [exSys], ?_⟩
      intro s p f hs hp _
      have := exSideFacing hA hB p hp
      subst this
      have hs' : s.kind = .router ∧ DeniesAll (s.acls .router) := by simpa [inv, exRole] using hs
      simp only [permitted, exEchoSoft, if_true, guardSends]
      split
      · refine SafeAct.send (by simpa [inv, exRole] using hs') ?_ (fun s' hs' => SafeAct.done hs')
        intro m r hw
        simp [exSys, exWire] at hw
        obtain ⟨rfl, rfl⟩ := hw
        exact ⟨rfl, ⟨1, 0, rfl, rfl⟩⟩
      · exact SafeAct.done (by simpa [inv, exRole] using hs')
    | 2 => simp [exSide] at hn
  · intro o ho
    have h0 := hops o ho
    exact C06_safeOp_interior _ _ _ o.2 (by rw [h0]; rfl) (by rw [h0]; rfl) (by rw [h0]; exact exInterior0)
  · intro n hn
    match n with
    | 0 => simp [inv, exRole]
    | 1 => simp only [inv, exRole, if_true]; exact ⟨hk, hd⟩
    | 2 => simp [exSide] at hn
  · rfl

/-- X = any element (host, switch, router, firewall) whose port towards B is disabled and whose software never
re-enables it; the link X—B may as well be missing. -/
example (hA hB) (ops : List (Nat × Op (Fin 3) Nat Frame (Node Unit))) (hops : ∀ o ∈ ops, o.2.node = 0)
    (σ : St (Fin 3) (Node Unit)) (hd : portEnabled (σ 1) 1 = false) :
    runOps (exSys hA hB) σ ops 2 = σ 2 := by
  have hbd : ∀ s : Node Unit, BoundaryDown (exSys hA hB) exSide 1 s ↔ portEnabled s 1 = false := by
    intro s
    constructor
    · intro h; exact h 1 2 0 rfl rfl
    · intro h q m r hw hm
      match q with
      | 0 => simp [exSys, exWire] at hw; rw [← hw.1] at hm; simp [exSide] at hm
      | 1 => exact h
      | _ + 2 => simp [exSys, exWire] at hw
  apply C06_blocked_unchanged (exSys hA hB) exSide (exRole (.ifaceDown exEchoSoft))
  · intro n hn
    match n with
    | 0 => exact exInterior0
    | 1 =>
      simp only [RoleOK, exRole, if_true]
      refine ⟨by simp [exSys], ?_⟩
      have hecho : ∀ (s : Node Unit) (p : Nat) (f : Frame), BoundaryDown (exSys hA hB) exSide 1 s →
          Pres (BoundaryDown (exSys hA hB) exSide 1) (.send s p f (fun s' => .done s') : Script Unit) :=
        fun s p f hs => Pres.send hs (fun s' hs' => Pres.done hs')
      exact ⟨hecho, hecho, fun s _ _ hs => Pres.done hs, hecho⟩
    | 2 => simp [exSide] at hn
  · intro o ho
    have h0 := hops o ho
    exact C06_safeOp_interior _ _ _ o.2 (by rw [h0]; rfl) (by rw [h0]; rfl) (by rw [h0]; exact exInterior0)
  · intro n hn
    match n with
    | 0 => simp [inv, exRole]
    | 1 => simp only [inv, exRole, if_true]; exact (hbd _).mpr hd
    | 2 => simp [exSide] at hn
  · rfl

end cut

/-! ### ties to the source (Gen/Filter.lean is regenerated from firewall.py, router.py, switch.py, host_node.py,
base.py, session_manager.py on every run) -/

theorem C06_gen_firewall_table :
    Gen.Filter.entryAcl = [("extIn", "extIn"), ("extOut", "extOut"), ("intIn", "intIn"), ("intOut", "intOut"),
                           ("dmzIn", "dmzIn"), ("dmzOut", "dmzOut")] ∧
    Gen.Filter.entryCalls =
      [("extIn", ["learn", "session", "entry:dmzIn", "entry:intIn"]),
       ("extOut", ["process"]), ("intIn", ["process"]),
       ("intOut", ["learn", "session", "entry:dmzIn", "entry:extOut"]),
       ("dmzIn", ["process"]),
       ("dmzOut", ["learn", "session", "lookup", "lookup", "entry:extOut", "entry:intIn"])] ∧
    Gen.Filter.portDispatch = [(extPort + 1, "extIn"), (intPort + 1, "intOut"), (dmzPort + 1, "dmzOut")] ∧
    Gen.Filter.verdictFirst = true := by decide

/-- names used by the extractor for the model's tables -/
def FwEntry.name : FwEntry → String
  | .extIn => "extIn" | .extOut => "extOut" | .intIn => "intIn" | .intOut => "intOut" | .dmzIn => "dmzIn" | .dmzOut => "dmzOut"
def AclId.name : AclId → String
  | .router => "router" | .intIn => "intIn" | .intOut => "intOut" | .dmzIn => "dmzIn" | .dmzOut => "dmzOut"
  | .extIn => "extIn" | .extOut => "extOut"
def Callee.name : Callee → String
  | .learn => "learn" | .session => "session" | .process => "process" | .lookup => "lookup" | .entry e => "entry:" ++ e.name

def allEntries : List FwEntry := [.extIn, .extOut, .intIn, .intOut, .dmzIn, .dmzOut]

/-- the model's own tables (`entryAcl`, `entryCalls`, used by `fwRx`) are the regenerated ones -/
theorem C06_gen_firewall_model :
    allEntries.map (fun e => (e.name, (entryAcl e).name)) = Gen.Filter.entryAcl ∧
    allEntries.map (fun e => (e.name, (entryCalls e).map Callee.name)) = Gen.Filter.entryCalls := by decide

theorem C06_gen_router_order :
    Gen.Filter.routerOrder = routerOrder ∧ Gen.Filter.arpPort = arpPort ∧ Gen.Filter.exemptNeedsArpPayload = true := by
  decide

theorem C06_gen_iface_order :
    Gen.Filter.nicOrder = ifaceOrder ∧ Gen.Filter.switchPortOrder = ifaceOrder ∧ Gen.Filter.routerIfOrder = ifaceOrder ∧
    Gen.Filter.sendGuardFirst = true ∧ Gen.Filter.nicUnicastNeedsOwnIp = nicUnicastNeedsOwnIp := by decide

theorem C06_gen_power_guard :
    Gen.Filter.powerGuard = [("router", powerGuard .router), ("firewall", powerGuard .firewall),
      ("switch", powerGuard .switch), ("host", powerGuard .host)] := by decide

/-- the session manager stamps the outbound interface's own MAC / IP and sends on that same interface; it is
the only `send_frame` call site in the software layer; no software reaches into another node's objects -/
theorem C06_gen_software_boundary :
    Gen.Filter.sessionStampsOwnSrc = true ∧ Gen.Filter.softwareSendFrameSites = ["core/session_manager.py"] ∧
    Gen.Filter.crossNodeReaches = [] := by decide

end Primaite.Filter
