/-
Property C15, seventh part (round 4): structural consistency does not depend on health.

The item methods of `File` and `Folder` that look at `health_status` are translated statement by statement from the source onto
records that carry the structure AND the health (`FileRec`, `FolderRec`; Gen/FileSystemMethods.lean).  For EVERY health value,
visible status and access count: the structural component and the answer of each translated method are what the structural
model (`File.verb`, `File.delete`, `Folder.restore`, …) says, the access count moves as the ledger rule `touch` says, and the
health moves as stated here.  A change that lets the `deleted` flag depend on health (seeded C15-d: `File.restore` testing CORRUPT
first and `deleted` only as its `elif`) makes `C15_gen_file_methods` false — with a counter-model, not a text diff — while a
refactor that keeps the function keeps the obligation.
-/
import PrimaiteModel.Model.FileSystemHealth
import PrimaiteModel.Lemmas.FileSystemOps
import PrimaiteModel.Gen.FileSystemMethods
import PrimaiteModel.Gen.FileSystem
namespace Primaite.FileSystem
open Gen.FileSystemMethods

/-- The file methods, as translated from file.py, ARE the structural model — for every health value, visible status and access
count: same file afterwards, same answer; `num_access` moves exactly as the ledger's `touch` / `verbTouch` say. -/
theorem C15_gen_file_methods (r : FileRec) :
    r.f.verb .restore = some ((fileRestore r).1.f, (fileRestore r).2) ∧
    r.f.verb .scan = some ((fileScan r).1.f, (fileScan r).2) ∧
    r.f.verb .repair = some ((fileRepair r).1.f, (fileRepair r).2) ∧
    r.f.verb .corrupt = some ((fileCorrupt r).1.f, (fileCorrupt r).2) ∧
    r.f.verb .checkhash = some ((fileCheckHash r).1.f, (fileCheckHash r).2) ∧
    ((fileDelete r).1.f = r.f.delete ∧ (fileDelete r).2 = !r.f.deleted) ∧
    (fileRestore r).1.acc = r.acc + (verbTouch r.f .restore).length ∧ (fileScan r).1.acc = r.acc + (verbTouch r.f .scan).length ∧
    (fileRepair r).1.acc = r.acc + (verbTouch r.f .repair).length ∧ (fileCorrupt r).1.acc = r.acc + (verbTouch r.f .corrupt).length ∧
    (fileCheckHash r).1.acc = r.acc + (verbTouch r.f .checkhash).length ∧ (fileDelete r).1.acc = r.acc + (touch r.f).length := by
  obtain ⟨⟨i, n, d⟩, h, v, a⟩ := r
  cases d <;> cases h <;>
    simp [File.verb, File.restore, File.delete, fileRestore, fileScan, fileRepair, fileCorrupt, fileCheckHash, fileDelete,
      verbTouch, touch]

/-- What the file methods do to health (for the record; health is C14's subject): only a live file's health moves —
`restore` and `repair` heal CORRUPT, `corrupt` turns GOOD into CORRUPT, `scan` copies health to the visible status; a deleted
file's health is never touched, `restore` of a deleted file only clears the flag. -/
theorem C15_file_methods_health (r : FileRec) :
    (fileRestore r).1.health = (if !r.f.deleted && r.health == .corrupt then .good else r.health) ∧
    (fileRepair r).1.health = (if !r.f.deleted && r.health == .corrupt then .good else r.health) ∧
    (fileCorrupt r).1.health = (if !r.f.deleted && r.health == .good then .corrupt else r.health) ∧
    (fileScan r).1.health = r.health ∧ (fileDelete r).1.health = r.health ∧
    (fileScan r).1.visible = (if r.f.deleted then r.visible else r.health) := by
  obtain ⟨⟨i, n, d⟩, h, v, a⟩ := r
  cases d <;> cases h <;> simp [fileRestore, fileScan, fileRepair, fileCorrupt, fileDelete]

/-- **Structure and answers of the file methods are independent of health**: two `File` objects with the same structural
part (uuid, name, `deleted`) — whatever their health, visible status and access count — end with the same structural part and
answer the same. -/
theorem C15_file_methods_ignore_health (r : FileRec) (h v : Health) (a : Nat) :
    let r' : FileRec := { r with health := h, visible := v, acc := a }
    ((fileRestore r').1.f, (fileRestore r').2) = ((fileRestore r).1.f, (fileRestore r).2) ∧
    ((fileScan r').1.f, (fileScan r').2) = ((fileScan r).1.f, (fileScan r).2) ∧
    ((fileRepair r').1.f, (fileRepair r').2) = ((fileRepair r).1.f, (fileRepair r).2) ∧
    ((fileCorrupt r').1.f, (fileCorrupt r').2) = ((fileCorrupt r).1.f, (fileCorrupt r).2) ∧
    ((fileDelete r').1.f, (fileDelete r').2) = ((fileDelete r).1.f, (fileDelete r).2) := by
  intro r'
  have e := C15_gen_file_methods r
  have e' := C15_gen_file_methods r'
  have hf : r'.f = r.f := rfl
  rw [hf] at e'
  refine ⟨?_, ?_, ?_, ?_, ?_⟩
  · have := e.1.symm.trans e'.1; simpa using this.symm
  · have := e.2.1.symm.trans e'.2.1; simpa using this.symm
  · have := e.2.2.1.symm.trans e'.2.2.1; simpa using this.symm
  · have := e.2.2.2.1.symm.trans e'.2.2.2.1; simpa using this.symm
  · exact Prod.ext (e'.2.2.2.2.2.1.1.trans e.2.2.2.2.2.1.1.symm) (e'.2.2.2.2.2.1.2.trans e.2.2.2.2.2.1.2.symm)

/-- **`restore()` clears the flag of a deleted file whatever its health** (so `Folder.restore_file`, which moves the file to the
live set without looking at the answer, never produces a live file that is flagged deleted), and `delete()` sets it. -/
theorem C15_restore_clears_flag_for_every_health (r : FileRec) :
    (fileRestore r).1.f.deleted = false ∧ (fileDelete r).1.f.deleted = true ∧
    (fileRestore r).1.f.id = r.f.id ∧ (fileRestore r).1.f.name = r.f.name := by
  have e := C15_gen_file_methods r
  have h1 : (fileRestore r).1.f = r.f.restore := by
    have := e.1; simp only [File.verb, Option.some.injEq, Prod.mk.injEq] at this; exact this.1.symm
  rw [h1, e.2.2.2.2.2.1.1]
  exact ⟨rfl, rfl, rfl, rfl⟩

/-- Why the order of the two tests in `File.restore` matters (seeded change C15-d in miniature): with the CORRUPT test first and
the `deleted` test as its `elif`, a file that is corrupt AND deleted keeps its flag — and the folder moves it to the live set
regardless, which breaks `FolderInv` (`liveFlag`). -/
def fileRestoreHealthFirst (r : FileRec) : FileRec × Bool :=
  if r.health == .corrupt then ({ r with health := .good, acc := r.acc + 1 }, true)
  else if r.f.deleted then ({ r with f := { r.f with deleted := false } }, true)
  else ({ r with acc := r.acc + 1 }, true)

theorem C15_health_first_restore_counterexample :
    ∃ r : FileRec, (fileRestoreHealthFirst r).1.f ≠ r.f.restore ∧ (fileRestoreHealthFirst r).1.f.deleted = true ∧
      -- for a healthy file the two orders agree: only the health × deletion combination tells them apart
      ∀ r' : FileRec, r'.health ≠ .corrupt → (fileRestoreHealthFirst r').1.f = r'.f.restore :=
  ⟨{ f := { id := 1, name := "a", deleted := true }, health := .corrupt }, by decide, by decide, by
    intro r' h
    obtain ⟨⟨i, n, d⟩, hh, v, a⟩ := r'
    cases d <;> cases hh <;> simp_all [fileRestoreHealthFirst, File.restore]⟩

/-- The folder's own methods, as translated from folder.py, are the structural model for every folder health: `restore()`
clears the flag and starts the countdown unless one is running; `delete()` sets the flag; `check_hash()` answers False. -/
theorem C15_gen_folder_methods (r : FolderRec) :
    r.g.verb .restore = some ((folderRestore r).1.g, (folderRestore r).2) ∧
    r.g.verb .checkhash = some ((folderCheckHash r).1.g, (folderCheckHash r).2) ∧
    (folderDelete r).1.g = { r.g with deleted := true } ∧ (folderDelete r).2 = !r.g.deleted ∧
    (folderRestore r).1.health = (if r.g.restoreCountdown ≤ 0 then .restoring else r.health) ∧
    (folderDelete r).1.health = r.health := by
  obtain ⟨g, h, v⟩ := r
  refine ⟨?_, ?_, ?_, ?_, ?_, ?_⟩
  · simp only [Folder.verb, Folder.restore, folderRestore]
    -- every comparison of the countdown with 0 the source may use, decided in both cases
    by_cases hd : g.deleted = true <;> rcases Int.lt_or_le 0 g.restoreCountdown with hp | hle
    · have h1 : ¬ g.restoreCountdown ≤ 0 := by omega
      have h2 : g.restoreCountdown > 0 := hp
      have h3 : g.restoreCountdown ≠ 0 := by omega
      simp [hd, hp, h1, h2, h3] <;> (cases g; simp_all)
    · have h1 : ¬ (0 < g.restoreCountdown) := by omega
      have h2 : ¬ g.restoreCountdown > 0 := h1
      simp [hd, hle, h1, h2] <;> (cases g; simp_all)
    · have h1 : ¬ g.restoreCountdown ≤ 0 := by omega
      have h2 : g.restoreCountdown > 0 := hp
      simp [hd, hp, h1, h2] <;> (cases g; simp_all)
    · have h1 : ¬ (0 < g.restoreCountdown) := by omega
      have h2 : ¬ g.restoreCountdown > 0 := h1
      simp [hd, hle, h1, h2] <;> (cases g; simp_all)
  · simp [Folder.verb, folderCheckHash]
  · simp only [folderDelete]
    by_cases hd : g.deleted = true
    · simp only [hd, if_true]; cases g; simp_all
    · simp [hd]
  · simp only [folderDelete]
    by_cases hd : g.deleted = true <;> simp [hd]
  · simp only [folderRestore]
    by_cases hd : g.deleted = true <;> rcases Int.lt_or_le 0 g.restoreCountdown with hp | hle
    · have h1 : ¬ g.restoreCountdown ≤ 0 := by omega
      have h2 : g.restoreCountdown > 0 := hp
      simp [hd, hp, h1, h2]
    · have h1 : ¬ (0 < g.restoreCountdown) := by omega
      have h2 : ¬ g.restoreCountdown > 0 := h1
      simp [hd, hle, h1, h2]
    · have h1 : ¬ g.restoreCountdown ≤ 0 := by omega
      have h2 : g.restoreCountdown > 0 := hp
      simp [hd, hp, h1, h2]
    · have h1 : ¬ (0 < g.restoreCountdown) := by omega
      have h2 : ¬ g.restoreCountdown > 0 := h1
      simp [hd, hle, h1, h2]
  · simp only [folderDelete]
    by_cases hd : g.deleted = true <;> simp [hd]

theorem C15_folder_methods_ignore_health (r : FolderRec) (h v : Health) :
    let r' : FolderRec := { r with health := h, visible := v }
    ((folderRestore r').1.g, (folderRestore r').2) = ((folderRestore r).1.g, (folderRestore r).2) ∧
    ((folderDelete r').1.g, (folderDelete r').2) = ((folderDelete r).1.g, (folderDelete r).2) := by
  intro r'
  have e := C15_gen_folder_methods r
  have e' := C15_gen_folder_methods r'
  have hg : r'.g = r.g := rfl
  rw [hg] at e'
  refine ⟨?_, ?_⟩
  · have := e.1.symm.trans e'.1; simpa using this.symm
  · exact Prod.ext (e'.2.2.1.trans e.2.2.1.symm) (e'.2.2.2.1.trans e.2.2.2.1.symm)

/-! ### `_restoring_timestep`: the one method where a folder's `deleted` flag and its health meet -/

theorem folder_set_deleted_false_of (g : Folder) (h : g.deleted = false) : { g with deleted := false } = g := by
  cases g; simp_all

/-- The two loops of `_restoring_timestep`: restore every live file by name, then every file that was in `deleted_files` when the
first loop ended. -/
def restoreLoops (g1 : Folder) : Folder :=
  (g1.files.foldl (fun (a : Folder) (file : File) => (a.restoreFile file.name).1) g1).deletedFiles.foldl
    (fun (a : Folder) (file : File) => (a.restoreFile file.name).1)
    (g1.files.foldl (fun (a : Folder) (file : File) => (a.restoreFile file.name).1) g1)

theorem restoringTimestep_eq (g : Folder) :
    g.restoringTimestep =
      if g.restoreCountdown ≥ 0 then
        if g.restoreCountdown - 1 = 0 then { restoreLoops { g with restoreCountdown := g.restoreCountdown - 1 } with deleted := false }
        else { g with restoreCountdown := g.restoreCountdown - 1 }
      else g := rfl

theorem folderRestoringTimestep_eq (r : FolderRec) :
    folderRestoringTimestep r =
      if r.g.restoreCountdown ≥ 0 then
        if r.g.restoreCountdown - 1 = 0 then
          if (restoreLoops { r.g with restoreCountdown := r.g.restoreCountdown - 1 }).deleted then
            { r with g := { restoreLoops { r.g with restoreCountdown := r.g.restoreCountdown - 1 } with deleted := false } }
          else if (r.health == Health.corrupt || r.health == Health.restoring) then
            { r with g := restoreLoops { r.g with restoreCountdown := r.g.restoreCountdown - 1 }, health := .good }
          else { r with g := restoreLoops { r.g with restoreCountdown := r.g.restoreCountdown - 1 } }
        else { r with g := { r.g with restoreCountdown := r.g.restoreCountdown - 1 } }
      else r := by
  unfold folderRestoringTimestep
  by_cases h1 : r.g.restoreCountdown ≥ 0
  · by_cases h2 : r.g.restoreCountdown - 1 = 0
    · simp only [h1, h2, decide_true, if_true]; rfl
    · simp only [h1, h2, decide_true, decide_false, if_true, if_false, Bool.false_eq_true]
  · simp only [h1, decide_false, if_false, Bool.false_eq_true]

/-- `Folder._restoring_timestep` as translated from folder.py (countdown, the two restore loops — the second over a copy of
`deleted_files` taken before it starts —, then `if self.deleted: … elif self.health_status in [CORRUPT, RESTORING]: …`) is the
structural model's `restoringTimestep` for EVERY folder health; the health is reset to GOOD only when the restore completes on a
folder that is not flagged deleted. -/
theorem C15_gen_restoring_timestep (r : FolderRec) :
    (folderRestoringTimestep r).g = r.g.restoringTimestep ∧
    (folderRestoringTimestep r).health =
      (if r.g.restoreCountdown ≥ 0 ∧ r.g.restoreCountdown - 1 = 0 ∧
          (restoreLoops { r.g with restoreCountdown := r.g.restoreCountdown - 1 }).deleted = false ∧
          (r.health = .corrupt ∨ r.health = .restoring) then .good else r.health) := by
  rw [folderRestoringTimestep_eq, restoringTimestep_eq]
  generalize restoreLoops { r.g with restoreCountdown := r.g.restoreCountdown - 1 } = g3
  generalize ({ r.g with restoreCountdown := r.g.restoreCountdown - 1 } : Folder) = g1
  obtain ⟨g, h, v⟩ := r
  by_cases h1 : g.restoreCountdown ≥ 0
  · by_cases h2 : g.restoreCountdown - 1 = 0
    · by_cases hd : g3.deleted = true
      · simp [h1, h2, hd]
      · have hd' : g3.deleted = false := by simpa using hd
        cases h <;> simp [h1, h2, hd', folder_set_deleted_false_of g3 hd']
    · simp [h1, h2]
  · simp [h1]

/-- The structural effect of `_restoring_timestep` does not depend on the folder's health. -/
theorem C15_restoring_timestep_ignores_health (r : FolderRec) (h v : Health) :
    (folderRestoringTimestep { r with health := h, visible := v }).g = (folderRestoringTimestep r).g := by
  rw [(C15_gen_restoring_timestep _).1, (C15_gen_restoring_timestep r).1]

/-! ### lookups and state-level methods, translated (round 4, item 4: semantic instead of textual tie) -/

/-- `Folder.get_file`, `Folder.remove_file`, `Folder.remove_file_by_name` and `FileSystem.get_folder` as translated from the source
are the model's functions, for all arguments. -/
theorem C15_gen_lookups (s : State) (g : Folder) (f : File) (n : Name) (incl : Bool) :
    folderGetFile g n incl = g.getFile n incl ∧ folderRemoveFile g f = g.removeFile f ∧
    folderRemoveFileByName g n = g.removeFileByName n ∧ fsGetFolder s n incl = getFolder s n incl := by
  refine ⟨?_, ?_, ?_, ?_⟩
  · unfold folderGetFile Folder.getFile
    cases g.files.find? (fun f => f.name == n) with
    | some f => rfl
    | none => cases incl <;> simp <;> cases g.deletedFiles.find? (fun f => f.name == n) <;> rfl
  · unfold folderRemoveFile Folder.removeFile
    split <;> rfl
  · unfold folderRemoveFileByName Folder.removeFileByName
    cases g.files.find? (fun f => f.name == n) <;> rfl
  · unfold fsGetFolder getFolder
    cases s.folders.find? (fun g => g.name == n) with
    | some g => rfl
    | none => cases incl <;> simp <;> cases s.deletedFolders.find? (fun g => g.name == n) <;> rfl

/-- `FileSystem.delete_file` and `FileSystem.restore_file` as translated from the source are the model's `deleteFile` /
`restoreFile` (state and answer), for every state and names. -/
theorem C15_gen_fs_delete_restore_file (s : State) (F x : Name) :
    (fsDeleteFile s F x).1 = (deleteFile s F x).1 ∧ ((fsDeleteFile s F x).2 = true ↔ (deleteFile s F x).2 = .success) ∧
    (fsRestoreFile s F x).1 = (restoreFile s F x).1 ∧ ((fsRestoreFile s F x).2 = true ↔ (restoreFile s F x).2 = .success) := by
  unfold fsDeleteFile deleteFile fsRestoreFile restoreFile getFile
  cases hg : getFolder s F with
  | none => simp [hg]
  | some g =>
    simp only [hg]
    refine ⟨?_, ?_, ?_, ?_⟩
    · cases g.getFile x <;> simp [updFolder]
    · cases g.getFile x <;> simp
    · cases g.getFile x true <;> simp
    · cases g.getFile x true with
      | none => simp
      | some f => cases (g.restoreFile x).2 <;> simp [ofBool]

/-! ### folder level: delete / restore against a running restore countdown (round 6; the class of seeded C15-e) -/

/-- `FileSystem.restore_folder` and `FileSystem.delete_folder` as translated from the source — `folder.restore()` / `folder.delete()`
inside them being the TRANSLATED `Folder.restore` / `Folder.delete` — are the model's `restoreFolder` / `deleteFolder`, state and
answer, for every state and name (hence for every countdown value and every health of the folder concerned). -/
theorem C15_gen_restore_delete_folder (s : State) (F : Name) :
    (fsRestoreFolder s F).1 = (restoreFolder s F).1 ∧ ((fsRestoreFolder s F).2 = true ↔ (restoreFolder s F).2 = .success) ∧
    (fsDeleteFolder s F).1 = (deleteFolder s F).1 ∧ ((fsDeleteFolder s F).2 = true ↔ (deleteFolder s F).2 = .success) := by
  have hr : ∀ g : Folder, (folderRestore { g := g }).1.g = g.restore := by
    intro g
    have := (C15_gen_folder_methods { g := g }).1
    simp only [Folder.verb, Option.some.injEq, Prod.mk.injEq] at this
    exact this.1.symm
  have hd : ∀ g : Folder, (folderDelete { g := g }).1.g = { g with deleted := true } := fun g => (C15_gen_folder_methods { g := g }).2.2.1
  refine ⟨?_, ?_, ?_, ?_⟩
  · unfold fsRestoreFolder restoreFolder
    cases getFolder s F true with
    | none => rfl
    | some g => simp only [hr]; simp [Folder.restore]
  · unfold fsRestoreFolder restoreFolder
    cases getFolder s F true <;> simp
  · unfold fsDeleteFolder deleteFolder
    by_cases hroot : F = "root"
    · subst hroot; cases getFolder s "root" <;> simp
    · cases getFolder s F with
      | none => simp [hroot]
      | some g => simp only [hd]; simp [hroot, Folder.removeAllFiles]
  · unfold fsDeleteFolder deleteFolder
    by_cases hroot : F = "root"
    · subst hroot; cases getFolder s "root" <;> simp
    · cases getFolder s F <;> simp [hroot]

/-- **`Folder.restore()` clears the flag whatever the countdown does**: running (`> 0`, then it is left alone — not restarted),
expired or never started (then it is set to `max(restore_duration, 1)`), and whatever the folder's health. -/
theorem C15_folder_restore_for_every_countdown (r : FolderRec) :
    (folderRestore r).1.g.deleted = false ∧ (folderRestore r).2 = true ∧
    (folderRestore r).1.g.restoreCountdown = (if r.g.restoreCountdown ≤ 0 then max r.g.restoreDuration 1 else r.g.restoreCountdown) ∧
    (folderRestore r).1.g.files = r.g.files ∧ (folderRestore r).1.g.deletedFiles = r.g.deletedFiles := by
  have := (C15_gen_folder_methods r).1
  simp only [Folder.verb, Option.some.injEq, Prod.mk.injEq] at this
  rw [← this.1, ← this.2]
  simp [Folder.restore]

/-- **The folder `restore_folder` puts into the live set is not flagged deleted — for every interleaving with a restore that is still
counting down**: whatever the restore countdown of the (live or deleted) folder found under that name is — frozen at a positive value
because the folder was deleted again while restoring, expired, or never started — the translated `FileSystem.restore_folder` stores in
`folders` a folder of the same uuid with `deleted = false`, and removes that uuid from `deleted_folders`. -/
theorem C15_restore_folder_flag_agrees {s : State} (hI : Inv s) {F : Name} {g : Folder} (hg : getFolder s F true = some g) :
    (fsRestoreFolder s F).2 = true ∧
    (∃ g' ∈ (fsRestoreFolder s F).1.folders, g'.id = g.id ∧ g'.deleted = false ∧
      g'.restoreCountdown = (if g.restoreCountdown ≤ 0 then max g.restoreDuration 1 else g.restoreCountdown)) ∧
    (∀ b ∈ (fsRestoreFolder s F).1.deletedFolders, b.id ≠ g.id) ∧ Inv (fsRestoreFolder s F).1 := by
  have e := C15_gen_restore_delete_folder s F
  refine ⟨?_, ?_, ?_, ?_⟩
  · unfold fsRestoreFolder; rw [hg]
  · rw [e.1]
    unfold restoreFolder; rw [hg]
    exact ⟨g.restore, (mem_dictSet Folder.id).mpr (Or.inl rfl), rfl, rfl, rfl⟩
  · rw [e.1]
    unfold restoreFolder; rw [hg]
    intro b hb; exact ((mem_dictPop Folder.id).mp hb).2
  · rw [e.1]; exact inv_restoreFolder hI F

/-- A deleted folder is not stepped: its restore countdown stands still for as long as it is deleted. -/
theorem C15_deleted_folder_countdown_frozen (s : State) : (step s .tick).1.deletedFolders = s.deletedFolders := rfl

/-- The scenario of seeded C15-e for the default duration: delete, restore (countdown 3), one tick, delete again (countdown frozen
at 2), two ticks, restore again — the folder is live, NOT flagged, its countdown still 2 (not restarted); two more ticks complete
the restore and bring the file back. -/
example :
    let s := (run (init none) [.createFile "fa" "a" false, .deleteFolder "fa", .restoreFolder "fa", .tick, .deleteFolder "fa", .tick, .tick,
      .restoreFolder "fa"]).1
    let s' := (run s [.tick, .tick]).1
    (s.folders.map fun g => (g.name, g.deleted, g.restoreCountdown, g.files.length, g.deletedFiles.length)) =
      [("root", false, -1, 0, 0), ("fa", false, 2, 0, 1)] ∧ s.deletedFolders = [] ∧
    (s'.folders.map fun g => (g.name, g.deleted, g.restoreCountdown, g.files.length, g.deletedFiles.length)) =
      [("root", false, -1, 0, 0), ("fa", false, 0, 1, 0)] := by
  decide

/-- Why the order inside `Folder.restore` matters (seeded C15-e in miniature): with the "already in progress" check first, a folder
that is deleted while its countdown runs keeps its flag — and `restore_folder` moves it to the live set regardless. -/
def folderRestoreGuardFirst (r : FolderRec) : FolderRec × Bool :=
  if decide (r.g.restoreCountdown > 0) then (r, true)
  else ({ r with g := { r.g with deleted := false, restoreCountdown := max r.g.restoreDuration 1 }, health := .restoring }, true)

theorem C15_guard_first_restore_counterexample :
    ∃ r : FolderRec, (folderRestoreGuardFirst r).1.g.deleted = true ∧ (folderRestore r).1.g.deleted = false ∧
      ∀ r' : FolderRec, r'.g.restoreCountdown ≤ 0 → (folderRestoreGuardFirst r').1.g = (folderRestore r').1.g :=
  ⟨{ g := { id := 1, name := "fa", deleted := true, restoreCountdown := 2 } }, by decide, by decide, by
    intro r' hc
    obtain ⟨g, h, v⟩ := r'
    have h1 : ¬ (0 < g.restoreCountdown) := by simp only at hc; omega
    have h2 : ¬ (g.restoreCountdown > 0) := h1
    by_cases hd : g.deleted = true <;> simp [folderRestoreGuardFirst, folderRestore, hd, hc, h1, h2]⟩

/-! ### translator tie: the enum and the complete list of places where the four classes look at health -/

theorem C15_gen_health_enum :
    Gen.FileSystem.healthMembers = [("NONE", 0), ("GOOD", 1), ("COMPROMISED", 2), ("CORRUPT", 3), ("RESTORING", 4), ("REPAIRING", 5)] ∧
    Gen.FileSystem.healthMembers.map (·.2) = Health.all.map Health.value ∧
    Gen.FileSystem.healthDefault = "FileSystemItemHealthStatus.GOOD" ∧
    Gen.FileSystem.visibleHealthDefault = "FileSystemItemHealthStatus.NONE" ∧
    ({ f := { id := 0, name := "" } } : FileRec).health = .good ∧ ({ f := { id := 0, name := "" } } : FileRec).visible = .none := by
  decide

/-- Every `if` of `FileSystem`, `Folder`, `File`, `FileSystemItemABC` whose test mentions `health_status`, with what it controls;
every other statement that reads health; and the list of health-dependent branches that control anything but an assignment to
`health_status` / `visible_health_status`. The last list has ONE entry, in the unreachable tail of `Folder.check_hash` (the method
returns False first — `C15_gen_folder_methods`): nowhere does a `return`, the `deleted` flag, a dictionary or a call depend on health. -/
theorem C15_gen_health_branches :
    Gen.FileSystem.healthBranches =
      [("Folder._restoring_timestep", "self.health_status in [FileSystemItemHealthStatus.CORRUPT, FileSystemItemHealthStatus.RESTORING]",
        "self.health_status = FileSystemItemHealthStatus.GOOD"),
       ("Folder.scan", "file.visible_health_status == FileSystemItemHealthStatus.CORRUPT", "self.visible_health_status = FileSystemItemHealthStatus.CORRUPT"),
       ("Folder.check_hash", "file.health_status == FileSystemItemHealthStatus.CORRUPT", "no_corrupted_files = False"),
       ("Folder.repair", "self.health_status == FileSystemItemHealthStatus.CORRUPT", "self.health_status = FileSystemItemHealthStatus.GOOD"),
       ("File.repair", "self.health_status == FileSystemItemHealthStatus.CORRUPT", "self.health_status = FileSystemItemHealthStatus.GOOD"),
       ("File.corrupt", "self.health_status == FileSystemItemHealthStatus.GOOD", "self.health_status = FileSystemItemHealthStatus.CORRUPT"),
       ("File.restore", "self.health_status == FileSystemItemHealthStatus.CORRUPT", "self.health_status = FileSystemItemHealthStatus.GOOD")] ∧
    Gen.FileSystem.healthControlsStructure =
      ["Folder.check_hash: `file.health_status == FileSystemItemHealthStatus.CORRUPT` controls `no_corrupted_files = False`"] ∧
    Gen.FileSystem.healthReads.map (·.1) =
      ["FileSystem.show", "FileSystem.show", "FileSystem.show", "Folder._scan_timestep", "FileSystemItemABC.describe_state",
       "FileSystemItemABC.describe_state"] :=
  ⟨rfl, rfl, rfl⟩

end Primaite.FileSystem
