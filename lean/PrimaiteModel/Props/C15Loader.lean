/-
Property C15, ninth part (round 4): the initial state.  For EVERY configured folder list — folders listed twice, a file listed
twice, the same name in two folders, names that collide only after the extension is appended — the state `HostNode.__init__`
leaves (whether it completes or raises on the way) satisfies `Inv` and one-folder-per-file, and after `setup_for_episode` both
counters are zero: tick 0 starts like every other tick.
-/
import PrimaiteModel.Model.FileSystemLoader
import PrimaiteModel.Props.C15Keeps
namespace Primaite.FileSystem

theorem inv2_loaderCreateFile {s : State} (h : Inv2 s) (F given stored : Name) : Inv2 (loaderCreateFile s F given stored).1 := by
  unfold loaderCreateFile
  have ht := createFileTarget_spec h.1 F
  have hxt := xdisj_createFileTarget h.1 h.2 F
  cases heq : createFileTarget s F with
  | mk s1 og =>
    rw [heq] at ht hxt
    cases og with
    | none => exact ⟨ht.1, hxt⟩
    | some g =>
      simp only
      split
      · exact ⟨ht.1, hxt⟩
      · exact ⟨inv_createFileIn ht.1 (ht.2 g rfl) stored, xdisj_createFileIn ht.1 hxt (ht.2 g rfl) stored⟩

theorem inv2_loadFiles {s : State} (h : Inv2 s) (F : Name) (fs : List (Name × Name)) : Inv2 (loadFiles s F fs).1 := by
  induction fs generalizing s with
  | nil => exact h
  | cons p rest ih =>
    simp only [loadFiles]
    have h1 := inv2_loaderCreateFile h F p.1 p.2
    cases heq : loaderCreateFile s F p.1 p.2 with
    | mk s1 o =>
      rw [heq] at h1
      cases o <;> first | exact ih h1 | exact h1

theorem inv2_createFolder {s : State} (h : Inv2 s) (F : Name) : Inv2 (createFolder s F).1 :=
  ⟨(createFolder_spec h.1 F).1, xdisj_createFolder h.1 h.2 F⟩

/-- The loader keeps `Inv2` for every configuration, whether it completes or stops at an exception. -/
theorem C15_loader_inv {s : State} (h : Inv2 s) (cfs : List CfgFolder) : Inv2 (loadConfig s cfs).1 := by
  induction cfs generalizing s with
  | nil => exact h
  | cons cf rest ih =>
    simp only [loadConfig]
    have h1 := inv2_loadFiles (inv2_createFolder h cf.name) cf.name cf.files
    cases heq : loadFiles (createFolder s cf.name).1 cf.name cf.files with
    | mk s1 o =>
      rw [heq] at h1
      cases o <;> first | exact ih h1 | exact h1

theorem inv2_setupForEpisode {s : State} (h : Inv2 s) : Inv2 (setupForEpisode s) :=
  ⟨inv_congr h.1 rfl rfl rfl rfl, h.2⟩

/-- **The initial state satisfies `Inv` (and one-folder-per-file) and starts tick 0 with both counters at zero, for EVERY
configured folder list**; and so does every state the host reaches from it (requests, agent actions, API calls, power changes,
ticks). -/
theorem C15_initial_state (d : Option Int) (cfs : List CfgFolder) :
    let s0 := setupForEpisode (loadConfig (init d) cfs).1
    Inv s0 ∧ XDisj s0 ∧ s0.numCreations = 0 ∧ s0.numDeletions = 0 ∧
    (describe s0).numCreations = 0 ∧ (describe s0).numDeletions = 0 ∧
    ∀ (sc : Option Int) (on : Bool) (dur : Nat) (ops : List NOp),
      Inv (nrun { ninit d sc on dur with x := { (ninit d sc on dur).x with s := s0 } } ops).1.x.s := by
  intro s0
  have h0 : Inv2 s0 := inv2_setupForEpisode (C15_loader_inv (C15_inv2_init d) cfs)
  exact ⟨h0.1, h0.2, rfl, rfl, rfl, rfl, fun sc on dur ops => (C15_node_inv2_run (n := { ninit d sc on dur with x := { (ninit d sc on dur).x with s := s0 } }) h0 ops).1⟩

/-- Why `setup_for_episode` has to reset (the defect repaired in round 4, in miniature): without it the configured files are
reported as creations of tick 0. -/
theorem C15_loader_counts_configured_files_counterexample :
    ∃ cfs, (loadConfig (init none) cfs).2 = .success ∧ (loadConfig (init none) cfs).1.numCreations ≠ 0 :=
  ⟨[{ name := "docs", files := [("a.txt", "a.txt"), ("report", "report.docx")] }], by decide, by decide⟩

/-- A folder listed again (with no files) changes nothing structural: `create_folder` is add-if-absent. -/
theorem C15_loader_duplicate_folder_noop {s : State} (h : Inv s) {g : Folder} (hg : g ∈ s.folders) :
    (loadConfig s [{ name := g.name, files := [] }]).2 = .success ∧ (loadConfig s [{ name := g.name, files := [] }]).1.core = s.core := by
  have := C15_create_existing_folder_noop h hg
  simp only [step] at this
  simp only [loadConfig, loadFiles]
  exact ⟨trivial, this.2.1⟩

/-- A file listed again — under the name as configured, or under a name that collides only once the extension is appended —
raises, and the files of that folder are exactly what they were: no duplicate. -/
theorem C15_loader_duplicate_file_raises {s : State} (h : Inv s) {g : Folder} (hg : g ∈ s.folders) (hroot : g.name ≠ "")
    {f : File} (hf : f ∈ g.files) (given stored : Name) (hdup : given = f.name ∨ stored = f.name) :
    loaderCreateFile s g.name given stored = (s, .raised) := by
  have hgf := getFolder_of_live h hg
  have hff := getFile_of_live (h.folder g (Or.inl hg)).1 hf
  have htarget : createFileTarget s g.name = (s, some g) := by
    unfold createFileTarget
    simp only [ne_eq, hroot, not_false_eq_true, if_true, hgf]
  unfold loaderCreateFile
  rw [htarget]
  rcases hdup with rfl | rfl <;> simp [hff]

/-- Non-vacuity, and the cases the question asked about: a folder listed twice, the same file name in two folders, a
typed file, an empty folder — loads; a file listed twice, or twice modulo the extension — raises. -/
example :
    (loadConfig (init none) [{ name := "docs", files := [("a.txt", "a.txt"), ("report", "report.docx")] }, { name := "docs", files := [] },
      { name := "root", files := [("a.txt", "a.txt")] }, { name := "empty", files := [] }]).2 = .success ∧
    ((loadConfig (init none) [{ name := "docs", files := [("a.txt", "a.txt"), ("report", "report.docx")] }, { name := "docs", files := [] },
      { name := "root", files := [("a.txt", "a.txt")] }, { name := "empty", files := [] }]).1.folders.map
        fun g => (g.name, g.files.map File.name)) = [("root", ["a.txt"]), ("docs", ["a.txt", "report.docx"]), ("empty", [])] ∧
    (loadConfig (init none) [{ name := "docs", files := [("a.txt", "a.txt"), ("a.txt", "a.txt")] }]).2 = .raised ∧
    (loadConfig (init none) [{ name := "docs", files := [("r", "r.docx"), ("r.docx", "r.docx")] }]).2 = .raised ∧
    (loadConfig (init none) [{ name := "docs", files := [("r", "r.docx")] }, { name := "docs", files := [("r", "r.docx")] }]).2 = .raised := by
  decide

end Primaite.FileSystem
