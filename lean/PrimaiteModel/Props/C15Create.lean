/-
Property C15, ninth part (round 7): the creating methods and the counter resets, translated.

`FileSystem.get_file`, `FileSystem.create_folder`, `FileSystem.create_file`, `FileSystem.pre_timestep` and
`FileSystem.setup_for_episode` are translated statement by statement from the source (Gen/FileSystemMethods.lean, extractor
harness/extract/fsxlate.py) — `create_file` CALLS the translated `create_folder`, `get_file` and `Folder.add_file`.  This file proves
them equal to the model's functions (which the structural theorems `C15_inv_*`, `C15_create_existing_*`, `C15_counters_*` speak
about), so the clause "an action that creates a file or folder which already exists is refused or is a no-op rather than an error
or a duplicate" and "the counters start every tick at zero" are now about the code as it is written, not about a transcription
guarded by a text comparison.
-/
import PrimaiteModel.Model.FileSystemLoader
import PrimaiteModel.Lemmas.FileSystemOps
import PrimaiteModel.Props.C15Api
import PrimaiteModel.Props.C15Health
import PrimaiteModel.Lemmas.FileSystemDisjoint
import PrimaiteModel.Gen.FileSystemMethods
namespace Primaite.FileSystem
open Gen.FileSystemMethods

/-! ### helpers -/

/-- `d[k] = x; d[k] = y` is `d[k] = y`. -/
theorem dictSet_dictSet_same {α} (key : α → Nat) (l : List α) (x y : α) (h : key y = key x) :
    dictSet key (dictSet key l x) y = dictSet key l y := by
  unfold dictSet
  rw [h]
  cases hany : l.any (fun z => key z == key x) with
  | true =>
    have h2 : (l.map (fun z => if key z == key x then x else z)).any (fun z => key z == key x) = true := by
      simp only [List.any_eq_true, List.mem_map] at hany ⊢
      obtain ⟨z, hz, hk⟩ := hany
      exact ⟨x, ⟨z, hz, by simp [hk]⟩, by simp⟩
    simp only [↓reduceIte, h2, List.map_map]
    apply List.map_congr_left
    intro z _
    by_cases hk : key z = key x
    · simp [hk]
    · simp [hk]
  | false =>
    have h2 : (l ++ [x]).any (fun z => key z == key x) = true := by simp
    have h3 : l.map (fun z => if key z == key x then y else z) = l := by
      conv => rhs; rw [← List.map_id l]
      apply List.map_congr_left
      intro z hz
      have : (key z == key x) = false := by
        rw [Bool.eq_false_iff]
        intro hc
        have : l.any (fun z => key z == key x) = true := List.any_eq_true.mpr ⟨z, hz, hc⟩
        rw [hany] at this; exact Bool.noConfusion this
      simp [this]
    simp only [Bool.false_eq_true, ↓reduceIte, h2, List.map_append, h3]
    simp

/-- When the stored folder objects with the uuid of `g` are `g` itself (under `Inv`: `folder_eq_of_id`), two mutations that agree
on `g` agree. -/
theorem updFolder_congr_of {s : State} {g : Folder}
    (hu : ∀ g0, g0 ∈ s.folders ∨ g0 ∈ s.deletedFolders → g0.id = g.id → g0 = g) (t t' : Folder → Folder) (ht : t g = t' g) :
    updFolder s g.id t = updFolder s g.id t' := by
  unfold updFolder
  have e1 : s.folders.map (fun y => if y.id == g.id then t y else y) = s.folders.map (fun y => if y.id == g.id then t' y else y) := by
    apply List.map_congr_left
    intro y hy
    by_cases hk : y.id = g.id
    · rw [hu y (Or.inl hy) hk]; simp [ht]
    · simp [hk]
  have e2 : s.deletedFolders.map (fun y => if y.id == g.id then t y else y) = s.deletedFolders.map (fun y => if y.id == g.id then t' y else y) := by
    apply List.map_congr_left
    intro y hy
    by_cases hk : y.id = g.id
    · rw [hu y (Or.inr hy) hk]; simp [ht]
    · simp [hk]
  rw [e1, e2]

/-! ### `get_file`, `create_folder` -/

/-- `FileSystem.get_file` as translated: the folder lookup and the file lookup both with the caller's `include_deleted`; with the
default (`False`) it is the model's `getFile`. -/
theorem C15_gen_get_file (s : State) (F x : Name) (incl : Bool) :
    fsGetFile s F x incl = (getFolder s F incl).bind (fun g => g.getFile x incl) ∧ fsGetFile s F x false = getFile s F x := by
  unfold fsGetFile getFile
  constructor
  · cases getFolder s F incl <;> rfl
  · cases getFolder s F false <;> rfl

/-- **The closure `_file_action`** (route `["file", F, x, …]`), read from the source: it looks the file up with the TRANSLATED `get_file` on
`request[0]`, `request[1]` (live only — the model's `getFile`), consumes exactly two options and hands the rest to THAT file's own request
manager; the model's step for `fsFileVerb` is that composition (the `none` branch is the route's `_file_exists` validator, which refuses
before the closure would raise on `None`). Replaces the text pin of the closure (second shift of round 7). -/
theorem C15_gen_file_action (s : State) (F x : Name) (v : Verb) :
    hFileActionConsumed = 2 ∧ hFileActionTarget s F x = getFile s F x ∧
    step s (.fsFileVerb F x v) =
      (match getFolder s F with
       | none => (s, .failure)
       | some g =>
         match hFileActionTarget s F x with
         | none => (s, .failure)
         | some f =>
           match f.verb v with
           | none => (s, .unreachable)
           | some (f', b) =>
             (updFolder s g.id (fun g => { g with files := g.files.map (fun y => if y.id == f.id then f' else y) }), ofBool b)) := by
  have h2 := (C15_gen_get_file s F x false).2
  refine ⟨rfl, ?_, ?_⟩
  · unfold hFileActionTarget; exact h2
  · unfold hFileActionTarget
    rw [h2]
    show fsFileVerb s F x v = _
    unfold fsFileVerb getFile
    cases getFolder s F <;> rfl

/-- **`FileSystem.create_folder` as translated from the source is the model's `createFolder`**, state and returned folder, for every
state and name: an existing live folder is re-stored under its own uuid (no second entry, no new route, no new uuid), a missing one
is created with a fresh uuid and its route; the default restore duration, when set, lands on the STORED object (the assignment comes
after the store in the source: one object). -/
theorem C15_gen_create_folder (s : State) (n : Name) : fsCreateFolder s n = createFolder s n := by
  unfold fsCreateFolder createFolder
  cases hg : getFolder s n false with
  | some g =>
    cases hd : s.defaultRestore with
    | none => simp [hd]
    | some d =>
      simp only [hd]
      rw [dictSet_dictSet_same Folder.id s.folders g { g with restoreDuration := d } rfl]
  | none =>
    cases hd : s.defaultRestore with
    | none => simp [hd]
    | some d =>
      simp only [hd]
      rw [dictSet_dictSet_same Folder.id s.folders { id := s.next, name := n } { id := s.next, name := n, restoreDuration := d } rfl]

/-- Creating a folder that exists is a no-op on the structure — stated for the TRANSLATED method: same live and deleted folders up to
the duration field of that one folder, same routes, no uuid consumed. -/
theorem C15_translated_create_existing_folder {s : State} (h : Inv s) {n : Name} {g : Folder} (hg : getFolder s n = some g) :
    (fsCreateFolder s n).1.deletedFolders = s.deletedFolders ∧ (fsCreateFolder s n).1.folderRoutes = s.folderRoutes ∧
    (fsCreateFolder s n).1.next = s.next ∧ (fsCreateFolder s n).1.numCreations = s.numCreations ∧
    (fsCreateFolder s n).1.folders.map Folder.id = s.folders.map Folder.id ∧
    (fsCreateFolder s n).1.folders.map Folder.name = s.folders.map Folder.name ∧
    (fsCreateFolder s n).1.folders.map Folder.files = s.folders.map Folder.files ∧
    (fsCreateFolder s n).1.folders.map Folder.deletedFiles = s.folders.map Folder.deletedFiles := by
  rw [C15_gen_create_folder, createFolder_eq, hg]
  obtain ⟨hgm, _⟩ := getFolder_live hg
  obtain ⟨f1, f2, _, f4, f5, _, _⟩ := setDur_fields s g
  have hany : s.folders.any (fun y => y.id == (setDur s g).id) = true := by
    simp only [List.any_eq_true, beq_iff_eq]; exact ⟨g, hgm, f1.symm⟩
  have hfold : dictSet Folder.id s.folders (setDur s g) = s.folders.map (fun y => if y.id == g.id then setDur s g else y) := by
    unfold dictSet; rw [if_pos hany, f1]
  simp only [hfold, List.map_map]
  refine ⟨trivial, trivial, trivial, trivial, ?_, ?_, ?_, ?_⟩ <;>
  · apply List.map_congr_left
    intro y hy
    by_cases hk : y.id = g.id
    · have := folder_eq_of_id h hgm (Or.inl hy) hk
      subst this
      simp [f1, f2, f4, f5]
    · simp [hk]

/-! ### `create_file` -/

/-- What `Folder.add_file` (translated) does to the folder `create_file` found or made: with the file `get_file` found there
(force), or a fresh one under a name that is not live, it is the model's plain `addFile` and does not raise; an existing file
unforced raises. -/
theorem addFile_in_create {g : Folder} {n : Nat} (hb : FolderBelow n g) (x : Name) (force : Bool) :
    (∀ f, g.getFile x = some f →
      folderAddFile g f force = (if force then some (g.addFile f) else none)) ∧
    (g.getFile x = none → folderAddFile g { id := n, name := x } force = some (g.addFile { id := n, name := x })) := by
  constructor
  · intro f hf
    have hfn : f.name = x := by
      unfold Folder.getFile at hf
      cases hl : g.files.find? (fun f => f.name == x) with
      | some f' => rw [hl] at hf; simp at hf; subst hf; simpa using List.find?_some hl
      | none => rw [hl] at hf; simp at hf
    rw [C15_gen_add_file]
    unfold Folder.addFileApi Folder.addFileForced
    rw [hfn, hf]
    cases force <;> simp
  · intro hnone
    rw [C15_gen_add_file]
    unfold Folder.addFileApi Folder.addFileForced
    simp only [hnone]
    have : g.files.any (fun y => y.id == n) = false := by
      rw [Bool.eq_false_iff]
      intro hc
      simp only [List.any_eq_true, beq_iff_eq] at hc
      obtain ⟨y, hy, hyn⟩ := hc
      have := hb y (Or.inl hy)
      omega
    simp [this]

/-- The second half of the translated `create_file` (from the folder on), exactly as the translation has it in each of its branches
(`fsCreateFile_shape` below is by `rfl`). -/
def createFileTail (s1 : State) (g : Folder) (x : Name) (force : Bool) : State × Option File :=
  match fsGetFile s1 g.name x false with
  | some file =>
    match folderAddFile g file force with
    | none => (s1, none)
    | some _ =>
      ({ updFolder s1 g.id (fun g' => (folderAddFile g' file force).getD g') with numCreations := s1.numCreations + 1 }, some file)
  | none =>
    match folderAddFile g ({ id := s1.next, name := x } : File) force with
    | none => ({ s1 with next := s1.next + 1 }, none)
    | some _ =>
      ({ updFolder { s1 with next := s1.next + 1 } g.id (fun g' => (folderAddFile g' { id := s1.next, name := x } force).getD g') with
          numCreations := s1.numCreations + 1 }, some ({ id := s1.next, name := x } : File))

/-- The translated `create_file` is: choose the folder (found, made by the translated `create_folder`, or root), then the tail. -/
theorem fsCreateFile_shape (s : State) (x F : Name) (force : Bool) :
    fsCreateFile s x F force =
      if F != "" then
        match getFolder s F false with
        | some g => createFileTail s g x force
        | none => createFileTail (fsCreateFolder s F).1 (fsCreateFolder s F).2 x force
      else
        match getFolder s "root" false with
        | none => (s, none)
        | some g => createFileTail s g x force := by
  unfold fsCreateFile createFileTail
  rfl

/-- The tail against the model's, for a LIVE folder of a state with `Inv`. -/
theorem createFile_tail {s1 : State} (h1 : Inv s1) {g : Folder} (hg : g ∈ s1.folders) (x : Name) (force : Bool) :
    createFileTail s1 g x force =
    (if (g.getFile x).isSome && !force then (s1, none)
     else ((createFileIn s1 g x).1, some (match g.getFile x with | some f => f | none => { id := s1.next, name := x }))) := by
  unfold createFileTail
  have hgf : fsGetFile s1 g.name x false = g.getFile x := by
    rw [(C15_gen_get_file s1 g.name x false).2]
    unfold getFile
    have : getFolder s1 g.name = some g := by
      cases hq : getFolder s1 g.name with
      | none => exact absurd rfl (getFolder_none hq g hg)
      | some g' =>
        obtain ⟨hm, hn⟩ := getFolder_live hq
        have := h1.uniqueNames g' hm g hg hn
        rw [folder_eq_of_id h1 hg (Or.inl hm) this]
    rw [this]
  have hb : FolderBelow s1.next g := (h1.folder g (Or.inl hg)).2.1
  obtain ⟨hA, hB⟩ := addFile_in_create hb x force
  have hu : ∀ g0, g0 ∈ s1.folders ∨ g0 ∈ s1.deletedFolders → g0.id = g.id → g0 = g := fun g0 h0 hid => folder_eq_of_id h1 hg h0 hid
  rw [hgf]
  unfold createFileIn
  cases hf : g.getFile x with
  | some f =>
    have := hA f hf
    cases force with
    | false => simp [this]
    | true =>
      simp only [this]
      rw [updFolder_congr_of (s := s1) hu (fun g' => (folderAddFile g' f true).getD g') (fun g => g.addFile f) (by simp [this])]
      simp
  | none =>
    have := hB hf
    simp only [this]
    rw [updFolder_congr_of (s := { s1 with next := s1.next + 1 }) hu
      (fun g' => (folderAddFile g' { id := s1.next, name := x } force).getD g') (fun g => g.addFile { id := s1.next, name := x }) (by simp [this])]
    simp [updFolder]

/-- **`FileSystem.create_file` as translated from the source — calling the translated `create_folder`, `get_file` and
`Folder.add_file` — is the model's direct call `apiCreateFile`**: same state afterwards (also at a raise), it raises exactly where
the model says `raised` (an unforced duplicate; no live root for an empty folder name), and otherwise returns the file the model
stores: the existing live file of that name (forced: re-added under its own uuid, no second file), or a new one with a fresh uuid.
For every state satisfying `Inv` (every reachable state: `C15_any_inv_reachable`), every name and flag. -/
theorem C15_gen_create_file {s : State} (h : Inv s) (F x : Name) (force : Bool) :
    (fsCreateFile s x F force).1 = (apiCreateFile s F x force).1 ∧
    ((fsCreateFile s x F force).2 = none ↔ (apiCreateFile s F x force).2 = .raised) := by
  rw [fsCreateFile_shape]
  unfold apiCreateFile createFileTarget
  by_cases hF : F = ""
  · subst hF
    simp only [bne_self_eq_false, Bool.false_eq_true, if_false, ne_eq, not_true_eq_false]
    cases hg : getFolder s "root" false with
    | none => simp
    | some g =>
      obtain ⟨hgm, _⟩ := getFolder_live hg
      simp only [createFile_tail h hgm x force]
      cases hc : ((g.getFile x).isSome && !force) <;> simp [createFileIn_out]
  · have hne : (F != "") = true := by simpa using hF
    simp only [hne, if_true, ne_eq, hF, not_false_eq_true]
    cases hg : getFolder s F false with
    | some g =>
      obtain ⟨hgm, _⟩ := getFolder_live hg
      simp only [createFile_tail h hgm x force]
      cases hc : ((g.getFile x).isSome && !force) <;> simp [createFileIn_out]
    | none =>
      simp only [C15_gen_create_folder]
      obtain ⟨hI, hm, _, _⟩ := createFolder_spec h F
      simp only [createFile_tail hI hm x force]
      cases hc : (((createFolder s F).2.getFile x).isSome && !force) <;> simp [createFileIn_out]

/-- The request handler `_create_file_action` refuses an unforced duplicate before calling `create_file`; past that refusal the
request's state IS the translated `create_file`'s, and the translated method does not raise unless there is no live root (excluded by
`Inv`). So: the `node-file-create` action on an existing file is refused (unforced) or re-adds the same object (forced) — no error, no
second file — as a statement about the translated code. -/
theorem C15_gen_create_file_request {s : State} (h : Inv s) (F x : Name) (force : Bool) :
    createFile s F x force =
      if !force && (fsGetFile s (if F = "" then "root" else F) x false).isSome then (s, .failure)
      else ((fsCreateFile s x F force).1, if (fsCreateFile s x F force).2 = none then .raised else .success) := by
  rw [(C15_gen_get_file s _ x false).2, (C15_gen_create_file h F x force).1]
  unfold createFile
  by_cases hc : (!force && (getFile s (if F = "" then "root" else F) x).isSome) = true
  · simp [hc]
  · simp only [hc, Bool.false_eq_true, if_false]
    have hiff := (C15_gen_create_file h F x force).2
    unfold apiCreateFile at hiff ⊢
    rcases hT : createFileTarget s F with ⟨s1, _ | g⟩
    · rw [hT] at hiff
      simp only at hiff ⊢
      simp [hiff.mpr trivial]
    · rw [hT] at hiff
      simp only at hiff ⊢
      -- the handler's guard is the same lookup as the one inside create_file
      have hsame : ((g.getFile x).isSome && !force) = false := by
        cases force with
        | true => simp
        | false =>
          simp only [Bool.not_false, Bool.true_and, Bool.not_eq_true] at hc
          simp only [Bool.not_false, Bool.and_true]
          unfold createFileTarget at hT
          by_cases hF : F = ""
          · subst hF
            simp only [ne_eq, not_true_eq_false, if_false, Prod.mk.injEq] at hT
            unfold getFile at hc
            simp only [if_true] at hc
            rw [hT.2] at hc
            simpa using hc
          · simp only [ne_eq, hF, not_false_eq_true, if_true] at hT
            unfold getFile at hc
            simp only [hF, if_false] at hc
            cases hq : getFolder s F with
            | some g' =>
              rw [hq] at hT hc
              simp only [Prod.mk.injEq, Option.some.injEq] at hT
              rw [← hT.2]; simpa using hc
            | none =>
              rw [hq] at hT
              simp only [Prod.mk.injEq, Option.some.injEq] at hT
              rw [← hT.2, createFolder_eq, hq]
              obtain ⟨_, _, _, f4, _⟩ := setDur_fields s { id := s.next, name := F }
              simp [Folder.getFile, f4]
      rw [hsame] at hiff ⊢
      simp only [Bool.false_eq_true, if_false, createFileIn_out] at hiff ⊢
      have : ¬ (fsCreateFile s x F force).2 = none := fun hn => by simpa using hiff.mp hn
      simp only [this, if_false]
      exact Prod.ext rfl (createFileIn_out s1 g x)

/-! ### the uuid-keyed API, `remove_all_files`, `copy_file` (second batch) -/

theorem fsGetFolderById_false (s : State) (i : Nat) : fsGetFolderById s i false = s.folders.find? (fun g => g.id == i) := rfl
theorem folderGetFileById_false (g : Folder) (i : Nat) : folderGetFileById g i false = g.files.find? (fun f => f.id == i) := rfl

/-- `dict.get(uuid)` lookups as translated: live dictionary only by default; with `include_deleted` the deleted dictionary first. -/
theorem C15_gen_by_id_lookups (s : State) (g : Folder) (i : Nat) :
    folderGetFileById g i false = g.files.find? (fun f => f.id == i) ∧
    folderGetFileById g i true = (g.deletedFiles.find? (fun f => f.id == i)).or (g.files.find? (fun f => f.id == i)) ∧
    fsGetFolderById s i false = s.folders.find? (fun g => g.id == i) ∧
    fsGetFolderById s i true = (s.deletedFolders.find? (fun g => g.id == i)).or (s.folders.find? (fun g => g.id == i)) := by
  unfold folderGetFileById fsGetFolderById
  refine ⟨rfl, ?_, rfl, ?_⟩
  · cases g.deletedFiles.find? (fun f => f.id == i) <;> simp
  · cases s.deletedFolders.find? (fun g => g.id == i) <;> simp

/-- `Folder.remove_all_files` (the loop that flags every live file and stores it among the deleted ones, then `files = {}`) and
`Folder.remove_file_by_id` as translated are the model's: the latter raises exactly for a uuid that is not live in the folder. -/
theorem C15_gen_remove_all_and_by_id (g : Folder) (j : Nat) :
    folderRemoveAllFiles g = g.removeAllFiles ∧
    folderRemoveFileById g j =
      (match g.files.find? (fun f => f.id == j) with
       | none => (g, false)
       | some f => (g.removeFile f, true)) := by
  refine ⟨rfl, ?_⟩
  unfold folderRemoveFileById
  rw [folderGetFileById_false]
  cases g.files.find? (fun f => f.id == j) <;> rfl

/-- `delete_file_by_id` / `delete_folder_by_id` as translated — calling the translated `delete_file` / `delete_folder` with the NAMES
of what the uuids denote — are the model's API operations: the first never raises, the second raises exactly for a uuid that is not
a live folder's. -/
theorem C15_gen_delete_by_id (s : State) (i j : Nat) :
    (fsDeleteFileById s i j).1 = (apiDeleteFileById s i j).1 ∧ (fsDeleteFileById s i j).2 = true ∧
    (fsDeleteFolderById s i).1 = (apiDeleteFolderById s i).1 ∧
    ((fsDeleteFolderById s i).2 = false ↔ (apiDeleteFolderById s i).2 = .raised) := by
  unfold fsDeleteFileById fsDeleteFolderById apiDeleteFileById apiDeleteFolderById
  simp only [fsGetFolderById_false, folderGetFileById_false]
  refine ⟨?_, ?_, ?_, ?_⟩
  · cases s.folders.find? (fun g => g.id == i) with
    | none => rfl
    | some g =>
      dsimp only
      cases g.files.find? (fun f => f.id == j) with
      | none => rfl
      | some f => exact (C15_gen_fs_delete_restore_file s g.name f.name).1
  · cases s.folders.find? (fun g => g.id == i) with
    | none => rfl
    | some g => dsimp only; cases g.files.find? (fun f => f.id == j) <;> rfl
  · cases s.folders.find? (fun g => g.id == i) with
    | none => rfl
    | some g => exact (C15_gen_restore_delete_folder s g.name).2.2.1
  · cases s.folders.find? (fun g => g.id == i) <;> simp

/-- A forced `add_file` (translated) never raises and is the model's `addFileForced`. -/
theorem folderAddFile_forced (g : Folder) (f : File) : folderAddFile g f true = some (g.addFileForced f) := by
  rw [C15_gen_add_file]; unfold Folder.addFileApi; simp

/-- **`FileSystem.copy_file` as translated is the model's `apiCopyFile`** (state; it never raises): nothing happens without a live
source; otherwise the copy gets a FRESH uuid, the destination folder is found or made by the translated `create_folder`, the
creation is counted, and the forced `add_file` (translated) replaces a live namesake instead of standing beside it. -/
theorem C15_gen_copy_file (s : State) (F x G : Name) :
    (fsCopyFile s F x G).1 = (apiCopyFile s F x G).1 ∧ (fsCopyFile s F x G).2 = true := by
  unfold fsCopyFile apiCopyFile getOrCreateFolder
  rw [(C15_gen_get_file s F x false).2]
  cases getFile s F x with
  | none => exact ⟨rfl, rfl⟩
  | some f =>
    cases hG : getFolder s G false with
    | some g => simp [hG, folderAddFile_forced, updFolder]
    | none => simp [hG, folderAddFile_forced, updFolder, C15_gen_create_folder]

/-! ### `move_file` -/

/-- The part of the translated `move_file` after the destination folder is known, exactly as the translation has it in both branches
(`fsMoveFile_shape` is by `rfl`). After `src_folder.files.pop(...)` mutated an object of the file system, the translator reads every
folder variable again from the state (a variable denotes the object of that uuid). -/
def moveTail (s1 : State) (src? : Option Folder) (dst : Folder) (file : File) : State × Bool :=
  if (dst.getFile file.name false).isSome then (s1, true)
  else
    match src? with
    | none => (s1, false)
    | some src =>
      if !(src.files.any (fun y => y.id == file.id)) then (s1, false) else
        let s := updFolder s1 src.id (fun g => { g with files := dictPop File.id g.files file.id })
        let dst' := (findFolderById s dst.id).getD dst
        let s := { s with numDeletions := s.numDeletions + 1 }
        match folderAddFile dst' file false with
        | none => (s, false)
        | some _ =>
          let s := updFolder s dst'.id (fun g => (folderAddFile g file false).getD g)
          let s := { s with numCreations := s.numCreations + 1 }
          (s, true)

theorem fsMoveFile_shape (s : State) (F x G : Name) :
    fsMoveFile s F x G =
      match fsGetFile s F x false with
      | some file =>
        (match getFolder s G false with
         | some dst => moveTail s (getFolder s F false) dst file
         | none => moveTail (fsCreateFolder s G).1 (getFolder s F false) (fsCreateFolder s G).2 file)
      | none => (s, true) := by
  unfold fsMoveFile moveTail
  rfl

/-- The tail against the model: source and destination live folders of a state with `Inv`, the file live in the source, and — when
the move happens — its uuid not already in the destination (`MoveFresh`). -/
theorem moveTail_eq {s1 : State} (h1 : Inv s1) {src dst : Folder} {f : File} (hs : src ∈ s1.folders) (hd : dst ∈ s1.folders)
    (hf : f ∈ src.files)
    (hfresh : dst.getFile f.name = none → ∀ a, a ∈ dst.files ∨ a ∈ dst.deletedFiles → a.id ≠ f.id) :
    moveTail s1 (some src) dst f =
      if (dst.getFile f.name).isSome then (s1, true) else
        ({ updFolder (updFolder s1 src.id (fun g => { g with files := dictPop File.id g.files f.id })) dst.id (fun g => g.addFile f) with
            numDeletions := s1.numDeletions + 1, numCreations := s1.numCreations + 1 }, true) := by
  unfold moveTail
  by_cases hc : (dst.getFile f.name).isSome = true
  · simp [hc]
  · have hnone : dst.getFile f.name = none := by
      cases hq : dst.getFile f.name with
      | none => rfl
      | some _ => rw [hq] at hc; simp at hc
    have hany : src.files.any (fun y => y.id == f.id) = true := List.any_eq_true.mpr ⟨f, hf, by simp⟩
    have hne : dst.id ≠ src.id := by
      intro he
      have : dst = src := folder_eq_of_id h1 hs (Or.inl hd) he
      subst this
      have := getFile_isSome_of_live hf
      rw [hnone] at this; simp at this
    -- in the state after the pop, the object with the destination's uuid is still `dst`
    have hu2 : ∀ g0, g0 ∈ (updFolder s1 src.id (fun g => { g with files := dictPop File.id g.files f.id })).folders ∨
        g0 ∈ (updFolder s1 src.id (fun g => { g with files := dictPop File.id g.files f.id })).deletedFolders → g0.id = dst.id → g0 = dst := by
      intro g0 hg0 hid
      unfold updFolder at hg0
      simp only [List.mem_map] at hg0
      rcases hg0 with ⟨y, hy, rfl⟩ | ⟨y, hy, rfl⟩
      · by_cases hk : y.id = src.id
        · simp only [hk, beq_self_eq_true, if_true] at hid
          exact absurd hid.symm hne
        · have hb : (y.id == src.id) = false := by simpa using hk
          simp only [hb] at hid ⊢
          exact folder_eq_of_id h1 hd (Or.inl hy) hid
      · by_cases hk : y.id = src.id
        · simp only [hk, beq_self_eq_true, if_true] at hid
          exact absurd hid.symm hne
        · have hb : (y.id == src.id) = false := by simpa using hk
          simp only [hb] at hid ⊢
          exact folder_eq_of_id h1 hd (Or.inr hy) hid
    have hdst' : (findFolderById (updFolder s1 src.id (fun g => { g with files := dictPop File.id g.files f.id })) dst.id).getD dst = dst := by
      cases hq : findFolderById (updFolder s1 src.id (fun g => { g with files := dictPop File.id g.files f.id })) dst.id with
      | none => rfl
      | some g0 =>
        unfold findFolderById at hq
        have hm := List.mem_of_find?_eq_some hq
        have hi : g0.id = dst.id := by simpa using List.find?_some hq
        simp only [Option.getD_some]
        exact hu2 g0 (List.mem_append.mp hm) hi
    have hadd : folderAddFile dst f false = some (dst.addFile f) := by
      rw [C15_gen_add_file]
      unfold Folder.addFileApi Folder.addFileForced
      have hno : dst.files.any (fun y => y.id == f.id) = false := by
        rw [Bool.eq_false_iff]
        intro hc2
        simp only [List.any_eq_true, beq_iff_eq] at hc2
        obtain ⟨y, hy, hyi⟩ := hc2
        exact hfresh hnone y (Or.inl hy) hyi
      simp [hnone, hno]
    simp only [hc, hany, Bool.not_true, Bool.false_eq_true, if_false, hdst', hadd]
    rw [updFolder_congr_of
      (s := { updFolder s1 src.id (fun g => { g with files := dictPop File.id g.files f.id }) with numDeletions :=
        (updFolder s1 src.id (fun g => { g with files := dictPop File.id g.files f.id })).numDeletions + 1 })
      hu2 (fun g => (folderAddFile g f false).getD g) (fun g => g.addFile f) (by simp [hadd])]
    simp [updFolder]

/-- **`FileSystem.move_file` as translated from the source is the model's `apiMoveFile`** (state; it does not raise), for every state
with `Inv` and every move whose file is not already in the destination under its uuid (`MoveFresh`; in the implementation a `File`
object sits in one folder only — `XDisj`, proved for every reachable state in Props/C15Disjoint.lean): no live source file → nothing; a
live namesake in the destination (this includes a move within one folder) → nothing but the possibly created destination folder;
otherwise the file leaves `src.files` altogether (not left among its deleted files), enters `dst.files` under the same uuid, one
deletion and one creation are counted. -/
theorem C15_gen_move_file {s : State} (h : Inv s) (F x G : Name) (hfresh : MoveFresh s F x G) :
    (fsMoveFile s F x G).1 = (apiMoveFile s F x G).1 ∧ (fsMoveFile s F x G).2 = true := by
  rw [fsMoveFile_shape, (C15_gen_get_file s F x false).2]
  unfold apiMoveFile getFile
  unfold MoveFresh getFile at hfresh
  cases hsrc : getFolder s F false with
  | none => exact ⟨rfl, rfl⟩
  | some src =>
    obtain ⟨hsm, _⟩ := getFolder_live hsrc
    have hsrc' : getFolder s F = some src := hsrc
    simp only [hsrc'] at hfresh ⊢
    cases hfx : src.getFile x false with
    | none => exact ⟨rfl, rfl⟩
    | some f =>
      have hfx' : src.getFile x = some f := hfx
      obtain ⟨hfm, _⟩ := getFile_live hfx'
      have hfr := hfresh f hfx'
      simp only [hfx']
      unfold getOrCreateFolder at hfr ⊢
      cases hG : getFolder s G false with
      | some dst =>
        have hG' : getFolder s G = some dst := hG
        obtain ⟨hdm, _⟩ := getFolder_live hG
        simp only [hG'] at hfr ⊢
        rw [moveTail_eq h hsm hdm hfm hfr]
        by_cases hc : (dst.getFile f.name).isSome = true <;> simp [hc, updFolder]
      | none =>
        have hG' : getFolder s G = none := hG
        simp only [hG', C15_gen_create_folder] at hfr ⊢
        obtain ⟨hI, hm, _, _⟩ := createFolder_spec h G
        have hsm' : src ∈ (createFolder s G).1.folders := by
          rw [createFolder_eq, hG']
          simp only
          refine (mem_dictSet Folder.id).mpr (Or.inr ⟨hsm, ?_⟩)
          have := (h.folder src (Or.inl hsm)).2.2
          rw [(setDur_fields s _).1]
          simp only; omega
        rw [moveTail_eq hI hsm' hm hfm hfr]
        by_cases hc : ((createFolder s G).2.getFile f.name).isSome = true <;> simp [hc, updFolder]

/-- In every state with `Inv` and `XDisj` (every state reachable by requests, ticks and API calls: `C15_any_inv_reachable_full`, Props/C15Disjoint.lean) the translated
`move_file` is the model's, without side condition. -/
theorem C15_gen_move_file_of_xdisj {s : State} (h : Inv s) (hx : XDisj s) (F x G : Name) :
    (fsMoveFile s F x G).1 = (apiMoveFile s F x G).1 ∧ (fsMoveFile s F x G).2 = true :=
  C15_gen_move_file h F x G (moveFresh_of_xdisj h hx F x G)

/-! ### the counter resets -/

/-- `FileSystem.pre_timestep` and `FileSystem.setup_for_episode` as translated ARE the model's `preTick` / `setupForEpisode`: both
counters are set to zero, nothing else of the structure moves (the calls passed down to folders and files are checked to be
structurally inert by the extractor: they only reset `_scanned_this_step` / `num_access`). -/
theorem C15_gen_counter_resets (s : State) :
    fsPreTimestep s = (step s .preTick).1 ∧ fsSetupForEpisode s = setupForEpisode s ∧
    (fsPreTimestep s).numCreations = 0 ∧ (fsPreTimestep s).numDeletions = 0 ∧
    (fsPreTimestep s).folders = s.folders ∧ (fsPreTimestep s).deletedFolders = s.deletedFolders := by
  refine ⟨rfl, rfl, rfl, rfl, rfl, rfl⟩

/-- A reset that zeroes only one of the two counters (or adds instead of assigning) is not the model's: concrete state. -/
example : ({ init with numCreations := 2, numDeletions := 1 } : State) ≠ (step { init with numCreations := 2, numDeletions := 1 } .preTick).1 := by
  decide

/-! ### the tick -/

/-- **`Folder.apply_timestep` and `FileSystem.apply_timestep` as translated are the model's tick**, for every health of every folder:
a folder's tick is `_restoring_timestep` (the scan and reveal steps and the files' own ticks are checked to be structurally inert by
the extractor), and the file system ticks exactly its LIVE folders — a deleted folder's countdown stands still. -/
theorem C15_gen_apply_timestep (s : State) (r : FolderRec) :
    (folderApplyTimestep r).g = r.g.restoringTimestep ∧ fsApplyTimestep s = (step s .tick).1 ∧
    (fsApplyTimestep s).deletedFolders = s.deletedFolders := by
  refine ⟨(C15_gen_restoring_timestep r).1, ?_, rfl⟩
  unfold fsApplyTimestep step
  simp only
  congr 1
  apply List.map_congr_left
  intro g _
  exact (C15_gen_restoring_timestep { g := g }).1

/-! ### construction and access -/

/-- The file system before `__init__` runs its own statements: the pydantic defaults (empty dictionaries, counters 0 —
`C15_gen_constants` —, no default durations), no uuid handed out yet. -/
def blank : State :=
  { folders := [], deletedFolders := [], folderRoutes := [], numCreations := 0, numDeletions := 0, next := 0, defaultRestore := none }

/-- **`FileSystem.__init__` as translated yields the model's `init`**: a file system constructed without folders gets `root` from the
translated `create_folder` (first uuid, route registered); one constructed WITH folders is left alone. `FileSystem.access_file` as
translated answers whether the live file exists and changes nothing structural. -/
theorem C15_gen_init_and_access (s : State) (F x : Name) :
    fsInitMethod blank = init ∧ (s.folders ≠ [] → fsInitMethod s = s) ∧
    fsAccessFile s F x = (s, (getFile s F x).isSome) := by
  refine ⟨by decide, ?_, ?_⟩
  · intro h
    unfold fsInitMethod
    cases hf : s.folders with
    | nil => exact absurd hf h
    | cons a l => simp [hf]
  · unfold fsAccessFile getFile
    cases getFolder s F false with
    | none => rfl
    | some g => dsimp only; cases g.getFile x false <;> rfl

/-! ### the request handlers and the validators -/

/-- **The three handler closures of `FileSystem._init_request_manager` as translated — calling the translated `create_file`,
`create_folder`, `get_file`, `access_file` — are the model's `createFile`, `createFolder` + `success`, `access`**, state and answer, for
every state with `Inv` and all options: in particular the refusal of an unforced duplicate (`not request[2] and
self.get_file(folder_name=request[0] or 'root', …)`) is the model's guard, and a create request on an existing file is `failure`
(unforced) or `success` with the same single live file (forced) — never `raised`. -/
theorem C15_gen_handlers {s : State} (h : Inv s) (F x : Name) (force : Bool) :
    hCreateFileAction s F x force = createFile s F x force ∧
    hCreateFolderAction s F = ((createFolder s F).1, .success) ∧
    hAccessFileAction s F x = access s F x := by
  refine ⟨?_, ?_, ?_⟩
  · rw [C15_gen_create_file_request h]
    unfold hCreateFileAction
    have hsame : (if F != "" then F else "root") = (if F = "" then "root" else F) := by
      by_cases hF : F = "" <;> simp [hF]
    rw [hsame]
    -- by cases on the two Booleans, so that the proof does not depend on how the source orders the operands of its `and`
    cases force <;> cases hq : (fsGetFile s (if F = "" then "root" else F) x false).isSome <;>
      simp only [Bool.not_true, Bool.not_false, Bool.and_true, Bool.true_and, Bool.and_false, Bool.false_and, Bool.false_eq_true,
        if_true, if_false] <;>
      first
        | rfl
        | (rcases hq2 : fsCreateFile s x F false with ⟨s', _ | f⟩ <;> simp)
        | (rcases hq2 : fsCreateFile s x F true with ⟨s', _ | f⟩ <;> simp)
  · unfold hCreateFolderAction
    rw [C15_gen_create_folder]
  · unfold hAccessFileAction access
    rw [(C15_gen_get_file s F x false).2, (C15_gen_init_and_access s F x).2.2]
    cases hq : getFile s F x <;> simp [ofBool]

/-- **The five validators as translated are the model's guards**: `_FolderExistsValidator + _FolderNotDeletedValidator` = `folderGuard`,
`_FileExistsValidator` (file system) = the live lookup, `_FileExistsValidator + _FileNotDeletedValidator` (folder) = `fileGuard`; each
insists on as many options as it reads. -/
theorem C15_gen_validators (s : State) (g : Folder) (F x : Name) :
    (vFolderExists s F && vFolderNotDeleted s F) = folderGuard s F ∧
    vFileExists s F x = (getFile s F x).isSome ∧
    (vFolderFileExists g x && vFolderFileNotDeleted g x) = g.fileGuard x ∧
    validatorArity = [("FileSystem._FolderExistsValidator", 1), ("FileSystem._FolderNotDeletedValidator", 1),
      ("FileSystem._FileExistsValidator", 2), ("Folder._FileExistsValidator", 1), ("Folder._FileNotDeletedValidator", 1)] := by
  refine ⟨rfl, ?_, ?_, rfl⟩
  · unfold vFileExists; rw [(C15_gen_get_file s F x false).2]
  · unfold vFolderFileExists vFolderFileNotDeleted Folder.fileGuard
    cases g.getFile x false <;> simp

/-! ### the model's `step`, assembled from the translated pieces -/

/-- **Every operation of the model's `step` that is a file-system-level request or a tick is the translated code, assembled as the
request tree says**. The `route…` functions are GENERATED from the `add_request` calls of `FileSystem._init_request_manager`: the
validator attributes resolved through their bindings to the translated validators, the lambda's method / the handler closure to the
translated one (which key leads to which sub-manager is the regenerated `requestTable`): `delete file` = `_FileExistsValidator` then `delete_file`; `delete folder` = `_FolderExistsValidator` then
`delete_folder`; `restore file / folder` = the methods, unguarded; `create file / folder`, `access` = the handler closures;
`pre_timestep`, `apply_timestep` = the methods. The `folder` route's guard is the two folder validators. For every state with `Inv`
(the handlers need it) and all names. -/
theorem C15_gen_step_from_translated {s : State} (h : Inv s) (F x : Name) (force : Bool) :
    step s (.deleteFile F x) = routeDeleteFile s F x ∧
    step s (.deleteFolder F) = routeDeleteFolder s F ∧
    step s (.restoreFile F x) = routeRestoreFile s F x ∧
    step s (.restoreFolder F) = routeRestoreFolder s F ∧
    step s (.createFile F x force) = routeCreateFile s F x force ∧
    step s (.createFolder F) = routeCreateFolder s F ∧
    step s (.access F x) = routeRmAccess s F x ∧
    (step s .preTick).1 = fsPreTimestep s ∧ (step s .tick).1 = fsApplyTimestep s ∧
    (∀ k, viaFolder s F k = if !(routeRmFolderGuard s F) then (s, .failure) else viaFolder s F k) ∧
    routeRmFileGuard s F x = (getFile s F x).isSome := by
  unfold routeDeleteFile routeDeleteFolder routeRestoreFile routeRestoreFolder routeCreateFile routeCreateFolder routeRmAccess
    routeRmFolderGuard routeRmFileGuard
  obtain ⟨hc, hcf, ha⟩ := C15_gen_handlers h F x force
  obtain ⟨hdf1, hdf2, hrf1, hrf2⟩ := C15_gen_fs_delete_restore_file s F x
  obtain ⟨hrd1, hrd2, hdd1, hdd2⟩ := C15_gen_restore_delete_folder s F
  have ob : ∀ (a : State × Bool) (b : State × Out), a.1 = b.1 → (a.2 = true ↔ b.2 = .success) → (b.2 = .success ∨ b.2 = .failure) →
      fromBool a = b := by
    intro a b h1 h2 h3
    unfold fromBool ofBool
    apply Prod.ext
    · exact h1
    · cases ha2 : a.2 with
      | true => simp only [if_true]; exact (h2.mp ha2).symm
      | false =>
        simp only [Bool.false_eq_true, if_false]
        rcases h3 with h3 | h3
        · rw [h2.mpr h3] at ha2; exact Bool.noConfusion ha2
        · exact h3.symm
  refine ⟨?_, ?_, ?_, ?_, hc.symm, hcf.symm, ha.symm, (C15_gen_counter_resets s).1.symm, (C15_gen_apply_timestep s { g := { id := 0, name := "" } }).2.1.symm, ?_,
    (C15_gen_validators s { id := 0, name := "" } F x).2.1⟩
  · show deleteFile s F x = _
    rw [(C15_gen_validators s { id := 0, name := "" } F x).2.1]
    by_cases hv : (getFile s F x).isSome = true
    · simp only [hv, Bool.not_true, Bool.false_eq_true, if_false]
      refine (ob _ _ hdf1 hdf2 ?_).symm
      unfold deleteFile getFile
      cases getFolder s F with
      | none => simp
      | some g =>
        dsimp only
        split
        · simp
        · split <;> simp
    · have hv' : (getFile s F x).isSome = false := by simpa using hv
      simp only [hv', Bool.not_false, if_true]
      unfold deleteFile
      have : (getFile s F x).isNone = true := by
        cases hq : getFile s F x with
        | none => rfl
        | some _ => rw [hq] at hv; simp at hv
      simp [this]
  · show deleteFolder s F = _
    unfold vFolderExists
    cases hg : getFolder s F false with
    | none =>
      have hg' : getFolder s F = none := hg
      simp [deleteFolder, hg']
    | some g =>
      simp only [Option.isSome_some, Bool.not_true, Bool.false_eq_true, if_false]
      refine (ob _ _ hdd1 hdd2 ?_).symm
      have hg' : getFolder s F = some g := hg
      unfold deleteFolder
      rw [hg']
      by_cases hr : F = "root" <;> simp [hr]
  · show restoreFile s F x = _
    refine (ob _ _ hrf1 hrf2 ?_).symm
    unfold restoreFile
    cases getFolder s F with
    | none => simp
    | some g =>
      dsimp only
      cases hq : g.getFile x true with
      | none => simp [hq]
      | some f => cases hb : (g.restoreFile x).2 <;> simp [hq, hb, ofBool]
  · show restoreFolder s F = _
    refine (ob _ _ hrd1 hrd2 ?_).symm
    unfold restoreFolder
    cases getFolder s F true <;> simp
  · intro k
    rw [(C15_gen_validators s { id := 0, name := "" } F x).1]
    unfold viaFolder
    by_cases hgd : folderGuard s F = true <;> simp [hgd]

/-- The two routes of `Folder._init_request_manager`, generated the same way: `["folder",F,"delete",x]` is the model's continuation
(`remove_file_by_name`, translated, then `from_bool`), and the guard of `["folder",F,"file",x,…]` is the model's `fileGuard`. -/
theorem C15_gen_folder_routes (g : Folder) (x : Name) :
    some (folderRouteDelete g x) = (let (g', b) := g.removeFileByName x; some (g', ofBool b)) ∧
    folderRouteFileGuard g x = g.fileGuard x ∧
    (∀ v, (!folderRouteFileGuard g x) = true → g.fileRequest x v = (g, .failure)) := by
  refine ⟨?_, (C15_gen_validators init g "" x).2.2.1, ?_⟩
  · unfold folderRouteDelete
    rw [(C15_gen_lookups init g { id := 0, name := "" } x false).2.2.1]
  · intro v hv
    have hg : folderRouteFileGuard g x = g.fileGuard x := (C15_gen_validators init g "" x).2.2.1
    rw [hg] at hv
    unfold Folder.fileRequest
    simp [hv]

/-! ### the report -/

/-- **`describe_state` of `FileSystem` and of `Folder` as translated are the model's `describe`**: one `folders` entry per live folder
keyed by its name and holding that folder's own report, one `deleted_folders` entry per deleted folder, the two counters as stored;
in a folder's report `files` / `deleted_files` keyed by file name from the live / deleted dictionary respectively. With
`C15_describe_exact` (which is about `describe`): the reported state lists exactly the live and the deleted items — now a statement about
the translated code. -/
theorem C15_gen_describe_state (s : State) (g : Folder) :
    folderDescribeState g = g.describe ∧ fsDescribeState s = describe s := by
  refine ⟨rfl, ?_⟩
  unfold fsDescribeState describe
  rfl

/-! ### non-vacuity -/

/-- The translated `create_file` on concrete states: a new file in a new folder (folder and file get fresh uuids, one creation
counted), the same again forced (same uuid returned, still ONE live file), unforced (raises, state unchanged). -/
example :
    let r1 := fsCreateFile init "a" "fa" false
    let r2 := fsCreateFile r1.1 "a" "fa" true
    let r3 := fsCreateFile r2.1 "a" "fa" false
    r1.2 = some { id := 2, name := "a" } ∧ r1.1.numCreations = 1 ∧
    r2.2 = some { id := 2, name := "a" } ∧ r2.1.numCreations = 2 ∧
    (r2.1.folders.map (fun g => (g.name, g.files.map File.id))) = [("root", []), ("fa", [2])] ∧
    r3.2 = none ∧ r3.1 = r2.1 := by
  decide

end Primaite.FileSystem
