/-
C07, round 3 — frames, and the tie of the round-3 model to the CURRENT source (Gen/AclState.lean, regenerated on every
run by harness/extract/acl.py:emit_state).

* the code matches a `Frame`, the theorems of Props/C07.lean speak about a `Packet`: `Frame.toPacket` is the projection
  the code performs (`frame.ip.protocol`, the two addresses, the ports of `frame.tcp` else `frame.udp` else none) and the
  theorems below are stated over frames, including the frames WITHOUT ports (ICMP, protocol "none") and ARP;
* `C07_gen_is_permitted`: the translated `AccessControlList.is_permitted` IS `AclObj.isPermitted ∘ toPacket`;
* `C07_gen_*`: constructor, readers of `describe_state`/`show`/`num_rules`, keyword plumbing of `add_rule`, positional layout
  of the request handler against the four agent actions, the seven loader blocks, device defaults, `subject_to_acl`,
  `Frame.__init__`.
-/
import PrimaiteModel.Props.C07State
import PrimaiteModel.Gen.AclState
namespace Primaite.Acl
open Primaite.Gen.AclMatch

/-! ### frames -/

/-- the part of a frame `permit_frame_check` reads -/
def Frame.view (f : Frame) : FrameView :=
  { proto := f.proto, srcIp := f.srcIp, dstIp := f.dstIp, tcp := f.tcp, udp := f.udp }

theorem toPacket_view (f : Frame) : toPacket f.view = f.toPacket := by
  simp only [toPacket, Frame.view, Frame.toPacket, Frame.ports]
  cases f.tcp <;> rfl

/-- **What "matches" means for a frame.**  A rule matches a frame iff its protocol (if specified) is the frame's IP
protocol, each specified address field holds of the frame's address (exactly, or bit-for-bit outside the wildcard), and
each specified port equals the corresponding port of the frame's TCP header — or, only if there is no TCP header, of its
UDP header.  A frame with neither header HAS no ports, so no specified port can equal them. -/
theorem C07_frame_matches_iff (r : Rule) (f : Frame) :
    (permitFrameCheck r f.view).2 = true ↔
      (∀ q, r.proto = some q → q = f.proto) ∧
      AddrSpec r.srcIp r.srcWc f.srcIp ∧ AddrSpec r.dstIp r.dstWc f.dstIp ∧
      (∀ n, r.srcPort = some n → ∃ hdr, f.ports = some hdr ∧ hdr.1 = n) ∧
      (∀ n, r.dstPort = some n → ∃ hdr, f.ports = some hdr ∧ hdr.2 = n) := by
  rw [C07_gen_permit_frame_check, toPacket_view]
  show r.hits? f.toPacket = true ↔ _
  rw [C07_matches_iff]
  have hs : ∀ (sel : Nat × Nat → Nat) (rp : Option Nat),
      PortSpec rp (f.toPacket.ports.map sel) ↔ ∀ n, rp = some n → ∃ hdr, f.ports = some hdr ∧ sel hdr = n := by
    intro sel rp
    unfold PortSpec
    show (∀ n, rp = some n → f.ports.map sel = some n) ↔ _
    constructor
    · intro h n hn
      have := h n hn
      cases hp : f.ports with
      | none => rw [hp] at this; simp at this
      | some hdr => rw [hp] at this; exact ⟨hdr, rfl, by simpa using this⟩
    · intro h n hn
      obtain ⟨hdr, h1, h2⟩ := h n hn
      rw [h1]; simp [h2]
  rw [hs (·.1), hs (·.2)]
  rfl

/-- **A rule that specifies a port never matches a frame without ports** (an ICMP echo, a protocol-"none" frame): such a
rule neither permits nor denies it, whatever its action, protocol and addresses; the frame falls to later rules. -/
theorem C07_port_rule_skips_portless_frame (r : Rule) (f : Frame)
    (hr : r.srcPort.isSome = true ∨ r.dstPort.isSome = true) (ht : f.tcp = none) (hu : f.udp = none) :
    permitFrameCheck r f.view = (false, false) := by
  rw [C07_gen_permit_frame_check, toPacket_view]
  have hp : f.toPacket.ports = none := by simp [Frame.toPacket, Frame.ports, ht, hu]
  have : r.hits? f.toPacket = false := by
    unfold Rule.hits?
    rw [hp]
    rcases hr with h | h
    · cases hs : r.srcPort with
      | none => rw [hs] at h; simp at h
      | some n => simp [portMatches]
    · cases hs : r.dstPort with
      | none => rw [hs] at h; simp at h
      | some n => simp [portMatches]
  simp [this]

/-- which header supplies the ports: TCP wins over UDP; for frames `Frame.__init__` accepts, a TCP-protocol frame is
matched on its TCP header and a UDP-protocol frame on its UDP header. -/
theorem C07_frame_ports (f : Frame) :
    (∀ h, f.tcp = some h → f.ports = some h) ∧ (f.tcp = none → f.ports = f.udp) ∧
    (f.wf = true → f.proto = .tcp → ∃ h, f.tcp = some h ∧ f.ports = some h) ∧
    (f.wf = true → f.proto = .udp → ∃ h, f.udp = some h ∧ f.ports = some h) := by
  refine ⟨fun h e => by simp [Frame.ports, e], fun e => by simp [Frame.ports, e], ?_, ?_⟩
  · intro hw hp
    cases ht : f.tcp with
    | none => simp [Frame.wf, hp, ht] at hw
    | some h => exact ⟨h, rfl, by simp [Frame.ports, ht]⟩
  · intro hw hp
    cases hu : f.udp with
    | none => simp [Frame.wf, hp, hu] at hw
    | some h =>
      cases ht : f.tcp with
      | none => exact ⟨h, rfl, by simp [Frame.ports, ht, hu]⟩
      | some h' => simp [Frame.wf, hu, ht] at hw

/-- an ICMP frame as the ICMP service builds it (no transport header): a rule matches it iff it names no port, its
protocol is unspecified or ICMP, and its address fields hold. -/
theorem C07_icmp_frame_matches (r : Rule) (f : Frame) (hp : f.proto = .icmp) (ht : f.tcp = none) (hu : f.udp = none) :
    (permitFrameCheck r f.view).2 = true ↔
      (r.proto = none ∨ r.proto = some .icmp) ∧ r.srcPort = none ∧ r.dstPort = none ∧
      AddrSpec r.srcIp r.srcWc f.srcIp ∧ AddrSpec r.dstIp r.dstWc f.dstIp := by
  rw [C07_frame_matches_iff]
  have hports : f.ports = none := by simp [Frame.ports, ht, hu]
  rw [hports, hp]
  constructor
  · rintro ⟨h1, h2, h3, h4, h5⟩
    refine ⟨?_, ?_, ?_, h2, h3⟩
    · cases hq : r.proto with
      | none => exact Or.inl rfl
      | some q => exact Or.inr (by rw [h1 q hq])
    · cases hs : r.srcPort with
      | none => rfl
      | some n => obtain ⟨_, h, _⟩ := h4 n hs; simp at h
    · cases hs : r.dstPort with
      | none => rfl
      | some n => obtain ⟨_, h, _⟩ := h5 n hs; simp at h
  · rintro ⟨h1, h2, h3, h4, h5⟩
    refine ⟨?_, h4, h5, by simp [h2], by simp [h3]⟩
    intro q hq
    rcases h1 with h | h
    · rw [h] at hq; simp at hq
    · rw [h] at hq; injection hq with e; exact e.symm

/-- **Routers exempt ARP**: a UDP frame to the ARP port carrying an `ARPPacket` is permitted without the list being asked
(no counter moves); every other frame — a UDP frame to port 219 with another payload included — gets the list's verdict. -/
theorem C07_router_arp_exempt (o : AclObj) (f : Frame) :
    (f.proto = .udp ∧ f.udp.map (·.2) = some arpPort ∧ f.arpPayload = true →
        o.routerVerdict f = (true, none, o)) ∧
    (¬ (f.proto = .udp ∧ f.udp.map (·.2) = some arpPort ∧ f.arpPayload = true) →
        o.routerVerdict f = ((o.isPermitted f.toPacket).1, some (o.isPermitted f.toPacket).2.1, (o.isPermitted f.toPacket).2.2)) := by
  constructor
  · rintro ⟨h1, h2, h3⟩
    simp [AclObj.routerVerdict, Frame.subjectToAcl, h1, h2, h3]
  · intro h
    have hs : f.subjectToAcl = true := by
      unfold Frame.subjectToAcl
      by_cases h1 : f.proto = .udp <;> by_cases h2 : f.udp.map (·.2) = some arpPort <;> by_cases h3 : f.arpPayload = true <;>
        simp_all
    simp [AclObj.routerVerdict, hs]

/-- the two rules every router is born with: slot 22 matches exactly the frames whose header ports are both 219 (ARP),
slot 23 exactly the frames whose IP protocol is ICMP. -/
theorem C07_default_rules_meaning (f : Frame) :
    defaultRouterRules.map (·.1) = [22, 23] ∧
    (∀ r, (22, r) ∈ defaultRouterRules → ((permitFrameCheck r f.view).2 = true ↔ f.ports = some (arpPort, arpPort))) ∧
    (∀ r, (23, r) ∈ defaultRouterRules → ((permitFrameCheck r f.view).2 = true ↔ f.proto = .icmp)) := by
  refine ⟨rfl, ?_, ?_⟩
  · intro r hr
    have : r = { action := .permit, proto := none, srcIp := none, srcWc := none, dstIp := none, dstWc := none,
                 srcPort := some arpPort, dstPort := some arpPort } := by
      simp [defaultRouterRules] at hr; exact hr
    subst this
    rw [C07_frame_matches_iff]
    simp only [AddrSpec, reduceCtorEq, false_implies, implies_true, true_and, Option.some.injEq, forall_eq']
    constructor
    · rintro ⟨⟨h1, e1, e1'⟩, ⟨h2, e2, e2'⟩⟩
      rw [e1] at e2; injection e2 with e2; subst e2
      rw [e1]; congr 1; exact Prod.ext e1' e2'
    · intro h; exact ⟨⟨_, h, rfl⟩, ⟨_, h, rfl⟩⟩
  · intro r hr
    have : r = { action := .permit, proto := some .icmp, srcIp := none, srcWc := none, dstIp := none, dstWc := none,
                 srcPort := none, dstPort := none } := by
      simp [defaultRouterRules] at hr; exact hr
    subst this
    rw [C07_frame_matches_iff]
    simp only [AddrSpec, reduceCtorEq, false_implies, implies_true, and_true, Option.some.injEq, forall_eq']
    exact eq_comm

def ruleArp : Rule :=
  { action := .permit, proto := none, srcIp := none, srcWc := none, dstIp := none, dstWc := none,
    srcPort := some arpPort, dstPort := some arpPort }
def ruleIcmp : Rule :=
  { action := .permit, proto := some .icmp, srcIp := none, srcWc := none, dstIp := none, dstWc := none,
    srcPort := none, dstPort := none }

/-- **A router as built** (implicit DENY, ARP rule at 22, ICMP rule at 23) permits exactly the frames whose header ports
are both 219 (rule 22) and the ICMP frames (rule 23); everything else falls to the implicit DENY.  (ARP packets proper never
reach the list: `C07_router_arp_exempt`.) -/
theorem C07_router_as_built (f : Frame) :
    ((routerList 25).isPermitted f.toPacket).1 = true ↔ (f.ports = some (arpPort, arpPort) ∨ f.proto = .icmp) := by
  have h22 := (C07_default_rules_meaning f).2.1 ruleArp (by simp [defaultRouterRules, ruleArp])
  have h23 := (C07_default_rules_meaning f).2.2 ruleIcmp (by simp [defaultRouterRules, ruleIcmp])
  rw [C07_gen_permit_frame_check, toPacket_view] at h22 h23
  simp only at h22 h23
  have hr : (routerList 25).core.rules = List.replicate 22 none ++ [some ruleArp, some ruleIcmp] := by decide
  have hi : (routerList 25).core.implicit = .deny := by decide
  have hperm : ruleArp.action = .permit ∧ ruleIcmp.action = .permit := ⟨rfl, rfl⟩
  unfold AclObj.isPermitted Acl.isPermitted
  rw [hr]
  simp only [List.replicate, List.cons_append, List.nil_append, firstMatch]
  by_cases a : ruleArp.hits? f.toPacket = true
  · simp only [a, if_true]
    have := h22.mp a
    simp [this, hperm.1]
  · simp only [a, Bool.false_eq_true, if_false]
    have na : ¬ f.ports = some (arpPort, arpPort) := fun e => a (h22.mpr e)
    by_cases b : ruleIcmp.hits? f.toPacket = true
    · simp only [b, if_true]
      have := h23.mp b
      simp [this, hperm.2]
    · simp only [b, Bool.false_eq_true, if_false]
      have nb : ¬ f.proto = .icmp := fun e => b (h23.mpr e)
      simp [hi, na, nb]

/-! non-vacuity: concrete frames -/
def exPing : Frame :=
  { proto := .icmp, srcIp := 0xC0A80202#32, dstIp := 0xC0A80102#32, tcp := none, udp := none, icmp := true, arpPayload := false }
def exArp : Frame :=
  { proto := .udp, srcIp := 0xC0A80202#32, dstIp := 0xC0A80201#32, tcp := none, udp := some (219, 219), icmp := false, arpPayload := true }
def exHttp : Frame :=
  { proto := .tcp, srcIp := 0xC0A80117#32, dstIp := 0x0A000001#32, tcp := some (5000, 80), udp := none, icmp := false, arpPayload := false }

example : exPing.wf = true ∧ exArp.wf = true ∧ exHttp.wf = true := by decide
/-- a DENY rule for destination port 80 does not touch a ping; it does deny the HTTP frame -/
example : permitFrameCheck { exRulePermitAll with action := .deny, dstPort := some 80 } exPing.view = (false, false) ∧
    permitFrameCheck { exRulePermitAll with action := .deny, dstPort := some 80 } exHttp.view = (false, true) := by decide
/-- a router with an EMPTY list and implicit DENY still lets ARP through, and counts nothing -/
example : ((AclObj.construct none 25).routerVerdict exArp).1 = true ∧
    ((AclObj.construct none 25).routerVerdict exArp).2.2.core.implicitHits = 0 ∧
    ((AclObj.construct none 25).routerVerdict exPing).1 = false ∧
    ((AclObj.construct none 25).routerVerdict exPing).2.2.core.implicitHits = 1 := by decide
/-- the same ARP frame through a firewall's default-deny list (firewalls do not exempt ARP) is denied -/
example : ((AclObj.construct (some .deny) 25).isPermitted exArp.toPacket).1 = false := by decide

end Primaite.Acl

/-! ### Gen ties (Gen/AclState.lean is rewritten from the source on every run) -/
namespace Primaite.Acl
open Primaite.Gen.AclMatch Primaite.Gen.AclState

theorem scan_spec (f : FrameView) (rules : List (Option Rule)) (i : Nat) (pm : Bool) :
    match firstMatch (toPacket f) rules i with
    | some (j, r) => scan f rules i (pm, none) = ((r.action == .permit), some (.rule j))
    | none => (scan f rules i (pm, none)).2 = none := by
  induction rules generalizing i pm with
  | nil => simp [firstMatch, scan]
  | cons x rest ih =>
    cases x with
    | none =>
      have := ih (i + 1) pm
      simpa [firstMatch, scan] using this
    | some r =>
      by_cases hm : r.hits? (toPacket f) = true
      · simp [firstMatch, scan, C07_gen_permit_frame_check, hm]
      · have hm' : r.hits? (toPacket f) = false := by simpa using hm
        have := ih (i + 1) false
        simpa [firstMatch, scan, C07_gen_permit_frame_check, hm'] using this

/-- **The source of `is_permitted`, translated, is the model**: for every list object (whatever its implicit action, its
`implicit_rule`, its counters) and every frame, the translated loop + fall-through + increment computes exactly
`AclObj.isPermitted` on the frame's projection — same verdict, same decider, same counters.  A change of the scan
(another iterable, another order, no `break`), of what the fall-through reads (`implicit_rule.action` instead of
`implicit_action`), of the decider or of the increment breaks this theorem or the extractor. -/
theorem C07_gen_is_permitted (a : AclObj) (f : FrameView) :
    Primaite.Gen.AclState.isPermitted a f = a.isPermitted (toPacket f) := by
  have hs := scan_spec f a.core.rules 0 false
  unfold Primaite.Gen.AclState.isPermitted AclObj.isPermitted Acl.isPermitted
  cases hfm : firstMatch (toPacket f) a.core.rules 0 with
  | some jr =>
    obtain ⟨j, r⟩ := jr
    rw [hfm] at hs
    simp only [hs]
    simp [bumpRef, bump]
  | none =>
    rw [hfm] at hs
    simp only at hs
    simp only [hs]
    simp [bumpRef, beq_as_decide]

/-- constructor: the default implicit action, the `implicit_rule` built from exactly that action, the slot count -/
theorem C07_gen_construct (imp : Option Action) (n : Int) :
    (AclObj.construct imp n).core.implicit = imp.getD ctorDefaultImplicit ∧
    (AclObj.construct imp n).ruleAction = imp.getD ctorDefaultImplicit ∧
    ctorImplicitRuleKwargs = [("action", "kwargs['implicit_action']")] ∧
    (AclObj.construct imp n).core.rules.length = ctorSlots n ∧
    classMaxAclRules = Primaite.Gen.Acl.maxAclRules := by
  refine ⟨rfl, rfl, by decide, ?_, by decide⟩
  simp [AclObj.construct, Acl.empty, ctorSlots]

/-- who reads which part of the state: `describe_state()["implicit_action"]` and the fall-through verdict read the SAME
attribute; the `implicit_rule` key, the last row of `show()` and `num_rules` read what the model says they read. -/
theorem C07_gen_state_readers :
    fallThroughReads = "self.implicit_action == ACLAction.PERMIT" ∧
    describeReads.lookup "implicit_action" = some "self.implicit_action.value" ∧
    describeReads.lookup "implicit_rule" = some "self.implicit_rule.describe_state()" ∧
    describeReads.lookup "max_acl_rules" = some "self.max_acl_rules" ∧
    describeReads.lookup "acl" =
      some "{i: r.describe_state() if isinstance(r, ACLRule) else None for i, r in enumerate(self._acl)}" ∧
    describeReads.length = 4 ∧
    showIterates = "enumerate(self.acl + [self.implicit_rule])" ∧
    numRulesIs = "len([rule for rule in self._acl if rule is not None])" := by decide

/-- `add_rule` stores every parameter under the field of the same name (no swapped source/destination), takes nothing
else but the position, and its accepted branch stores the new rule UNCONDITIONALLY (an occupied slot is at most logged:
`C07_addRule_replaces` is what the code does) -/
theorem C07_gen_add_rule_plumbing :
    addRuleBranch.filter (· ≠ "log-if-occupied") = ["store", "return True"] ∧
    (∀ kv, kv ∈ addRuleStores → kv.1 = kv.2) ∧
    addRuleStores.length = 8 ∧ (∀ p, p ∈ addRuleParams → p = "position" ∨ p ∈ addRuleStores.map (·.1)) ∧
    addRuleParams.length = 9 := by decide

theorem pyIndex_nonneg (len : Nat) (i : Int) (h : 0 ≤ i) :
    pyIndex len i = if i.toNat < len then some i.toNat else none := by
  simp [pyIndex, h]

/-- **The source of `add_rule`, translated, is the model** — for every list object (whatever `max_acl_rules` has been
assigned), every rule and every position: same outcome (done / `ValueError` / `IndexError`), same object afterwards (on an
error: untouched), the stored rule carrying each parameter under its own field and a zero counter.  A changed guard, a
conditional or crossed store, a store at another index, or an early return breaks this theorem or the extractor. -/
theorem C07_gen_add_rule (a : AclObj) (r : Rule) (pos : Int) :
    Primaite.Gen.AclState.addRule a r pos = a.addRule r pos := by
  cases r
  unfold Primaite.Gen.AclState.addRule AclObj.addRule AclObj.inBound Acl.addRule
  by_cases h0 : 0 ≤ pos <;> by_cases h1 : pos < a.maxRules - 1
  · by_cases h2 : pos.toNat < a.core.rules.length <;> simp [h0, h1, h2, pyIndex_nonneg]
  · simp [h0, h1]
  · simp [h0, h1]
  · simp [h0, h1]

/-- **…and so is `remove_rule`.** -/
theorem C07_gen_remove_rule (a : AclObj) (pos : Int) :
    Primaite.Gen.AclState.removeRule a pos = a.removeRule pos := by
  unfold Primaite.Gen.AclState.removeRule AclObj.removeRule AclObj.inBound Acl.removeRule
  by_cases h0 : 0 ≤ pos <;> by_cases h1 : pos < a.maxRules - 1
  · by_cases h2 : pos.toNat < a.core.rules.length <;> simp [h0, h1, h2, pyIndex_nonneg]
  · simp [h0, h1]
  · simp [h0, h1]
  · simp [h0, h1]

/-- Python's negative indices never come into play: the guard admits no negative position (what `pyIndex` would do with
one — count from the end — is therefore unreachable; a guard loosened to `position < bound` alone would make
`add_rule(position=-1)` overwrite the LAST slot, and the two theorems above would fail). -/
theorem C07_negative_position_refused (a : AclObj) (r : Rule) (pos : Int) (h : pos < 0) :
    a.addRule r pos = (a, .valueError) ∧ a.removeRule pos = (a, .valueError) ∧
    pyIndex 24 (-1) = some 23 := by
  have : ¬ 0 ≤ pos := by omega
  refine ⟨by simp [AclObj.addRule, AclObj.inBound, this], by simp [AclObj.removeRule, AclObj.inBound, this], by decide⟩

/-- name of the action-schema field that carries an `add_rule` parameter -/
def actionField : String → String
  | "action" => "permission" | "protocol" => "protocol_name"
  | "src_ip_address" => "src_ip" | "src_wildcard_mask" => "src_wildcard" | "src_port" => "src_port"
  | "dst_ip_address" => "dst_ip" | "dst_wildcard_mask" => "dst_wildcard" | "dst_port" => "dst_port"
  | "position" => "position" | s => s

/-- what follows the request name in a formed request -/
def argsAfter (name : String) : List String → List String
  | [] => []
  | x :: rest => if x = name then rest else argsAfter name rest

/-- **Actions and request handler agree on the positional layout**: for both add-rule actions, the handler's parameter
read at `request[i]` is fed by the action field of that meaning at position `i` after `'add_rule'` (so source and
destination wildcards, ports and addresses cannot be crossed), the sentinels are `ALL` for addresses / ports / protocol and
`NONE` for wildcards, every `add_rule` parameter is fed, and the remove actions pass the position alone.  The routes are
`network/node/<router>/acl` and `network/node/<firewall>/<port>/<direction>/acl`. -/
theorem C07_gen_request_layout :
    (∀ act, act ∈ ["RouterACLAddRuleAction", "FirewallACLAddRuleAction"] →
      ∀ x, x ∈ requestLayout →
        ((actionRequests.lookup act).map (argsAfter "'add_rule'")).bind (·[x.2.1]?) = some (actionField x.1)) ∧
    requestLayout.map (·.1) = ["action", "protocol", "src_ip_address", "src_wildcard_mask", "src_port",
      "dst_ip_address", "dst_wildcard_mask", "dst_port", "position"] ∧
    requestLayout.map (·.2.2.1) = ["-", "ALL", "ALL", "NONE", "ALL", "ALL", "NONE", "ALL", "-"] ∧
    (actionRequests.lookup "RouterACLAddRuleAction").map (·.take 5) =
      some ["'network'", "'node'", "target_router", "'acl'", "'add_rule'"] ∧
    (actionRequests.lookup "FirewallACLAddRuleAction").map (·.take 7) =
      some ["'network'", "'node'", "target_firewall_nodename", "firewall_port_name", "firewall_port_direction", "'acl'", "'add_rule'"] ∧
    actionRequests.lookup "RouterACLRemoveRuleAction" =
      some ["'network'", "'node'", "target_router", "'acl'", "'remove_rule'", "position"] ∧
    actionRequests.lookup "FirewallACLRemoveRuleAction" =
      some ["'network'", "'node'", "target_firewall_nodename", "firewall_port_name", "firewall_port_direction", "'acl'",
            "'remove_rule'", "position"] := by decide

/-- the scenario key every loader block must read FIRST for a parameter, and the table it is looked up in -/
def loaderPrimary : List (String × String × String) :=
  [("action", "action", "ACLAction"), ("dst_ip_address", "dst_ip", "-"), ("dst_port", "dst_port", "PORT_LOOKUP"),
   ("dst_wildcard_mask", "dst_wildcard_mask", "-"), ("protocol", "protocol", "PROTOCOL_LOOKUP"),
   ("src_ip_address", "src_ip", "-"), ("src_port", "src_port", "PORT_LOOKUP"),
   ("src_wildcard_mask", "src_wildcard_mask", "-")]

/-- **Scenario loading installs each rule into the list it is written under, field by field**: `Router.from_config` has
one rule loop (into `router.acl`), `WirelessRouter.from_config` one (likewise), `Firewall.from_config` six — the loop over `config['acl'][X]` adds to `firewall.X`, for
exactly the six list fields of the class — all eight read the same keys for the same parameters (the keys the shipped
scenarios use first), and pass the mapping key as position. -/
theorem C07_gen_loader_blocks :
    (∀ b, b ∈ loaderBlocks → b.2.2.2 = (loaderBlocks.head?.map (·.2.2.2)).getD []) ∧
    (loaderBlocks.head?.map (fun b => (b.2.2.2.filter (·.2.1 ≠ [])).map (fun k => (k.1, k.2.1.head?.getD "", k.2.2)))) =
      some loaderPrimary ∧
    (loaderBlocks.head?.map (fun b => (b.2.2.2.filter (·.2.1 == [])).map (fun k => (k.1, k.2.2)))) =
      some [("position", "<mapping key>")] ∧
    (loaderBlocks.filter (·.1 == "Router")).map (fun b => (b.2.1, b.2.2.1)) = [("router.acl", "acl.items()")] ∧
    (loaderBlocks.filter (·.1 == "WirelessRouter")).map (fun b => (b.2.1, b.2.2.1)) =
      [("router.acl", "config['acl'].items()")] ∧
    loaderBlocks.length = 8 ∧
    (loaderBlocks.filter (·.1 == "Firewall")).map (fun b => (b.2.1, b.2.2.1)) =
      firewallLists.map (fun l => ("firewall." ++ l.1, "config['acl']['" ++ l.1 ++ "'].items()")) := by decide

/-- every key a loader block reads -/
def loaderReadKeys : List String := ((loaderBlocks.head?.map (·.2.2.2)).getD []).flatMap (·.2.1)

/-- **Every rule key the documentation tells users to write is a key the loaders read** (so a rule written as documented is
installed with that field, not silently without it).  Before the repair recorded as F-C07r3-1 the docstring of
`Router.from_config` and the configuration pages' own example used `src_ip_address` / `dst_ip_address`, which the loaders
ignored: the documented example rule was installed as PERMIT-everything. -/
theorem C07_gen_documented_keys_read : ∀ k, k ∈ documentedRuleKeys → k ∈ loaderReadKeys := by decide

/-- device defaults: the six firewall lists with their documented implicit actions, the router list's DENY and its two
default rules -/
theorem C07_gen_device_defaults :
    firewallLists = [("internal_inbound_acl", firewallImplicit .intIn), ("internal_outbound_acl", firewallImplicit .intOut),
      ("dmz_inbound_acl", firewallImplicit .dmzIn), ("dmz_outbound_acl", firewallImplicit .dmzOut),
      ("external_inbound_acl", firewallImplicit .extIn), ("external_outbound_acl", firewallImplicit .extOut)] ∧
    routerImplicit = .deny ∧ routerDefaultRules = defaultRouterRules := by decide

/-- `Router.subject_to_acl`, `Frame.is_arp` and the refusals of `Frame.__init__` are the model's -/
theorem C07_gen_frame (f : Frame) :
    Primaite.Gen.AclState.subjectToAcl f = f.subjectToAcl ∧ frameAccepted f = f.wf ∧
    Primaite.Gen.AclState.arpPort = Primaite.Acl.arpPort := by
  refine ⟨rfl, ?_, rfl⟩
  unfold frameAccepted Frame.wf
  cases f.proto <;> cases f.tcp.isSome <;> cases f.udp.isSome <;> cases f.icmp <;> rfl

end Primaite.Acl
