/-
C18, continued — the method bodies, translated statement by statement (`Gen.LinkBody`, from harness/extract/link_body.py), compute
the model.  Each theorem is for EVERY state (every load, capacity, pair of sizes before / after the timestamp, flag, far side); a
rewrite of a body that keeps its meaning yields another term for which the same proof script goes through, a change of meaning
yields a term for which the statement is false.
-/
import PrimaiteModel.Props.C18
import PrimaiteModel.Gen.LinkBody

set_option linter.unusedSimpArgs false
set_option linter.unnecessarySimpa false
set_option linter.unusedVariables false

namespace Primaite.Link
open Body

/-- the size `frame.size_Mbits` reads in a state -/
def sizeAt (env : Env) (stamped : Bool) : Nat := if stamped then env.sizeS else env.sizeU

/-- The model's decision chain for a wired `send_frame` (what `runEv` does for `Ev.send`), on one link: returned value and load.
`orc l` = what the far interface answers when handed the frame while the load is `l`, and the load when it returns. -/
def sendSpec (enS up : Bool) (load s cap : Nat) (orc : Nat → Bool × Nat) : Bool × Nat :=
  if !enS then (false, load)
  else if !up then (false, load)
  else if !admits load s cap then (false, load)
  else if (orc (load + s)).1 then (true, (orc (load + s)).2) else (true, (orc (load + s)).2 - s)

/-- The model's decision chain for a wireless `send_frame` on one hz (an absent key reads as 0). -/
def airSpec (enS : Bool) (load : Option Nat) (s cap : Nat) (orc : Nat → Nat) : Bool × Nat :=
  if !enS then (false, load.getD 0)
  else if !admits (load.getD 0) s cap then (false, load.getD 0)
  else (true, orc (load.getD 0 + s))

/-- `Link.can_transmit_frame` = `is_up ∧ load + size ≤ bandwidth` with the size the frame HAS at that moment, state untouched —
whatever a caller hands over as the optional parameter (`a`; quantified over as soon as some call site passes one,
`Gen.LinkBody.canArgPassed`): the value tested is the value `transmit_frame` will store. -/
theorem C18_gen_link_can_transmit_body (env : Env) (l : Nat) (vars : List (Nat × Nat)) (stamped : Bool) (a a0 : Option Nat)
    (h : Gen.LinkBody.canArgPassed = false → a = none) :
    callBool env noSub Gen.LinkBody.linkCanTransmit a { load := some l, vars := vars, stamped := stamped, arg := a0 } =
      some (env.up && admits l (sizeAt env stamped) env.cap, { load := some l, vars := vars, stamped := stamped, arg := a0 }) := by
  cases a with
  | none =>
    cases hu : env.up <;> cases stamped <;>
      simp [callBool, Gen.LinkBody.linkCanTransmit, exec, evalB, evalN, hu, admits, sizeAt]
  | some x =>
    first
    | (exfalso; simpa [Gen.LinkBody.canArgPassed] using h)
    | (cases hu : env.up <;> cases stamped <;>
        simp [callBool, Gen.LinkBody.linkCanTransmit, exec, evalB, evalN, hu, admits, sizeAt])

/-- `Link.transmit_frame`: the size is read once, reserved BEFORE the delivery, and released iff the far interface refuses. -/
theorem C18_gen_link_transmit_body (env : Env) (l : Nat) (vars : List (Nat × Nat)) (stamped : Bool) (a0 : Option Nat)
    (orc : Nat → Bool × Nat) :
    callUnit env { noSub with deliver := farWired orc } Gen.LinkBody.linkTransmit
        { load := some l, vars := vars, stamped := stamped, arg := a0 } =
      some { load := some (if (orc (l + sizeAt env stamped)).1 then (orc (l + sizeAt env stamped)).2
                  else (orc (l + sizeAt env stamped)).2 - sizeAt env stamped), vars := vars, stamped := stamped, arg := a0 } := by
  cases ho : (orc (l + sizeAt env stamped)).1 <;> cases stamped <;>
    simp_all [callUnit, Gen.LinkBody.linkTransmit, exec, evalB, evalN, farWired, lookup, sizeAt, noSub]

/-- **`WiredNetworkInterface.send_frame` on top of the two `Link` bodies is the model's `send`**, whatever the frame weighed before
it was stamped: the size admitted is the size loaded (the stamped one). -/
theorem C18_gen_wired_send_body (env : Env) (l : Nat) (stamped : Bool) (a0 : Option Nat) (orc : Nat → Bool × Nat)
    (h : Gen.LinkBody.sendArgPassed = false → a0 = none) :
    (sendVia env Gen.LinkBody.wiredSend Gen.LinkBody.linkCanTransmit Gen.LinkBody.linkTransmit (farWired orc) (fun _ => none)
        { load := some l, vars := [], stamped := stamped, arg := a0 }).map (fun r => (r.1, r.2.load)) =
      some (some (sendSpec env.enabled env.up l env.sizeS env.cap orc).1,
            some (sendSpec env.enabled env.up l env.sizeS env.cap orc).2) := by
  cases a0 with
  | none =>
    cases he : env.enabled <;> cases hu : env.up <;> cases ho : (orc (l + env.sizeS)).1 <;>
      by_cases ha : l + env.sizeS ≤ env.cap <;>
      simp [sendVia, Gen.LinkBody.wiredSend, Gen.LinkBody.linkCanTransmit, Gen.LinkBody.linkTransmit, exec, evalB, evalN, evalArg,
        callBool, callUnit, farWired, lookup, sendSpec, admits, noSub, he, hu, ho, ha]
  | some x =>
    first
    | (exfalso; simpa [Gen.LinkBody.sendArgPassed] using h)
    | (cases he : env.enabled <;> cases hu : env.up <;> cases ho : (orc (l + env.sizeS)).1 <;>
        by_cases ha : l + env.sizeS ≤ env.cap <;>
        simp [sendVia, Gen.LinkBody.wiredSend, Gen.LinkBody.linkCanTransmit, Gen.LinkBody.linkTransmit, exec, evalB, evalN, evalArg,
          callBool, callUnit, farWired, lookup, sendSpec, admits, noSub, he, hu, ho, ha])

/-- **`SwitchPort.send_frame`** (no stamp: a switch forwards the frame as it is) is the model's `send` with the size the frame has
NOW — whatever size the switch hands the port (`a0`: a flood offers one frame object to port after port, and the frame grows when
a receiving NIC stamps it, so a size measured before the flood is not the size of the frame at a later port). -/
theorem C18_gen_switch_send_body (env : Env) (l : Nat) (stamped : Bool) (a0 : Option Nat) (orc : Nat → Bool × Nat)
    (h : Gen.LinkBody.sendArgPassed = false → a0 = none) :
    (sendVia env Gen.LinkBody.switchSend Gen.LinkBody.linkCanTransmit Gen.LinkBody.linkTransmit (farWired orc) (fun _ => none)
        { load := some l, vars := [], stamped := stamped, arg := a0 }).map (fun r => (r.1, r.2.load)) =
      some (some (sendSpec env.enabled env.up l (sizeAt env stamped) env.cap orc).1,
            some (sendSpec env.enabled env.up l (sizeAt env stamped) env.cap orc).2) := by
  cases a0 with
  | none =>
    cases he : env.enabled <;> cases hu : env.up <;> cases stamped <;> cases ho : (orc (l + env.sizeS)).1 <;>
      cases ho' : (orc (l + env.sizeU)).1 <;>
      by_cases ha : l + env.sizeS ≤ env.cap <;> by_cases ha' : l + env.sizeU ≤ env.cap <;>
      simp [sendVia, Gen.LinkBody.switchSend, Gen.LinkBody.linkCanTransmit, Gen.LinkBody.linkTransmit, exec, evalB, evalN, evalArg,
        callBool, callUnit, farWired, lookup, sendSpec, admits, noSub, sizeAt, he, hu, ho, ho', ha, ha']
  | some x =>
    first
    | (exfalso; simpa [Gen.LinkBody.sendArgPassed] using h)
    | (cases he : env.enabled <;> cases hu : env.up <;> cases stamped <;> cases ho : (orc (l + env.sizeS)).1 <;>
        cases ho' : (orc (l + env.sizeU)).1 <;>
        by_cases ha : l + env.sizeS ≤ env.cap <;> by_cases ha' : l + env.sizeU ≤ env.cap <;>
        simp [sendVia, Gen.LinkBody.switchSend, Gen.LinkBody.linkCanTransmit, Gen.LinkBody.linkTransmit, exec, evalB, evalN, evalArg,
          callBool, callUnit, farWired, lookup, sendSpec, admits, noSub, sizeAt, he, hu, ho, ho', ha, ha'])

/-- **`WirelessNetworkInterface.send_frame` on top of the two `AirSpace` bodies is the model's `wsend`** — from a present key and
from an absent one (no KeyError on any path: `transmit`'s `+=` only runs after `can_transmit_frame` created the key). -/
theorem C18_gen_wireless_send_body (env : Env) (load : Option Nat) (stamped : Bool) (a0 : Option Nat) (orc : Nat → Nat)
    (h : Gen.LinkBody.sendArgPassed = false → a0 = none) :
    (sendVia env Gen.LinkBody.wirelessSend Gen.LinkBody.airCanTransmit Gen.LinkBody.airTransmit (fun _ => none) (farAir orc)
        { load := load, vars := [], stamped := stamped, arg := a0 }).map (fun r => (r.1, r.2.load.getD 0)) =
      some (some (airSpec env.enabled load env.sizeS env.cap orc).1, (airSpec env.enabled load env.sizeS env.cap orc).2) := by
  cases he : env.enabled <;> cases load with
  | none =>
    by_cases ha : env.sizeS ≤ env.cap <;>
      simp [sendVia, Gen.LinkBody.wirelessSend, Gen.LinkBody.airCanTransmit, Gen.LinkBody.airTransmit, exec, evalB, evalN, evalArg,
        callBool, callUnit, farAir, lookup, airSpec, admits, noSub, he, ha]
  | some l =>
    by_cases ha : l + env.sizeS ≤ env.cap <;>
      simp [sendVia, Gen.LinkBody.wirelessSend, Gen.LinkBody.airCanTransmit, Gen.LinkBody.airTransmit, exec, evalB, evalN, evalArg,
        callBool, callUnit, farAir, lookup, airSpec, admits, noSub, he, ha]

/-- The class the optional-size parameter opens, as a closed example of the LANGUAGE (not of the generated terms): an admission test
that uses a size handed by the caller, under a `send_frame` that passes its own parameter on, admits a frame of 786 bytes on a link
of 770 when the switch measured 762 before the flood — the load ends at 786 > 770. -/
example :
    (sendVia ⟨770, 762, 786, true, true⟩
      (.ite (.not .enabled) (.ret .ff) (.ifCanWith .arg (.transmit (.ret .tt)) (.ret .ff)))
      (.ite (.not .isUp) (.ret .ff) (.ite .argNone (.setArg .size (.ret (.le (.add .load .arg) .cap))) (.ret (.le (.add .load .arg) .cap))))
      (.letN 0 .size (.setLoad (.add .load (.var 0)) (.deliver (.ret .tt) (.setLoad (.sub .load (.var 0)) (.ret .ff)))))
      (farWired fun l => (true, l)) (fun _ => none)
      { load := some 0, vars := [], stamped := true, arg := some 762 }).map (fun r => (r.1, r.2.load)) = some (some true, some 786) := by
  decide

/-- every body was read -/
theorem C18_gen_body_problems : Gen.LinkBody.bodyProblems = [] := by decide

/-! ### `sendSpec` is what `runEv` does -/

/-- The load the decision chain leaves on link `k`, with the far side behaving as the model's sub-run (it takes the frame and runs
`nested`, or refuses and nothing runs), is the load `runEv` leaves. -/
theorem C18_send_spec_is_model (n : Net) (k : Nat) (fromA : Bool) (s : Nat) (acc : Bool) (nested : List Ev) (l : Link)
    (hk : n.links[k]? = some l) :
    (sendSpec (if fromA then l.enA else l.enB) l.isUp l.load s l.bw
        (fun _ => (acc, if acc then loadOf (runEvs { n with links := n.links.set k { l with load := l.load + s } } nested).1 k
                        else l.load + s))).2
      = loadOf (runEv n (.send k fromA s acc nested)).1 k := by
  have hl : loadOf n k = l.load := by simp [loadOf, hk]
  unfold sendSpec runEv
  simp only [hk]
  cases (if fromA then l.enA else l.enB) <;> cases l.isUp <;> cases hadm : admits l.load s l.bw <;> cases acc <;>
    simp [hl, loadOf_set n k k l _ hk]

/-- a frame of 6 that weighed 4 before the stamp, on a link of 10 loaded with 5: refused by the real body (5 + 6 > 10) -/
example :
    (sendVia ⟨10, 4, 6, true, true⟩ Gen.LinkBody.wiredSend Gen.LinkBody.linkCanTransmit Gen.LinkBody.linkTransmit
      (farWired fun l => (true, l)) (fun _ => none) { load := some 5, vars := [], stamped := false }).map (fun r => (r.1, r.2.load)) = some (some false, some 5) := by
  decide

end Primaite.Link
