/-
C08, part 10 — the host side of "through the default gateway": a host's next hop for a destination outside every enabled local
subnet is ALWAYS its default gateway.  Which address a host resolves a MAC for is a function of its interfaces (subnet,
enabled) and its configured gateway only — never of what its ARP cache happens to contain (a host learns `source IP ↦ source
MAC` from every frame it receives, so the cache does contain entries for remote addresses: the MAC of whichever router
delivered the frame).  The class of defect: "a cached entry for the destination short-cuts the subnet test".
Tie: `SessionManager.resolve_outbound_transmission_details` is translated statement by statement (`Gen.Forward.hostUnicastSteps`,
`hostOnLink`); the extractor has no entry for any other statement.
-/
import PrimaiteModel.Props.C08Forward
namespace Primaite.Forward
open Primaite.Route (findBestRoute Table)

/-- the next-hop ADDRESS of a host for `dst`: a pure function of the interfaces and the gateway. -/
def hostNextHopIp (ifs : List Iface) (gateway : Option Ip) (dst : Ip) : Option Ip :=
  if ifs.any (fun i => Gen.Forward.hostOnLink (i.inNet dst) i.enabled) then some dst else gateway

/-- Gen obligation: the unicast branch of the source is exactly the four translated statements, its on-link test is
"in the interface's network AND the interface is enabled", the gateway getters look up the gateway only. -/
theorem C08_gen_host_resolve :
    Gen.Forward.hostUnicastSteps =
      ["gw := true", "for nic: [if onLink (inNet && enabled): [mac := arpMac dst; break]]",
       "if mac?: [gw := false; nic := arpIfc dst]", "if gw?: [mac := arpMac gateway; nic := arpIfc gateway]"] ∧
    (∀ a b, Gen.Forward.hostOnLink a b = (a && b)) ∧ Gen.Forward.hostGatewayGettersReadGatewayOnly = true := by decide

theorem firstEnabledIn_isSome (ifs : List Iface) (dst : Ip) (k : Nat) :
    (firstEnabledIn ifs dst k).isSome = ifs.any (fun i => Gen.Forward.hostOnLink (i.inNet dst) i.enabled) := by
  induction ifs generalizing k with
  | nil => rfl
  | cons i is ih =>
    simp only [firstEnabledIn, List.any_cons, Gen.Forward.hostOnLink]
    by_cases h : (i.inNet dst && i.enabled) = true
    · simp [h]
    · have h' : (i.inNet dst && i.enabled) = false := by simpa using h
      simp only [h', Bool.false_eq_true, if_false, Bool.false_or]
      rw [ih (k + 1)]
      rfl

/-- what `resolve_outbound_transmission_details` does when it falls back to the gateway `g`: nothing here mentions the
destination. -/
def gatewayDetails (fuel : Nat) (st : St) (n : Nat) (g : Ip) : St × Option Mac × Option Nat :=
  let r2 := arpMac fuel st n g false false
  match r2.1.node? n with
  | none => (r2.1, r2.2, none)
  | some nd' =>
    if nd'.ifaces.any (·.enabled) then
      let r3 := arpIfc fuel r2.1 n g false false
      (r3.1, r2.2, r3.2)
    else (r2.1, r2.2, none)

/-- **A host's next hop for an off-link destination is always the default gateway** — whatever the ARP cache contains (in
particular when it contains an entry for the destination itself, learned from a frame some router delivered), at every fuel,
in every state: the resolution is literally the gateway's, and the destination does not occur in it. -/
theorem C08_host_offlink_next_hop_is_gateway (fuel : Nat) (st : St) (n : Nat) (nd : Node) (dst g : Ip)
    (hn : st.node? n = some nd) (hk : nd.kind = .host)
    (hoff : hostNextHopIp nd.ifaces nd.gateway dst = some g) (hne : firstEnabledIn nd.ifaces dst 0 = none) :
    resolveDetails (fuel + 1) st n dst = gatewayDetails fuel st n g := by
  have hg : nd.gateway = some g := by
    unfold hostNextHopIp at hoff
    rw [← firstEnabledIn_isSome nd.ifaces dst 0, hne] at hoff
    simpa using hoff
  simp only [resolveDetails, hn, hne, hk, hg, gatewayDetails]
  rfl

/-- … so any two off-link destinations are sent to the same next hop, … -/
theorem C08_host_offlink_same_next_hop (fuel : Nat) (st : St) (n : Nat) (nd : Node) (dst dst' g : Ip)
    (hn : st.node? n = some nd) (hk : nd.kind = .host) (hg : nd.gateway = some g)
    (h1 : firstEnabledIn nd.ifaces dst 0 = none) (h2 : firstEnabledIn nd.ifaces dst' 0 = none) :
    resolveDetails (fuel + 1) st n dst = resolveDetails (fuel + 1) st n dst' := by
  have e : ∀ d, firstEnabledIn nd.ifaces d 0 = none → hostNextHopIp nd.ifaces nd.gateway d = some g := by
    intro d hd
    unfold hostNextHopIp
    rw [← firstEnabledIn_isSome nd.ifaces d 0, hd]
    simpa using hg
  rw [C08_host_offlink_next_hop_is_gateway fuel st n nd dst g hn hk (e dst h1) h1,
    C08_host_offlink_next_hop_is_gateway fuel st n nd dst' g hn hk (e dst' h2) h2]

/-- … and a cached entry for the destination is NOT used: with `dst ↦ m'` (e.g. the MAC of the router that delivered a frame
from `dst`) AND the gateway in the cache, the frame goes to the gateway's MAC. -/
theorem C08_host_cached_remote_still_via_gateway (fuel : Nat) (st : St) (n : Nat) (nd : Node) (dst g : Ip) (ed e : ArpEntry)
    (hn : st.node? n = some nd) (hk : nd.kind = .host) (hg : nd.gateway = some g)
    (hne : firstEnabledIn nd.ifaces dst 0 = none) (_hed : nd.arpGet dst = some ed) (he : nd.arpGet g = some e)
    (hen : nd.ifaces.any (·.enabled) = true) :
    resolveDetails (fuel + 2) st n dst = (st, some e.mac, some e.ifc) :=
  C08_host_resolves_gateway fuel st n nd dst g e hn hk hne hg he hen

/-- the complementary case, for completeness: the destination's own entry is consulted exactly when the pure function says
"on-link". -/
theorem C08_host_next_hop_ip_spec (ifs : List Iface) (gw : Option Ip) (dst : Ip) :
    hostNextHopIp ifs gw dst = if (firstEnabledIn ifs dst 0).isSome then some dst else gw := by
  unfold hostNextHopIp
  rw [firstEnabledIn_isSome]

/-- Gen obligation for the application exchange of the model (`appReq` / `appRep`): the receiver is found under the frame's
(destination port, protocol), answers go to the request's source. -/
theorem C08_gen_app_receive : Gen.Forward.appReceiverByPortProtocolReplyToSource = true := by decide

/-! non-vacuity: a host whose cache maps the remote address to a NON-gateway router still uses the gateway -/
def hhA : Node :=
  { kind := .host, gateway := some 0xC0A80101#32,
    ifaces := [{ mac := 1, ip := 0xC0A80102#32, plen := 24, enabled := true, peer := some (1, 0) }],
    arp := [{ ip := 0xC0A80101#32, mac := 21, ifc := 0 }, { ip := 0xC0A8020A#32, mac := 31, ifc := 0 }] }
example : hostNextHopIp hhA.ifaces hhA.gateway 0xC0A8020A#32 = some 0xC0A80101#32 := by decide
example : resolveDetails 5 { nodes := [hhA] } 0 0xC0A8020A#32 = ({ nodes := [hhA] }, some 21, some 0) :=
  C08_host_cached_remote_still_via_gateway 3 _ 0 hhA _ _ { ip := 0xC0A8020A#32, mac := 31, ifc := 0 }
    { ip := 0xC0A80101#32, mac := 21, ifc := 0 } rfl rfl rfl (by decide) (by decide) (by decide) (by decide)

end Primaite.Forward
