/-
C17, round 7 — the data-manipulation bot's stage machine, translated statement by statement (Gen/DatabaseBotTr.lean), equals the
closed form in which the model's `State.dmAttack` is written (`dmAdvance`, `dmRepeatRule`, and the order: client missing → FAILED /
overwrite the host client's address and password / stage test / trial / connect unless connected / query / SUCCEEDED or FAILED).
-/
import PrimaiteModel.Model.DatabaseBot
import PrimaiteModel.Gen.DatabaseBotTr
namespace Primaite.Database
open Primaite.Gen

/-- the closed form: exactly the decisions of `State.dmAttack` (Model/Database.lean), on the bot's own record -/
def dmLoopSpec (w : BotW) (scan atk : Bool) (newConn : Option Nat) (qok : Bool) : BotW :=
  let stage := dmAdvance w.stage scan
  if !w.hasClient then { w with stage := dmRepeatRule w.rep 5 }
  else
    let w1 := { w with ipSet := true, pwSet := true }
    if !(stage = 2 ∧ atk) then { w1 with stage := dmRepeatRule w.rep stage }
    else
      let conn := if w.conn.isSome then w.conn else newConn
      if conn.isSome then { w1 with conn := conn, queried := true, stage := dmRepeatRule w.rep (if qok then 4 else 5) }
      else { w1 with conn := conn, stage := dmRepeatRule w.rep stage }

/-- the enum values the model's stage numbers stand for -/
theorem C17_gen_dm_stages :
    DatabaseBotTr.stageValues = [("NOT_STARTED", 0), ("LOGON", 1), ("PORT_SCAN", 2), ("ATTACKING", 3), ("SUCCEEDED", 4), ("FAILED", 5)] := by
  decide

/-- `_logon` then `_perform_port_scan` = `dmAdvance` (the scan trial matters in stage LOGON only) -/
theorem C17_tr_dm_advance (w : BotW) (canAct scan atk : Bool) (newConn : Option Nat) (qok : Bool) :
    DatabaseBotTr.performPortScan (DatabaseBotTr.logon w canAct scan atk newConn qok) canAct scan atk newConn qok
      = { w with stage := dmAdvance w.stage scan } := by
  unfold DatabaseBotTr.performPortScan DatabaseBotTr.logon dmAdvance
  obtain ⟨stage, conn, hasClient, ip, payload, rep, ipSet, pwSet, queried⟩ := w
  by_cases h0 : stage = 0 <;> by_cases h1 : stage = 1 <;> cases scan <;> simp [h0, h1]

/-- **The bot's application loop.** For every state of the bot and every outcome of the calls it makes: the translated
`_application_loop` = the closed form, and it answers True exactly when the bot can act and has a target and a payload. -/
theorem C17_tr_dm_loop (w : BotW) (canAct scan atk : Bool) (newConn : Option Nat) (qok : Bool) :
    DatabaseBotTr.applicationLoop w canAct scan atk newConn qok =
      if canAct && w.ip && w.payload then (dmLoopSpec w scan atk newConn qok, true) else (w, false) := by
  unfold DatabaseBotTr.applicationLoop
  cases canAct
  · simp
  · cases hip : w.ip <;> cases hpl : w.payload <;> simp only [Bool.not_true, Bool.false_eq_true, if_false, Bool.and_true, Bool.and_false,
      if_true]
    rw [C17_tr_dm_advance]
    unfold DatabaseBotTr.performDataManipulation DatabaseBotTr.establishDbConnection dmLoopSpec dmRepeatRule
    generalize dmAdvance w.stage scan = s1
    by_cases h2 : s1 = 2 <;> by_cases h4 : s1 = 4 <;> by_cases h5 : s1 = 5 <;>
      cases hc : w.hasClient <;> cases atk <;> cases hr : w.rep <;> cases qok <;> cases hcn : w.conn <;> cases newConn <;>
      simp_all

/-- non-vacuity: NOT_STARTED, scan succeeds, attack succeeds, no connection yet, the connect works, the query works: SUCCEEDED,
which the repeat rule turns into NOT_STARTED; with `repeat` off it stays SUCCEEDED; a failed query gives FAILED. -/
example :
    (DatabaseBotTr.applicationLoop {} true true true (some 7) true).1.stage = 0 ∧
    (DatabaseBotTr.applicationLoop { rep := false } true true true (some 7) true).1.stage = 4 ∧
    (DatabaseBotTr.applicationLoop { rep := false } true true true (some 7) false).1.stage = 5 ∧
    (DatabaseBotTr.applicationLoop { rep := false } true true true none true).1.stage = 2 ∧
    (DatabaseBotTr.applicationLoop { rep := false } true false true (some 7) true).1.stage = 1 ∧
    (DatabaseBotTr.applicationLoop { rep := false, hasClient := false } true true true (some 7) true).1 =
      { rep := false, hasClient := false, stage := 5 } := by decide

/-! ### the ransomware script -/

/-- the closed form: exactly the decisions of `State.ransom` (Model/Database.lean) after the application was run -/
def rsLoopSpec (w : BotW) (canAct : Bool) (newConn : Option Nat) (qok : Bool) : BotW × Bool :=
  if !canAct then (w, false)
  else if !(w.ip && w.payload) then (w, false)
  else if !w.hasClient then (w, false)
  else
    -- the script overwrites the host client's address and password with its own
    let w1 := { w with ipSet := true, pwSet := true }
    -- `if not self._db_connection: self._establish_db_connection()`
    let conn := if w.conn.isSome then w.conn else newConn
    if conn.isSome then ({ w1 with conn := conn, queried := true }, qok) else ({ w1 with conn := conn }, false)

/-- **The ransomware script's loop**, translated, = the closed form, for every state of the script and every outcome of its calls:
no payload is sent unless the script can act, has a target and a payload, a database client is on the host and a connection was
obtained; the answer is the query's. -/
theorem C17_tr_rs_loop (w : BotW) (canAct scan atk : Bool) (newConn : Option Nat) (qok : Bool) :
    DatabaseBotTr.rsApplicationLoop w canAct scan atk newConn qok = rsLoopSpec w canAct newConn qok := by
  unfold DatabaseBotTr.rsApplicationLoop DatabaseBotTr.rsPerformRansomwareEncrypt DatabaseBotTr.rsEstablishDbConnection rsLoopSpec
  cases canAct <;> cases hip : w.ip <;> cases hpl : w.payload <;> cases hc : w.hasClient <;> cases qok <;> cases hcn : w.conn <;>
    cases newConn <;> simp_all

example :
    (DatabaseBotTr.rsApplicationLoop {} true false false (some 3) true) = ({ conn := some 3, ipSet := true, pwSet := true, queried := true }, true) ∧
    (DatabaseBotTr.rsApplicationLoop {} true false false none true).2 = false ∧
    (DatabaseBotTr.rsApplicationLoop { hasClient := false } true false false (some 3) true) = ({ hasClient := false }, false) := by decide

end Primaite.Database
