/-
Property C15, the callers outside the file-system module (`Gen/FileSystemCallers.lean`, regenerated on every run from
every module of src/primaite outside simulator/file_system).

The theorems of C15 are about the translated methods of FileSystem / Folder / File.  Code elsewhere (DatabaseService
backup / restore, the FTP services, HostNode configuration, the C2 applications, the web server …) reaches a file system
through the Python API.  What is pinned here:
  * nobody outside the module writes the dictionaries, the route managers or a `deleted` flag directly
    (`C15_gen_callers_no_direct_dict_write`), so every structural change from outside is a call of a method;
  * every method so called is one that `harness/extract/fsxlate.py` translates (`C15_gen_callers_use_translated_methods`),
    so `Inv` is preserved by it (C15Api);
  * the only outside writers of the per-tick counters are the two statements of the ENCRYPT branch of
    `DatabaseService._process_sql` (`C15_gen_callers_counter_writers`); a new one breaks the build.
-/
import PrimaiteModel.Gen.FileSystemCallers
import PrimaiteModel.Props.C15Create
import PrimaiteModel.Props.C15Disjoint
namespace Primaite.FileSystem
open Gen.FileSystemMethods

/-- `Class.method` for every method of the file-system module that `fsxlate.py` translates (its table `TRANSLATED`). -/
def translatedMutators : List String :=
  ["FileSystem.create_file", "FileSystem.create_folder", "FileSystem.delete_file", "FileSystem.delete_folder",
   "FileSystem.restore_file", "FileSystem.restore_folder", "FileSystem.copy_file", "FileSystem.move_file",
   "FileSystem.delete_file_by_id", "FileSystem.delete_folder_by_id", "FileSystem.get_file", "FileSystem.get_folder",
   "FileSystem.get_folder_by_id", "FileSystem.access_file", "FileSystem.pre_timestep", "FileSystem.apply_timestep",
   "FileSystem.setup_for_episode", "FileSystem.describe_state", "FileSystem.scan", "FileSystem.reveal_to_red",
   "Folder.add_file", "Folder.restore_file", "Folder.remove_file", "Folder.remove_file_by_id", "Folder.remove_file_by_name",
   "Folder.remove_all_files", "Folder.get_file", "Folder.get_file_by_id", "Folder.delete", "Folder.restore",
   "Folder.check_hash", "Folder.apply_timestep", "Folder.describe_state",
   "File.delete", "File.restore", "File.corrupt", "File.repair", "File.scan", "File.check_hash"]

/-- Nothing outside the module writes `files` / `deleted_files` / `folders` / `deleted_folders`, a route manager or a
`deleted` flag of a file-system object. -/
theorem C15_gen_callers_no_direct_dict_write : Gen.FileSystemCallers.directDictWrites = [] := rfl

/-- Every method of a file system / folder / file that outside code calls is a translated one. -/
theorem C15_gen_callers_use_translated_methods :
    ∀ m ∈ Gen.FileSystemCallers.mutatorsUsed, m ∈ translatedMutators := by decide

/-- The outside writers of the per-tick counters, pinned. -/
theorem C15_gen_callers_counter_writers : Gen.FileSystemCallers.directCounterWrites =
    [ ("simulator/system/services/database/database_service.py", "DatabaseService._process_sql", "self.file_system.num_file_creations += 1"),
      ("simulator/system/services/database/database_service.py", "DatabaseService._process_sql", "self.file_system.num_file_deletions += 1") ] := rfl

theorem C15_gen_callers_nonempty : Gen.FileSystemCallers.callSites ≠ [] := by decide

/-! ### what the callers can do to the structure, and that it keeps `Inv` (second shift of round 7) -/

/-- The methods outside code calls are exactly these six or fewer: four structural ones (below) and two that the extractor checks to be
structurally inert. A caller that starts using another method (move_file, add_file, a Folder-level mutator …) breaks this until the
theorem below is extended to it. -/
theorem C15_gen_callers_covered :
    ∀ m ∈ Gen.FileSystemCallers.mutatorsUsed,
      m ∈ ["FileSystem.create_file", "FileSystem.create_folder", "FileSystem.delete_file", "FileSystem.copy_file",
           "FileSystem.scan", "FileSystem.reveal_to_red"] := by decide

/-- **Each structural method that outside code calls, AS TRANSLATED FROM THE SOURCE, keeps the invariant** — for every state satisfying
`Inv` and all arguments (also when `create_file` raises: the state at the raise). -/
theorem C15_callers_methods_preserve_inv {s : State} (h : Inv s) (F x G : Name) (force : Bool) :
    Inv (fsCreateFile s x F force).1 ∧ Inv (fsCreateFolder s F).1 ∧ Inv (fsDeleteFile s F x).1 ∧ Inv (fsCopyFile s F x G).1 := by
  refine ⟨?_, ?_, ?_, ?_⟩
  · rw [(C15_gen_create_file h F x force).1]; exact inv_apiCreateFile h F x force
  · rw [C15_gen_create_folder]; exact (createFolder_spec h F).1
  · rw [(C15_gen_fs_delete_restore_file s F x).1]; exact inv_deleteFile h F x
  · rw [(C15_gen_copy_file s F x G).1]; exact inv_apiCopyFile h F x G

/-- A call a service / application makes on a file system (the four structural methods of the inventory). -/
inductive CallerCall
  | createFile (F x : Name) (force : Bool)
  | createFolder (F : Name)
  | deleteFile (F x : Name)
  | copyFile (F x G : Name)
deriving DecidableEq, Repr

/-- Its effect on the structure: the TRANSLATED method (an exception raised by `create_file` is caught or propagates; the state stays). -/
def callerStep (s : State) : CallerCall → State
  | .createFile F x force => (fsCreateFile s x F force).1
  | .createFolder F => (fsCreateFolder s F).1
  | .deleteFile F x => (fsDeleteFile s F x).1
  | .copyFile F x G => (fsCopyFile s F x G).1

/-- **Whatever sequence of such calls a caller makes** (restore_backup = `[deleteFile downloads db, …, deleteFile database db, copyFile
downloads db database]`, FTP store = `[createFile F x false]`, …), from any state satisfying `Inv`: `Inv` afterwards. -/
theorem C15_callers_any_sequence_preserves_inv (cs : List CallerCall) {s : State} (h : Inv s) : Inv (cs.foldl callerStep s) := by
  induction cs generalizing s with
  | nil => exact h
  | cons c cs ih =>
    apply ih
    cases c with
    | createFile F x force => exact (C15_callers_methods_preserve_inv h F x x force).1
    | createFolder F => exact (C15_callers_methods_preserve_inv h F F F false).2.1
    | deleteFile F x => exact (C15_callers_methods_preserve_inv h F x x false).2.2.1
    | copyFile F x G => exact (C15_callers_methods_preserve_inv h F x G false).2.2.2

/-- Non-vacuity: the fresh file system satisfies `Inv`; restore_backup's call sequence on it. -/
example : Inv ([CallerCall.createFile "database" "database.db" false, .createFile "downloads" "database.db" false,
    .deleteFile "database" "database.db", .copyFile "downloads" "database.db" "database"].foldl callerStep (init none)) :=
  C15_callers_any_sequence_preserves_inv _ (C15_any_inv_reachable_full none []).1

end Primaite.FileSystem
