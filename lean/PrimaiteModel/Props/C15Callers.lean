/-
Property C15, the callers outside the file-system module (`Gen/FileSystemCallers.lean`, regenerated on every run from
every module of src/primaite outside simulator/file_system).

The theorems of C15 are about the translated methods of FileSystem / Folder / File.  Code elsewhere (DatabaseService
backup / restore, the FTP services, HostNode configuration, the C2 applications, the web server …) reaches a file system
through the Python API.  What is pinned here:
  * nobody outside the module writes the dictionaries, the route managers or a `deleted` flag directly
    (`C15_gen_callers_no_direct_dict_write`), so every structural change from outside is a call of a method;
  * every method so called is one that `harness/extract/fsxlate.py` translates (`C15_gen_callers_use_translated_methods`),
    so `Inv` is preserved by it (C15Api);
  * the only outside writers of the per-tick counters are the two statements of the ENCRYPT branch of
    `DatabaseService._process_sql` (`C15_gen_callers_counter_writers`); a new one breaks the build.
-/
import PrimaiteModel.Gen.FileSystemCallers
namespace Primaite.FileSystem

/-- `Class.method` for every method of the file-system module that `fsxlate.py` translates (its table `TRANSLATED`). -/
def translatedMutators : List String :=
  ["FileSystem.create_file", "FileSystem.create_folder", "FileSystem.delete_file", "FileSystem.delete_folder",
   "FileSystem.restore_file", "FileSystem.restore_folder", "FileSystem.copy_file", "FileSystem.move_file",
   "FileSystem.delete_file_by_id", "FileSystem.delete_folder_by_id", "FileSystem.get_file", "FileSystem.get_folder",
   "FileSystem.get_folder_by_id", "FileSystem.access_file", "FileSystem.pre_timestep", "FileSystem.apply_timestep",
   "FileSystem.setup_for_episode", "FileSystem.describe_state", "FileSystem.scan", "FileSystem.reveal_to_red",
   "Folder.add_file", "Folder.restore_file", "Folder.remove_file", "Folder.remove_file_by_id", "Folder.remove_file_by_name",
   "Folder.remove_all_files", "Folder.get_file", "Folder.get_file_by_id", "Folder.delete", "Folder.restore",
   "Folder.check_hash", "Folder.apply_timestep", "Folder.describe_state",
   "File.delete", "File.restore", "File.corrupt", "File.repair", "File.scan", "File.check_hash"]

/-- Nothing outside the module writes `files` / `deleted_files` / `folders` / `deleted_folders`, a route manager or a
`deleted` flag of a file-system object. -/
theorem C15_gen_callers_no_direct_dict_write : Gen.FileSystemCallers.directDictWrites = [] := rfl

/-- Every method of a file system / folder / file that outside code calls is a translated one. -/
theorem C15_gen_callers_use_translated_methods :
    ∀ m ∈ Gen.FileSystemCallers.mutatorsUsed, m ∈ translatedMutators := by decide

/-- The outside writers of the per-tick counters, pinned. -/
theorem C15_gen_callers_counter_writers : Gen.FileSystemCallers.directCounterWrites =
    [ ("simulator/system/services/database/database_service.py", "DatabaseService._process_sql", "self.file_system.num_file_creations += 1"),
      ("simulator/system/services/database/database_service.py", "DatabaseService._process_sql", "self.file_system.num_file_deletions += 1") ] := rfl

theorem C15_gen_callers_nonempty : Gen.FileSystemCallers.callSites ≠ [] := by decide

end Primaite.FileSystem
