/-
C10, components — "each component is evaluated on the post-step state and on that agent's own latest action and response".

1. Translator tie, semantic: the body of every `calculate` in src/primaite/game/agent/rewards.py, translated statement by
   statement by harness/extract/reward_calc.py into the language of Model/RewardCalcLang.lean (`Gen.Reward.calc_<Class>`),
   is proved to compute — for EVERY state dictionary, history item, configuration and memory — the value, the new memory
   and the exceptions of the hand-written component model (`calcFileE`, `calcWeb404E`, `calcWebpageE`, `calcGreenDb`, …).
2. Non-interference: a component's value (and exception) depends only on the leaf of the state dictionary it names and on
   the fields of the agent's own latest history item it reads; never on the rest of the state, the rest of the item, or
   (except `SharedReward`) other agents.
-/
import PrimaiteModel.Lemmas.RewardExc
import PrimaiteModel.Lemmas.RewardState
import PrimaiteModel.Gen.Reward
set_option linter.unusedSimpArgs false
namespace Primaite.Reward
open Primaite.RewardGraph Primaite.Reward.Py

/-! ## 1. The source of every `calculate`, interpreted, is the component model -/

attribute [local simp] runCalculate exec eval assignTo List.lookup toKeys toVal Except.map

@[simp] theorem truthy_bool (b : Bool) : (PyVal.bool b).truthy = b := rfl
@[simp] theorem pyEq_str_str (a b : String) : PyVal.pyEq (.str a) (.str b) = (a == b) := by simp [PyVal.pyEq]
/-- `x == k` for an int literal `k`: `x` is a number (bool / int / float) of that value -/
theorem pyEq_int_iff (x : PyVal) (k : Int) : x.pyEq (.int k) = true ↔ x.asNum = some (k : Rat) := by
  cases x <;> simp [PyVal.pyEq, PyVal.asNum]

theorem pyEq_int_exclusive {x : PyVal} {j k : Int} (hjk : j ≠ k) (h : x.pyEq (.int j) = true) : x.pyEq (.int k) = false := by
  cases hk : x.pyEq (.int k) with
  | false => rfl
  | true =>
    rw [pyEq_int_iff] at h hk
    rw [h] at hk
    have : (j : Rat) = (k : Rat) := Option.some.inj hk
    exact absurd (Rat.intCast_inj.mp this) hjk

@[simp] theorem pyIs_notPresent (x : PyVal) : pyIs x .notPresent = x.isNotPresent := by cases x <;> rfl

/-- the environment `DatabaseFileIntegrity.calculate` runs in -/
def fileEnv (s : SimState) (it : Item) (n fo fi : Name) (loc : PyVal) : Env :=
  { state := s, item := it, reward := .num 0, loc := loc,
    config := [("type", .str "database-file-integrity"), ("node_hostname", .str n), ("folder_name", .str fo), ("file_name", .str fi)] }

theorem C10_gen_calc_file (s : SimState) (it : Item) (n fo fi : Name) (loc : PyVal) :
    (runCalculate Gen.Reward.calc_DatabaseFileIntegrity (fileEnv s it n fo fi loc)).map (·.value) = calcFileE s n fo fi := by
  simp [runCalculate, Gen.Reward.calc_DatabaseFileIntegrity, exec, eval, fileEnv, assignTo, List.lookup, toKeys,
    calcFileE, fileLoc]
  cases s.access ["network", "nodes", n, "file_system", "folders", fo, "files", fi] with
  | error e => rfl
  | ok leaf =>
    simp
    cases leaf <;> simp [PyVal.isNotPresent, toVal, Except.map, PyVal.getItem]
    rename_i kvs
    cases List.lookup (PyKey.str "health_status") kvs with
    | none => rfl
    | some h =>
      simp [healthValue]
      by_cases h2 : h.pyEq (.int 2) = true
      · have h1 : h.pyEq (.int 1) = false := pyEq_int_exclusive (by decide) h2
        simp [h2, h1]
      · by_cases h1 : h.pyEq (.int 1) = true
        · simp [h2, h1]
        · simp [h2, h1]

/-- `DummyReward.calculate` returns 0.0 whatever it is given -/
theorem C10_gen_calc_dummy (env : Env) : (runCalculate Gen.Reward.calc_DummyReward env).map (·.value) = .ok 0 := by
  simp [runCalculate, Gen.Reward.calc_DummyReward, exec, eval, toVal, Except.map]

/-- the environment `WebServer404Penalty.calculate` runs in -/
def web404Env (s : SimState) (it : Item) (n sv : Name) (st : Bool) (m : Val) (loc : PyVal) : Env :=
  { state := s, item := it, reward := .num m, loc := loc,
    config := [("type", .str "web-server-404-penalty"), ("node_hostname", .str n), ("service_name", .str sv), ("sticky", .bool st)] }

theorem C10_gen_calc_web404 (s : SimState) (it : Item) (n sv : Name) (st : Bool) (m : Val) (loc : PyVal) :
    (runCalculate Gen.Reward.calc_WebServer404Penalty (web404Env s it n sv st m loc)).map (fun o => (o.value, o.reward)) =
      (calcWeb404E s n sv st m).map (fun r => (r.1, PyVal.num r.2)) := by
  simp [runCalculate, Gen.Reward.calc_WebServer404Penalty, exec, eval, web404Env, assignTo, List.lookup, toKeys,
    calcWeb404E, web404Loc]
  cases s.access ["network", "nodes", n, "services", sv] with
  | error e => rfl
  | ok leaf =>
    simp
    by_cases hnp : leaf.isNotPresent = true
    · simp [hnp, toVal, Except.map]
    · simp [hnp]
      cases leaf.get "response_codes_this_timestep" with
      | error e => rfl
      | ok codes =>
        simp
        by_cases ht : codes.truthy = true
        · simp [ht, status2rewTable]
          cases PyVal.avgTable [(200, 1), (404, -1)] 0 codes with
          | error e => rfl
          | ok v => simp [Except.map, toVal]
        · cases st <;> simp [ht, toVal, Except.map]

/-- the environment `WebpageUnavailablePenalty.calculate` runs in -/
def webpageEnv (s : SimState) (it : Item) (n : Name) (st : Bool) (m : Val) (loc : PyVal) : Env :=
  { state := s, item := it, reward := .num m, loc := loc,
    config := [("type", .str "webpage-unavailable-penalty"), ("node_hostname", .str n), ("sticky", .bool st)] }

theorem C10_gen_calc_webpage (s : SimState) (it : Item) (n : Name) (st : Bool) (m : Val) (loc : PyVal) :
    (runCalculate Gen.Reward.calc_WebpageUnavailablePenalty (webpageEnv s it n st m loc)).map (fun o => (o.value, o.reward)) =
      (calcWebpageE s it n st m).map (fun v => (v, PyVal.num v)) := by
  have hreq : it.request.pyEq (PyVal.list [PyVal.str "network", PyVal.str "node", PyVal.str n, PyVal.str "application",
      PyVal.str "web-browser", PyVal.str "execute"]) = it.requestIs (browserRequest n) := by
    simp [Item.requestIs, browserRequest, PyVal.strs]
  unfold calcWebpageE
  cases hacc : PyVal.access s (webpageLoc n) with
  | error e =>
    simp only [webpageLoc] at hacc
    simp [Gen.Reward.calc_WebpageUnavailablePenalty, webpageEnv, hacc]
  | ok leaf =>
    simp only [webpageLoc] at hacc
    cases hatt : it.requestIs (browserRequest n) with
    | false =>
      by_cases hnp : leaf.isNotPresent = true <;> cases st <;>
        simp [Gen.Reward.calc_WebpageUnavailablePenalty, webpageEnv, hacc, hreq, hatt, hnp]
    | true =>
      by_cases hok : it.status = "success"
      · by_cases hnp : leaf.isNotPresent = true
        · simp [Gen.Reward.calc_WebpageUnavailablePenalty, webpageEnv, hacc, hreq, hatt, hnp, hok, webpageFreshE, Item.ok]
        · have hnp' : leaf.isNotPresent = false := by simpa using hnp
          cases hh : leaf.getItem "history" with
          | error e =>
            simp [Gen.Reward.calc_WebpageUnavailablePenalty, webpageEnv, hacc, hreq, hatt, hnp', hok, webpageFreshE, Item.ok, hh]
          | ok hist =>
            by_cases ht : hist.truthy = true
            · cases hl : hist.last with
              | error e =>
                simp [Gen.Reward.calc_WebpageUnavailablePenalty, webpageEnv, hacc, hreq, hatt, hnp', hok, webpageFreshE, Item.ok, hh, ht, hl]
              | ok entry =>
                cases ho : entry.getItem "outcome" with
                | error e =>
                  simp [Gen.Reward.calc_WebpageUnavailablePenalty, webpageEnv, hacc, hreq, hatt, hnp', hok, webpageFreshE, Item.ok, hh, ht, hl, ho]
                | ok o =>
                  by_cases hp : o.pyEq (.str "PENDING") = true
                  · simp [Gen.Reward.calc_WebpageUnavailablePenalty, webpageEnv, hacc, hreq, hatt, hnp', hok, webpageFreshE, Item.ok, hh, ht, hl, ho, hp, outcomeReward]
                  · by_cases h2 : o.pyEq (.int 200) = true <;>
                      simp [Gen.Reward.calc_WebpageUnavailablePenalty, webpageEnv, hacc, hreq, hatt, hnp', hok, webpageFreshE, Item.ok, hh, ht, hl, ho, hp, h2, outcomeReward]
            · simp [Gen.Reward.calc_WebpageUnavailablePenalty, webpageEnv, hacc, hreq, hatt, hnp', hok, webpageFreshE, Item.ok, hh, ht]
      · by_cases hnp : leaf.isNotPresent = true <;>
          simp [Gen.Reward.calc_WebpageUnavailablePenalty, webpageEnv, hacc, hreq, hatt, hnp, hok, webpageFreshE, Item.ok]

/-- the environment `GreenAdminDatabaseUnreachablePenalty.calculate` runs in -/
def greenDbEnv (s : SimState) (it : Item) (n : Name) (st : Bool) (m : Val) (loc : PyVal) : Env :=
  { state := s, item := it, reward := .num m, loc := loc,
    config := [("type", .str "green-admin-database-unreachable-penalty"), ("node_hostname", .str n), ("sticky", .bool st)] }

/-- value, memory afterwards, and the `reward_info` it writes into the history item; it never raises and never looks at `state` -/
theorem C10_gen_calc_greenDb (s : SimState) (it : Item) (n : Name) (st : Bool) (m : Val) (loc : PyVal) :
    (runCalculate Gen.Reward.calc_GreenAdminDatabaseUnreachablePenalty (greenDbEnv s it n st m loc)).map
        (fun o => (o.value, o.reward, o.rewardInfo)) =
      .ok (calcGreenDb it n st m, PyVal.num (calcGreenDb it n st m), greenDbRewardInfo it n) := by
  have hreq : it.request.pyEq (PyVal.list [PyVal.str "network", PyVal.str "node", PyVal.str n, PyVal.str "application",
      PyVal.str "database-client", PyVal.str "execute"]) = it.requestIs (dbClientRequest n) := by
    simp [Item.requestIs, dbClientRequest, PyVal.strs]
  cases hatt : it.requestIs (dbClientRequest n) with
  | true =>
    by_cases hok : it.status = "success" <;>
      simp [Gen.Reward.calc_GreenAdminDatabaseUnreachablePenalty, greenDbEnv, hreq, hatt, hok, calcGreenDb, greenDbRewardInfo, Item.ok]
  | false =>
    cases st <;>
      simp [Gen.Reward.calc_GreenAdminDatabaseUnreachablePenalty, greenDbEnv, hreq, hatt, calcGreenDb, greenDbRewardInfo]

/-- `SharedReward.calculate` returns what the callback answers for the configured agent name -/
theorem C10_gen_calc_shared (s : SimState) (it : Item) (a : Name) (cur : Name → Val) (r loc : PyVal) :
    (runCalculate Gen.Reward.calc_SharedReward
      { state := s, item := it, reward := r, loc := loc, cb := cur,
        config := [("type", .str "shared-reward"), ("agent_name", .str a)] }).map (·.value) = .ok (cur a) := by
  simp [Gen.Reward.calc_SharedReward]

/-- `ActionPenalty.calculate`: one of the two configured penalties, by the agent's own latest action -/
theorem C10_gen_calc_actionPenalty (s : SimState) (it : Item) (ap dn : Val) (r loc : PyVal) :
    (runCalculate Gen.Reward.calc_ActionPenalty
      { state := s, item := it, reward := r, loc := loc,
        config := [("type", .str "action-penalty"), ("action_penalty", .num ap), ("do_nothing_penalty", .num dn)] }).map (·.value) =
      .ok (calcActionPenalty it ap dn) := by
  by_cases h : it.action = "do-nothing" <;> simp [Gen.Reward.calc_ActionPenalty, calcActionPenalty, h]


/-! ### `access_from_nested_dict` itself -/

theorem access_nil_any (v : PyVal) : PyVal.access v [] = .ok v := by cases v <;> rfl

theorem pyEq_succ_zero (n : Nat) : PyVal.pyEq (.int ((n : Int) + 1)) (.int 0) = false := by
  simp only [PyVal.pyEq, PyVal.asNum]
  simp only [beq_eq_false_iff_ne, ne_eq]
  intro e
  have := Rat.intCast_inj.mp e
  omega

/-- the environment one call of `access_from_nested_dict(d, keys)` runs in, recursive calls answered by `rec` -/
def accessEnv (rec : PyVal → PyVal → Except Err PyVal) (d keys : PyVal) : Env :=
  { state := .none, item := { action := "", request := .none, status := "" }, config := [], reward := .none,
    locals := [("dictionary", d), ("keys", keys)], recCall := rec }

/-- one call with no key left returns the value -/
theorem access_body_nil (rec : PyVal → PyVal → Except Err PyVal) (d : PyVal) :
    fnResult (exec Gen.Reward.fn_access_from_nested_dict (accessEnv rec d (.list []))) = .ok d := by
  simp [fnResult, accessEnv, Gen.Reward.fn_access_from_nested_dict, pyIs, pyIterList, pyLen, PyVal.pyEq, PyVal.asNum]

/-- one call with a first key `k`: exactly one level of `PyVal.access`, the rest delegated to the recursive call -/
theorem access_body_cons (rec : PyVal → PyVal → Except Err PyVal) (d : PyVal) (k : String) (ks : List String) :
    fnResult (exec Gen.Reward.fn_access_from_nested_dict (accessEnv rec d (.list (.str k :: ks.map .str)))) =
      (match d with
       | .dict kvs =>
         match kvs.lookup (.str k) with
         | some v => rec v (.list (ks.map .str))
         | none => .ok .notPresent
       | .list xs => if xs.any (fun x => PyVal.pyEq x (.str k)) then .error .typeError else .ok .notPresent
       | .str s => if PyVal.isInfix k.toList s.toList then .error .typeError else .ok .notPresent
       | _ => .error .typeError) := by
  cases d with
  | dict kvs =>
    cases hl : kvs.lookup (.str k) with
    | none =>
      simp [fnResult, accessEnv, Gen.Reward.fn_access_from_nested_dict, pyIs, pyIterList, pyLen, pyEq_succ_zero, pyIn, toKey, hl]
    | some v =>
      simp [fnResult, accessEnv, Gen.Reward.fn_access_from_nested_dict, pyIs, pyIterList, pyLen, pyEq_succ_zero, pyIn, toKey, hl, pyIndex]
      cases rec v (PyVal.list (ks.map PyVal.str)) <;> rfl
  | list xs =>
    by_cases hin : xs.any (fun x => PyVal.pyEq x (.str k)) = true
    · simp [fnResult, accessEnv, Gen.Reward.fn_access_from_nested_dict, pyIs, pyIterList, pyLen, pyEq_succ_zero, pyIn, hin, pyIndex]
    · simp [fnResult, accessEnv, Gen.Reward.fn_access_from_nested_dict, pyIs, pyIterList, pyLen, pyEq_succ_zero, pyIn, hin]
  | str s =>
    by_cases hin : PyVal.isInfix k.toList s.toList = true
    · simp [fnResult, accessEnv, Gen.Reward.fn_access_from_nested_dict, pyIs, pyIterList, pyLen, pyEq_succ_zero, pyIn, hin, pyIndex]
    · simp [fnResult, accessEnv, Gen.Reward.fn_access_from_nested_dict, pyIs, pyIterList, pyLen, pyEq_succ_zero, pyIn, hin]
  | _ => simp [fnResult, accessEnv, Gen.Reward.fn_access_from_nested_dict, pyIs, pyIterList, pyLen, pyEq_succ_zero, pyIn]

theorem runFunction_succ (body : Stmt) (p1 p2 : String) (fuel : Nat) (a b : PyVal) :
    runFunction body p1 p2 (fuel + 1) a b =
      fnResult (exec body { state := .none, item := { action := "", request := .none, status := "" }, config := [], reward := .none,
                            locals := [(p1, a), (p2, b)], recCall := runFunction body p1 p2 fuel }) := by
  rw [runFunction]

/-- **`access_from_nested_dict`, semantic tie.** The body of `access_from_nested_dict(dictionary, keys)` in
game/agent/utils.py — translated statement by statement on every run, recursion included — interpreted on ANY value and ANY
list of string keys, with as many unfoldings as there are keys plus one, answers exactly what the model's `PyVal.access`
answers: the value, `NOT_PRESENT_IN_STATE`, or the same exception. (Replaces the text tie of this function.) -/
theorem C10_gen_access (ks : List String) : ∀ d : PyVal,
    runFunction Gen.Reward.fn_access_from_nested_dict "dictionary" "keys" (ks.length + 1) d (PyVal.strs ks) = PyVal.access d ks := by
  induction ks with
  | nil =>
    intro d
    rw [List.length_nil, runFunction_succ]
    exact (access_body_nil _ d).trans (access_nil_any d).symm
  | cons k ks ih =>
    intro d
    rw [List.length_cons, runFunction_succ]
    have h := access_body_cons (runFunction Gen.Reward.fn_access_from_nested_dict "dictionary" "keys" (ks.length + 1)) d k ks
    simp only [accessEnv, PyVal.strs, List.map_cons] at h ⊢
    rw [h]
    cases d with
    | dict kvs =>
      simp only [PyVal.access]
      cases kvs.lookup (.str k) with
      | none => rfl
      | some v => exact ih v
    | list xs => simp only [PyVal.access]
    | str s => simp only [PyVal.access]
    | _ => simp only [PyVal.access]

/-- `keys is None` (a component whose `location_in_state` was never set): `NOT_PRESENT_IN_STATE` -/
theorem C10_gen_access_none (d : PyVal) (fuel : Nat) :
    runFunction Gen.Reward.fn_access_from_nested_dict "dictionary" "keys" (fuel + 1) d .none = .ok .notPresent := by
  rw [runFunction_succ]
  simp [fnResult, Gen.Reward.fn_access_from_nested_dict, pyIs]


/-! ### `RewardFunction.update` itself -/

/-- the accumulation `total = 0.0; for (comp, weight): total += weight * comp.calculate(...)`, the first raising component ending it -/
def leftFoldE : Val → List (Except Err Val × Val) → Except Err Val
  | acc, [] => .ok acc
  | acc, (r, w) :: rest =>
    match r with
    | .error e => .error e
    | .ok v => leftFoldE (acc + w * v) rest

/-- the model's loop is that accumulation over the components' own evaluations -/
theorem updateCompsE_fst_eq_leftFoldE (s : SimState) (it : Item) (cur : Name → Val) (comps : List (Comp × Val)) :
    ∀ acc, (updateCompsE s it cur acc comps).map (·.1) =
      leftFoldE acc (comps.map (fun cw => ((calcCompE s it cur cw.1).map (·.1), cw.2))) := by
  induction comps with
  | nil => intro acc; rfl
  | cons cw rest ih =>
    obtain ⟨c, w⟩ := cw
    intro acc
    simp only [updateCompsE, List.map_cons, leftFoldE]
    cases hc : calcCompE s it cur c with
    | error e => rfl
    | ok r =>
      simp only [Except.map]
      have := ih (acc + w * r.1)
      cases hu : updateCompsE s it cur (acc + w * r.1) rest with
      | error e => rw [hu] at this; simpa [Except.map] using this
      | ok t => rw [hu] at this; simpa [Except.map] using this

/-- the body of the `for` loop of the translated `update` -/
def updLoopBody : Stmt :=
  match Gen.Reward.fn_RewardFunction_update with
  | .seq _ (.seq (.forIn _ _ b) _) => b
  | _ => .pass

/-- a `(component, weight)` entry of `self.reward_components` -/
def encPair (p : PyVal × Val) : PyVal := .list [p.1, .num p.2]

/-- one iteration: `total` becomes `total + weight * comp.calculate(...)`, or the component's exception ends the loop -/
theorem update_iter (f : PyVal → Except Err Val) (env : Env) (hc : ∀ o, env.calcOf o = (f o).map .num) (acc : Val)
    (ht : env.locals.lookup "total" = some (.num acc)) (p : PyVal × Val) :
    exec updLoopBody { env with locals := ("comp_and_weight", encPair p) :: env.locals } =
      match f p.1 with
      | .error e => .error e
      | .ok v => .ok ({ env with locals := ("total", .num (acc + p.2 * v)) :: ("weight", .num p.2) :: ("comp", p.1) ::
                          ("comp_and_weight", encPair p) :: env.locals }, none) := by
  obtain ⟨tok, w⟩ := p
  have hne1 : ("total" == "comp_and_weight") = false := by decide
  cases hf : f tok with
  | error e =>
    simp [updLoopBody, Gen.Reward.fn_RewardFunction_update, encPair, pyIndex, ht, hc, hf]
  | ok v =>
    simp [updLoopBody, Gen.Reward.fn_RewardFunction_update, encPair, pyIndex, ht, hc, hf, pyArith, PyVal.asNum, Rat.add_comm]

theorem update_loop (f : PyVal → Except Err Val) (pairs : List (PyVal × Val)) :
    ∀ (env : Env) (acc : Val), (∀ o, env.calcOf o = (f o).map .num) → env.locals.lookup "total" = some (.num acc) →
      match leftFoldE acc (pairs.map (fun p => (f p.1, p.2))) with
      | .error e => loopOver (fun env' => exec updLoopBody env') "comp_and_weight" (pairs.map encPair) env = .error e
      | .ok a => ∃ env', loopOver (fun env' => exec updLoopBody env') "comp_and_weight" (pairs.map encPair) env = .ok (env', none) ∧
          env'.locals.lookup "total" = some (.num a) ∧ env'.selfAttrs = env.selfAttrs := by
  induction pairs with
  | nil => intro env acc _ ht; exact ⟨env, rfl, ht, rfl⟩
  | cons p rest ih =>
    intro env acc hc ht
    simp only [List.map_cons, leftFoldE, loopOver]
    rw [update_iter f env hc acc ht p]
    cases hf : f p.1 with
    | error e => rfl
    | ok v =>
      simp only
      have h := ih { env with locals := ("total", .num (acc + p.2 * v)) :: ("weight", .num p.2) :: ("comp", p.1) ::
          ("comp_and_weight", encPair p) :: env.locals } (acc + p.2 * v) hc (by simp)
      cases hl : leftFoldE (acc + p.2 * v) (rest.map (fun p => (f p.1, p.2))) with
      | error e => rw [hl] at h; exact h
      | ok a => rw [hl] at h; obtain ⟨env', h1, h2, h3⟩ := h; exact ⟨env', h1, h2, h3⟩

/-- **`RewardFunction.update`, semantic tie.** The body of `update(self, state, last_action_response)` in rewards.py — translated
statement by statement on every run: the `for` loop over `self.reward_components`, the two subscripts, `total += weight * …`, the
assignment to `self.current_reward`, the `return` — interpreted for ANY list of (component object, weight) and ANY behaviour `f`
of the components' `calculate` (a number or an exception each), returns (and stores in `self.current_reward`) exactly the left
fold `((0 + w₁·c₁) + w₂·c₂) + …`, stopping at the first component that raises. With `updateCompsE_fst_eq_leftFoldE` this is the
model's `updateCompsE`. (Replaces the text tie of `update`; nothing is assumed about what a component is.) -/
theorem C10_gen_update (f : PyVal → Except Err Val) (cfun : PyVal → Except Err PyVal) (hc : ∀ o, cfun o = (f o).map .num)
    (pairs : List (PyVal × Val)) (s : PyVal) (it : Item) (others : List (String × PyVal)) :
    (runCalculate Gen.Reward.fn_RewardFunction_update
      { state := s, item := it, config := [], reward := .none, calcOf := cfun,
        selfAttrs := ("reward_components", .list (pairs.map encPair)) :: others }).map (·.value) =
      leftFoldE 0 (pairs.map (fun p => (f p.1, p.2))) := by
  have hloop := update_loop f pairs
    { state := s, item := it, config := [], reward := .none, calcOf := cfun,
      selfAttrs := ("reward_components", .list (pairs.map encPair)) :: others, locals := [("total", .num 0)] } 0
    hc (by simp)
  have hbody : Gen.Reward.fn_RewardFunction_update =
      .seq (.assign (.var "total") (.const (.num 0)))
        (.seq (.forIn "comp_and_weight" (.selfAttr "reward_components") updLoopBody)
          (.seq (.assign (.selfAttr "current_reward") (.var "total")) (.ret (.selfAttr "current_reward")))) := by
    simp [Gen.Reward.fn_RewardFunction_update, updLoopBody]
  rw [hbody]
  cases hl : leftFoldE 0 (pairs.map (fun p => (f p.1, p.2))) with
  | error e =>
    rw [hl] at hloop
    simp only at hloop
    simp [pyIterList, hloop]
  | ok a =>
    rw [hl] at hloop
    simp only at hloop
    obtain ⟨env', h1, h2, h3⟩ := hloop
    simp [pyIterList, h1, h2]

/-- **The plugin contract.** `RewardFunction.update` and the whole game-level development never look inside a component: for a
component class defined OUTSIDE the package (registered through `AbstractReward.__init_subclass__`), whatever its `calculate`
computes — any function `f` of the object, state and item, raising or not — the agent's step reward is the weighted left fold of
the values it and its siblings return, in registration order, and an exception of the plugin ends `update` (and the step) with that
exception. What C10 does NOT promise for a plugin: non-interference, sticky laws, the ground-truth statements — those are proved
for the seven shipped classes from their translated bodies. -/
theorem C10_plugin_contract (f : PyVal → Except Err Val) (pre post : List (PyVal × Val)) (plugin : PyVal) (w : Val) (s : PyVal) (it : Item) :
    (runCalculate Gen.Reward.fn_RewardFunction_update
      { state := s, item := it, config := [], reward := .none, calcOf := fun o => (f o).map .num,
        selfAttrs := [("reward_components", .list ((pre ++ (plugin, w) :: post).map encPair))] }).map (·.value) =
      leftFoldE 0 ((pre ++ (plugin, w) :: post).map (fun p => (f p.1, p.2))) :=
  C10_gen_update f _ (fun _ => rfl) _ s it []

/-- non-vacuity: two components and a plugin object in the middle that returns 5; the plugin raising ends the update -/
example :
    (leftFoldE 0 ([((.ok 1 : Except Err Val), (2 : Val)), (.ok 5, 1/2), (.ok (-1), 1)])).toOption = some (2 + 5/2 - 1) ∧
    (match leftFoldE 0 ([((.ok 1 : Except Err Val), (2 : Val)), (.error .typeError, 1/2), (.ok (-1), 1)]) with
      | .error .typeError => true | _ => false) = true := by
  constructor <;> decide +kernel


/-! ### `PrimaiteGame.update_agents` itself -/

/-- **`update_agents`, semantic tie.** The loop of `PrimaiteGame.update_agents` in game.py — translated on every run into the list of
its statements with their guards (`Gen.Reward.updateAgentsProgram`) — run on the agent `self.agents[agent_name]` of ANY game, state
and agent name, is exactly the model's `updOneE`: `update_reward` then `save_reward_to_history`, both only when `step_counter > 0`,
then `total_reward += current_reward` with the NEW reward; same exceptions (unknown agent, empty history, unknown shared name,
raising component). Any reordering or regrouping of those statements that changes the result refutes this theorem; one that does
not (e.g. moving `update_observation`) keeps it. (Replaces the text tie of `update_agents`.) -/
theorem C10_gen_update_agents (s : SimState) (g : Game) (name : Name) :
    updOneProg Gen.Reward.updateAgentsProgram s g name = updOneE s g name := by
  unfold updOneProg updOneE
  cases hl : g.agents.lookup name with
  | none => rfl
  | some a =>
    simp only
    by_cases hpos : g.stepCounter > 0
    · simp only [hpos, decide_true, if_true, Gen.Reward.updateAgentsProgram, runOps, Bool.not_true, Bool.and_false,
        Bool.false_eq_true, if_false]
      cases hh : a.hist with
      | nil => rfl
      | cons e older =>
        obtain ⟨it, rw'⟩ := e
        simp only
        by_cases hall : (sharedNames a.comps).all (fun v => decide (v ∈ agentKeys g.agents)) = true
        · simp only [hall, if_true]
          cases hu : updateCompsE s it (curOf g.agents) 0 a.comps with
          | error e => rfl
          | ok r => simp only [hh]
        · simp only [hall, Bool.false_eq_true, if_false]
    · simp only [hpos, decide_false, if_false, Gen.Reward.updateAgentsProgram, runOps, Bool.not_false, Bool.and_true,
        Bool.and_self, if_true, Bool.false_and, Bool.false_eq_true]

/-- … and the whole function: the loop over `_reward_calculation_order` -/
theorem C10_gen_update_agents_loop (s : SimState) (g : Game) :
    foldE (updOneProg Gen.Reward.updateAgentsProgram s) g g.order = updateAgentsE s g := by
  unfold updateAgentsE
  have : updOneProg Gen.Reward.updateAgentsProgram s = updOneE s := by
    funext g' n; exact C10_gen_update_agents s g' n
  rw [this]

/-- why the order matters (own mutation M3, round 3): with `total_reward += current_reward` moved in front of `update_reward`
the total lags one step behind — a different program, and not the model -/
example :
    let it : Item := { action := "x", request := .list [], status := "success" }
    let a : Agent := { comps := [(.actionPenalty (-1) 0, 1)], current := 5, total := 10, hist := [(it, none)] }
    let g : Game := { agents := [("a", a)], order := ["a"], stepCounter := 1 }
    ((updOneProg [(false, .addCurrentToTotal), (true, .updateReward), (true, .saveRewardToHistory), (false, .updateObservation)]
        (.dict []) g "a").toOption.bind (fun g' => g'.agents.lookup "a")).map (·.total) = some 15 ∧
    ((updOneE (.dict []) g "a").toOption.bind (fun g' => g'.agents.lookup "a")).map (·.total) = some 9 := by
  constructor <;> decide +kernel

/-! ## 2. Non-interference: what a component's value can depend on -/

/-- two history items agree on the fields a component reads -/
def Reads.agree (r : Reads) (it it' : Item) : Prop :=
  (r.action = true → it.action = it'.action) ∧ (r.request = true → it.request = it'.request) ∧
  (r.status = true → it.status = it'.status)

/-- `DatabaseFileIntegrity`: the value (or exception) is a function of the leaf `access state location_in_state` alone —
no other part of the state, nothing of the history item, no memory. -/
theorem C10_file_reads_only_its_leaf (s s' : SimState) (n fo fi : Name)
    (h : PyVal.access s (fileLoc n fo fi) = PyVal.access s' (fileLoc n fo fi)) :
    calcFileE s n fo fi = calcFileE s' n fo fi := by
  unfold calcFileE; rw [h]

/-- `WebServer404Penalty`: a function of its leaf, its sticky flag and its own memory. -/
theorem C10_web404_reads_only_its_leaf (s s' : SimState) (n sv : Name) (st : Bool) (m : Val)
    (h : PyVal.access s (web404Loc n sv) = PyVal.access s' (web404Loc n sv)) :
    calcWeb404E s n sv st m = calcWeb404E s' n sv st m := by
  unfold calcWeb404E; rw [h]

/-- `WebpageUnavailablePenalty`: a function of its leaf, of `request` and `response.status` of the agent's OWN latest item,
its sticky flag and its own memory. -/
theorem C10_webpage_reads_only_leaf_request_status (s s' : SimState) (it it' : Item) (n : Name) (st : Bool) (m : Val)
    (h : PyVal.access s (webpageLoc n) = PyVal.access s' (webpageLoc n))
    (hr : it.request = it'.request) (hs : it.status = it'.status) :
    calcWebpageE s it n st m = calcWebpageE s' it' n st m := by
  unfold calcWebpageE webpageFreshE Item.requestIs Item.ok; rw [h, hr, hs]

/-- `GreenAdminDatabaseUnreachablePenalty`: a function of `request` and `response.status` of the agent's own latest item, its
sticky flag and its own memory — no state at all. -/
theorem C10_greenDb_reads_only_request_status (it it' : Item) (n : Name) (st : Bool) (m : Val)
    (hr : it.request = it'.request) (hs : it.status = it'.status) :
    calcGreenDb it n st m = calcGreenDb it' n st m := by
  unfold calcGreenDb Item.requestIs Item.ok; rw [hr, hs]

/-- `ActionPenalty`: a function of the agent's own latest `action` (and the two configured penalties). -/
theorem C10_actionPenalty_reads_only_action (it it' : Item) (ap dn : Val) (ha : it.action = it'.action) :
    calcActionPenalty it ap dn = calcActionPenalty it' ap dn := by
  unfold calcActionPenalty; rw [ha]

/-- **Non-interference, every component.** `comp.calculate(state, last_action_response)` — value, new memory, or the exception
it raises — is the same for two states that agree on the leaf the component names and two history items that agree on the
fields it reads (and, for `SharedReward`, two callbacks that agree on the agent it names). Everything else — the rest of
the state dictionary, `timestep`, `parameters`, `response.data`, `reward_info`, `observation`, the fields outside the
read-set, other agents' rewards — cannot influence it. -/
theorem C10_component_noninterference (s s' : SimState) (it it' : Item) (cur cur' : Name → Val) (c : Comp)
    (hleaf : ∀ p, c.loc = some p → PyVal.access s p = PyVal.access s' p)
    (hitem : c.reads.agree it it')
    (hcur : ∀ a, c = .shared a → cur a = cur' a) :
    calcCompE s it cur c = calcCompE s' it' cur' c := by
  obtain ⟨ha, hr, hs⟩ := hitem
  cases c with
  | dummy => rfl
  | fileIntegrity n fo fi =>
    simp only [calcCompE, C10_file_reads_only_its_leaf s s' n fo fi (hleaf _ rfl)]
  | web404 n sv st m =>
    simp only [calcCompE, C10_web404_reads_only_its_leaf s s' n sv st m (hleaf _ rfl)]
  | webpage n st m =>
    simp only [calcCompE, C10_webpage_reads_only_leaf_request_status s s' it it' n st m (hleaf _ rfl) (hr rfl) (hs rfl)]
  | greenDb n st m =>
    simp only [calcCompE, C10_greenDb_reads_only_request_status it it' n st m (hr rfl) (hs rfl)]
  | shared a => simp only [calcCompE, hcur a rfl]
  | actionPenalty ap dn =>
    simp only [calcCompE, C10_actionPenalty_reads_only_action it it' ap dn (ha rfl)]

/-- non-vacuity: two different states and two different items that agree on what a `webpage` component reads -/
example : (Comp.webpage "pc1" false 0).reads.agree
    { action := "a", request := .list [.str "x"], status := "success", timestep := 3 }
    { action := "b", request := .list [.str "x"], status := "success", timestep := 9, data := .dict [(.str "k", .int 1)] } :=
  ⟨fun h => (by cases h), fun _ => rfl, fun _ => rfl⟩

/-- the same for the total evaluation function the algebraic development uses -/
theorem calcComp_noninterference (s s' : SimState) (it it' : Item) (cur cur' : Name → Val) (c : Comp)
    (hleaf : ∀ p, c.loc = some p → PyVal.access s p = PyVal.access s' p)
    (hitem : c.reads.agree it it')
    (hcur : ∀ a, c = .shared a → cur a = cur' a) :
    calcComp s it cur c = calcComp s' it' cur' c := by
  have h := C10_component_noninterference s s' it it' cur cur' c hleaf hitem hcur
  cases c with
  | dummy => rfl
  | fileIntegrity n fo fi =>
    have : calcFileE s n fo fi = calcFileE s' n fo fi := C10_file_reads_only_its_leaf s s' n fo fi (hleaf _ rfl)
    simp only [calcComp, calcFile, this]
  | web404 n sv st m =>
    have : calcWeb404E s n sv st m = calcWeb404E s' n sv st m := C10_web404_reads_only_its_leaf s s' n sv st m (hleaf _ rfl)
    simp only [calcComp, calcWeb404, this]
  | webpage n st m =>
    have : calcWebpageE s it n st m = calcWebpageE s' it' n st m :=
      C10_webpage_reads_only_leaf_request_status s s' it it' n st m (hleaf _ rfl) (hitem.2.1 rfl) (hitem.2.2 rfl)
    simp only [calcComp, calcWebpage, this]
  | greenDb n st m =>
    simp only [calcComp, C10_greenDb_reads_only_request_status it it' n st m (hitem.2.1 rfl) (hitem.2.2 rfl)]
  | shared a => simp only [calcComp, hcur a rfl]
  | actionPenalty ap dn =>
    simp only [calcComp, C10_actionPenalty_reads_only_action it it' ap dn (hitem.1 rfl)]

theorem updateComps_noninterference (s s' : SimState) (it it' : Item) (cur cur' : Name → Val) (comps : List (Comp × Val))
    (hleaf : ∀ cw ∈ comps, ∀ p, cw.1.loc = some p → PyVal.access s p = PyVal.access s' p)
    (hitem : ∀ cw ∈ comps, cw.1.reads.agree it it')
    (hcur : ∀ v ∈ sharedNames comps, cur v = cur' v) :
    ∀ acc, updateComps s it cur acc comps = updateComps s' it' cur' acc comps := by
  induction comps with
  | nil => intro acc; rfl
  | cons cw rest ih =>
    obtain ⟨c, w⟩ := cw
    intro acc
    have hc : calcComp s it cur c = calcComp s' it' cur' c := by
      apply calcComp_noninterference s s' it it' cur cur' c (hleaf (c, w) (by simp)) (hitem (c, w) (by simp))
      intro a hca; subst hca; exact hcur a (by simp [sharedNames])
    have hrest := ih (fun cw hcw => hleaf cw (List.mem_cons_of_mem _ hcw)) (fun cw hcw => hitem cw (List.mem_cons_of_mem _ hcw))
      (fun v hv => hcur v (sharedNames_cons_mem hv))
    simp only [updateComps, hc, hrest]

/-- what is compared between two runs of a step: components (memories included), step reward, total -/
def Agent.rewardView (a : Agent) : List (Comp × Val) × Val × Val := (a.comps, a.current, a.total)

/-- **Non-interference, the whole step.** Take one well-formed game and run the step twice: with post-step states that agree
on every leaf some configured component names, and with history items that agree, agent by agent, on the fields that
agent's own components read. Then every agent ends with the same step reward, the same total and the same component
memories — however much the rest of the state dictionary and the other fields of the items (or the items of agents whose
components read nothing) differ. In particular an agent's reward depends on its OWN latest action and response only (and,
through shared components, on the agents it shares from, by the same rule). -/
theorem C10_step_noninterference (g : Game) (wf : WF g) (items items' : Name → Item) (s s' : SimState)
    (hleaf : ∀ n a, g.agents.lookup n = some a → ∀ cw ∈ a.comps, ∀ p, cw.1.loc = some p → PyVal.access s p = PyVal.access s' p)
    (hitem : ∀ n a, g.agents.lookup n = some a → ∀ cw ∈ a.comps, cw.1.reads.agree (items n) (items' n)) :
    ∃ g1 g2, gameStep g items s = .ok g1 ∧ gameStep g items' s' = .ok g2 ∧
      ∀ n, (g1.agents.lookup n).map Agent.rewardView = (g2.agents.lookup n).map Agent.rewardView := by
  obtain ⟨g1, h1, _, _, _, hk1, hf1⟩ := gameStep_spec g wf items s
  obtain ⟨g2, h2, _, _, _, hk2, hf2⟩ := gameStep_spec g wf items' s'
  refine ⟨g1, g2, h1, h2, ?_⟩
  have key : ∀ (k : Nat) (n : Name), n ∈ g.order → g.order.idxOf n < k →
      (g1.agents.lookup n).map Agent.rewardView = (g2.agents.lookup n).map Agent.rewardView := by
    intro k
    induction k with
    | zero => intro n _ h; omega
    | succ k ih =>
      intro n hn hk
      obtain ⟨a, ha⟩ := mem_keys_lookup ((wf.orderMem n).mp hn)
      rw [hf1 n a ha, hf2 n a ha]
      simp only [Option.map_some, updAgent_pushItem, Agent.rewardView]
      have hcur : ∀ v ∈ sharedNames a.comps, curOf g1.agents v = curOf g2.agents v := by
        intro v hv
        obtain ⟨hvo, hlt⟩ := shared_mem_order wf ha hv
        have hv' := ih v hvo (by omega)
        unfold curOf
        cases hl1 : g1.agents.lookup v with
        | none =>
          rw [hl1] at hv'
          cases hl2 : g2.agents.lookup v with
          | none => rfl
          | some b => rw [hl2] at hv'; cases hv'
        | some b1 =>
          rw [hl1] at hv'
          cases hl2 : g2.agents.lookup v with
          | none => rw [hl2] at hv'; cases hv'
          | some b2 =>
            rw [hl2] at hv'
            simp only [Option.map_some, Agent.rewardView, Option.some.injEq, Prod.mk.injEq] at hv'
            exact hv'.2.1
      have hu := updateComps_noninterference s s' (items n) (items' n) (curOf g1.agents) (curOf g2.agents) a.comps
        (hleaf n a ha) (hitem n a ha) hcur 0
      rw [hu]
  intro n
  by_cases hn : n ∈ agentKeys g.agents
  · exact key (g.order.idxOf n + 1) n ((wf.orderMem n).mpr hn) (by omega)
  · rw [(lookup_none_iff _ n).mpr (by rw [hk1]; exact hn), (lookup_none_iff _ n).mpr (by rw [hk2]; exact hn)]

/-- An agent without shared-reward components: its step reward is a function of the post-step state and of its own latest
history item alone — whatever the other agents did. -/
theorem C10_own_item_only (g : Game) (wf : WF g) (items : Name → Item) (s : SimState) (g' : Game)
    (hok : gameStep g items s = .ok g') (n : Name) (a : Agent) (ha : g.agents.lookup n = some a)
    (hns : sharedNames a.comps = []) :
    ∃ a', g'.agents.lookup n = some a' ∧ a'.current = (updateComps s (items n) (fun _ => 0) 0 a.comps).1 := by
  obtain ⟨g'', hok', _, _, _, _, hf⟩ := gameStep_spec g wf items s
  rw [hok] at hok'; cases hok'
  refine ⟨_, hf n a ha, ?_⟩
  rw [updAgent_pushItem]
  simp only
  rw [updateComps_congr s (items n) (curOf g'.agents) (fun _ => 0) a.comps 0 (by rw [hns]; intro v hv; cases hv)]

/-! ## 3. The step with exceptions -/

/-- **The step, exceptions included** (what the driver runs). On a well-formed game: if every configured component accepts the
post-step state and its agent's new item (`compOK`: its leaf has a shape `calculate` copes with), the step succeeds and is
the step of `C10_step`; and whenever the step succeeds — for whatever reason — its result is the one `C10_step` describes. -/
theorem C10_stepE (g : Game) (wf : WF g) (items : Name → Item) (s : SimState) :
    ((∀ n a, g.agents.lookup n = some a → ∀ cw ∈ a.comps, compOK s (items n) cw.1 = true) →
      ∃ g', gameStepE g items s = .ok g' ∧ gameStep g items s = .ok g') ∧
    (∀ g', gameStepE g items s = .ok g' → gameStep g items s = .ok g') := by
  constructor
  · intro hok
    obtain ⟨g', hg', _⟩ := gameStep_spec g wf items s
    exact ⟨g', by rw [gameStepE_eq g items s hok]; exact hg', hg'⟩
  · intro g' h; exact gameStepE_sound h

/-- non-vacuity of the `compOK` hypothesis: a file entry with `health_status` is accepted (value −1 for CORRUPT = 2), one
without it makes `calculate` raise `KeyError`, a `None` where a folder dictionary should be raises `TypeError` -/
example :
    let good : SimState := .dict [(.str "network", .dict [(.str "nodes", .dict [(.str "srv", .dict [(.str "file_system",
      .dict [(.str "folders", .dict [(.str "database", .dict [(.str "files", .dict [(.str "database.db",
        .dict [(.str "health_status", .int 2)])])])])])])])])]
    let noKey : SimState := .dict [(.str "network", .dict [(.str "nodes", .dict [(.str "srv", .dict [(.str "file_system",
      .dict [(.str "folders", .dict [(.str "database", .dict [(.str "files", .dict [(.str "database.db", .dict [])])])])])])])])]
    let noneOnTheWay : SimState := .dict [(.str "network", .dict [(.str "nodes", .dict [(.str "srv", .dict [(.str "file_system",
      .dict [(.str "folders", .none)])])])])]
    let it : Item := { action := "do-nothing", request := .list [.str "do-nothing"], status := "success" }
    let c : Comp := .fileIntegrity "srv" "database" "database.db"
    compOK good it c = true ∧ (calcFileE good "srv" "database" "database.db").toOption = some (-1) ∧
    compOK noKey it c = false ∧ compOK noneOnTheWay it c = false ∧
    (match calcFileE noKey "srv" "database" "database.db" with | .error .keyError => true | _ => false) = true ∧
    (match calcFileE noneOnTheWay "srv" "database" "database.db" with | .error .typeError => true | _ => false) = true := by
  decide

/-- a component raises exactly when its evaluation function does: `compOK` is the decidable, memory-independent form of
"`calculate` returns" -/
theorem C10_compOK_iff (s : SimState) (it : Item) (cur : Name → Val) (c : Comp) :
    compOK s it c = true ↔ ∃ r, calcCompE s it cur c = .ok r := by
  constructor
  · intro h; exact ⟨_, calcCompE_of_ok cur h⟩
  · intro ⟨r, h⟩
    cases c with
    | fileIntegrity n fo fi =>
      simp only [compOK]
      cases hc : calcFileE s n fo fi with
      | error e => simp [calcCompE, hc, Except.map] at h
      | ok v => rfl
    | web404 n sv st m =>
      simp only [compOK]
      rw [calcWeb404E_isOk s n sv true st 0 m]
      cases hc : calcWeb404E s n sv st m with
      | error e => simp [calcCompE, hc, Except.map] at h
      | ok v => rfl
    | webpage n st m =>
      simp only [compOK]
      rw [calcWebpageE_isOk s it n true st 0 m]
      cases hc : calcWebpageE s it n st m with
      | error e => simp [calcCompE, hc, Except.map] at h
      | ok v => rfl
    | _ => rfl

/-- the projection of the state on the components' own key paths (what the rig sends for a large real `describe_state()`)
is indistinguishable from the whole state for every component whose path is in the set -/
theorem C10_projection_invisible (s : SimState) (paths : List (List String)) (it : Item) (cur : Name → Val) (c : Comp)
    (h : ∀ p, c.loc = some p → p ∈ paths) :
    calcCompE (PyVal.restrict s paths) it cur c = calcCompE s it cur c := by
  apply C10_component_noninterference
  · intro p hp; exact PyVal.access_restrict p s paths (h p hp)
  · exact ⟨fun _ => rfl, fun _ => rfl, fun _ => rfl⟩
  · intro a _; rfl

end Primaite.Reward
