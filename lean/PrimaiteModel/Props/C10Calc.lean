/-
C10, components — "each component is evaluated on the post-step state and on that agent's own latest action and response".

1. Translator tie, semantic: the body of every `calculate` in src/primaite/game/agent/rewards.py, translated statement by
   statement by harness/extract/reward_calc.py into the language of Model/RewardCalcLang.lean (`Gen.Reward.calc_<Class>`),
   is proved to compute — for EVERY state dictionary, history item, configuration and memory — the value, the new memory
   and the exceptions of the hand-written component model (`calcFileE`, `calcWeb404E`, `calcWebpageE`, `calcGreenDb`, …).
2. Non-interference: a component's value (and exception) depends only on the leaf of the state dictionary it names and on
   the fields of the agent's own latest history item it reads; never on the rest of the state, the rest of the item, or
   (except `SharedReward`) other agents.
-/
import PrimaiteModel.Lemmas.RewardExc
import PrimaiteModel.Lemmas.RewardState
import PrimaiteModel.Gen.Reward
namespace Primaite.Reward
open Primaite.RewardGraph Primaite.Reward.Py

/-! ## 1. The source of every `calculate`, interpreted, is the component model -/

attribute [local simp] runCalculate exec eval assignTo List.lookup toKeys toVal Except.map

@[simp] theorem truthy_bool (b : Bool) : (PyVal.bool b).truthy = b := rfl
@[simp] theorem pyEq_str_str (a b : String) : PyVal.pyEq (.str a) (.str b) = (a == b) := by simp [PyVal.pyEq]
@[simp] theorem pyIs_notPresent (x : PyVal) : pyIs x .notPresent = x.isNotPresent := by cases x <;> rfl

/-- the environment `DatabaseFileIntegrity.calculate` runs in -/
def fileEnv (s : SimState) (it : Item) (n fo fi : Name) (loc : PyVal) : Env :=
  { state := s, item := it, reward := .num 0, loc := loc,
    config := [("type", .str "database-file-integrity"), ("node_hostname", .str n), ("folder_name", .str fo), ("file_name", .str fi)] }

theorem C10_gen_calc_file (s : SimState) (it : Item) (n fo fi : Name) (loc : PyVal) :
    (runCalculate Gen.Reward.calc_DatabaseFileIntegrity (fileEnv s it n fo fi loc)).map (·.value) = calcFileE s n fo fi := by
  simp [runCalculate, Gen.Reward.calc_DatabaseFileIntegrity, exec, eval, fileEnv, assignTo, List.lookup, toKeys,
    calcFileE, fileLoc]
  cases s.access ["network", "nodes", n, "file_system", "folders", fo, "files", fi] with
  | error e => rfl
  | ok leaf =>
    simp
    cases leaf <;> simp [PyVal.isNotPresent, toVal, Except.map, PyVal.getItem]
    rename_i kvs
    cases List.lookup (PyKey.str "health_status") kvs with
    | none => rfl
    | some h =>
      simp [healthValue]
      by_cases h2 : h.pyEq (.int 2) = true
      · simp [h2, toVal]
      · by_cases h1 : h.pyEq (.int 1) = true
        · simp [h2, h1, toVal]
        · simp [h2, h1, toVal]

/-- `DummyReward.calculate` returns 0.0 whatever it is given -/
theorem C10_gen_calc_dummy (env : Env) : (runCalculate Gen.Reward.calc_DummyReward env).map (·.value) = .ok 0 := by
  simp [runCalculate, Gen.Reward.calc_DummyReward, exec, eval, toVal, Except.map]

/-- the environment `WebServer404Penalty.calculate` runs in -/
def web404Env (s : SimState) (it : Item) (n sv : Name) (st : Bool) (m : Val) (loc : PyVal) : Env :=
  { state := s, item := it, reward := .num m, loc := loc,
    config := [("type", .str "web-server-404-penalty"), ("node_hostname", .str n), ("service_name", .str sv), ("sticky", .bool st)] }

theorem C10_gen_calc_web404 (s : SimState) (it : Item) (n sv : Name) (st : Bool) (m : Val) (loc : PyVal) :
    (runCalculate Gen.Reward.calc_WebServer404Penalty (web404Env s it n sv st m loc)).map (fun o => (o.value, o.reward)) =
      (calcWeb404E s n sv st m).map (fun r => (r.1, PyVal.num r.2)) := by
  simp [runCalculate, Gen.Reward.calc_WebServer404Penalty, exec, eval, web404Env, assignTo, List.lookup, toKeys,
    calcWeb404E, web404Loc]
  cases s.access ["network", "nodes", n, "services", sv] with
  | error e => rfl
  | ok leaf =>
    simp
    by_cases hnp : leaf.isNotPresent = true
    · simp [hnp, toVal, Except.map]
    · simp [hnp]
      cases leaf.get "response_codes_this_timestep" with
      | error e => rfl
      | ok codes =>
        simp
        by_cases ht : codes.truthy = true
        · simp [ht, status2rewTable]
          cases PyVal.avgTable [(200, 1), (404, -1)] 0 codes with
          | error e => rfl
          | ok v => simp [Except.map, toVal]
        · cases st <;> simp [ht, toVal, Except.map]

/-- the environment `WebpageUnavailablePenalty.calculate` runs in -/
def webpageEnv (s : SimState) (it : Item) (n : Name) (st : Bool) (m : Val) (loc : PyVal) : Env :=
  { state := s, item := it, reward := .num m, loc := loc,
    config := [("type", .str "webpage-unavailable-penalty"), ("node_hostname", .str n), ("sticky", .bool st)] }

theorem C10_gen_calc_webpage (s : SimState) (it : Item) (n : Name) (st : Bool) (m : Val) (loc : PyVal) :
    (runCalculate Gen.Reward.calc_WebpageUnavailablePenalty (webpageEnv s it n st m loc)).map (fun o => (o.value, o.reward)) =
      (calcWebpageE s it n st m).map (fun v => (v, PyVal.num v)) := by
  have hreq : it.request.pyEq (PyVal.list [PyVal.str "network", PyVal.str "node", PyVal.str n, PyVal.str "application",
      PyVal.str "web-browser", PyVal.str "execute"]) = it.requestIs (browserRequest n) := by
    simp [Item.requestIs, browserRequest, PyVal.strs]
  unfold calcWebpageE
  cases hacc : PyVal.access s (webpageLoc n) with
  | error e =>
    simp only [webpageLoc] at hacc
    simp [Gen.Reward.calc_WebpageUnavailablePenalty, webpageEnv, hacc]
  | ok leaf =>
    simp only [webpageLoc] at hacc
    cases hatt : it.requestIs (browserRequest n) with
    | false =>
      by_cases hnp : leaf.isNotPresent = true <;> cases st <;>
        simp [Gen.Reward.calc_WebpageUnavailablePenalty, webpageEnv, hacc, hreq, hatt, hnp]
    | true =>
      by_cases hok : it.status = "success"
      · by_cases hnp : leaf.isNotPresent = true
        · simp [Gen.Reward.calc_WebpageUnavailablePenalty, webpageEnv, hacc, hreq, hatt, hnp, hok, webpageFreshE, Item.ok]
        · have hnp' : leaf.isNotPresent = false := by simpa using hnp
          cases hh : leaf.getItem "history" with
          | error e =>
            simp [Gen.Reward.calc_WebpageUnavailablePenalty, webpageEnv, hacc, hreq, hatt, hnp', hok, webpageFreshE, Item.ok, hh]
          | ok hist =>
            by_cases ht : hist.truthy = true
            · cases hl : hist.last with
              | error e =>
                simp [Gen.Reward.calc_WebpageUnavailablePenalty, webpageEnv, hacc, hreq, hatt, hnp', hok, webpageFreshE, Item.ok, hh, ht, hl]
              | ok entry =>
                cases ho : entry.getItem "outcome" with
                | error e =>
                  simp [Gen.Reward.calc_WebpageUnavailablePenalty, webpageEnv, hacc, hreq, hatt, hnp', hok, webpageFreshE, Item.ok, hh, ht, hl, ho]
                | ok o =>
                  by_cases hp : o.pyEq (.str "PENDING") = true
                  · simp [Gen.Reward.calc_WebpageUnavailablePenalty, webpageEnv, hacc, hreq, hatt, hnp', hok, webpageFreshE, Item.ok, hh, ht, hl, ho, hp, outcomeReward]
                  · by_cases h2 : o.pyEq (.int 200) = true <;>
                      simp [Gen.Reward.calc_WebpageUnavailablePenalty, webpageEnv, hacc, hreq, hatt, hnp', hok, webpageFreshE, Item.ok, hh, ht, hl, ho, hp, h2, outcomeReward]
            · simp [Gen.Reward.calc_WebpageUnavailablePenalty, webpageEnv, hacc, hreq, hatt, hnp', hok, webpageFreshE, Item.ok, hh, ht]
      · by_cases hnp : leaf.isNotPresent = true <;>
          simp [Gen.Reward.calc_WebpageUnavailablePenalty, webpageEnv, hacc, hreq, hatt, hnp, hok, webpageFreshE, Item.ok]

/-- the environment `GreenAdminDatabaseUnreachablePenalty.calculate` runs in -/
def greenDbEnv (s : SimState) (it : Item) (n : Name) (st : Bool) (m : Val) (loc : PyVal) : Env :=
  { state := s, item := it, reward := .num m, loc := loc,
    config := [("type", .str "green-admin-database-unreachable-penalty"), ("node_hostname", .str n), ("sticky", .bool st)] }

/-- value, memory afterwards, and the `reward_info` it writes into the history item; it never raises and never looks at `state` -/
theorem C10_gen_calc_greenDb (s : SimState) (it : Item) (n : Name) (st : Bool) (m : Val) (loc : PyVal) :
    (runCalculate Gen.Reward.calc_GreenAdminDatabaseUnreachablePenalty (greenDbEnv s it n st m loc)).map
        (fun o => (o.value, o.reward, o.rewardInfo)) =
      .ok (calcGreenDb it n st m, PyVal.num (calcGreenDb it n st m), greenDbRewardInfo it n) := by
  have hreq : it.request.pyEq (PyVal.list [PyVal.str "network", PyVal.str "node", PyVal.str n, PyVal.str "application",
      PyVal.str "database-client", PyVal.str "execute"]) = it.requestIs (dbClientRequest n) := by
    simp [Item.requestIs, dbClientRequest, PyVal.strs]
  cases hatt : it.requestIs (dbClientRequest n) with
  | true =>
    by_cases hok : it.status = "success" <;>
      simp [Gen.Reward.calc_GreenAdminDatabaseUnreachablePenalty, greenDbEnv, hreq, hatt, hok, calcGreenDb, greenDbRewardInfo, Item.ok]
  | false =>
    cases st <;>
      simp [Gen.Reward.calc_GreenAdminDatabaseUnreachablePenalty, greenDbEnv, hreq, hatt, calcGreenDb, greenDbRewardInfo]

/-- `SharedReward.calculate` returns what the callback answers for the configured agent name -/
theorem C10_gen_calc_shared (s : SimState) (it : Item) (a : Name) (cur : Name → Val) (r loc : PyVal) :
    (runCalculate Gen.Reward.calc_SharedReward
      { state := s, item := it, reward := r, loc := loc, cb := cur,
        config := [("type", .str "shared-reward"), ("agent_name", .str a)] }).map (·.value) = .ok (cur a) := by
  simp [Gen.Reward.calc_SharedReward]

/-- `ActionPenalty.calculate`: one of the two configured penalties, by the agent's own latest action -/
theorem C10_gen_calc_actionPenalty (s : SimState) (it : Item) (ap dn : Val) (r loc : PyVal) :
    (runCalculate Gen.Reward.calc_ActionPenalty
      { state := s, item := it, reward := r, loc := loc,
        config := [("type", .str "action-penalty"), ("action_penalty", .num ap), ("do_nothing_penalty", .num dn)] }).map (·.value) =
      .ok (calcActionPenalty it ap dn) := by
  by_cases h : it.action = "do-nothing" <;> simp [Gen.Reward.calc_ActionPenalty, calcActionPenalty, h]


end Primaite.Reward
