/-
C14, round 7: the fix timing theorems lifted over the DYNAMIC operations of `Model/HealthDyn.lean` — application install /
uninstall requests, `SoftwareManager.install / uninstall`, folder / file creation, `copy_file`, the database restore, and the
timestep `tickDb` in which a completing database fix restores its backup — BY NAME (`software_manager.software.get(name)`), because an
uninstall of an earlier item shifts the positions of the later ones.

* `C14_dyn_step_named`           — one step: the item called `name` is, afterwards, `swEff` of itself (operations with a base effect
                                   on software) or itself (structural operations that do not uninstall it)
* `C14_dyn_fix_not_early`        — FIXING with `c` left, not hit from outside and not uninstalled: after any such trace with fewer
                                   than `max(1,c)` timesteps reaching the node's items it is FIXING with `c` minus that number
* `C14_dyn_fix_completes_on_time` — and the `max(1,c)`-th such timestep (plain, or with the database restore inside) makes it GOOD
* `C14_dyn_fix_exact`            — both, from an accepted `fix` request on
* `C14_dyn_install_not_early / _request / _exact` — the same for an application installation, from the install REQUEST on, for every
                                   dynamic continuation that does not uninstall it
-/
import PrimaiteModel.Props.C14Dyn
import PrimaiteModel.Props.C14Life
namespace Primaite.Health

/-- `software_manager.software.get(name)`: the installed item of that name -/
def Node.swNamed (n : Node) (name : String) : Option Sw := n.sws.find? (fun x => x.name = name)

/-- does this operation contain a timestep that reaches the node's items? -/
def dEffTick (d : DNode) (op : DOp) : Bool :=
  match op.swBase with
  | some b => effTick d.n b
  | none => false

/-- number of timesteps of a dynamic trace that reach the node's items -/
def dEffTicks (d : DNode) : List DOp → Nat
  | [] => 0
  | op :: ops => (if dEffTick d op then 1 else 0) + dEffTicks (d.apply op) ops

/-- operations that write the health of the item called `name` from outside, re-install it — or UNINSTALL it -/
def dTouchesSw (name : String) : DOp → Bool
  | .base b => touchesSw name b
  | .appUninstallReq nm | .swUninstallApi nm => nm = name
  | _ => false

/-- operations that UNINSTALL the item called `name` -/
def dUninstalls (name : String) : DOp → Bool
  | .appUninstallReq nm | .swUninstallApi nm => nm = name
  | _ => false

theorem uninstalls_of_touches (name : String) (op : DOp) (h : dTouchesSw name op = false) : dUninstalls name op = false := by
  cases op <;> first | rfl | exact h

theorem find_name_map (l : List Sw) (g : Sw → Sw) (hg : ∀ x, (g x).name = x.name) (name : String) :
    (l.map g).find? (fun x => x.name = name) = (l.find? (fun x => x.name = name)).map g := by
  induction l with
  | nil => rfl
  | cons a l ih =>
    simp only [List.map_cons, List.find?_cons, hg]
    cases decide (a.name = name) <;> simp [ih]

theorem find_append_some {α : Type} (l : List α) (y : α) (p : α → Bool) (x : α) (h : l.find? p = some x) :
    (l ++ [y]).find? p = some x := by
  rw [List.find?_append, h]; rfl

theorem find_eraseP_ne (l : List Sw) (name nm : String) (hne : nm ≠ name) :
    (l.eraseP (fun x => x.name = nm)).find? (fun x => x.name = name) = l.find? (fun x => x.name = name) := by
  induction l with
  | nil => rfl
  | cons a l ih =>
    by_cases ha : a.name = nm
    · simp [ha, hne]
    · simp [List.find?_cons, ha, ih]

theorem swNamed_name {n : Node} {name : String} {x : Sw} (h : n.swNamed name = some x) : x.name = name := by
  have := List.find?_some h
  simpa using this

theorem touches_of_swBase (name : String) (op : DOp) (b : Op) (hb : op.swBase = some b) (hq : dTouchesSw name op = false) :
    touchesSw name b = false := by
  cases op <;> simp only [DOp.swBase, reduceCtorEq, Option.some.injEq] at hb
  case base b' => subst hb; exact hq
  case tickDb pre dl => subst hb; rfl

/-- **C14 dyn (one step, by name).** What the item called `name` is after ANY dynamic operation that does not uninstall it: the
base effect `swEff` of itself for operations that act on software (base operations; `tickDb` = a timestep), itself for the
structural ones (an install appends, an uninstall of ANOTHER name shifts it, file-system operations do not reach software). -/
theorem C14_dyn_step_named (d : DNode) (op : DOp) (name : String) (x : Sw) (hx : d.n.swNamed name = some x)
    (hq : dUninstalls name op = false) :
    (d.apply op).n.swNamed name = some (match op.swBase with | some b => swEff d.n b x | none => x) := by
  cases hb : op.swBase with
  | some b =>
    simp only []
    unfold Node.swNamed at hx ⊢
    rw [dapply_swBase_sws d op b hb, apply_sws, find_name_map _ _ (fun y => (swEff_name d.n b y).1), hx]
    rfl
  | none =>
    simp only []
    unfold Node.swNamed at hx ⊢
    cases op <;> simp only [DOp.swBase, reduceCtorEq] at hb
    case appInstallReq s known =>
      simp only [DNode.apply]
      split
      · exact find_append_some _ _ _ _ hx
      · exact hx
    case appUninstallReq nm =>
      have hne : nm ≠ name := by simpa [dUninstalls] using hq
      simp only [DNode.apply]
      split
      · simp only [Node.uninstall]; rw [find_eraseP_ne _ _ _ hne]; exact hx
      · exact hx
    case swInstallApi s =>
      simp only [DNode.apply]
      exact find_append_some _ _ _ _ hx
    case swUninstallApi nm =>
      have hne : nm ≠ name := by simpa [dUninstalls] using hq
      simp only [DNode.apply, Node.uninstall]
      rw [find_eraseP_ne _ _ _ hne]; exact hx
    all_goals (rw [dapply_fs_sws d _ rfl]; exact hx)

theorem dEffTick_of_swBase (d : DNode) (op : DOp) (b : Op) (hb : op.swBase = some b) : dEffTick d op = effTick d.n b := by
  unfold dEffTick; rw [hb]

theorem dEffTick_of_none (d : DNode) (op : DOp) (hb : op.swBase = none) : dEffTick d op = false := by
  unfold dEffTick; rw [hb]

/-- **C14 dyn fix timing, part 1 (not early), every dynamic trace, by name.** Let the item called `name` be FIXING with `c` left and
let the trace — base operations, installs, uninstalls of OTHER items, file-system creation and copies, database restores,
timesteps with a database restore inside — neither hit it from outside nor uninstall it. As long as fewer than `max(1,c)` timesteps
have reached the node's items, the item of that name is still FIXING and its countdown is `c` minus that number. -/
theorem C14_dyn_fix_not_early (ops : List DOp) : ∀ (d : DNode) (name : String) (x : Sw) (c : Int),
    d.n.swNamed name = some x → x.Fixing c → (∀ op ∈ ops, dTouchesSw name op = false) →
    (dEffTicks d ops : Int) < max 1 c →
    ∃ x', (d.run ops).n.swNamed name = some x' ∧ x'.Fixing (c - dEffTicks d ops) := by
  induction ops with
  | nil => intro d name x c hx hf _ _; exact ⟨x, hx, by simpa [dEffTicks] using hf⟩
  | cons op ops ih =>
    intro d name x c hx hf hq hk
    have hname := swNamed_name hx
    have hq0 := hq op List.mem_cons_self
    have hq' : ∀ o ∈ ops, dTouchesSw name o = false := fun o ho => hq o (List.mem_cons_of_mem _ ho)
    have hx1 := C14_dyn_step_named d op name x hx (uninstalls_of_touches name op hq0)
    simp only [dEffTicks] at hk ⊢
    simp only [DNode.run]
    cases hb : op.swBase with
    | none =>
      rw [hb] at hx1
      simp only [dEffTick_of_none d op hb, Bool.false_eq_true, if_false, Nat.zero_add] at hk ⊢
      exact ih (d.apply op) name x c hx1 hf hq' hk
    | some b =>
      rw [hb] at hx1
      simp only [] at hx1
      have hstep := swEff_fixing d.n b x c hf (by rw [hname]; exact touches_of_swBase name op b hb hq0)
      rw [dEffTick_of_swBase d op b hb] at hk ⊢
      by_cases he : effTick d.n b = true
      · simp only [he, if_true] at hk ⊢
        have hc1 : 1 < c := by omega
        have hf1 := (hstep.1 he).2 hc1
        obtain ⟨x', h1, h3⟩ := ih (d.apply op) name _ (c - 1) hx1 hf1 hq' (by omega)
        refine ⟨x', h1, ?_⟩
        have : c - 1 - (dEffTicks (d.apply op) ops : Int) = c - ((1 + dEffTicks (d.apply op) ops : Nat) : Int) := by omega
        rw [← this]; exact h3
      · have he' : effTick d.n b = false := by simpa using he
        simp only [he', Bool.false_eq_true, if_false, Nat.zero_add] at hk ⊢
        exact ih (d.apply op) name _ c hx1 (hstep.2 he') hq' hk

/-- **C14 dyn fix timing, part 2 (on time).** … and the `max(1,c)`-th timestep that reaches the node's items — a plain one or one
in which a completing database fix restores its backup (`tk.swBase = some .tick`) — makes the item of that name GOOD. -/
theorem C14_dyn_fix_completes_on_time (ops : List DOp) (d : DNode) (name : String) (x : Sw) (c : Int)
    (hx : d.n.swNamed name = some x) (hf : x.Fixing c) (hq : ∀ op ∈ ops, dTouchesSw name op = false)
    (hk : (dEffTicks d ops : Int) + 1 = max 1 c) (tk : DOp) (htk : tk.swBase = some .tick)
    (ht : effTick (d.run ops).n .tick = true) :
    ∃ x', ((d.run ops).apply tk).n.swNamed name = some x' ∧ x'.actual = .good := by
  obtain ⟨x1, h1, h3⟩ := C14_dyn_fix_not_early ops d name x c hx hf hq (by omega)
  have hqt : dTouchesSw name tk = false := by
    cases tk <;> simp only [DOp.swBase, reduceCtorEq, Option.some.injEq] at htk
    case base b => subst htk; rfl
    case tickDb pre dl => rfl
  have h2 := C14_dyn_step_named (d.run ops) tk name x1 h1 (uninstalls_of_touches name tk hqt)
  rw [htk] at h2
  simp only [] at h2
  refine ⟨_, h2, ?_⟩
  have hn1 := swNamed_name h1
  exact ((swEff_fixing (d.run ops).n .tick x1 _ h3 rfl).1 ht).1 (by omega)

/-- **C14 dyn fix timing (exact), by name.** After an accepted `fix` request on the item called `name` (RUNNING, GOOD or
COMPROMISED, node ON), for every dynamic continuation that neither hits nor uninstalls it: FIXING while fewer than
`max(1, fixing_duration)` timesteps have reached it, GOOD at the `max(1, fixing_duration)`-th. -/
theorem C14_dyn_fix_exact (d : DNode) (name : String) (x : Sw) (ops : List DOp) (tk : DOp)
    (hx : d.n.swNamed name = some x) (hon : d.n.power = .on) (hr : x.op = .running) (hc : x.canFix = true)
    (hq : ∀ op ∈ ops, dTouchesSw name op = false) (htk : tk.swBase = some .tick) :
    let d1 := d.apply (.base (.sw x.isApp name .fix))
    ((dEffTicks d1 ops : Int) < max 1 x.fixDur → ∃ x', (d1.run ops).n.swNamed name = some x' ∧ x'.actual = .fixing) ∧
    ((dEffTicks d1 ops : Int) + 1 = max 1 x.fixDur → effTick (d1.run ops).n .tick = true →
      ∃ x', ((d1.run ops).apply tk).n.swNamed name = some x' ∧ x'.actual = .good) := by
  intro d1
  have hname := swNamed_name hx
  have h1 : d1.n.swNamed name = some (swEff d.n (.sw x.isApp name .fix) x) :=
    C14_dyn_step_named d (.base (.sw x.isApp name .fix)) name x hx rfl
  have hf : (swEff d.n (.sw x.isApp name .fix) x).Fixing x.fixDur := by
    simp only [swEff, hon, if_true, Sw.request, Sw.accepts, hname, hr, SwReq.known, SwReq.allowed, SwReq.guard, Sw.handle,
      Sw.fix, hc, decide_true, Bool.and_self]
    exact ⟨rfl, rfl, by simp⟩
  refine ⟨fun hlt => ?_, fun heq ht => ?_⟩
  · obtain ⟨x', g1, g3⟩ := C14_dyn_fix_not_early ops d1 name _ x.fixDur h1 hf hq hlt
    exact ⟨x', g1, g3.1⟩
  · exact C14_dyn_fix_completes_on_time ops d1 name _ x.fixDur h1 hf hq heq tk htk ht

/-! ## installation timing, by name, over every dynamic trace -/

/-- **C14 dyn install timing, part 1 (not early).** An application called `name` that is INSTALLING with `c` left stays so, with `c`
minus the number of timesteps that reached the node's items, as long as that number is below `max(1,c)` — for EVERY dynamic trace
that does not uninstall it (attacks, external writes, lifecycle requests, power loss, other installs and uninstalls, file-system
operations, database restores are all allowed). -/
theorem C14_dyn_install_not_early (ops : List DOp) : ∀ (d : DNode) (name : String) (x : Sw) (c : Int),
    d.n.swNamed name = some x → x.Installing c → (∀ op ∈ ops, dUninstalls name op = false) →
    (dEffTicks d ops : Int) < max 1 c →
    ∃ x', (d.run ops).n.swNamed name = some x' ∧ x'.Installing (c - dEffTicks d ops) := by
  induction ops with
  | nil => intro d name x c hx hi _ _; exact ⟨x, hx, by simpa [dEffTicks] using hi⟩
  | cons op ops ih =>
    intro d name x c hx hi hq hk
    have hq' : ∀ o ∈ ops, dUninstalls name o = false := fun o ho => hq o (List.mem_cons_of_mem _ ho)
    have hx1 := C14_dyn_step_named d op name x hx (hq op List.mem_cons_self)
    simp only [dEffTicks] at hk ⊢
    simp only [DNode.run]
    cases hb : op.swBase with
    | none =>
      rw [hb] at hx1
      simp only [dEffTick_of_none d op hb, Bool.false_eq_true, if_false, Nat.zero_add] at hk ⊢
      exact ih (d.apply op) name x c hx1 hi hq' hk
    | some b =>
      rw [hb] at hx1
      simp only [] at hx1
      have hstep := swEff_installing d.n b x c hi
      rw [dEffTick_of_swBase d op b hb] at hk ⊢
      by_cases he : effTick d.n b = true
      · simp only [he, if_true] at hk ⊢
        have hc1 : 1 < c := by omega
        obtain ⟨x', h1, h3⟩ := ih (d.apply op) name _ (c - 1) hx1 ((hstep.1 he).2 hc1) hq' (by omega)
        refine ⟨x', h1, ?_⟩
        have : c - 1 - (dEffTicks (d.apply op) ops : Int) = c - ((1 + dEffTicks (d.apply op) ops : Nat) : Int) := by omega
        rw [← this]; exact h3
      · have he' : effTick d.n b = false := by simpa using he
        simp only [he', Bool.false_eq_true, if_false, Nat.zero_add] at hk ⊢
        exact ih (d.apply op) name _ c hx1 (hstep.2 he') hq' hk

/-- the install REQUEST for an application that is known and not yet installed, on a powered-on node, leaves an item of that name
that is INSTALLING with the configured `install_duration` on its countdown -/
theorem C14_dyn_install_request (d : DNode) (s : SwSpec) (hon : d.n.power = .on) (hnew : d.n.hasSw s.name = false) :
    ∃ x, (d.apply (.appInstallReq s true)).n.swNamed s.name = some x ∧ x.Installing s.auxDur := by
  refine ⟨{ s with isApp := true }.freshReq, ?_, ?_⟩
  · have hnone : d.n.sws.find? (fun x => x.name = s.name) = none := by
      rw [List.find?_eq_none]
      intro y hy
      unfold Node.hasSw at hnew
      rw [List.any_eq_false] at hnew
      exact hnew y hy
    simp only [DNode.apply, hon, hnew, and_self, if_true, Node.swNamed]
    rw [List.find?_append, hnone]
    simp [SwSpec.freshReq, SwSpec.freshApi, SwSpec.construct, Sw.install]
  · simp [Sw.Installing, SwSpec.freshReq, SwSpec.freshApi, SwSpec.construct, Sw.install]

/-- **C14 dyn install timing (exact), from the request on.** After an accepted application install request, for EVERY dynamic
continuation that does not uninstall the application: it is INSTALLING while fewer than `max(1, install_duration)` timesteps have
reached the node's items, and the `max(1, install_duration)`-th such timestep (plain, or with a database restore inside) makes it
RUNNING and GOOD. -/
theorem C14_dyn_install_exact (d : DNode) (s : SwSpec) (ops : List DOp) (tk : DOp) (hon : d.n.power = .on)
    (hnew : d.n.hasSw s.name = false) (hq : ∀ op ∈ ops, dUninstalls s.name op = false) (htk : tk.swBase = some .tick) :
    let d1 := d.apply (.appInstallReq s true)
    ((dEffTicks d1 ops : Int) < max 1 s.auxDur → ∃ x', (d1.run ops).n.swNamed s.name = some x' ∧ x'.op = .installing) ∧
    ((dEffTicks d1 ops : Int) + 1 = max 1 s.auxDur → effTick (d1.run ops).n .tick = true →
      ∃ x', ((d1.run ops).apply tk).n.swNamed s.name = some x' ∧ x'.op = .running ∧ x'.actual = .good) := by
  intro d1
  obtain ⟨x, hx, hi⟩ := C14_dyn_install_request d s hon hnew
  refine ⟨fun hlt => ?_, fun heq ht => ?_⟩
  · obtain ⟨x', g1, g3⟩ := C14_dyn_install_not_early ops d1 s.name x s.auxDur hx hi hq hlt
    exact ⟨x', g1, g3.2.1⟩
  · obtain ⟨x1, g1, g3⟩ := C14_dyn_install_not_early ops d1 s.name x s.auxDur hx hi hq (by omega)
    have hqt : dUninstalls s.name tk = false := by
      cases tk <;> simp only [DOp.swBase, reduceCtorEq, Option.some.injEq] at htk <;> rfl
    have h2 := C14_dyn_step_named (d1.run ops) tk s.name x1 g1 hqt
    rw [htk] at h2
    simp only [] at h2
    exact ⟨_, h2, ((swEff_installing (d1.run ops).n .tick x1 _ g3).1 ht).1 (by omega)⟩

/-! non-vacuity: the item being fixed is SECOND in the list; the first one is uninstalled meanwhile (positions shift), another is
installed, a folder is created; the fix (duration 2) is over at the second timestep -/
example :
    let a : Sw := { name := "a", isApp := false, op := .running, actual := .good, visible := .unused, fixDur := 1, fixCd := none,
                    auxDur := 0, auxCd := none }
    let b : Sw := { a with name := "b", actual := .compromised, fixDur := 2 }
    let d : DNode := { n := { power := .on, startDur := 0, startCd := 0, shutDur := 0, shutCd := 0, resetting := false, scanDur := 3,
                              scanCd := 0, sws := [a, b], folders := [] }, defScan := none, defRestore := none }
    let d1 := d.apply (.base (.sw false "b" .fix))
    let ops : List DOp := [.swUninstallApi "a", .base .tick, .fsCreateFolder "x",
                           .swInstallApi { name := "c", isApp := false, fixDur := 1, auxDur := 0, h0 := .good }]
    (dEffTicks d1 ops = 1) ∧ ((d1.run ops).n.swNamed "b").map (·.actual) = some .fixing ∧
      (((d1.run ops).apply (.tickDb false none)).n.swNamed "b").map (·.actual) = some .good := by decide

/-! non-vacuity (install): the request on a node with one other item; that item is uninstalled meanwhile; install_duration 2 -/
example :
    let a : Sw := { name := "a", isApp := false, op := .running, actual := .good, visible := .unused, fixDur := 1, fixCd := none,
                    auxDur := 0, auxCd := none }
    let d : DNode := { n := { power := .on, startDur := 0, startCd := 0, shutDur := 0, shutCd := 0, resetting := false, scanDur := 3,
                              scanCd := 0, sws := [a], folders := [] }, defScan := none, defRestore := none }
    let s : SwSpec := { name := "web-browser", isApp := true, fixDur := 2, auxDur := 2, h0 := .good }
    let d1 := d.apply (.appInstallReq s true)
    let ops : List DOp := [.swUninstallApi "a", .base .tick, .base (.swSet "web-browser" .compromised)]
    d.n.hasSw s.name = false ∧ dEffTicks d1 ops = 1 ∧ ((d1.run ops).n.swNamed "web-browser").map (·.op) = some .installing ∧
      (((d1.run ops).apply (.base .tick)).n.swNamed "web-browser").map (fun x => (x.op, x.actual)) = some (.running, .good) := by decide

end Primaite.Health
