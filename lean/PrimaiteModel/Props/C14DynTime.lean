/-
C14, round 7: the fix timing theorems lifted over the DYNAMIC operations of `Model/HealthDyn.lean` — application install /
uninstall requests, `SoftwareManager.install / uninstall`, folder / file creation, `copy_file`, the database restore, and the
timestep `tickDb` in which a completing database fix restores its backup — BY NAME (`software_manager.software.get(name)`), because an
uninstall of an earlier item shifts the positions of the later ones.

* `C14_dyn_step_named`           — one step: the item called `name` is, afterwards, `swEff` of itself (operations with a base effect
                                   on software) or itself (structural operations that do not uninstall it)
* `C14_dyn_fix_not_early`        — FIXING with `c` left, not hit from outside and not uninstalled: after any such trace with fewer
                                   than `max(1,c)` timesteps reaching the node's items it is FIXING with `c` minus that number
* `C14_dyn_fix_completes_on_time` — and the `max(1,c)`-th such timestep (plain, or with the database restore inside) makes it GOOD
* `C14_dyn_fix_exact`            — both, from an accepted `fix` request on
* `C14_dyn_install_not_early / _request / _exact` — the same for an application installation, from the install REQUEST on, for every
                                   dynamic continuation that does not uninstall it
* `C14_dyn_step_scanCd`, `C14_dyn_node_scan_not_early / _completes_on_time / _exact` — the node scan countdown (a node field) over
                                   every dynamic trace without a new `os scan` request
* `C14_dyn_struct_pos`, `dyn_folder_cd_step` — folders keep their POSITION, name, `deleted` flag and countdowns under every structural
                                   operation; one dynamic step moves a running folder countdown like the base step
* `C14_dyn_folder_scan_not_early / _completes_on_time / _exact`, `C14_dyn_folder_restore_not_early / _completes_on_time / _exact`
                                 — folder scan / restore timing BY POSITION over every dynamic trace
-/
import PrimaiteModel.Props.C14Dyn
import PrimaiteModel.Props.C14Life
namespace Primaite.Health

/-- `software_manager.software.get(name)`: the installed item of that name -/
def Node.swNamed (n : Node) (name : String) : Option Sw := n.sws.find? (fun x => x.name = name)

/-- does this operation contain a timestep that reaches the node's items? -/
def dEffTick (d : DNode) (op : DOp) : Bool :=
  match op.swBase with
  | some b => effTick d.n b
  | none => false

/-- number of timesteps of a dynamic trace that reach the node's items -/
def dEffTicks (d : DNode) : List DOp → Nat
  | [] => 0
  | op :: ops => (if dEffTick d op then 1 else 0) + dEffTicks (d.apply op) ops

/-- operations that write the health of the item called `name` from outside, re-install it — or UNINSTALL it -/
def dTouchesSw (name : String) : DOp → Bool
  | .base b => touchesSw name b
  | .appUninstallReq nm | .swUninstallApi nm => nm = name
  | _ => false

/-- operations that UNINSTALL the item called `name` -/
def dUninstalls (name : String) : DOp → Bool
  | .appUninstallReq nm | .swUninstallApi nm => nm = name
  | _ => false

theorem uninstalls_of_touches (name : String) (op : DOp) (h : dTouchesSw name op = false) : dUninstalls name op = false := by
  cases op <;> first | rfl | exact h

theorem find_name_map (l : List Sw) (g : Sw → Sw) (hg : ∀ x, (g x).name = x.name) (name : String) :
    (l.map g).find? (fun x => x.name = name) = (l.find? (fun x => x.name = name)).map g := by
  induction l with
  | nil => rfl
  | cons a l ih =>
    simp only [List.map_cons, List.find?_cons, hg]
    cases decide (a.name = name) <;> simp [ih]

theorem find_append_some {α : Type} (l : List α) (y : α) (p : α → Bool) (x : α) (h : l.find? p = some x) :
    (l ++ [y]).find? p = some x := by
  rw [List.find?_append, h]; rfl

theorem find_eraseP_ne (l : List Sw) (name nm : String) (hne : nm ≠ name) :
    (l.eraseP (fun x => x.name = nm)).find? (fun x => x.name = name) = l.find? (fun x => x.name = name) := by
  induction l with
  | nil => rfl
  | cons a l ih =>
    by_cases ha : a.name = nm
    · simp [ha, hne]
    · simp [List.find?_cons, ha, ih]

theorem swNamed_name {n : Node} {name : String} {x : Sw} (h : n.swNamed name = some x) : x.name = name := by
  have := List.find?_some h
  simpa using this

theorem touches_of_swBase (name : String) (op : DOp) (b : Op) (hb : op.swBase = some b) (hq : dTouchesSw name op = false) :
    touchesSw name b = false := by
  cases op <;> simp only [DOp.swBase, reduceCtorEq, Option.some.injEq] at hb
  case base b' => subst hb; exact hq
  case tickDb pre dl => subst hb; rfl

/-- **C14 dyn (one step, by name).** What the item called `name` is after ANY dynamic operation that does not uninstall it: the
base effect `swEff` of itself for operations that act on software (base operations; `tickDb` = a timestep), itself for the
structural ones (an install appends, an uninstall of ANOTHER name shifts it, file-system operations do not reach software). -/
theorem C14_dyn_step_named (d : DNode) (op : DOp) (name : String) (x : Sw) (hx : d.n.swNamed name = some x)
    (hq : dUninstalls name op = false) :
    (d.apply op).n.swNamed name = some (match op.swBase with | some b => swEff d.n b x | none => x) := by
  cases hb : op.swBase with
  | some b =>
    simp only []
    unfold Node.swNamed at hx ⊢
    rw [dapply_swBase_sws d op b hb, apply_sws, find_name_map _ _ (fun y => (swEff_name d.n b y).1), hx]
    rfl
  | none =>
    simp only []
    unfold Node.swNamed at hx ⊢
    cases op <;> simp only [DOp.swBase, reduceCtorEq] at hb
    case appInstallReq s known =>
      simp only [DNode.apply]
      split
      · exact find_append_some _ _ _ _ hx
      · exact hx
    case appUninstallReq nm =>
      have hne : nm ≠ name := by simpa [dUninstalls] using hq
      simp only [DNode.apply]
      split
      · simp only [Node.uninstall]; rw [find_eraseP_ne _ _ _ hne]; exact hx
      · exact hx
    case swInstallApi s =>
      simp only [DNode.apply]
      exact find_append_some _ _ _ _ hx
    case swUninstallApi nm =>
      have hne : nm ≠ name := by simpa [dUninstalls] using hq
      simp only [DNode.apply, Node.uninstall]
      rw [find_eraseP_ne _ _ _ hne]; exact hx
    all_goals (rw [dapply_fs_sws d _ rfl]; exact hx)

theorem dEffTick_of_swBase (d : DNode) (op : DOp) (b : Op) (hb : op.swBase = some b) : dEffTick d op = effTick d.n b := by
  unfold dEffTick; rw [hb]

theorem dEffTick_of_none (d : DNode) (op : DOp) (hb : op.swBase = none) : dEffTick d op = false := by
  unfold dEffTick; rw [hb]

/-- **C14 dyn fix timing, part 1 (not early), every dynamic trace, by name.** Let the item called `name` be FIXING with `c` left and
let the trace — base operations, installs, uninstalls of OTHER items, file-system creation and copies, database restores,
timesteps with a database restore inside — neither hit it from outside nor uninstall it. As long as fewer than `max(1,c)` timesteps
have reached the node's items, the item of that name is still FIXING and its countdown is `c` minus that number. -/
theorem C14_dyn_fix_not_early (ops : List DOp) : ∀ (d : DNode) (name : String) (x : Sw) (c : Int),
    d.n.swNamed name = some x → x.Fixing c → (∀ op ∈ ops, dTouchesSw name op = false) →
    (dEffTicks d ops : Int) < max 1 c →
    ∃ x', (d.run ops).n.swNamed name = some x' ∧ x'.Fixing (c - dEffTicks d ops) := by
  induction ops with
  | nil => intro d name x c hx hf _ _; exact ⟨x, hx, by simpa [dEffTicks] using hf⟩
  | cons op ops ih =>
    intro d name x c hx hf hq hk
    have hname := swNamed_name hx
    have hq0 := hq op List.mem_cons_self
    have hq' : ∀ o ∈ ops, dTouchesSw name o = false := fun o ho => hq o (List.mem_cons_of_mem _ ho)
    have hx1 := C14_dyn_step_named d op name x hx (uninstalls_of_touches name op hq0)
    simp only [dEffTicks] at hk ⊢
    simp only [DNode.run]
    cases hb : op.swBase with
    | none =>
      rw [hb] at hx1
      simp only [dEffTick_of_none d op hb, Bool.false_eq_true, if_false, Nat.zero_add] at hk ⊢
      exact ih (d.apply op) name x c hx1 hf hq' hk
    | some b =>
      rw [hb] at hx1
      simp only [] at hx1
      have hstep := swEff_fixing d.n b x c hf (by rw [hname]; exact touches_of_swBase name op b hb hq0)
      rw [dEffTick_of_swBase d op b hb] at hk ⊢
      by_cases he : effTick d.n b = true
      · simp only [he, if_true] at hk ⊢
        have hc1 : 1 < c := by omega
        have hf1 := (hstep.1 he).2 hc1
        obtain ⟨x', h1, h3⟩ := ih (d.apply op) name _ (c - 1) hx1 hf1 hq' (by omega)
        refine ⟨x', h1, ?_⟩
        have : c - 1 - (dEffTicks (d.apply op) ops : Int) = c - ((1 + dEffTicks (d.apply op) ops : Nat) : Int) := by omega
        rw [← this]; exact h3
      · have he' : effTick d.n b = false := by simpa using he
        simp only [he', Bool.false_eq_true, if_false, Nat.zero_add] at hk ⊢
        exact ih (d.apply op) name _ c hx1 (hstep.2 he') hq' hk

/-- **C14 dyn fix timing, part 2 (on time).** … and the `max(1,c)`-th timestep that reaches the node's items — a plain one or one
in which a completing database fix restores its backup (`tk.swBase = some .tick`) — makes the item of that name GOOD. -/
theorem C14_dyn_fix_completes_on_time (ops : List DOp) (d : DNode) (name : String) (x : Sw) (c : Int)
    (hx : d.n.swNamed name = some x) (hf : x.Fixing c) (hq : ∀ op ∈ ops, dTouchesSw name op = false)
    (hk : (dEffTicks d ops : Int) + 1 = max 1 c) (tk : DOp) (htk : tk.swBase = some .tick)
    (ht : effTick (d.run ops).n .tick = true) :
    ∃ x', ((d.run ops).apply tk).n.swNamed name = some x' ∧ x'.actual = .good := by
  obtain ⟨x1, h1, h3⟩ := C14_dyn_fix_not_early ops d name x c hx hf hq (by omega)
  have hqt : dTouchesSw name tk = false := by
    cases tk <;> simp only [DOp.swBase, reduceCtorEq, Option.some.injEq] at htk
    case base b => subst htk; rfl
    case tickDb pre dl => rfl
  have h2 := C14_dyn_step_named (d.run ops) tk name x1 h1 (uninstalls_of_touches name tk hqt)
  rw [htk] at h2
  simp only [] at h2
  refine ⟨_, h2, ?_⟩
  have hn1 := swNamed_name h1
  exact ((swEff_fixing (d.run ops).n .tick x1 _ h3 rfl).1 ht).1 (by omega)

/-- **C14 dyn fix timing (exact), by name.** After an accepted `fix` request on the item called `name` (RUNNING, GOOD or
COMPROMISED, node ON), for every dynamic continuation that neither hits nor uninstalls it: FIXING while fewer than
`max(1, fixing_duration)` timesteps have reached it, GOOD at the `max(1, fixing_duration)`-th. -/
theorem C14_dyn_fix_exact (d : DNode) (name : String) (x : Sw) (ops : List DOp) (tk : DOp)
    (hx : d.n.swNamed name = some x) (hon : d.n.power = .on) (hr : x.op = .running) (hc : x.canFix = true)
    (hq : ∀ op ∈ ops, dTouchesSw name op = false) (htk : tk.swBase = some .tick) :
    let d1 := d.apply (.base (.sw x.isApp name .fix))
    ((dEffTicks d1 ops : Int) < max 1 x.fixDur → ∃ x', (d1.run ops).n.swNamed name = some x' ∧ x'.actual = .fixing) ∧
    ((dEffTicks d1 ops : Int) + 1 = max 1 x.fixDur → effTick (d1.run ops).n .tick = true →
      ∃ x', ((d1.run ops).apply tk).n.swNamed name = some x' ∧ x'.actual = .good) := by
  intro d1
  have hname := swNamed_name hx
  have h1 : d1.n.swNamed name = some (swEff d.n (.sw x.isApp name .fix) x) :=
    C14_dyn_step_named d (.base (.sw x.isApp name .fix)) name x hx rfl
  have hf : (swEff d.n (.sw x.isApp name .fix) x).Fixing x.fixDur := by
    simp only [swEff, hon, if_true, Sw.request, Sw.accepts, hname, hr, SwReq.known, SwReq.allowed, SwReq.guard, Sw.handle,
      Sw.fix, hc, decide_true, Bool.and_self]
    exact ⟨rfl, rfl, by simp⟩
  refine ⟨fun hlt => ?_, fun heq ht => ?_⟩
  · obtain ⟨x', g1, g3⟩ := C14_dyn_fix_not_early ops d1 name _ x.fixDur h1 hf hq hlt
    exact ⟨x', g1, g3.1⟩
  · exact C14_dyn_fix_completes_on_time ops d1 name _ x.fixDur h1 hf hq heq tk htk ht

/-! ## installation timing, by name, over every dynamic trace -/

/-- **C14 dyn install timing, part 1 (not early).** An application called `name` that is INSTALLING with `c` left stays so, with `c`
minus the number of timesteps that reached the node's items, as long as that number is below `max(1,c)` — for EVERY dynamic trace
that does not uninstall it (attacks, external writes, lifecycle requests, power loss, other installs and uninstalls, file-system
operations, database restores are all allowed). -/
theorem C14_dyn_install_not_early (ops : List DOp) : ∀ (d : DNode) (name : String) (x : Sw) (c : Int),
    d.n.swNamed name = some x → x.Installing c → (∀ op ∈ ops, dUninstalls name op = false) →
    (dEffTicks d ops : Int) < max 1 c →
    ∃ x', (d.run ops).n.swNamed name = some x' ∧ x'.Installing (c - dEffTicks d ops) := by
  induction ops with
  | nil => intro d name x c hx hi _ _; exact ⟨x, hx, by simpa [dEffTicks] using hi⟩
  | cons op ops ih =>
    intro d name x c hx hi hq hk
    have hq' : ∀ o ∈ ops, dUninstalls name o = false := fun o ho => hq o (List.mem_cons_of_mem _ ho)
    have hx1 := C14_dyn_step_named d op name x hx (hq op List.mem_cons_self)
    simp only [dEffTicks] at hk ⊢
    simp only [DNode.run]
    cases hb : op.swBase with
    | none =>
      rw [hb] at hx1
      simp only [dEffTick_of_none d op hb, Bool.false_eq_true, if_false, Nat.zero_add] at hk ⊢
      exact ih (d.apply op) name x c hx1 hi hq' hk
    | some b =>
      rw [hb] at hx1
      simp only [] at hx1
      have hstep := swEff_installing d.n b x c hi
      rw [dEffTick_of_swBase d op b hb] at hk ⊢
      by_cases he : effTick d.n b = true
      · simp only [he, if_true] at hk ⊢
        have hc1 : 1 < c := by omega
        obtain ⟨x', h1, h3⟩ := ih (d.apply op) name _ (c - 1) hx1 ((hstep.1 he).2 hc1) hq' (by omega)
        refine ⟨x', h1, ?_⟩
        have : c - 1 - (dEffTicks (d.apply op) ops : Int) = c - ((1 + dEffTicks (d.apply op) ops : Nat) : Int) := by omega
        rw [← this]; exact h3
      · have he' : effTick d.n b = false := by simpa using he
        simp only [he', Bool.false_eq_true, if_false, Nat.zero_add] at hk ⊢
        exact ih (d.apply op) name _ c hx1 (hstep.2 he') hq' hk

/-- the install REQUEST for an application that is known and not yet installed, on a powered-on node, leaves an item of that name
that is INSTALLING with the configured `install_duration` on its countdown -/
theorem C14_dyn_install_request (d : DNode) (s : SwSpec) (hon : d.n.power = .on) (hnew : d.n.hasSw s.name = false) :
    ∃ x, (d.apply (.appInstallReq s true)).n.swNamed s.name = some x ∧ x.Installing s.auxDur := by
  refine ⟨{ s with isApp := true }.freshReq, ?_, ?_⟩
  · have hnone : d.n.sws.find? (fun x => x.name = s.name) = none := by
      rw [List.find?_eq_none]
      intro y hy
      unfold Node.hasSw at hnew
      rw [List.any_eq_false] at hnew
      exact hnew y hy
    simp only [DNode.apply, hon, hnew, and_self, if_true, Node.swNamed]
    rw [List.find?_append, hnone]
    simp [SwSpec.freshReq, SwSpec.freshApi, SwSpec.construct, Sw.install]
  · simp [Sw.Installing, SwSpec.freshReq, SwSpec.freshApi, SwSpec.construct, Sw.install]

/-- **C14 dyn install timing (exact), from the request on.** After an accepted application install request, for EVERY dynamic
continuation that does not uninstall the application: it is INSTALLING while fewer than `max(1, install_duration)` timesteps have
reached the node's items, and the `max(1, install_duration)`-th such timestep (plain, or with a database restore inside) makes it
RUNNING and GOOD. -/
theorem C14_dyn_install_exact (d : DNode) (s : SwSpec) (ops : List DOp) (tk : DOp) (hon : d.n.power = .on)
    (hnew : d.n.hasSw s.name = false) (hq : ∀ op ∈ ops, dUninstalls s.name op = false) (htk : tk.swBase = some .tick) :
    let d1 := d.apply (.appInstallReq s true)
    ((dEffTicks d1 ops : Int) < max 1 s.auxDur → ∃ x', (d1.run ops).n.swNamed s.name = some x' ∧ x'.op = .installing) ∧
    ((dEffTicks d1 ops : Int) + 1 = max 1 s.auxDur → effTick (d1.run ops).n .tick = true →
      ∃ x', ((d1.run ops).apply tk).n.swNamed s.name = some x' ∧ x'.op = .running ∧ x'.actual = .good) := by
  intro d1
  obtain ⟨x, hx, hi⟩ := C14_dyn_install_request d s hon hnew
  refine ⟨fun hlt => ?_, fun heq ht => ?_⟩
  · obtain ⟨x', g1, g3⟩ := C14_dyn_install_not_early ops d1 s.name x s.auxDur hx hi hq hlt
    exact ⟨x', g1, g3.2.1⟩
  · obtain ⟨x1, g1, g3⟩ := C14_dyn_install_not_early ops d1 s.name x s.auxDur hx hi hq (by omega)
    have hqt : dUninstalls s.name tk = false := by
      cases tk <;> simp only [DOp.swBase, reduceCtorEq, Option.some.injEq] at htk <;> rfl
    have h2 := C14_dyn_step_named (d1.run ops) tk s.name x1 g1 hqt
    rw [htk] at h2
    simp only [] at h2
    exact ⟨_, h2, ((swEff_installing (d1.run ops).n .tick x1 _ g3).1 ht).1 (by omega)⟩

/-! non-vacuity: the item being fixed is SECOND in the list; the first one is uninstalled meanwhile (positions shift), another is
installed, a folder is created; the fix (duration 2) is over at the second timestep -/
example :
    let a : Sw := { name := "a", isApp := false, op := .running, actual := .good, visible := .unused, fixDur := 1, fixCd := none,
                    auxDur := 0, auxCd := none }
    let b : Sw := { a with name := "b", actual := .compromised, fixDur := 2 }
    let d : DNode := { n := { power := .on, startDur := 0, startCd := 0, shutDur := 0, shutCd := 0, resetting := false, scanDur := 3,
                              scanCd := 0, sws := [a, b], folders := [] }, defScan := none, defRestore := none }
    let d1 := d.apply (.base (.sw false "b" .fix))
    let ops : List DOp := [.swUninstallApi "a", .base .tick, .fsCreateFolder "x",
                           .swInstallApi { name := "c", isApp := false, fixDur := 1, auxDur := 0, h0 := .good }]
    (dEffTicks d1 ops = 1) ∧ ((d1.run ops).n.swNamed "b").map (·.actual) = some .fixing ∧
      (((d1.run ops).apply (.tickDb false none)).n.swNamed "b").map (·.actual) = some .good := by decide

/-! non-vacuity (install): the request on a node with one other item; that item is uninstalled meanwhile; install_duration 2 -/
example :
    let a : Sw := { name := "a", isApp := false, op := .running, actual := .good, visible := .unused, fixDur := 1, fixCd := none,
                    auxDur := 0, auxCd := none }
    let d : DNode := { n := { power := .on, startDur := 0, startCd := 0, shutDur := 0, shutCd := 0, resetting := false, scanDur := 3,
                              scanCd := 0, sws := [a], folders := [] }, defScan := none, defRestore := none }
    let s : SwSpec := { name := "web-browser", isApp := true, fixDur := 2, auxDur := 2, h0 := .good }
    let d1 := d.apply (.appInstallReq s true)
    let ops : List DOp := [.swUninstallApi "a", .base .tick, .base (.swSet "web-browser" .compromised)]
    d.n.hasSw s.name = false ∧ dEffTicks d1 ops = 1 ∧ ((d1.run ops).n.swNamed "web-browser").map (·.op) = some .installing ∧
      (((d1.run ops).apply (.base .tick)).n.swNamed "web-browser").map (fun x => (x.op, x.actual)) = some (.running, .good) := by decide

/-! ## node scan timing over every dynamic trace

The node-scan countdown `Node.scanCd` is a field of the node: no structural operation (install, uninstall, folder / file creation,
copy, database restore, external folder write) touches it, and `tickDb` moves it exactly like a plain timestep. -/

theorem createFolder_scanCd (e : DNode) (G : String) : (e.createFolder G).n.scanCd = e.n.scanCd := by
  unfold DNode.createFolder; split <;> rfl

theorem addNewFile_scanCd (e : DNode) (F f : String) : (e.addNewFile F f).n.scanCd = e.n.scanCd := by
  unfold DNode.addNewFile; split
  · split <;> rfl
  · rfl

theorem createFile_scanCd (e : DNode) (F f : String) : (e.createFile F f).n.scanCd = e.n.scanCd := by
  unfold DNode.createFile
  rw [addNewFile_scanCd]
  split
  · rfl
  · exact createFolder_scanCd _ _

theorem copyFile_scanCd (d : DNode) (sF f dF : String) : (d.copyFile sF f dF).n.scanCd = d.n.scanCd := by
  unfold DNode.copyFile
  split
  · rfl
  · simp only []
    split
    · rfl
    · exact createFolder_scanCd _ _

theorem dbReplace_scanCd (d : DNode) (F f sF : String) : (d.dbReplace F f sF).n.scanCd = d.n.scanCd := by
  unfold DNode.dbReplace
  split
  · rfl
  · split
    · split <;> rfl
    · split
      · rfl
      · split
        · rfl
        · exact createFolder_scanCd _ _

theorem dlClear_scanCd (d : DNode) (pre : Bool) : (d.dlClear pre).n.scanCd = d.n.scanCd := by
  unfold DNode.dlClear; split <;> rfl

theorem dlArrive_scanCd (d : DNode) (h : FsH) : (d.dlArrive h).n.scanCd = d.n.scanCd := by
  unfold DNode.dlArrive
  split
  · rfl
  · simp only []
    split
    · rfl
    · exact createFolder_scanCd _ _

theorem dbRestore_scanCd (d : DNode) (pre : Bool) (dl : Option FsH) : (d.dbRestore pre dl).n.scanCd = d.n.scanCd := by
  unfold DNode.dbRestore
  cases dl with
  | none => exact dlClear_scanCd d pre
  | some h => simp only []; rw [dbReplace_scanCd, dlArrive_scanCd, dlClear_scanCd]

theorem tickDb_scanCd (d : DNode) (pre : Bool) (dl : Option FsH) : (d.tickDb pre dl).n.scanCd = d.n.tick.scanCd := by
  simp only [DNode.tickDb, Node.tick]
  split
  · simp only [mapFolders_scanCd, Node.itemPhase, mapSws_scanCd]
    split
    · rw [dbRestore_scanCd]; rfl
    · rfl
  · rfl

/-- **C14 dyn (one step, node scan countdown).** Every dynamic operation moves `node_scan_countdown` like the base operation it
amounts to (`DOp.swBase`: itself for a base operation, `tick` for `tickDb`) — or not at all (every structural operation). -/
theorem C14_dyn_step_scanCd (d : DNode) (op : DOp) :
    (d.apply op).n.scanCd = match op.swBase with | some b => (d.n.apply b).scanCd | none => d.n.scanCd := by
  cases op <;> simp only [DOp.swBase, DNode.apply]
  case appInstallReq s known => split <;> rfl
  case appUninstallReq nm => split <;> rfl
  case swUninstallApi nm => rfl
  case fsCreateFolder F =>
    split
    · exact createFolder_scanCd d F
    · rfl
  case fsCreateFile F f force =>
    split
    · split
      · rfl
      · exact createFile_scanCd d F f
    · rfl
  case fsCopyFile sF f dF => exact copyFile_scanCd d sF f dF
  case dbReplace F f sF => exact dbReplace_scanCd d F f sF
  case folderSet F h => rfl
  case dbRestore pre dl => exact dbRestore_scanCd d pre dl
  case tickDb pre dl => exact tickDb_scanCd d pre dl

/-- a new `os scan` request (the only operation that reloads a running node-scan countdown) -/
def dIsOsScan : DOp → Bool
  | .base .osScan => true
  | _ => false

/-- **C14 dyn node scan timing, part 1 (not early), every dynamic trace.** With `c` on the node-scan countdown and no new
`os scan` request in the trace — installs, uninstalls, folder / file creation, copies, database restores, `tickDb` all allowed —
the countdown is `c` minus the number of timesteps (plain or `tickDb`) that reached the node's items, while that number is below
`c`. -/
theorem C14_dyn_node_scan_not_early (ops : List DOp) : ∀ (d : DNode) (c : Int),
    d.n.scanCd = c → (∀ op ∈ ops, dIsOsScan op = false) → (dEffTicks d ops : Int) < c →
    (d.run ops).n.scanCd = c - dEffTicks d ops := by
  induction ops with
  | nil => intro d c hc _ _; simpa [dEffTicks, DNode.run] using hc
  | cons op ops ih =>
    intro d c hc hq hk
    simp only [dEffTicks] at hk ⊢
    simp only [DNode.run]
    have hq' : ∀ o ∈ ops, dIsOsScan o = false := fun o ho => hq o (List.mem_cons_of_mem _ ho)
    have hop := hq op List.mem_cons_self
    have h0 : (0 : Int) ≤ (dEffTicks (d.apply op) ops : Int) := Int.natCast_nonneg _
    have hstep := C14_dyn_step_scanCd d op
    cases hb : op.swBase with
    | none =>
      rw [hb] at hstep
      simp only [dEffTick_of_none d op hb, Bool.false_eq_true, if_false, Nat.zero_add] at hk ⊢
      exact ih (d.apply op) c (hstep.trans hc) hq' hk
    | some b =>
      rw [hb] at hstep
      simp only [] at hstep
      have hbn : b ≠ .osScan := by
        intro e
        subst e
        cases op <;> simp only [DOp.swBase, reduceCtorEq, Option.some.injEq] at hb
        case base b' => subst hb; simp [dIsOsScan] at hop
      rw [dEffTick_of_swBase d op b hb] at hk ⊢
      have h1 := C14_node_scan_not_early [b] d.n c hc (by intro o ho; simp at ho; subst ho; exact hbn)
      simp only [effTicks, Node.run, Nat.add_zero] at h1
      by_cases he : effTick d.n b = true
      · simp only [he, if_true] at hk ⊢ h1
        rw [ih (d.apply op) (c - 1) (hstep.trans (h1 (by omega))) hq' (by omega)]
        omega
      · have he' : effTick d.n b = false := by simpa using he
        simp only [he', Bool.false_eq_true, if_false, Nat.zero_add] at hk ⊢ h1
        have h1' := h1 (by omega)
        exact ih (d.apply op) c (hstep.trans (by simpa using h1')) hq' hk

/-- **C14 dyn node scan timing, part 2 (on time).** … and at the next timestep that reaches the node's items (`tk`: a plain
timestep or a `tickDb`) the scan fans out: the countdown stands at 1, `Node.scanFires` holds on the state after the power phase, and
the timestep returns the countdown to 0. -/
theorem C14_dyn_node_scan_completes_on_time (ops : List DOp) (d : DNode) (c : Int) (hc : d.n.scanCd = c)
    (hq : ∀ op ∈ ops, dIsOsScan op = false) (hk : (dEffTicks d ops : Int) + 1 = c) (tk : DOp) (htk : tk.swBase = some .tick)
    (ht : effTick (d.run ops).n .tick = true) :
    (d.run ops).n.scanCd = 1 ∧ (d.run ops).n.powerPhase.scanFires = true ∧ ((d.run ops).apply tk).n.scanCd = 0 := by
  have h1 : (d.run ops).n.scanCd = 1 := by rw [C14_dyn_node_scan_not_early ops d c hc hq (by omega)]; omega
  have hb := C14_node_scan_completes_on_time [] (d.run ops).n 1 h1 (by simp) (by simp [effTicks]) ht
  simp only [Node.run] at hb
  refine ⟨h1, hb.2.1, ?_⟩
  have hs := C14_dyn_step_scanCd (d.run ops) tk
  rw [htk] at hs
  exact hs.trans hb.2.2

/-- **C14 dyn node scan timing (exact).** After an accepted `os scan` request on a powered-on node, for EVERY dynamic continuation
without a new `os scan` request (installs, uninstalls, folder / file creation, copies, database restores, timesteps with a database
restore inside are all allowed): while fewer than `max(node_scan_duration, 1)` timesteps have reached the node's items the countdown
is `max(node_scan_duration, 1)` minus that number (no fan-out yet), and the `max(node_scan_duration, 1)`-th such timestep `tk` (plain
or `tickDb`) is the one in which the scan fans out (`Node.scanFires` after its power phase) and the countdown returns to 0. -/
theorem C14_dyn_node_scan_exact (d : DNode) (ops : List DOp) (tk : DOp) (hon : d.n.power = .on)
    (hq : ∀ op ∈ ops, dIsOsScan op = false) (htk : tk.swBase = some .tick) :
    let d1 := d.apply (.base .osScan)
    ((dEffTicks d1 ops : Int) < max d.n.scanDur 1 → (d1.run ops).n.scanCd = max d.n.scanDur 1 - dEffTicks d1 ops) ∧
    ((dEffTicks d1 ops : Int) + 1 = max d.n.scanDur 1 → effTick (d1.run ops).n .tick = true →
      (d1.run ops).n.powerPhase.scanFires = true ∧ ((d1.run ops).apply tk).n.scanCd = 0) := by
  intro d1
  have h : d1.n.scanCd = max d.n.scanDur 1 := C14_node_scan_request d.n hon
  refine ⟨fun hlt => C14_dyn_node_scan_not_early ops d1 _ h hq hlt, fun heq ht => ?_⟩
  have := C14_dyn_node_scan_completes_on_time ops d1 _ h hq heq tk htk ht
  exact ⟨this.2.1, this.2.2⟩

/-! non-vacuity (node scan): node_scan_duration 2; between the two timesteps an application is installed and a folder is created;
the second timestep is a `tickDb` -/
example :
    let a : Sw := { name := "a", isApp := false, op := .running, actual := .good, visible := .unused, fixDur := 1, fixCd := none,
                    auxDur := 0, auxCd := none }
    let d : DNode := { n := { power := .on, startDur := 0, startCd := 0, shutDur := 0, shutCd := 0, resetting := false, scanDur := 2,
                              scanCd := 0, sws := [a], folders := [] }, defScan := none, defRestore := none }
    let d1 := d.apply (.base .osScan)
    let ops : List DOp := [.base .tick, .appInstallReq { name := "c", isApp := true, fixDur := 1, auxDur := 1, h0 := .good } true,
                           .fsCreateFolder "x"]
    (∀ op ∈ ops, dIsOsScan op = false) ∧ dEffTicks d1 ops = 1 ∧ (d1.run ops).n.scanCd = 1 ∧
      (d1.run ops).n.powerPhase.scanFires = true ∧ ((d1.run ops).apply (.tickDb false none)).n.scanCd = 0 := by decide

/-! ## folder scan / folder restore timing over every dynamic trace, BY POSITION

Folders are never removed from `Node.folders` and new ones are APPENDED, so the position `j` of a folder is stable under every
dynamic operation (unlike software, where an uninstall shifts positions): the base statements `folders[j]? = some G` lift as they
are. Every structural operation keeps name, `deleted` flag and both countdowns of every existing folder (`Folder.CdSame`). -/

/-- same name, same `deleted` flag, same scan and restore countdowns -/
def Folder.CdSame (G' G : Folder) : Prop :=
  G'.name = G.name ∧ G'.deleted = G.deleted ∧ G'.scanCd = G.scanCd ∧ G'.restoreCd = G.restoreCd

/-- position stability: every folder of `n` is, at the same position of `n'`, a folder with the same name / flag / countdowns -/
def PosOk (n n' : Node) : Prop :=
  ∀ (j : Nat) (G : Folder), n.folders[j]? = some G → ∃ G', n'.folders[j]? = some G' ∧ G'.CdSame G

theorem PosOk.refl (n : Node) : PosOk n n := fun _ G h => ⟨G, h, rfl, rfl, rfl, rfl⟩

theorem PosOk.of_folders_eq {n n' n'' : Node} (h : PosOk n n') (e : n''.folders = n'.folders) : PosOk n n'' := by
  intro j G hG; rw [e]; exact h j G hG

theorem PosOk.mapFolders {n n' : Node} (h : PosOk n n') (g : Folder → Folder) (hg : ∀ G, (g G).CdSame G) :
    PosOk n (n'.mapFolders g) := by
  intro j G hG
  obtain ⟨G', h1, a', b', c', e'⟩ := h j G hG
  obtain ⟨a, b, c, e⟩ := hg G'
  exact ⟨g G', by rw [mapFolders_folders, List.getElem?_map, h1]; rfl, a.trans a', b.trans b', c.trans c', e.trans e'⟩

theorem PosOk.mapLiveFolder {n n' : Node} (h : PosOk n n') (F : String) (g : Folder → Folder) (hg : ∀ G, (g G).CdSame G) :
    PosOk n (n'.mapLiveFolder F g) := by
  apply h.mapFolders
  intro G
  split
  · exact hg G
  · exact ⟨rfl, rfl, rfl, rfl⟩

theorem PosOk.append {n n' : Node} (h : PosOk n n') (H : Folder) : PosOk n { n' with folders := n'.folders ++ [H] } := by
  intro j G hG
  obtain ⟨G', h1, h2⟩ := h j G hG
  refine ⟨G', ?_, h2⟩
  have hlt : j < n'.folders.length := (List.getElem?_eq_some_iff.mp h1).1
  simp only []
  rw [List.getElem?_append_left hlt]; exact h1

theorem PosOk.addFile {n n' : Node} (h : PosOk n n') (F : String) (x : File) : PosOk n (n'.addFile F x) :=
  h.mapLiveFolder F _ (fun _ => ⟨rfl, rfl, rfl, rfl⟩)

theorem PosOk.deleteFile {n n' : Node} (h : PosOk n n') (F f : String) :
    PosOk n (n'.mapLiveFolder F (fun G => G.delLive f)) :=
  h.mapLiveFolder F _ (fun _ => ⟨rfl, rfl, rfl, rfl⟩)

theorem PosOk.createFolder {n : Node} {d : DNode} (h : PosOk n d.n) (F : String) : PosOk n (d.createFolder F).n := by
  unfold DNode.createFolder
  split
  · exact h.mapLiveFolder F _ (fun _ => ⟨rfl, rfl, rfl, rfl⟩)
  · exact h.append _

theorem PosOk.addNewFile {n : Node} {d : DNode} (h : PosOk n d.n) (F f : String) : PosOk n (d.addNewFile F f).n := by
  unfold DNode.addNewFile
  split
  · split
    · exact h
    · exact h.addFile F _
  · exact h

theorem PosOk.createFile {n : Node} {d : DNode} (h : PosOk n d.n) (F f : String) : PosOk n (d.createFile F f).n := by
  unfold DNode.createFile
  apply PosOk.addNewFile
  split
  · exact h
  · exact h.createFolder F

theorem PosOk.copyFile {n : Node} {d : DNode} (h : PosOk n d.n) (sF f dF : String) : PosOk n (d.copyFile sF f dF).n := by
  unfold DNode.copyFile
  split
  · exact h
  · simp only []
    split
    · exact (h.deleteFile dF f).addFile dF _
    · exact ((h.createFolder dF).deleteFile dF f).addFile dF _

theorem PosOk.dbReplace {n : Node} {d : DNode} (h : PosOk n d.n) (F f sF : String) : PosOk n (d.dbReplace F f sF).n := by
  unfold DNode.dbReplace
  split
  · exact h
  · split
    · split
      · exact h
      · exact (h.deleteFile F f).addFile F _
    · split
      · exact h
      · split
        · exact h
        · exact (h.createFolder F).addFile F _

theorem PosOk.dbRestore {n : Node} {d : DNode} (h : PosOk n d.n) (pre : Bool) (dl : Option FsH) :
    PosOk n (d.dbRestore pre dl).n := by
  have h1 : PosOk n (d.dlClear pre).n := by
    unfold DNode.dlClear
    split
    · exact h.deleteFile dlFolder dbFile
    · exact h
  unfold DNode.dbRestore
  cases dl with
  | none => exact h1
  | some hh =>
    simp only []
    apply PosOk.dbReplace
    unfold DNode.dlArrive
    split
    · exact h1
    · simp only []
      split
      · exact h1.addFile dlFolder _
      · exact (h1.createFolder dlFolder).addFile dlFolder _

/-- **C14 dyn (position stability).** After a structural operation (install / uninstall / create / copy / database restore /
external folder write) every folder is still at its position, with the same name, `deleted` flag and countdowns. -/
theorem C14_dyn_struct_pos (d : DNode) (op : DOp) (hs : op.swBase = none) : PosOk d.n (d.apply op).n := by
  have h0 := PosOk.refl d.n
  cases op <;> simp only [DOp.swBase, reduceCtorEq] at hs <;> simp only [DNode.apply]
  case appInstallReq s known => split <;> exact h0
  case appUninstallReq name => split <;> exact h0
  case swInstallApi s => exact h0
  case swUninstallApi name => exact h0
  case fsCreateFolder F =>
    split
    · exact h0.createFolder F
    · exact h0
  case fsCreateFile F f force =>
    split
    · split
      · exact h0
      · exact h0.createFile F f
    · exact h0
  case fsCopyFile sF f dF => exact h0.copyFile sF f dF
  case dbReplace F f sF => exact h0.dbReplace F f sF
  case folderSet F hh =>
    unfold Node.mapFolder
    apply h0.mapFolders
    intro G
    split
    · exact ⟨rfl, rfl, rfl, rfl⟩
    · exact ⟨rfl, rfl, rfl, rfl⟩
  case dbRestore pre dl => exact h0.dbRestore pre dl

/-- does this dynamic operation contain a timestep that reaches folder `G` (a plain timestep or a `tickDb`; node ON after its power
phase; folder not deleted)? -/
def dFolderTicking (d : DNode) (op : DOp) (G : Folder) : Bool :=
  match op.swBase with
  | some b => folderTicking d.n b G
  | none => false

/-- number of timesteps of a dynamic trace that reach the `j`-th folder -/
def dEffFolderTicks (d : DNode) (j : Nat) : List DOp → Nat
  | [] => 0
  | op :: ops =>
    (match d.n.folders[j]? with
     | some G => if dFolderTicking d op G then 1 else 0
     | none => 0) + dEffFolderTicks (d.apply op) j ops

theorem Folder.tick_name (G : Folder) : G.tick.name = G.name := by
  unfold Folder.tick; exact (Folder.restoreTick_rest _).1.trans (Folder.scanTick_rest _).1

theorem Folder.tick_scanCd (G : Folder) (h : 1 ≤ G.scanCd) : G.tick.scanCd = G.scanCd - 1 := by
  unfold Folder.tick
  rw [(Folder.restoreTick_rest _).2.2.1, Folder.scanTick_scanCd, if_pos (by omega)]

theorem Folder.tick_restoreCd (G : Folder) (h : 1 ≤ G.restoreCd) : G.tick.restoreCd = G.restoreCd - 1 := by
  unfold Folder.tick
  rw [Folder.restoreTick_restoreCd, (Folder.scanTick_rest _).2.2.1, if_pos (by omega)]

/-- **C14 dyn (one step, folder countdowns, by position).** While a countdown `cd` (scan or restore) of the `j`-th folder runs, ANY
dynamic operation leaves a folder of the same name at position `j`, whose countdown went down by one if the operation contains a
timestep that reaches the folder (plain, or `tickDb` with the database restore between software and folder ticks) and is unchanged
otherwise. -/
theorem dyn_folder_cd_step (cd : Folder → Int)
    (hstep : ∀ n op G, 1 ≤ cd G → cd (folderEff n op G) = if folderTicking n op G then cd G - 1 else cd G)
    (hsame : ∀ G' G : Folder, G'.CdSame G → cd G' = cd G)
    (htick : ∀ G : Folder, 1 ≤ cd G → cd G.tick = cd G - 1)
    (d : DNode) (op : DOp) (j : Nat) (G : Folder) (hG : d.n.folders[j]? = some G) (h1 : 1 ≤ cd G) :
    ∃ G', (d.apply op).n.folders[j]? = some G' ∧ G'.name = G.name ∧
      cd G' = if dFolderTicking d op G then cd G - 1 else cd G := by
  have hbase : ∀ b : Op, ∃ G', (d.n.apply b).folders[j]? = some G' ∧ G'.name = G.name ∧
      cd G' = if folderTicking d.n b G then cd G - 1 else cd G := fun b =>
    ⟨folderEff d.n b G, by rw [apply_folders, List.getElem?_map, hG]; rfl, folderEff_name _ _ _, hstep _ _ _ h1⟩
  cases hb : op.swBase with
  | none =>
    obtain ⟨G', g1, g2⟩ := C14_dyn_struct_pos d op hb j G hG
    refine ⟨G', g1, g2.1, ?_⟩
    unfold dFolderTicking; rw [hb]
    simp only [Bool.false_eq_true, if_false]
    exact hsame _ _ g2
  | some b =>
    have hdt : dFolderTicking d op G = folderTicking d.n b G := by unfold dFolderTicking; rw [hb]
    rw [hdt]
    cases op <;> simp only [DOp.swBase, reduceCtorEq, Option.some.injEq] at hb
    case base b' => subst hb; exact hbase b'
    case tickDb pre dl =>
      subst hb
      by_cases hon : d.n.powerPhase.power = .on
      · cases hfix : d.n.powerPhase.scanPhase.redPhase.dbFixCompletes with
        | false =>
          rw [C14_tickdb_eq_tick d pre dl (Or.inl hfix)]
          exact hbase .tick
        | true =>
          rw [(C14_tickdb_phases d pre dl hon hfix).1]
          have hp1 : PosOk d.n (d.n.powerPhase.scanPhase.redPhase.mapSws Sw.tick) := by
            apply ((PosOk.refl d.n).mapFolders (fun G => if d.n.powerPhase.scanCd = 1 then G.instantScan else G) ?_).of_folders_eq
            · rw [mapSws_folders, redPhase_folders, scanPhase_folders, powerPhase_folders]; rfl
            · intro G0
              split
              · exact ⟨Folder.instantScan_name _, Folder.instantScan_deleted _, Folder.instantScan_scanCd _,
                  Folder.instantScan_restoreCd _⟩
              · exact ⟨rfl, rfl, rfl, rfl⟩
          have hp2 := PosOk.dbRestore (d := { d with n := d.n.powerPhase.scanPhase.redPhase.mapSws Sw.tick }) hp1 pre dl
          obtain ⟨G2, g1, g2⟩ := hp2 j G hG
          have hcd2 : cd G2 = cd G := hsame _ _ g2
          refine ⟨if G2.deleted then G2 else G2.tick, by rw [mapFolders_folders, List.getElem?_map, g1]; rfl, ?_, ?_⟩
          · split
            · exact g2.1
            · exact (Folder.tick_name G2).trans g2.1
          · by_cases hd : G.deleted = true
            · have hd2 : G2.deleted = true := g2.2.1.trans hd
              simp [folderTicking, hon, hd, hd2, hcd2]
            · have hd' : G.deleted = false := by simpa using hd
              have hd2 : G2.deleted = false := g2.2.1.trans hd'
              simp only [folderTicking, hon, hd', hd2, decide_true, Bool.true_and, Bool.not_false, if_true,
                Bool.false_eq_true, if_false]
              rw [htick G2 (by omega), hcd2]
      · have e : (d.apply (.tickDb pre dl)).n = d.n.apply .tick := by
          simp only [DNode.apply, DNode.tickDb, Node.apply, Node.tick, hon, if_false]
        rw [e]
        exact hbase .tick

/-- generic countdown argument over dynamic traces, shared by folder scan and folder restore -/
theorem dyn_folder_cd_not_early (cd : Folder → Int)
    (hstep : ∀ n op G, 1 ≤ cd G → cd (folderEff n op G) = if folderTicking n op G then cd G - 1 else cd G)
    (hsame : ∀ G' G : Folder, G'.CdSame G → cd G' = cd G)
    (htick : ∀ G : Folder, 1 ≤ cd G → cd G.tick = cd G - 1)
    (ops : List DOp) : ∀ (d : DNode) (j : Nat) (G : Folder) (c : Int),
    d.n.folders[j]? = some G → cd G = c → (dEffFolderTicks d j ops : Int) < c →
    ∃ G', (d.run ops).n.folders[j]? = some G' ∧ G'.name = G.name ∧ cd G' = c - dEffFolderTicks d j ops := by
  induction ops with
  | nil => intro d j G c hG hc _; exact ⟨G, hG, rfl, by simpa [dEffFolderTicks] using hc⟩
  | cons op ops ih =>
    intro d j G c hG hc hk
    simp only [dEffFolderTicks, hG] at hk ⊢
    simp only [DNode.run]
    have hc1 : 1 ≤ cd G := by
      have : (0 : Int) ≤ (dEffFolderTicks (d.apply op) j ops : Int) := Int.natCast_nonneg _
      split at hk <;> omega
    obtain ⟨G1, hG1, hn1, hs⟩ := dyn_folder_cd_step cd hstep hsame htick d op j G hG hc1
    by_cases ht : dFolderTicking d op G = true
    · simp only [ht, if_true] at hk hs ⊢
      obtain ⟨G', h1, h2, h3⟩ := ih (d.apply op) j G1 (c - 1) hG1 (by rw [hs, hc]) (by omega)
      refine ⟨G', h1, h2.trans hn1, ?_⟩
      rw [h3]; omega
    · have ht' : dFolderTicking d op G = false := by simpa using ht
      simp only [ht', Bool.false_eq_true, if_false, Nat.zero_add] at hk hs ⊢
      obtain ⟨G', h1, h2, h3⟩ := ih (d.apply op) j G1 c hG1 (by rw [hs, hc]) hk
      exact ⟨G', h1, h2.trans hn1, h3⟩

/-- **C14 dyn folder scan timing, part 1 (not early), every dynamic trace, by position.** With `c` on the scan countdown of the
`j`-th folder, for ANY dynamic trace (second scan requests, deletion / restore of the folder, power loss, installs, uninstalls,
folder / file creation, copies, database restores, `tickDb`): while fewer than `c` timesteps have reached the folder, the countdown
is `c` minus that number. -/
theorem C14_dyn_folder_scan_not_early (ops : List DOp) (d : DNode) (j : Nat) (G : Folder) (c : Int)
    (hG : d.n.folders[j]? = some G) (hc : G.scanCd = c) (hk : (dEffFolderTicks d j ops : Int) < c) :
    ∃ G', (d.run ops).n.folders[j]? = some G' ∧ G'.name = G.name ∧ G'.scanCd = c - dEffFolderTicks d j ops :=
  dyn_folder_cd_not_early (·.scanCd) folderEff_scanCd_running (fun _ _ h => h.2.2.1) Folder.tick_scanCd ops d j G c hG hc hk

/-- **C14 dyn folder restore timing, part 1 (not early), every dynamic trace, by position.** -/
theorem C14_dyn_folder_restore_not_early (ops : List DOp) (d : DNode) (j : Nat) (G : Folder) (c : Int)
    (hG : d.n.folders[j]? = some G) (hc : G.restoreCd = c) (hk : (dEffFolderTicks d j ops : Int) < c) :
    ∃ G', (d.run ops).n.folders[j]? = some G' ∧ G'.name = G.name ∧ G'.restoreCd = c - dEffFolderTicks d j ops :=
  dyn_folder_cd_not_early (·.restoreCd) folderEff_restoreCd_running (fun _ _ h => h.2.2.2) Folder.tick_restoreCd ops d j G c hG hc hk

theorem dFolderTicking_of_tick (d : DNode) (tk : DOp) (G : Folder) (htk : tk.swBase = some .tick) :
    dFolderTicking d tk G = folderTicking d.n .tick G := by unfold dFolderTicking; rw [htk]

/-- **C14 dyn folder scan timing, part 2 (on time).** The `c`-th timestep that reaches the folder completes the scan: for EVERY
timestep operation `tk` (plain or `tickDb`) the countdown returns to 0; and for the plain timestep the base statement holds in full
(the folder shows the worst health of its live files, every live file shows its actual health). (With `tickDb` the database restore
may replace a file of this very folder between the software ticks and the folder tick, so what is scanned is the folder after that
replacement.) -/
theorem C14_dyn_folder_scan_completes_on_time (ops : List DOp) (d : DNode) (j : Nat) (G : Folder) (c : Int)
    (hG : d.n.folders[j]? = some G) (hc : G.scanCd = c) (hk : (dEffFolderTicks d j ops : Int) + 1 = c) :
    ∃ G', (d.run ops).n.folders[j]? = some G' ∧ G'.scanCd = 1 ∧
      (folderTicking (d.run ops).n .tick G' = true →
        (∀ tk : DOp, tk.swBase = some .tick →
          ∃ G'', ((d.run ops).apply tk).n.folders[j]? = some G'' ∧ G''.name = G.name ∧ G''.scanCd = 0) ∧
        ∃ G'', ((d.run ops).apply (.base .tick)).n.folders[j]? = some G'' ∧ G''.name = G.name ∧ G''.scanCd = 0 ∧
          G''.visible = worstLive G'.files ∧
          G''.files.map (·.visible) = G'.files.map (fun f => if f.deleted then f.visible else f.actual)) := by
  obtain ⟨G', h1, h2, h3⟩ := C14_dyn_folder_scan_not_early ops d j G c hG hc (by omega)
  have hcd : G'.scanCd = 1 := by rw [h3]; omega
  refine ⟨G', h1, hcd, fun ht => ⟨fun tk htk => ?_, ?_⟩⟩
  · obtain ⟨G'', a, b, e⟩ := dyn_folder_cd_step (·.scanCd) folderEff_scanCd_running (fun _ _ h => h.2.2.1) Folder.tick_scanCd
      (d.run ops) tk j G' h1 (show (1 : Int) ≤ G'.scanCd by omega)
    rw [dFolderTicking_of_tick _ _ _ htk, ht, if_pos rfl] at e
    exact ⟨G'', a, b.trans h2, by have e' : G''.scanCd = G'.scanCd - 1 := e; omega⟩
  · obtain ⟨G0, g1, _, g3⟩ := C14_folder_scan_completes_on_time [] (d.run ops).n j G' 1 h1 hcd (by simp [effFolderTicks])
    simp only [Node.run] at g1 g3
    have e0 : G0 = G' := Option.some.inj (g1.symm.trans h1)
    subst e0
    obtain ⟨G'', a, b, e, f, g⟩ := g3 ht
    exact ⟨G'', a, b.trans h2, e, f, g⟩

/-- **C14 dyn folder restore timing, part 2 (on time).** The `c`-th timestep that reaches the folder completes the restore: for
EVERY timestep operation `tk` (plain or `tickDb`) the countdown returns to 0; for the plain timestep the base statement holds in
full (files live again, CORRUPT live files GOOD, folder no longer CORRUPT / RESTORING). -/
theorem C14_dyn_folder_restore_completes_on_time (ops : List DOp) (d : DNode) (j : Nat) (G : Folder) (c : Int)
    (hG : d.n.folders[j]? = some G) (hc : G.restoreCd = c) (hk : (dEffFolderTicks d j ops : Int) + 1 = c) :
    ∃ G', (d.run ops).n.folders[j]? = some G' ∧ G'.restoreCd = 1 ∧
      (folderTicking (d.run ops).n .tick G' = true →
        (∀ tk : DOp, tk.swBase = some .tick →
          ∃ G'', ((d.run ops).apply tk).n.folders[j]? = some G'' ∧ G''.name = G.name ∧ G''.restoreCd = 0) ∧
        ∃ G'', ((d.run ops).apply (.base .tick)).n.folders[j]? = some G'' ∧ G''.name = G.name ∧ G''.restoreCd = 0 ∧
          G''.actual ≠ .corrupt ∧ G''.actual ≠ .restoring ∧
          G''.files.map (fun f => (f.deleted, f.actual)) =
            G'.files.map (fun f => (f.deleted && (hasLive f.name G'.files || !firstDeleted G'.files f),
              if (f.deleted = false ∨ File.twiceRestored G'.files f = true) ∧ f.actual = .corrupt then FsH.good
              else f.actual))) := by
  obtain ⟨G', h1, h2, h3⟩ := C14_dyn_folder_restore_not_early ops d j G c hG hc (by omega)
  have hcd : G'.restoreCd = 1 := by rw [h3]; omega
  refine ⟨G', h1, hcd, fun ht => ⟨fun tk htk => ?_, ?_⟩⟩
  · obtain ⟨G'', a, b, e⟩ := dyn_folder_cd_step (·.restoreCd) folderEff_restoreCd_running (fun _ _ h => h.2.2.2)
      Folder.tick_restoreCd (d.run ops) tk j G' h1 (show (1 : Int) ≤ G'.restoreCd by omega)
    rw [dFolderTicking_of_tick _ _ _ htk, ht, if_pos rfl] at e
    exact ⟨G'', a, b.trans h2, by have e' : G''.restoreCd = G'.restoreCd - 1 := e; omega⟩
  · obtain ⟨G0, g1, _, g3⟩ := C14_folder_restore_completes_on_time [] (d.run ops).n j G' 1 h1 hcd (by simp [effFolderTicks])
    simp only [Node.run] at g1 g3
    have e0 : G0 = G' := Option.some.inj (g1.symm.trans h1)
    subst e0
    obtain ⟨G'', a, b, e, f, g, k⟩ := g3 ht
    exact ⟨G'', a, b.trans h2, e, f, g, k⟩

/-- **C14 dyn folder scan timing (exact), by position.** After a `scan` request on an idle live folder (the `j`-th) of a powered-on
node, for EVERY dynamic continuation (nothing is excluded: a second scan request is ignored, deleting / restoring the folder or power
loss only pause the countdown — such timesteps do not count as reaching it —, and installs, uninstalls, folder / file creation,
copies, database restores, `tickDb` keep position and countdown): the countdown is `max(scan_duration, 1)` minus the number of
timesteps that reached the folder while that number is smaller, and the `max(scan_duration, 1)`-th such timestep completes the scan
(countdown 0 for a plain timestep or a `tickDb`; the full base statement for the plain one). BY POSITION: positions of folders are
stable under all dynamic operations (folders are only appended), so no by-name form is needed. -/
theorem C14_dyn_folder_scan_exact (d : DNode) (j : Nat) (G : Folder) (ops : List DOp)
    (hG : d.n.folders[j]? = some G) (hon : d.n.power = .on) (hl : G.deleted = false) (hidle : G.scanCd ≤ 0) :
    let d1 := d.apply (.base (.folder G.name .scan))
    ((dEffFolderTicks d1 j ops : Int) < max G.scanDur 1 →
      ∃ G', (d1.run ops).n.folders[j]? = some G' ∧ G'.name = G.name ∧
        G'.scanCd = max G.scanDur 1 - dEffFolderTicks d1 j ops) ∧
    ((dEffFolderTicks d1 j ops : Int) + 1 = max G.scanDur 1 →
      ∃ G', (d1.run ops).n.folders[j]? = some G' ∧ G'.scanCd = 1 ∧
        (folderTicking (d1.run ops).n .tick G' = true →
          (∀ tk : DOp, tk.swBase = some .tick →
            ∃ G'', ((d1.run ops).apply tk).n.folders[j]? = some G'' ∧ G''.name = G.name ∧ G''.scanCd = 0) ∧
          ∃ G'', ((d1.run ops).apply (.base .tick)).n.folders[j]? = some G'' ∧ G''.name = G.name ∧ G''.scanCd = 0 ∧
            G''.visible = worstLive G'.files ∧
            G''.files.map (·.visible) = G'.files.map (fun f => if f.deleted then f.visible else f.actual))) := by
  intro d1
  have h0 : d1.n.folders[j]? = some (folderEff d.n (.folder G.name .scan) G) := by
    show (d.n.apply (.folder G.name .scan)).folders[j]? = _
    rw [apply_folders, List.getElem?_map, hG]; rfl
  have hcd : (folderEff d.n (.folder G.name .scan) G).scanCd = max G.scanDur 1 := by
    rw [C14_folder_scan_request]; simp [hon, hl, hidle]
  have hnm := folderEff_name d.n (.folder G.name .scan) G
  refine ⟨fun hlt => ?_, fun heq => ?_⟩
  · obtain ⟨G', a, b, c⟩ := C14_dyn_folder_scan_not_early ops d1 j _ _ h0 hcd hlt
    exact ⟨G', a, b.trans hnm, c⟩
  · obtain ⟨G', a, b, c⟩ := C14_dyn_folder_scan_completes_on_time ops d1 j _ _ h0 hcd heq
    refine ⟨G', a, b, fun ht => ?_⟩
    obtain ⟨c1, G'', e1, e2, e3⟩ := c ht
    refine ⟨fun tk htk => ?_, G'', e1, e2.trans hnm, e3⟩
    obtain ⟨G3, f1, f2, f3⟩ := c1 tk htk
    exact ⟨G3, f1, f2.trans hnm, f3⟩

/-- **C14 dyn folder restore timing (exact), by position.** After a `restore` request that reaches the `j`-th folder while no
restore is running (folder route on a live folder; or file-system route `restore folder`, which reaches the live folder of that name,
else the first deleted one in deletion order) on a powered-on node, for EVERY dynamic continuation: the restore countdown is
`max(restore_duration, 1)` minus the number of timesteps that reached the folder while that number is smaller (not early), and the
`max(restore_duration, 1)`-th such timestep completes the restore (on time: countdown 0 for a plain timestep or a `tickDb`; the
full base statement for the plain one). BY POSITION (stable, see above). -/
theorem C14_dyn_folder_restore_exact (d : DNode) (j : Nat) (G : Folder) (ops : List DOp) (rq : Op)
    (hG : d.n.folders[j]? = some G) (hon : d.n.power = .on) (hidle : G.restoreCd ≤ 0)
    (hrq : (rq = .folder G.name .restore ∧ G.deleted = false) ∨
      (rq = .fsRestoreFolder G.name ∧
        (G.deleted = false ∨ (hasLiveFolder G.name d.n.folders = false ∧ firstDeletedFolder d.n.folders G = true)))) :
    let d1 := d.apply (.base rq)
    ((dEffFolderTicks d1 j ops : Int) < max G.restoreDur 1 →
      ∃ G', (d1.run ops).n.folders[j]? = some G' ∧ G'.name = G.name ∧
        G'.restoreCd = max G.restoreDur 1 - dEffFolderTicks d1 j ops) ∧
    ((dEffFolderTicks d1 j ops : Int) + 1 = max G.restoreDur 1 →
      ∃ G', (d1.run ops).n.folders[j]? = some G' ∧ G'.restoreCd = 1 ∧
        (folderTicking (d1.run ops).n .tick G' = true →
          (∀ tk : DOp, tk.swBase = some .tick →
            ∃ G'', ((d1.run ops).apply tk).n.folders[j]? = some G'' ∧ G''.name = G.name ∧ G''.restoreCd = 0) ∧
          ∃ G'', ((d1.run ops).apply (.base .tick)).n.folders[j]? = some G'' ∧ G''.name = G.name ∧ G''.restoreCd = 0 ∧
            G''.actual ≠ .corrupt ∧ G''.actual ≠ .restoring ∧
            G''.files.map (fun f => (f.deleted, f.actual)) =
              G'.files.map (fun f => (f.deleted && (hasLive f.name G'.files || !firstDeleted G'.files f),
                if (f.deleted = false ∨ File.twiceRestored G'.files f = true) ∧ f.actual = .corrupt then FsH.good
                else f.actual)))) := by
  intro d1
  have h0 : d1.n.folders[j]? = some (folderEff d.n rq G) := by
    show (d.n.apply rq).folders[j]? = _
    rw [apply_folders, List.getElem?_map, hG]; rfl
  have hcd : (folderEff d.n rq G).restoreCd = max G.restoreDur 1 := by
    have hr := C14_folder_restore_request d.n G.name G hon rfl
    rcases hrq with ⟨e, hl⟩ | ⟨e, hreach⟩
    · rw [e, hr.2 hl, if_pos hidle]
    · rw [e, hr.1 hreach, if_pos hidle]
  have hnm := folderEff_name d.n rq G
  refine ⟨fun hlt => ?_, fun heq => ?_⟩
  · obtain ⟨G', a, b, c⟩ := C14_dyn_folder_restore_not_early ops d1 j _ _ h0 hcd hlt
    exact ⟨G', a, b.trans hnm, c⟩
  · obtain ⟨G', a, b, c⟩ := C14_dyn_folder_restore_completes_on_time ops d1 j _ _ h0 hcd heq
    refine ⟨G', a, b, fun ht => ?_⟩
    obtain ⟨c1, G'', e1, e2, e3⟩ := c ht
    refine ⟨fun tk htk => ?_, G'', e1, e2.trans hnm, e3⟩
    obtain ⟨G3, f1, f2, f3⟩ := c1 tk htk
    exact ⟨G3, f1, f2.trans hnm, f3⟩

end Primaite.Health
