/-
C19, part 4 (round 3) — "only from its configured start nodes and only with actions it is configured to use":
the PARAMETERS of every action a threat-actor agent returns come from its configuration.

The models (Model/AgentsTap.lean) now carry the values: the node an action runs on, scan targets, credentials, ACL
fields; the remaining parameters are functions of the configuration listed in `Kind.spec` (key, source expression,
value — one table, pinned against the extractor by `C19_gen_action_params`).  The theorems below are invariants over
whole runs from the constructor (any draws, any responses, any length).
-/
import PrimaiteModel.Props.C19Run
namespace Primaite.Agents

/-! ## 16. `_select_start_node` / `_select_target_ip` -/

/-- **The selected start node (target address) is a configured one**: an element of the configured list, or — only when
that list is empty — the configured default. -/
theorem C19_select_from_config (xs : List Val) (d : Val) (k : Nat) (v : Val) (h : pick xs d k = some v) :
    (xs = [] ∧ v = d) ∨ v ∈ xs := by
  unfold pick at h
  split at h
  · rename_i he
    left
    cases h
    exact ⟨by simpa using he, rfl⟩
  · right
    exact List.mem_of_getElem? h

/-- … and the selection never fails for an index `random.choice` can draw. -/
theorem C19_select_total (xs : List Val) (d : Val) (k : Nat) (hk : xs = [] ∨ k < xs.length) : (pick xs d k).isSome = true := by
  unfold pick
  split
  · rfl
  · rename_i he
    rcases hk with hk | hk
    · simp [hk] at he
    · simp [hk]

/-! ## 17. TAP001: every action runs on the selected start node or the configured C2 server, every scan target is a
configured network address, the live hosts of the previous scan, or the selected target -/
namespace Tap1

/-- `v` is the agent's start node or the configured C2 server. -/
def NodeOK (c : Cfg) (n : Val) (v : Val) : Prop := v = n ∨ v = c.c2Server

/-- A scan target that names a network address names entry `i` of `PROPAGATE.network_addresses` with its value. -/
def TgtOK (c : Cfg) : Option Target → Prop
  | some (.addr i v) => c.addrs[i]? = some v
  | _ => True

def ActOK (c : Cfg) (n : Val) (a : Act) : Prop := (a.kind = .doNothing ∨ NodeOK c n a.node) ∧ TgtOK c a.tgt

/-- The parameter invariant: `starting_node` and `target_ip` keep the values selected in `setup_agent`; `current_host`,
the remembered `chosen_action` and `next_scan_target` hold configured values only. -/
def PInv (c : Cfg) (n ip : Val) (s : St) : Prop :=
  s.startNode = n ∧ s.targetIp = ip ∧ NodeOK c n s.host ∧ ActOK c n s.chosen ∧ TgtOK c (some s.nextTarget)

theorem P_of_fields (c : Cfg) (n ip : Val) (s s' : St) (h : PInv c n ip s) (e1 : s'.startNode = s.startNode)
    (e2 : s'.targetIp = s.targetIp) (e3 : NodeOK c n s'.host) (e4 : ActOK c n s'.chosen)
    (e5 : TgtOK c (some s'.nextTarget)) : PInv c n ip s' :=
  ⟨by rw [e1]; exact h.1, by rw [e2]; exact h.2.1, e3, e4, e5⟩

theorem actOK_nothing (c : Cfg) (n : Val) : ActOK c n Act.nothing := ⟨Or.inl rfl, trivial⟩

/-- an action of any kind on `current_host`, without a scan target -/
theorem actOK_host (c : Cfg) (n ip : Val) (s : St) (h : PInv c n ip s) (k : Kind) : ActOK c n { kind := k, node := s.host } :=
  ⟨Or.inr h.2.2.1, trivial⟩

theorem actOK_start (c : Cfg) (n ip : Val) (s : St) (h : PInv c n ip s) (k : Kind) : ActOK c n { kind := k, node := s.startNode } :=
  ⟨Or.inr (Or.inl h.1), trivial⟩

/- `pcl` closes a goal `PInv c n ip s'` where `s'` differs from `s` in fields the invariant does not read, or sets
`chosen_action` to do-nothing / an action on `current_host` / an action on `starting_node` (with `current_host := starting_node`) -/
set_option hygiene false in
macro "pcl" : tactic => `(tactic| first
  | exact h
  | exact ⟨h.1, h.2.1, h.2.2.1, actOK_nothing c n, h.2.2.2.2⟩
  | exact ⟨h.1, h.2.1, h.2.2.1, actOK_host c n ip s h _, h.2.2.2.2⟩
  | exact ⟨h.1, h.2.1, Or.inl h.1, actOK_start c n ip s h _, h.2.2.2.2⟩
  | exact ⟨h.1, h.2.1, Or.inl h.1, h.2.2.2.1, h.2.2.2.2⟩)

theorem P_failStage (c : Cfg) (n ip : Val) (s : St) (h : PInv c n ip s) : PInv c n ip (failStage c s) := by
  unfold failStage; split <;> pcl

theorem P_progress (c : Cfg) (n ip : Val) (s : St) (h : PInv c n ip s) : PInv c n ip (progress s) := by
  unfold progress; repeat' split
  all_goals pcl

theorem P_progressIfFinished (c : Cfg) (n ip : Val) (s : St) (h : PInv c n ip s) : PInv c n ip (progressIfFinished s) := by
  unfold progressIfFinished; split
  · exact P_progress c n ip s h
  · exact h

theorem P_nothing (c : Cfg) (n ip : Val) (s : St) (h : PInv c n ip s) : PInv c n ip { s with chosen := Act.nothing } := by pcl

theorem P_payloadHandler (c : Cfg) (n ip : Val) (s : St) (h : PInv c n ip s) : PInv c n ip (payloadHandler s).1 := by
  unfold payloadHandler; repeat' split
  all_goals pcl

theorem P_payloadContinue (c : Cfg) (n ip : Val) (s : St) (h : PInv c n ip s) : PInv c n ip (payloadContinue s) := by
  unfold payloadContinue; split
  · exact P_payloadHandler c n ip s h
  · exact h

theorem P_payloadEnter (c : Cfg) (i : In) (n ip : Val) (s : St) (h : PInv c n ip s) : PInv c n ip (payloadEnter c i s) := by
  unfold payloadEnter; split
  · split
    · exact ⟨h.1, h.2.1, Or.inr rfl, ⟨Or.inr (Or.inr rfl), trivial⟩, h.2.2.2.2⟩
    · exact P_failStage c n ip _ (P_nothing c n ip s h)
  · exact h

theorem P_payload (c : Cfg) (i : In) (n ip : Val) (s : St) (h : PInv c n ip s) : PInv c n ip (payload c i s) := by
  unfold payload; split
  · exact h
  · exact P_progressIfFinished c n ip _ (P_payloadEnter c i n ip _ (P_payloadContinue c n ip s h))

theorem P_c2c (c : Cfg) (i : In) (n ip : Val) (s : St) (h : PInv c n ip s) : PInv c n ip (c2c c i s) := by
  unfold c2c; split
  · exact h
  · split
    · split
      · pcl
      · exact P_failStage c n ip _ (P_nothing c n ip s h)
    · split
      · split
        · pcl
        · apply P_progress; pcl
      · exact h

theorem P_updateNextScanTarget (c : Cfg) (i : In) (e : Bool) (n ip : Val) (s : St) (h : PInv c n ip s) :
    PInv c n ip (updateNextScanTarget c i e s) := by
  unfold updateNextScanTarget
  split
  · split
    · rename_i a ha
      exact ⟨h.1, h.2.1, h.2.2.1, h.2.2.2.1, ha⟩
    · split
      · pcl
      · split
        · split
          · rename_i a ha
            exact ⟨h.1, h.2.1, h.2.2.1, h.2.2.2.1, ha⟩
          · pcl
        · pcl
  · split
    · exact ⟨h.1, h.2.1, h.2.2.1, h.2.2.2.1, trivial⟩
    · exact h

theorem P_scanResponseHandler (c : Cfg) (i : In) (r : Resp) (n ip : Val) (s : St) (h : PInv c n ip s) :
    PInv c n ip (scanResponseHandler c i r s) := by
  unfold scanResponseHandler
  split
  · split <;> pcl
  · split
    · pcl
    · exact P_updateNextScanTarget c i _ n ip _ (by pcl)

theorem P_scanMark (c : Cfg) (p : Hist) (n ip : Val) (s : St) (h : PInv c n ip s) : PInv c n ip (scanMark p s) := by
  unfold scanMark; split <;> pcl

theorem P_scanAbsorb (c : Cfg) (i : In) (p : Hist) (n ip : Val) (s : St) (h : PInv c n ip s) :
    PInv c n ip (scanAbsorb c i p s) := by
  unfold scanAbsorb; split
  · exact P_scanResponseHandler c i _ n ip s h
  · exact h

theorem P_scanLogic (c : Cfg) (n ip : Val) (s : St) (h : PInv c n ip s) : PInv c n ip (scanLogic s).1 := by
  unfold scanLogic; repeat' split
  all_goals pcl

theorem P_scanAction (c : Cfg) (ty : ScanType) (n ip : Val) (s : St) (h : PInv c n ip s) : PInv c n ip (scanAction ty s) := by
  unfold scanAction; split
  · exact ⟨h.1, h.2.1, h.2.2.1, ⟨Or.inr h.2.2.1, h.2.2.2.2⟩, h.2.2.2.2⟩
  · exact ⟨h.1, h.2.1, h.2.2.1, ⟨Or.inr h.2.2.1, trivial⟩, trivial⟩
  · exact ⟨h.1, h.2.1, h.2.2.1, ⟨Or.inr h.2.2.1, h.2.2.2.2⟩, h.2.2.2.2⟩
  · pcl

theorem P_scanProgress (c : Cfg) (n ip : Val) (s : St) (h : PInv c n ip s) : PInv c n ip (scanProgress s).1 := by
  unfold scanProgress; repeat' split
  all_goals pcl

theorem P_scanDecide (c : Cfg) (n ip : Val) (s : St) (h : PInv c n ip s) : PInv c n ip (scanDecide c s).1 := by
  unfold scanDecide; split
  · exact P_failStage c n ip _ (P_nothing c n ip s h)
  · exact P_scanProgress c n ip _ (P_scanAction c _ n ip _ (P_scanLogic c n ip s h))

theorem P_scanHandler (c : Cfg) (i : In) (n ip : Val) (s : St) (h : PInv c n ip s) : PInv c n ip (scanHandler c i s).1 := by
  unfold scanHandler
  split
  · pcl
  · split
    · pcl
    · exact P_scanDecide c n ip _ (P_scanAbsorb c i _ n ip _ (P_scanMark c _ n ip _ (by pcl)))

theorem P_propagatePrep (c : Cfg) (n ip : Val) (s : St) (h : PInv c n ip s) : PInv c n ip (propagatePrep c s) := by
  unfold propagatePrep propagateReset
  split
  · split
    · rename_i a ha
      exact ⟨h.1, h.2.1, Or.inl h.1, h.2.2.2.1, ha⟩
    · pcl
  · exact h

theorem P_propagateFirstScan (c : Cfg) (n ip : Val) (s : St) (h : PInv c n ip s) : PInv c n ip (propagateFirstScan s) :=
  ⟨h.1, h.2.1, h.2.2.1, ⟨Or.inr h.2.2.1, h.2.2.2.2⟩, h.2.2.2.2⟩

theorem P_propagate (c : Cfg) (i : In) (n ip : Val) (s : St) (h : PInv c n ip s) : PInv c n ip (propagate c i s) := by
  unfold propagate; split
  · exact h
  · split
    · apply P_progressIfFinished
      have := P_scanHandler c i n ip s h
      exact this
    · split
      · exact P_propagateFirstScan c n ip _ (P_propagatePrep c n ip s h)
      · exact P_failStage c n ip _ (P_nothing c n ip s h)

theorem P_activate (c : Cfg) (n ip : Val) (s : St) (h : PInv c n ip s) : PInv c n ip (activate s) := by
  unfold activate; split
  · exact h
  · apply P_progress; pcl

theorem P_install (c : Cfg) (n ip : Val) (s : St) (h : PInv c n ip s) : PInv c n ip (install s) := by
  unfold install; split
  · exact h
  · apply P_progress; pcl

theorem P_downloadAct (c : Cfg) (n ip : Val) (s : St) (h : PInv c n ip s) : PInv c n ip (downloadAct s) := by
  unfold downloadAct; repeat' split
  all_goals pcl

theorem P_download (c : Cfg) (n ip : Val) (s : St) (h : PInv c n ip s) : PInv c n ip (download s) := by
  unfold download; split
  · exact h
  · exact P_progressIfFinished c n ip _ (P_downloadAct c n ip s h)

theorem P_tapStart (c : Cfg) (n ip : Val) (s : St) (h : PInv c n ip s) : PInv c n ip (tapStart s) := by
  unfold tapStart; repeat' split
  all_goals pcl

theorem P_bodies (c : Cfg) (i : In) (n ip : Val) (s : St) (h : PInv c n ip s) : PInv c n ip (bodies c i s) := by
  unfold bodies
  exact P_tapStart c n ip _ (P_download c n ip _ (P_install c n ip _ (P_activate c n ip _ (P_propagate c i n ip _
    (P_c2c c i n ip _ (P_payload c i n ip s h))))))

theorem P_outcomeHandler (c : Cfg) (n ip : Val) (s : St) (h : PInv c n ip s) : PInv c n ip (outcomeHandler c s) := by
  unfold outcomeHandler; repeat' split
  all_goals pcl

theorem P_setNext (c : Cfg) (b d : Int) (n ip : Val) (s : St) (h : PInv c n ip s) : PInv c n ip (setNext c s b d) := by
  unfold setNext; split <;> pcl

theorem P_returnHandler (c : Cfg) (x : Hist) (n ip : Val) (s : St) (h : PInv c n ip s) : PInv c n ip (returnHandler c x s) := by
  unfold returnHandler; split <;> pcl

theorem P_curT (c : Cfg) (t : Int) (n ip : Val) (s : St) (h : PInv c n ip s) : PInv c n ip { s with curT := t } := by pcl

theorem P_mainPath (c : Cfg) (t : Int) (i : In) (n ip : Val) (s : St) (h : PInv c n ip s) : PInv c n ip (mainPath c s t i) := by
  unfold mainPath
  exact P_bodies c i n ip _ (P_outcomeHandler c n ip _ (P_setNext c _ _ n ip _ (P_curT c t n ip s h)))

theorem P_failPath (c : Cfg) (t : Int) (i : In) (n ip : Val) (s : St) (h : PInv c n ip s) : PInv c n ip (failPath c s t i) := by
  unfold failPath
  exact P_setNext c _ _ n ip _ (P_curT c t n ip _ (P_outcomeHandler c n ip _ (P_setNext c _ _ n ip s h)))

theorem P_getAction (c : Cfg) (t : Int) (i : In) (n ip : Val) (s : St) (h : PInv c n ip s) :
    PInv c n ip (getAction c s t i).1 ∧ ActOK c n (getAction c s t i).2 := by
  unfold getAction
  split
  · exact ⟨h, actOK_nothing c n⟩
  · split
    · exact ⟨by pcl, actOK_nothing c n⟩
    · rename_i x _
      have hr := P_returnHandler c x n ip s h
      have hm := P_mainPath c t i n ip _ hr
      have hf := P_failPath c t i n ip _ hr
      split
      · simp only []
        exact ⟨hm, hm.2.2.2.1⟩
      · simp only []
        exact ⟨hf, hf.2.2.2.1⟩

theorem P_step (c : Cfg) (t : Int) (i : In) (n ip : Val) (s : St) (h : PInv c n ip s) :
    PInv c n ip (step c s t i).1 ∧ ∀ a, (step c s t i).2 = .act a → ActOK c n a := by
  have hg := P_getAction c t i n ip s h
  unfold step
  split
  · exact ⟨h, fun a ha => by cases ha⟩
  · split
    · exact ⟨by pcl, fun a ha => by cases ha⟩
    · exact ⟨hg.1, fun a ha => by cases ha; exact hg.2⟩

theorem run_P (c : Cfg) (n ip : Val) : ∀ (ins : List In) (s : St) (t : Int), PInv c n ip s →
    ∀ t' a, (t', Out.act a) ∈ runOut c s t ins → ActOK c n a := by
  intro ins
  induction ins with
  | nil => intro s t _ t' a hm; simp [runOut] at hm
  | cons i is ih =>
    intro s t h t' a hm
    have hs := P_step c t i n ip s h
    simp only [runOut, List.mem_cons] at hm
    rcases hm with heq | hm
    · exact hs.2 a (Prod.mk.inj heq).2.symm
    · exact ih _ (t + 1) hs.1 t' a hm

/-- What the constructor selected. -/
theorem init_picks (c : Cfg) (d0 : Int) (k1 k2 : Nat) (s0 : St) (h0 : init c d0 k1 k2 = some s0) :
    pick c.startingNodes c.defaultStartingNode k1 = some s0.startNode ∧
    pick c.targetIps c.defaultTargetIp k2 = some s0.targetIp ∧
    PInv c s0.startNode s0.targetIp s0 := by
  unfold init at h0
  split at h0
  · rename_i hv
    cases h0
    obtain ⟨_, hn, hs, ht⟩ := hv
    obtain ⟨v1, e1⟩ := Option.isSome_iff_exists.1 hs
    obtain ⟨v2, e2⟩ := Option.isSome_iff_exists.1 ht
    have ha : c.addrs[0]? = some (c.addrs.headD "") := by
      unfold Cfg.nAddr at hn
      cases hl : c.addrs with
      | nil => rw [hl] at hn; simp at hn
      | cons a r => simp
    refine ⟨by rw [e1]; rfl, by rw [e2]; rfl, rfl, rfl, Or.inl rfl, actOK_nothing c _, ha⟩
  · cases h0

/-- **Only from its configured start nodes, only with configured targets (TAP001, run level).**  In every run from the
constructor — any settings, any start-node / target draws, any schedule, trial and scan draws, any responses, any
length — every action the agent returns other than do-nothing

* runs on the node `_select_start_node` selected — an element of `starting_nodes`, or `default_starting_node` when that
  list is empty — or on the configured `c2_server_name`;
* has as scan target entry `i` of `PROPAGATE.network_addresses` (with exactly that value), the live-host list of the
  previous ping scan, or the address `_select_target_ip` selected (element of `target_ips`, or `default_target_ip`);

and all its other parameters are the functions of the configuration listed in `Kind.spec` (by definition of `render`). -/
theorem C19_tap1_params_from_config (c : Cfg) (d0 : Int) (k1 k2 : Nat) (s0 : St) (ins : List In)
    (h0 : init c d0 k1 k2 = some s0) :
    ((c.startingNodes = [] ∧ s0.startNode = c.defaultStartingNode) ∨ s0.startNode ∈ c.startingNodes) ∧
    ((c.targetIps = [] ∧ s0.targetIp = c.defaultTargetIp) ∨ s0.targetIp ∈ c.targetIps) ∧
    ∀ t a, (t, Out.act a) ∈ runOut c s0 0 ins → a.kind ≠ .doNothing →
      (a.node = s0.startNode ∨ a.node = c.c2Server) ∧
      (∀ j v, a.tgt = some (.addr j v) → c.addrs[j]? = some v) := by
  obtain ⟨h1, h2, hp⟩ := init_picks c d0 k1 k2 s0 h0
  refine ⟨C19_select_from_config _ _ _ _ h1, C19_select_from_config _ _ _ _ h2, ?_⟩
  intro t a hm hne
  have := run_P c _ _ ins s0 0 hp t a hm
  refine ⟨?_, ?_⟩
  · rcases this.1 with hk | hk
    · exact absurd hk hne
    · exact hk
  · intro j v hj
    have ht := this.2
    rw [hj] at ht
    exact ht

/-- The first parameter of every action is the node it runs on (`node_name` / `source_node` = `Act.node`). -/
theorem render_node (c : Cfg) (s : St) (a : Act) (h : a.kind ≠ .doNothing) :
    ∃ key rest, (a.render c s).2 = (key, PVal.str a.node) :: rest ∧ (key = "node_name" ∨ key = "source_node") := by
  unfold Act.render
  cases hk : a.kind <;> simp_all [Kind.spec, pNode]

end Tap1

/-! ## 18. TAP003: node, credentials and ACL fields of every action come from the configuration -/
namespace Tap3

/-- `v` is a user name or password of the configured starting knowledge, or a user name / new password of a configured
account change. -/
def Known (c : Cfg) (v : Val) : Prop :=
  (∃ e ∈ c.creds0, v = e.2.user ∨ v = e.2.pw) ∨ (∃ a ∈ c.accountChanges, v = a.user ∨ v = a.newPw)

/-- `v` is an `ip_address` of the configured starting knowledge. -/
def KnownIp (c : Cfg) (v : Val) : Prop := ∃ e ∈ c.creds0, e.2.ip = some v

def CredOK (c : Cfg) (cr : Cred) : Prop := Known c cr.user ∧ Known c cr.pw ∧ ∀ ip, cr.ip = some ip → KnownIp c ip

/-- What the settings allow an action to carry (`n` = the selected start node). -/
def ActOK (c : Cfg) (n : Val) (a : Act) : Prop :=
  match a.kind with
  | .doNothing => True
  | .changePwLocal => a.node = n ∧ Known c a.pw ∧ ∃ x ∈ c.accountChanges, a.user = x.user ∧ a.newPw = x.newPw
  | .remoteLogin => a.node = n ∧ Known c a.user ∧ Known c a.pw ∧ KnownIp c a.ip
  | .remoteChangePw =>
    a.node = n ∧ KnownIp c a.ip ∧ Known c a.pw ∧ ∃ x ∈ c.accountChanges, a.user = x.user ∧ a.newPw = x.newPw
  | .remoteAcl => a.node = n ∧ KnownIp c a.ip ∧ ∃ x ∈ c.acls, a.acl = x.fields ∧ a.host = x.router

/-- The parameter invariant. -/
def PInv (c : Cfg) (n : Val) (s : St) : Prop :=
  s.startNode = n ∧ (∀ e ∈ s.creds, CredOK c e.2) ∧ ActOK c n s.chosen ∧ (∀ h ∈ s.hist, ActOK c n h.act) ∧
  (∀ a ∈ s.acctQueue, a ∈ c.accountChanges) ∧ (∀ a, s.nextAcct = some a → a ∈ c.accountChanges)

theorem actOK_nothing (c : Cfg) (n : Val) : ActOK c n Act.nothing := trivial

theorem creds_get_mem (cr : Creds) (h : Val) (x : Cred) (hg : cr.get h = some x) : ∃ e ∈ cr, e.2 = x := by
  unfold Creds.get at hg
  cases hf : cr.find? (·.1 == h) with
  | none => rw [hf] at hg; cases hg
  | some e =>
    rw [hf] at hg
    simp only [Option.map_some, Option.some.injEq] at hg
    exact ⟨e, List.mem_of_find?_eq_some hf, hg⟩

theorem creds_set_ok (P : Cred → Prop) (cr : Creds) (h : Val) (v : Cred) (hall : ∀ e ∈ cr, P e.2) (hv : P v) :
    ∀ e ∈ cr.set h v, P e.2 := by
  unfold Creds.set
  split
  · intro e he
    rw [List.mem_map] at he
    obtain ⟨e0, he0, heq⟩ := he
    split at heq
    · rw [← heq]; exact hv
    · rw [← heq]; exact hall e0 he0
  · intro e he
    rcases List.mem_append.1 he with he | he
    · exact hall e he
    · simp only [List.mem_singleton] at he
      rw [he]; exact hv

theorem creds0_ok (c : Cfg) : ∀ e ∈ c.creds0, CredOK c e.2 := by
  intro e he
  exact ⟨Or.inl ⟨e, he, Or.inl rfl⟩, Or.inl ⟨e, he, Or.inr rfl⟩, fun ip hip => ⟨e, he, hip⟩⟩

theorem known_user (c : Cfg) (x : AcctChange) (hx : x ∈ c.accountChanges) : Known c x.user := Or.inr ⟨x, hx, Or.inl rfl⟩
theorem known_newPw (c : Cfg) (x : AcctChange) (hx : x ∈ c.accountChanges) : Known c x.newPw := Or.inr ⟨x, hx, Or.inr rfl⟩

/- `qcl` closes `PInv c n s'` when `s'` differs from `s` in fields the invariant does not read, or sets the chosen action
to do-nothing. -/
set_option hygiene false in
macro "qcl" : tactic => `(tactic| first
  | exact h
  | exact ⟨h.1, h.2.1, actOK_nothing c n, h.2.2.2.1, h.2.2.2.2.1, h.2.2.2.2.2⟩)

theorem Q_progress (c : Cfg) (n : Val) (s : St) (h : PInv c n s) : PInv c n (progress s) := by
  unfold progress; repeat' split
  all_goals qcl

theorem Q_failStage (c : Cfg) (n : Val) (s : St) (h : PInv c n s) : PInv c n (failStage c s) := by
  unfold failStage; split <;> qcl

theorem Q_nothing (c : Cfg) (n : Val) (s : St) (h : PInv c n s) : PInv c n { s with chosen := Act.nothing } := by qcl

theorem Q_handleLogin (c : Cfg) (n : Val) (s : St) (h : PInv c n s) : PInv c n (handleLogin s) := by
  unfold handleLogin; repeat' split
  all_goals qcl

theorem Q_handleChangePw (c : Cfg) (n : Val) (s : St) (h : PInv c n s) : PInv c n (handleChangePw c s) := by
  unfold handleChangePw
  split
  · exact h
  · rename_i x hx
    have hxm : x ∈ s.hist := List.mem_of_getLast? hx
    have hax := h.2.2.2.1 x hxm
    split
    · exact h
    · split
      · rename_i hk
        have hkind : x.act.kind = .remoteChangePw := hk.1
        unfold ActOK at hax
        rw [hkind] at hax
        obtain ⟨_, hip, _, y, hy, hu, hp⟩ := hax
        refine ⟨h.1, ?_, h.2.2.1, h.2.2.2.1, h.2.2.2.2.1, h.2.2.2.2.2⟩
        apply creds_set_ok (CredOK c) _ _ _ h.2.1
        exact ⟨by rw [hu]; exact known_user c y hy, by rw [hp]; exact known_newPw c y hy,
          fun ip hh => by cases hh; exact hip⟩
      · split
        · rename_i hk
          have hkind : x.act.kind = .changePwLocal := hk.1
          unfold ActOK at hax
          rw [hkind] at hax
          obtain ⟨_, _, y, hy, hu, hp⟩ := hax
          refine ⟨h.1, ?_, h.2.2.1, h.2.2.2.1, h.2.2.2.2.1, h.2.2.2.2.2⟩
          apply creds_set_ok (CredOK c) _ _ _ h.2.1
          refine ⟨by rw [hu]; exact known_user c y hy, by rw [hp]; exact known_newPw c y hy, fun ip hh => ?_⟩
          simp only [] at hh
          cases hg : s.creds.get x.act.node with
          | none => rw [hg] at hh; cases hh
          | some old =>
            rw [hg] at hh
            obtain ⟨e, he, hee⟩ := creds_get_mem _ _ _ hg
            exact (h.2.1 e he).2.2 ip (by rw [hee]; exact hh)
        · exact h

theorem Q_preGuard (c : Cfg) (n : Val) (s : St) (h : PInv c n s) : PInv c n (preGuardHandlers c s) :=
  Q_handleChangePw c n _ (Q_handleLogin c n s h)

theorem manipPick_ok (c : Cfg) (n : Val) (s : St) (h : PInv c n s) (a : AcctChange) (q1 : List AcctChange)
    (hp : manipPick s = some (a, q1)) : a ∈ c.accountChanges ∧ ∀ x ∈ q1, x ∈ c.accountChanges := by
  unfold manipPick at hp
  cases hn : s.nextAcct with
  | some x =>
    simp only [hn, Option.some.injEq, Prod.mk.injEq] at hp
    obtain ⟨rfl, rfl⟩ := hp
    exact ⟨h.2.2.2.2.2 x hn, h.2.2.2.2.1⟩
  | none =>
    cases hq : s.acctQueue with
    | nil => simp [hn, hq] at hp
    | cons y r =>
      simp only [hn, hq, Option.some.injEq, Prod.mk.injEq] at hp
      obtain ⟨rfl, rfl⟩ := hp
      have hall := h.2.2.2.2.1
      rw [hq] at hall
      exact ⟨hall y List.mem_cons_self, fun z hz => hall z (List.mem_cons_of_mem _ hz)⟩

theorem popAcct_ok (c : Cfg) (q : List AcctChange) (hq : ∀ x ∈ q, x ∈ c.accountChanges) :
    (∀ a, (popAcct q).1 = some a → a ∈ c.accountChanges) ∧ ∀ x ∈ (popAcct q).2, x ∈ c.accountChanges := by
  cases q with
  | nil => exact ⟨(fun a ha => by cases ha), (fun x hx => by cases hx)⟩
  | cons y r =>
    refine ⟨fun a ha => ?_, fun x hx => hq x (List.mem_cons_of_mem _ hx)⟩
    simp only [popAcct, Option.some.injEq] at ha
    rw [← ha]; exact hq y List.mem_cons_self

theorem Q_manipBegin (c : Cfg) (n : Val) (s : St) (h : PInv c n s) : PInv c n (manipBegin s) := by
  unfold manipBegin; split <;> qcl

theorem Q_manipAct (c : Cfg) (n : Val) (s : St) (h : PInv c n s) : PInv c n (manipAct c s) := by
  unfold manipAct
  split
  · exact h
  · rename_i a q1 hp
    obtain ⟨ha, hq1⟩ := manipPick_ok c n s h a q1 hp
    obtain ⟨hpop1, hpop2⟩ := popAcct_ok c q1 hq1
    split
    · split
      · exact h
      · rename_i cr hg
        obtain ⟨e, he, hee⟩ := creds_get_mem _ _ _ hg
        have hcr : CredOK c cr := by rw [← hee]; exact h.2.1 e he
        exact ⟨h.1, h.2.1, ⟨h.1, hcr.2.1, a, ha, rfl, rfl⟩, h.2.2.2.1, hpop2, hpop1⟩
    · split
      · rename_i cr ip hg hb
        obtain ⟨e, he, hee⟩ := creds_get_mem _ _ _ hg
        have hcr : CredOK c cr := by rw [← hee]; exact h.2.1 e he
        have hip : KnownIp c ip := by
          rw [hg] at hb
          exact hcr.2.2 ip hb
        split
        · exact ⟨h.1, h.2.1, ⟨h.1, hcr.1, hcr.2.1, hip⟩, h.2.2.2.1, hq1, fun x hx => by cases hx; exact ha⟩
        · exact ⟨h.1, h.2.1, ⟨h.1, hip, hcr.2.1, a, ha, rfl, rfl⟩, h.2.2.2.1, hpop2, hpop1⟩
      · exact h

theorem Q_manipFinish (c : Cfg) (n : Val) (s : St) (h : PInv c n s) : PInv c n (manipFinish s) := by
  unfold manipFinish; split
  · exact Q_progress c n s h
  · exact h

theorem Q_manipulation (c : Cfg) (i : In) (n : Val) (s : St) (h : PInv c n s) : PInv c n (manipulation c i s) := by
  unfold manipulation; split
  · exact h
  · split
    · exact Q_manipFinish c n _ (Q_manipAct c n _ (Q_manipBegin c n s h))
    · exact Q_failStage c n _ (Q_nothing c n s h)

theorem Q_exploitAct (c : Cfg) (n : Val) (a : Acl) (cr : Cred) (ip : Val) (s : St) (h : PInv c n s)
    (ha : a ∈ c.acls) (hcr : CredOK c cr) (hip : KnownIp c ip) : PInv c n (exploitAct a cr ip s) := by
  unfold exploitAct; split
  · exact ⟨h.1, h.2.1, ⟨h.1, hcr.1, hcr.2.1, hip⟩, h.2.2.2.1, h.2.2.2.2.1, h.2.2.2.2.2⟩
  · exact ⟨h.1, h.2.1, ⟨h.1, hip, a, ha, rfl, rfl⟩, h.2.2.2.1, h.2.2.2.2.1, h.2.2.2.2.2⟩

theorem Q_exploitFinish (c : Cfg) (n : Val) (s : St) (h : PInv c n s) : PInv c n (exploitFinish s) := by
  unfold exploitFinish; split
  · apply Q_progress; qcl
  · exact h

theorem Q_exploitBody (c : Cfg) (n : Val) (s : St) (h : PInv c n s) : PInv c n (exploitBody c s) := by
  unfold exploitBody
  split
  · apply Q_progress; qcl
  split
  · exact h
  · rename_i a hacl
    have ha : a ∈ c.acls := List.mem_of_getElem? hacl
    split
    · rename_i cr ip hg hb
      obtain ⟨e, he, hee⟩ := creds_get_mem _ _ _ hg
      have hcr : CredOK c cr := by rw [← hee]; exact h.2.1 e he
      have hip : KnownIp c ip := by
        rw [hg] at hb
        exact hcr.2.2 ip hb
      exact Q_exploitFinish c n _ (Q_exploitAct c n a cr ip _ (by qcl) ha hcr hip)
    · exact h

theorem Q_exploit (c : Cfg) (i : In) (n : Val) (s : St) (h : PInv c n s) : PInv c n (exploit c i s) := by
  unfold exploit; split
  · exact h
  · split
    · exact Q_failStage c n _ (Q_nothing c n s h)
    · apply Q_exploitBody
      unfold exploitEnter; split <;> qcl

theorem Q_access (c : Cfg) (i : In) (n : Val) (s : St) (h : PInv c n s) : PInv c n (access c i s) := by
  unfold access; split
  · exact h
  · split
    · exact Q_nothing c n _ (Q_progress c n s h)
    · exact Q_failStage c n _ (Q_nothing c n s h)

theorem Q_planning (c : Cfg) (i : In) (n : Val) (s : St) (h : PInv c n s) : PInv c n (planning c i s) := by
  unfold planning; split
  · exact h
  · split
    · apply Q_progress
      split
      · exact h
      · exact ⟨h.1, creds0_ok c, h.2.2.1, h.2.2.2.1, h.2.2.2.2.1, h.2.2.2.2.2⟩
    · exact Q_failStage c n _ (Q_nothing c n s h)

theorem Q_reconnaissance (c : Cfg) (n : Val) (s : St) (h : PInv c n s) : PInv c n (reconnaissance s) := by
  unfold reconnaissance; split
  · exact h
  · exact Q_progress c n _ (Q_nothing c n s h)

theorem Q_tapStart (c : Cfg) (n : Val) (s : St) (h : PInv c n s) : PInv c n (tapStart s) := by
  unfold tapStart; repeat' split
  all_goals qcl

theorem Q_bodies (c : Cfg) (i : In) (n : Val) (s : St) (h : PInv c n s) : PInv c n (bodies c i s) := by
  unfold bodies
  exact Q_tapStart c n _ (Q_reconnaissance c n _ (Q_planning c i n _ (Q_access c i n _ (Q_manipulation c i n _
    (Q_exploit c i n s h)))))

theorem Q_outcomeHandler (c : Cfg) (n : Val) (s : St) (h : PInv c n s) : PInv c n (outcomeHandler c s) := by
  unfold outcomeHandler; repeat' split
  all_goals qcl

theorem Q_setNext (c : Cfg) (b d : Int) (n : Val) (s : St) (h : PInv c n s) : PInv c n (setNext c s b d) := by
  unfold setNext; split <;> qcl

theorem Q_returnHandler (c : Cfg) (x : Hist) (n : Val) (s : St) (h : PInv c n s) : PInv c n (returnHandler c x s) := by
  unfold returnHandler; split <;> qcl

theorem Q_reasonCheck (c : Cfg) (x : Hist) (n : Val) (s : St) (h : PInv c n s) : PInv c n (reasonCheck x s) := by
  unfold reasonCheck; split <;> qcl

theorem Q_curT (c : Cfg) (t : Int) (n : Val) (s : St) (h : PInv c n s) : PInv c n { s with curT := t } := by qcl

theorem Q_mainPath (c : Cfg) (t : Int) (i : In) (n : Val) (s : St) (h : PInv c n s) : PInv c n (mainPath c s t i) := by
  unfold mainPath
  exact Q_bodies c i n _ (Q_outcomeHandler c n _ (Q_setNext c _ _ n _ (Q_curT c t n s h)))

theorem Q_failPath (c : Cfg) (t : Int) (i : In) (n : Val) (s : St) (h : PInv c n s) : PInv c n (failPath c s t i) := by
  unfold failPath
  exact Q_outcomeHandler c n _ (Q_setNext c _ _ n _ (Q_curT c t n s h))

theorem PInv.chosenOK {c : Cfg} {n : Val} {s : St} (h : PInv c n s) : ActOK c n s.chosen := h.2.2.1

theorem Q_raise (c : Cfg) (n : Val) (s : St) (h : PInv c n s) : PInv c n s.raise :=
  ⟨h.1, h.2.1, h.2.2.1, h.2.2.2.1, h.2.2.2.2.1, h.2.2.2.2.2⟩

theorem Q_getAction (c : Cfg) (t : Int) (i : In) (n : Val) (s : St) (h : PInv c n s) :
    PInv c n (getAction c s t i).1 ∧ ActOK c n (getAction c s t i).2 := by
  have h' := Q_preGuard c n s h
  unfold getAction
  generalize preGuardHandlers c s = s1 at h' ⊢
  unfold getActionCore
  split
  · exact ⟨h', actOK_nothing c n⟩
  · split
    · exact ⟨Q_raise c n s1 h', actOK_nothing c n⟩
    · rename_i x _
      have hr := Q_returnHandler c x n s1 h'
      have hm := Q_mainPath c t i n _ (Q_reasonCheck c x n _ hr)
      have hf := Q_failPath c t i n _ hr
      generalize mainPath c (reasonCheck x (returnHandler c x s1)) t i = M at hm ⊢
      generalize failPath c (returnHandler c x s1) t i = F at hf ⊢
      split
      · exact ⟨hm, hm.2.2.1⟩
      · exact ⟨hf, hf.2.2.1⟩

theorem Q_step (c : Cfg) (t : Int) (i : In) (n : Val) (s : St) (h : PInv c n s) :
    PInv c n (step c s t i).1 ∧ ∀ a, (step c s t i).2 = .act a → ActOK c n a := by
  have hg := Q_getAction c t i n s h
  unfold step
  split
  · exact ⟨h, fun a ha => by cases ha⟩
  · split
    · exact ⟨h, fun a ha => by cases ha⟩
    · refine ⟨?_, fun a ha => by cases ha; exact hg.2⟩
      refine ⟨hg.1.1, hg.1.2.1, hg.1.2.2.1, ?_, hg.1.2.2.2.2.1, hg.1.2.2.2.2.2⟩
      intro x hx
      rcases List.mem_append.1 hx with hx | hx
      · exact hg.1.2.2.2.1 x hx
      · simp only [List.mem_singleton] at hx
        rw [hx]; exact hg.2

theorem run_Q (c : Cfg) (n : Val) : ∀ (ins : List In) (s : St) (t : Int), PInv c n s →
    ∀ t' a, (t', Out.act a) ∈ runOut c s t ins → ActOK c n a := by
  intro ins
  induction ins with
  | nil => intro s t _ t' a hm; simp [runOut] at hm
  | cons i is ih =>
    intro s t h t' a hm
    have hs := Q_step c t i n s h
    simp only [runOut, List.mem_cons] at hm
    rcases hm with heq | hm
    · exact hs.2 a (Prod.mk.inj heq).2.symm
    · exact ih _ (t + 1) hs.1 t' a hm

theorem init_pick (c : Cfg) (d0 : Int) (k : Nat) (s0 : St) (h0 : init c d0 k = some s0) :
    pick c.startingNodes c.defaultStartingNode k = some s0.startNode ∧ PInv c s0.startNode s0 := by
  unfold init at h0
  split at h0
  · rename_i hv
    cases h0
    obtain ⟨v1, e1⟩ := Option.isSome_iff_exists.1 hv.2.1
    refine ⟨by rw [e1]; rfl, rfl, (fun e he => by cases he), actOK_nothing c _, (fun x hx => by cases hx),
      (fun x hx => hx), (fun x hx => by cases hx)⟩
  · cases h0

/-- **Only from its configured start node, only with configured credentials, accounts and ACL rules (TAP003, run
level).**  In every run from the constructor — any settings, any start-node draw, any schedule and trial draws, any
responses, any length — the selected start node is an element of `starting_nodes` (or `default_starting_node` when that
list is empty), and every action the agent returns other than do-nothing (`ActOK`)

* carries that node as `node_name`;
* logs in with a user name, password and `remote_ip` that are configured starting knowledge or — user name / password —
  were set by one of the agent's own configured account changes;
* changes a password only with the `username` / `new_password` of one configured `account_changes` entry, giving a known
  current password;
* adds an ACL rule only with exactly the nine fields of one configured `malicious_acls` entry, addressed to a known
  `ip_address`. -/
theorem C19_tap3_params_from_config (c : Cfg) (d0 : Int) (k : Nat) (s0 : St) (ins : List In) (h0 : init c d0 k = some s0) :
    ((c.startingNodes = [] ∧ s0.startNode = c.defaultStartingNode) ∨ s0.startNode ∈ c.startingNodes) ∧
    ∀ t a, (t, Out.act a) ∈ runOut c s0 0 ins → ActOK c s0.startNode a := by
  obtain ⟨h1, hp⟩ := init_pick c d0 k s0 h0
  exact ⟨C19_select_from_config _ _ _ _ h1, run_Q c _ ins s0 0 hp⟩

/-- **ACL rules are the configured entries, in order.**  When `_exploit` adds a rule (logged in to the router of entry
`_current_acl`), the command carries exactly the fields of `malicious_acls[_current_acl]`, and `_current_acl` moves to
the next entry (back to 0 after the last: the pass is complete and the chain progresses). -/
theorem C19_tap3_acl_in_order (c : Cfg) (s : St) (a : Acl) (cr : Cred) (ip : Val)
    (ha : c.acls[s.curAcl]? = some a) (hg : s.creds.get a.router = some cr) (hi : cr.ip = some ip)
    (hs : s.session = some a.router) :
    (exploitBody c s).chosen.kind = .remoteAcl ∧ (exploitBody c s).chosen.acl = a.fields ∧
    (exploitBody c s).chosen.ip = ip ∧ (exploitBody c s).chosen.node = s.startNode ∧
    (exploitBody c s).curAcl = (if s.curAcl + 1 = c.acls.length then 0 else s.curAcl + 1) := by
  have hb : (s.creds.get a.router).bind (·.ip) = some ip := by rw [hg]; exact hi
  have pf : ∀ x : St, (progress x).chosen = x.chosen ∧ (progress x).curAcl = x.curAcl := by
    intro x; unfold progress; repeat' split
    all_goals simp [St.raise]
  have hne : c.acls.isEmpty = false := by
    cases hl : c.acls with
    | nil => rw [hl] at ha; simp at ha
    | cons _ _ => rfl
  unfold exploitBody
  simp only [hne, Bool.false_eq_true, if_false, ha, hg, Option.bind_some, hi]
  unfold exploitAct
  simp only [hs, ne_eq, not_true_eq_false, if_false]
  unfold exploitFinish
  simp only []
  by_cases he : s.curAcl + 1 = c.acls.length
  · rw [if_pos he, if_pos he]
    rw [(pf _).1, (pf _).2]
    exact ⟨rfl, rfl, rfl, rfl, rfl⟩
  · rw [if_neg he, if_neg he]
    exact ⟨rfl, rfl, rfl, rfl, rfl⟩

end Tap3

/-! ## 19. Non-vacuity and the translator tie of this part -/

/-- Non-vacuity (TAP003): the agent of `exCfg` issues the configured ACL rule with the address known for its router. -/
example : ∃ s0, Tap3.init Tap3.exCfg 0 0 = some s0 ∧
    ((Tap3.runOut Tap3.exCfg s0 0 (List.replicate 12 Tap3.exIn)).filterMap fun x =>
      match x.2 with
      | .act a => if a.kind = .remoteAcl then some (a.node, a.ip, a.acl) else none
      | .raised => none)
      = [("pc", "10.0.9.1", ["DENY", "tcp", "10.0.0.0", "0.0.0.255", "ALL", "ALL", "NONE", "80", "1"])] := by
  refine ⟨_, rfl, ?_⟩; decide

/-- Non-vacuity (TAP001): start node drawn from `starting_nodes`, target from `target_ips`; DOWNLOAD … C2 run on the start
node, PAYLOAD on the C2 server. -/
example :
    let c : Tap1.Cfg := { Tap1.exCfg with startingNodes := ["pc-a", "pc-b"], targetIps := ["t0", "t1"], c2Server := "c2" }
    ∃ s0, Tap1.init c 0 1 0 = some s0 ∧ s0.startNode = "pc-b" ∧ s0.targetIp = "t0" ∧
      ((Tap1.runOut c s0 0 (List.replicate 16 Tap1.exIn)).filterMap fun x =>
        match x.2 with
        | .act a => if a.kind = .doNothing then none else some a.node
        | .raised => none)
        = ["pc-b", "pc-b", "pc-b", "pc-b", "pc-b", "pc-b", "pc-b", "pc-b", "pc-b", "c2", "c2", "c2"] := by
  refine ⟨_, rfl, rfl, rfl, ?_⟩; decide

/-- The dict literals the parameter expressions of TAP001 read from (`c2_settings`, `payload_settings`,
`network_knowledge` in `setup_agent` and in `_network_knowledge_reset`) are the pinned ones. -/
theorem C19_gen_settings_dicts :
    Gen.Agents.tap1C2Settings = Tap1.c2Settings ∧ Gen.Agents.tap1PayloadSettings = Tap1.payloadSettings ∧
    Gen.Agents.tap1NetworkKnowledge = Tap1.networkKnowledge ∧
    Gen.Agents.tap1NetworkKnowledgeReset = Tap1.networkKnowledge := ⟨rfl, rfl, rfl, rfl⟩

/-- Where `current_host` and `chosen_application` are assigned, and from what (`Tap1.Kind.app`; the model sets
`host := startNode` in exactly these stage methods and `host := c2Server` in `_payload`). -/
theorem C19_gen_current_host :
    Gen.Agents.tap1ChosenApplication = Tap1.chosenApplication ∧ Gen.Agents.tap1CurrentHost = Tap1.currentHost ∧
    Gen.Agents.tap3CurrentHost = Tap3.currentHost := ⟨rfl, rfl, rfl⟩

/-- `_select_start_node` / `_select_target_ip` have the shape `Agents.pick` models: default when the list is falsy,
otherwise `random.choice` of the list. -/
theorem C19_gen_select :
    Gen.Agents.selectStartNode = selectStartNode ∧ Gen.Agents.selectTargetIp = selectTargetIp := ⟨rfl, rfl⟩

/-- **`actions_concluded` is written nowhere else** (source level): the only assignment to an attribute of that name in
any method under game/agent is `self.actions_concluded = True` in `AbstractTAP._tap_outcome_handler` — the writer the
models have (`outcomeHandler`; `C19_tap{1,3}_concluded_run` for what follows from it over a run). -/
theorem C19_gen_concluded_writers : Gen.Agents.concludedWriters = concludedWriters := rfl

end Primaite.Agents
