/-
C19, part 4 (round 3) — "only from its configured start nodes and only with actions it is configured to use":
the PARAMETERS of every action a threat-actor agent returns come from its configuration.

The models (Model/AgentsTap.lean) now carry the values: the node an action runs on, scan targets, credentials, ACL
fields; the remaining parameters are functions of the configuration listed in `Kind.spec` (key, source expression,
value — one table, pinned against the extractor by `C19_gen_action_params`).  The theorems below are invariants over
whole runs from the constructor (any draws, any responses, any length).
-/
import PrimaiteModel.Props.C19Run
namespace Primaite.Agents

/-! ## 16. `_select_start_node` / `_select_target_ip` -/

/-- **The selected start node (target address) is a configured one**: an element of the configured list, or — only when
that list is empty — the configured default. -/
theorem C19_select_from_config (xs : List Val) (d : Val) (k : Nat) (v : Val) (h : pick xs d k = some v) :
    (xs = [] ∧ v = d) ∨ v ∈ xs := by
  unfold pick at h
  split at h
  · rename_i he
    left
    cases h
    exact ⟨by simpa using he, rfl⟩
  · right
    exact List.mem_of_getElem? h

/-- … and the selection never fails for an index `random.choice` can draw. -/
theorem C19_select_total (xs : List Val) (d : Val) (k : Nat) (hk : xs = [] ∨ k < xs.length) : (pick xs d k).isSome = true := by
  unfold pick
  split
  · rfl
  · rename_i he
    rcases hk with hk | hk
    · simp [hk] at he
    · simp [hk]

/-! ## 17. TAP001: every action runs on the selected start node or the configured C2 server, every scan target is a
configured network address, the live hosts of the previous scan, or the selected target -/
namespace Tap1

/-- `v` is the agent's start node or the configured C2 server. -/
def NodeOK (c : Cfg) (n : Val) (v : Val) : Prop := v = n ∨ v = c.c2Server

/-- A scan target that names a network address names entry `i` of `PROPAGATE.network_addresses` with its value. -/
def TgtOK (c : Cfg) : Option Target → Prop
  | some (.addr i v) => c.addrs[i]? = some v
  | _ => True

def ActOK (c : Cfg) (n : Val) (a : Act) : Prop := (a.kind = .doNothing ∨ NodeOK c n a.node) ∧ TgtOK c a.tgt

/-- The parameter invariant: `starting_node` and `target_ip` keep the values selected in `setup_agent`; `current_host`,
the remembered `chosen_action` and `next_scan_target` hold configured values only. -/
def PInv (c : Cfg) (n ip : Val) (s : St) : Prop :=
  s.startNode = n ∧ s.targetIp = ip ∧ NodeOK c n s.host ∧ ActOK c n s.chosen ∧ TgtOK c (some s.nextTarget)

theorem P_of_fields (c : Cfg) (n ip : Val) (s s' : St) (h : PInv c n ip s) (e1 : s'.startNode = s.startNode)
    (e2 : s'.targetIp = s.targetIp) (e3 : NodeOK c n s'.host) (e4 : ActOK c n s'.chosen)
    (e5 : TgtOK c (some s'.nextTarget)) : PInv c n ip s' :=
  ⟨by rw [e1]; exact h.1, by rw [e2]; exact h.2.1, e3, e4, e5⟩

theorem actOK_nothing (c : Cfg) (n : Val) : ActOK c n Act.nothing := ⟨Or.inl rfl, trivial⟩

/-- an action of any kind on `current_host`, without a scan target -/
theorem actOK_host (c : Cfg) (n ip : Val) (s : St) (h : PInv c n ip s) (k : Kind) : ActOK c n { kind := k, node := s.host } :=
  ⟨Or.inr h.2.2.1, trivial⟩

theorem actOK_start (c : Cfg) (n ip : Val) (s : St) (h : PInv c n ip s) (k : Kind) : ActOK c n { kind := k, node := s.startNode } :=
  ⟨Or.inr (Or.inl h.1), trivial⟩

/- `pcl` closes a goal `PInv c n ip s'` where `s'` differs from `s` in fields the invariant does not read, or sets
`chosen_action` to do-nothing / an action on `current_host` / an action on `starting_node` (with `current_host := starting_node`) -/
set_option hygiene false in
macro "pcl" : tactic => `(tactic| first
  | exact h
  | exact ⟨h.1, h.2.1, h.2.2.1, actOK_nothing c n, h.2.2.2.2⟩
  | exact ⟨h.1, h.2.1, h.2.2.1, actOK_host c n ip s h _, h.2.2.2.2⟩
  | exact ⟨h.1, h.2.1, Or.inl h.1, actOK_start c n ip s h _, h.2.2.2.2⟩
  | exact ⟨h.1, h.2.1, Or.inl h.1, h.2.2.2.1, h.2.2.2.2⟩)

theorem P_failStage (c : Cfg) (n ip : Val) (s : St) (h : PInv c n ip s) : PInv c n ip (failStage c s) := by
  unfold failStage; split <;> pcl

theorem P_progress (c : Cfg) (n ip : Val) (s : St) (h : PInv c n ip s) : PInv c n ip (progress s) := by
  unfold progress; repeat' split
  all_goals pcl

theorem P_progressIfFinished (c : Cfg) (n ip : Val) (s : St) (h : PInv c n ip s) : PInv c n ip (progressIfFinished s) := by
  unfold progressIfFinished; split
  · exact P_progress c n ip s h
  · exact h

theorem P_nothing (c : Cfg) (n ip : Val) (s : St) (h : PInv c n ip s) : PInv c n ip { s with chosen := Act.nothing } := by pcl

theorem P_payloadHandler (c : Cfg) (n ip : Val) (s : St) (h : PInv c n ip s) : PInv c n ip (payloadHandler s).1 := by
  unfold payloadHandler; repeat' split
  all_goals pcl

theorem P_payloadContinue (c : Cfg) (n ip : Val) (s : St) (h : PInv c n ip s) : PInv c n ip (payloadContinue s) := by
  unfold payloadContinue; split
  · exact P_payloadHandler c n ip s h
  · exact h

theorem P_payloadEnter (c : Cfg) (i : In) (n ip : Val) (s : St) (h : PInv c n ip s) : PInv c n ip (payloadEnter c i s) := by
  unfold payloadEnter; split
  · split
    · exact ⟨h.1, h.2.1, Or.inr rfl, ⟨Or.inr (Or.inr rfl), trivial⟩, h.2.2.2.2⟩
    · exact P_failStage c n ip _ (P_nothing c n ip s h)
  · exact h

theorem P_payload (c : Cfg) (i : In) (n ip : Val) (s : St) (h : PInv c n ip s) : PInv c n ip (payload c i s) := by
  unfold payload; split
  · exact h
  · exact P_progressIfFinished c n ip _ (P_payloadEnter c i n ip _ (P_payloadContinue c n ip s h))

theorem P_c2c (c : Cfg) (i : In) (n ip : Val) (s : St) (h : PInv c n ip s) : PInv c n ip (c2c c i s) := by
  unfold c2c; split
  · exact h
  · split
    · split
      · pcl
      · exact P_failStage c n ip _ (P_nothing c n ip s h)
    · split
      · split
        · pcl
        · apply P_progress; pcl
      · exact h

theorem P_updateNextScanTarget (c : Cfg) (i : In) (e : Bool) (n ip : Val) (s : St) (h : PInv c n ip s) :
    PInv c n ip (updateNextScanTarget c i e s) := by
  unfold updateNextScanTarget
  split
  · split
    · rename_i a ha
      exact ⟨h.1, h.2.1, h.2.2.1, h.2.2.2.1, ha⟩
    · split
      · pcl
      · split
        · split
          · rename_i a ha
            exact ⟨h.1, h.2.1, h.2.2.1, h.2.2.2.1, ha⟩
          · pcl
        · pcl
  · split
    · exact ⟨h.1, h.2.1, h.2.2.1, h.2.2.2.1, trivial⟩
    · exact h

theorem P_scanResponseHandler (c : Cfg) (i : In) (r : Resp) (n ip : Val) (s : St) (h : PInv c n ip s) :
    PInv c n ip (scanResponseHandler c i r s) := by
  unfold scanResponseHandler
  split
  · split <;> pcl
  · split
    · pcl
    · exact P_updateNextScanTarget c i _ n ip _ (by pcl)

theorem P_scanMark (c : Cfg) (p : Hist) (n ip : Val) (s : St) (h : PInv c n ip s) : PInv c n ip (scanMark p s) := by
  unfold scanMark; split <;> pcl

theorem P_scanAbsorb (c : Cfg) (i : In) (p : Hist) (n ip : Val) (s : St) (h : PInv c n ip s) :
    PInv c n ip (scanAbsorb c i p s) := by
  unfold scanAbsorb; split
  · exact P_scanResponseHandler c i _ n ip s h
  · exact h

theorem P_scanLogic (c : Cfg) (n ip : Val) (s : St) (h : PInv c n ip s) : PInv c n ip (scanLogic s).1 := by
  unfold scanLogic; repeat' split
  all_goals pcl

theorem P_scanAction (c : Cfg) (ty : ScanType) (n ip : Val) (s : St) (h : PInv c n ip s) : PInv c n ip (scanAction ty s) := by
  unfold scanAction; split
  · exact ⟨h.1, h.2.1, h.2.2.1, ⟨Or.inr h.2.2.1, h.2.2.2.2⟩, h.2.2.2.2⟩
  · exact ⟨h.1, h.2.1, h.2.2.1, ⟨Or.inr h.2.2.1, trivial⟩, trivial⟩
  · exact ⟨h.1, h.2.1, h.2.2.1, ⟨Or.inr h.2.2.1, h.2.2.2.2⟩, h.2.2.2.2⟩
  · pcl

theorem P_scanProgress (c : Cfg) (n ip : Val) (s : St) (h : PInv c n ip s) : PInv c n ip (scanProgress s).1 := by
  unfold scanProgress; repeat' split
  all_goals pcl

theorem P_scanDecide (c : Cfg) (n ip : Val) (s : St) (h : PInv c n ip s) : PInv c n ip (scanDecide c s).1 := by
  unfold scanDecide; split
  · exact P_failStage c n ip _ (P_nothing c n ip s h)
  · exact P_scanProgress c n ip _ (P_scanAction c _ n ip _ (P_scanLogic c n ip s h))

theorem P_scanHandler (c : Cfg) (i : In) (n ip : Val) (s : St) (h : PInv c n ip s) : PInv c n ip (scanHandler c i s).1 := by
  unfold scanHandler
  split
  · pcl
  · split
    · pcl
    · exact P_scanDecide c n ip _ (P_scanAbsorb c i _ n ip _ (P_scanMark c _ n ip _ (by pcl)))

theorem P_propagatePrep (c : Cfg) (n ip : Val) (s : St) (h : PInv c n ip s) : PInv c n ip (propagatePrep c s) := by
  unfold propagatePrep propagateReset
  split
  · split
    · rename_i a ha
      exact ⟨h.1, h.2.1, Or.inl h.1, h.2.2.2.1, ha⟩
    · pcl
  · exact h

theorem P_propagateFirstScan (c : Cfg) (n ip : Val) (s : St) (h : PInv c n ip s) : PInv c n ip (propagateFirstScan s) :=
  ⟨h.1, h.2.1, h.2.2.1, ⟨Or.inr h.2.2.1, h.2.2.2.2⟩, h.2.2.2.2⟩

theorem P_propagate (c : Cfg) (i : In) (n ip : Val) (s : St) (h : PInv c n ip s) : PInv c n ip (propagate c i s) := by
  unfold propagate; split
  · exact h
  · split
    · apply P_progressIfFinished
      have := P_scanHandler c i n ip s h
      exact this
    · split
      · exact P_propagateFirstScan c n ip _ (P_propagatePrep c n ip s h)
      · exact P_failStage c n ip _ (P_nothing c n ip s h)

theorem P_activate (c : Cfg) (n ip : Val) (s : St) (h : PInv c n ip s) : PInv c n ip (activate s) := by
  unfold activate; split
  · exact h
  · apply P_progress; pcl

theorem P_install (c : Cfg) (n ip : Val) (s : St) (h : PInv c n ip s) : PInv c n ip (install s) := by
  unfold install; split
  · exact h
  · apply P_progress; pcl

theorem P_downloadAct (c : Cfg) (n ip : Val) (s : St) (h : PInv c n ip s) : PInv c n ip (downloadAct s) := by
  unfold downloadAct; repeat' split
  all_goals pcl

theorem P_download (c : Cfg) (n ip : Val) (s : St) (h : PInv c n ip s) : PInv c n ip (download s) := by
  unfold download; split
  · exact h
  · exact P_progressIfFinished c n ip _ (P_downloadAct c n ip s h)

theorem P_tapStart (c : Cfg) (n ip : Val) (s : St) (h : PInv c n ip s) : PInv c n ip (tapStart s) := by
  unfold tapStart; repeat' split
  all_goals pcl

theorem P_bodies (c : Cfg) (i : In) (n ip : Val) (s : St) (h : PInv c n ip s) : PInv c n ip (bodies c i s) := by
  unfold bodies
  exact P_tapStart c n ip _ (P_download c n ip _ (P_install c n ip _ (P_activate c n ip _ (P_propagate c i n ip _
    (P_c2c c i n ip _ (P_payload c i n ip s h))))))

theorem P_outcomeHandler (c : Cfg) (n ip : Val) (s : St) (h : PInv c n ip s) : PInv c n ip (outcomeHandler c s) := by
  unfold outcomeHandler; repeat' split
  all_goals pcl

theorem P_setNext (c : Cfg) (b d : Int) (n ip : Val) (s : St) (h : PInv c n ip s) : PInv c n ip (setNext c s b d) := by
  unfold setNext; split <;> pcl

theorem P_returnHandler (c : Cfg) (x : Hist) (n ip : Val) (s : St) (h : PInv c n ip s) : PInv c n ip (returnHandler c x s) := by
  unfold returnHandler; split <;> pcl

theorem P_curT (c : Cfg) (t : Int) (n ip : Val) (s : St) (h : PInv c n ip s) : PInv c n ip { s with curT := t } := by pcl

theorem P_mainPath (c : Cfg) (t : Int) (i : In) (n ip : Val) (s : St) (h : PInv c n ip s) : PInv c n ip (mainPath c s t i) := by
  unfold mainPath
  exact P_bodies c i n ip _ (P_outcomeHandler c n ip _ (P_setNext c _ _ n ip _ (P_curT c t n ip s h)))

theorem P_failPath (c : Cfg) (t : Int) (i : In) (n ip : Val) (s : St) (h : PInv c n ip s) : PInv c n ip (failPath c s t i) := by
  unfold failPath
  exact P_setNext c _ _ n ip _ (P_curT c t n ip _ (P_outcomeHandler c n ip _ (P_setNext c _ _ n ip s h)))

theorem P_getAction (c : Cfg) (t : Int) (i : In) (n ip : Val) (s : St) (h : PInv c n ip s) :
    PInv c n ip (getAction c s t i).1 ∧ ActOK c n (getAction c s t i).2 := by
  unfold getAction
  split
  · exact ⟨h, actOK_nothing c n⟩
  · split
    · exact ⟨by pcl, actOK_nothing c n⟩
    · rename_i x _
      have hr := P_returnHandler c x n ip s h
      have hm := P_mainPath c t i n ip _ hr
      have hf := P_failPath c t i n ip _ hr
      split
      · simp only []
        exact ⟨hm, hm.2.2.2.1⟩
      · simp only []
        exact ⟨hf, hf.2.2.2.1⟩

theorem P_step (c : Cfg) (t : Int) (i : In) (n ip : Val) (s : St) (h : PInv c n ip s) :
    PInv c n ip (step c s t i).1 ∧ ∀ a, (step c s t i).2 = .act a → ActOK c n a := by
  have hg := P_getAction c t i n ip s h
  unfold step
  split
  · exact ⟨h, fun a ha => by cases ha⟩
  · split
    · exact ⟨by pcl, fun a ha => by cases ha⟩
    · exact ⟨hg.1, fun a ha => by cases ha; exact hg.2⟩

theorem run_P (c : Cfg) (n ip : Val) : ∀ (ins : List In) (s : St) (t : Int), PInv c n ip s →
    ∀ t' a, (t', Out.act a) ∈ runOut c s t ins → ActOK c n a := by
  intro ins
  induction ins with
  | nil => intro s t _ t' a hm; simp [runOut] at hm
  | cons i is ih =>
    intro s t h t' a hm
    have hs := P_step c t i n ip s h
    simp only [runOut, List.mem_cons] at hm
    rcases hm with heq | hm
    · exact hs.2 a (Prod.mk.inj heq).2.symm
    · exact ih _ (t + 1) hs.1 t' a hm

/-- What the constructor selected. -/
theorem init_picks (c : Cfg) (d0 : Int) (k1 k2 : Nat) (s0 : St) (h0 : init c d0 k1 k2 = some s0) :
    pick c.startingNodes c.defaultStartingNode k1 = some s0.startNode ∧
    pick c.targetIps c.defaultTargetIp k2 = some s0.targetIp ∧
    PInv c s0.startNode s0.targetIp s0 := by
  unfold init at h0
  split at h0
  · rename_i hv
    cases h0
    obtain ⟨_, hn, hs, ht⟩ := hv
    obtain ⟨v1, e1⟩ := Option.isSome_iff_exists.1 hs
    obtain ⟨v2, e2⟩ := Option.isSome_iff_exists.1 ht
    have ha : c.addrs[0]? = some (c.addrs.headD "") := by
      unfold Cfg.nAddr at hn
      cases hl : c.addrs with
      | nil => rw [hl] at hn; simp at hn
      | cons a r => simp
    refine ⟨by rw [e1]; rfl, by rw [e2]; rfl, rfl, rfl, Or.inl rfl, actOK_nothing c _, ha⟩
  · cases h0

/-- **Only from its configured start nodes, only with configured targets (TAP001, run level).**  In every run from the
constructor — any settings, any start-node / target draws, any schedule, trial and scan draws, any responses, any
length — every action the agent returns other than do-nothing

* runs on the node `_select_start_node` selected — an element of `starting_nodes`, or `default_starting_node` when that
  list is empty — or on the configured `c2_server_name`;
* has as scan target entry `i` of `PROPAGATE.network_addresses` (with exactly that value), the live-host list of the
  previous ping scan, or the address `_select_target_ip` selected (element of `target_ips`, or `default_target_ip`);

and all its other parameters are the functions of the configuration listed in `Kind.spec` (by definition of `render`). -/
theorem C19_tap1_params_from_config (c : Cfg) (d0 : Int) (k1 k2 : Nat) (s0 : St) (ins : List In)
    (h0 : init c d0 k1 k2 = some s0) :
    ((c.startingNodes = [] ∧ s0.startNode = c.defaultStartingNode) ∨ s0.startNode ∈ c.startingNodes) ∧
    ((c.targetIps = [] ∧ s0.targetIp = c.defaultTargetIp) ∨ s0.targetIp ∈ c.targetIps) ∧
    ∀ t a, (t, Out.act a) ∈ runOut c s0 0 ins → a.kind ≠ .doNothing →
      (a.node = s0.startNode ∨ a.node = c.c2Server) ∧
      (∀ j v, a.tgt = some (.addr j v) → c.addrs[j]? = some v) := by
  obtain ⟨h1, h2, hp⟩ := init_picks c d0 k1 k2 s0 h0
  refine ⟨C19_select_from_config _ _ _ _ h1, C19_select_from_config _ _ _ _ h2, ?_⟩
  intro t a hm hne
  have := run_P c _ _ ins s0 0 hp t a hm
  refine ⟨?_, ?_⟩
  · rcases this.1 with hk | hk
    · exact absurd hk hne
    · exact hk
  · intro j v hj
    have ht := this.2
    rw [hj] at ht
    exact ht

/-- The first parameter of every action is the node it runs on (`node_name` / `source_node` = `Act.node`). -/
theorem render_node (c : Cfg) (s : St) (a : Act) (h : a.kind ≠ .doNothing) :
    ∃ key rest, (a.render c s).2 = (key, PVal.str a.node) :: rest ∧ (key = "node_name" ∨ key = "source_node") := by
  unfold Act.render
  cases hk : a.kind <;> simp_all [Kind.spec, pNode]

end Tap1
end Primaite.Agents
