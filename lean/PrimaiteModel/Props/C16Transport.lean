/-
C16 — transport: logins and commands across a path that may be blocked per direction (`Net.blocked`, router ACL) and the
"half-open" outcomes this creates: the request arrives, the reply is dropped.

Every theorem of Props/C16.lean and Props/C16Conn.lean is stated for ALL states, so it already covers every value of
`Net.blocked` / `Net.hairpin` and the operation `setBlock`.  This file adds what is specific to a path with two directions:
* the three outcomes of a remote login, with the exact condition of each (`C16_remote_login_outcomes`);
* what a half-open login leaves behind (`C16_half_open_login`): a session the target lists (it counts against
  `max_remote_sessions`), a server-side connection, nothing on the client, answer `failure`;
* nobody can ever use it: `Orphan y i` ("no node holds a client connection with id `i` towards `y`") is invariant under every
  operation sequence (`C16_orphan_run`), it holds right after a half-open login (`C16_half_open_is_orphan`), and under it no
  command is ever accepted on that session (`C16_orphan_session_never_carries`);
* a command whose answer is dropped is executed and answered `failure` (`C16_command_reply_dropped`), a command whose request
  is dropped changes nothing (`C16_command_request_dropped`).
-/
import PrimaiteModel.Props.C16Conn
namespace Primaite.Session

/-- what the rig's abstraction of the routers (`Medium` in harness/rigs/session.py) relies on: a router that is not ON drops every
frame first thing; ARP frames are exempt from the ACL, so a DENY rule for ARP closes no direction (the rig checks both on real routers) -/
theorem C16_gen_router_medium :
    Gen.Session.routerOffDropsEveryFrame = true ∧
    Gen.Session.routerSubjectToAcl =
      ["frame.ip.protocol == 'udp' and frame.is_arp and isinstance(frame.payload, ARPPacket) -> return False", "return True"] := by
  decide

/-! ### the outcomes of a remote login over a path with two directions -/

/-- **C16, transport (login).** A remote login of `x` towards `y` has exactly three outcomes:
* refused — nothing changes anywhere, answer ≠ success;
* **half-open** — the request arrived (`x` ON, direction `x → y` open), the credentials are valid and the limit is not reached,
  so `y` opened the session and its server-side connection, but the reply could not travel back (direction `y → x` closed: blocked,
  or `x`'s NIC / terminal down): answer `failure`, the client learns nothing;
* success — both directions open: additionally the client holds its connection. -/
theorem C16_remote_login_outcomes (n : Net) (x y : Nat) (u p : String) :
    ((step n (.req x (.remoteLogin y u p))).1 = n ∧ (step n (.req x (.remoteLogin y u p))).2 ≠ .success) ∨
    ∃ a b, n.node x = some a ∧ a.isOn = true ∧ canDeliver n x y = true ∧ n.node y = some b ∧ AuthOK b u p ∧
      b.rem.length < b.maxRemote ∧
      ((canDeliver n y x = false ∧ (step n (.req x (.remoteLogin y u p))).2 = .failure ∧
          (step n (.req x (.remoteLogin y u p))).1 = afterLogin n x y u) ∨
       (canDeliver n y x = true ∧ (step n (.req x (.remoteLogin y u p))).2 = .success ∧
          (step n (.req x (.remoteLogin y u p))).1 = (afterLogin n x y u).upd x (Node.addConn ⟨n.nextId, some y⟩))) := by
  simp only [step, execCmd]
  rcases opRemoteLogin_cases n x y u p with h0 | ⟨a, b, ha, hon, hdel, hb, hok, hlt, ⟨h1, h2, h3⟩ | ⟨h1, h2, h3⟩⟩
  · exact Or.inl h0
  · rw [canDeliver_afterLogin] at h2
    exact Or.inr ⟨a, b, ha, hon, hdel, hb, (loginOk_iff _ _ _).mp hok, hlt, Or.inl ⟨h2, h3, h1⟩⟩
  · rw [canDeliver_afterLogin] at h2
    exact Or.inr ⟨a, b, ha, hon, hdel, hb, (loginOk_iff _ _ _).mp hok, hlt, Or.inr ⟨h2, h3, h1⟩⟩

theorem afterLogin_node_ne (n : Net) (x y : Nat) (u : String) {j : Nat} (h : j ≠ y) : (afterLogin n x y u).node j = n.node j := by
  have h' : ¬ y = j := fun h' => h h'.symm
  simp [afterLogin, h']

theorem afterLogin_node (n : Net) (x y : Nat) (u : String) {b : Node} (hb : n.node y = some b) :
    (afterLogin n x y u).node y = some ((b.addSession ⟨n.nextId, u, n.time, x⟩).addConn ⟨n.nextId, some x⟩) := by
  simp [afterLogin, hb]

theorem mem_putConn_self (l : List Conn) (d : Conn) : d ∈ putConn l d := by
  unfold putConn
  split
  · rename_i h
    obtain ⟨e, he, hid⟩ := List.any_eq_true.mp h
    exact List.mem_map.mpr ⟨e, he, by simp [hid]⟩
  · simp

theorem half_open_result (n : Net) (x y : Nat) (u p : String) (a b : Node) (ha : n.node x = some a) (hon : a.isOn = true)
    (hb : n.node y = some b) (hreq : canDeliver n x y = true) (hrep : canDeliver n y x = false) (hauth : AuthOK b u p)
    (hlt : b.rem.length < b.maxRemote) : step n (.req x (.remoteLogin y u p)) = (afterLogin n x y u, .failure) := by
  have hok := (loginOk_iff _ _ _).mpr hauth
  have hrep' : canDeliver (afterLogin n x y u) y x = false := by rw [canDeliver_afterLogin]; exact hrep
  unfold afterLogin at hrep' ⊢
  simp only [step, execCmd]
  unfold opRemoteLogin
  simp only [ha, hb, hon, hreq, hok, hlt, Bool.not_true, Bool.false_eq_true, if_false, decide_true, Bool.and_self, if_true, hrep']

/-- **C16, transport (half-open login).** Request direction open, reply direction closed, valid credentials, limit not reached:
the login is answered `failure`; no node other than `y` changes (the client holds no connection); `y` lists the new session —
so it counts against `max_remote_sessions` (`C16_limit_boundary`) until it ends — and holds the server-side connection. -/
theorem C16_half_open_login (n : Net) (x y : Nat) (u p : String) (a b : Node) (ha : n.node x = some a) (hon : a.isOn = true)
    (hb : n.node y = some b) (hreq : canDeliver n x y = true) (hrep : canDeliver n y x = false) (hauth : AuthOK b u p)
    (hlt : b.rem.length < b.maxRemote) :
    (step n (.req x (.remoteLogin y u p))).2 = .failure ∧
    (step n (.req x (.remoteLogin y u p))).1.nextId = n.nextId + 1 ∧
    (∀ j, j ≠ y → (step n (.req x (.remoteLogin y u p))).1.node j = n.node j) ∧
    ∃ b', (step n (.req x (.remoteLogin y u p))).1.node y = some b' ∧ b'.rem = b.rem ++ [⟨n.nextId, u, n.time, x⟩] ∧
      (⟨n.nextId, some x⟩ : Conn) ∈ b'.conns ∧ b'.users = b.users := by
  rw [half_open_result n x y u p a b ha hon hb hreq hrep hauth hlt]
  refine ⟨rfl, by simp [afterLogin], fun j hj => afterLogin_node_ne n x y u hj, _, afterLogin_node n x y u hb, rfl, ?_, rfl⟩
  exact mem_putConn_self _ _

/-! ### nobody can use a session whose client never learnt of it -/

/-- `i` is an id already handed out and no node holds a *client* connection with id `i` towards `y`: nodes other than `y` hold no
connection with that id at all (and it is not their local-session id, from which a local connection could be made); a connection
of `y` itself with that id does not name `y` as its peer (it is the server-side object of somebody else's session). -/
structure Orphan (y i : Nat) (n : Net) : Prop where
  old : i < n.nextId
  others : ∀ x a, x ≠ y → n.node x = some a → (∀ c ∈ a.conns, c.id ≠ i) ∧ ∀ l, a.loc = some l → l.id ≠ i
  self : ∀ b, n.node y = some b → ∀ c ∈ b.conns, c.id = i → c.peer ≠ some y

/-- what one operation (or part of one) may do to the connection tables as far as old ids are concerned: every connection
afterwards was there before, or carries an id handed out since, or is a local connection made from the node's own (old) local
session; a local session afterwards is the old one or has a new id -/
structure ConnStep (n m : Net) : Prop where
  mono : n.nextId ≤ m.nextId
  node : ∀ j b', m.node j = some b' → ∃ b, n.node j = some b ∧
    (∀ c ∈ b'.conns, c ∈ b.conns ∨ n.nextId ≤ c.id ∨ (c.peer = none ∧ ∃ l, b.loc = some l ∧ l.id = c.id)) ∧
    (∀ l, b'.loc = some l → b.loc = some l ∨ n.nextId ≤ l.id)

theorem ConnStep.refl (n : Net) : ConnStep n n :=
  ⟨Nat.le_refl _, fun _ b' h => ⟨b', h, fun _ hc => Or.inl hc, fun _ hl => Or.inl hl⟩⟩

theorem ConnStep.trans {n m k : Net} (h1 : ConnStep n m) (h2 : ConnStep m k) : ConnStep n k := by
  refine ⟨Nat.le_trans h1.mono h2.mono, fun j b'' hb'' => ?_⟩
  obtain ⟨b', hb', hc2, hl2⟩ := h2.node j b'' hb''
  obtain ⟨b, hb, hc1, hl1⟩ := h1.node j b' hb'
  have hm := h1.mono
  refine ⟨b, hb, fun c hc => ?_, fun l hl => ?_⟩
  · rcases hc2 c hc with h | h | ⟨hp, l, hl, hid⟩
    · exact hc1 c h
    · exact Or.inr (Or.inl (by omega))
    · rcases hl1 l hl with h | h
      · exact Or.inr (Or.inr ⟨hp, l, h, hid⟩)
      · exact Or.inr (Or.inl (by omega))
  · rcases hl2 l hl with h | h
    · exact hl1 l h
    · exact Or.inr (by omega)

theorem orphan_of_connStep {y i : Nat} {n m : Net} (h : ConnStep n m) (ho : Orphan y i n) : Orphan y i m := by
  have hold := ho.old
  refine ⟨Nat.lt_of_lt_of_le ho.old h.mono, fun x a' hxy ha' => ?_, fun b' hb' c hc hid => ?_⟩
  · obtain ⟨a, ha, hc, hl⟩ := h.node x a' ha'
    obtain ⟨o1, o2⟩ := ho.others x a hxy ha
    refine ⟨fun c hcm hid => ?_, fun l hlm hid => ?_⟩
    · rcases hc c hcm with h1 | h1 | ⟨_, l, hl', hid'⟩
      · exact o1 c h1 hid
      · omega
      · exact o2 l hl' (hid'.trans hid)
    · rcases hl l hlm with h1 | h1
      · exact o2 l h1 hid
      · omega
  · obtain ⟨b, hb, hcs, _⟩ := h.node y b' hb'
    rcases hcs c hc with h1 | h1 | ⟨hp, _⟩
    · exact ho.self b hb c h1 hid
    · omega
    · rw [hp]; simp

/-- everything that only removes connections / ends local sessions -/
theorem connStep_of_connShr {n m : Net} (h : Net.Rel ConnShr n m) (hid : n.nextId ≤ m.nextId) : ConnStep n m := by
  refine ⟨hid, fun j b' hb' => ?_⟩
  obtain ⟨b, hb, hab⟩ := Net.Rel.back_of_len h hb'
  refine ⟨b, hb, fun c hc => Or.inl (hab.1.subset hc), fun l hl => ?_⟩
  rcases hab.2 with g | g
  · exact Or.inl (g ▸ hl)
  · rw [g] at hl; cases hl

theorem connStep_localLogin (n : Net) (y : Nat) (u p : String) : ConnStep n (localLogin n y u p).1 := by
  rcases localLogin_cases n y u p with h | ⟨nd, hnd, _, h⟩ <;> rw [h]
  · exact ConnStep.refl n
  · refine ⟨by simp only [bump_nextId]; split <;> omega, fun j b' hb' => ?_⟩
    simp only [node_bump, node_upd] at hb'
    by_cases hj : y = j
    · subst hj
      simp only [if_true, hnd, Option.map_some, Option.some.injEq] at hb'
      subst hb'
      refine ⟨nd, hnd, ?_, ?_⟩
      · intro c hc
        rcases localLoginCore_fst nd u n.time n.nextId with ⟨h1, _⟩ | ⟨h1, _⟩ <;> rw [h1] at hc
        · exact Or.inl hc
        · exact Or.inl hc
      · intro l hl
        rcases localLoginCore_fst nd u n.time n.nextId with ⟨h1, _⟩ | ⟨h1, _⟩ <;> rw [h1] at hl
        · exact Or.inl hl
        · simp only [Node.setLoc, Option.some.injEq] at hl; subst hl; exact Or.inr (Nat.le_refl _)
    · simp only [hj, if_false] at hb'
      exact ⟨b', hb', fun _ hc => Or.inl hc, fun _ hl => Or.inl hl⟩

/-- one connection put into the terminal of node `y` -/
theorem connStep_put {m m' : Net} {y : Nat} {d : Conn} (hput : PutAt m m' y d) (hK : m.nextId ≤ m'.nextId)
    (hd : m.nextId ≤ d.id ∨ (d.peer = none ∧ ∃ b l, m.node y = some b ∧ b.loc = some l ∧ l.id = d.id)) : ConnStep m m' := by
  refine ⟨hK, fun j b' hb' => ?_⟩
  obtain ⟨b, hb, hloc, hcs⟩ := hput j b' hb'
  refine ⟨b, hb, fun c hc => ?_, fun l hl => Or.inl (hloc ▸ hl)⟩
  rw [hcs] at hc
  split at hc
  · rename_i hj
    rcases mem_putConn hc with h | h
    · exact Or.inl h
    · subst h
      rcases hd with h | ⟨hp, b0, l, hb0, hl, hid⟩
      · exact Or.inr (Or.inl h)
      · subst hj; rw [hb] at hb0; cases hb0
        exact Or.inr (Or.inr ⟨hp, l, hl, hid⟩)
  · exact Or.inl hc

/-- … on top of an earlier part of the same operation, with an id handed out since the operation began -/
theorem connStep_put_fresh {n m m' : Net} {y : Nat} {d : Conn} (h : ConnStep n m) (hput : PutAt m m' y d) (hK : m.nextId ≤ m'.nextId)
    (hd : n.nextId ≤ d.id) : ConnStep n m' := by
  refine ⟨Nat.le_trans h.mono hK, fun j b' hb' => ?_⟩
  obtain ⟨bm, hbm, hloc, hcs⟩ := hput j b' hb'
  obtain ⟨b, hb, hc1, hl1⟩ := h.node j bm hbm
  refine ⟨b, hb, fun c hc => ?_, fun l hl => hl1 l (hloc ▸ hl)⟩
  rw [hcs] at hc
  split at hc
  · rcases mem_putConn hc with h1 | h1
    · exact hc1 c h1
    · subst h1; exact Or.inr (Or.inl hd)
  · exact hc1 c hc

theorem connStep_localConn (n : Net) (y : Nat) (u p : String) (id : Nat) (hid : (localLogin n y u p).2 = some id) :
    ConnStep n ((localLogin n y u p).1.upd y (Node.addConn ⟨id, none⟩)) := by
  refine (connStep_localLogin n y u p).trans ?_
  obtain ⟨b, l, hb, hl, hlid⟩ := localLogin_id hid
  exact connStep_put (putAt_upd (localLogin n y u p).1 y ⟨id, none⟩ (fun b => b) (fun b => ⟨rfl, rfl⟩) (localLogin n y u p).1.nextId)
    (Nat.le_refl _) (Or.inr ⟨rfl, b, l, hb, hl, hlid⟩)

theorem connStep_remoteLogin (n : Net) (x y : Nat) (u p : String) : ConnStep n (opRemoteLogin n x y u p).1 := by
  rcases opRemoteLogin_cases n x y u p with ⟨h0, _⟩ | ⟨a, b, _, _, _, _, _, _, h0⟩
  · rw [h0]; exact ConnStep.refl n
  · have hA : ConnStep n (afterLogin n x y u) := by
      unfold afterLogin
      exact connStep_put (putAt_upd n y ⟨n.nextId, some x⟩ (fun b => b.addSession ⟨n.nextId, u, n.time, x⟩) (fun b => ⟨rfl, rfl⟩) _)
        (by simp) (Or.inl (Nat.le_refl _))
    rcases h0 with ⟨h0, _⟩ | ⟨h0, _⟩ <;> rw [h0]
    · exact hA
    · -- the client's connection carries the id handed out by this login
      exact connStep_put_fresh hA (putAt_upd (afterLogin n x y u) x ⟨n.nextId, some y⟩ (fun b => b) (fun b => ⟨rfl, rfl⟩)
        (afterLogin n x y u).nextId) (Nat.le_refl _) (Nat.le_refl _)

theorem connStep_step (n : Net) (op : Op) : ConnStep n (step n op).1 := by
  have F := connShr_frame
  have r : ∀ j (a : Node), ConnShr j a a := F.refl
  cases op with
  | enableUser y u => exact connStep_of_connShr (F.toPre.enableUser n y u (fun a => r y a)) (step_nextId_mono n (.enableUser y u))
  | addUserBypass y u p adm =>
    exact connStep_of_connShr (F.toPre.addUserBypass n y u p adm (fun a _ => r y a)) (step_nextId_mono n (.addUserBypass y u p adm))
  | localLogin y u p => simp only [step]; rw [opLocalLogin_fst]; exact connStep_localLogin n y u p
  | localLogout y => exact connStep_of_connShr (F.localLogout n y) (step_nextId_mono n (.localLogout y))
  | tick => exact connStep_of_connShr (F.tick n) (step_nextId_mono n .tick)
  | setBlock x y on => exact connStep_of_connShr (rel_setBlock F.refl n x y on) (Nat.le_refl _)
  | req y c =>
    refine exec_induction'' ConnStep ConnStep.refl (fun _ _ _ h1 h2 => h1.trans h2) ?_
      (fun n y cid => connStep_of_connShr (F.rel_shr F.shr (F.rel_refl n) (shr_disconnect _ _ _ _))
        (by rw [(shr_disconnect _ _ _ _).nextId]; exact Nat.le_refl _))
      (fun n y cid t => connStep_of_connShr (F.rel_upd (F.rel_refl n) y _ (fun a => r y a)) (Nat.le_refl _))
      (fun n y u p => connStep_localLogin n y u p) (fun n y u p id hid => connStep_localConn n y u p id hid) c n y
    intro c hc n y
    have mono := exec_nextId_mono c n y
    cases c with
    | localCmd u p c => cases hc
    | remoteCmd z c => cases hc
    | remoteLogin z u p => exact connStep_remoteLogin n y z u p
    | file k => exact connStep_of_connShr (F.toPre.file n y k (fun a => r y a)) mono
    | addUser u p adm => exact connStep_of_connShr (F.toPre.addUser n y u p adm (fun a _ => r y a)) mono
    | disableUser u => exact connStep_of_connShr (F.toPre.disableUser n y u (fun a => r y a)) mono
    | changePassword u o nw => exact connStep_of_connShr (F.changePassword n y u o nw (fun a => r y a)) mono
    | remoteLogoff z => exact connStep_of_connShr (F.remoteLogoff n y z) mono
    | usmLogin u p peer => exact connStep_of_connShr (F.toPre.usmLogin n y u p peer (fun a _ => r y a)) mono
    | usmLogout i => exact connStep_of_connShr (F.usmLogout n y i) mono
    | svc w v => exact connStep_of_connShr (F.ofData n _ _ (opSvc_cases n _ _ _)) mono
    | shutdown => exact connStep_of_connShr (F.ofData n _ _ (opShutdown_cases n _)) mono
    | startup => exact connStep_of_connShr (F.ofData n _ _ (opStartup_cases n _)) mono
    | reset => exact connStep_of_connShr (F.ofData n _ _ (opReset_cases n _)) mono

/-- **C16, transport (orphan sessions, one step).** Nested commands included. -/
theorem C16_orphan_step (n : Net) (op : Op) (y i : Nat) (h : Orphan y i n) : Orphan y i (step n op).1 :=
  orphan_of_connStep (connStep_step n op) h

/-- **C16, transport (orphan sessions).** Over every operation sequence — whatever is blocked or opened again, whoever logs in
or out, whatever commands are nested — nobody ever comes to hold a client connection with that id towards `y`. -/
theorem C16_orphan_run (ops : List Op) (n : Net) (y i : Nat) (h : Orphan y i n) : Orphan y i (run n ops) := by
  induction ops generalizing n with
  | nil => exact h
  | cons op ops ih => exact ih _ (C16_orphan_step n op y i h)

/-- … so no remote command is ever accepted on that session: a command that arrives at `y` (from any node, `y` itself over the
gateway included) travels on a connection with another id.  With `C16_remote_command_outcomes` / `Carried`: the orphan session can
never run a command; it ends by time-out, password change or the target's own logout. -/
theorem C16_orphan_session_never_carries (ops : List Op) (n : Net) (y i : Nat) (h : Orphan y i n) (x : Nat) (a' b' : Node) (cn : Conn)
    (arr : CmdArrives (run n ops) x y a' b' cn) : cn.id ≠ i := by
  have ho := C16_orphan_run ops n y i h
  have hmem : cn ∈ a'.conns := List.mem_of_find?_eq_some arr.conn
  have hpeer : cn.peer = some y := by have := List.find?_some arr.conn; simpa using this
  by_cases hxy : x = y
  · subst hxy
    intro hid
    exact ho.self a' arr.src cn hmem hid hpeer
  · exact (ho.others x a' hxy arr.src).1 cn hmem

/-- **C16, transport (a half-open login leaves an orphan).** In a reachable state (`ConnInv`: every id in use has been handed out)
the session created by a half-open login is an orphan from the start — and by `C16_orphan_run` for ever. -/
theorem C16_half_open_is_orphan (n : Net) (hi : ConnInv n) (x y : Nat) (u p : String) (a b : Node) (ha : n.node x = some a)
    (hon : a.isOn = true) (hb : n.node y = some b) (hreq : canDeliver n x y = true) (hrep : canDeliver n y x = false)
    (hauth : AuthOK b u p) (hlt : b.rem.length < b.maxRemote) :
    Orphan y n.nextId (step n (.req x (.remoteLogin y u p))).1 := by
  obtain ⟨_, hnext, hother, b', hb', _, _, _⟩ := C16_half_open_login n x y u p a b ha hon hb hreq hrep hauth hlt
  have hxy : x ≠ y := by
    intro h; subst h; rw [hreq] at hrep; cases hrep
  have hres : (step n (.req x (.remoteLogin y u p))).1 = afterLogin n x y u := by
    rw [half_open_result n x y u p a b ha hon hb hreq hrep hauth hlt]
  refine ⟨by rw [hnext]; omega, fun z c hzy hc => ?_, fun b'' hb'' c hc hid => ?_⟩
  · rw [hother z hzy] at hc
    exact ⟨fun d hd hid => by have := hi.ids z c d hc hd; omega, fun l hl hid => by have := hi.locIds z c l hc hl; omega⟩
  · rw [hres, afterLogin_node n x y u hb] at hb''
    simp only [Option.some.injEq] at hb''
    subst hb''
    simp only [Node.addConn, Node.addSession] at hc
    rcases mem_putConn hc with h1 | h1
    · have := hi.ids y b c hb h1; omega
    · subst h1; simp only [ne_eq, Option.some.injEq]; exact hxy

/-! ### commands over a path with two directions -/

/-- **C16, transport (command, request dropped).** If the frame carrying the command cannot reach the target (direction blocked, a
NIC down, the target's terminal not RUNNING), nothing changes anywhere and the answer is not `success`. -/
theorem C16_command_request_dropped (n : Net) (x z : Nat) (c : Cmd) (h : canDeliver n x z = false) :
    (step n (.req x (.remoteCmd z c))).1 = n ∧ (step n (.req x (.remoteCmd z c))).2 ≠ .success := by
  rcases opRemoteCmdK_cases (fun m => execCmd c m z) n x z with h0 | ⟨_, _, _, arr, _⟩
  · exact h0
  · rw [arr.path] at h; cases h

/-- **C16, transport (command, answer).** For a command that arrived on a live session with a known connection, the state is that
of the carried command executed on the target after the session's clock was set, and the answer is the carried command's answer
*if the reply direction is open after the execution* (or the node commanded itself through its gateway: client and server are then
one Terminal object and no answer frame is needed) — otherwise `failure`, although the command was executed (the client cannot tell
a dropped answer from a refused command; `success` always means "executed and answered success"). -/
theorem C16_command_answer (n : Net) (x z : Nat) (c : Cmd) (a b : Node) (cn : Conn) (arr : CmdArrives n x z a b cn)
    (hs : b.hasSession cn.id = true) (hc : b.hasConn cn.id = true) :
    (step n (.req x (.remoteCmd z c))).1 = (step (n.upd z (Node.touch cn.id n.time)) (.req z c)).1 ∧
    (step n (.req x (.remoteCmd z c))).2 =
      if (x == z || canDeliver (step (n.upd z (Node.touch cn.id n.time)) (.req z c)).1 z x) = true
      then (step (n.upd z (Node.touch cn.id n.time)) (.req z c)).2 else .failure := by
  simp only [step, execCmd]
  unfold opRemoteCmdK
  simp only [arr.src, arr.srcOn, arr.conn, arr.srcTerm, arr.path, arr.dst, hs, hc, Bool.not_true, Bool.false_eq_true, if_false, if_true]
  exact ⟨trivial, rfl⟩

/-! ### the whole chain of a nested command, as one statement -/

/-- "Operation `op`, started in state `n`, creates file `k` on node `y` through a chain of accepted terminal commands": either the
direct file request to `y` (ON), or a remote command that arrived on a connection whose id is at that moment a remote session and a
connection of the next node — whose carried command is again such a chain, started in the state where only that session's clock
was set — or a local command with credentials passing `_login` on a node whose terminal is RUNNING, likewise. -/
inductive FileChain : Net → Op → Nat → Nat → Prop
  | direct (n : Net) (y k : Nat) (b : Node) (hb : n.node y = some b) (hon : b.isOn = true) : FileChain n (.req y (.file k)) y k
  | remote (n : Net) (x z : Nat) (c : Cmd) (a' b' : Node) (cn : Conn) (y k : Nat) (arr : CmdArrives n x z a' b' cn)
      (hs : b'.hasSession cn.id = true) (hc : b'.hasConn cn.id = true)
      (rest : FileChain (n.upd z (Node.touch cn.id n.time)) (.req z c) y k) : FileChain n (.req x (.remoteCmd z c)) y k
  | local (n : Net) (x : Nat) (u p : String) (c : Cmd) (nd : Node) (id : Nat) (y k : Nat) (hnd : n.node x = some nd)
      (hon : nd.isOn = true) (hok : nd.loginOk u p = true) (hrun : nd.term.running = true)
      (hid : (localLogin n x u p).2 = some id)
      (rest : FileChain ((localLogin n x u p).1.upd x (Node.addConn ⟨id, none⟩)) (.req x c) y k) :
      FileChain n (.req x (.localCmd u p c)) y k

theorem files_of_keepFiles {n m : Net} (h : Net.Rel KeepFiles n m) {y : Nat} {b : Node} (hb : n.node y = some b) :
    ∃ b', m.node y = some b' ∧ b'.files = b.files := h.node y b hb

/-- **C16, commands (closed form over the whole nesting).** If any operation changes the files of node `y`, then it is a
`FileChain`: at EVERY hop of the nested command the sender was ON with its terminal RUNNING, the path to the next node was open in
the request direction, and the connection used carried the id of a session the next node listed at that moment (or the hop was a
local command with valid credentials); exactly the commanded file was added.  No depth bound. -/
theorem C16_command_runs_only_live_closed (n : Net) (op : Op) (y : Nat) (b a : Node) (hb : n.node y = some b)
    (ha : (step n op).1.node y = some a) (hne : a.files ≠ b.files) : ∃ k, FileChain n op y k ∧ a.files = b.files ++ [k] := by
  cases op with
  | req x c =>
    induction c generalizing n x b with
    | remoteCmd z c ih =>
      rcases C16_command_runs_only_live n _ y b a hb ha hne with ⟨_, h, _⟩ | h
      · cases h
      · cases h with
        | «local» y' u p c' nd id hop => cases hop
        | remote x' z' c' a' b' cn hop arr hs hc heq =>
          cases hop
          rw [heq] at ha
          obtain ⟨b1, hb1, hf1⟩ := files_of_keepFiles (keepFiles_frame.rel_upd (keepFiles_frame.rel_refl n) z
            (Node.touch cn.id n.time) (fun _ => rfl)) hb
          obtain ⟨k, hch, hfiles⟩ := ih _ b1 hb1 (by rw [hf1]; exact hne) z ha
          exact ⟨k, FileChain.remote n x z c a' b' cn y k arr hs hc hch, by rw [hfiles, hf1]⟩
    | localCmd u p c ih =>
      rcases C16_command_runs_only_live n _ y b a hb ha hne with ⟨_, h, _⟩ | h
      · cases h
      · cases h with
        | remote x' z' c' a' b' cn hop => cases hop
        | «local» y' u' p' c' nd id hop hnd hon hok hrun hid heq =>
          cases hop
          rw [heq] at ha
          have hrel : Net.Rel KeepFiles n ((localLogin n x u p).1.upd x (Node.addConn ⟨id, none⟩)) :=
            keepFiles_frame.rel_upd (keepFiles_frame.toPre.localLogin n x u p (fun _ _ => rfl)) x _ (fun _ => rfl)
          obtain ⟨b1, hb1, hf1⟩ := files_of_keepFiles hrel hb
          obtain ⟨k, hch, hfiles⟩ := ih _ b1 hb1 (by rw [hf1]; exact hne) x ha
          exact ⟨k, FileChain.local n x u p c nd id y k hnd hon hok hrun hid hch, by rw [hfiles, hf1]⟩
    | file k =>
      rcases C16_command_runs_only_live n _ y b a hb ha hne with ⟨k', h, hon, hf⟩ | h
      · cases h; exact ⟨k, FileChain.direct n y k b hb hon, hf⟩
      · exact (not_carried_of_atomic rfl h).elim
    | addUser u p adm =>
      rcases C16_command_runs_only_live n _ y b a hb ha hne with ⟨_, h, _⟩ | h
      · cases h
      · exact (not_carried_of_atomic rfl h).elim
    | disableUser u =>
      rcases C16_command_runs_only_live n _ y b a hb ha hne with ⟨_, h, _⟩ | h
      · cases h
      · exact (not_carried_of_atomic rfl h).elim
    | changePassword u o nw =>
      rcases C16_command_runs_only_live n _ y b a hb ha hne with ⟨_, h, _⟩ | h
      · cases h
      · exact (not_carried_of_atomic rfl h).elim
    | remoteLogin z u p =>
      rcases C16_command_runs_only_live n _ y b a hb ha hne with ⟨_, h, _⟩ | h
      · cases h
      · exact (not_carried_of_atomic rfl h).elim
    | remoteLogoff z =>
      rcases C16_command_runs_only_live n _ y b a hb ha hne with ⟨_, h, _⟩ | h
      · cases h
      · exact (not_carried_of_atomic rfl h).elim
    | usmLogin u p peer =>
      rcases C16_command_runs_only_live n _ y b a hb ha hne with ⟨_, h, _⟩ | h
      · cases h
      · exact (not_carried_of_atomic rfl h).elim
    | usmLogout i =>
      rcases C16_command_runs_only_live n _ y b a hb ha hne with ⟨_, h, _⟩ | h
      · cases h
      · exact (not_carried_of_atomic rfl h).elim
    | svc w v =>
      rcases C16_command_runs_only_live n _ y b a hb ha hne with ⟨_, h, _⟩ | h
      · cases h
      · exact (not_carried_of_atomic rfl h).elim
    | shutdown =>
      rcases C16_command_runs_only_live n _ y b a hb ha hne with ⟨_, h, _⟩ | h
      · cases h
      · exact (not_carried_of_atomic rfl h).elim
    | startup =>
      rcases C16_command_runs_only_live n _ y b a hb ha hne with ⟨_, h, _⟩ | h
      · cases h
      · exact (not_carried_of_atomic rfl h).elim
    | reset =>
      rcases C16_command_runs_only_live n _ y b a hb ha hne with ⟨_, h, _⟩ | h
      · cases h
      · exact (not_carried_of_atomic rfl h).elim
  | enableUser y' u =>
    rcases C16_command_runs_only_live n _ y b a hb ha hne with ⟨_, h, _⟩ | h
    · cases h
    · cases h with
      | remote x' z' c' a' b' cn hop => cases hop
      | «local» y'' u' p' c' nd id hop => cases hop
  | addUserBypass y' u p adm =>
    rcases C16_command_runs_only_live n _ y b a hb ha hne with ⟨_, h, _⟩ | h
    · cases h
    · cases h with
      | remote x' z' c' a' b' cn hop => cases hop
      | «local» y'' u' p' c' nd id hop => cases hop
  | localLogin y' u p =>
    rcases C16_command_runs_only_live n _ y b a hb ha hne with ⟨_, h, _⟩ | h
    · cases h
    · cases h with
      | remote x' z' c' a' b' cn hop => cases hop
      | «local» y'' u' p' c' nd id hop => cases hop
  | localLogout y' =>
    rcases C16_command_runs_only_live n _ y b a hb ha hne with ⟨_, h, _⟩ | h
    · cases h
    · cases h with
      | remote x' z' c' a' b' cn hop => cases hop
      | «local» y'' u' p' c' nd id hop => cases hop
  | tick =>
    rcases C16_command_runs_only_live n _ y b a hb ha hne with ⟨_, h, _⟩ | h
    · cases h
    · cases h with
      | remote x' z' c' a' b' cn hop => cases hop
      | «local» y'' u' p' c' nd id hop => cases hop
  | setBlock x' y' on =>
    rcases C16_command_runs_only_live n _ y b a hb ha hne with ⟨_, h, _⟩ | h
    · cases h
    · cases h with
      | remote x'' z' c' a' b' cn hop => cases hop
      | «local» y'' u' p' c' nd id hop => cases hop

/-! ### non-vacuity -/

/-- `demoNet` with the direction 1 → 0 blocked: requests of node 0 reach node 1, the replies are dropped -/
def demoBack : Net := { demoNet with blocked := [(1, 0)] }

-- the hypotheses of `C16_half_open_login` / `C16_half_open_is_orphan` are met
example : canDeliver demoBack 0 1 = true ∧ canDeliver demoBack 1 0 = false := by decide
example : ConnInv demoBack := connInv_init demoBack (by
  intro j a ha
  match j, ha with
  | 0, ha => cases ha; exact ⟨rfl, rfl⟩
  | 1, ha => cases ha; exact ⟨rfl, rfl⟩
  | 2, ha => cases ha; exact ⟨rfl, rfl⟩)
-- half-open: answered failure, the target lists the session, the client holds nothing
example : (step demoBack login01).2 = .failure := by decide
example : ((step demoBack login01).1.node 1).map (fun b => (b.rem.length, b.conns.length)) = some (1, 1) := by decide
example : ((step demoBack login01).1.node 0).map (·.conns.length) = some 0 := by decide
-- it counts against the limit (maxRemote = 2): after two half-open logins a login over the re-opened path is refused …
example : (step (run demoBack [login01, login01, .setBlock 1 0 false]) login01).2 = .failure := by decide
-- … it cannot run commands, also after the path is open again …
example : (step (run demoBack [login01, .setBlock 1 0 false]) (cmd01 (.file 3))).2 = .failure := by decide
example : ((run demoBack [login01, .setBlock 1 0 false, cmd01 (.file 3)]).node 1).map (·.files) = some [] := by decide
-- … and it ends by its time-out (remoteTimeout = 2), after which a login succeeds again
example : ((run demoBack [login01, .tick, .tick]).node 1).map (·.rem.length) = some 0 := by decide
example : (step (run demoBack [login01, login01, .setBlock 1 0 false, .tick, .tick]) login01).2 = .success := by decide
-- a command whose answer is dropped: executed on the target, answered failure
example : (step (run demoNet [login01, .setBlock 1 0 true]) (cmd01 (.file 5))).2 = .failure ∧
    ((step (run demoNet [login01, .setBlock 1 0 true]) (cmd01 (.file 5))).1.node 1).map (·.files) = some [5] := by decide
-- a command whose request is dropped changes nothing
example : canDeliver (run demoNet [login01, .setBlock 0 1 true]) 0 1 = false := by decide
example : ((run demoNet [login01, .setBlock 0 1 true, cmd01 (.file 5)]).node 1).map (·.files) = some [] := by decide
-- a logoff whose message is dropped: the client's connection goes, the target keeps the session until its time-out
example : ((run demoNet [login01, .setBlock 0 1 true, .req 0 (.remoteLogoff 1)]).node 0).map (·.conns.length) = some 0 ∧
    ((run demoNet [login01, .setBlock 0 1 true, .req 0 (.remoteLogoff 1)]).node 1).map (·.rem.length) = some 1 := by decide
-- a time-out whose notification is dropped: the client keeps a stale connection; a command on it is rejected
example : ((run demoNet [login01, .setBlock 1 0 true, .tick, .tick]).node 0).map (·.conns.length) = some 1 ∧
    ((run demoNet [login01, .setBlock 1 0 true, .tick, .tick]).node 1).map (·.rem.length) = some 0 := by decide
example : (step (run demoNet [login01, .setBlock 1 0 true, .tick, .tick, .setBlock 1 0 false]) (cmd01 (.file 5))).2 = .failure := by decide
-- the hypotheses of the closed form are met by a two-hop nested command (node 2's files change)
example : ((run demoNet [login01, cmd01 (.remoteLogin 2 "admin" "admin")]).node 2).map (·.files) = some [] ∧
    ((run demoNet [login01, cmd01 (.remoteLogin 2 "admin" "admin"), cmd01 (.remoteCmd 2 (.file 9))]).node 2).map (·.files) = some [9] := by
  decide
-- the gateway hairpin: on a routed topology a node can open a session on itself (and only with valid credentials)
example : (step { demoNet with hairpin := true } (.req 1 (.remoteLogin 1 "admin" "admin"))).2 = .success := by decide
example : (step { demoNet with hairpin := true } (.req 1 (.remoteLogin 1 "admin" "nope"))).2 = .failure := by decide
example : (step demoNet (.req 1 (.remoteLogin 1 "admin" "admin"))).2 = .failure := by decide

end Primaite.Session
