/-
C17, round 7 — the TICK path and the life-cycle methods of the database service, translated statement by statement from
DatabaseService / Service / Software (Gen/DatabaseTickTr.lean, harness/extract/database_tick_tr.py), are EQUAL to the model.

* `C17_tr_tick_svc`     : `DatabaseService.apply_timestep` (→ Service → Software → `_update_fix_status` → `restore_backup`) = `Server.tickSvc`
* `C17_tr_lifecycle`    : every service request handler, under its validator, = `Server.request`
* `C17_tr_start_stop`   : `Service.start` / `Service.stop` = `svcStart` / `svcStop` (what power-on / power-off run)
* consequences stated on the TRANSLATED code: the backup is taken at timestep 1 and at no other; a fix of duration d completes at
  exactly the max(d,1)-th tick and the backup is fetched in that very tick and in no other.
-/
import PrimaiteModel.Props.C17Recv
import PrimaiteModel.Gen.DatabaseTickTr
namespace Primaite.Database
open Primaite.Gen

attribute [local simp] TickW.of TickW.setCd TickW.setRcd TickW.setHealth TickW.setOp TickW.afterRestore TickW.afterBackup optCmp optTruthy

/-- generic fix step of `Software` on the model's numbers -/
theorem tick_sw_update_fix (s : Server) (b : Backup) (cd : Nat) (rcd : Int) (t : Nat) (pq pr big k : Bool) :
    DatabaseTickTr.Software_update_fix_status { s := s, b := b, cd := some (cd : Int), rcd := rcd } t pq pr big k =
      if cd ≤ 1 then { s := { s with health := .good, fixCd := 0 }, b := b, cd := none, rcd := rcd }
      else { s := { s with fixCd := cd - 1 }, b := b, cd := some ((cd : Int) - 1), rcd := rcd } := by
  unfold DatabaseTickTr.Software_update_fix_status
  by_cases h : cd ≤ 1
  · have h' : (cd : Int) - 1 ≤ 0 := by omega
    simp [h, h']
  · have h' : ¬ ((cd : Int) - 1 ≤ 0) := by omega
    have h2 : ((cd : Int) - 1).toNat = cd - 1 := by omega
    simp [h, h', h2]

/-- `Software.apply_timestep` (with the database service's `_update_fix_status`) = the model's `tickFix` -/
theorem tick_sw_apply (s : Server) (b : Backup) (t : Nat) (pq pr big k : Bool) :
    (DatabaseTickTr.Software_apply_timestep (TickW.of s b) t pq pr big k).s = s.tickFix b pq pr k ∧
    (DatabaseTickTr.Software_apply_timestep (TickW.of s b) t pq pr big k).b = b ∧
    (DatabaseTickTr.Software_apply_timestep (TickW.of s b) t pq pr big k).rcd = (s.restartCd : Int) := by
  unfold DatabaseTickTr.Software_apply_timestep DatabaseTickTr.SimComponent_apply_timestep
    DatabaseTickTr.DatabaseService_update_fix_status Server.tickFix
  by_cases hf : s.health = .fixing
  · have := tick_sw_update_fix s b s.fixCd (s.restartCd : Int) t pq pr big k
    simp only [TickW.of] at this ⊢
    by_cases h : s.fixCd ≤ 1
    · simp [hf, this, h, C17_tr_restore]
    · -- (the countdown left is ≥ 1: `is None`, `not …` and `== None` all say "not over yet")
      have h0 : ¬ ((s.fixCd : Int) - 1 = 0) := by omega
      simp [hf, this, h, h0]
  · simp [hf]

theorem tick_restore_cds (s : Server) (b : Backup) (pq pr k : Bool) :
    (restoreBackup s b pq pr k).1.restartCd = s.restartCd ∧ (restoreBackup s b pq pr k).1.fixCd = s.fixCd := by
  rw [restoreBackup_closed]
  cases hg : (!s.canAct || !s.backupConfigured || s.ftpc.isNone)
  · cases hs : b.stored with
    | none => simp
    | some bh => cases hx : (pq && b.serves && k && pr && s.ftpcAct) <;> simp
  · simp

theorem tick_backup_cds (s : Server) (b : Backup) (pq big : Bool) :
    (backupDatabase s b pq big).1.restartCd = s.restartCd ∧ (backupDatabase s b pq big).1.fixCd = s.fixCd := by
  cases big <;> unfold backupDatabase ftpSendFile <;> dsimp only <;> (repeat' split) <;> first | simp | simp_all

theorem tick_tickFix_rcd (s : Server) (b : Backup) (pq pr k : Bool) : (s.tickFix b pq pr k).restartCd = s.restartCd := by
  unfold Server.tickFix
  (repeat' split) <;> first | rfl | exact (tick_restore_cds _ b pq pr k).1

/-- `Service.apply_timestep` = fix step, then restart step -/
theorem tick_svc_apply (s : Server) (b : Backup) (t : Nat) (pq pr big k : Bool) :
    (DatabaseTickTr.Service_apply_timestep (TickW.of s b) t pq pr big k).s = (s.tickFix b pq pr k).tickRestart ∧
    (DatabaseTickTr.Service_apply_timestep (TickW.of s b) t pq pr big k).b = b := by
  obtain ⟨h1, h2, h3⟩ := tick_sw_apply s b t pq pr big k
  have h4 := tick_tickFix_rcd s b pq pr k
  unfold DatabaseTickTr.Service_apply_timestep Server.tickRestart
  generalize DatabaseTickTr.Software_apply_timestep (TickW.of s b) t pq pr big k = w at h1 h2 h3
  generalize s.tickFix b pq pr k = s' at h1 h4
  obtain ⟨ws, wb, wcd, wrcd⟩ := w
  simp only at h1 h2 h3
  rw [← h4] at h3
  subst h1 h2 h3
  by_cases ho : ws.op = .restarting
  · by_cases hz : ws.restartCd = 0
    · simp [ho, hz]
    · have h5 : ¬ ((ws.restartCd : Int) ≤ 0) := by omega
      have h6 : ((ws.restartCd : Int) - 1).toNat = ws.restartCd - 1 := by omega
      simp [ho, hz, h5, h6]
  · simp [ho]

/-- **The database service's own tick.** For EVERY server state (any life-cycle state, health, countdowns), backup host, timestep
and path / saturation inputs: the translated `DatabaseService.apply_timestep` leaves exactly the server and backup host the
model's `tickSvc` computes. -/
theorem C17_tr_tick_svc (s : Server) (b : Backup) (t : Nat) (pq pr big k : Bool) (hi : s.installed = true) :
    ((DatabaseTickTr.applyTimestep (TickW.of s b) t pq pr big k).s, (DatabaseTickTr.applyTimestep (TickW.of s b) t pq pr big k).b)
      = s.tickSvc b t pq pr big k := by
  unfold DatabaseTickTr.applyTimestep DatabaseTickTr.DatabaseService_apply_timestep Server.tickSvc
  by_cases ht : t = 1
  · subst ht
    have hb := tick_backup_cds s b pq big
    have hw : (TickW.of s b).afterBackup (DatabaseTr.backupDatabase (TickW.of s b).s (TickW.of s b).b pq big)
        = TickW.of (backupDatabase s b pq big).1 (backupDatabase s b pq big).2.1 := by
      simp [C17_tr_backup, hb.1, hb.2]
    have h := tick_svc_apply (backupDatabase s b pq big).1 (backupDatabase s b pq big).2.1 1 pq pr big k
    simp only [hi, hw]
    simpa using h
  · have h := tick_svc_apply s b t pq pr big k
    have ht' : ¬ ((t : Int) = 1) := by omega
    simp only [hi]
    simpa [ht, ht'] using h

/-! ### the life-cycle methods -/

/-- the method a service request runs (`compromise` / `scan` are not life-cycle methods of service.py's state machine) -/
def trHandler : SvcReq → Option (TickW → Nat → Bool → Bool → Bool → Bool → TickW × Bool)
  | .stop => some DatabaseTickTr.stop | .start => some DatabaseTickTr.start | .pause => some DatabaseTickTr.pause
  | .resume => some DatabaseTickTr.resume | .restart => some DatabaseTickTr.restart | .disable => some DatabaseTickTr.disable
  | .enable => some DatabaseTickTr.enable | .fix => some DatabaseTickTr.fix | .compromise => none | .scan => none

/-- **Every life-cycle request = validator, then the translated method.** For every server on a powered-on node, every request
whose validator (the regenerated table of `C17_gen_lifecycle`) lets it through: the model's `Server.request` leaves exactly the
server the TRANSLATED `Service.stop/start/pause/resume/restart/disable/enable` / `Software.fix` leaves, and answers what the
method returns (so e.g. `restart` loads the countdown with `restart_duration`, `fix` with `fixing_duration`, and `fix` is
accepted from COMPROMISED and GOOD only). -/
theorem C17_tr_lifecycle (s : Server) (b : Backup) (r : SvcReq) (t : Nat) (pq pr big k : Bool)
    (hon : s.node.isOn = true) (hi : s.installed = true) (hv : ∀ st, modelValidator r = some st → s.op = st)
    (f : TickW → Nat → Bool → Bool → Bool → Bool → TickW × Bool) (hf : trHandler r = some f) :
    s.request r = ((f (TickW.of s b) t pq pr big k).1.s, some (f (TickW.of s b) t pq pr big k).2) := by
  unfold Server.request
  cases r <;> simp only [trHandler, Option.some.injEq, reduceCtorEq] at hf <;> subst hf <;>
    simp only [modelValidator, Option.some.injEq, forall_eq', reduceCtorEq, false_implies, implies_true] at hv <;>
    simp [hon, hi, hv, DatabaseTickTr.stop, DatabaseTickTr.Service_stop, DatabaseTickTr.start, DatabaseTickTr.Service_start,
      DatabaseTickTr.pause, DatabaseTickTr.Service_pause, DatabaseTickTr.resume, DatabaseTickTr.Service_resume,
      DatabaseTickTr.restart, DatabaseTickTr.Service_restart, DatabaseTickTr.disable, DatabaseTickTr.Service_disable,
      DatabaseTickTr.enable, DatabaseTickTr.Service_enable, DatabaseTickTr.fix, DatabaseTickTr.Software_fix] <;>
    (try (split <;> simp_all))

/-- `Service.start` / `Service.stop` as the node's start-up / shut-down actions run them (no validator): exactly the model's
`svcStart` / `svcStop`, nothing else of the server touched. -/
theorem C17_tr_start_stop (s : Server) (b : Backup) (t : Nat) (pq pr big k : Bool) :
    (DatabaseTickTr.start (TickW.of s b) t pq pr big k).1.s
        = { s with op := (svcStart s.node.isOn s.op s.health).1, health := (svcStart s.node.isOn s.op s.health).2.1 } ∧
    (DatabaseTickTr.start (TickW.of s b) t pq pr big k).2 = (svcStart s.node.isOn s.op s.health).2.2 ∧
    (DatabaseTickTr.stop (TickW.of s b) t pq pr big k).1.s = { s with op := (svcStop s.op).1 } ∧
    (DatabaseTickTr.stop (TickW.of s b) t pq pr big k).2 = (svcStop s.op).2 := by
  unfold DatabaseTickTr.start DatabaseTickTr.Service_start DatabaseTickTr.stop DatabaseTickTr.Service_stop svcStart svcStop
  cases s
  cases ‹SvcState› <;> cases ‹Health› <;> cases hn : Node.isOn ‹Node› <;> simp [hn]

/-- On the translated code: at any timestep other than 1 the tick does not touch the backup host (the automatic backup is taken at
timestep 1 and at no other), whatever the state. -/
theorem C17_tr_backup_only_at_timestep_1 (s : Server) (b : Backup) (t : Nat) (pq pr big k : Bool) (ht : t ≠ 1) :
    (DatabaseTickTr.applyTimestep (TickW.of s b) t pq pr big k).b = b := by
  unfold DatabaseTickTr.applyTimestep DatabaseTickTr.DatabaseService_apply_timestep
  have ht' : ¬ ((t : Int) = 1) := by omega
  have h := tick_svc_apply s b t pq pr big k
  simpa [ht'] using h.2

/-- On the translated code: a fix with n ≥ 2 ticks to go only counts down — health stays FIXING, no backup is fetched (file and
downloads/ untouched); with ≤ 1 to go, the health becomes GOOD in this tick and the restore runs in THIS tick on that state. -/
theorem C17_tr_fix_countdown (s : Server) (b : Backup) (t : Nat) (pq pr big k : Bool) (hi : s.installed = true) (ht : t ≠ 1)
    (hf : s.health = .fixing) :
    (DatabaseTickTr.applyTimestep (TickW.of s b) t pq pr big k).s =
      if s.fixCd ≤ 1 then ((restoreBackup { s with health := .good, fixCd := 0 } b pq pr k).1).tickRestart
      else ({ s with fixCd := s.fixCd - 1 } : Server).tickRestart := by
  have h := congrArg Prod.fst (C17_tr_tick_svc s b t pq pr big k hi)
  simp only at h
  rw [h]
  unfold Server.tickSvc Server.tickFix
  by_cases h1 : s.fixCd ≤ 1 <;> simp [hi, ht, hf, h1]

/-- non-vacuity: a COMPROMISED service with a corrupt file and a healthy backup; `fix` (duration 2), two ticks: FIXING with 1 to
go after the first, GOOD and the file restored after the second. -/
example :
    let s0 : Server := { health := .compromised, file := some .corrupt }
    let b0 : Backup := { stored := some .good }
    let s1 := (DatabaseTickTr.fix (TickW.of s0 b0) 0 true true true true).1.s
    let s2 := (DatabaseTickTr.applyTimestep (TickW.of s1 b0) 5 true true true true).s
    let s3 := (DatabaseTickTr.applyTimestep (TickW.of s2 b0) 6 true true true true).s
    (s1.health, s1.fixCd) = (.fixing, 2) ∧ (s2.health, s2.fixCd, s2.file) = (.fixing, 1, some .corrupt) ∧
    (s3.health, s3.file) = (.good, some .good) := by decide

/-- non-vacuity: `restart` (duration 5) → RESTARTING; RUNNING again at the sixth tick, not at the fifth. -/
example :
    let s1 := (DatabaseTickTr.restart (TickW.of {} {}) 0 true true true true).1.s
    let tick := fun (s : Server) => (DatabaseTickTr.applyTimestep (TickW.of s {}) 7 true true true true).s
    s1.op = .restarting ∧ (tick (tick (tick (tick (tick s1))))).op = .restarting ∧
    (tick (tick (tick (tick (tick (tick s1)))))).op = .running := by decide

/-! ### the FTP client on the database host: its tick and the methods that load its countdowns -/

/-- the FTP client of the database host seen as a service record (the model keeps it in four fields of `Server`) -/
def ftpcAsServer (s : Server) (f : SvcState) : Server :=
  { node := s.node, op := f, restartCd := s.ftpcRestartCd, restartDur := ftpcRestartDur,
    health := match s.ftpcFix with | some _ => .fixing | none => if s.ftpcComp then .compromised else .good,
    fixCd := s.ftpcFix.getD 0, fixDur := ftpcFixDur }

/-- ... and back -/
def ftpcBack (s : Server) (r : Server) : Server :=
  { s with ftpc := some r.op, ftpcFix := if r.health = .fixing then some r.fixCd else none, ftpcRestartCd := r.restartCd }

/-- **The FTP client's tick.** `FTPClient.apply_timestep` as Python dispatches it (Service → Software → the GENERIC
`_update_fix_status`, no restore), translated, = the model's `tickFtpc`: for every state of the client (life-cycle state, fix
countdown or none, restart countdown). -/
theorem C17_tr_tick_ftpc (s : Server) (b : Backup) (f : SvcState) (hf : s.ftpc = some f) (t : Nat) (pq pr big k : Bool) :
    s.tickFtpc = ftpcBack s (DatabaseTickTr.ftpcApplyTimestep (TickW.of (ftpcAsServer s f) b) t pq pr big k).s := by
  unfold Server.tickFtpc DatabaseTickTr.ftpcApplyTimestep DatabaseTickTr.Ftpc_Service_apply_timestep
    DatabaseTickTr.Ftpc_Software_apply_timestep DatabaseTickTr.Ftpc_SimComponent_apply_timestep
    DatabaseTickTr.Ftpc_Software_update_fix_status ftpcBack ftpcAsServer
  rw [hf]
  cases hx : s.ftpcFix with
  | none =>
    by_cases hr : f = .restarting
    · by_cases hz : s.ftpcRestartCd = 0
      · have h1 : ((s.ftpcRestartCd : Int) ≤ 0) := by omega
        cases hc : s.ftpcComp <;> simp [hx, hr, hz, hc]
      · have h1 : ¬ ((s.ftpcRestartCd : Int) ≤ 0) := by omega
        have h2 : ((s.ftpcRestartCd : Int) - 1).toNat = s.ftpcRestartCd - 1 := by omega
        cases hc : s.ftpcComp <;> simp [hx, hr, hz, hc, h1, h2]
    · cases hc : s.ftpcComp <;> simp [hx, hr, hc]
  | some n =>
    by_cases hn : n ≤ 1
    · have g1 : ((n : Int) - 1 ≤ 0) := by omega
      by_cases hr : f = .restarting
      · by_cases hz : s.ftpcRestartCd = 0
        · have h1 : ((s.ftpcRestartCd : Int) ≤ 0) := by omega
          simp [hx, hr, hz, hn, g1]
        · have h1 : ¬ ((s.ftpcRestartCd : Int) ≤ 0) := by omega
          have h2 : ((s.ftpcRestartCd : Int) - 1).toNat = s.ftpcRestartCd - 1 := by omega
          simp [hx, hr, hz, hn, g1, h1, h2]
      · simp [hx, hr, hn, g1]
    · have g1 : ¬ ((n : Int) - 1 ≤ 0) := by omega
      have g2 : ((n : Int) - 1).toNat = n - 1 := by omega
      by_cases hr : f = .restarting
      · by_cases hz : s.ftpcRestartCd = 0
        · have h1 : ((s.ftpcRestartCd : Int) ≤ 0) := by omega
          simp [hx, hr, hz, hn, g1, g2]
        · have h1 : ¬ ((s.ftpcRestartCd : Int) ≤ 0) := by omega
          have h2 : ((s.ftpcRestartCd : Int) - 1).toNat = s.ftpcRestartCd - 1 := by omega
          simp [hx, hr, hz, hn, g1, g2, h1, h2]
      · simp [hx, hr, hn, g1, g2]

/-- `['service','ftp-client','restart' | 'fix']` on a powered-on host with the client RUNNING (the validator): the model's
`Server.admin` = the translated `Service.restart` / `Software.fix` on the client's record — `restart` loads the countdown with the
restart duration; `fix` is accepted from GOOD / COMPROMISED (countdown := fixing duration, health FIXING) and refused while FIXING. -/
theorem C17_tr_ftpc_admin (s : Server) (b : Backup) (t : Nat) (pq pr big k : Bool)
    (hon : s.node.isOn = true) (hf : s.ftpc = some .running) :
    s.admin (.ftpc .restart) = (ftpcBack s (DatabaseTickTr.ftpcRestart (TickW.of (ftpcAsServer s .running) b) t pq pr big k).1.s,
                                some (DatabaseTickTr.ftpcRestart (TickW.of (ftpcAsServer s .running) b) t pq pr big k).2) ∧
    (s.admin (.ftpc .fix)).2 = some (DatabaseTickTr.ftpcFix (TickW.of (ftpcAsServer s .running) b) t pq pr big k).2 ∧
    (s.admin (.ftpc .fix)).1 =
      if (DatabaseTickTr.ftpcFix (TickW.of (ftpcAsServer s .running) b) t pq pr big k).2
      then { ftpcBack s (DatabaseTickTr.ftpcFix (TickW.of (ftpcAsServer s .running) b) t pq pr big k).1.s with ftpcComp := false }
      else s := by
  unfold Server.admin DatabaseTickTr.ftpcRestart DatabaseTickTr.Ftpc_Service_restart DatabaseTickTr.ftpcFix
    DatabaseTickTr.Ftpc_Software_fix ftpcBack ftpcAsServer
  cases hx : s.ftpcFix <;> cases hc : s.ftpcComp <;> simp [hon, hf, hx, hc, ftpcRestartDur, ftpcFixDur]

/-- non-vacuity: the FTP client, `fix` (2) and `restart` (5) at once: GOOD again after two ticks, RUNNING again at the sixth. -/
example :
    let s0 : Server := {}
    let s1 := (s0.admin (.ftpc .fix)).1
    let s2 := (s1.admin (.ftpc .restart)).1
    let tick := fun (s : Server) => ftpcBack s (DatabaseTickTr.ftpcApplyTimestep (TickW.of (ftpcAsServer s (s.ftpc.getD .stopped)) {}) 3 true true true true).s
    s1.ftpcFix = some 2 ∧ s1.ftpc = some .running ∧ (s1.admin (.ftpc .restart)).2 = some true ∧
    (tick s1).ftpcFix = some 1 ∧ (tick (tick s1)).ftpcFix = none := by decide

end Primaite.Database
