/-
C14, round 7: what the agent is SHOWN for a folder — the refresh flag `_scanned_this_step` (`Folder.scanned`), its reset in
`pre_timestep` (`Node.pre`) and `FolderObservation.observe` (`FolderObs.see / observe`, Model/HealthObs.lean).

* `folderEff_scanned`            — after any base operation the flag is `old flag || a scan of this folder completed in the step`
* `C14_flag_iff_scan_completes`  — after `pre_timestep; apply_timestep` a live folder's flag is set IFF a scan of it completed
* `C14_visible_change_sets_flag` — a step that changes a folder's visible health leaves the flag set
* `C14_flag_only_reset_by_pre`   — no base operation clears the flag
* `C14_obs_step`, `C14_obs_faithful` — for EVERY game (any request lists, any number of steps, deletions and restores of the folder
  included) the health `FolderObservation` reports after each step is the folder's `visible_health_status` of that moment (0 while
  the folder is deleted): the cache never goes stale. With the visible-only-by-scan theorems of Props/C14.lean this is the
  statement's clause "a folder's visible health changes only when a scan of it completes" about the value the agent really gets.
-/
import PrimaiteModel.Model.HealthObs
import PrimaiteModel.Props.C14
namespace Primaite.Health

/-! ## the flag -/

section flag
variable (G : Folder)

theorem Folder.instantScan_scanned : G.instantScan.scanned = (G.scanned || !G.deleted) := by
  unfold Folder.instantScan; cases hd : G.deleted <;> simp

theorem Folder.scanTick_scanned : G.scanTick.scanned = (G.scanned || decide (G.scanCd = 1)) := by
  unfold Folder.scanTick
  by_cases h0 : G.scanCd ≥ 0
  · by_cases h1 : G.scanCd - 1 = 0
    · have : G.scanCd = 1 := by omega
      simp [this]
    · have : ¬ G.scanCd = 1 := by omega
      simp [h0, h1, this]
  · have : ¬ G.scanCd = 1 := by omega
    simp [h0, this]

theorem Folder.restoreFinish_scanned : G.restoreFinish.scanned = G.scanned := by
  unfold Folder.restoreFinish; (repeat' split) <;> rfl

theorem Folder.restoreTick_scanned : G.restoreTick.scanned = G.scanned := by
  unfold Folder.restoreTick
  split
  · split
    · rw [Folder.restoreFinish_scanned]
    · rfl
  · rfl

theorem Folder.handle_scanned (r : ItemReq) : (G.handle r).1.scanned = G.scanned := by
  cases r <;> simp only [Folder.handle, Folder.scan, Folder.repair, Folder.restore, Folder.corrupt] <;>
    (repeat' split) <;> rfl

theorem Folder.restore_scanned : G.restore.scanned = G.scanned := by
  unfold Folder.restore; split <;> rfl

end flag

/-- after ANY base operation the flag of a folder is its old flag or "a scan of this folder completed in this step" — `Node.tick`
(= `apply_timestep`) only ever sets it, no request touches it -/
theorem folderEff_scanned (n : Node) (op : Op) (G : Folder) :
    (folderEff n op G).scanned = (G.scanned || folderScanCompletes n op G) := by
  cases op <;> simp only [folderEff, folderScanCompletes]
  case tick =>
    unfold folderTickEff Folder.tick
    by_cases hon : n.powerPhase.power = .on
    · by_cases hd : G.deleted = true
      · by_cases hs : n.powerPhase.scanCd = 1
        · simp [hon, hd, hs, Folder.instantScan_scanned]
        · simp [hon, hd, hs]
      · have hd' : G.deleted = false := by simpa using hd
        by_cases hs : n.powerPhase.scanCd = 1
        · simp only [hon, hs, if_true, Folder.instantScan_deleted, hd', Bool.false_eq_true, if_false]
          rw [Folder.restoreTick_scanned, Folder.scanTick_scanned, Folder.instantScan_scanned, Folder.instantScan_scanCd]
          simp [hd']
        · simp only [hon, hs, if_true, if_false, hd', Bool.false_eq_true]
          rw [Folder.restoreTick_scanned, Folder.scanTick_scanned]
          simp
    · simp [hon]
  case folder F r =>
    simp only [Bool.or_false]
    split
    · split
      · exact G.handle_scanned r
      · rfl
    · rfl
  case fsRestoreFolder F =>
    simp only [Bool.or_false]
    split
    · split
      · rcases Folder.restoreIn_cases n.folders G with e | e <;> rw [e]
        exact G.restore_scanned
      · rfl
    · rfl
  all_goals (simp only [Bool.or_false]; try ((repeat' split) <;> rfl))

/-- `pre_timestep` clears the flag of a live folder and changes nothing else; a deleted folder is not reached -/
theorem pre_folders (n : Node) : n.pre.folders = n.folders.map (fun F => if F.deleted then F else F.pre) := rfl

/-- **C14 (flag = "a scan of this folder completed in this timestep").** In a timestep (`apply_timestep`) that starts with the
folder's flag cleared — as `pre_timestep` leaves every live folder — the flag is set afterwards IF AND ONLY IF a scan of the
folder completed in it: the node is ON after the power phase, the folder is live, and the whole-node scan fans out or the folder's
own countdown stands at 1. -/
theorem C14_flag_iff_scan_completes (m : Node) (j : Nat) (G G' : Folder)
    (hG : m.folders[j]? = some G) (hclr : G.scanned = false) (hG' : m.tick.folders[j]? = some G') :
    G'.scanned = folderScanCompletes m .tick G := by
  have h := apply_folders m .tick
  simp only [Node.apply] at h
  rw [h, List.getElem?_map, hG] at hG'
  simp only [Option.map_some, Option.some.injEq] at hG'
  subst hG'
  rw [folderEff_scanned, hclr, Bool.false_or]

/-- the folder `pre_timestep` leaves at position `j` -/
theorem C14_pre_clears_live (n : Node) (j : Nat) (G : Folder) (hG : n.folders[j]? = some G) :
    n.pre.folders[j]? = some (if G.deleted then G else { G with scanned := false }) := by
  rw [pre_folders, List.getElem?_map, hG]; rfl

/-- **C14.** A step that changes a folder's visible health leaves its refresh flag set (so the next observation shows the new
value). -/
theorem C14_visible_change_sets_flag (n : Node) (op : Op) (j : Nat) (G G' : Folder)
    (hG : n.folders[j]? = some G) (hG' : (n.apply op).folders[j]? = some G') (hne : G'.visible ≠ G.visible) :
    G'.scanned = true := by
  have hc := (C14_folder_visible_only_by_scan n op j G G' hG hG' hne).1
  rw [apply_folders, List.getElem?_map, hG] at hG'
  simp only [Option.map_some, Option.some.injEq] at hG'
  subst hG'
  rw [folderEff_scanned, hc, Bool.or_true]

/-- **C14.** No base operation (requests, ticks, power events, Python-API writers) clears the flag: only `pre_timestep` does. -/
theorem C14_flag_only_reset_by_pre (n : Node) (op : Op) (j : Nat) (G G' : Folder)
    (hG : n.folders[j]? = some G) (hG' : (n.apply op).folders[j]? = some G') (hs : G.scanned = true) :
    G'.scanned = true := by
  rw [apply_folders, List.getElem?_map, hG] at hG'
  simp only [Option.map_some, Option.some.injEq] at hG'
  subst hG'
  rw [folderEff_scanned, hs, Bool.true_or]

/-! ## the observation -/

/-- the cache is current, or the flag says "refresh" -/
def obsJ (o : FolderObs) (G : Folder) : Prop := o.cached = G.visible ∨ G.scanned = true
/-- …and for a live folder the cache IS current (what holds right after an observation) -/
def obsR (o : FolderObs) (G : Folder) : Prop := obsJ o G ∧ (G.deleted = false → o.cached = G.visible)

theorem obsJ_eff (o : FolderObs) (n : Node) (op : Op) (G : Folder) (h : obsJ o G) : obsJ o (folderEff n op G) := by
  unfold obsJ at *
  rw [folderEff_scanned, folderEff_visible]
  cases hc : folderScanCompletes n op G
  · simpa using h
  · right; simp

theorem obsJ_pre (o : FolderObs) (G : Folder) (h : obsR o G) : obsJ o (if G.deleted then G else G.pre) := by
  cases hd : G.deleted
  · simp only [Bool.false_eq_true, if_false]
    exact Or.inl (h.2 hd)
  · simp only [if_true]
    exact h.1

/-- one observation of a folder for which `obsJ` holds, whatever identity `i` the observer is given for it: the reported value is
the folder's visible health (0 if it is deleted), and `obsR` holds afterwards -/
theorem obs_see (o : FolderObs) (G : Folder) (i : Nat) (hreq : o.requiresScan = true) (h : obsJ o G) :
    (o.see (if G.deleted then none else some (i, G))).1 = (if G.deleted then FsH.none else G.visible) ∧
    obsR (o.see (if G.deleted then none else some (i, G))).2 G ∧
    (o.see (if G.deleted then none else some (i, G))).2.requiresScan = true ∧
    (o.see (if G.deleted then none else some (i, G))).2.name = o.name := by
  cases hd : G.deleted
  · simp only [Bool.false_eq_true, if_false, FolderObs.see, hreq, if_true]
    cases hs : G.scanned
    · have hc : o.cached = G.visible := by
        rcases h with h | h
        · exact h
        · rw [hs] at h; exact absurd h (by decide)
      by_cases hid : o.cachedId = none ∨ o.cachedId = some i <;> simp [obsR, obsJ, hc, hid]
    · simp [obsR, obsJ]
  · simp only [if_true, FolderObs.see]
    exact ⟨trivial, ⟨h, fun hh => absurd hh (by simp [hd])⟩, hreq, trivial⟩

/-- the repaired case: a folder the observer has not read its cache from (another identity) is shown with its OWN visible health -/
theorem C14_obs_other_folder_shows_own (o : FolderObs) (G : Folder) (i j : Nat) (hreq : o.requiresScan = true)
    (hid : o.cachedId = some j) (hne : j ≠ i) : (o.see (some (i, G))).1 = G.visible := by
  have : ¬ (o.cachedId = none ∨ o.cachedId = some i) := by
    rw [hid]; intro h; rcases h with h | h
    · cases h
    · exact hne (Option.some.inj h)
  simp [FolderObs.see, hreq, this]

/-! ### by name -/

def Node.folderNamesNodup (n : Node) : Prop := (n.folders.map (·.name)).Nodup

theorem apply_folder_names (n : Node) (op : Op) : (n.apply op).folders.map (·.name) = n.folders.map (·.name) := by
  rw [apply_folders, List.map_map]
  apply List.map_congr_left
  intro G _
  simp only [Function.comp_def, folderEff_name]

theorem pre_folder_names (n : Node) : n.pre.folders.map (·.name) = n.folders.map (·.name) := by
  rw [pre_folders, List.map_map]
  apply List.map_congr_left
  intro G _
  simp only [Function.comp_def]
  split <;> rfl

theorem run_folder_names (n : Node) (ops : List Op) : (n.run ops).folders.map (·.name) = n.folders.map (·.name) := by
  induction ops generalizing n with
  | nil => rfl
  | cons op ops ih => simp only [Node.run]; rw [ih, apply_folder_names]

theorem find_map_name (l : List Folder) (g : Folder → Folder) (hg : ∀ G, (g G).name = G.name) (F : String) :
    (l.map g).find? (fun G => G.name = F) = (l.find? (fun G => G.name = F)).map g := by
  induction l with
  | nil => rfl
  | cons a l ih =>
    simp only [List.map_cons, List.find?_cons, hg]
    cases decide (a.name = F) <;> simp [ih]

theorem apply_findFolder (n : Node) (op : Op) (F : String) :
    (n.apply op).findFolder F = (n.findFolder F).map (folderEff n op) := by
  unfold Node.findFolder
  rw [apply_folders]
  exact find_map_name _ _ (folderEff_name n op) F

theorem pre_findFolder (n : Node) (F : String) :
    n.pre.findFolder F = (n.findFolder F).map (fun G => if G.deleted then G else G.pre) := by
  unfold Node.findFolder
  rw [pre_folders]
  exact find_map_name _ _ (fun G => by split <;> rfl) F

/-- under unique folder names the LIVE folder of a name is the folder of that name, if it is live -/
theorem liveFolder_of_find (l : List Folder) (hn : (l.map (·.name)).Nodup) (F : String) :
    l.find? (fun G => G.name = F && !G.deleted) =
      match l.find? (fun G => G.name = F) with
      | some G => if G.deleted then none else some G
      | none => none := by
  induction l with
  | nil => rfl
  | cons a l ih =>
    simp only [List.map_cons, List.nodup_cons] at hn
    simp only [List.find?_cons]
    by_cases ha : a.name = F
    · cases hd : a.deleted
      · simp [ha, hd]
      · simp only [ha, hd, decide_true, Bool.not_true, Bool.and_false, if_true]
        -- no other folder of that name
        rw [List.find?_eq_none.mpr]
        intro G hG
        have : G.name ≠ F := by
          intro e
          apply hn.1
          rw [ha, ← e]
          exact List.mem_map_of_mem hG
        simp [this]
    · simp only [ha, decide_false, Bool.false_and]
      exact ih hn.2

/-- the by-name invariants -/
def NodeJ (o : FolderObs) (n : Node) : Prop := ∀ G, n.findFolder o.name = some G → obsJ o G
def NodeR (o : FolderObs) (n : Node) : Prop := ∀ G, n.findFolder o.name = some G → obsR o G

theorem NodeJ_apply (o : FolderObs) (n : Node) (op : Op) (h : NodeJ o n) : NodeJ o (n.apply op) := by
  intro G' hG'
  rw [apply_findFolder] at hG'
  cases hG : n.findFolder o.name with
  | none => rw [hG] at hG'; exact absurd hG' (by simp)
  | some G =>
    rw [hG] at hG'
    simp only [Option.map_some, Option.some.injEq] at hG'
    subst hG'
    exact obsJ_eff o n op G (h G hG)

theorem NodeJ_run (o : FolderObs) (n : Node) (ops : List Op) (h : NodeJ o n) : NodeJ o (n.run ops) := by
  induction ops generalizing n with
  | nil => exact h
  | cons op ops ih => exact ih _ (NodeJ_apply o n op h)

theorem NodeJ_pre (o : FolderObs) (n : Node) (h : NodeR o n) : NodeJ o n.pre := by
  intro G' hG'
  rw [pre_findFolder] at hG'
  cases hG : n.findFolder o.name with
  | none => rw [hG] at hG'; exact absurd hG' (by simp)
  | some G =>
    rw [hG] at hG'
    simp only [Option.map_some, Option.some.injEq] at hG'
    subst hG'
    exact obsJ_pre o G (h G hG)

theorem NodeJ_gameStep (o : FolderObs) (n : Node) (reqs : List Op) (h : NodeR o n) : NodeJ o (n.gameStep reqs) := by
  unfold Node.gameStep
  exact NodeJ_apply o _ .tick (NodeJ_run o _ reqs (NodeJ_pre o n h))

theorem gameStep_folder_names (n : Node) (reqs : List Op) :
    (n.gameStep reqs).folders.map (·.name) = n.folders.map (·.name) := by
  unfold Node.gameStep
  have := apply_folder_names (n.pre.run reqs) .tick
  simp only [Node.apply] at this
  rw [this, run_folder_names, pre_folder_names]

/-- **C14 (one game step).** Whatever the agents request in a step (any list of operations — scans, deletions, restores of the
folder, extra ticks), if the observer's cache was current after the previous step, then the health `FolderObservation` reports
after this step is the folder's visible health as `describe_state()` shows it now (0 if there is no live folder of that name), and
the cache is current again. -/
theorem C14_obs_step (o : FolderObs) (n : Node) (reqs : List Op) (hn : n.folderNamesNodup) (hreq : o.requiresScan = true)
    (h : NodeR o n) :
    (o.observe (n.gameStep reqs)).1 = ((n.gameStep reqs).seenFolder o.name).getD .none ∧
    NodeR (o.observe (n.gameStep reqs)).2 (n.gameStep reqs) ∧
    (o.observe (n.gameStep reqs)).2.requiresScan = true ∧ (o.observe (n.gameStep reqs)).2.name = o.name := by
  have hJ := NodeJ_gameStep o n reqs h
  have hn1 : ((n.gameStep reqs).folders.map (·.name)).Nodup := by rw [gameStep_folder_names]; exact hn
  generalize n.gameStep reqs = n1 at hJ hn1
  unfold FolderObs.observe Node.seenFolder Node.liveFolder? Node.findLiveFolder
  rw [liveFolder_of_find n1.folders hn1 o.name]
  cases hG : n1.folders.find? (fun G => G.name = o.name) with
  | none =>
    simp only [FolderObs.see, Option.map_none, Option.getD_none, true_and]
    exact ⟨fun G hG' => by unfold Node.findFolder at hG'; rw [hG] at hG'; exact absurd hG' (by simp), hreq, trivial⟩
  | some G =>
    simp only []
    have hJG : obsJ o G := hJ G (by unfold Node.findFolder; exact hG)
    have hs := obs_see o G ((n1.liveFolderIdx? o.name).getD 0) hreq hJG
    have hR : ∀ o' : FolderObs, o'.name = o.name → obsR o' G → NodeR o' n1 := by
      intro o' hnm hr G' hG'
      rw [hnm] at hG'
      unfold Node.findFolder at hG'
      rw [hG] at hG'
      simp only [Option.some.injEq] at hG'
      subst hG'
      exact hr
    cases hd : G.deleted
    · simp only [hd, Bool.false_eq_true, if_false, Option.map_some, Option.getD_some] at hs ⊢
      exact ⟨hs.1, hR _ hs.2.2.2 hs.2.1, hs.2.2.1, hs.2.2.2⟩
    · simp only [hd, if_true, Option.map_none, Option.getD_none] at hs ⊢
      exact ⟨hs.1, hR _ hs.2.2.2 hs.2.1, hs.2.2.1, hs.2.2.2⟩

/-- what `describe_state()` shows for the folder's visible health after each step of a game -/
def gameSeen (n : Node) (F : String) : List (List Op) → List FsH
  | [] => []
  | reqs :: rest => ((n.gameStep reqs).seenFolder F).getD .none :: gameSeen (n.gameStep reqs) F rest

/-- **C14 (the agent's view of a folder, every game).** For every start state with unique folder names in which the observer's
cache is current, and EVERY game — any number of steps, any requests in each step — the health values `FolderObservation` reports
step by step are exactly the folder's `visible_health_status` values of those moments: the `_scanned_this_step` / `cached_obs`
machinery never shows a stale or an early value. -/
theorem C14_obs_faithful (o : FolderObs) (n : Node) (game : List (List Op)) (hn : n.folderNamesNodup)
    (hreq : o.requiresScan = true) (h : NodeR o n) :
    (gameRun n o game).2.2 = gameSeen n o.name game := by
  induction game generalizing n o with
  | nil => rfl
  | cons reqs rest ih =>
    have hs := C14_obs_step o n reqs hn hreq h
    have hn1 : (n.gameStep reqs).folderNamesNodup := by
      unfold Node.folderNamesNodup; rw [gameStep_folder_names]; exact hn
    simp only [gameRun, gameSeen]
    rw [ih _ _ hn1 hs.2.2.1 hs.2.1, hs.1, hs.2.2.2]

/-- a fresh observer (cache 0) on a node whose folder of that name has never been scanned (visible NONE) satisfies the hypothesis -/
theorem NodeR_fresh (name : String) (n : Node) (h : ∀ G, n.findFolder name = some G → G.visible = .none) :
    NodeR { name := name, requiresScan := true } n := by
  intro G hG
  have := h G hG
  exact ⟨Or.inl this.symm, fun _ => this.symm⟩

/-! non-vacuity: a folder whose timed scan completes in step 2, is then deleted and restored: the reports follow the visible value -/
example :
    let F : Folder := { name := "a", deleted := false, actual := .good, visible := .none, scanDur := 2, scanCd := 0, restoreDur := 1,
                        restoreCd := 0, files := [{ name := "f", actual := .corrupt, visible := .none, deleted := false }] }
    let n : Node := { power := .on, startDur := 0, startCd := 0, shutDur := 0, shutCd := 0, resetting := false, scanDur := 3,
                      scanCd := 0, sws := [], folders := [F] }
    (gameRun n { name := "a", requiresScan := true } [[.folder "a" .scan], [], [.fsDeleteFolder "a"], [.fsRestoreFolder "a"]]).2.2
      = [.none, .corrupt, .none, .corrupt] := by decide

/-! non-vacuity for the repaired case (F-C14-4): folder `d1` was seen CORRUPT, is deleted, a new `d1` is created: the observer shows
the new folder's own visible health (NONE), and from then on caches for the new identity -/
example :
    let F : Folder := { name := "d1", deleted := false, actual := .good, visible := .corrupt, scanDur := 1, scanCd := 0, restoreDur := 1,
                        restoreCd := 0, files := [] }
    let d : DNode := { n := { power := .on, startDur := 0, startCd := 0, shutDur := 0, shutCd := 0, resetting := false, scanDur := 3,
                              scanCd := 0, sws := [], folders := [F] }, defScan := none, defRestore := none }
    let o : FolderObs := { name := "d1", requiresScan := true, cached := .corrupt, cachedId := some 0 }
    let d1 := (d.apply (.base (.fsDeleteFolder "d1"))).apply (.fsCreateFolder "d1")
    (o.observe d1.n.pre.tick).1 = .none ∧ (o.observe d1.n.pre.tick).2.cachedId = some 1 ∧
      -- the old code (cache by name only) would have shown CORRUPT: the flag of the new folder is clear
      (d1.n.pre.tick.liveFolder? "d1").map (·.scanned) = some false := by decide

end Primaite.Health
