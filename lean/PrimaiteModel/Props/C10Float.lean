/-
C10, floats — what IEEE arithmetic keeps of the two sums (step reward = Σ wᵢ·cᵢ, episode total = Σ rₖ): the forward rounding
bound of Lemmas/RewardRounding.lean (abstract rounding function with relative error ≤ u on any linearly ordered field),
instantiated at the model's carrier and tied to `updateComps`.  (Mathlib: ordered-field structure of `Rat`.)
-/
import PrimaiteModel.Props.C10
import PrimaiteModel.Lemmas.RewardRounding
import Mathlib.Algebra.Order.Field.Rat
namespace Primaite.Reward
open Primaite.RewardGraph

/-! ## What floating-point arithmetic keeps of the two sums -/

theorem rounding_sum_eq (l : List Val) : Rounding.sum l = l.sum := by
  induction l with
  | nil => rfl
  | cons t ts ih => simp only [Rounding.sum, List.sum_cons, ih]

/-- **Step reward in rounded arithmetic.** Let `fl` be ANY rounding function with relative error at most `u`
(`|fl x − x| ≤ u·|x|`; IEEE doubles: `u = 2⁻⁵³`). The loop of `RewardFunction.update` carried out in that arithmetic —
`acc ← fl (acc + fl (w · c))` over the model's components in the model's order — ends within
`((1+u)ⁿ⁺¹ − 1) · Σ|wᵢ·cᵢ|` of the exact weighted sum the model computes. (The rig uses exactly this factor.) -/
theorem C10_float_weighted_sum_error (fl : Val → Val) (u : Val) (hu : 0 ≤ u) (hfl : ∀ x, |fl x - x| ≤ u * |x|)
    (s : SimState) (it : Item) (cur : Name → Val) (comps : List (Comp × Val)) :
    |Rounding.flWeightedFold fl 0 (comps.map (fun cw => (cw.2, (calcComp s it cur cw.1).1))) - (updateComps s it cur 0 comps).1| ≤
      ((1 + u) ^ (comps.length + 1) - 1) *
        Rounding.sumAbs (comps.map (fun cw => cw.2 * (calcComp s it cur cw.1).1)) := by
  have h := Rounding.flWeightedFold_error fl u hu hfl (comps.map (fun cw => (cw.2, (calcComp s it cur cw.1).1)))
  rw [List.map_map, List.length_map, rounding_sum_eq] at h
  rw [C10_weighted_sum]
  exact h

/-- **Episode total in rounded arithmetic.** `total_reward += current_reward` carried out with rounding, over the step
rewards `r₁ … rₙ` of an episode, ends within `((1+u)ⁿ − 1) · Σ|rₖ|` of their exact sum. -/
theorem C10_float_total_error (fl : Val → Val) (u : Val) (hu : 0 ≤ u) (hfl : ∀ x, |fl x - x| ≤ u * |x|) (rs : List Val) :
    |Rounding.flSum fl 0 rs - rs.sum| ≤ ((1 + u) ^ rs.length - 1) * Rounding.sumAbs rs := by
  rw [← rounding_sum_eq]
  exact Rounding.flSum_error fl u hu hfl rs

/-- non-vacuity: exact arithmetic is such an `fl` (with `u = 0`, the bound is 0: the rounded loop IS the weighted sum), and a
genuinely rounding `fl` exists for every `u ≥ 0` (`fl x = x·(1+u)`) -/
example : ∀ x : Val, |id x - x| ≤ 0 * |x| := by intro x; simp
example (u : Val) (hu : 0 ≤ u) : ∀ x : Val, |x * (1 + u) - x| ≤ u * |x| := by
  intro x
  have : x * (1 + u) - x = u * x := by ring
  rw [this, abs_mul, abs_of_nonneg hu]

end Primaite.Reward
