/-
C18, continued — floats.

The code keeps loads, sizes and bandwidths as Python floats (binary64) in "Mbit" and tests `current_load + size_Mbits <= bandwidth`.
The model (`Model/Link.lean`) is over naturals.  This file states precisely why nothing is lost:

* `convert_bytes_to_megabits(B) = B * 8.0 / 1024.0 ** 2.0` (extracted: `Gen.Link.bytesPerMbit = 131072 = 2^17`), so a size of `B`
  bytes is the float `B · 2^-17` — exactly (scaling by a power of two), for every integer `B < 2^53`.  `Frame.size` is
  `float(len(json)) + payload_size` with integer-valued terms (extracted: `Gen.Link.sizeIsWholeBytes`).
* every load is a sum / difference of such sizes, so it is `k · 2^-17` for a natural `k` ("whole bytes"); binary64 has a 53-bit
  significand, so every `k · 2^-17` with `k ≤ 2^53` is representable, and IEEE-754 addition / subtraction return the exact result
  whenever it is representable.  Hence as long as the exact value stays at or below `2^53` bytes (= 2^36 Mbit ≈ 6.9·10^10 Mbit) no
  float operation of the accounting rounds at all: **ε = 0**.
* the bandwidth `β` is an arbitrary float, not a whole number of bytes.  For a whole number of bytes `N`:
  `N·2^-17 ≤ β ⇔ N ≤ ⌊β·2^17⌋`, so the model's bandwidth is the floor (the rig computes it with exact rationals).

What is assumed of the float arithmetic is collected in `Rounding` (two facts that hold for every IEEE-754 rounding direction);
everything else is proved.  The rig (`harness/rigs/link.py`, oracle `float-admission-differs-from-exact`) compares, for every
admission test it records, the float verdict with the verdict of exact rational arithmetic, and raises if any load is not a whole
number of bytes; the boundary family sets the bandwidth to the exact sum of k stamped frames, and one ulp below.
-/
import PrimaiteModel.Props.C18

namespace Primaite.Link

/-- Binary64 arithmetic on non-negative quantities measured in whole units (1 unit = 2^-17 Mbit = 1 byte): `rnd x` is what the
float operation returns when the exact result is `x` units (for `x > 2^53` the result is still a whole number of units, a multiple
of a larger power of two).  Assumed: a representable exact result is returned unchanged — every whole number of units up to
`2^53` is representable; rounding is monotone. -/
structure Rounding where
  rnd : Nat → Nat
  exact : ∀ x, x ≤ 2 ^ 53 → rnd x = x
  mono : ∀ x y, x ≤ y → rnd x ≤ rnd y

/-- Round-to-nearest-even itself is not needed: the identity satisfies the assumptions (non-vacuity), and so does "round large
values up to the next multiple of 2" (a rounding that does round). -/
example : Rounding := { rnd := id, exact := fun _ _ => rfl, mono := fun _ _ h => h }

example : Rounding :=
  { rnd := fun x => if x ≤ 2 ^ 53 then x else x + x % 2
    exact := fun x h => by simp [h]
    mono := fun x y h => by
      by_cases hx : x ≤ 2 ^ 53 <;> by_cases hy : y ≤ 2 ^ 53 <;> simp only [hx, hy, if_true, if_false] <;> omega }

/-- `current_load += size` after a successful admission test is exact: the stored load is the exact sum. -/
theorem C18_float_sum_exact (R : Rounding) (L s b : Nat) (hb : b ≤ 2 ^ 53) (hfit : L + s ≤ b) : R.rnd (L + s) = L + s :=
  R.exact _ (Nat.le_trans hfit hb)

/-- **The float admission test is the exact one.** For a load of `L` bytes, a frame of `s` bytes and a bandwidth whose floor is
`b < 2^53` bytes: `fl(L + s) ≤ b` iff `L + s ≤ b`.  No frame that the exact comparison rejects is admitted by the float
comparison, and none that it admits is rejected (ε = 0), *whatever* `L` and `s` are (also when `L + s` is so large that the float
sum does round). -/
theorem C18_float_admit_iff (R : Rounding) (L s b : Nat) (hb : b < 2 ^ 53) : R.rnd (L + s) ≤ b ↔ L + s ≤ b := by
  constructor
  · intro h
    false_or_by_contra
    rename_i hno
    have h1 : b + 1 ≤ L + s := by omega
    have h2 := R.mono _ _ h1
    rw [R.exact (b + 1) (by omega)] at h2
    omega
  · intro h
    rw [R.exact _ (by omega)]
    exact h

/-- The release after a refusal, `current_load -= size`, is exact as well: the load returns to precisely what it was. -/
theorem C18_float_release_exact (R : Rounding) (L s b : Nat) (hb : b ≤ 2 ^ 53) (hfit : L + s ≤ b) :
    R.rnd (R.rnd (L + s) - s) = L := by
  rw [R.exact _ (Nat.le_trans hfit hb)]
  rw [R.exact _ (by omega)]
  omega

/-- **The bandwidth is a float, not a whole number of bytes: the model uses its floor.** For a bandwidth `β = p / q` units
(`q > 0`; every finite float is such a fraction) and a whole number `N` of bytes: `N ≤ β ⇔ N ≤ ⌊β⌋`. -/
theorem C18_float_floor (N p q : Nat) (hq : 0 < q) : N * q ≤ p ↔ N ≤ p / q :=
  (Nat.le_div_iff_mul_le hq).symm

/-- **Boundary: bandwidth = exact sum of k frames.** If the bandwidth is exactly `L + s` bytes (the load so far plus this frame)
the frame *is* admitted in floats, and the link then carries exactly its bandwidth — within the property (`≤`); a bandwidth one
unit lower refuses it. -/
theorem C18_float_boundary (R : Rounding) (L s : Nat) (hb : L + s < 2 ^ 53) :
    (R.rnd (L + s) ≤ L + s) ∧ (0 < s → ¬ R.rnd (L + s) ≤ L + s - 1) := by
  refine ⟨(C18_float_admit_iff R L s (L + s) hb).mpr (Nat.le_refl _), ?_⟩
  intro hs h
  have := (C18_float_admit_iff R L s (L + s - 1) (by omega)).mp h
  omega

/-! ### The accounting in floats is the accounting of the model, on every tree

`runEvF R` is `runEv` with every arithmetic operation of the code routed through the rounding `R` (the admission test compares the
rounded sum; the reservation stores the rounded sum; the release stores the rounded difference).  While every bandwidth and
capacity is below `2^53` bytes and the state is within capacity, it is the same function as `runEv`. -/

mutual
def runEvF (R : Rounding) (n : Net) : Ev → Net × List Rec
  | .send k fromA s acc nested =>
    match n.links[k]? with
    | none => (n, [{ wireless := false, k, verdict := .nolink, enS := false, enR := false, rcv := [], size := 0,
                     loadBefore := 0, load := 0, bw := 0, capS := 0 }])
    | some l =>
      let enS := if fromA then l.enA else l.enB
      let enR := if fromA then l.enB else l.enA
      let stay (v : Verdict) : Net × List Rec :=
        (n, [{ wireless := false, k, verdict := v, enS, enR, rcv := [], size := s, loadBefore := l.load,
               load := l.load, bw := l.bw, capS := l.bw }])
      if !enS then stay .disabled
      else if !l.isUp then stay .down
      else if !decide (R.rnd (l.load + s) ≤ l.bw) then stay .full
      else
        let n1 : Net := { n with links := n.links.set k { l with load := R.rnd (l.load + s) } }
        if acc then
          let r := runEvsF R n1 nested
          (r.1, r.2 ++ [{ wireless := false, k, verdict := .carried, enS, enR, rcv := [], size := s,
                          loadBefore := l.load, load := loadOf r.1 k, bw := bwOf r.1 k, capS := l.bw }])
        else
          let n2 : Net := { n with links := n.links.set k { l with load := R.rnd (R.rnd (l.load + s) - s) } }
          (n2, [{ wireless := false, k, verdict := .rejected, enS, enR, rcv := [], size := s, loadBefore := l.load,
                  load := loadOf n2 k, bw := bwOf n2 k, capS := l.bw }])
  | .wsend c i s nested =>
    match n.chans[c]? with
    | none => (n, [{ wireless := true, k := c, verdict := .nolink, enS := false, enR := false, rcv := [], size := 0,
                     loadBefore := 0, load := 0, bw := 0, capS := 0 }])
    | some ch =>
      match ch.en[i]? with
      | none => (n, [{ wireless := true, k := c, verdict := .nolink, enS := false, enR := false, rcv := [], size := 0,
                       loadBefore := ch.load, load := ch.load, bw := ch.cap, capS := 0 }])
      | some enS =>
        match ch.caps[i]? with
        | none => (n, [{ wireless := true, k := c, verdict := .nolink, enS := false, enR := false, rcv := [], size := 0,
                         loadBefore := ch.load, load := ch.load, bw := ch.cap, capS := 0 }])
        | some capI =>
          let stay (v : Verdict) : Net × List Rec :=
            (n, [{ wireless := true, k := c, verdict := v, enS, enR := false, rcv := [], size := s,
                   loadBefore := ch.load, load := ch.load, bw := ch.cap, capS := capI }])
          if !enS then stay .disabled
          else if !decide (R.rnd (ch.load + s) ≤ capI) then stay .full
          else
            let n1 : Net := { n with chans := n.chans.set c { ch with load := R.rnd (ch.load + s) } }
            let r := runEvsF R n1 nested
            (r.1, r.2 ++ [{ wireless := true, k := c, verdict := .carried, enS, enR := true, rcv := [], size := s,
                            loadBefore := ch.load, load := cloadOf r.1 c, bw := capOf r.1 c, capS := capI }])
  | .setEn k endA v =>
    match n.links[k]? with
    | none => (n, [])
    | some l =>
      let cur := if endA then l.enA else l.enB
      if cur == v then (n, [])
      else
        let l1 : Link := if endA then { l with enA := v } else { l with enB := v }
        ({ n with links := n.links.set k l1 }, [])
  | .wsetEn c i v =>
    match n.chans[c]? with
    | none => (n, [])
    | some ch => ({ n with chans := n.chans.set c { ch with en := ch.en.set i v } }, [])
  | .lost k fromA s nested =>
    match n.links[k]? with
    | none => (n, [{ wireless := false, k, verdict := .nolink, enS := false, enR := false, rcv := [], size := 0,
                     loadBefore := 0, load := 0, bw := 0, capS := 0 }])
    | some l =>
      let enS := if fromA then l.enA else l.enB
      let enR := if fromA then l.enB else l.enA
      let stay (v : Verdict) : Net × List Rec :=
        (n, [{ wireless := false, k, verdict := v, enS, enR, rcv := [], size := s, loadBefore := l.load,
               load := l.load, bw := l.bw, capS := l.bw }])
      if !enS then stay .disabled
      else if !l.isUp then stay .down
      else if !decide (R.rnd (l.load + s) ≤ l.bw) then stay .full
      else
        let n1 : Net := { n with links := n.links.set k { l with load := R.rnd (l.load + s) } }
        let r := runEvsF R n1 nested
        (r.1, r.2 ++ [{ wireless := false, k, verdict := .lost, enS, enR, rcv := [], size := s,
                        loadBefore := l.load, load := loadOf r.1 k, bw := bwOf r.1 k, capS := l.bw }])
  | .wlost c i s nested =>
    match n.chans[c]? with
    | none => (n, [{ wireless := true, k := c, verdict := .nolink, enS := false, enR := false, rcv := [], size := 0,
                     loadBefore := 0, load := 0, bw := 0, capS := 0 }])
    | some ch =>
      match ch.en[i]? with
      | none => (n, [{ wireless := true, k := c, verdict := .nolink, enS := false, enR := false, rcv := [], size := 0,
                       loadBefore := ch.load, load := ch.load, bw := ch.cap, capS := 0 }])
      | some enS =>
        match ch.caps[i]? with
        | none => (n, [{ wireless := true, k := c, verdict := .nolink, enS := false, enR := false, rcv := [], size := 0,
                         loadBefore := ch.load, load := ch.load, bw := ch.cap, capS := 0 }])
        | some capI =>
          let stay (v : Verdict) : Net × List Rec :=
            (n, [{ wireless := true, k := c, verdict := v, enS, enR := false, rcv := [], size := s,
                   loadBefore := ch.load, load := ch.load, bw := ch.cap, capS := capI }])
          if !enS then stay .disabled
          else if !decide (R.rnd (ch.load + s) ≤ capI) then stay .full
          else
            let n1 : Net := { n with chans := n.chans.set c { ch with load := R.rnd (ch.load + s) } }
            let r := runEvsF R n1 nested
            (r.1, r.2 ++ [{ wireless := true, k := c, verdict := .lost, enS, enR := true, rcv := [], size := s,
                            loadBefore := ch.load, load := cloadOf r.1 c, bw := capOf r.1 c, capS := capI }])

  | .wrecv c i j =>
    match n.chans[c]? with
    | none => (n, [{ wireless := true, k := c, verdict := .nolink, enS := false, enR := false, rcv := [j], size := 0,
                     loadBefore := 0, load := 0, bw := 0, capS := 0 }])
    | some ch =>
      let enJ := match ch.en[j]? with | some b => b | none => false
      let memJ := match ch.mem[j]? with | some b => b | none => false
      let enI := match ch.en[i]? with | some b => b | none => false
      let ok := memJ && enJ && j != i
      (n, [{ wireless := true, k := c, verdict := hearVerdict ok, enS := enI, enR := ok, rcv := [j], size := 0,
             loadBefore := ch.load, load := ch.load, bw := ch.cap, capS := 0 }])

  | .wjoin c i =>
    match n.chans[c]? with
    | none => (n, [])
    | some ch => ({ n with chans := n.chans.set c { ch with mem := ch.mem.set i true } }, [])
  | .wleave c i =>
    match n.chans[c]? with
    | none => (n, [])
    | some ch => ({ n with chans := n.chans.set c { ch with mem := ch.mem.set i false } }, [])

def runEvsF (R : Rounding) (n : Net) : List Ev → Net × List Rec
  | [] => (n, [])
  | e :: es =>
    let r1 := runEvF R n e
    let r2 := runEvsF R r1.1 es
    (r2.1, r1.2 ++ r2.2)
end

/-- Every bandwidth and every capacity is below `2^53` bytes (2^36 Mbit). -/
def Small (n : Net) : Prop := ∀ k, bwOf n k < 2 ^ 53 ∧ capOf n k < 2 ^ 53

theorem small_link {n : Net} (h : Small n) (k : Nat) (l : Link) (hk : n.links[k]? = some l) : l.bw < 2 ^ 53 := by
  have := (h k).1
  simpa [bwOf, hk] using this

theorem small_chan {n : Net} (h : Small n) (c : Nat) (ch : Chan) (hc : n.chans[c]? = some ch) : ch.cap < 2 ^ 53 := by
  have := (h c).2
  simpa [capOf, hc] using this

theorem small_set_link {n : Net} (h : Small n) (k : Nat) (l l' : Link) (hk : n.links[k]? = some l) (hbw : l'.bw = l.bw) :
    Small { n with links := n.links.set k l' } := by
  intro k'
  rw [bwOf_set n k k' l l' hk hbw]
  exact ⟨(h k').1, (h k').2⟩

theorem small_set_chan {n : Net} (h : Small n) (c : Nat) (ch ch' : Chan) (hc : n.chans[c]? = some ch) (hcap : ch'.cap = ch.cap) :
    Small { n with chans := n.chans.set c ch' } := by
  intro k'
  rw [capOf_set n c k' ch ch' hc hcap]
  exact ⟨(h k').1, (h k').2⟩

theorem small_runEv (n : Net) (e : Ev) (h : Small n) : Small (runEv n e).1 := by
  intro k
  rw [(runEv_bw n e k).1, (runEv_bw n e k).2]
  exact h k

theorem decide_rnd_eq (R : Rounding) (L s b : Nat) (hb : b < 2 ^ 53) : decide (R.rnd (L + s) ≤ b) = admits L s b := by
  unfold admits
  exact decide_eq_decide.mpr (C18_float_admit_iff R L s b hb)

mutual
theorem runEvF_eq (R : Rounding) (n : Net) (e : Ev) (h : Inv n) (hs : Small n) : runEvF R n e = runEv n e := by
  cases e with
  | send k fromA s acc nested =>
    unfold runEvF runEv
    cases hk : n.links[k]? with
    | none => rfl
    | some l =>
      have hl : l.load ≤ l.bw := h.1 l (List.mem_of_getElem? hk)
      have hb : l.bw < 2 ^ 53 := small_link hs k l hk
      simp only [decide_rnd_eq R l.load s l.bw hb]
      by_cases h1 : (if fromA then l.enA else l.enB) = true
      · by_cases h2 : l.isUp = true
        · by_cases h3 : admits l.load s l.bw = true
          · simp only [h1, h2, h3, Bool.not_true, Bool.false_eq_true, if_false]
            have hfit : l.load + s ≤ l.bw := by simpa [admits] using h3
            have hx : R.rnd (l.load + s) = l.load + s := R.exact _ (by omega)
            have hy : R.rnd (l.load + s - s) = l.load + s - s := R.exact _ (by omega)
            rw [hx, hy]
            cases acc with
            | true =>
              simp only [if_true]
              have ih := runEvsF_eq R { n with links := n.links.set k { l with load := l.load + s } } nested
                (inv_set_link h k _ hfit) (small_set_link hs k l _ hk rfl)
              rw [ih]
            | false => rfl
          · simp [h1, h2, h3]
        · simp [h1, h2]
      · simp [h1]
  | wsend c i s nested =>
    unfold runEvF runEv
    cases hk : n.chans[c]? with
    | none => rfl
    | some ch =>
      have hl : ch.load ≤ ch.cap := h.2 ch (List.mem_of_getElem? hk)
      have hb : ch.cap < 2 ^ 53 := small_chan hs c ch hk
      simp only
      cases hi : ch.en[i]? with
      | none => rfl
      | some enS =>
        simp only
        cases hcI : ch.caps[i]? with
        | none => rfl
        | some capI =>
          have hcap : capI ≤ ch.cap := caps_le_cap ch i capI hcI
          simp only [decide_rnd_eq R ch.load s capI (by omega)]
          cases enS with
          | false => simp
          | true =>
            by_cases h3 : admits ch.load s capI = true
            · simp only [h3, Bool.not_true, Bool.false_eq_true, if_false]
              have hfit : ch.load + s ≤ capI := by simpa [admits] using h3
              have hx : R.rnd (ch.load + s) = ch.load + s := R.exact _ (by omega)
              rw [hx]
              have ih := runEvsF_eq R { n with chans := n.chans.set c { ch with load := ch.load + s } } nested
                (inv_set_chan h c _ (by show ch.load + s ≤ ch.cap; omega)) (small_set_chan hs c ch _ hk rfl)
              rw [ih]
            · simp [h3]
  | setEn k endA v => unfold runEvF runEv; rfl
  | wsetEn c i v => unfold runEvF runEv; rfl
  | wrecv c i j => unfold runEvF runEv; rfl
  | wjoin c i => unfold runEvF runEv; rfl
  | wleave c i => unfold runEvF runEv; rfl
  | lost k fromA s nested =>
    unfold runEvF runEv
    cases hk : n.links[k]? with
    | none => rfl
    | some l =>
      have hl : l.load ≤ l.bw := h.1 l (List.mem_of_getElem? hk)
      have hb : l.bw < 2 ^ 53 := small_link hs k l hk
      simp only [decide_rnd_eq R l.load s l.bw hb]
      by_cases h1 : (if fromA then l.enA else l.enB) = true
      · by_cases h2 : l.isUp = true
        · by_cases h3 : admits l.load s l.bw = true
          · simp only [h1, h2, h3, Bool.not_true, Bool.false_eq_true, if_false]
            have hfit : l.load + s ≤ l.bw := by simpa [admits] using h3
            have hx : R.rnd (l.load + s) = l.load + s := R.exact _ (by omega)
            rw [hx]
            have ih := runEvsF_eq R { n with links := n.links.set k { l with load := l.load + s } } nested
              (inv_set_link h k _ hfit) (small_set_link hs k l _ hk rfl)
            rw [ih]
          · simp [h1, h2, h3]
        · simp [h1, h2]
      · simp [h1]
  | wlost c i s nested =>
    unfold runEvF runEv
    cases hk : n.chans[c]? with
    | none => rfl
    | some ch =>
      have hl : ch.load ≤ ch.cap := h.2 ch (List.mem_of_getElem? hk)
      have hb : ch.cap < 2 ^ 53 := small_chan hs c ch hk
      simp only
      cases hi : ch.en[i]? with
      | none => rfl
      | some enS =>
        simp only
        cases hcI : ch.caps[i]? with
        | none => rfl
        | some capI =>
          have hcap : capI ≤ ch.cap := caps_le_cap ch i capI hcI
          simp only [decide_rnd_eq R ch.load s capI (by omega)]
          cases enS with
          | false => simp
          | true =>
            by_cases h3 : admits ch.load s capI = true
            · simp only [h3, Bool.not_true, Bool.false_eq_true, if_false]
              have hfit : ch.load + s ≤ capI := by simpa [admits] using h3
              have hx : R.rnd (ch.load + s) = ch.load + s := R.exact _ (by omega)
              rw [hx]
              have ih := runEvsF_eq R { n with chans := n.chans.set c { ch with load := ch.load + s } } nested
                (inv_set_chan h c _ (by show ch.load + s ≤ ch.cap; omega)) (small_set_chan hs c ch _ hk rfl)
              rw [ih]
            · simp [h3]

theorem runEvsF_eq (R : Rounding) (n : Net) (es : List Ev) (h : Inv n) (hs : Small n) : runEvsF R n es = runEvs n es := by
  cases es with
  | nil => unfold runEvsF runEvs; rfl
  | cons e es =>
    unfold runEvsF runEvs
    have h1 := runEvF_eq R n e h hs
    simp only [h1]
    have hi := (runEv_ok n e h).1
    have hsm : Small (runEv n e).1 := small_runEv n e hs
    rw [runEvsF_eq R (runEv n e).1 es hi hsm]
end

/-- **The accounting in floats is the accounting of the model**: in a tick (`tick`, then any forest of events — nesting,
toggles, aborted deliveries), every verdict, every record and every load computed with rounded arithmetic equals what the exact
model computes, for every rounding that returns representable results unchanged, provided every bandwidth and capacity is below
`2^53` bytes.  So every theorem of `Props/C18.lean` about `runEvs (tick n) evs` is a theorem about the float accounting. -/
theorem C18_float_tick_eq_exact (R : Rounding) (n : Net) (evs : List Ev) (hs : Small n) :
    runEvsF R (tick n) evs = runEvs (tick n) evs :=
  runEvsF_eq R (tick n) evs (tick_inv n) (fun k => by rw [(bwOf_tick n k).1, (bwOf_tick n k).2]; exact hs k)

/-- a network that meets the hypothesis (100 Mbit = 13 107 200 bytes, far below 2^53) -/
example : Small { links := [{ bw := 13107200, load := 0, enA := true, enB := true }],
                  chans := [{ caps := [12500000, 62500000], load := 0, en := [true, true] }] } := by
  intro k
  match k with
  | 0 => decide
  | k + 1 => simp [bwOf, capOf]

end Primaite.Link
