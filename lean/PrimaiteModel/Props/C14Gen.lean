/-
C14 — obligations that tie the hand-written model `Model/Health.lean` to tables regenerated from the source
(`Gen/Health.lean`, extractor harness/extract/health.py). A source change in any of these places makes one of these
theorems fail to check.
-/
import PrimaiteModel.Model.HealthObs
import PrimaiteModel.Gen.Health
namespace Primaite.Health

def showSwHName : SwH → String
  | .unused => "UNUSED" | .good => "GOOD" | .fixing => "FIXING" | .compromised => "COMPROMISED" | .overwhelmed => "OVERWHELMED"
def showFsHName : FsH → String
  | .none => "NONE" | .good => "GOOD" | .compromised => "COMPROMISED" | .corrupt => "CORRUPT"
  | .restoring => "RESTORING" | .repairing => "REPAIRING"

def SwH.all : List SwH := [.unused, .good, .fixing, .compromised, .overwhelmed]
def SwH.pyName : SwH → String
  | .unused => "UNUSED" | .good => "GOOD" | .fixing => "FIXING" | .compromised => "COMPROMISED" | .overwhelmed => "OVERWHELMED"
def SwH.value : SwH → Nat
  | .unused => 0 | .good => 1 | .fixing => 2 | .compromised => 3 | .overwhelmed => 4
def FsH.all : List FsH := [.none, .good, .compromised, .corrupt, .restoring, .repairing]
def FsH.pyName : FsH → String
  | .none => "NONE" | .good => "GOOD" | .compromised => "COMPROMISED" | .corrupt => "CORRUPT"
  | .restoring => "RESTORING" | .repairing => "REPAIRING"
def OpSt.pyName : OpSt → String
  | .running => "RUNNING" | .stopped => "STOPPED" | .paused => "PAUSED" | .disabled => "DISABLED"
  | .installing => "INSTALLING" | .restarting => "RESTARTING" | .closed => "CLOSED"
def SwReq.all : List SwReq := [.close, .compromise, .disable, .enable, .execute, .fix, .pause, .restart, .resume, .scan, .start, .stop]
def SwReq.pyName : SwReq → String
  | .scan => "scan" | .fix => "fix" | .compromise => "compromise" | .stop => "stop" | .start => "start"
  | .pause => "pause" | .resume => "resume" | .restart => "restart" | .disable => "disable" | .enable => "enable"
  | .close => "close" | .execute => "execute"

theorem SwH.all_complete (h : SwH) : h ∈ SwH.all := by cases h <;> decide
theorem FsH.all_complete (h : FsH) : h ∈ FsH.all := by cases h <;> decide
theorem SwReq.all_complete (r : SwReq) : r ∈ SwReq.all := by cases r <;> decide

/-- the two health enums of the model are the source's, member for member and value for value -/
theorem C14_gen_enums :
    Gen.Health.swHealth = SwH.all.map (fun h => (h.pyName, h.value)) ∧
    Gen.Health.fsHealth = FsH.all.map (fun h => (h.pyName, h.value)) := by decide

/-- `Software.fix` accepts exactly the states `Sw.canFix` accepts, loads the configured duration, and the class
defaults are the ones the rig's fresh objects start from -/
def probeSw (h : SwH) : Sw :=
  { name := "", isApp := false, op := .running, actual := h, visible := .unused, fixDur := 0, fixCd := none, auxDur := 0,
    auxCd := none }

theorem C14_gen_fix_guard :
    Gen.Health.fixAccepts = (SwH.all.filter (fun h => (probeSw h).canFix)).map SwH.pyName ∧
    Gen.Health.fixLoad.2 = "self.config.fixing_duration" ∧
    Gen.Health.swTickGuard = "self.health_state_actual == SoftwareHealthState.FIXING" ∧
    Gen.Health.swScanBody = ["self.health_state_visible = self.health_state_actual", "return True"] ∧
    Gen.Health.swVisibleDefault = "UNUSED" ∧ Gen.Health.itemVisibleDefault = "NONE" ∧
    Gen.Health.itemHealthDefault = "GOOD" := by decide

/-- the countdown idioms the model follows:
fix / install: decrement, then `<= 0` completes (no guard);
folder scan / restore: guard `>= 0`, decrement, `== 0` completes; the restore loaded with `max(duration, 1)` only when `<= 0`
(the LOAD of the folder scan is no longer pinned as text: `Folder.scan` is translated statement by statement and proved equal to
`Folder.scan` / `Folder.instantScan` for every state — `C14_gen_folder_scan` in Props/C14GenScan.lean — so that a guard-clause
rewrite of the same meaning does not break this obligation);
node scan: guard `> 0`, decrement, `== 0` fans out; loaded with `max(duration, 1)` unconditionally;
all countdowns start at 0. -/
theorem C14_gen_idioms :
    Gen.Health.fixIdiom = ("none", "dec-then-test", "<=") ∧
    Gen.Health.installIdiom = ("none", "dec-then-test", "<=") ∧
    Gen.Health.folderScanIdiom = (">=", "dec-then-test", "==") ∧
    Gen.Health.folderRestoreIdiom = (">=", "dec-then-test", "==") ∧
    Gen.Health.folderRestoreLoad = ("self.restore_countdown <= 0", "max(self.restore_duration, 1)") ∧
    Gen.Health.nodeScanIdiom = (">", "dec-then-test", "==") ∧
    Gen.Health.nodeScanLoad = ("none", "max(self.config.node_scan_duration, 1)") ∧
    Gen.Health.folderScanCountdownDefault = 0 ∧ Gen.Health.folderRestoreCountdownDefault = 0 ∧
    Gen.Health.nodeScanCountdownDefault = 0 := by decide

/-- the reveal-to-red scan of a node as the model follows it (`Node.redPhase`, `Op.redScan`): guard `> 0`, decrement, `== 0`
completes; loaded with `node_scan_duration` (no `max(…, 1)`) unconditionally; starts at 0 -/
theorem C14_gen_red_scan :
    Gen.Health.redScanIdiom = (">", "dec-then-test", "==") ∧
    Gen.Health.redScanLoad = ("none", "self.config.node_scan_duration") ∧
    Gen.Health.redScanCountdownDefault = 0 := by decide

/-- order inside a timestep: folder = scan, (reveal), restore; node (ON) = node scan with its fan-out, (red scan),
then processes, services, applications, file system -/
theorem C14_gen_tick_order :
    Gen.Health.folderTickOrder = ["_scan_timestep", "_reveal_to_red_timestep", "_restoring_timestep"] ∧
    Gen.Health.nodeTickOrder =
      ["node-scan",
       "fan-out:self.file_system.scan(instant_scan=True)|self.processes[process_id].scan()|self.services[service_id].scan()|self.applications[application_id].scan()",
       "red-scan", "tick:self.processes", "tick:self.services", "tick:self.applications", "tick:self.file_system"] :=
  ⟨rfl, rfl⟩

/-- the request guard tables of services and applications are `SwReq.known` / `SwReq.guard` -/
theorem C14_gen_request_guards :
    Gen.Health.serviceGuards =
      (SwReq.all.filter (SwReq.known false)).map (fun r => (r.pyName, (r.guard.map OpSt.pyName).getD "-")) ∧
    Gen.Health.applicationGuards =
      (SwReq.all.filter (SwReq.known true)).map (fun r => (r.pyName, (r.guard.map OpSt.pyName).getD "-")) := by decide

/-- every `apply_timestep` override under simulator/system reaches `super().apply_timestep` (otherwise the fix and
install countdowns of that class never move — the data-manipulation-bot defect) -/
theorem C14_gen_tick_overrides_reach_super : Gen.Health.tickOverridesWithoutSuper = [] := rfl

/-- The inventory of writers of a health attribute in the whole source tree, and which model operation stands for
each. A new writer (or a changed value) breaks this obligation. -/
theorem C14_gen_writers : Gen.Health.writers = [
  -- File.corrupt / repair / restore / scan                          → Op.file … / folder … / fsRestoreFile
  "simulator/file_system/file.py:File.corrupt:self.health_status<-FileSystemItemHealthStatus.CORRUPT",
  "simulator/file_system/file.py:File.repair:self.health_status<-FileSystemItemHealthStatus.GOOD",
  "simulator/file_system/file.py:File.restore:self.health_status<-FileSystemItemHealthStatus.GOOD",
  "simulator/file_system/file.py:File.scan:self.visible_health_status<-self.health_status",
  -- Folder timed restore / timed scan / corrupt / repair / restore / instant scan
  "simulator/file_system/folder.py:Folder._restoring_timestep:self.health_status<-FileSystemItemHealthStatus.GOOD",
  "simulator/file_system/folder.py:Folder._scan_timestep:self.health_status<-FileSystemItemHealthStatus(max([f.health_status.value for f in self.files.values()] or [0]))",
  "simulator/file_system/folder.py:Folder._scan_timestep:self.visible_health_status<-self.health_status",
  "simulator/file_system/folder.py:Folder.corrupt:self.health_status<-FileSystemItemHealthStatus.CORRUPT",
  "simulator/file_system/folder.py:Folder.repair:self.health_status<-FileSystemItemHealthStatus.GOOD",
  "simulator/file_system/folder.py:Folder.repair:self.health_status<-FileSystemItemHealthStatus.GOOD",
  "simulator/file_system/folder.py:Folder.restore:self.health_status<-FileSystemItemHealthStatus.RESTORING",
  "simulator/file_system/folder.py:Folder.scan:self.visible_health_status<-FileSystemItemHealthStatus.CORRUPT",
  -- install completion (Sw.auxTick), first run (Sw.wake)
  "simulator/system/applications/application.py:Application.apply_timestep:self.health_state_actual<-SoftwareHealthState.GOOD",
  "simulator/system/applications/application.py:Application.run:set_health_state(SoftwareHealthState.GOOD)",
  -- external writers of file health                                  → Op.fileSet (folder health of the database folder: not a C14 observable)
  "simulator/system/services/database/database_service.py:DatabaseService._process_sql:database_folder.health_status<-FileSystemItemHealthStatus.CORRUPT",
  "simulator/system/services/database/database_service.py:DatabaseService._process_sql:self.db_file.health_status<-FileSystemItemHealthStatus.COMPROMISED",
  "simulator/system/services/database/database_service.py:DatabaseService._process_sql:self.db_file.health_status<-FileSystemItemHealthStatus.CORRUPT",
  -- database restore: the replacement file inherits the old visible value → DOp.dbReplace (Model/HealthDyn.lean, C14_dyn_db_replace)
  "simulator/system/services/database/database_service.py:DatabaseService.restore_backup:self.db_file.visible_health_status<-old_visible_state",
  "simulator/system/services/database/database_service.py:DatabaseService.restore_backup:set_health_state(SoftwareHealthState.GOOD)",
  "simulator/system/services/ftp/ftp_service.py:FTPServiceABC._store_data:file.health_status<-health_status",
  -- first start (Sw.wake)
  "simulator/system/services/service.py:Service.start:set_health_state(SoftwareHealthState.GOOD)",
  -- external writers of software health                              → Op.swSet (values GOOD / COMPROMISED / OVERWHELMED only)
  "simulator/system/services/web_server/web_server.py:WebServer._handle_get_request:set_health_state(SoftwareHealthState.COMPROMISED)",
  "simulator/system/services/web_server/web_server.py:WebServer._handle_get_request:set_health_state(SoftwareHealthState.GOOD)",
  "simulator/system/software.py:IOSoftware.add_connection:set_health_state(SoftwareHealthState.GOOD)",
  "simulator/system/software.py:IOSoftware.add_connection:set_health_state(SoftwareHealthState.OVERWHELMED)",
  -- construction (initial state read by the rig), compromise request, fix completion, fix start, scan, the setter itself
  "simulator/system/software.py:Software.__init__:self.health_state_actual<-self.config.starting_health_state",
  "simulator/system/software.py:Software._init_request_manager:set_health_state(SoftwareHealthState.COMPROMISED)",
  "simulator/system/software.py:Software._update_fix_status:set_health_state(SoftwareHealthState.GOOD)",
  "simulator/system/software.py:Software.fix:set_health_state(SoftwareHealthState.FIXING)",
  "simulator/system/software.py:Software.scan:self.health_state_visible<-self.health_state_actual",
  "simulator/system/software.py:Software.set_health_state:self.health_state_actual<-health_state"] := rfl

/-- **Gen obligation (dynamic layer).** The initial values the model gives to freshly created items are the class defaults of
the source: a new software object shows UNUSED, a created file is GOOD / shows NONE, a created folder is GOOD / shows NONE
with idle countdowns and the default scan / restore durations. -/
theorem C14_gen_fresh_items :
    (∀ s : SwSpec, showSwHName s.construct.visible = Gen.Health.swVisibleDefault) ∧
    showFsHName (freshFile "f").actual = Gen.Health.itemHealthDefault ∧
    showFsHName (freshFile "f").visible = Gen.Health.itemVisibleDefault ∧
    folderScanDefault = Gen.Health.folderScanDurationDefault ∧ folderRestoreDefault = Gen.Health.folderRestoreDurationDefault ∧
    (∀ d : DNode, (d.freshFolder "F").scanCd = Gen.Health.folderScanCountdownDefault ∧
      (d.freshFolder "F").restoreCd = Gen.Health.folderRestoreCountdownDefault ∧
      showFsHName (d.freshFolder "F").actual = Gen.Health.itemHealthDefault ∧
      showFsHName (d.freshFolder "F").visible = Gen.Health.itemVisibleDefault) := by
  refine ⟨fun _ => rfl, rfl, rfl, rfl, rfl, fun _ => ⟨rfl, rfl, rfl, rfl⟩⟩


/-! ### what the agent is shown for a folder (round 7): `FolderObservation.observe`, the `pre_timestep` path, the order of a game step -/

/-- the state-dictionary entries the observer reads are the folder's actual / visible health, its refresh flag, and the LIVE folders
by name -/
theorem C14_gen_folder_observe :
    Gen.Health.stateKeys =
      [("FileSystemItemABC.describe_state", "health_status", "self.health_status.value"),
       ("FileSystemItemABC.describe_state", "visible_status", "self.visible_health_status.value"),
       ("Folder.describe_state", "scanned_this_step", "self._scanned_this_step"),
       ("FileSystem.describe_state", "folders", "{folder.name: folder.describe_state() for folder in self.folders.values()}")] := by
  decide

/-- the MODEL's observer evaluated on the same 32 valuations, with probe values that tell the three sources apart (cached = CORRUPT,
visible = GOOD, actual = COMPROMISED; the folder has identity 0, a cache read from "another folder" identity 1) -/
def modelObserveTruth : List (List Bool × String × String × Bool × String) :=
  let bits : List Bool := [false, true]
  bits.flatMap fun absent => bits.flatMap fun rq => bits.flatMap fun scanned => bits.flatMap fun idNone => bits.map fun idSame =>
    let o : FolderObs := { name := "f", requiresScan := rq, cached := .corrupt,
                           cachedId := if idNone then none else if idSame then some 0 else some 1 }
    let G : Folder := { name := "f", deleted := false, actual := .compromised, visible := .good, scanDur := 1, scanCd := 0,
                        restoreDur := 1, restoreCd := 0, files := [], scanned := scanned }
    let r : FsH × FolderObs := o.see (if absent then none else some (0, G))
    let src : String := match r.1 with
      | FsH.corrupt => "self.cached_obs['health_status']" | FsH.good => "folder_state['visible_status']"
      | FsH.compromised => "folder_state['health_status']" | _ => "-"
    if absent then ([absent, rq, scanned, idNone, idSame], "self.default_observation", "-", false, "-")
    else ([absent, rq, scanned, idNone, idSame], "obs", src, decide (r.2.cached = r.1),
          if r.2.cachedId = some 0 then "folder_state.get('uuid')" else "-")

set_option maxRecDepth 16000 in
/-- SEMANTIC tie of the observer: `FolderObservation.observe`, executed symbolically by the extractor for every valuation of its five
Boolean inputs, does what `FolderObs.see` does — whatever the shape of the control flow in the source. -/
theorem C14_gen_folder_observe_truth : Gen.Health.folderObserveTruth = modelObserveTruth := by decide

/-- `pre_timestep` reaches every LIVE folder of every node unconditionally (whatever the node's power state) and no deleted folder
(= `Node.pre`); a game step is `pre_timestep; requests; apply_timestep; observe` (= `Node.gameStep`, then `FolderObs.observe`) -/
theorem C14_gen_pre_chain :
    (∀ r ∈ [("PrimaiteGame.pre_timestep", "self.simulation.pre_timestep", "", ""),
            ("Simulation.pre_timestep", "self.network.pre_timestep", "", ""),
            ("Network.pre_timestep", "node.pre_timestep", "for node in self.nodes.values()", ""),
            ("Node.pre_timestep", "self.file_system.pre_timestep", "", ""),
            ("FileSystem.pre_timestep", "folder.pre_timestep", "for folder in self.folders.values()", "")],
        r ∈ Gen.Health.preChain) ∧
    (Gen.Health.preChain.filter (fun r => r.1 = "FileSystem.pre_timestep" && r.2.1 != "super().pre_timestep")).length = 1 ∧
    Gen.Health.gameStepOrder = ["pre_timestep", "apply_agent_actions", "advance_timestep", "update_agents",
      "advance_timestep -> self.simulation.apply_timestep", "pre_timestep -> self.simulation.pre_timestep"] := by
  decide

end Primaite.Health
