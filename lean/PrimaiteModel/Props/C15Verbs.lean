/-
Property C15, fourth part: "deleting … makes it unavailable to further actions", for EVERY request the file system
registers and for every path an agent could send, ledger included.

* `requestShapes` is the full request table below `file_system` — 23 shapes: 7 of the FileSystem manager, 5 + 1 of a Folder,
  5 of a File reached through its folder and the same 5 through the `file` route — regenerated from the three
  `_init_request_manager` methods (`C15_gen_request_table`); every shape denotes an operation of the model
  (`C15_request_shapes_modelled`).
* `C15_deleted_folder_unavailable_x` / `C15_deleted_file_unavailable_x` lift the two structural theorems to the extended
  state: the refused request also leaves every `num_access` and every scan countdown as it was.
* `C15_path_on_deleted_folder_changes_nothing` / `C15_path_on_deleted_file_changes_nothing`: for ANY path (well-formed,
  truncated, over-long, misspelt) that addresses a folder / file which is not live, other than the explicit `create …` and
  `restore …` requests, the node's whole state is unchanged and the answer is not `success` — in every power state.
-/
import PrimaiteModel.Props.C15Node
namespace Primaite.FileSystem

/-! ### the full request table -/

/-- Every request shape below `file_system`: literal keys, and `<F>` / `<x>` / `<force>` where a handler reads a folder
name, a file name, the force flag. -/
def requestShapes : List (List String) :=
  [["delete", "file", "<F>", "<x>"], ["delete", "folder", "<F>"],
   ["create", "file", "<F>", "<x>", "<force>"], ["create", "folder", "<F>"],
   ["access", "<F>", "<x>"],
   ["restore", "file", "<F>", "<x>"], ["restore", "folder", "<F>"],
   ["folder", "<F>", "scan"], ["folder", "<F>", "checkhash"], ["folder", "<F>", "repair"], ["folder", "<F>", "restore"],
   ["folder", "<F>", "corrupt"], ["folder", "<F>", "delete", "<x>"],
   ["folder", "<F>", "file", "<x>", "scan"], ["folder", "<F>", "file", "<x>", "checkhash"],
   ["folder", "<F>", "file", "<x>", "repair"], ["folder", "<F>", "file", "<x>", "restore"],
   ["folder", "<F>", "file", "<x>", "corrupt"],
   ["file", "<F>", "<x>", "scan"], ["file", "<F>", "<x>", "checkhash"], ["file", "<F>", "<x>", "repair"],
   ["file", "<F>", "<x>", "restore"], ["file", "<F>", "<x>", "corrupt"]]

/-- A shape with its placeholders filled in. -/
def instShape (F x force : String) (shape : List String) : List String :=
  shape.map fun t => if t = "<F>" then F else if t = "<x>" then x else if t = "<force>" then force else t

/-- The request table regenerated from `FileSystem._init_request_manager`, `Folder._init_request_manager` and
`FileSystemItemABC._init_request_manager` (sub-managers expanded, handler arities read from the `request[k]` they index)
is the table above. -/
theorem C15_gen_request_table : Gen.FileSystem.requestTable = requestShapes := by decide

/-- Every registered request shape, with any names filled in, denotes an operation of the model (none is left
unmodelled), and `resolve` sends it there. -/
theorem C15_request_shapes_modelled (s : State) (F x : String) (force : Bool) :
    ∀ shape ∈ requestShapes, ∃ op, ofRequest (instShape F x (if force then "1" else "0") shape) = some op ∧
      resolve s (instShape F x (if force then "1" else "0") shape) = .inl op := by
  intro shape hs
  have key : ∀ req, (∃ op, ofRequest req = some op) → ∃ op, ofRequest req = some op ∧ resolve s req = .inl op :=
    fun req ⟨op, h⟩ => ⟨op, h, C15_resolve_extends s req op h⟩
  apply key
  simp only [requestShapes, List.mem_cons, List.not_mem_nil, or_false] at hs
  rcases hs with rfl | rfl | rfl | rfl | rfl | rfl | rfl | rfl | rfl | rfl | rfl | rfl | rfl | rfl | rfl | rfl | rfl | rfl |
    rfl | rfl | rfl | rfl | rfl <;> simp [instShape, ofRequest]

/-! ### refused requests leave the ledger alone too -/

theorem bump_nil (acc : Nat → Nat) : bump acc [] = acc := by
  funext i; simp [bump]

/-- An operation that the structural step answers without changing the structure, that accesses no file, starts no scan
and creates no folder, leaves the extended state as it was. -/
theorem stepX_unchanged (x : XState) (op : Op) (o : Out) (hs : step x.s op = (x.s, o)) (ht : reqTouch x op = [])
    (hpre : op ≠ .preTick) (htick : op ≠ .tick) (hscan : ∀ F, op = .folderVerb F .scan → scanStart x F = x.scanCd)
    (hcr : reqCreates x.s op = none) : stepX x op = (x, o) := by
  unfold stepX
  simp only [hs, ht, hcr, bump_nil]
  cases op with
  | preTick => exact absurd rfl hpre
  | tick => exact absurd rfl htick
  | folderVerb F v =>
    cases v with
    | scan => simp only [hscan F rfl]
    | _ => rfl
  | _ => rfl

theorem routedFolder_none_of_no_live {s : State} {F : Name} (hno : ∀ g ∈ s.folders, g.name ≠ F) : routedFolder s F = none := by
  simp [routedFolder, folderGuard_false_of_no_live hno]

/-- Under `Inv` the `folder` route of a live folder's name reaches that folder. -/
theorem routedFolder_of_live {s : State} (h : Inv s) {g : Folder} (hg : g ∈ s.folders) : routedFolder s g.name = some g := by
  have hr := (C15_routes_lead_to_live h).1 g hg
  have hguard : folderGuard s g.name = true := by
    unfold folderGuard
    rw [getFolder_incl_of_live (getFolder_of_live h hg), getFolder_of_live h hg]
    simp [h.liveFlag g hg]
  simp [routedFolder, hguard, hr.1, hr.2]

/-- **A request on a deleted (or never-created) folder changes no item**: the structural theorem
`C15_deleted_folder_unavailable`, with every file's `num_access` and every folder's scan countdown included. -/
theorem C15_deleted_folder_unavailable_x {x : XState} {F : Name} (hno : ∀ g ∈ x.s.folders, g.name ≠ F) (op : Op)
    (hop : op.usesFolder F = true) : stepX x op = (x, .failure) := by
  have hs := C15_deleted_folder_unavailable hno op hop
  have hg := getFolder_none_of hno
  have hrf := routedFolder_none_of_no_live hno
  apply stepX_unchanged x op .failure hs
  · cases op <;> simp only [Op.usesFolder, beq_iff_eq, Bool.false_eq_true] at hop <;> subst hop <;>
      simp [reqTouch, getFile, hg, hrf]
  · intro e; subst e; simp [Op.usesFolder] at hop
  · intro e; subst e; simp [Op.usesFolder] at hop
  · intro F' e
    subst e
    simp only [Op.usesFolder, beq_iff_eq] at hop
    subst hop
    simp [scanStart, hrf]
  · cases op <;> simp [Op.usesFolder] at hop <;> rfl

/-- **A request on a deleted (or never-created) file changes no item**: `C15_deleted_file_unavailable` with the ledger
included — no `num_access` moves, not even that of the deleted namesake. -/
theorem C15_deleted_file_unavailable_x {x : XState} (h : Inv x.s) {g : Folder} {n : Name} (hg : g ∈ x.s.folders)
    (hno : ∀ f ∈ g.files, f.name ≠ n) (op : Op) (hop : op.usesFile g.name n = true) : stepX x op = (x, .failure) := by
  have hs := C15_deleted_file_unavailable h hg hno op hop
  have hgf := getFolder_of_live h hg
  have hff := getFile_none_of hno
  have hrf := routedFolder_of_live h hg
  have hfind : g.files.find? (fun f => f.name == n) = none := by
    simp only [List.find?_eq_none, beq_iff_eq]; exact hno
  have hguard : g.fileGuard n = false := by simp [Folder.fileGuard, hff]
  apply stepX_unchanged x op .failure hs
  · cases op <;> simp only [Op.usesFile, Bool.and_eq_true, beq_iff_eq, Bool.false_eq_true] at hop
    all_goals (obtain ⟨rfl, rfl⟩ := hop)
    all_goals simp [reqTouch, getFile, hgf, hff, hrf, hfind, Folder.routedFile, hguard]
  · intro e; subst e; simp [Op.usesFile] at hop
  · intro e; subst e; simp [Op.usesFile] at hop
  · intro F' e; subst e; simp [Op.usesFile] at hop
  · cases op <;> simp [Op.usesFile] at hop <;> rfl

/-! ### every path -/

/-- The folder a request path addresses. -/
def pathFolder : List String → Option Name
  | "create" :: _ :: F :: _ => some F
  | "delete" :: _ :: F :: _ => some F
  | "restore" :: _ :: F :: _ => some F
  | "access" :: F :: _ => some F
  | "folder" :: F :: _ => some F
  | "file" :: F :: _ => some F
  | _ => none

/-- The file (folder name, file name) a request path addresses. -/
def pathFile : List String → Option (Name × Name)
  | "create" :: "file" :: F :: x :: _ => some (F, x)
  | "delete" :: "file" :: F :: x :: _ => some (F, x)
  | "restore" :: "file" :: F :: x :: _ => some (F, x)
  | "access" :: F :: x :: _ => some (F, x)
  | "folder" :: F :: "delete" :: x :: _ => some (F, x)
  | "folder" :: F :: "file" :: x :: _ => some (F, x)
  | "file" :: F :: x :: _ => some (F, x)
  | _ => none

theorem viaFolder_out_ne_success (s : State) (F : Name) (o : Out) (ho : o ≠ .success) :
    (viaFolder s F (fun g => some (g, o))).2 ≠ .success := by
  unfold viaFolder
  split
  · simp
  · split
    · simp
    · split
      · simp
      · simpa using ho

/-- A path that denotes no operation is never answered `success`. -/
theorem resolve_inr_ne_success (s : State) (path : List String) (o : Out) (h : resolve s path = .inr o) : o ≠ .success := by
  unfold resolve at h
  repeat' (split at h)
  all_goals first
    | (simp only [reduceCtorEq] at h; done)
    | (simp only [Sum.inr.injEq] at h; subst h; first | (simp; done) | exact viaFolder_out_ne_success _ _ _ (by simp))

/-- Every operation a path can denote that is neither a `create …` nor `restore folder …` acts on the folder the path
addresses. -/
theorem resolve_usesFolder (s : State) (path : List String) (F : Name) (op : Op) (hF : pathFolder path = some F)
    (hc : path.head? ≠ some "create") (hr : ∀ rest, path ≠ "restore" :: "folder" :: rest)
    (h : resolve s path = .inl op) : op.usesFolder F = true := by
  unfold pathFolder at hF
  split at hF <;> simp only [Option.some.injEq, reduceCtorEq] at hF
  all_goals subst hF
  · simp at hc
  all_goals
    simp only [resolve] at h
    repeat' (split at h)
    all_goals first
      | (simp only [reduceCtorEq] at h; done)
      | (simp only [Sum.inl.injEq] at h; subst h; simp_all [Op.usesFolder]; done)
      | (exfalso; simp_all; done)

theorem resolve_folder_file (s : State) (F x : Name) (tl : List String) :
    ∃ v, resolve s ("folder" :: F :: "file" :: x :: tl) = .inl (.fileVerb F x v) := by
  cases tl with
  | nil => exact ⟨.other, by simp [resolve]⟩
  | cons v t => exact ⟨verbOf v, by simp [resolve]⟩

theorem resolve_file (s : State) (F x : Name) (tl : List String) :
    ∃ v, resolve s ("file" :: F :: x :: tl) = .inl (.fsFileVerb F x v) := by
  cases tl with
  | nil => exact ⟨.other, by simp [resolve]⟩
  | cons v t => exact ⟨verbOf v, by simp [resolve]⟩

/-- Every operation a path can denote that is neither a `create …` nor a `restore …` request acts on the file the path
addresses. -/
theorem resolve_usesFile (s : State) (path : List String) (F x : Name) (op : Op) (hF : pathFile path = some (F, x))
    (hc : path.head? ≠ some "create") (hr : path.head? ≠ some "restore")
    (h : resolve s path = .inl op) : op.usesFile F x = true := by
  unfold pathFile at hF
  split at hF <;> simp only [Option.some.injEq, Prod.mk.injEq, reduceCtorEq] at hF
  all_goals (obtain ⟨rfl, rfl⟩ := hF)
  · simp at hc
  · simp only [resolve, Sum.inl.injEq] at h; subst h; simp [Op.usesFile]
  · simp at hr
  · simp only [resolve, Sum.inl.injEq] at h; subst h; simp [Op.usesFile]
  · simp only [resolve, Sum.inl.injEq] at h; subst h; simp [Op.usesFile]
  · obtain ⟨v, hv⟩ := resolve_folder_file s _ _ _
    rw [hv] at h
    simp only [Sum.inl.injEq] at h; subst h; simp [Op.usesFile]
  · obtain ⟨v, hv⟩ := resolve_file s _ _ _
    rw [hv] at h
    simp only [Sum.inl.injEq] at h; subst h; simp [Op.usesFile]

/-- **Any path addressed to a folder that is not live changes nothing**: whatever an agent sends below `file_system` —
any of the 23 registered shapes, truncated, over-long or misspelt — if it addresses (or addresses something inside) a
folder name with no live folder, and is not one of the explicit `create …` / `restore folder …` requests, the node's whole
state (structure, every `num_access`, every countdown, the counters) is unchanged and the answer is not `success`.
Holds in every power state. -/
theorem C15_path_on_deleted_folder_changes_nothing (n : NState) (path : List String) (F : Name)
    (hno : ∀ g ∈ n.x.s.folders, g.name ≠ F) (hF : pathFolder path = some F)
    (hc : path.head? ≠ some "create") (hr : ∀ rest, path ≠ "restore" :: "folder" :: rest) :
    (nstep n (.req path)).1 = n ∧ (nstep n (.req path)).2 ≠ .success := by
  obtain ⟨x, on, cd, dur⟩ := n
  cases on with
  | false => exact ⟨by simp [nstep, nstepWith, codeGlue], by simp [nstep, nstepWith, codeGlue]⟩
  | true =>
    simp only [nstep, nstepWith, codeGlue, Bool.not_true, Bool.false_eq_true, if_false]
    cases hres : resolve x.s path with
    | inl op =>
      have := C15_deleted_folder_unavailable_x hno op (resolve_usesFolder x.s path F op hF hc hr hres)
      simp only [this]
      exact ⟨trivial, by simp⟩
    | inr o => exact ⟨rfl, resolve_inr_ne_success x.s path o hres⟩

/-- **Any path addressed to a file that is not live changes nothing**: in a live folder with no live file of that name
(the file was deleted, or never created), every path that addresses the file and is not an explicit `create …` /
`restore …` request leaves the node's whole state unchanged and is not answered `success` — in every power state. -/
theorem C15_path_on_deleted_file_changes_nothing (n : NState) (h : Inv n.x.s) {g : Folder} (hg : g ∈ n.x.s.folders)
    (path : List String) (x : Name) (hno : ∀ f ∈ g.files, f.name ≠ x) (hF : pathFile path = some (g.name, x))
    (hc : path.head? ≠ some "create") (hr : path.head? ≠ some "restore") :
    (nstep n (.req path)).1 = n ∧ (nstep n (.req path)).2 ≠ .success := by
  obtain ⟨xs, on, cd, dur⟩ := n
  cases on with
  | false => exact ⟨by simp [nstep, nstepWith, codeGlue], by simp [nstep, nstepWith, codeGlue]⟩
  | true =>
    simp only [nstep, nstepWith, codeGlue, Bool.not_true, Bool.false_eq_true, if_false]
    cases hres : resolve xs.s path with
    | inl op =>
      have := C15_deleted_file_unavailable_x h hg hno op (resolve_usesFile xs.s path g.name x op hF hc hr hres)
      simp only [this]
      exact ⟨trivial, by simp⟩
    | inr o => exact ⟨rfl, resolve_inr_ne_success xs.s path o hres⟩

/-- Non-vacuity: a node whose folder `fa` holds a deleted file `a` and whose folder `fb` is deleted; the hypotheses of both
theorems hold for requests of every family (item verbs through both routes, access, delete, a truncated path). -/
example :
    let n := (nrun (ninit none none) [.req ["create", "file", "fa", "a", "0"], .req ["delete", "file", "fa", "a"],
      .req ["create", "folder", "fb"], .req ["delete", "folder", "fb"]]).1
    (∀ g ∈ n.x.s.folders, g.name ≠ "fb") ∧ (∃ g ∈ n.x.s.deletedFolders, g.name = "fb") ∧
    pathFolder ["folder", "fb", "scan"] = some "fb" ∧ pathFolder ["file", "fb", "a", "corrupt"] = some "fb" ∧
    pathFolder ["folder", "fb", "restore"] = some "fb" ∧ pathFolder ["delete", "folder", "fb"] = some "fb" ∧
    (∃ g ∈ n.x.s.folders, g.name = "fa" ∧ (∀ f ∈ g.files, f.name ≠ "a") ∧ ∃ f ∈ g.deletedFiles, f.name = "a") ∧
    pathFile ["folder", "fa", "file", "a", "repair"] = some ("fa", "a") ∧ pathFile ["access", "fa", "a"] = some ("fa", "a") ∧
    pathFile ["file", "fa", "a"] = some ("fa", "a") ∧ pathFile ["folder", "fa", "delete", "a", "extra"] = some ("fa", "a") := by
  decide

/-! ### a request that lacks an option its handler needs (after repair F-C05-2) -/

/-- Under `Inv` a continuation that answers `failure` makes the `folder` route answer `failure` (never `raised`: no route dangles). -/
theorem viaFolder_const_failure {s : State} (h : Inv s) (F : Name) :
    (viaFolder s F (fun g => some (g, .failure))).2 = .failure := by
  rcases viaFolder_out h F (fun g => some (g, .failure)) with ⟨_, e⟩ | ⟨g, _, _, ⟨hk, _⟩ | ⟨g', o, hk, e⟩⟩
  · rw [e]
  · simp at hk
  · rw [e]; simp only [Option.some.injEq, Prod.mk.injEq] at hk; exact hk.2.symm

/-- **No request path raises**: whatever an agent sends below `file_system` — any list of strings — the answer is never an
exception, in any state satisfying `Inv`, in any power state. (`raised` remains an outcome of direct Python-API calls only.) -/
theorem C15_no_request_raises (n : NState) (h : Inv n.x.s) (path : List String) : (nstep n (.req path)).2 ≠ .raised := by
  cases hon : n.on with
  | false => rw [(C15_node_request_refused_while_off n hon path).1]; simp
  | true =>
    cases hres : resolve n.x.s path with
    | inl op => rw [((C15_node_request_is_fs_request n path hon).1 op hres).2]; exact C15_never_raises h op
    | inr o =>
      rw [(C15_node_request_is_fs_request n path hon).2 o hres]
      intro e
      simp only at e
      subst e
      -- `resolve` has no `raised` literal left; the two `folder` sub-cases go through `viaFolder`
      unfold resolve at hres
      repeat' (split at hres)
      all_goals first
        | (simp only [reduceCtorEq] at hres; done)
        | (simp only [Sum.inr.injEq, reduceCtorEq] at hres; done)
        | (simp only [Sum.inr.injEq] at hres; rw [viaFolder_const_failure h] at hres; simp at hres)

theorem fileRequest_other_out {g : Folder} (h : FolderInv g) (y : Name) :
    (g.fileRequest y .other).2 = .failure ∨ (g.fileRequest y .other).2 = .unreachable := by
  have h1 := fileRequest_out_ne_raised h y .other
  have h2 : (g.fileRequest y .other).2 ≠ .success := by
    unfold Folder.fileRequest
    split
    · simp
    · split
      · simp
      · split
        · simp
        · simp [File.verb]
  cases ho : (g.fileRequest y .other).2 <;> simp_all

/-- What a truncated request denotes: an answer `failure` / `unreachable` alone, or an item request with no verb. -/
def Harmless : Sum Op Out → Prop
  | .inr o => o = .failure ∨ o = .unreachable
  | .inl op => (∃ F, op = .folderVerb F .other) ∨ (∃ F x, op = .fileVerb F x .other) ∨ (∃ F x, op = .fsFileVerb F x .other)

/-- **Every proper prefix of every one of the 23 request shapes is harmless**: cut a registered request short anywhere — before
the options its handler or validator reads — and what is left denotes no state-changing operation. -/
theorem C15_truncated_shape_harmless {s : State} (h : Inv s) (F x force : String) :
    ∀ shape ∈ requestShapes, ∀ k, k < shape.length → Harmless (resolve s (instShape F x force (shape.take k))) := by
  intro shape hs k hk
  have hv := viaFolder_const_failure h F
  simp only [requestShapes, List.mem_cons, List.not_mem_nil, or_false] at hs
  rcases hs with rfl | rfl | rfl | rfl | rfl | rfl | rfl | rfl | rfl | rfl | rfl | rfl | rfl | rfl | rfl | rfl | rfl | rfl |
    rfl | rfl | rfl | rfl | rfl <;>
  (rcases k with _ | _ | _ | _ | _ | k <;>
    first
      | (exfalso; simp only [List.length_cons, List.length_nil] at hk; omega)
      | (simp [instShape, resolve, Harmless, hv]; done))

/-- A harmless request changes nothing — structure, every `num_access`, every countdown, the counters, the node — and is
answered `failure` or `unreachable`. -/
theorem C15_harmless_changes_nothing (n : NState) (h : Inv n.x.s) (path : List String) (hh : Harmless (resolve n.x.s path)) :
    (nstep n (.req path)).1 = n ∧ ((nstep n (.req path)).2 = .failure ∨ (nstep n (.req path)).2 = .unreachable) := by
  obtain ⟨x, on, cd, dur⟩ := n
  cases on with
  | false => exact ⟨by simp [nstep, nstepWith, codeGlue], Or.inl (by simp [nstep, nstepWith, codeGlue])⟩
  | true =>
    simp only [nstep, nstepWith, codeGlue, Bool.not_true, Bool.false_eq_true, if_false]
    cases hres : resolve x.s path with
    | inr o => rw [hres] at hh; exact ⟨rfl, hh⟩
    | inl op =>
      rw [hres] at hh
      have hI : Inv x.s := h
      -- the three item requests without a verb: answered by the guard or `unreachable`, nothing touched
      have key : ∃ o, (o = Out.failure ∨ o = Out.unreachable) ∧ stepX x op = (x, o) := by
        rcases hh with ⟨F, rfl⟩ | ⟨F, y, rfl⟩ | ⟨F, y, rfl⟩
        · have hstep : ∃ o, (o = Out.failure ∨ o = Out.unreachable) ∧ step x.s (.folderVerb F .other) = (x.s, o) := by
            simp only [step]
            rcases viaFolder_out hI F (fun g => (g.verb .other).map (fun (g', b) => (g', ofBool b))) with
              ⟨_, e⟩ | ⟨g, _, _, ⟨_, e⟩ | ⟨g', o, hk, _⟩⟩
            · exact ⟨_, Or.inl rfl, e⟩
            · exact ⟨_, Or.inr rfl, e⟩
            · simp [Folder.verb] at hk
          obtain ⟨o, ho, hs⟩ := hstep
          refine ⟨o, ho, stepX_unchanged x _ o hs ?_ (by simp) (by simp) (by intro F' e; cases e) rfl⟩
          simp only [reqTouch]
          cases routedFolder x.s F <;> rfl
        · have hstep : ∃ o, (o = Out.failure ∨ o = Out.unreachable) ∧ step x.s (.fileVerb F y .other) = (x.s, o) := by
            simp only [step]
            rcases viaFolder_out hI F (fun g => some (g.fileRequest y .other)) with ⟨_, e⟩ | ⟨g, hgm, _, ⟨hk, _⟩ | ⟨g', o, hk, e⟩⟩
            · exact ⟨_, Or.inl rfl, e⟩
            · simp at hk
            · simp only [Option.some.injEq] at hk
              have gi := (hI.folder g (Or.inl hgm)).1
              have e1 := fileRequest_state gi y .other
              rw [hk] at e1
              simp only at e1
              subst e1
              refine ⟨o, ?_, by rw [e, updFolder_self hI hgm]⟩
              have ho : o = (g'.fileRequest y .other).2 := by rw [hk]
              rw [ho]
              exact fileRequest_other_out gi y
          obtain ⟨o, ho, hs⟩ := hstep
          refine ⟨o, ho, stepX_unchanged x _ o hs ?_ (by simp) (by simp) (by intro F' e; cases e) rfl⟩
          simp only [reqTouch]
          cases routedFolder x.s F with
          | none => rfl
          | some g => simp only; cases g.routedFile y <;> simp [verbTouch]
        · have hstate := fsFileVerb_state hI F y .other
          have hstep : ∃ o, (o = Out.failure ∨ o = Out.unreachable) ∧ step x.s (.fsFileVerb F y .other) = (x.s, o) := by
            simp only [step]
            refine ⟨(fsFileVerb x.s F y .other).2, ?_, Prod.ext hstate rfl⟩
            unfold fsFileVerb
            cases getFolder x.s F with
            | none => exact Or.inl rfl
            | some g =>
              simp only
              cases g.getFile y with
              | none => exact Or.inl rfl
              | some f => simp [File.verb]
          obtain ⟨o, ho, hs⟩ := hstep
          refine ⟨o, ho, stepX_unchanged x _ o hs ?_ (by simp) (by simp) (by intro F' e; cases e) rfl⟩
          simp only [reqTouch]
          cases getFile x.s F y <;> simp [verbTouch]
      obtain ⟨o, ho, hs⟩ := key
      simp only [hs]
      exact ⟨trivial, ho⟩

/-- **A request that lacks an option its handler or validator needs answers `failure` (or `unreachable`) and changes nothing**, for
every one of the 23 request shapes cut short at any point, any names, any state satisfying `Inv`, any power state. -/
theorem C15_truncated_request_changes_nothing (n : NState) (h : Inv n.x.s) (F x force : String) :
    ∀ shape ∈ requestShapes, ∀ k, k < shape.length →
      (nstep n (.req (instShape F x force (shape.take k)))).1 = n ∧
      ((nstep n (.req (instShape F x force (shape.take k)))).2 = .failure ∨
       (nstep n (.req (instShape F x force (shape.take k)))).2 = .unreachable) :=
  fun shape hs k hk => C15_harmless_changes_nothing n h _ (C15_truncated_shape_harmless h F x force shape hs k hk)

end Primaite.FileSystem
