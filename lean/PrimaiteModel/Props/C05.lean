/-
C05 — requests resolve to a documented status; refused requests change nothing; only a request that reaches its
handler can change state; a request naming existing components is never `unreachable`, and only the permission
rules on its own path can refuse it.
-/
import PrimaiteModel.Model.Request
import PrimaiteModel.Gen.RequestCore
namespace Primaite.Request

/-- status reported for a refusal built by the manager itself -/
def Outcome.refusalStatus : Outcome → Option Status
  | .unreachable _ => some .unreachable
  | .failure _ _ => some .failure
  | .reached _ _ => none

/-- Execution follows dispatch: a refused request leaves the state exactly as it was and is answered
`unreachable` / `failure` (never `success`); a reached request is exactly its handler's doing. Holds for every
tree, valuation, handler semantics, state and request. -/
theorem C05_exec_follows_dispatch {σ} (env : Env) (run : HId → List Key → σ → σ × Status)
    (kids : Kids) (p : List Key) (s : σ) (d : Nat) :
    execK env run kids p s =
      match dispatchK env kids p d with
      | .unreachable _ => (s, .unreachable)
      | .failure _ _ => (s, .failure)
      | .reached h args => run h args s := by
  induction p generalizing kids d with
  | nil => simp [execK, dispatchK]
  | cons k rest ih =>
    simp only [execK, dispatchK]
    cases hl : lookup k kids with
    | none => simp
    | some vs =>
      obtain ⟨v, sub⟩ := vs
      cases hv : env v rest with
      | false => simp [hv]
      | true =>
        cases sub with
        | leaf h => simp [hv]
        | node kids' => simpa [hv] using ih kids' (d + 1)

/-- Refused requests change nothing and are never reported as success. -/
theorem C05_refused_changes_nothing {σ} (env : Env) (run : HId → List Key → σ → σ × Status)
    (kids : Kids) (p : List Key) (s : σ)
    (h : (dispatchK env kids p 0).isReached = false) :
    (execK env run kids p s).1 = s ∧
    ((execK env run kids p s).2 = .unreachable ∨ (execK env run kids p s).2 = .failure) := by
  rw [C05_exec_follows_dispatch env run kids p s 0]
  cases hd : dispatchK env kids p 0 with
  | unreachable d => simp
  | failure d v => simp
  | reached hh a => rw [hd] at h; simp [Outcome.isReached] at h

/-- Only a request that reaches its handler can change state. -/
theorem C05_state_change_needs_handler {σ} (env : Env) (run : HId → List Key → σ → σ × Status)
    (kids : Kids) (p : List Key) (s : σ) (h : (execK env run kids p s).1 ≠ s) :
    ∃ hd args, dispatchK env kids p 0 = .reached hd args ∧ execK env run kids p s = run hd args s := by
  rw [C05_exec_follows_dispatch env run kids p s 0] at h ⊢
  cases hd : dispatchK env kids p 0 with
  | unreachable d => rw [hd] at h; simp at h
  | failure d v => rw [hd] at h; simp at h
  | reached hh a => exact ⟨hh, a, rfl, rfl⟩

/-- A request whose path names existing components down to a handler is never `unreachable`. -/
theorem C05_existing_target_never_unreachable (env : Env) (kids : Kids) (p : List Key) (d : Nat)
    (h : pathExistsK kids p = true) : ∀ d', dispatchK env kids p d ≠ .unreachable d' := by
  induction p generalizing kids d with
  | nil => simp [pathExistsK] at h
  | cons k rest ih =>
    intro d'
    simp only [pathExistsK] at h
    simp only [dispatchK]
    cases hl : lookup k kids with
    | none => rw [hl] at h; simp at h
    | some vs =>
      obtain ⟨v, sub⟩ := vs
      rw [hl] at h
      cases hv : env v rest with
      | false => simp [hv]
      | true =>
        cases sub with
        | leaf hh => simp [hv]
        | node kids' => simpa [hv] using ih kids' (d + 1) (by simpa using h) d'

/-- ... and conversely a path that runs off the tree is `unreachable` or was refused earlier by a rule on it. -/
theorem C05_missing_target_not_reached (env : Env) (kids : Kids) (p : List Key) (d : Nat)
    (h : pathExistsK kids p = false) : (dispatchK env kids p d).isReached = false := by
  induction p generalizing kids d with
  | nil => simp [dispatchK, Outcome.isReached]
  | cons k rest ih =>
    simp only [pathExistsK] at h
    simp only [dispatchK]
    cases hl : lookup k kids with
    | none => simp [Outcome.isReached]
    | some vs =>
      obtain ⟨v, sub⟩ := vs
      rw [hl] at h
      cases hv : env v rest with
      | false => simp [hv, Outcome.isReached]
      | true =>
        cases sub with
        | leaf hh => simp at h
        | node kids' => simpa [hv] using ih kids' (d + 1) (by simpa using h)

/-- A `failure` names a permission rule that lies on the request's own path (at the reported depth) and is false
for the options it was given; every rule before it on the path holds. No other rule can refuse the request. -/
theorem C05_failure_is_own_rule (env : Env) (kids : Kids) (p : List Key) (d d' : Nat) (v : VId)
    (h : dispatchK env kids p d = .failure d' v) :
    d ≤ d' ∧ ∃ args, (validatorsOnK kids p)[d' - d]? = some (v, args) ∧ env v args = false ∧
      ∀ j, j < d' - d → ∀ w a, (validatorsOnK kids p)[j]? = some (w, a) → env w a = true := by
  induction p generalizing kids d with
  | nil => simp [dispatchK] at h
  | cons k rest ih =>
    simp only [dispatchK] at h
    simp only [validatorsOnK]
    cases hl : lookup k kids with
    | none => rw [hl] at h; simp at h
    | some vs =>
      obtain ⟨w, sub⟩ := vs
      rw [hl] at h
      cases hv : env w rest with
      | false =>
        simp [hv] at h
        obtain ⟨rfl, rfl⟩ := h
        cases sub <;> simp [hv]
      | true =>
        simp only [hv, if_true] at h
        cases sub with
        | leaf hh => simp at h
        | node kids' =>
          simp only at h
          obtain ⟨hle, args, hget, hfalse, hbefore⟩ := ih kids' (d + 1) h
          refine ⟨by omega, args, ?_, hfalse, ?_⟩
          · have : d' - d = (d' - (d + 1)) + 1 := by omega
            rw [this]; simpa using hget
          · intro j hj w' a' hj'
            cases j with
            | zero => simp at hj'; obtain ⟨rfl, rfl⟩ := hj'; exact hv
            | succ j => exact hbefore j (by omega) w' a' (by simpa using hj')

/-- If every permission rule on the path holds and the target exists, the handler is reached (so for an action whose
parameters name existing components, only the rules on its own route can stand between it and its operation). -/
theorem C05_reaches_iff (env : Env) (kids : Kids) (p : List Key) (d : Nat) :
    (dispatchK env kids p d).isReached =
      (pathExistsK kids p && (validatorsOnK kids p).all (fun va => env va.1 va.2)) := by
  induction p generalizing kids d with
  | nil => simp [dispatchK, pathExistsK, Outcome.isReached]
  | cons k rest ih =>
    simp only [dispatchK, pathExistsK, validatorsOnK]
    cases hl : lookup k kids with
    | none => simp [Outcome.isReached]
    | some vs =>
      obtain ⟨v, sub⟩ := vs
      cases sub with
      | leaf h => cases hv : env v rest <;> simp [Outcome.isReached, hv]
      | node kids' =>
        simp only [List.all_cons]
        cases hv : env v rest with
        | false => simp [hv, Outcome.isReached]
        | true => simp [hv, ih kids' (d + 1)]

/-! non-vacuity -/
def exKids : Kids :=
  [("network", 0, .node [("node", 0, .node [("pc", 0, .node
      [("shutdown", 1, .leaf 10), ("service", 1, .node [("dns", 0, .node [("stop", 2, .leaf 20)])])])])])]
def envOn : Env := fun _ _ => true
def envOff : Env := fun v _ => v != 1

example : dispatchK envOn exKids ["network", "node", "pc", "service", "dns", "stop"] 0 = .reached 20 [] := by decide
example : dispatchK envOff exKids ["network", "node", "pc", "service", "dns", "stop"] 0 = .failure 3 1 := by decide
example : dispatchK envOn exKids ["network", "node", "pcx", "shutdown"] 0 = .unreachable 2 := by decide
example : dispatchK envOn exKids ["network", "node", "pc"] 0 = .unreachable 3 := by decide
example : pathExistsK exKids ["network", "node", "pc", "service", "dns", "stop"] = true := by decide

end Primaite.Request

/-! ### tie to the regenerated shape of `RequestManager.__call__` (Gen/RequestCore.lean) -/
namespace Primaite.Request
open Primaite.Gen.RequestCore in
/-- The statements of `__call__` are, in order, the ones `dispatchK`/`execK` model: exhausted request → unreachable,
split, missing key → unreachable, look up, validator false → failure, else invoke handler or sub-manager. -/
theorem C05_gen_call_shape :
    callSteps = [.ifEmpty_unreachable, .takeKey, .takeOptions, .ifMissing_unreachable, .lookup,
                 .ifValidatorFalse_failure, .ifManager_invoke, .invokeLeaf_optionsError_failure] := by decide

open Primaite.Gen.RequestCore in
/-- Totality of the key test: an element that cannot be a dictionary key (a list or dict in a key position) is answered
`unreachable` / `False` like any other unknown name — in the model it simply is a key no manager has (`lookup` is total);
in the code the membership test is guarded by `_is_hashable`, in `__call__` and in `check_valid`. -/
theorem C05_gen_total_on_unhashable : callTotalOnUnhashable = true ∧ checkValidTotalOnUnhashable = true := by decide

/-- The model's dispatch is total: EVERY request (any length, any elements — the wire form keeps the Python type of an
element, so `1`, `"1"`, `None`, a list or a dict are different keys) resolves to exactly one of the three outcomes, and
the two refusals are the only outcomes of a request whose first element is not a key of the manager or which is empty. -/
theorem C05_dispatch_total (env : Env) (kids : Kids) (p : List Key) (d : Nat) :
    (∃ d', dispatchK env kids p d = .unreachable d') ∨ (∃ d' v, dispatchK env kids p d = .failure d' v) ∨
    (∃ h a, dispatchK env kids p d = .reached h a) := by
  cases h : dispatchK env kids p d with
  | unreachable d' => exact Or.inl ⟨d', rfl⟩
  | failure d' v => exact Or.inr (Or.inl ⟨d', v, rfl⟩)
  | reached hh a => exact Or.inr (Or.inr ⟨hh, a, rfl⟩)

/-- an empty request and a request whose first element names nothing are `unreachable` at the current depth -/
theorem C05_unknown_or_empty_unreachable (env : Env) (kids : Kids) (d : Nat) :
    dispatchK env kids [] d = .unreachable d ∧
    ∀ k rest, lookup k kids = none → dispatchK env kids (k :: rest) d = .unreachable d := by
  refine ⟨by simp [dispatchK], ?_⟩
  intro k rest h
  simp [dispatchK, h]

/-- the depth reported by a refusal never exceeds the length of the request: an over-long request is cut at the handler
(its surplus elements are the handler's options), a short one ends `unreachable` at its own length -/
theorem C05_depth_bounded (env : Env) (kids : Kids) (p : List Key) (d : Nat) :
    (∀ d', dispatchK env kids p d = .unreachable d' → d ≤ d' ∧ d' ≤ d + p.length) ∧
    (∀ d' v, dispatchK env kids p d = .failure d' v → d ≤ d' ∧ d' < d + p.length) := by
  induction p generalizing kids d with
  | nil => simp [dispatchK]
  | cons k rest ih =>
    simp only [dispatchK, List.length_cons]
    cases hl : lookup k kids with
    | none => simp
    | some vs =>
      obtain ⟨v, sub⟩ := vs
      cases hv : env v rest with
      | false => simp [hv]
      | true =>
        cases sub with
        | leaf h => simp [hv]
        | node kids' =>
          simp only [hv, if_true]
          obtain ⟨h1, h2⟩ := ih kids' (d + 1)
          constructor
          · intro d' hd; have := h1 d' hd; omega
          · intro d' w hd; have := h2 d' w hd; omega

example : dispatchK envOn exKids ["network", "o:%5B%22x%22%5D", "pc"] 0 = .unreachable 1 := by decide
example : dispatchK envOn exKids [] 0 = .unreachable 0 := by decide
example : dispatchK envOn exKids ["network", "node", "pc", "shutdown", "a", "b", "c", "d"] 0 = .reached 10 ["a", "b", "c", "d"] := by
  decide

/-! ### "every request is answered" with handlers AS THEY ARE (finding F-C05-2, repaired)

In the theorems above a handler is a total function (`run`).  The code's handlers read their options by position and 30 of
them read options the request may not carry.  Since the repair a leaf handler is handed the options as `_RequestOptions`, a
list whose out-of-range read raises `RequestOptionsError`, and `__call__` answers exactly that exception with `failure`
(`C05_gen_missing_options_answered` pins both).  Model: a handler returns the state it reached and either a status or
`optionsError` (it read a missing option at that point). -/

inductive HResult where
  | answered (st : Status)
  | optionsError
deriving DecidableEq, Repr

/-- what `__call__` makes of a leaf handler's result -/
def answer {σ} : σ × HResult → σ × Status
  | (s, .answered st) => (s, st)
  | (s, .optionsError) => (s, .failure)

/-- execution as repaired: total — every request is answered with a status -/
def execRK {σ} (env : Env) (run : HId → List Key → σ → σ × HResult) : Kids → List Key → σ → σ × Status
  | _, [], s => (s, .unreachable)
  | kids, k :: rest, s =>
    match lookup k kids with
    | none => (s, .unreachable)
    | some (v, sub) =>
      if env v rest then
        match sub with
        | .leaf h => answer (run h rest s)
        | .node kids' => execRK env run kids' rest s
      else (s, .failure)

/-- execution BEFORE the repair (kept to document why it was needed): the handler's options error escapes `apply_request` -/
def execUnrepairedK {σ} (env : Env) (run : HId → List Key → σ → σ × HResult) : Kids → List Key → σ → Option (σ × Status)
  | _, [], s => some (s, .unreachable)
  | kids, k :: rest, s =>
    match lookup k kids with
    | none => some (s, .unreachable)
    | some (v, sub) =>
      if env v rest then
        match sub with
        | .leaf h => match run h rest s with
          | (s', .answered st) => some (s', st)
          | (_, .optionsError) => none
        | .node kids' => execUnrepairedK env run kids' rest s
      else some (s, .failure)

/-- FULL: every request submitted is answered with a status, for every tree, rules, handlers (including handlers that read
options the request does not carry), state and request: a refusal leaves the state as it was and is `unreachable` / `failure`;
a reached handler's answer is passed on; a reached handler that reads a missing option is answered `failure` (with the state
the handler had reached — it is a handler failure, not a refusal). -/
theorem C05_FullAnswered {σ} (env : Env) (run : HId → List Key → σ → σ × HResult) (kids : Kids) (p : List Key) (s : σ)
    (d : Nat) :
    execRK env run kids p s =
      match dispatchK env kids p d with
      | .unreachable _ => (s, .unreachable)
      | .failure _ _ => (s, .failure)
      | .reached h args => answer (run h args s) := by
  induction p generalizing kids d with
  | nil => simp [execRK, dispatchK]
  | cons k rest ih =>
    simp only [execRK, dispatchK]
    cases hl : lookup k kids with
    | none => simp
    | some vs =>
      obtain ⟨v, sub⟩ := vs
      cases hv : env v rest with
      | false => simp [hv]
      | true =>
        cases sub with
        | leaf h => simp [hv]
        | node kids' => simpa [hv] using ih kids' (d + 1)

/-- the repair changes nothing where the unrepaired code answered, and answers `failure` exactly where it raised -/
theorem C05_repair_answers_what_raised {σ} (env : Env) (run : HId → List Key → σ → σ × HResult) (kids : Kids)
    (p : List Key) (s : σ) :
    (∀ r, execUnrepairedK env run kids p s = some r → execRK env run kids p s = r) ∧
    (execUnrepairedK env run kids p s = none → (execRK env run kids p s).2 = .failure) := by
  induction p generalizing kids with
  | nil => simp [execRK, execUnrepairedK]
  | cons k rest ih =>
    simp only [execRK, execUnrepairedK]
    cases hl : lookup k kids with
    | none => simp
    | some vs =>
      obtain ⟨v, sub⟩ := vs
      cases hv : env v rest with
      | false => simp [hv]
      | true =>
        cases sub with
        | leaf h =>
          simp only [hv, if_true]
          cases hr : run h rest s with
          | mk s' res => cases res <;> simp [answer]
        | node kids' => simpa [hv] using ih kids'

/-- why the repair was needed (the witness kept in corpus/C05: `…/service/user-manager/add_user` without options) -/
theorem C05_unrepaired_raises : ∃ (run : HId → List Key → Unit → Unit × HResult),
    execUnrepairedK (fun _ _ => true) run [("add_user", 0, .leaf 7)] ["add_user"] () = none ∧
    execRK (fun _ _ => true) run [("add_user", 0, .leaf 7)] ["add_user"] () = ((), .failure) :=
  ⟨fun _ args s => if args.length < 1 then (s, .optionsError) else (s, .answered .success), by decide, by decide⟩

open Primaite.Gen.RequestCore in
/-- (Gen) `__call__` hands a LEAF handler `_RequestOptions(request_options)` inside `try … except RequestOptionsError` →
`failure`; sub-managers are invoked with the plain list; `_RequestOptions` is `list` with only `__getitem__` overridden
(out-of-range → `RequestOptionsError`, a subclass of `IndexError`). -/
theorem C05_gen_missing_options_answered : leafAnswersMissingOptions = true := by decide

open Primaite.Gen.RequestCore in
/-- (Gen) no request handler of the simulator copies or slices its options into a plain sequence before reading them
(`list(request)`, `tuple(request)`, `request[a:b]`, `[*request]`, `request + …`, `copy`): the options VIEW handed to a handler
is what the handler reads, so `C05_FullAnswered`'s `optionsError` case is the only way a missing option surfaces. -/
theorem C05_gen_no_options_view_bypass : optionViewBypasses = [] := by decide
end Primaite.Request
