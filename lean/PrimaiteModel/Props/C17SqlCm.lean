/-
C17 — counter-model search for the translated `_process_sql` (NOT a proof, not in the proved modules; run by harness/props/c17.py with
`lake env lean`): the whole domain of the method as far as it reads the server - file (absent / GOOD / COMPROMISED / CORRUPT) x service
health (5) x query (6) = 120 cells - is evaluated on the translated function and on the model; a differing cell is printed.
When `C17_tr_process_sql` checks this prints `cells=120 differing=0`.
-/
import PrimaiteModel.Model.Database
import PrimaiteModel.Gen.DatabaseTr
open Primaite.Database Primaite.Gen

def c17SqlCells : List (Option FHealth × Health × Sql) :=
  ([none, some .good, some .compromised, some .corrupt] : List (Option FHealth)).flatMap fun f =>
  ([.unused, .good, .fixing, .compromised, .overwhelmed] : List Health).flatMap fun h =>
  ([.select, .delete, .encrypt, .insert, .pgstat, .other] : List Sql).map fun q => (f, h, q)

def c17SqlDiff : List String :=
  c17SqlCells.filterMap fun (f, h, q) =>
    let s : Server := { file := f, health := h }
    let t := DatabaseTr.processSql s q
    let m := processSql s q
    if (t.1, t.2.1) = m ∧ t.2.2 = (t.2.1 == 200) then none
    else some s!"counter-model file={repr f} health={repr h} query={repr q}: translated file={repr t.1.file} status={t.2.1} uuid={t.2.2}; model file={repr m.1.file} status={m.2}"

#eval do
  for l in c17SqlDiff do IO.println l
  IO.println s!"cells={c17SqlCells.length} differing={c17SqlDiff.length}"
