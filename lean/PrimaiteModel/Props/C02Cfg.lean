/-
C02 — construction side: the objects built from a scenario's observation_space section, the order of events inside the
constructors, flattening, and the space an environment declares episode by episode.
Model: `Model/ObsConfig.lean`; source tables: `Gen/ObsCfgTables.lean` (regenerated on every run).
-/
import PrimaiteModel.Props.C02
import PrimaiteModel.Model.ObsConfig
import PrimaiteModel.Gen.ObsCfgTables
namespace Primaite.Obs
open Primaite.Gen

/-! ### translator tie: ORDER of events inside every `__init__`

An event is `(kind, attribute, detail)`: `assign` / `set` (the attribute receives a value), `pad` / `trunc` (a `while` loop appends
to / pops from the list), `default` (a statement that builds `default_observation`; detail = attributes it reads), `alias`
(`self.x = self.default_observation`).  The obligation: once a `default` statement has READ an attribute, nothing writes that
attribute any more — so `default_observation`, `space` (evaluated later) and `observe` all see the same, final, padded lists. -/

abbrev InitEvent := String × String × List String

def writesAttr (e : InitEvent) (a : String) : Bool :=
  (e.1 == "pad" || e.1 == "trunc" || e.1 == "assign" || e.1 == "set") && e.2.1 == a

/-- no attribute read by a `default` statement is written by a later statement -/
def initOrderOk : List InitEvent → Bool
  | [] => true
  | e :: rest =>
    (if e.1 == "default" then e.2.2.all (fun a => rest.all (fun e' => !(writesAttr e' a))) else true) && initOrderOk rest

def padTruncOf (evs : List InitEvent) : List InitEvent := evs.filter (fun e => e.1 == "pad" || e.1 == "trunc")

/-- every list the model pads is padded THEN truncated to its `num_*` in the source, and every default is built afterwards -/
theorem C02_gen_init_order :
    initOrderOk ObsCfgTables.FileObservation_initEvents = true ∧ initOrderOk ObsCfgTables.FolderObservation_initEvents = true ∧
    initOrderOk ObsCfgTables.NICObservation_initEvents = true ∧ initOrderOk ObsCfgTables.PortObservation_initEvents = true ∧
    initOrderOk ObsCfgTables.LinkObservation_initEvents = true ∧ initOrderOk ObsCfgTables.LinksObservation_initEvents = true ∧
    initOrderOk ObsCfgTables.ACLObservation_initEvents = true ∧ initOrderOk ObsCfgTables.ServiceObservation_initEvents = true ∧
    initOrderOk ObsCfgTables.ApplicationObservation_initEvents = true ∧ initOrderOk ObsCfgTables.HostObservation_initEvents = true ∧
    initOrderOk ObsCfgTables.RouterObservation_initEvents = true ∧ initOrderOk ObsCfgTables.FirewallObservation_initEvents = true ∧
    initOrderOk ObsCfgTables.NodesObservation_initEvents = true ∧ initOrderOk ObsCfgTables.NestedObservation_initEvents = true ∧
    padTruncOf ObsCfgTables.HostObservation_initEvents =
      [("pad", "services", ["num_services"]), ("trunc", "services", ["num_services"]),
       ("pad", "applications", ["num_applications"]), ("trunc", "applications", ["num_applications"]),
       ("pad", "folders", ["num_folders"]), ("trunc", "folders", ["num_folders"]),
       ("pad", "nics", ["num_nics"]), ("trunc", "nics", ["num_nics"])] ∧
    padTruncOf ObsCfgTables.FolderObservation_initEvents = [("pad", "files", ["num_files"]), ("trunc", "files", ["num_files"])] ∧
    padTruncOf ObsCfgTables.RouterObservation_initEvents = [("pad", "ports", ["num_ports"]), ("trunc", "ports", ["num_ports"])] := by
  decide

/-- a reordered constructor (defaults built before the lists are final) is rejected by the checker -/
example : initOrderOk [("assign", "ports", ["ports"]), ("default", "", ["acl"]), ("default", "", ["ports"]),
                       ("pad", "ports", ["num_ports"]), ("trunc", "ports", ["num_ports"])] = false := by decide

/-- `observe` never writes THROUGH `default_observation` or `cached_obs` (no subscript store / update / pop on them or on a local
alias), and the three node classes copy the default (`{**self.default_observation}`) before the not-ON branch is returned -/
theorem C02_gen_observe_writes :
    ObsCfgTables.FileObservation_observeWrites = (false, false, "n/a") ∧ ObsCfgTables.FolderObservation_observeWrites = (false, false, "n/a") ∧
    ObsCfgTables.NICObservation_observeWrites = (false, false, "n/a") ∧ ObsCfgTables.PortObservation_observeWrites = (false, false, "n/a") ∧
    ObsCfgTables.LinkObservation_observeWrites = (false, false, "n/a") ∧ ObsCfgTables.LinksObservation_observeWrites = (false, false, "n/a") ∧
    ObsCfgTables.ACLObservation_observeWrites = (false, false, "n/a") ∧ ObsCfgTables.ServiceObservation_observeWrites = (false, false, "n/a") ∧
    ObsCfgTables.ApplicationObservation_observeWrites = (false, false, "n/a") ∧
    ObsCfgTables.HostObservation_observeWrites = (false, false, "copy") ∧ ObsCfgTables.RouterObservation_observeWrites = (false, false, "copy") ∧
    ObsCfgTables.FirewallObservation_observeWrites = (false, false, "copy") ∧
    ObsCfgTables.NodesObservation_observeWrites = (false, false, "n/a") ∧ ObsCfgTables.NestedObservation_observeWrites = (false, false, "n/a") := by
  decide

/-- `PrimaiteGymEnv`: `observation_space`, `action_space` and `_get_obs` are computed from the CURRENT agent on every access (the
agent is re-fetched from the current game, which `reset` rebuilds from the scheduler's configuration of the new episode); nothing
named `*space*` is stored on the environment; `_get_obs` flattens against the space of the same observation manager that
`observation_space` flattens. -/
theorem C02_gen_env_space_shape :
    ObsCfgTables.envAgentBody = ["return self.game.rl_agents[self._agent_name]"] ∧ ObsCfgTables.envAgentBodyDecorators = ["property"] ∧
    ObsCfgTables.envObservationSpaceBody =
      ["if self.agent.flatten_obs:", "return gymnasium.spaces.flatten_space(self.agent.observation_manager.space)", "else:",
       "return self.agent.observation_manager.space"] ∧
    ObsCfgTables.envObservationSpaceBodyDecorators = ["property"] ∧
    ObsCfgTables.envActionSpaceBody = ["return self.agent.action_manager.space"] ∧ ObsCfgTables.envActionSpaceBodyDecorators = ["property"] ∧
    ObsCfgTables.envGetObsBody =
      ["if self.agent.flatten_obs:", "unflat_space = self.agent.observation_manager.space",
       "unflat_obs = self.agent.observation_manager.current_observation", "return gymnasium.spaces.flatten(unflat_space, unflat_obs)", "else:",
       "return self.agent.observation_manager.current_observation"] ∧
    ObsCfgTables.envStoredSpaceAttrs = [] ∧
    ObsCfgTables.envResetRebuildsGame =
      ["self.game: PrimaiteGame = PrimaiteGame.from_config(cfg=self.episode_scheduler(self.episode_counter))"] := by
  decide

/-- the flatten guard (F-C02-2 repaired): `ProxyAgent.model_post_init` first builds the managers, then raises ValueError when
`flatten_obs` is set and `_has_empty_dict(space)` — a Dict without entries anywhere inside, the negation of `Space.flattenable` -/
theorem C02_gen_flatten_guard :
    ObsCfgTables.proxyAgentFlattenGuard = ["self.flatten_obs and _has_empty_dict(self.observation_manager.space)"] ∧
    ObsCfgTables.proxyAgentFlattenGuardRaises = ["Raise:ValueError"] ∧ ObsCfgTables.proxyAgentGuardAfterManagersBuilt = true ∧
    ObsCfgTables.hasEmptyDictBody =
      ["if isinstance(space, spaces.Dict):",
       "return len(space.spaces) == 0 or any((_has_empty_dict(sub) for sub in space.spaces.values()))", "return False"] := by
  decide

/-- does a construction path of an ACL observation run a de-duplication of the four lists?  A DIRECT `ACLObservation(...)` runs
`__init__` only; `ACLObservation.from_config(...)` runs `from_config` and then `__init__`. -/
def pathDedups (dedupIn : List String) (kind : String) : Bool :=
  if kind == "direct" then dedupIn.contains "__init__" else dedupIn.contains "__init__" || dedupIn.contains "from_config"

/-- **every construction site of an ACL observation goes through the de-duplication** (the six direct constructions in
`FirewallObservation.__init__`, the `from_config` call of `RouterObservation.from_config`), because it lives in `__init__` — which is
what the model does: `FirewallObs.acl` and `RouterCfg.build` both build through `AclObs.fromConfig` (= `__init__`, `dedupFirst`).
Moving the statement into `from_config` (seeded C02-e) leaves the firewall's six observations without it: this obligation fails. -/
theorem C02_gen_acl_construction_paths :
    ObsCfgTables.aclConstructionSites.all (fun s => pathDedups ObsCfgTables.aclDedupIn s.2.1) = true ∧
    ObsCfgTables.aclConstructionSites =
      [("FirewallObservation.__init__", "direct", 6), ("RouterObservation.from_config", "from_config", 1)] ∧
    ObsCfgTables.aclDedupIn = ["__init__"] := by
  decide

example : pathDedups ["from_config"] "direct" = false ∧ pathDedups ["from_config"] "from_config" = true := by decide

/-! ### objects built from a scenario's words satisfy the invariant the in-space theorems need -/

theorem mem_padTo {α} {n : Nat} {d x : α} {xs : List α} (h : x ∈ padTo n d xs) : x = d ∨ x ∈ xs := by
  unfold padTo at h
  rcases List.mem_append.mp (List.mem_of_mem_take h) with h3 | h3
  · exact Or.inr h3
  · exact Or.inl (List.eq_of_mem_replicate h3)

theorem padTo_len {α} (n : Nat) (d : α) (xs : List α) : (padTo n d xs).length = n := by
  simp [padTo]; omega

theorem allSome_mem {α β} (f : α → Option β) :
    ∀ (xs : List α) (ys : List β), allSome f xs = some ys → ∀ y ∈ ys, ∃ x ∈ xs, f x = some y := by
  intro xs
  induction xs with
  | nil => intro ys h y hy; simp [allSome] at h; subst h; simp at hy
  | cons x xs ih =>
    intro ys h y hy
    unfold allSome at h
    cases hfx : f x with
    | none => simp [hfx] at h
    | some y0 =>
      cases hr : allSome f xs with
      | none => simp [hfx, hr] at h
      | some ys0 =>
        simp [hfx, hr] at h
        subst h
        rcases List.mem_cons.mp hy with rfl | hy'
        · exact ⟨x, by simp, hfx⟩
        · obtain ⟨x', hx', hf'⟩ := ih ys0 hr y hy'
          exact ⟨x', by simp [hx'], hf'⟩

theorem allSome_length {α β} (f : α → Option β) : ∀ (xs : List α) (ys : List β), allSome f xs = some ys → ys.length = xs.length := by
  intro xs
  induction xs with
  | nil => intro ys h; simp [allSome] at h; subst h; rfl
  | cons x xs ih =>
    intro ys h
    unfold allSome at h
    cases hfx : f x with
    | none => simp [hfx] at h
    | some y0 =>
      cases hr : allSome f xs with
      | none => simp [hfx, hr] at h
      | some ys0 => simp [hfx, hr] at h; subst h; simp [ih ys0 hr]

/-- a `monitored_traffic` dictionary has distinct protocol keys (it is a Python dict) -/
def TrafficOk (t : Option Traffic) : Prop := ((trafficOf t).map Prod.fst).Nodup
def HostCfg.TrafficOk (h : HostCfg) : Prop := Obs.TrafficOk (fld noDefault h.traffic) ∧ ∀ n ∈ h.nics, Obs.TrafficOk (fld noDefault n.traffic)
def NodesCfg.TrafficOk (c : NodesCfg) : Prop := Obs.TrafficOk (fld noDefault c.traffic) ∧ ∀ h ∈ c.hosts, h.TrafficOk

theorem trafficOk_inherit {a b : Option Traffic} (ha : TrafficOk a) (hb : TrafficOk b) : TrafficOk (inherit a b) := by
  cases a with
  | none => simpa [inherit] using hb
  | some v => simpa [inherit] using ha

/-- **every host observation built from a configuration satisfies `HostObs.Ok`** (fresh folder caches hold 0 = NONE, every
interface's traffic table has distinct protocol keys), whatever counts, lists, flags and thresholds the scenario gives -/
theorem C02_host_build_ok (thr : ThrCfg) (c : NodesCfg) (h : HostCfg) (o : HostObs) (hc : TrafficOk (fld noDefault c.traffic))
    (hh : h.TrafficOk) (hb : h.build thr c = some o) : o.Ok := by
  have ht : TrafficOk (h.eff thr c).traffic := trafficOk_inherit hh.1 hc
  unfold HostCfg.build at hb
  split at hb
  · injection hb with hb
    subst hb
    refine ⟨?_, ?_⟩
    · intro f hf
      simp only [HostCfg.obs] at hf
      rcases mem_padTo hf with rfl | hf'
      · exact (by decide : (0 : Nat) ∈ ObsEnums.FileSystemItemHealthStatus.values)
      · obtain ⟨fc, _, rfl⟩ := List.mem_map.mp hf'
        exact (by decide : (0 : Nat) ∈ ObsEnums.FileSystemItemHealthStatus.values)
    · intro n hn
      simp only [HostCfg.obs] at hn
      rcases mem_padTo hn with rfl | hn'
      · exact ht
      · rcases List.mem_append.mp hn' with h1 | h2
        · obtain ⟨nc, hnc, rfl⟩ := List.mem_map.mp h1
          exact hh.2 nc hnc
        · unfold autoNics at h2
          obtain ⟨i, _, rfl⟩ := List.mem_map.mp h2
          exact ht
  · exact absurd hb (by simp)

/-- the slot lists of a built host have exactly the effective `num_*` entries (so `space`, `default_observation` and `observe`
enumerate the same keys 1 … num) -/
theorem C02_host_build_slot_lengths (thr : ThrCfg) (c : NodesCfg) (h : HostCfg) (o : HostObs) (hb : h.build thr c = some o) :
    some o.services.length = (h.eff thr c).numServices ∧ some o.apps.length = (h.eff thr c).numApps ∧
    some o.folders.length = (h.eff thr c).numFolders ∧ some o.nics.length = (h.eff thr c).numNics ∧
    ∀ f ∈ o.folders, some f.files.length = (h.eff thr c).numFiles := by
  unfold HostCfg.build at hb
  split at hb
  · next ns na nf nfi nn h1 h2 h3 h4 h5 =>
    injection hb with hb
    subst hb
    refine ⟨by simp [HostCfg.obs, padTo_len, h1], by simp [HostCfg.obs, padTo_len, h2], by simp [HostCfg.obs, padTo_len, h3],
            by simp [HostCfg.obs, padTo_len, h5], ?_⟩
    intro f hf
    simp only [HostCfg.obs] at hf
    rcases mem_padTo hf with rfl | hf'
    · simp [padFolder, h4]
    · obtain ⟨fc, _, rfl⟩ := List.mem_map.mp hf'
      simp [FolderCfg.obs, padTo_len, h4]
  · exact absurd hb (by simp)

/-- every router built from a configuration carries an ACL observation whose id tables have no repeated entry -/
theorem C02_router_build_cfgOk (c : NodesCfg) (r : RouterCfg) (o : RouterObs) (hb : r.build c = some o) : o.acl.CfgOk := by
  unfold RouterCfg.build at hb
  split at hb
  · injection hb with hb
    subst hb
    exact C02_acl_fromConfig_cfgOk _ _ _ _ _ _
  · exact absurd hb (by simp)

theorem C02_router_build_ports (c : NodesCfg) (r : RouterCfg) (o : RouterObs) (hb : r.build c = some o) :
    some o.ports.length = (r.eff c).numPorts := by
  unfold RouterCfg.build at hb
  split at hb
  · next np _ _ _ _ _ h1 _ _ _ _ _ =>
    injection hb with hb
    subst hb
    simp [padTo_len, h1]
  · exact absurd hb (by simp)

theorem C02_nodes_build_ok (thr : ThrCfg) (c : NodesCfg) (o : NodesObs) (hw : c.TrafficOk) (hb : c.build thr = some o) : o.Ok := by
  unfold NodesCfg.build at hb
  split at hb
  · split at hb
    · next hs rs fs h1 h2 h3 =>
      injection hb with hb
      subst hb
      intro host hmem
      obtain ⟨hc, hmem', hb'⟩ := allSome_mem _ _ _ h1 host hmem
      exact C02_host_build_ok thr c hc host hw.1 (hw.2 hc hmem') hb'
    · exact absurd hb (by simp)
  · exact absurd hb (by simp)

/-- everything `NodesObservation.from_config` builds satisfies the construction invariant of the ACL-carrying parts -/
theorem C02_nodes_build_cfgOk (thr : ThrCfg) (c : NodesCfg) (o : NodesObs) (hb : c.build thr = some o) : o.CfgOk := by
  unfold NodesCfg.build at hb
  split at hb
  · split at hb
    · next hs rs fs h1 h2 h3 =>
      injection hb with hb
      subst hb
      intro r hmem
      obtain ⟨rc, _, hb'⟩ := allSome_mem _ _ _ h2 r hmem
      exact C02_router_build_cfgOk c rc r hb'
    · exact absurd hb (by simp)
  · exact absurd hb (by simp)

mutual
/-- what a scenario may say: protocol keys of every `monitored_traffic` distinct, labels of a `custom` space distinct (both are
Python dictionaries / YAML mappings) -/
def RawObs.Wf : RawObs → Prop
  | .nodes c => c.TrafficOk
  | .nested cs => (cs.map Prod.fst).Nodup ∧ RawObs.WfL cs
  | _ => True
def RawObs.WfL : List (String × RawObs) → Prop
  | [] => True
  | c :: cs => c.2.Wf ∧ RawObs.WfL cs
end

theorem buildL_labels (thr : ThrCfg) : ∀ (cs : List (String × RawObs)) (os : List (String × Obs)),
    RawObs.buildL thr cs = some os → os.map Prod.fst = cs.map Prod.fst := by
  intro cs
  induction cs with
  | nil => intro os h; simp [RawObs.buildL] at h; subst h; rfl
  | cons c cs ih =>
    intro os h
    unfold RawObs.buildL at h
    cases h1 : c.2.build thr with
    | none => simp [h1] at h
    | some o =>
      cases h2 : RawObs.buildL thr cs with
      | none => simp [h1, h2] at h
      | some os0 => simp [h1, h2] at h; subst h; simp [ih os0 h2]

mutual
/-- **every observation object an agent gets from its scenario section satisfies `Obs.Ok`** — arbitrarily nested -/
theorem C02_raw_build_ok (thr : ThrCfg) : ∀ (r : RawObs) (o : Obs), r.Wf → r.build thr = some o → o.Ok
  | .null, o, _, hb => by simp [RawObs.build] at hb; subst hb; trivial
  | .links refs, o, _, hb => by simp [RawObs.build] at hb; subst hb; trivial
  | .nodes c, o, hw, hb => by
    simp only [RawObs.build, Option.map_eq_some_iff] at hb
    obtain ⟨n, hn, rfl⟩ := hb
    exact C02_nodes_build_ok thr c n hw hn
  | .nested cs, o, hw, hb => by
    simp only [RawObs.build, Option.map_eq_some_iff] at hb
    obtain ⟨os, hos, rfl⟩ := hb
    exact ⟨by rw [buildL_labels thr cs os hos]; exact hw.1, C02_raw_buildL_ok thr cs os hw.2 hos⟩
theorem C02_raw_buildL_ok (thr : ThrCfg) : ∀ (cs : List (String × RawObs)) (os : List (String × Obs)),
    RawObs.WfL cs → RawObs.buildL thr cs = some os → Obs.OkL os
  | [], os, _, hb => by simp [RawObs.buildL] at hb; subst hb; trivial
  | c :: cs, os, hw, hb => by
    unfold RawObs.buildL at hb
    cases h1 : c.2.build thr with
    | none => simp [h1] at hb
    | some o =>
      cases h2 : RawObs.buildL thr cs with
      | none => simp [h1, h2] at hb
      | some os0 =>
        simp [h1, h2] at hb
        subst hb
        exact ⟨C02_raw_build_ok thr c.2 o hw.1 h1, C02_raw_buildL_ok thr cs os0 hw.2 h2⟩
end

mutual
theorem C02_raw_build_cfgOk (thr : ThrCfg) : ∀ (r : RawObs) (o : Obs), r.build thr = some o → o.CfgOk
  | .null, o, hb => by simp [RawObs.build] at hb; subst hb; trivial
  | .links refs, o, hb => by simp [RawObs.build] at hb; subst hb; trivial
  | .nodes c, o, hb => by
    simp only [RawObs.build, Option.map_eq_some_iff] at hb
    obtain ⟨n, hn, rfl⟩ := hb
    exact C02_nodes_build_cfgOk thr c n hn
  | .nested cs, o, hb => by
    simp only [RawObs.build, Option.map_eq_some_iff] at hb
    obtain ⟨os, hos, rfl⟩ := hb
    exact C02_raw_buildL_cfgOk thr cs os hos
theorem C02_raw_buildL_cfgOk (thr : ThrCfg) : ∀ (cs : List (String × RawObs)) (os : List (String × Obs)),
    RawObs.buildL thr cs = some os → Obs.CfgOkL os
  | [], os, hb => by simp [RawObs.buildL] at hb; subst hb; trivial
  | c :: cs, os, hb => by
    unfold RawObs.buildL at hb
    cases h1 : c.2.build thr with
    | none => simp [h1] at hb
    | some o =>
      cases h2 : RawObs.buildL thr cs with
      | none => simp [h1, h2] at hb
      | some os0 =>
        simp [h1, h2] at hb
        subst hb
        exact ⟨C02_raw_build_cfgOk thr c.2 o h1, C02_raw_buildL_cfgOk thr cs os0 h2⟩
end

/-- the default observation of everything built from a scenario is a member of the declared space -/
theorem C02_built_default_in_space (thr : ThrCfg) (r : RawObs) (o : Obs) (hw : r.Wf) (hb : r.build thr = some o) :
    contains o.space o.default = true :=
  C02_default_in_space o (C02_raw_build_ok thr r o hw hb)

/-- **C02 from the scenario's words**: for the object built from ANY accepted observation_space section, every observation reported
along any sequence of well-formed states is a member of the one space declared by that object -/
theorem C02_built_run_in_space (thr : ThrCfg) (r : RawObs) (o : Obs) (hw : r.Wf) (hb : r.build thr = some o)
    (sts : List SimState) (h : ∀ st ∈ sts, WfState st) : ∀ v ∈ o.run sts, contains o.space v = true :=
  C02_run_in_space sts o (C02_raw_build_ok thr r o hw hb) (C02_raw_build_cfgOk thr r o hb) h

/-! ### gymnasium `flatten`: length and range are functions of the space only -/

theorem oneHot_spec (n i : Nat) : (oneHot n i).length = n ∧ ∀ b ∈ oneHot n i, b ≤ 1 := by
  refine ⟨by simp [oneHot], ?_⟩
  intro b hb
  simp only [oneHot, List.mem_map] at hb
  obtain ⟨j, _, rfl⟩ := hb
  split <;> omega

/-- the statement without any hypothesis on the space -/
def C02_FullFlatten : Prop :=
  ∀ (s : Space) (v : Val), contains s v = true → ∃ x, flatten s v = some x ∧ x.length = flatDim s ∧ ∀ b ∈ x, b ≤ 1

mutual
/-- **a member of a space without empty sub-dictionaries flattens, without raising, to a 0/1 vector whose length is `flatDim space`**
— the length never depends on the observation, only on the space (so it equals `flatten_space(space).shape[0]` in every step).
`flattenable` excludes exactly the spaces gymnasium refuses; PrimAITE now rejects a flattened agent with such a space when it is
built (F-C02-2 repaired, `EpisodeCfg.accepts`), so at environment level the hypothesis is discharged by acceptance. -/
theorem C02_flatten_length_partial : ∀ (s : Space) (v : Val), s.flattenable = true → contains s v = true →
    ∃ x, flatten s v = some x ∧ x.length = flatDim s ∧ ∀ b ∈ x, b ≤ 1
  | .discrete n, .int i, _, _ => ⟨oneHot n i, by simp [flatten], by simp [flatDim, (oneHot_spec n i).1], (oneHot_spec n i).2⟩
  | .dict ss, .dict vs, hf, h => by
    simp only [contains, Bool.and_eq_true] at h
    simp only [Space.flattenable, Bool.and_eq_true, Bool.not_eq_true'] at hf
    obtain ⟨x, hx, hl, hb⟩ := C02_flattenL_length ss vs hf.2 h.2
    exact ⟨x, by simp [flatten, hf.1, hx], by simp [flatDim, hl], hb⟩
  | .discrete _, .dict _, _, h => by simp [contains] at h
  | .discrete _, .raised, _, h => by simp [contains] at h
  | .dict _, .int _, _, h => by simp [contains] at h
  | .dict _, .raised, _, h => by simp [contains] at h
theorem C02_flattenL_length : ∀ (ss : List (Key × Space)) (vs : List (Key × Val)), flattenableL ss = true → containsAll ss vs = true →
    ∃ x, flattenL ss vs = some x ∧ x.length = flatDimL ss ∧ ∀ b ∈ x, b ≤ 1
  | [], _, _, _ => ⟨[], by simp [flattenL], by simp [flatDimL], by simp⟩
  | p :: rest, vs, hf, h => by
    simp only [containsAll, Bool.and_eq_true] at h
    simp only [flattenableL, Bool.and_eq_true] at hf
    cases hl : lookupK p.1 vs with
    | none => simp [hl] at h
    | some v =>
      simp only [hl] at h
      obtain ⟨a, ha, hla, hba⟩ := C02_flatten_length_partial p.2 v hf.1 h.1
      obtain ⟨b, hb, hlb, hbb⟩ := C02_flattenL_length rest vs hf.2 h.2
      refine ⟨a ++ b, by simp [flattenL, hl, ha, hb], by simp [flatDimL, hla, hlb], ?_⟩
      intro y hy
      rcases List.mem_append.mp hy with hy | hy
      · exact hba y hy
      · exact hbb y hy
end

/-- gymnasium's limit (what F-C02-2 was about): an observation space with an empty sub-dictionary (`num_rules: 0`, a monitored protocol without ports, no link references,
a nodes component without nodes) has members, and gymnasium cannot flatten them -/
theorem C02_flatten_counterexample : ¬ C02_FullFlatten := by
  intro h
  obtain ⟨x, hx, _⟩ := h (.dict [(.s "ACL", .dict [])]) (.dict [(.s "ACL", .dict [])]) (by decide)
  simp [flatten, flattenL, lookupK] at hx

example : (Space.dict [(.s "a", .discrete 3), (.s "b", .dict [(.n 1, .discrete 2)])]).flattenable = true ∧
    flatten (.dict [(.s "a", .discrete 3), (.s "b", .dict [(.n 1, .discrete 2)])]) (.dict [(.s "b", .dict [(.n 1, .int 1)]), (.s "a", .int 0)]) =
      some [1, 0, 0, 0, 1] := by decide

/-! ### the environment: every observation handed out is in the space declared for ITS episode -/

/-- within an episode the declared space never changes (observing only moves the objects' memory) -/
theorem C02_env_space_within_episode (e : EpisodeCfg) (o : Obs) (st : SimState) :
    e.space (o.next st) = e.space o := by
  simp [EpisodeCfg.space, C02_space_const]

theorem C02_space_flattenable_const (o : Obs) (st : SimState) : (o.next st).space.flattenable = o.space.flattenable := by
  rw [C02_space_const]

theorem env_getObs_in_space (e : EpisodeCfg) (o : Obs) (st : SimState) (hfl : e.flat = true → o.space.flattenable = true)
    (h : contains o.space (o.val st) = true) : (e.space o).has (e.getObs (o.next st) (o.val st)) = true := by
  unfold EpisodeCfg.space EpisodeCfg.getObs
  cases hf : e.flat with
  | false => simpa [ApiSpace.has] using h
  | true =>
    rw [C02_space_const]
    obtain ⟨x, hx, hl, hb⟩ := C02_flatten_length_partial o.space (o.val st) (hfl hf) h
    simp only [hx, hfl hf, if_true, ApiSpace.has, Bool.and_eq_true, beq_iff_eq, List.all_eq_true, decide_eq_true_eq]
    exact ⟨hl, hb⟩

/-- nested or flattened, every observation of an episode is a member of the space `observation_space` declares during that episode
(read after its reset or at any later moment of it), for any object satisfying the construction invariants that the flatten guard
accepts -/
theorem C02_env_obs_in_declared_space (e : EpisodeCfg) : ∀ (sts : List SimState) (o : Obs), o.Ok → o.CfgOk →
    e.accepts o = true → (∀ st ∈ sts, WfState st) → ∀ a ∈ e.run o sts, (e.space o).has a = true := by
  intro sts
  induction sts with
  | nil => intro o _ _ _ _ a ha; simp [EpisodeCfg.run] at ha
  | cons st rest ih =>
    intro o ok c hacc h a ha
    have hst := h st (by simp)
    have hfl : e.flat = true → o.space.flattenable = true := by
      intro hf; simpa [EpisodeCfg.accepts, hf] using hacc
    simp only [EpisodeCfg.run, List.mem_cons] at ha
    rcases ha with ha | ha
    · subst ha
      exact env_getObs_in_space e o st hfl (C02_obs_in_space st hst o ok c)
    · have := ih (o.next st) (C02_ok_next st hst o ok) (cfgOk_next st o c)
        (by simpa [EpisodeCfg.accepts, C02_space_flattenable_const] using hacc)
        (fun st' hst' => h st' (by simp [hst'])) a ha
      rwa [C02_env_space_within_episode] at this

/-- what `buildV` adds to `build`: the constructors' threshold validation passed on every constructed component -/
theorem buildV_some (thr : ThrCfg) (r : RawObs) (o : Obs) (h : r.buildV thr = some o) :
    r.build thr = some o ∧ r.ctorThrValid thr = true := by
  unfold RawObs.buildV at h
  cases hr : r.build thr with
  | none => simp [hr] at h
  | some o' =>
    simp only [hr] at h
    split at h
    · next hv => injection h with h; subst h; exact ⟨rfl, hv⟩
    · exact absurd h (by simp)

/-- **C02 at environment level, from the episode's configuration alone** (full since F-6 and F-C02-2 are repaired): whatever an
ACCEPTED configuration says (`EpisodeCfg.build` = observation schemas, constructors and the flatten guard of `ProxyAgent`), nested or
flattened, every observation handed out during the episode is a member of the space declared during that episode.  The only
hypotheses left: dictionary keys of the scenario are distinct (`Wf`, true of YAML mappings) and the states are well-formed. -/
theorem C02_env_episode_in_declared_space (e : EpisodeCfg) (o : Obs) (hw : e.raw.Wf) (hb : e.build = some o)
    (sts : List SimState) (h : ∀ st ∈ sts, WfState st) : ∀ a ∈ e.run o sts, (e.space o).has a = true := by
  unfold EpisodeCfg.build at hb
  cases hv : e.raw.buildV e.thr with
  | none => simp [hv] at hb
  | some o' =>
    have hr := (buildV_some e.thr e.raw o' hv).1
    simp only [hv] at hb
    split at hb
    · next hacc =>
      injection hb with hb
      subst hb
      exact C02_env_obs_in_declared_space e sts o' (C02_raw_build_ok e.thr e.raw o' hw hr) (C02_raw_build_cfgOk e.thr e.raw o' hr) hacc h
    · exact absurd hb (by simp)

/-- a flattened agent's configuration with an empty sub-dictionary is REJECTED when the agent is built (it used to fail later, inside
numpy); the same section with `flatten_obs: false` is accepted -/
theorem C02_flatten_guard_rejects :
    (EpisodeCfg.build { raw := .nested [("LINKS", .links [])], thr := none, flat := true }).isNone = true ∧
    (EpisodeCfg.build { raw := .nested [("LINKS", .links [])], thr := none, flat := false }).isSome = true := by
  decide

/-- **constant scenario ⇒ one space in every episode**: the declared space is determined by the episode's configuration, so a
schedule that hands out the same configuration every time declares the same space every time (and a schedule that does not may
legitimately declare a different one — each observation is then a member of the space of ITS episode, theorem above) -/
theorem C02_env_space_const (sched : Nat → EpisodeCfg) (hconst : ∀ i, sched i = sched 0) (i j : Nat) (oi oj : Obs)
    (hi : (sched i).raw.build (sched i).thr = some oi) (hj : (sched j).raw.build (sched j).thr = some oj) :
    (sched i).space oi = (sched j).space oj := by
  rw [hconst i] at hi ⊢
  rw [hconst j] at hj ⊢
  rw [hi] at hj
  injection hj with hj
  rw [hj]

/-! #### non-vacuity: a scenario section with per-host overrides, lists shorter and longer than their counts, a router with an ACL
sub-configuration; the built object, its default, an observation, its flattening -/

def exNodesCfg : NodesCfg :=
  { hosts := [{ hostname := "pc", services := [{ name := "dns" }, { name := "web" }, { name := "ftp" }], numServices := some (some 2),
                folders := [{ name := "root", files := [{ name := "a.txt" }] }], nics := [{ num := 2, traffic := some (some [("tcp", [80])]) }],
                appScan := some (some false) }],
    routers := [{ hostname := "r1", portIds := some (some [1, 2, 3]), acl := some (some { numRules := some (some 2) }) }],
    numServices := some (some 1), numApps := some (some 1), numFolders := some (some 2), numFiles := some (some 2), numNics := some (some 2),
    includeNmne := some (some true), numAccess := some (some true), svcScan := some false, users := some (some false),
    traffic := some (some [("icmp", [])]),
    numPorts := some (some 2), ips := some (some ["10.0.0.1", "10.0.0.1"]), wcs := some (some []), ports := some (some [80]), protos := some (some ["tcp"]),
    numRules := some (some 4) }

example : (RawObs.nodes exNodesCfg).Wf ∧ (∃ o, (RawObs.nodes exNodesCfg).build none = some o ∧
    contains o.space o.default = true ∧ contains o.space (o.val exState) = true ∧
    o.space.flattenable = true ∧ (∃ x, flatten o.space (o.val exState) = some x ∧ x.length = flatDim o.space)) := by
  refine ⟨⟨by unfold TrafficOk; decide, ?_⟩, ?_⟩
  · intro h hh
    simp only [exNodesCfg, List.mem_singleton] at hh
    subst hh
    exact ⟨by unfold TrafficOk; decide, by intro n hn; simp only [List.mem_singleton] at hn; subst hn; unfold TrafficOk; decide⟩
  · exact ⟨_, rfl, by decide +kernel, by decide +kernel, by decide +kernel, _, rfl, by decide +kernel⟩

end Primaite.Obs
