/-
C06, round 4: what a router / firewall running `rtrStd` (Model/FilterFwd.lean) can put on a wire — generic over the frame
class `Cl`.  A router or firewall turns class frames into class frames provided the class is closed under (a) ARP requests
for the handled frame's source or a configured next hop, (b) replies to the handled frame's source with the device's own
address, (c) the ARP service's reply, and — only for frames that passed the rule lists (or are exempt from them) and are
neither broadcasts nor for the device itself — (d) forwarded copies and ARP requests for the destination.  Nothing is assumed
about WHERE the device sends (ARP cache, route table: opaque).  `C06_rtr_safe`, `C06_fw_safe`.
-/
import PrimaiteModel.Model.FilterFwd
import PrimaiteModel.Props.C06Class
import PrimaiteModel.Props.C06Deny
import PrimaiteModel.Gen.FilterSoft
namespace Primaite.Filter
open Primaite Primaite.Acl Primaite.Cut

variable {W : Type}

/-! ## 1. emissions of `rtrStd`, generic over the class -/

section rtr
variable {N : Type} [DecidableEq N]
variable (sys : Sys N Nat Frame (Node W)) (side : N → Bool) (Cl : N → Nat → Frame → Prop) (I : N → Node W → Prop) (n : N)
variable (ifs : List Iface) (hops : List Ip)

/-- closure of the class under what the device's software emits whatever frame of the class it handles -/
structure RtrClosed : Prop where
  inside : ∀ q m r, sys.wire n q = some (m, r) → side m = true
  req : ∀ p (f : Frame) q o t m r, SideFacing sys side n p → Cl n p f → ifs[q]? = some o → sys.wire n q = some (m, r) →
    (t = f.pkt.srcIp ∨ hops.contains t = true) → Cl m r (arpRequestFrame o t)
  reply : ∀ p (f g : Frame) q (o : Iface) m r, SideFacing sys side n p → Cl n p f → ifs[q]? = some o → sys.wire n q = some (m, r) → g.arp = false →
    Cl m r { g with srcMac := o.mac, pkt := { g.pkt with srcIp := o.ip, dstIp := f.pkt.srcIp } }
  arpReply : ∀ p (f : Frame) x q o i m r, SideFacing sys side n p → Cl n p f → subjectToAcl f = some false → f.arpReq = true →
    ifs[q]? = some o → sys.wire n q = some (m, r) → Cl m r (arpReplyFrame o i { f with ttl := x })

/-- closure under forwarding frame `f`: copies of `f` and ARP requests for its destination, on any interface -/
def FwdOK (f : Frame) : Prop :=
  ∀ q o m r, ifs[q]? = some o → sys.wire n q = some (m, r) →
    (∀ x dm, Cl m r { f with ttl := x, srcMac := o.mac, dstMac := dm }) ∧ Cl m r (arpRequestFrame o f.pkt.dstIp)

variable (hn : side n = true) (hsw : ∀ s x, I n s → I n { s with sw := x }) (hifs : ∀ s, I n s → s.ifaces = ifs)
  (hc : RtrClosed sys side Cl n ifs hops)

include hn hsw hifs hc in
/-- the device's own services answer to the source -/
theorem rtr_own_safe (p : Nat) (f : Frame) (y : Nat) (hsf : SideFacing sys side n p) (hcl : Cl n p f) :
    ∀ (a : SwScript W) (s : Node W), I n s →
      SafeAct sys side (FromSideC sys side Cl) I n
        (guardSends portEnabled (stampSends (replyStamp hops { f with ttl := y }) (liftSw s a))) := by
  intro a
  induction a with
  | done w => intro s hs; simp only [liftSw, stampSends, guardSends]; exact SafeAct.done (hsw s w hs)
  | send w q g k ih =>
    intro s hs
    have hs1 := hsw s w hs
    simp only [liftSw, stampSends, guardSends]
    split
    · rename_i hen
      refine SafeAct.send hs1 ?_ (fun s' hs' => ih s'.sw s' hs')
      intro m r hw
      refine ⟨hc.inside q m r hw, ⟨n, q, hn, hw⟩, ?_⟩
      have hi1 : ({ s with sw := w } : Node W).ifaces = ifs := hifs _ hs1
      unfold portEnabled at hen
      cases hi : ({ s with sw := w } : Node W).ifaces[q]? with
      | none => simp [hi] at hen
      | some i =>
        have hi' : ifs[q]? = some i := by rw [← hi1]; exact hi
        simp only [replyStamp, hi]
        split
        · refine hc.req p f q i _ m r hsf hcl hi' hw ?_
          simp only [resolveTgt]
          split
          · rename_i hh; exact Or.inr hh
          · exact Or.inl rfl
        · rename_i hg
          exact hc.reply p f g q i m r hsf hcl hi' hw (by simpa using hg)
    · exact ih w _ hs1

include hn hsw hifs hc in
/-- `process_frame` emits copies of the frame and ARP requests for its destination or a hop -/
theorem rtr_fwd_safe (p : Nat) (f : Frame) (y : Nat) (hsf : SideFacing sys side n p) (hcl : Cl n p f)
    (hF : FwdOK sys Cl n ifs f) :
    ∀ (a : SwScript W) (s : Node W), I n s →
      SafeAct sys side (FromSideC sys side Cl) I n
        (guardSends portEnabled (stampSends (fwdStamp hops { f with ttl := y }) (liftSw s a))) := by
  intro a
  induction a with
  | done w => intro s hs; simp only [liftSw, stampSends, guardSends]; exact SafeAct.done (hsw s w hs)
  | send w q g k ih =>
    intro s hs
    have hs1 := hsw s w hs
    simp only [liftSw, stampSends, guardSends]
    split
    · rename_i hen
      refine SafeAct.send hs1 ?_ (fun s' hs' => ih s'.sw s' hs')
      intro m r hw
      refine ⟨hc.inside q m r hw, ⟨n, q, hn, hw⟩, ?_⟩
      have hi1 : ({ s with sw := w } : Node W).ifaces = ifs := hifs _ hs1
      unfold portEnabled at hen
      cases hi : ({ s with sw := w } : Node W).ifaces[q]? with
      | none => simp [hi] at hen
      | some i =>
        have hi' : ifs[q]? = some i := by rw [← hi1]; exact hi
        simp only [fwdStamp, hi]
        split
        · simp only [resolveTgt]
          split
          · rename_i hh; exact hc.req p f q i _ m r hsf hcl hi' hw (Or.inr hh)
          · exact (hF q i m r hi' hw).2
        · exact (hF q i m r hi' hw).1 _ _
    · exact ih w _ hs1

include hn hsw hifs hc in
/-- the DMZ look-ups emit ARP requests for configured next hops only -/
theorem rtr_lookup_safe (p : Nat) (f : Frame) (hsf : SideFacing sys side n p) (hcl : Cl n p f) :
    ∀ (a : SwScript W) (s : Node W), I n s →
      SafeAct sys side (FromSideC sys side Cl) I n (guardSends portEnabled (lookupSends hops (liftSw s a))) := by
  intro a
  induction a with
  | done w => intro s hs; simp only [liftSw, lookupSends, guardSends]; exact SafeAct.done (hsw s w hs)
  | send w q g k ih =>
    intro s hs
    have hs1 := hsw s w hs
    have hi1 : ({ s with sw := w } : Node W).ifaces = ifs := hifs _ hs1
    simp only [liftSw, lookupSends]
    cases hi : ({ s with sw := w } : Node W).ifaces[q]? with
    | none => simp only [hi]; exact ih w _ hs1
    | some i =>
      have hi' : ifs[q]? = some i := by rw [← hi1]; exact hi
      simp only [hi]
      split
      · rename_i hh
        simp only [guardSends]
        split
        · refine SafeAct.send hs1 ?_ (fun s' hs' => ih s'.sw s' hs')
          intro m r hw
          exact ⟨hc.inside q m r hw, ⟨n, q, hn, hw⟩, hc.req p f q i _ m r hsf hcl hi' hw (Or.inr hh)⟩
        · exact ih w _ hs1
      · exact ih w _ hs1

include hn hsw hifs hc in
/-- the ARP service -/
theorem rtr_arp_safe (x : RouterArp W) (p : Nat) (f : Frame) (y : Nat) (hsf : SideFacing sys side n p) (hcl : Cl n p f)
    (hsub : subjectToAcl f = some false) (s : Node W) (hs : I n s) :
    SafeAct sys side (FromSideC sys side Cl) I n (guardSends portEnabled (arpSession x s p { f with ttl := y })) := by
  simp only [arpSession]
  have hI2 : I n ({ s with sw := x.sessRx s p { f with ttl := y } } : Node W) := hsw _ _ hs
  have hif2 := hifs _ hI2
  split
  · simp only [guardSends]; exact SafeAct.done hI2
  · split
    · simp only [guardSends]; exact SafeAct.done hI2
    · rename_i hreq
      split
      · simp only [guardSends]; exact SafeAct.done hI2
      · rename_i i2 _
        split
        · simp only [guardSends]; exact SafeAct.done hI2
        · split
          · simp only [guardSends]; exact SafeAct.done hI2
          · rename_i q hres
            split
            · simp only [guardSends]; exact SafeAct.done hI2
            · rename_i o ho
              have hI3 : I n ({ s with sw := x.sent { s with sw := x.sessRx s p { f with ttl := y } } q } : Node W) := hsw _ _ hs
              simp only [guardSends]
              split
              · refine SafeAct.send hI3 ?_ (fun s' hs' => SafeAct.done hs')
                intro m r hw
                have hreq' : f.arpReq = true := by
                  cases hq : f.arpReq
                  · simp [hq] at hreq
                  · rfl
                exact ⟨hc.inside q m r hw, ⟨n, q, hn, hw⟩,
                  hc.arpReply p f y q o i2 m r hsf hcl hsub hreq' (by rw [← hif2]; exact ho) hw⟩
              · exact SafeAct.done hI3

/-- `ip_is_router_interface` over a fixed interface list -/
def ownIpL (ifs : List Iface) (ip : Ip) : Bool := ifs.any (fun j => j.ip == ip)

include hn hsw hifs hc in
/-- the session manager of the device: ARP service or own services -/
theorem rtr_session_safe (x : RtrOpaque W) (p : Nat) (f : Frame) (y : Nat) (hsf : SideFacing sys side n p) (hcl : Cl n p f)
    (s1 : Node W) (hs1 : I n s1) :
    SafeAct sys side (FromSideC sys side Cl) I n (guardSends portEnabled ((rtrStd hops x).session s1 p { f with ttl := y })) := by
  simp only [rtrStd]
  split
  · rename_i hex
    have hsub : subjectToAcl f = some false := by
      have : subjectToAcl { f with ttl := y } = some false := by simpa [isArpExempt] using hex
      rwa [subjectToAcl_ttl] at this
    exact rtr_arp_safe sys side Cl I n ifs hops hn hsw hifs hc x.arp p f y hsf hcl hsub _ hs1
  · exact rtr_own_safe sys side Cl I n ifs hops hn hsw hifs hc p f y hsf hcl _ _ hs1

include hn hsw hifs hc in
/-- `process_frame`: broadcast and own-address drops, then forwarding -/
theorem rtr_process_safe (x : RtrOpaque W) (p : Nat) (f : Frame) (y : Nat) (hsf : SideFacing sys side n p) (hcl : Cl n p f)
    (hF : f.dstMac ≠ bcastMac → ownIpL ifs f.pkt.dstIp = false → FwdOK sys Cl n ifs f) (s1 : Node W) (hs1 : I n s1) :
    SafeAct sys side (FromSideC sys side Cl) I n (guardSends portEnabled ((rtrStd hops x).process s1 p { f with ttl := y })) := by
  have hif1 : s1.ifaces = ifs := hifs _ hs1
  simp only [rtrStd]
  split
  · simp only [guardSends]; exact SafeAct.done hs1
  · rename_i hb
    split
    · simp only [guardSends]; exact SafeAct.done hs1
    · rename_i hown
      have hb' : f.dstMac ≠ bcastMac := by
        intro h; apply hb; simp [h]
      have hown' : ownIpL ifs f.pkt.dstIp = false := by
        cases ho : ownIpL ifs f.pkt.dstIp
        · rfl
        · exfalso; apply hown
          simp only [isOwnIp, hif1]; exact ho
      exact rtr_fwd_safe sys side Cl I n ifs hops hn hsw hifs hc p f y hsf hcl (hF hb' hown') _ _ hs1

include hn hsw hifs hc in
/-- after the verdict(s): learn, then the session manager (ARP service / own services) or `process_frame` -/
theorem rtr_permitted_safe (x : RtrOpaque W) (p : Nat) (f : Frame) (y : Nat) (hsf : SideFacing sys side n p) (hcl : Cl n p f)
    (hF : f.dstMac ≠ bcastMac → ownIpL ifs f.pkt.dstIp = false → FwdOK sys Cl n ifs f) (s : Node W) (hs : I n s) :
    SafeAct sys side (FromSideC sys side Cl) I n (guardSends portEnabled (permitted (rtrStd hops x) s p { f with ttl := y })) := by
  simp only [permitted]
  have hs1 : I n ({ s with sw := (rtrStd hops x).learn s p { f with ttl := y } } : Node W) := hsw _ _ hs
  split
  · exact rtr_session_safe sys side Cl I n ifs hops hn hsw hifs hc x p f y hsf hcl _ hs1
  · exact rtr_process_safe sys side Cl I n ifs hops hn hsw hifs hc x p f y hsf hcl hF _ hs1

/-! ### a router -/

/-- **A router running `rtrStd` turns class frames into class frames.**  `G` = what the invariant says about its rule list
(nothing for a plain forwarder; "denies class `Cp`" for a guard), stable under hit counters.  Forwarding closure is asked
only for frames that were addressed to the arrival interface's MAC, are not for the router itself, and are exempt from the
list or PERMITTED by a list satisfying `G`. -/
theorem C06_rtr_safe (G : Acl → Prop) (hG : ∀ a q, G a → G (isPermitted a q).2.2)
    (hI : ∀ s, I n s ↔ (s.kind = .router ∧ s.ifaces = ifs ∧ G (s.acls .router)))
    (hn : side n = true) (hc : RtrClosed sys side Cl n ifs hops)
    (hF : ∀ p i f, SideFacing sys side n p → Cl n p f → ifs[p]? = some i → f.dstMac = i.mac → f.dstMac ≠ bcastMac →
      ownIpL ifs f.pkt.dstIp = false →
      (subjectToAcl f = some false ∨ ∃ a, G a ∧ (isPermitted a f.pkt).1 = true) → FwdOK sys Cl n ifs f)
    (x : RtrOpaque W) (s : Node W) (p : Nat) (f : Frame) (hs : I n s) (hsf : SideFacing sys side n p) (hcl : Cl n p f) :
    SafeAct sys side (FromSideC sys side Cl) I n (nodeRx (rtrStd hops x) s p f) := by
  have hsw : ∀ s x, I n s → I n ({ s with sw := x } : Node W) := fun s x h => (hI _).mpr ((hI s).mp h)
  have hifs : ∀ s, I n s → s.ifaces = ifs := fun s h => ((hI s).mp h).2.1
  obtain ⟨hk, hif, hg⟩ := (hI s).mp hs
  unfold nodeRx
  split
  · exact SafeAct.done hs
  · rename_i i hi
    split
    · rename_i f' hg'
      obtain ⟨hf', _⟩ := ifaceRx_up _ _ _ _ _ hg'
      have hmac : f.dstMac = i.mac ∨ f.dstMac = bcastMac := by rw [hk] at hg'; exact ifaceRx_router_mac _ _ _ _ hg'
      have hi' : ifs[p]? = some i := by rw [← hif]; exact hi
      have hnl : nodeLayer (rtrStd hops x) s p f' = routerRxWith subjectToAcl (rtrStd hops x) s p f' := by
        simp [nodeLayer, hk, routerRx]
      rw [hnl, hf']
      simp only [routerRxWith]
      split
      · exact SafeAct.done hs
      · split
        · exact SafeAct.done hs
        · rename_i hsub
          rw [subjectToAcl_ttl] at hsub
          refine rtr_permitted_safe sys side Cl I n ifs hops hn hsw hifs hc x p f _ hsf hcl ?_ s hs
          intro hb hown
          have hm : f.dstMac = i.mac := by rcases hmac with h | h; exact h; exact absurd h hb
          exact hF p i f hsf hcl hi' hm hb hown (Or.inl hsub)
        · split
          · rename_i hd
            simp only [guardSends]
            apply SafeAct.done
            exact (hI _).mpr ⟨hk, hif, by simpa [Node.setAcl] using hG _ _ hg⟩
          · rename_i hd
            have hperm : (isPermitted (s.acls .router) f.pkt).1 = true := by
              cases hv : (isPermitted (s.acls .router) f.pkt).1
              · simp [hv] at hd
              · rfl
            have hs' : I n (s.setAcl .router (isPermitted (s.acls .router) f.pkt).2.2) :=
              (hI _).mpr ⟨hk, hif, by simpa [Node.setAcl] using hG _ _ hg⟩
            refine rtr_permitted_safe sys side Cl I n ifs hops hn hsw hifs hc x p f _ hsf hcl ?_ _ hs'
            intro hb hown
            have hm : f.dstMac = i.mac := by rcases hmac with h | h; exact h; exact absurd h hb
            exact hF p i f hsf hcl hi' hm hb hown (Or.inr ⟨_, hg, hperm⟩)
    · exact SafeAct.done hs

/-! ### a firewall -/

omit [DecidableEq N] in
theorem inDmzNet_eq (s2 : Node W) (ifs : List Iface) (f : Frame) (y : Nat) (h : s2.ifaces = ifs) :
    inDmzNet s2 ({ f with ttl := y } : Frame) = inDmzL ifs f.pkt.dstIp := by
  unfold inDmzNet inDmzL; rw [h]; rfl

/-- the second entry point the code can select for frame `f` arriving at first entry point `e` -/
def SelOK (ifs : List Iface) (e : FwEntry) (f : Frame) (e2 : FwEntry) : Prop :=
  match e with
  | .extIn => e2 = selE ifs .extIn f.pkt.dstIp
  | .intOut => e2 = selE ifs .intOut f.pkt.dstIp
  | .dmzOut => e2 = .extOut ∨ e2 = .intIn
  | _ => False

/-- frame `f` passed both lists of a firewall whose lists satisfy `G` -/
def FwPassed (G : (AclId → Acl) → Prop) (ifs : List Iface) (e : FwEntry) (f : Frame) : Prop :=
  ∃ a1 a2 e2, G a1 ∧ (isPermitted (a1 (entryAcl e)) f.pkt).1 = true ∧ G a2 ∧ (isPermitted (a2 (entryAcl e2)) f.pkt).1 = true ∧
    SelOK ifs e f e2

/-- **A firewall running `rtrStd` turns class frames into class frames**: both verdicts, the session manager between them,
the DMZ look-ups (ARP requests for next hops, BEFORE the second verdict — F-C06-dmz-lookup is inside the model), and
`process_frame` after a double PERMIT. -/
theorem C06_fw_safe (G : (AclId → Acl) → Prop)
    (hG : ∀ (acls : AclId → Acl) a q, G acls → G (fun b => if b = a then (isPermitted (acls a) q).2.2 else acls b))
    (hI : ∀ s, I n s ↔ (s.kind = .firewall ∧ s.ifaces = ifs ∧ G s.acls))
    (hn : side n = true) (hc : RtrClosed sys side Cl n ifs hops)
    (hF : ∀ p i f e, SideFacing sys side n p → Cl n p f → ifs[p]? = some i → portEntry p = some e → f.dstMac = i.mac →
      f.dstMac ≠ bcastMac → ownIpL ifs f.pkt.dstIp = false → FwPassed G ifs e f → FwdOK sys Cl n ifs f)
    (x : RtrOpaque W) (s : Node W) (p : Nat) (f : Frame) (hs : I n s) (hsf : SideFacing sys side n p) (hcl : Cl n p f) :
    SafeAct sys side (FromSideC sys side Cl) I n (nodeRx (rtrStd hops x) s p f) := by
  have hsw : ∀ s x, I n s → I n ({ s with sw := x } : Node W) := fun s x h => (hI _).mpr ((hI s).mp h)
  have hifs : ∀ s, I n s → s.ifaces = ifs := fun s h => ((hI s).mp h).2.1
  have hbump : ∀ (s' : Node W) (a : AclId) q, I n s' → I n (s'.setAcl a (isPermitted (s'.acls a) q).2.2) := by
    intro s' a q h'
    obtain ⟨h1, h2, h3⟩ := (hI s').mp h'
    exact (hI _).mpr ⟨h1, h2, hG s'.acls a q h3⟩
  obtain ⟨hk, hif, hg⟩ := (hI s).mp hs
  unfold nodeRx
  split
  · exact SafeAct.done hs
  · rename_i i hi
    split
    · rename_i f' hg'
      obtain ⟨hf', _⟩ := ifaceRx_up _ _ _ _ _ hg'
      have hmac : f.dstMac = i.mac ∨ f.dstMac = bcastMac := by
        unfold ifaceRx at hg'
        rw [hk] at hg'
        cases he : i.enabled
        · simp [he] at hg'
        · simp only [he, Bool.not_true, Bool.false_eq_true, if_false] at hg'
          by_cases ht : f.ttl - 1 < 1
          · simp [ht] at hg'
          · by_cases hm : (f.dstMac == i.mac || f.dstMac == bcastMac) = true
            · simpa using hm
            · simp [ht, hm] at hg'
      have hi' : ifs[p]? = some i := by rw [← hif]; exact hi
      have hnl : nodeLayer (rtrStd hops x) s p f' = fwRx (rtrStd hops x) s p f' := by simp [nodeLayer, hk]
      rw [hnl, hf']
      simp only [fwRx]
      cases hpe : portEntry p with
      | none => exact SafeAct.done hs
      | some e =>
        -- what `fwFinal` does in a state satisfying the invariant, given the first verdict was PERMIT under `G`
        have hfinal : ∀ (e2 : FwEntry) (s3 : Node W), I n s3 →
            (∃ a1, G a1 ∧ (isPermitted (a1 (entryAcl e)) f.pkt).1 = true) → SelOK ifs e f e2 →
            SafeAct sys side (FromSideC sys side Cl) I n
              (guardSends portEnabled (fwFinal (rtrStd hops x) e2 s3 p { f with ttl := f.ttl - 1 })) := by
          intro e2 s3 hs3 h1 hsel
          obtain ⟨a1, hg1, hp1⟩ := h1
          simp only [fwFinal]
          split
          · simp only [guardSends]; exact SafeAct.done (hbump s3 _ _ hs3)
          · rename_i hd
            have hp2 : (isPermitted (s3.acls (entryAcl e2)) f.pkt).1 = true := by
              cases hv : (isPermitted (s3.acls (entryAcl e2)) f.pkt).1
              · simp [hv] at hd
              · rfl
            refine rtr_process_safe sys side Cl I n ifs hops hn hsw hifs hc x p f _ hsf hcl ?_ _ (hbump s3 _ _ hs3)
            intro hb hown
            have hm : f.dstMac = i.mac := by rcases hmac with h | h; exact h; exact absurd h hb
            exact hF p i f e hsf hcl hi' hpe hm hb hown ⟨a1, s3.acls, e2, hg1, hp1, ((hI s3).mp hs3).2.2, hp2, hsel⟩
        simp only [fwFirst]
        split
        · simp only [guardSends]; exact SafeAct.done (hbump s _ _ hs)
        · rename_i hd
          have hp1 : (isPermitted (s.acls (entryAcl e)) f.pkt).1 = true := by
            cases hv : (isPermitted (s.acls (entryAcl e)) f.pkt).1
            · simp [hv] at hd
            · rfl
          have h1 : ∃ a1, G a1 ∧ (isPermitted (a1 (entryAcl e)) f.pkt).1 = true := ⟨s.acls, hg, hp1⟩
          have hs2 := hsw _ ((rtrStd hops x).learn (s.setAcl (entryAcl e) (isPermitted (s.acls (entryAcl e)) f.pkt).2.2) p
            { f with ttl := f.ttl - 1 }) (hbump s (entryAcl e) f.pkt hs)
          split
          · exact rtr_session_safe sys side Cl I n ifs hops hn hsw hifs hc x p f _ hsf hcl _ hs2
          · have hif2 := hifs _ hs2
            cases e with
            | extIn =>
              simp only [fwNext]
              have hz : ∀ s2 : Node W, s2.ifaces = ifs → inDmzNet s2 ({ f with ttl := f.ttl - 1 } : Frame) = inDmzL ifs f.pkt.dstIp :=
                fun s2 h2 => inDmzNet_eq s2 ifs f _ h2
              split
              · rename_i hz'
                exact hfinal .dmzIn _ hs2 h1 (by simp [SelOK, selE, ← hz _ hif2, hz'])
              · rename_i hz'
                exact hfinal .intIn _ hs2 h1 (by simp [SelOK, selE, ← hz _ hif2, hz'])
            | intOut =>
              simp only [fwNext]
              have hz : ∀ s2 : Node W, s2.ifaces = ifs → inDmzNet s2 ({ f with ttl := f.ttl - 1 } : Frame) = inDmzL ifs f.pkt.dstIp :=
                fun s2 h2 => inDmzNet_eq s2 ifs f _ h2
              split
              · rename_i hz'
                exact hfinal .dmzIn _ hs2 h1 (by simp [SelOK, selE, ← hz _ hif2, hz'])
              · rename_i hz'
                exact hfinal .extOut _ hs2 h1 (by simp [SelOK, selE, ← hz _ hif2, hz'])
            | dmzOut =>
              simp only [fwNext]
              split
              · simp only [guardSends]; exact SafeAct.done hs2
              · rw [guard_bind]
                refine safe_bind sys side _ _ n _ _ ?_ ?_
                · simp only [rtrStd]
                  exact rtr_lookup_safe sys side Cl I n ifs hops hn hsw hifs hc p f hsf hcl _ _ hs2
                · intro s3 hs3
                  split
                  · split
                    · exact hfinal .extOut s3 hs3 h1 (by simp [SelOK])
                    · split
                      · exact hfinal .intIn s3 hs3 h1 (by simp [SelOK])
                      · simp only [guardSends]; exact SafeAct.done hs3
                  · simp only [guardSends]; exact SafeAct.done hs3
            | extOut => simp only [fwNext, guardSends]; exact SafeAct.done hs2
            | intIn => simp only [fwNext, guardSends]; exact SafeAct.done hs2
            | dmzIn => simp only [fwNext, guardSends]; exact SafeAct.done hs2
    · exact SafeAct.done hs

end rtr


/-! ## the Terminal on a router / firewall -/

section terminal

/-- for a frame that does not carry the id of a live remote session of the device, the Terminal is one more own service
that answers to the source -/
theorem rtrWithTerminal_session_eq (hops : List Ip) (x : RtrOpaque W) (t : TerminalGate W) (termPort : Nat) (s : Node W) (p : Nat)
    (f : Frame) (h : t.authorised s f = false) :
    (rtrWithTerminal hops x t termPort).session s p f = (rtrStd hops (withRefuse x t termPort)).session s p f := by
  simp only [rtrWithTerminal, rtrStd, withRefuse]
  cases hex : isArpExempt f
  · cases hp : isTermPort termPort f
    · simp [hp]
    · simp [hp, h]
  · simp

/-- **A router or firewall with a Terminal behaves, for every frame that carries no live session id of it, exactly like the
same device without one** — so `C06_rtr_safe`, `C06_fw_safe`, `C06_certifiedN_unchanged` and `C06_certifiedB_unchanged` hold for
blocking elements WITH their shipped Terminal unless a frame on the attacker side is `authorised`: by C16
(`C16_command_runs_only_live`, `C16_remote_command_outcomes`) a terminal executes a command only when the command carries the id
of a live remote session, and such a session is created only by a login with the current password of an enabled account of
that node — i.e. unless A holds valid credentials of an account on the blocking element. -/
theorem C06_terminal_confined_unless_authorised (hops : List Ip) (x : RtrOpaque W) (t : TerminalGate W) (termPort : Nat)
    (s : Node W) (p : Nat) (f : Frame) (hk : s.kind = .router ∨ s.kind = .firewall)
    (h : ∀ s' y, t.authorised s' ({ f with ttl := y } : Frame) = false) :
    nodeRx (rtrWithTerminal hops x t termPort) s p f = nodeRx (rtrStd hops (withRefuse x t termPort)) s p f := by
  have hs : ∀ s' y, (rtrWithTerminal hops x t termPort).session s' p { f with ttl := y } =
      (rtrStd hops (withRefuse x t termPort)).session s' p { f with ttl := y } :=
    fun s' y => rtrWithTerminal_session_eq hops x t termPort s' p _ (h s' y)
  unfold nodeRx
  split
  · rfl
  · split
    · rename_i f' hg
      obtain ⟨hf', _⟩ := ifaceRx_up _ _ _ _ _ hg
      congr 1
      rw [hf']
      rcases hk with hk | hk
      · simp only [nodeLayer, hk, routerRx, routerRxWith, permitted]
        simp only [hs]
        rfl
      · simp only [nodeLayer, hk, fwRx, fwFirst]
        simp only [hs]
        rfl
    · rfl

/-- the source shapes `rtrStd` and `TerminalGate` follow -/
theorem C06_gen_rtr_model :
    Gen.FilterSoft.routerArpTargets = routerArpTargets ∧ Gen.FilterSoft.routerIcmpReplyDst = routerIcmpReplyDst ∧
    Gen.FilterSoft.terminalExecGuards = terminalExecGuards ∧ Gen.FilterSoft.forwardWrites = forwardWrites := by decide

end terminal

end Primaite.Filter
