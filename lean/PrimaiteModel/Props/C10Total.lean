/-
C10, totals — "an agent's episode total is the sum of its step rewards": across resets (a new episode starts from 0), for
agents without reward components, at every point of an episode (a total read mid-episode is the sum so far); the weighted-sum
law over an arbitrary commutative ring. (What IEEE arithmetic keeps of both sums: Props/C10Float.lean.)
-/
import PrimaiteModel.Props.C10
import PrimaiteModel.Lemmas.RewardExc
namespace Primaite.Reward
open Primaite.RewardGraph

/-! ## 1. Resets: an episode's total restarts at 0 -/

/-- **`reset` = a fresh load.** `PrimaiteGymEnv.reset` builds a new game from the configuration and runs `update_agents`
once more with `step_counter == 0`; whatever state dictionary it is given, the result is exactly the game `from_config`
returns (or the same refusal): no reward is computed and nothing of any earlier episode is in it. -/
theorem C10_reset_is_fresh_load (σ : List Name → List Name) (hσ : SetLike σ) (cfgs : List AgentCfg) (s0 : SimState) :
    resetEnv σ cfgs s0 = fromConfig σ cfgs := by
  unfold resetEnv
  cases h : fromConfig σ cfgs with
  | error e => rfl
  | ok g =>
    simp only
    have hb : hasCycle (sharingGraph σ (buildAgents cfgs)) = false := by
      cases hb : hasCycle (sharingGraph σ (buildAgents cfgs)) with
      | false => rfl
      | true => rw [(fromConfig_spec σ hσ cfgs).1 hb] at h; cases h
    have hc : Closed (buildAgents cfgs) := by
      apply Classical.byContradiction
      intro hnc
      rw [fromConfig_dangling σ hσ cfgs hb hnc] at h
      cases h
    obtain ⟨e, wf⟩ := (fromConfig_spec σ hσ cfgs).2 hb hc
    rw [e] at h; cases h
    obtain ⟨hk, hfresh⟩ := buildAgents_inv cfgs
    exact updateAgents_step0 s0 _ _ hk hfresh (fun n hn => (wf.orderMem n).mp hn)

/-- **Totals restart.** After a reset every agent has `total_reward = 0`, `current_reward = 0`, an empty history and the
configured components (memories at their defaults); and after any run of steps of the NEW episode its total is the sum of
the step rewards of that episode alone. -/
theorem C10_total_restarts_after_reset (σ : List Name → List Name) (hσ : SetLike σ) (cfgs : List AgentCfg) (s0 : SimState)
    (g : Game) (hreset : resetEnv σ cfgs s0 = .ok g) :
    (∀ n a, g.agents.lookup n = some a → a.total = 0 ∧ a.current = 0 ∧ a.hist = []) ∧ g.stepCounter = 0 ∧
    ∀ steps : List ((Name → Item) × SimState), ∃ g', run g steps = .ok g' ∧
      ∀ n, n ∈ agentKeys g.agents → ∃ a', g'.agents.lookup n = some a' ∧
        a'.hist.length = steps.length ∧ a'.total = (histRewards a').sum := by
  rw [C10_reset_is_fresh_load σ hσ] at hreset
  have hb : hasCycle (sharingGraph σ (buildAgents cfgs)) = false := by
    cases hb : hasCycle (sharingGraph σ (buildAgents cfgs)) with
    | false => rfl
    | true => rw [(fromConfig_spec σ hσ cfgs).1 hb] at hreset; cases hreset
  have hc : Closed (buildAgents cfgs) := by
    apply Classical.byContradiction
    intro hnc
    rw [fromConfig_dangling σ hσ cfgs hb hnc] at hreset
    cases hreset
  obtain ⟨e, _⟩ := (fromConfig_spec σ hσ cfgs).2 hb hc
  have hg := hreset
  rw [e] at hg; cases hg
  obtain ⟨_, hfresh⟩ := buildAgents_inv cfgs
  refine ⟨?_, rfl, ?_⟩
  · intro n a ha
    obtain ⟨h1, h2, h3⟩ := hfresh (n, a) (mem_of_lookup_agents ha)
    exact ⟨h2, h1, h3⟩
  · intro steps
    obtain ⟨g', hrun, _, hf⟩ := C10_total_is_sum σ hσ cfgs _ hreset hc steps
    refine ⟨g', hrun, ?_⟩
    intro n hn
    obtain ⟨a', ha', hl, _, ht, _⟩ := hf n hn
    exact ⟨a', ha', hl, ht⟩

/-- non-vacuity: the example configuration of Props/C10.lean resets to a loaded game (order as after `from_config`), whatever
state dictionary `reset` is handed -/
example : (resetEnv id exCfgs (.dict [(.str "network", .none)])).toOption.map (·.order) = some ["g1", "g2", "blue"] := by decide

/-! ## 2. A total read mid-episode is the sum so far -/

/-- At every point of an episode — after the first `k` steps of a longer run — every agent's `total_reward` is the sum of the
rewards of the steps taken so far, and the rest of the run continues from exactly that game (reading the total changes
nothing: it is a field of the game). -/
theorem C10_total_mid_episode (σ : List Name → List Name) (hσ : SetLike σ) (cfgs : List AgentCfg) (g : Game)
    (hload : fromConfig σ cfgs = .ok g) (hc : Closed (buildAgents cfgs))
    (sofar later : List ((Name → Item) × SimState)) :
    ∃ gmid, run g sofar = .ok gmid ∧ run g (sofar ++ later) = run gmid later ∧
      ∀ n, n ∈ agentKeys g.agents → ∃ a, gmid.agents.lookup n = some a ∧
        a.hist.length = sofar.length ∧ a.total = (histRewards a).sum := by
  obtain ⟨gmid, hrun, _, hf⟩ := C10_total_is_sum σ hσ cfgs g hload hc sofar
  refine ⟨gmid, hrun, by rw [run_append, hrun], ?_⟩
  intro n hn
  obtain ⟨a', ha', hl, _, ht, _⟩ := hf n hn
  exact ⟨a', ha', hl, ht⟩

/-- The same for the pipeline with exceptions: whenever a run of steps goes through without a component raising, it is the
run of the total pipeline, so every statement about `run` (totals, same-step values, order irrelevance) holds of it. -/
theorem C10_runE_is_run (g g' : Game) (steps : List ((Name → Item) × SimState)) (h : runE g steps = .ok g') :
    run g steps = .ok g' := runE_sound steps g g' h

/-! ## 3. Agents without reward components -/

/-- An agent configured without reward components (or without a `reward_function` at all) has reward 0 at every step and
total 0 at every point of the episode. -/
theorem C10_no_components_zero (steps : List ((Name → Item) × SimState)) :
    ∀ (g : Game), WF g → ∀ (n : Name) (a : Agent), g.agents.lookup n = some a → a.comps = [] → a.total = 0 → a.current = 0 →
      ∃ g', run g steps = .ok g' ∧ ∃ a', g'.agents.lookup n = some a' ∧ a'.comps = [] ∧ a'.current = 0 ∧ a'.total = 0 := by
  induction steps with
  | nil => intro g _ n a ha hc ht hcur; exact ⟨g, rfl, a, ha, hc, hcur, ht⟩
  | cons st rest ih =>
    obtain ⟨items, s⟩ := st
    intro g wf n a ha hc ht hcur
    obtain ⟨g1, hok, wf1, _, hf⟩ := C10_step g wf items s
    obtain ⟨a1, ha1, hcur1, htot1, hcomps1, _⟩ := hf n a ha
    rw [hc] at hcur1 hcomps1
    simp only [List.map_nil, List.sum_nil] at hcur1 hcomps1
    have ht1 : a1.total = 0 := by rw [htot1, ht, hcur1]; exact Rat.add_zero 0
    obtain ⟨g', hrun, a', ha', h1, h2, h3⟩ := ih g1 wf1 n a1 ha1 hcomps1 ht1 hcur1
    exact ⟨g', by simp only [run, hok]; exact hrun, a', ha', h1, h2, h3⟩

/-- non-vacuity: a loaded game with an agent without components (and one sharing from it) -/
example : ((fromConfig id [{ ref := "idle", comps := [] }, { ref := "b", comps := [(.shared "idle", 1), (.actionPenalty (-1) 0, 1)] }]).toOption.bind
    (fun g => g.agents.lookup "idle")).map (fun a => (a.comps.length, a.total, a.current)) = some (0, 0, 0) := by decide +kernel

/-! ## 4. The weighted sum over any commutative ring -/

/-- `RewardFunction.update`'s loop over an arbitrary carrier `V` and an arbitrary way `ev` of evaluating a component -/
def updateCompsG {V C : Type} (add mul : V → V → V) (ev : C → V × C) : V → List (C × V) → V × List (C × V)
  | acc, [] => (acc, [])
  | acc, (c, w) :: rest =>
    let r := ev c
    let t := updateCompsG add mul ev (add acc (mul w r.1)) rest
    (t.1, (r.2, w) :: t.2)

/-- the model's loop is this loop at `V = Rat` -/
theorem updateComps_eq_generic (s : SimState) (it : Item) (cur : Name → Val) (comps : List (Comp × Val)) (acc : Val) :
    updateComps s it cur acc comps = updateCompsG (· + ·) (· * ·) (calcComp s it cur) acc comps := by
  induction comps generalizing acc with
  | nil => rfl
  | cons cw rest ih => obtain ⟨c, w⟩ := cw; simp only [updateComps, updateCompsG, ih]

/-- **Weighted sum, carrier-polymorphic.** Over ANY commutative ring `V` (Lean core's `Lean.Grind.CommRing`: ℤ, ℚ, any
field, `BitVec`, `ZMod`-like carriers, …) and ANY evaluation of the components, the loop `total = 0; total += w * c`
ends with `Σ wᵢ · cᵢ`, and the components come out with their memories advanced, weights untouched. The statement does not
depend on the carrier the rig happens to use (dyadic rationals) nor on what a component is. -/
theorem C10_weighted_sum_any_commutative_ring {V C : Type} [Lean.Grind.CommRing V] (ev : C → V × C) (comps : List (C × V)) :
    (updateCompsG (· + ·) (· * ·) ev (0 : V) comps).1 = (comps.map (fun cw => cw.2 * (ev cw.1).1)).foldr (· + ·) 0 ∧
    (updateCompsG (· + ·) (· * ·) ev (0 : V) comps).2 = comps.map (fun cw => ((ev cw.1).2, cw.2)) := by
  have h : ∀ (l : List (C × V)) (acc : V),
      (updateCompsG (· + ·) (· * ·) ev acc l).1 = acc + (l.map (fun cw => cw.2 * (ev cw.1).1)).foldr (· + ·) 0 ∧
      (updateCompsG (· + ·) (· * ·) ev acc l).2 = l.map (fun cw => ((ev cw.1).2, cw.2)) := by
    intro l
    induction l with
    | nil => intro acc; exact ⟨by simp only [updateCompsG, List.map_nil, List.foldr_nil]; grind, rfl⟩
    | cons cw rest ih =>
      obtain ⟨c, w⟩ := cw
      intro acc
      simp only [updateCompsG, List.map_cons, List.foldr_cons]
      obtain ⟨h1, h2⟩ := ih (acc + w * (ev c).1)
      exact ⟨by rw [h1]; grind, by rw [h2]⟩
  obtain ⟨h1, h2⟩ := h comps 0
  exact ⟨by rw [h1]; grind, h2⟩

/-- the `Rat` model is the instance `V = Rat`, `ev = calcComp s it cur` -/
theorem C10_weighted_sum_instance (s : SimState) (it : Item) (cur : Name → Val) (comps : List (Comp × Val)) :
    (updateComps s it cur 0 comps).1 = (comps.map (fun cw => cw.2 * (calcComp s it cur cw.1).1)).foldr (· + ·) 0 := by
  rw [updateComps_eq_generic]
  exact (C10_weighted_sum_any_commutative_ring (calcComp s it cur) comps).1

/-- non-vacuity: the same loop over `Int` (another commutative ring), three components, weights 2, −1, 0 -/
example : (updateCompsG (· + ·) (· * ·) (fun (c : Int) => (c * c, c + 1)) (0 : Int) [(3, 2), (4, -1), (5, 0)]) =
    (2, [(4, 2), (5, -1), (6, 0)]) := by decide

/-! ## 5. Configurations as written: unregistered / ill-formed components, episode schedules, `reward_info` -/

theorem checkAgent_error_of_bad (a : AgentCfgRaw) (h : a.comps.any (fun cw => !cw.1.isKnown) = true) :
    checkAgent a = .error .keyError ∨ checkAgent a = .error .validationError := by
  unfold checkAgent
  by_cases hu : a.comps.any (fun cw => cw.1.isUnknown) = true
  · left; rw [if_pos hu]
  · by_cases hi : a.comps.any (fun cw => cw.1.isInvalid) = true
    · right; rw [if_neg hu, if_pos hi]
    · exfalso
      obtain ⟨cw, hcw, hk⟩ := List.any_eq_true.mp h
      cases hc : cw.1 with
      | known c => simp [CompCfg.isKnown, hc] at hk
      | unknownType t => exact hu (List.any_eq_true.mpr ⟨cw, hcw, by simp [hc, CompCfg.isUnknown]⟩)
      | invalid => exact hi (List.any_eq_true.mpr ⟨cw, hcw, by simp [hc, CompCfg.isInvalid]⟩)

/-- **Unregistered or ill-formed components are refused at load.** If any agent of the configuration declares a reward
component whose `type` is not registered (a misspelt name, a plugin that was not imported) or whose entry violates its schema,
`from_config` raises (`KeyError` / pydantic `ValidationError`) — the game never loads with a component silently dropped. -/
theorem C10_bad_component_rejected (σ : List Name → List Name) (raw : List AgentCfgRaw)
    (h : ∃ a ∈ raw, a.comps.any (fun cw => !cw.1.isKnown) = true) :
    fromConfigRaw σ raw = .error .keyError ∨ fromConfigRaw σ raw = .error .validationError := by
  have key : checkCfg raw = .error .keyError ∨ checkCfg raw = .error .validationError := by
    induction raw with
    | nil => obtain ⟨a, ha, _⟩ := h; cases ha
    | cons a rest ih =>
      obtain ⟨b, hb, hbad⟩ := h
      simp only [checkCfg]
      cases hca : checkAgent a with
      | error e =>
        by_cases hbad' : a.comps.any (fun cw => !cw.1.isKnown) = true
        · rcases checkAgent_error_of_bad a hbad' with h1 | h1 <;> rw [hca] at h1 <;> cases h1 <;> simp
        · -- `a` has only known components: it cannot fail
          exfalso
          unfold checkAgent at hca
          have hu : a.comps.any (fun cw => cw.1.isUnknown) = false := by
            rw [List.any_eq_false]; intro cw hcw
            have : cw.1.isKnown = true := by
              cases hk : cw.1.isKnown with
              | true => rfl
              | false => exact absurd (List.any_eq_true.mpr ⟨cw, hcw, by simp [hk]⟩) hbad'
            cases hc : cw.1 <;> simp_all [CompCfg.isKnown, CompCfg.isUnknown]
          have hi : a.comps.any (fun cw => cw.1.isInvalid) = false := by
            rw [List.any_eq_false]; intro cw hcw
            have : cw.1.isKnown = true := by
              cases hk : cw.1.isKnown with
              | true => rfl
              | false => exact absurd (List.any_eq_true.mpr ⟨cw, hcw, by simp [hk]⟩) hbad'
            cases hc : cw.1 <;> simp_all [CompCfg.isKnown, CompCfg.isInvalid]
          rw [hu, hi] at hca
          simp at hca
      | ok c =>
        simp only
        have hrest : ∃ a ∈ rest, a.comps.any (fun cw => !cw.1.isKnown) = true := by
          rcases List.mem_cons.mp hb with rfl | hb'
          · rcases checkAgent_error_of_bad b hbad with h1 | h1 <;> rw [hca] at h1 <;> cases h1
          · exact ⟨b, hb', hbad⟩
        rcases ih hrest with h1 | h1 <;> simp [h1]
  unfold fromConfigRaw
  rcases key with h1 | h1 <;> simp [h1]

/-- a configuration whose components are all registered and well-formed loads exactly as its typed form does -/
theorem C10_known_components_load (σ : List Name → List Name) (cfgs : List AgentCfg) :
    fromConfigRaw σ (cfgs.map (fun c => { ref := c.ref, comps := c.comps.map (fun cw => (CompCfg.known cw.1, cw.2)) })) =
      fromConfig σ cfgs := by
  have hagent : ∀ c : AgentCfg, checkAgent { ref := c.ref, comps := c.comps.map (fun cw => (CompCfg.known cw.1, cw.2)) } = .ok c := by
    intro c
    unfold checkAgent
    have h1 : (c.comps.map (fun cw => (CompCfg.known cw.1, cw.2))).any
        (fun cw => cw.1.isUnknown) = false := by
      rw [List.any_eq_false]; intro cw hcw; obtain ⟨x, _, rfl⟩ := List.mem_map.mp hcw; simp [CompCfg.isUnknown]
    have h2 : (c.comps.map (fun cw => (CompCfg.known cw.1, cw.2))).any
        (fun cw => cw.1.isInvalid) = false := by
      rw [List.any_eq_false]; intro cw hcw; obtain ⟨x, _, rfl⟩ := List.mem_map.mp hcw; simp [CompCfg.isInvalid]
    simp only [h1, h2, Bool.false_eq_true, if_false, List.filterMap_map]
    have : c.comps.filterMap ((fun cw : CompCfg × Val => cw.1.toComp?.map (fun c => (c, cw.2))) ∘
        (fun cw => (CompCfg.known cw.1, cw.2))) = c.comps := by
      induction c.comps with
      | nil => rfl
      | cons x xs ih =>
        rw [List.filterMap_cons]
        have hx : ((fun cw : CompCfg × Val => cw.1.toComp?.map (fun c => (c, cw.2))) ∘ (fun cw : Comp × Val => (CompCfg.known cw.1, cw.2))) x
            = some x := rfl
        rw [hx, ih]
    rw [this]
  have hall : checkCfg (cfgs.map (fun c => { ref := c.ref, comps := c.comps.map (fun cw => (CompCfg.known cw.1, cw.2)) })) = .ok cfgs := by
    induction cfgs with
    | nil => rfl
    | cons c rest ih => simp only [List.map_cons, checkCfg, hagent c, ih]
  unfold fromConfigRaw
  rw [hall]

/-- **Episode schedules.** `reset` for episode `ep` of ANY schedule of configurations gives exactly the game `from_config` builds
from that episode's configuration (or its refusal): nothing of the previous episode — its agents, components, memories, totals,
evaluation order — survives, also when the next configuration has other agents or other components. -/
theorem C10_reset_schedule (σ : List Name → List Name) (hσ : SetLike σ) (schedule : Nat → List AgentCfgRaw) (ep : Nat)
    (s0 : SimState) : resetEnvRaw σ schedule ep s0 = fromConfigRaw σ (schedule ep) := by
  unfold resetEnvRaw fromConfigRaw
  cases checkCfg (schedule ep) with
  | error e => rfl
  | ok cfgs => exact C10_reset_is_fresh_load σ hσ cfgs s0

/-- **`reward_info`.** What `update_reward` leaves in the newest history item: untouched without a
`GreenAdminDatabaseUnreachablePenalty`; otherwise `{"connection_attempt_status": …}` as written by the LAST such component
(`response.status` if this item is its database-client request, `"n/a"` otherwise). -/
theorem C10_reward_info_written (it : Item) (comps : List (Comp × Val)) :
    ((∀ cw ∈ comps, ∀ n st m, cw.1 ≠ .greenDb n st m) → rewardInfoAfter it comps = it.rewardInfo) ∧
    (∀ pre post n st m w, comps = pre ++ (.greenDb n st m, w) :: post → (∀ cw ∈ post, ∀ n' st' m', cw.1 ≠ .greenDb n' st' m') →
      rewardInfoAfter it comps = greenDbRewardInfo it n) := by
  have hnone : ∀ (l : List (Comp × Val)) (it : Item), (∀ cw ∈ l, ∀ n st m, cw.1 ≠ .greenDb n st m) →
      rewardInfoAfter it l = it.rewardInfo := by
    intro l
    induction l with
    | nil => intro it _; rfl
    | cons cw rest ih =>
      intro it h
      obtain ⟨c, w⟩ := cw
      have hrest := ih it (fun cw hcw => h cw (List.mem_cons_of_mem _ hcw))
      cases c with
      | greenDb n st m => exact absurd rfl (h (.greenDb n st m, w) (List.mem_cons_self ..) n st m)
      | _ => simpa [rewardInfoAfter] using hrest
  have hinfo : ∀ (it : Item) (x : PyVal) (n : Name), greenDbRewardInfo { it with rewardInfo := x } n = greenDbRewardInfo it n := by
    intro it x n; rfl
  constructor
  · exact hnone comps it
  · intro pre post n st m w hc hpost
    subst hc
    have key : ∀ (pre : List (Comp × Val)) (it' : Item), it'.request = it.request → it'.status = it.status →
        rewardInfoAfter it' (pre ++ (.greenDb n st m, w) :: post) = greenDbRewardInfo it n := by
      intro pre
      induction pre with
      | nil =>
        intro it' hr hs
        simp only [List.nil_append, rewardInfoAfter]
        rw [hnone post _ hpost]
        show greenDbRewardInfo it' n = greenDbRewardInfo it n
        unfold greenDbRewardInfo Item.requestIs
        rw [hr, hs]
      | cons cw rest ih =>
        intro it' hr hs
        obtain ⟨c, w'⟩ := cw
        cases c with
        | greenDb n' st' m' => simp only [List.cons_append, rewardInfoAfter]; exact ih _ hr hs
        | _ => simp only [List.cons_append, rewardInfoAfter]; exact ih _ hr hs
    exact key pre it rfl rfl

end Primaite.Reward
