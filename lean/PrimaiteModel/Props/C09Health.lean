/-
C09 — the simulator-side condition of the folder-cache invariant (`ScanCoherent`, `C09_folder_cache_tracks_visible`), proved about
C14's health model (`Model/Health.lean`, imported read-only; C14's rig validates that model against the real node on every run):

  a folder's `visible` health changes only inside a timestep, and only when a scan of it completes in that timestep
  (its own timed scan reaching 0, or the whole-node scan fanning out) — never through a request, a power event or a restore.

The two code sites where the model says it changes are exactly the two sites of `folder.py` that assign `visible_health_status`, and
both set `_scanned_this_step = True` (Gen tie `C09_gen_folder_flag`), which `pre_timestep` clears at the start of the next step.
-/
import PrimaiteModel.Model.Health
import PrimaiteModel.Gen.ObsCfgTables
import PrimaiteModel.Props.C09
namespace Primaite.Health
open Primaite.Gen

/-- every assignment to a folder's `visible_health_status` is followed, in the same function, by `_scanned_this_step = True`; the
flag is cleared in `pre_timestep` only; nothing else under simulator/ assigns a folder's visible health (files: `File.scan`, and
the database service restoring its own file) -/
theorem C09_gen_folder_flag :
    ObsCfgTables.folderVisibleWriters = [("_scan_timestep", true), ("scan", true)] ∧
    ObsCfgTables.folderFlagClearedIn = ["pre_timestep"] ∧
    ObsCfgTables.visibleHealthStatusAssignedIn =
      ["simulator/file_system/file.py:scan:self", "simulator/file_system/folder.py:_scan_timestep:self",
       "simulator/file_system/folder.py:scan:self", "simulator/system/services/database/database_service.py:restore_backup:self.db_file"] := by
  decide

/-- the visible health of the node's folders, by position -/
def Node.c09hVis (n : Node) : List FsH := n.folders.map (fun F => F.visible)

theorem c09h_vis_mapFolders (n : Node) (g : Folder → Folder) (hg : ∀ F, (g F).visible = F.visible) : (n.mapFolders g).c09hVis = n.c09hVis := by
  unfold Node.c09hVis Node.mapFolders
  simp only [List.map_map]
  apply List.map_congr_left
  intro F _
  exact hg F

theorem c09h_vis_of_folders {n m : Node} (h : m.folders = n.folders) : m.c09hVis = n.c09hVis := by unfold Node.c09hVis; rw [h]

theorem c09h_powerOn_folders (n : Node) : n.powerOn.folders = n.folders := by
  unfold Node.powerOn Node.mapSws
  split
  · rfl
  · split <;> rfl

theorem c09h_offNow_folders (n : Node) : n.offNow.folders = n.folders := by
  unfold Node.offNow Node.mapSws
  simp only []
  split
  · rw [c09h_powerOn_folders]
  · rfl

theorem c09h_powerOff_folders (n : Node) : n.powerOff.folders = n.folders := by
  unfold Node.powerOff
  split
  · exact c09h_offNow_folders n
  · split <;> rfl

theorem c09h_bootPhase_folders (n : Node) : n.bootPhase.folders = n.folders := by
  unfold Node.bootPhase Node.mapSws
  split
  · rfl
  · split <;> rfl

theorem c09h_shutPhase_folders (n : Node) : n.shutPhase.folders = n.folders := by
  unfold Node.shutPhase
  split
  · rfl
  · split
    · exact c09h_offNow_folders n
    · rfl

theorem c09h_powerPhase_folders (n : Node) : n.powerPhase.folders = n.folders := by
  unfold Node.powerPhase
  rw [c09h_shutPhase_folders, c09h_bootPhase_folders]

theorem c09h_handle_visible (F : Folder) (r : ItemReq) : (F.handle r).1.visible = F.visible := by
  cases r
  · simp only [Folder.handle, Folder.scan]; split; rfl; split <;> rfl
  · rfl
  · simp only [Folder.handle, Folder.repair]; split <;> rfl
  · simp only [Folder.handle, Folder.restore]; split <;> rfl
  · simp only [Folder.handle, Folder.corrupt]; split <;> rfl

theorem c09h_restore_visible (F : Folder) : F.restore.visible = F.visible := by
  unfold Folder.restore; split <;> rfl

theorem c09h_restoreIn_visible (fo : List Folder) (F : Folder) : (Folder.restoreIn fo F).visible = F.visible := by
  unfold Folder.restoreIn
  split
  · split
    · rfl
    · split
      · exact c09h_restore_visible F
      · rfl
  · exact c09h_restore_visible F

/-- **no request, power event or external write changes any folder's visible health** — only `tick` can -/
theorem C09_health_visible_unchanged_by_requests (n : Node) (op : Op) (h : op ≠ .tick) : (n.apply op).c09hVis = n.c09hVis := by
  cases op with
  | tick => exact absurd rfl h
  | shutdown => simp only [Node.apply]; split; exact c09h_vis_of_folders (c09h_powerOff_folders n); rfl
  | startup => simp only [Node.apply]; split; exact c09h_vis_of_folders (c09h_powerOn_folders n); rfl
  | reset => simp only [Node.apply]; split; exact c09h_vis_of_folders (c09h_powerOff_folders _); rfl
  | osScan => simp only [Node.apply]; split <;> rfl
  | redScan => simp only [Node.apply]; split <;> rfl
  | sw isApp name r => simp only [Node.apply]; split <;> rfl
  | swSet name hh => rfl
  | appInstall name => rfl
  | appRun name => simp only [Node.apply]; split <;> rfl
  | folder F r =>
    simp only [Node.apply]; split
    · exact c09h_vis_mapFolders n _ (fun G => by split; exact c09h_handle_visible G r; rfl)
    · rfl
  | folderDelete F f =>
    simp only [Node.apply]; split
    · exact c09h_vis_mapFolders n _ (fun G => by split <;> rfl)
    · rfl
  | file F f r =>
    simp only [Node.apply]; split
    · exact c09h_vis_mapFolders n _ (fun G => by split <;> rfl)
    · rfl
  | fsDeleteFile F f =>
    simp only [Node.apply]; split
    · exact c09h_vis_mapFolders n _ (fun G => by split <;> rfl)
    · rfl
  | fsDeleteFolder F =>
    simp only [Node.apply]; split
    · exact c09h_vis_mapFolders n _ (fun G => by split <;> rfl)
    · rfl
  | fsRestoreFile F f =>
    simp only [Node.apply]; split
    · exact c09h_vis_mapFolders n _ (fun G => by split <;> rfl)
    · rfl
  | fsRestoreFolder F =>
    simp only [Node.apply]; split
    · exact c09h_vis_mapFolders n _ (fun G => by split; exact c09h_restoreIn_visible n.folders G; rfl)
    · rfl
  | fileSet F f hh => exact c09h_vis_mapFolders n _ (fun G => by split <;> rfl)

/-! ### inside a timestep -/

/-- the whole-node scan fans out in this timestep (`m` = the node after the power phase) -/
def c09h_nodeScanFires (m : Node) : Prop := m.scanCd > 0 ∧ m.scanCd - 1 = 0

/-- the folder's own timed scan completes in this timestep: `_scan_timestep` reaches 0 (the code then sets `_scanned_this_step`) -/
def c09h_timedScanCompletes (F : Folder) : Prop := F.deleted = false ∧ F.scanCd ≥ 0 ∧ F.scanCd - 1 = 0

theorem c09h_restoreTick_visible (F : Folder) : F.restoreTick.visible = F.visible := by
  unfold Folder.restoreTick
  split
  · split
    · unfold Folder.restoreFinish
      split
      · rfl
      · split <;> rfl
    · rfl
  · rfl

theorem c09h_folder_tick_visible (F : Folder) (h : F.tick.visible ≠ F.visible) : F.scanCd ≥ 0 ∧ F.scanCd - 1 = 0 := by
  unfold Folder.tick at h
  rw [c09h_restoreTick_visible] at h
  unfold Folder.scanTick at h
  split at h
  · next h1 =>
    split at h
    · next h2 => exact ⟨h1, h2⟩
    · exact absurd rfl h
  · exact absurd rfl h

theorem c09h_instantScan_fields (F : Folder) : F.instantScan.scanCd = F.scanCd ∧ F.instantScan.deleted = F.deleted := by
  unfold Folder.instantScan; split <;> exact ⟨rfl, rfl⟩

/-- what one timestep does to one folder of a node that is ON after the power phase -/
def c09h_tickFolder (m : Node) (F : Folder) : Folder :=
  (fun G : Folder => if G.deleted then G else G.tick) (if m.scanCd > 0 ∧ m.scanCd - 1 = 0 then F.instantScan else F)

theorem c09h_tick_folders (n : Node) :
    n.tick.folders = if n.powerPhase.power = .on then n.folders.map (c09h_tickFolder n.powerPhase) else n.folders := by
  unfold Node.tick
  simp only []
  split
  · next hon =>
    have hred : ∀ m : Node, m.redPhase.folders = m.folders ∧ m.redPhase.sws = m.sws := by
      intro m; unfold Node.redPhase; split <;> exact ⟨rfl, rfl⟩
    unfold Node.itemPhase Node.scanPhase Node.mapFolders Node.mapSws c09h_tickFolder
    rw [← c09h_powerPhase_folders n]
    by_cases h1 : n.powerPhase.scanCd > 0
    · by_cases h2 : n.powerPhase.scanCd - 1 = 0
      · simp [h1, h2, List.map_map, Function.comp_def, (hred _).1]
      · simp [h1, h2, (hred _).1]
    · simp [h1, (hred _).1]
  · next hoff =>
    exact c09h_powerPhase_folders n

/-- **inside a timestep a folder's visible health changes only if a scan of it completes in that timestep** -/
theorem c09h_tickFolder_visible (m : Node) (F : Folder) (h : (c09h_tickFolder m F).visible ≠ F.visible) :
    (c09h_nodeScanFires m ∧ F.deleted = false) ∨ c09h_timedScanCompletes F := by
  unfold c09h_tickFolder at h
  simp only [] at h
  by_cases hf : m.scanCd > 0 ∧ m.scanCd - 1 = 0
  · simp only [hf, and_self, if_true] at h
    by_cases hd : F.deleted = true
    · have : F.instantScan = F := by unfold Folder.instantScan; simp [hd]
      rw [this] at h
      simp [hd] at h
    · exact Or.inl ⟨hf, by simpa using hd⟩
  · simp only [hf, if_false] at h
    by_cases hd : F.deleted = true
    · simp [hd] at h
    · simp only [hd] at h
      have := c09h_folder_tick_visible F (by simpa using h)
      exact Or.inr ⟨by simpa using hd, this.1, this.2⟩

/-- **the condition C09's folder-cache theorem assumes, for every operation of C14's node model**: position by position, a folder whose
visible health differs after the operation went through a timestep in which the node (after its power phase) was ON and a scan of that
folder completed — the node scan fanning out, or the folder's timed scan reaching 0.  In both places the code sets
`_scanned_this_step` (`C09_gen_folder_flag`), and the observation of that step reads the flag before `pre_timestep` clears it. -/
theorem C09_health_visible_changes_only_with_scan (n : Node) (op : Op) :
    ∀ p ∈ n.folders.zip (n.apply op).folders, p.2.visible ≠ p.1.visible →
      op = .tick ∧ n.powerPhase.power = .on ∧ ((c09h_nodeScanFires n.powerPhase ∧ p.1.deleted = false) ∨ c09h_timedScanCompletes p.1) := by
  intro p hp hne
  by_cases hop : op = .tick
  · subst hop
    simp only [Node.apply, c09h_tick_folders] at hp
    by_cases hon : n.powerPhase.power = .on
    · simp only [hon, if_true] at hp
      rw [List.zip_map_right] at hp
      obtain ⟨q, hq, rfl⟩ := List.mem_map.mp hp
      have hq' := List.of_mem_zip hq
      have : q.2 = q.1 := by
        have := List.mem_iff_getElem.mp hq
        obtain ⟨i, hi, hiq⟩ := this
        simp [List.getElem_zip] at hiq
        rw [← hiq]
      simp only [Prod.map, id] at hne
      rw [this] at hne
      exact ⟨rfl, hon, c09h_tickFolder_visible n.powerPhase q.1 hne⟩
    · simp only [hon, if_false] at hp
      have : p.2 = p.1 := by
        obtain ⟨i, hi, hiq⟩ := List.mem_iff_getElem.mp hp
        simp [List.getElem_zip] at hiq
        rw [← hiq]
      exact absurd (by rw [this]) hne
  · have hv := C09_health_visible_unchanged_by_requests n op hop
    unfold Node.c09hVis at hv
    obtain ⟨i, hi, hiq⟩ := List.mem_iff_getElem.mp hp
    have hlen : (n.apply op).folders.length = n.folders.length := by
      have := congrArg List.length hv
      simpa using this
    simp only [List.length_zip] at hi
    have h1 : i < n.folders.length := by omega
    have h2 : i < (n.apply op).folders.length := by omega
    have := congrArg (fun l => l[i]?) hv
    simp only [List.getElem?_map, List.getElem?_eq_getElem h1, List.getElem?_eq_getElem h2, Option.map_some, Option.some.injEq] at this
    simp [List.getElem_zip] at hiq
    rw [← hiq] at hne
    exact absurd this hne

/-! #### non-vacuity: a folder whose timed scan completes in the next tick changes its visible health; the same folder one tick
earlier does not -/

def c09h_exFolder (cd : Int) : Folder :=
  { name := "root", deleted := false, actual := .good, visible := .none, scanDur := 3, scanCd := cd, restoreDur := 3, restoreCd := -1,
    files := [{ name := "a", actual := .corrupt, visible := .none, deleted := false }] }

example : (c09h_exFolder 1).tick.visible = .corrupt ∧ (c09h_exFolder 2).tick.visible = .none ∧ c09h_timedScanCompletes (c09h_exFolder 1) := by
  refine ⟨by decide, by decide, by unfold c09h_timedScanCompletes; decide⟩


/-! ### the flag itself, and the bridge to C09's folder-cache theorem

C14's model has no `_scanned_this_step` field.  Here is the flag as the CODE sets it (`C09_gen_folder_flag`: cleared by `pre_timestep` at
the start of every step; set by `scan(instant_scan=True)` — the node scan fanning out over a live folder — and by `_scan_timestep` when a
live folder's countdown reaches 0), defined next to C14's tick, and the proof that it is true in every tick in which the visible health
moves.  A whole trajectory of environment steps — each one: any requests (they never touch the visible health), then the tick, on a
node that is ON or not — therefore satisfies `Obs.ScanCoherent`, the hypothesis of `C09_folder_cache_tracks_visible`. -/

/-- `_scanned_this_step` at the end of a tick starting from `m` (the node after its power phase, ON) -/
def c09h_flagAfterTick (m : Node) (F : Folder) : Bool :=
  (decide (m.scanCd > 0 ∧ m.scanCd - 1 = 0) && !F.deleted) || (!F.deleted && decide (F.scanCd ≥ 0 ∧ F.scanCd - 1 = 0))

/-- **whenever a tick changes a folder's visible health, the flag is set in that tick** -/
theorem C09_health_flag_set_when_visible_changes (m : Node) (F : Folder) (h : (c09h_tickFolder m F).visible ≠ F.visible) :
    c09h_flagAfterTick m F = true := by
  rcases c09h_tickFolder_visible m F h with ⟨hf, hd⟩ | ⟨hd, h1, h2⟩
  · unfold c09h_nodeScanFires at hf
    simp [c09h_flagAfterTick, hf.1, hf.2, hd]
  · simp [c09h_flagAfterTick, hd, h1, h2]

/-- one environment step as far as one folder is concerned: what the requests of the step do to it (anything that keeps the visible
health — `C09_health_visible_unchanged_by_requests`), the node after its power phase, and whether that node is ON (else nothing ticks) -/
structure c09h_Step where
  m : Node
  on : Bool
  r : Folder → Folder
  hr : ∀ F, (r F).visible = F.visible

def c09h_stepFolder (s : c09h_Step) (F : Folder) : Folder := if s.on then c09h_tickFolder s.m (s.r F) else s.r F
def c09h_stepFlag (s : c09h_Step) (F : Folder) : Bool := if s.on then c09h_flagAfterTick s.m (s.r F) else false

/-- what `describe_state()` shows of the folder after each step: visible health and `scanned_this_step` -/
def c09h_trace : Folder → List c09h_Step → List Primaite.Obs.FolderState
  | _, [] => []
  | F, s :: rest =>
    { health := (c09h_stepFolder s F).actual.value, visible := (c09h_stepFolder s F).visible.value, scanned := c09h_stepFlag s F, files := [] } ::
      c09h_trace (c09h_stepFolder s F) rest

/-- **every trajectory of C14's folder, with the flag set where the code sets it, is scan-coherent** -/
theorem C09_health_trace_scan_coherent : ∀ (steps : List c09h_Step) (F : Folder),
    Primaite.Obs.ScanCoherent F.visible.value (c09h_trace F steps) := by
  intro steps
  induction steps with
  | nil => intro F; trivial
  | cons s rest ih =>
    intro F
    refine ⟨?_, ih (c09h_stepFolder s F)⟩
    intro hflag
    simp only [c09h_trace] at hflag ⊢
    unfold c09h_stepFlag at hflag
    unfold c09h_stepFolder
    cases hon : s.on with
    | false => simp [s.hr F]
    | true =>
      simp only [hon, if_true] at hflag ⊢
      by_cases hv : (c09h_tickFolder s.m (s.r F)).visible = (s.r F).visible
      · rw [hv, s.hr F]
      · have := C09_health_flag_set_when_visible_changes s.m (s.r F) hv
        rw [this] at hflag
        cases hflag

/-- **the folder leaf of the observation equals the visible health of C14's folder at EVERY step of every such trajectory** (scanning
required, cache initially equal to the visible health — both 0 for a fresh object and a never-scanned folder) -/
theorem C09_folder_leaf_tracks_health_model (o : Primaite.Obs.FolderObs) (F : Folder) (steps : List c09h_Step)
    (hs : o.scan = true) (hc : o.cached = F.visible.value) :
    Primaite.Obs.folderRun o (c09h_trace F steps) = (c09h_trace F steps).map (fun f => f.visible) :=
  Primaite.Obs.C09_folder_cache_tracks_visible (c09h_trace F steps) o F.visible.value hs hc (C09_health_trace_scan_coherent steps F)

/-- non-vacuity: a corrupt file, the folder's timed scan completing in the second step: visible NONE then CORRUPT, flag false then true -/
def c09h_exNode : Node :=
  { power := .on, startDur := 0, startCd := 0, shutDur := 0, shutCd := 0, resetting := false, scanDur := 3, scanCd := 0, sws := [], folders := [] }
def c09h_exStep : c09h_Step := { m := c09h_exNode, on := true, r := id, hr := fun _ => rfl }

example : (c09h_trace (c09h_exFolder 2) [c09h_exStep, c09h_exStep, c09h_exStep]).map (fun f => (f.visible, f.scanned)) =
    [(FsH.none.value, false), (FsH.corrupt.value, true), (FsH.corrupt.value, false)] := by decide

end Primaite.Health
