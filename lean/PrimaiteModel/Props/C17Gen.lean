/-
C17 — ties of the model to the regenerated TABLES (`Gen/Database.lean`, harness/extract/database.py): status codes, health
sets, operators, validator table, defaults.  Kept in a module of their own so that a table that no longer matches breaks
these obligations only (the theorems about the translated methods are in C17Recv / C17Ftp / C17Client).
-/
import PrimaiteModel.Props.C17Run
import PrimaiteModel.Gen.Database
import PrimaiteModel.Gen.DatabaseConnWriters
namespace Primaite.Database

/-- The model's ladder uses the status codes, the health set, the password operator and the capacity operator the
source has now. -/
theorem C17_gen_connect :
    Gen.Database.connectNotRunning = 404 ∧ Gen.Database.connectUnavailable = 503 ∧ Gen.Database.connectUnauthorised = 401 ∧
    Gen.Database.connectAddFailed = 500 ∧ Gen.Database.connectOk = 200 ∧ Gen.Database.connectDefault = 500 ∧
    Gen.Database.connectPasswordOp = "==" ∧ Gen.Database.capacityOp = ">=" ∧
    Gen.Database.connectIdGeneratedBeforeAdd = true ∧
    (∀ h : Health, healthAcceptsConnect h = Gen.Database.connectHealthAccept.contains h.name) ∧
    (∀ h : Health, (h.name, match h with | .unused => 0 | .good => 1 | .fixing => 2 | .compromised => 3 | .overwhelmed => 4)
        ∈ Gen.Database.healthValues) ∧ Gen.Database.healthValues.length = 5 := by
  refine ⟨by decide, by decide, by decide, by decide, by decide, by decide, by decide, by decide, by decide, ?_, ?_, by decide⟩
  · intro h; cases h <;> decide
  · intro h; cases h <;> decide

/-- `_process_sql` and the gate in `receive`. -/
theorem C17_gen_sql :
    Gen.Database.receiveGuardFirst = true ∧ Gen.Database.sqlUnknownConnection = 401 ∧ Gen.Database.receiveDefault = 500 ∧
    Gen.Database.sqlMissingFile = (processSql { file := none } .select).2 ∧
    Gen.Database.sqlUnhealthy = (processSql { health := .compromised } .select).2 ∧
    Gen.Database.selectGood = (processSql {} .select).2 ∧
    Gen.Database.selectCorrupt = (processSql { file := some .corrupt } .select).2 ∧
    Gen.Database.selectElse = (processSql { file := some .compromised } .select).2 ∧
    Gen.Database.deleteStatus = (processSql {} .delete).2 ∧
    some Gen.Database.deleteSets = (processSql {} .delete).1.file.map FHealth.name ∧
    Gen.Database.encryptStatus = (processSql {} .encrypt).2 ∧
    some Gen.Database.encryptSets = (processSql {} .encrypt).1.file.map FHealth.name ∧
    Gen.Database.insertStatus = (processSql {} .insert).2 ∧
    Gen.Database.pgstatStatus = (processSql {} .pgstat).2 ∧
    Gen.Database.unknownQueryStatus = (processSql {} .other).2 ∧
    Gen.Database.sqlBranchOrder = ["SELECT", "DELETE", "ENCRYPT", "INSERT", "SELECT * FROM pg_stat_activity"] := by
  decide

/-- Validators of the service request manager, defaults, fix acceptance, the tick at which the backup is taken. -/
theorem C17_gen_lifecycle :
    (∀ r : SvcReq, r ≠ .compromise →
        (svcReqName r, match modelValidator r with | some st => st.name | none => "-") ∈ Gen.Database.requestValidators) ∧
    Gen.Database.fixAccepts = ["COMPROMISED", "GOOD"] ∧
    Gen.Database.fixingDurationDefault = ({} : Server).fixDur ∧
    Gen.Database.restartDurationDefault = ({} : Server).restartDur ∧
    Gen.Database.maxSessionsDefault = ({} : Server).maxSessions ∧
    Gen.Database.backupAtTimestep = 1 ∧ Gen.Database.restoreWhenFixCompletes = true ∧
    Gen.Database.methodGuards = [("stop", ["RUNNING", "PAUSED"], "STOPPED"), ("pause", ["RUNNING"], "PAUSED"),
      ("resume", ["PAUSED"], "RUNNING"), ("restart", ["RUNNING", "PAUSED"], "RESTARTING"), ("enable", ["DISABLED"], "STOPPED"),
      ("start", ["STOPPED"], "RUNNING")] := by
  refine ⟨?_, by decide, by decide, by decide, by decide, by decide, by decide, by decide⟩
  intro r hr; cases r <;> first | decide | exact absurd rfl hr

/-- Gen tie for the defaults a freshly installed instance gets (software.py / service.py, regenerated on every run): the
re-installed database service's session limit and durations, and the FTP client's restart / fix durations. -/
theorem C17_gen_fresh_instance_defaults :
    ftpcRestartDur = Gen.Database.restartDurationDefault ∧ ftpcFixDur = Gen.Database.fixingDurationDefault ∧
    ∀ (s : Server) (cfg : Option InstCfg), (s.reinstall cfg).2 = .done →
      (s.reinstall cfg).1.maxSessions = Gen.Database.maxSessionsDefault ∧
      (s.reinstall cfg).1.restartDur = Gen.Database.restartDurationDefault ∧
      (s.reinstall cfg).1.fixDur = (cfg.getD { bk := false }).fixDur ∧
      ({} : InstCfg).fixDur = Gen.Database.fixingDurationDefault := by
  refine ⟨by decide, by decide, ?_⟩
  intro s cfg h
  unfold Server.reinstall at h ⊢
  (repeat' split) <;> simp_all <;> decide

/-- **Who can write the connection table** (round 7; the frame behind `C17_table_grows_only_by_authorised_connect`,
`C17_closed_stays_closed_run`, `C17_sessions_bounded_run`): in the source as it is now, the only methods of the database service's
class chain that mutate `self._connections` are `add_connection`, `terminate_connection` and `clear_connections`; inside the chain
the first is called from `_process_connect` only, the second from `receive` only (both translated: `C17_tr_process_connect`,
`C17_tr_receive`), the third not at all; in the whole tree `clear_connections` is called by the DoS bot on ITSELF only, and the
only write to another object's `_connections` is the user-session manager's on the terminal service. -/
theorem C17_gen_table_writers :
    Gen.DatabaseConnWriters.writersInChain =
      ["IOSoftware.add_connection", "IOSoftware.clear_connections", "IOSoftware.terminate_connection"] ∧
    Gen.DatabaseConnWriters.callsInChain =
      ["DatabaseService._process_connect:self.add_connection", "DatabaseService.receive:self.terminate_connection"] ∧
    Gen.DatabaseConnWriters.clearCallers =
      ["simulator/system/applications/red_applications/dos_bot.py:DoSBot._application_loop:self"] ∧
    Gen.DatabaseConnWriters.foreignWrites =
      ["simulator/network/hardware/base.py:UserSessionManager._timeout_session:self.parent.terminal"] := by
  decide

end Primaite.Database
