/-
C08 — the ARP side of the forwarding model is the TRANSLATED source (Gen/ForwardArp.lean, regenerated on every run from
`HostARP` / `RouterARP` / `ARP`):

* one activation of the model's `arpMac` / `arpIfc` (any state, node, address, flags, fuel) IS the translated
  `_get_arp_cache_mac_address` / `_get_arp_cache_network_interface` of the node's class: cache hit, (router, interface look-up) the
  interface whose subnet holds the address, `None`, the exception of `find_best_route`, or "send_arp_request(t); look t up again with
  the flags the source passes" — for ALL arguments, so a changed flag, guard, target or order of the source breaks a theorem;
* `Node.addArp` writes exactly when the translated `add_arp_cache_entry` (override unset — no caller sets it) writes;
* `sendArpReq` asks exactly the address the translated `send_arp_request` asks and refuses the network / broadcast address;
* the ARP request / reply handlers of hosts and routers answer / learn under the translated tests.
-/
import PrimaiteModel.Model.Forward
import PrimaiteModel.Gen.ForwardArp
import PrimaiteModel.Props.C08
namespace Primaite.Forward
open Primaite.Route
open Primaite.Gen.ForwardArp (Best Step)
namespace G
export Primaite.Gen.ForwardArp (hostGetMac hostGetIfc routerGetMac routerGetIfc addEntry addEntryCallers sendReqTarget sendReqEmits
  hostAnswers routerAnswers routerLearns)
end G

/-- the model's successor of a cache miss, as an outcome of the translated method (`go t`: `t` is asked AND looked up) -/
def ArpNext.toStep : ArpNext → Step Ip
  | .stop => .stop
  | .raised => .raised
  | .go t re gw => .go t t re gw

/-- what the look-ups read off `find_best_route`'s answer -/
def bestOf : Route.Result → Best Ip
  | .raised => .raised
  | .noRoute => .none
  | .route _ r => .static r.nextHop
  | .default nh => .dflt nh

/-! ### the four look-ups -/

/-- Gen obligation: `HostARP._get_arp_cache_mac_address` and `_get_arp_cache_network_interface` (translated) after a cache miss are
the model's `hostArpNext`, for every gateway setting, address and flag pair; on a hit both answer from the cache. -/
theorem C08_gen_arp_host_lookup (nd : Node) (ip : Ip) (re gw : Bool) :
    G.hostGetMac ip false nd.gateway.isSome (nd.gateway.getD 0) re gw = (hostArpNext nd ip re gw).toStep ∧
    G.hostGetIfc ip false nd.gateway.isSome (nd.gateway.getD 0) re gw = (hostArpNext nd ip re gw).toStep ∧
    G.hostGetMac ip true nd.gateway.isSome (nd.gateway.getD 0) re gw = .hit ∧
    G.hostGetIfc ip true nd.gateway.isSome (nd.gateway.getD 0) re gw = .hit := by
  refine ⟨?_, ?_, by simp [Gen.ForwardArp.hostGetMac], by simp [Gen.ForwardArp.hostGetIfc]⟩ <;>
  · cases hg : nd.gateway with
    | none => cases re <;> cases gw <;> simp [Gen.ForwardArp.hostGetMac, Gen.ForwardArp.hostGetIfc, hostArpNext, ArpNext.toStep, hg]
    | some g =>
      by_cases h : ip = g
      · subst h
        cases re <;> cases gw <;> simp [Gen.ForwardArp.hostGetMac, Gen.ForwardArp.hostGetIfc, hostArpNext, ArpNext.toStep, hg]
      · have h' : ¬ g = ip := fun e => h e.symm
        cases re <;> cases gw <;>
          simp [Gen.ForwardArp.hostGetMac, Gen.ForwardArp.hostGetIfc, hostArpNext, ArpNext.toStep, hg, h, h']

theorem bestOf_default {t : Table} {ip nh : Ip} (h : findBestRoute t ip = .default nh) : t.default = some nh :=
  ((C08_default_iff t ip nh).1 h).2.2

/-- Gen obligation: `RouterARP._get_arp_cache_mac_address` (translated) after a cache miss is the model's `routerArpNext … true`,
`_get_arp_cache_network_interface` (translated) answers the subnet's interface first and is `routerArpNext … false` otherwise —
for every route table (the look-up reads `find_best_route`'s answer and the default route), interface list, address, flags. -/
theorem C08_gen_arp_router_lookup (nd : Node) (ip : Ip) (re gw : Bool) (gS : Bool) (gI : Ip) :
    G.routerGetMac ip false gS gI (firstIn nd.ifaces ip 0).isSome (bestOf (findBestRoute nd.routes ip))
        nd.routes.default.isSome (nd.routes.default.getD 0) re gw = (routerArpNext nd ip re gw true).toStep ∧
    G.routerGetIfc ip false gS gI false (bestOf (findBestRoute nd.routes ip))
        nd.routes.default.isSome (nd.routes.default.getD 0) re gw = (routerArpNext nd ip re gw false).toStep ∧
    (∀ b r dS dN, G.routerGetIfc ip false gS gI true b dS dN re gw = .subnet ∧ G.routerGetIfc ip true gS gI r b dS dN re gw = .hit ∧
      G.routerGetMac ip true gS gI r b dS dN re gw = .hit) := by
  refine ⟨?_, ?_, fun b r dS dN => by simp [Gen.ForwardArp.routerGetIfc, Gen.ForwardArp.routerGetMac]⟩
  · cases re
    · cases hs : (firstIn nd.ifaces ip 0).isSome
      · cases hr : findBestRoute nd.routes ip with
        | raised => simp [Gen.ForwardArp.routerGetMac, routerArpNext, ArpNext.toStep, hs, hr, bestOf, Best.isRaised]
        | noRoute => simp [Gen.ForwardArp.routerGetMac, routerArpNext, ArpNext.toStep, hs, hr, bestOf, Best.isRaised, Best.isSome]
        | route i r =>
          simp [Gen.ForwardArp.routerGetMac, routerArpNext, ArpNext.toStep, hs, hr, bestOf, Best.isRaised, Best.isSome, Best.isDflt, Best.nh]
        | default nh =>
          simp [Gen.ForwardArp.routerGetMac, routerArpNext, ArpNext.toStep, hs, hr, bestOf, Best.isRaised, Best.isSome, Best.isDflt,
            bestOf_default hr]
      · simp [Gen.ForwardArp.routerGetMac, routerArpNext, ArpNext.toStep, hs]
    · cases hd : nd.routes.default <;> cases gw <;> simp [Gen.ForwardArp.routerGetMac, routerArpNext, ArpNext.toStep, hd]
  · cases re
    · cases hr : findBestRoute nd.routes ip with
      | raised => simp [Gen.ForwardArp.routerGetIfc, routerArpNext, ArpNext.toStep, hr, bestOf, Best.isRaised]
      | noRoute => simp [Gen.ForwardArp.routerGetIfc, routerArpNext, ArpNext.toStep, hr, bestOf, Best.isRaised, Best.isSome]
      | route i r =>
        simp [Gen.ForwardArp.routerGetIfc, routerArpNext, ArpNext.toStep, hr, bestOf, Best.isRaised, Best.isSome, Best.isDflt, Best.nh]
      | default nh =>
        simp [Gen.ForwardArp.routerGetIfc, routerArpNext, ArpNext.toStep, hr, bestOf, Best.isRaised, Best.isSome, Best.isDflt,
          bestOf_default hr]
    · cases hd : nd.routes.default <;> cases gw <;> simp [Gen.ForwardArp.routerGetIfc, routerArpNext, ArpNext.toStep, hd]

/-! ### one activation of the interpreter's look-ups = the translated method -/

/-- the translated MAC look-up of the node's class, on the node's state -/
def genMacStep (nd : Node) (ip : Ip) (re gw : Bool) : Step Ip :=
  match nd.kind with
  | .host => G.hostGetMac ip (nd.arpGet ip).isSome nd.gateway.isSome (nd.gateway.getD 0) re gw
  | .router => G.routerGetMac ip (nd.arpGet ip).isSome false 0 (firstIn nd.ifaces ip 0).isSome (bestOf (findBestRoute nd.routes ip))
      nd.routes.default.isSome (nd.routes.default.getD 0) re gw
  | .switch => if (nd.arpGet ip).isSome then .hit else .stop

/-- the translated interface look-up of the node's class, on the node's state -/
def genIfcStep (nd : Node) (ip : Ip) (re gw : Bool) : Step Ip :=
  match nd.kind with
  | .host => G.hostGetIfc ip (nd.arpGet ip).isSome nd.gateway.isSome (nd.gateway.getD 0) re gw
  | .router => G.routerGetIfc ip (nd.arpGet ip).isSome false 0 (firstIn nd.ifaces ip 0).isSome (bestOf (findBestRoute nd.routes ip))
      nd.routes.default.isSome (nd.routes.default.getD 0) re gw
  | .switch => if (nd.arpGet ip).isSome then .hit else .stop

/-- **`arpMac` runs the translated method**: one activation, in any state and at any fuel, answers from the cache on `hit`, `None` on
`stop`, records the exception on `raised`, and on `go asked again re' gw'` runs `send_arp_request asked` and then the look-up of
`again` with exactly the flags the source passes. -/
theorem C08_gen_arp_mac_runs_translated (fuel : Nat) (st : St) (n : Nat) (nd : Node) (ip : Ip) (re gw : Bool)
    (hn : st.node? n = some nd) :
    arpMac (fuel + 1) st n ip re gw =
      match genMacStep nd ip re gw with
      | .hit => (st, (nd.arpGet ip).map (·.mac))
      | .subnet => (st, none)
      | .stop => (st, none)
      | .raised => (st.emit (.raised n), none)
      | .go asked again re' gw' => arpMac fuel (sendArpReq fuel st n asked) n again re' gw' := by
  rw [arpMac]
  simp only [hn]
  cases hc : nd.arpGet ip with
  | some e =>
    cases hk : nd.kind
    · simp only [genMacStep, hk, hc, Option.isSome_some, (C08_gen_arp_host_lookup nd ip re gw).2.2.1, Option.map_some]
    · simp [genMacStep, hk, hc]
    · simp only [genMacStep, hk, hc, Option.isSome_some, ((C08_gen_arp_router_lookup nd ip re gw false 0).2.2 _ _ _ _).2.2, Option.map_some]
  | none =>
    cases hk : nd.kind
    · simp only [genMacStep, hk, hc, Option.isSome_none, (C08_gen_arp_host_lookup nd ip re gw).1, arpNext]
      cases hostArpNext nd ip re gw <;> simp [ArpNext.toStep]
    · simp [genMacStep, hk, hc, arpNext]
    · simp only [genMacStep, hk, hc, Option.isSome_none, (C08_gen_arp_router_lookup nd ip re gw false 0).1, arpNext]
      cases routerArpNext nd ip re gw true <;> simp [ArpNext.toStep]

/-- **`arpIfc` runs the translated method** (as above; `subnet`: the first interface whose network holds the address). -/
theorem C08_gen_arp_ifc_runs_translated (fuel : Nat) (st : St) (n : Nat) (nd : Node) (ip : Ip) (re gw : Bool)
    (hn : st.node? n = some nd) :
    arpIfc (fuel + 1) st n ip re gw =
      match genIfcStep nd ip re gw with
      | .hit => (st, (nd.arpGet ip).map (·.ifc))
      | .subnet => (st, firstIn nd.ifaces ip 0)
      | .stop => (st, none)
      | .raised => (st.emit (.raised n), none)
      | .go asked again re' gw' => arpIfc fuel (sendArpReq fuel st n asked) n again re' gw' := by
  rw [arpIfc]
  simp only [hn]
  cases hc : nd.arpGet ip with
  | some e =>
    cases hk : nd.kind
    · simp only [genIfcStep, hk, hc, Option.isSome_some, (C08_gen_arp_host_lookup nd ip re gw).2.2.2, Option.map_some]
    · simp [genIfcStep, hk, hc]
    · simp only [genIfcStep, hk, hc, Option.isSome_some, ((C08_gen_arp_router_lookup nd ip re gw false 0).2.2 _ _ _ _).2.1, Option.map_some]
  | none =>
    cases hk : nd.kind
    · simp only [genIfcStep, hk, hc, Option.isSome_none, (C08_gen_arp_host_lookup nd ip re gw).2.1, arpNext]
      cases hostArpNext nd ip re gw <;> simp [ArpNext.toStep]
    · simp [genIfcStep, hk, hc, arpNext]
    · cases hs : firstIn nd.ifaces ip 0 with
      | some i =>
        have h1 := ((C08_gen_arp_router_lookup nd ip re gw false 0).2.2 (bestOf (findBestRoute nd.routes ip)) false
          nd.routes.default.isSome (nd.routes.default.getD 0)).1
        simp only [genIfcStep, hk, hc, hs, Option.isSome_none, Option.isSome_some, h1]
        simp
      | none =>
        simp only [genIfcStep, hk, hc, hs, Option.isSome_none, (C08_gen_arp_router_lookup nd ip re gw false 0).2.1, arpNext]
        cases routerArpNext nd ip re gw false <;> simp [ArpNext.toStep]

/-! ### `add_arp_cache_entry` -/

/-- Gen obligation: `Node.addArp` appends the entry exactly when the translated `add_arp_cache_entry` (with `override` unset, as in
every one of its callers) executes the write, and leaves the node alone otherwise — in particular an existing entry is never
replaced and an own address never cached. -/
theorem C08_gen_arp_add_entry (nd : Node) (ip : Ip) (mac : Mac) (ifc : Nat) :
    nd.addArp ip mac ifc =
      (if G.addEntry (ifaceWithIp nd.ifaces ip).isSome false (nd.arpGet ip).isSome
        then { nd with arp := nd.arp ++ [{ ip := ip, mac := mac, ifc := ifc }] } else nd) ∧ 4 ≤ G.addEntryCallers := by
  refine ⟨?_, by decide⟩
  unfold Node.addArp
  cases (ifaceWithIp nd.ifaces ip).isSome <;> cases (nd.arpGet ip).isSome <;> simp [Gen.ForwardArp.addEntry]

/-! ### `send_arp_request` -/

/-- **`sendArpReq` runs the translated `send_arp_request`**: nothing for a cached address; otherwise the address itself when ANY
interface's network (enabled or not) holds it, else the default gateway, else nothing; then the outbound interface is resolved for
THAT address and the request goes out unless it names the interface's network or broadcast address. -/
theorem C08_gen_arp_send_request (fuel : Nat) (st : St) (n : Nat) (nd : Node) (target : Ip) (hn : st.node? n = some nd) :
    sendArpReq (fuel + 1) st n target =
      match G.sendReqTarget (nd.arpGet target).isSome (firstIn nd.ifaces target 0).isSome nd.gateway.isSome target (nd.gateway.getD 0) with
      | none => st
      | some t =>
        let r := resolveOut fuel st n t
        match r.2 with
        | none => r.1
        | some o =>
          match r.1.iface? n o with
          | none => r.1
          | some oif =>
            if G.sendReqEmits (t == oif.netAddr) (t == oif.bcastAddr) then sendArpPkt fuel r.1 n (.arpReq oif.ip oif.mac t) t else r.1 := by
  rw [sendArpReq]
  simp only [hn]
  cases hc : (nd.arpGet target).isSome
  · cases hs : (firstIn nd.ifaces target 0).isSome
    · cases hg : nd.gateway with
      | none => simp [Gen.ForwardArp.sendReqTarget]
      | some g =>
        simp only [Gen.ForwardArp.sendReqTarget, Gen.ForwardArp.sendReqEmits, Option.isSome_some, Option.getD_some,
          Bool.false_eq_true, if_false, Bool.not_false, if_true]
        rcases resolveOut fuel st n g with ⟨s, o⟩
        cases o with
        | none => rfl
        | some o =>
          simp only []
          cases s.iface? n o with
          | none => rfl
          | some oif => by_cases h1 : g = oif.netAddr <;> by_cases h2 : g = oif.bcastAddr <;> simp [h1, h2]
    · simp only [Gen.ForwardArp.sendReqTarget, Gen.ForwardArp.sendReqEmits, Bool.false_eq_true, if_false, Bool.not_true, if_true]
      rcases resolveOut fuel st n target with ⟨s, o⟩
      cases o with
      | none => rfl
      | some o =>
        simp only []
        cases s.iface? n o with
        | none => rfl
        | some oif => by_cases h1 : target = oif.netAddr <;> by_cases h2 : target = oif.bcastAddr <;> simp [h1, h2]
  · simp [Gen.ForwardArp.sendReqTarget]

/-! ### the request / reply handlers -/

/-- Gen obligation: a host answers an ARP request iff it names the arrival interface's address; a router iff the arrival interface
is enabled and carries the address; a router learns from a reply iff the reply is addressed to the arrival interface — the tests
`hostRecv` / `routerRecv` apply (read off the model below by evaluation on the four cases). -/
theorem C08_gen_arp_handlers :
    (∀ a b, G.hostAnswers a b = a) ∧ (∀ a b, G.routerAnswers a b = (b && a)) ∧ (∀ a b, G.routerLearns a b = a) := by decide

/-! ### non-vacuity: the translated look-ups on a concrete host and router -/

example : G.hostGetMac (5 : Ip) false true 9 false false = .go 5 5 true false := by decide
example : G.hostGetMac (5 : Ip) false true 9 true false = .go 9 9 true true := by decide
example : G.hostGetMac (9 : Ip) false true 9 false false = .go 9 9 true true := by decide
example : G.hostGetMac (5 : Ip) false true 9 true true = .stop := by decide
example : G.routerGetMac (5 : Ip) false false 0 false (.static 7) true 8 false false = .go 7 7 true false := by decide
example : G.routerGetMac (5 : Ip) false false 0 false (.dflt 8) true 8 false false = .go 8 8 true true := by decide
example : G.routerGetIfc (5 : Ip) false false 0 true (.static 7) true 8 false false = .subnet := by decide
example : G.sendReqTarget false false true (5 : Ip) 9 = some 9 := by decide
example : G.sendReqTarget false true true (5 : Ip) 9 = some 5 := by decide
example : G.addEntry false false true = false := by decide

end Primaite.Forward
