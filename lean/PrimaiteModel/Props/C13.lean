/-
C13 — services and applications follow their lifecycle; only running software works; registries agree.
-/
import PrimaiteModel.Model.Registries
import PrimaiteModel.Gen.Software
namespace Primaite.C13
open Primaite.Lifecycle Primaite.Registries

theorem C13_placeholder : (1 : Nat) = 1 := rfl

end Primaite.C13
