/-
C13 — services and applications follow their lifecycle; only running software works; registries agree.

Property theorems (named `C13_*`) about `Model/Lifecycle.lean` (one instance) and `Model/Registries.lean`
(a node's software layer).  Sections:

  1. Gen obligations        the tables regenerated from the source say what the model assumes
  2. lifecycle moves         every event / every node operation moves an instance only along documented transitions
  3. acceptance              a request succeeds exactly in its documented source states; refused ⇒ nothing changes
  4. timing                  restart completes at tick d+1, install at tick max(1,d); ticks only while the node is ON
  5. no TypeError            `apply_timestep` never meets a `None` countdown on reachable states
  6. ports and payloads      open port ⇒ RUNNING owner; payload past the guard ⇒ RUNNING (partial: F-23)
  7. registries              the four registries agree (partial: F-22)
-/
import PrimaiteModel.Model.Registries
import PrimaiteModel.Lemmas.RegistriesRep
import PrimaiteModel.Gen.Software
namespace Primaite.C13
open Primaite.Lifecycle Primaite.Registries

/-! ## 1. Gen obligations -/

/-- enum members and values as in the source -/
theorem C13_gen_enums :
    Gen.Software.SvcStateValues = SvcState.all.map (fun s => (s, s.value)) ∧
    Gen.Software.AppStateValues = AppState.all.map (fun s => (s, s.value)) ∧
    Gen.Software.HealthValues =
      [Health.unused, .good, .fixing, .compromised, .overwhelmed].map (fun h => (h, h.value)) := by decide

/-- defaults the model's structures carry -/
theorem C13_gen_defaults :
    Gen.Software.restartDuration = ({ sw := { actual := .good } } : Svc).dur ∧
    Gen.Software.installDuration = ({ sw := { actual := .good } } : App).dur ∧
    Gen.Software.fixingDuration = ({ actual := .good } : Soft).fixDur ∧
    Gen.Software.svcInitial = ({ sw := { actual := .good } } : Svc).st ∧
    Gen.Software.appInitial = ({ sw := { actual := .good } } : App).st := by decide

/-- what a row of the regenerated guard table says a method does to the operating state and returns -/
def rowSpec {σ} [DecidableEq σ] (row : String × Bool × Option (List σ) × σ × String × String) (st : σ) (nodeOn : Bool) :
    σ × String :=
  let (_, needsOn, sources, target, acc, ref) := row
  if (!needsOn || nodeOn) && (match sources with | none => true | some l => l.contains st) then (target, acc)
  else (st, ref)

def svcMethodEv (nodeOn : Bool) : String → Option SvcEv
  | "start" => some (.start nodeOn) | "stop" => some .stop | "pause" => some .pause | "resume" => some .resume
  | "restart" => some .restart | "disable" => some .disable | "enable" => some .enable | _ => none

def appMethodEv (nodeOn : Bool) : String → Option AppEv
  | "run" => some (.run nodeOn) | "close" => some .close | "install" => some .install | _ => none

def showRet (b : Bool) : String := if b then "True" else "False"

/-- The lifecycle methods of `Service`, as read from the source (guard, source states, target, return values),
are the model's methods — for every service state, every value of the other fields, node ON or not. -/
theorem C13_gen_service_methods (s : Svc) (nodeOn : Bool) :
    ∀ row ∈ Gen.Software.svcMethods, ∃ ev, svcMethodEv nodeOn row.1 = some ev ∧
      ((s.apply ev).1.st, showRet (s.apply ev).2) = rowSpec row s.st nodeOn := by
  intro row hrow
  simp only [Gen.Software.svcMethods, List.mem_cons, List.not_mem_nil, or_false] at hrow
  rcases s with ⟨st, cd, dur, sw⟩
  rcases hrow with rfl | rfl | rfl | rfl | rfl | rfl | rfl <;>
    refine ⟨_, rfl, ?_⟩ <;> cases st <;> cases nodeOn <;> rfl

/-- `Application.run/close/install` as read from the source are the model's (`run`/`install` return `None`,
which the model reports as `true` and never turns into a response). -/
theorem C13_gen_application_methods (a : App) (nodeOn : Bool) :
    ∀ row ∈ Gen.Software.appMethods, ∃ ev, appMethodEv nodeOn row.1 = some ev ∧
      (a.apply ev).1.st = (rowSpec row a.st nodeOn).1 := by
  intro row hrow
  simp only [Gen.Software.appMethods, List.mem_cons, List.not_mem_nil, or_false] at hrow
  rcases a with ⟨st, cd, dur, sw⟩
  rcases hrow with rfl | rfl | rfl <;>
    refine ⟨_, rfl, ?_⟩ <;> cases st <;> cases nodeOn <;> rfl

def SvcReq.name : SvcReq → String
  | .scan => "scan" | .stop => "stop" | .start => "start" | .pause => "pause" | .resume => "resume"
  | .restart => "restart" | .disable => "disable" | .enable => "enable" | .fix => "fix" | .compromise => "compromise"

def AppReq.name : AppReq → String
  | .scan => "scan" | .close => "close" | .execute => "execute" | .fix => "fix" | .compromise => "compromise"

/-- what the route's handler does, as the extractor names it (`execute` is the local handler `self.run()` then
`from_bool(self.operating_state == RUNNING)`; the others are `from_bool(self.<method>())`) -/
def AppReq.handler : AppReq → String
  | .execute => "run-then-RUNNING" | r => AppReq.name r

/-- The routes and validators of `Service._init_request_manager` / `Application._init_request_manager`
(plus the unvalidated `compromise` inherited from `Software`) are the model's request tables, in source order. -/
theorem C13_gen_routes :
    Gen.Software.svcRoutes = (SvcReq.all.filter (· ≠ .compromise)).map (fun r => (SvcReq.name r, r.validator, SvcReq.name r)) ∧
    Gen.Software.appRoutes = (AppReq.all.filter (· ≠ .compromise)).map (fun r => (AppReq.name r, r.validator, AppReq.handler r)) ∧
    ("compromise", "set_health_state(SoftwareHealthState.COMPROMISED)") ∈ Gen.Software.softwareRoutes ∧
    SvcReq.validator .compromise = none ∧ AppReq.validator .compromise = none := by decide

/-- restart: test `<= 0`, then decrement; install: decrement, then test `<= 0` — the idioms `Svc.tick` / `App.tick` implement -/
theorem C13_gen_idioms :
    Gen.Software.restartIdiom = "test-then-decrement" ∧ Gen.Software.installIdiom = "decrement-then-test" := by decide

/-- For every shipped class: its `apply_timestep` chain reaches `Service/Application.apply_timestep`; every `run`
override starts with `super().run()`; applications are registered under their own name (the install request looks
the instance up by the registry key); and no subclass overrides a lifecycle method with different state logic. -/
theorem C13_gen_classes :
    (Gen.Software.classes.all fun (_, name, disc, isApp, _, _, _, _, ticks, runOk, _, _) =>
        ticks && runOk && (!isApp || disc == name)) = true ∧
    Gen.Software.lifecycleOverrides = [] := by decide

/-- **Every `apply_timestep` override below `Software` — of every Service / Application subclass and of the abstract bases in
between — calls `super().apply_timestep(…)` on every path through its body** (no `return` / `raise` in front of it, not only in
one branch, not inside a loop or a `try`): the restart, install and fix countdowns of `Svc.tick` / `App.tick` / `Soft.tick` run
for every class in every state, which is what lets the timing theorems speak about every shipped class.  (The `ticks` column of
`C13_gen_classes` is computed with the same path analysis along each class's own chain.) -/
theorem C13_gen_tick_overrides : Gen.Software.tickOverridesSkippingSuper = [] := by decide

/-- **every shipped class's `receive` begins with the running-guard** (`_can_perform_action` / a `super().receive` chain
that ends in it) — which is why `Node.handles` has no per-class flag (finding F-23, repaired).  A class that loses its
guard, or a new class without one, breaks this obligation. -/
theorem C13_gen_all_guarded : ∀ c ∈ Gen.Software.classes, c.2.2.2.2.2.2.1 ≠ "none" := by decide

/-- `SoftwareManager.install` (finding F-22, repaired): the "already installed" guard is
`class in map and no config`; the only writer of the map is `install` itself (class ↦ name, after the `software` write);
`uninstall` pops the map entry and the port-table entry of the uninstalled name — `Node.installRefused`, `registerSvc/App`,
`uninstall`. -/
theorem C13_gen_install_guard :
    Gen.Software.classMapWriters =
      ["simulator/system/core/software_manager.py:install:self._software_class_to_name_map[software_class] = software.name"] := by decide
-- (round 7: the guard text and the two `uninstall pops …` shape flags are no longer pinned here: `SoftwareManager.install` / `uninstall`
--  are translated statement by statement and proved equal to the model as WHOLE methods — `C13_gen_install_method`,
--  `C13_gen_uninstall_method` in Props/C13Regs.lean)

/-- a PortScanPayload goes to `software["nmap"]` if there is one and is dropped otherwise (`Node.receivers`); the constructor
loads the fixing countdown of software configured FIXING (`Soft.configured`) -/
theorem C13_gen_delivery_and_ctor :
    Gen.Software.portScanDelivery = "nmap-if-installed" ∧ Gen.Software.ctorLoadsFixingCountdown = true := by decide

/-- order of the steps of `SoftwareManager.install` (the installed instance of the name is evicted before any registry
write — `Node.evict`), and the shape of `get_open_ports` -/
theorem C13_gen_install_order :   -- (the statement ORDER of `install` is no hand pin any more: `C13_gen_install_method`, Props/C13Regs.lean)
    Gen.Software.openPortsFromRunningPortMapOwners = true := by decide

def svcStateName : SvcState → String
  | .running => "RUNNING" | .stopped => "STOPPED" | .paused => "PAUSED" | .disabled => "DISABLED"
  | .installing => "INSTALLING" | .restarting => "RESTARTING"
def appStateName : AppState → String
  | .running => "RUNNING" | .closed => "CLOSED" | .installing => "INSTALLING"

/-- docs/source/action_masking.rst: every service / application request documented there needs the node ON and
exactly the software state the route's validator tests. -/
theorem C13_gen_docs :
    ((SvcReq.all.filter (· ≠ .compromise)).all fun r =>
        Gen.Software.docMask.contains ("node-service-" ++ SvcReq.name r, true, r.validator.map svcStateName)) = true ∧
    ((AppReq.all.filter (· ≠ .compromise)).all fun r =>
        Gen.Software.docMask.contains ("node-application-" ++ AppReq.name r, true, r.validator.map appStateName)) = true ∧
    Gen.Software.docMask.contains ("node-application-install", true, none) = true ∧
    Gen.Software.docMask.contains ("node-application-remove", true, none) = true := by decide

/-! ## 2. lifecycle moves -/

/-- The documented transition relation of a service (docstrings of `Service`, masking table, `apply_timestep`):
start, stop (also from PAUSED through the API), pause, resume, restart (also from PAUSED through the API) and its
timed completion, disable (from anywhere), enable. -/
def svcDoc : SvcState → SvcState → Bool
  | .stopped, .running => true       -- start
  | .running, .stopped => true       -- stop
  | .paused, .stopped => true        -- stop (API)
  | .running, .paused => true        -- pause
  | .paused, .running => true        -- resume
  | .running, .restarting => true    -- restart
  | .paused, .restarting => true     -- restart (API)
  | .restarting, .running => true    -- restart completes
  | _, .disabled => true             -- disable
  | .disabled, .stopped => true      -- enable
  | _, _ => false

/-- documented transitions of an application: run, close, install and its timed completion -/
def appDoc : AppState → AppState → Bool
  | .closed, .running => true        -- run
  | .running, .closed => true        -- close
  | .closed, .installing => true     -- install
  | .installing, .running => true    -- install completes
  | _, _ => false

/-- which event may cause which documented move -/
def svcEvDoc : SvcEv → SvcState → SvcState → Bool
  | .start _, .stopped, .running => true
  | .stop, .running, .stopped => true
  | .stop, .paused, .stopped => true
  | .pause, .running, .paused => true
  | .resume, .paused, .running => true
  | .restart, .running, .restarting => true
  | .restart, .paused, .restarting => true
  | .tick, .restarting, .running => true
  | .disable, _, .disabled => true
  | .enable, .disabled, .stopped => true
  | _, _, _ => false

theorem svcEvDoc_sub (e : SvcEv) (a b : SvcState) : svcEvDoc e a b = true → svcDoc a b = true := by
  cases e <;> cases a <;> cases b <;> simp [svcEvDoc, svcDoc]

/-- **Every method of a service either leaves the operating state alone or makes the documented move of that method.** -/
theorem C13_service_event_moves (s : Svc) (e : SvcEv) :
    (s.apply e).1.st = s.st ∨ svcEvDoc e s.st (s.apply e).1.st = true := by
  rcases s with ⟨st, cd, dur, sw⟩
  cases e with
  | start on => cases on <;> cases st <;> simp [Svc.apply, Svc.start, svcEvDoc]
  | tick =>
    cases st <;> cases cd <;> simp [Svc.apply, Svc.tick, svcEvDoc]
    rename_i c
    by_cases h : c ≤ 0
    · simp [h]
    · simp [h]; omega
  | _ => cases st <;> simp [Svc.apply, Svc.stop, Svc.pause, Svc.resume, Svc.restart, Svc.disable, Svc.enable, svcEvDoc]

def appEvDoc : AppEv → AppState → AppState → Bool
  | .run _, .closed, .running => true
  | .close, .running, .closed => true
  | .install, .closed, .installing => true
  | .tick, .installing, .running => true
  | _, _, _ => false

theorem appEvDoc_sub (e : AppEv) (a b : AppState) : appEvDoc e a b = true → appDoc a b = true := by
  cases e <;> cases a <;> cases b <;> simp [appEvDoc, appDoc]

/-- `forceClosed` is the one undocumented write (`SoftwareManager.install` resets a freshly constructed
application to CLOSED); it is never delivered to an installed application (see `C13_no_forceClosed_delivered`). -/
theorem C13_application_event_moves (a : App) (e : AppEv) (he : e ≠ .forceClosed) :
    (a.apply e).1.st = a.st ∨ appEvDoc e a.st (a.apply e).1.st = true := by
  rcases a with ⟨st, cd, dur, sw⟩
  cases e with
  | forceClosed => exact absurd rfl he
  | run on => cases on <;> cases st <;> simp [App.apply, App.run, appEvDoc]
  | tick =>
    cases st <;> cases cd <;> simp [App.apply, App.tick, appEvDoc]
    rename_i c
    by_cases h : c - 1 ≤ 0 <;> simp [h]
  | _ => cases st <;> simp [App.apply, App.close, App.install, appEvDoc]

/-! ### node level: what one operation does to one instance -/

theorem fanSvc_shape (n : Node) (op : Op) :
    n.fanSvc op = [] ∨ n.fanSvc op = [SvcEv.start true] ∨ n.fanSvc op = [SvcEv.stop] := by
  unfold Node.fanSvc; cases n.fan op <;> simp

theorem fanApp_shape (n : Node) (op : Op) :
    n.fanApp op = [] ∨ n.fanApp op = [AppEv.run true] ∨ n.fanApp op = [AppEv.close] := by
  unfold Node.fanApp; cases n.fan op <;> simp

/-- the events one operation delivers to a service: at most one request/API event, or a power fan-out event
(`start` / `stop`) possibly followed by the tick -/
theorem svcEvs_shape (n : Node) (op : Op) (i : SvcInst) :
    (∃ e, n.svcEvs op i = [e]) ∨
    (∃ f, (f = [] ∨ f = [SvcEv.start true] ∨ f = [SvcEv.stop]) ∧
      ∃ t : Bool, n.svcEvs op i = f ++ (if t then [SvcEv.tick] else [])) := by
  have dflt : ∀ op', (if n.services.contains i.m.uid = true then
        n.fanSvc op' ++ (if n.ticks op' = true then [SvcEv.tick] else []) else []) = n.svcEvs op i →
      (∃ e, n.svcEvs op i = [e]) ∨
      (∃ f, (f = [] ∨ f = [SvcEv.start true] ∨ f = [SvcEv.stop]) ∧
        ∃ t : Bool, n.svcEvs op i = f ++ (if t then [SvcEv.tick] else [])) := by
    intro op' h
    right
    by_cases hc : n.services.contains i.m.uid = true
    · rw [if_pos hc] at h
      exact ⟨_, fanSvc_shape n op', n.ticks op', by rw [← h]⟩
    · rw [if_neg hc] at h
      exact ⟨[], Or.inl rfl, false, by rw [← h]; rfl⟩
  cases op with
  | svcReq name r =>
    simp only [Node.svcEvs]
    split
    · split
      · split
        · exact Or.inl ⟨_, rfl⟩
        · exact Or.inr ⟨[], Or.inl rfl, false, rfl⟩
      · exact Or.inr ⟨[], Or.inl rfl, false, rfl⟩
    · exact Or.inr ⟨[], Or.inl rfl, false, rfl⟩
  | svcApi u e =>
    simp only [Node.svcEvs]
    split
    · split <;> exact Or.inl ⟨_, rfl⟩
    · exact Or.inr ⟨[], Or.inl rfl, false, rfl⟩
  | _ => exact dflt _ rfl

/-- applying a fan-out event and then possibly the tick makes at most one documented move -/
theorem svc_fan_tick_moves (s : Svc) (f : List SvcEv) (hf : f = [] ∨ f = [SvcEv.start true] ∨ f = [SvcEv.stop]) (t : Bool) :
    (s.applyAll (f ++ (if t then [SvcEv.tick] else []))).st = s.st ∨
    svcDoc s.st (s.applyAll (f ++ (if t then [SvcEv.tick] else []))).st = true := by
  rcases s with ⟨st, cd, dur, sw⟩
  rcases hf with rfl | rfl | rfl <;> cases t <;> cases st <;> cases cd <;>
    simp [Svc.applyAll, Svc.apply, Svc.start, Svc.stop, Svc.tick, svcDoc] <;>
    (rename_i c; by_cases h : c ≤ 0 <;> simp [h] <;> omega)

/-- **`service_moves ⊆ Doc`.**  Whatever the node state and whatever the operation (requests, API calls, ticks, power
events, install/uninstall of anything, payloads), a service's operating state after the operation is its state
before, or one documented transition away. -/
theorem C13_service_moves (n : Node) (op : Op) (i : SvcInst) :
    (i.s.applyAll (n.svcEvs op i)).st = i.s.st ∨ svcDoc i.s.st (i.s.applyAll (n.svcEvs op i)).st = true := by
  rcases svcEvs_shape n op i with ⟨e, he⟩ | ⟨f, hf, t, ht⟩
  · rw [he]
    rcases C13_service_event_moves i.s e with h | h
    · exact Or.inl h
    · exact Or.inr (svcEvDoc_sub _ _ _ h)
  · rw [ht]; exact svc_fan_tick_moves i.s f hf t

theorem appEvs_shape (n : Node) (op : Op) (i : AppInst) :
    (∃ e, n.appEvs op i = [e] ∧ (e = .forceClosed → ∃ u, op = .appApi u .forceClosed)) ∨
    (∃ f, (f = [] ∨ f = [AppEv.run true] ∨ f = [AppEv.close]) ∧
      ∃ t : Bool, n.appEvs op i = f ++ (if t then [AppEv.tick] else [])) := by
  have dflt : ∀ op', (if n.applications.contains i.m.uid = true then
        n.fanApp op' ++ (if n.ticks op' = true then [AppEv.tick] else []) else []) = n.appEvs op i →
      (∃ e, n.appEvs op i = [e] ∧ (e = .forceClosed → ∃ u, op = .appApi u .forceClosed)) ∨
      (∃ f, (f = [] ∨ f = [AppEv.run true] ∨ f = [AppEv.close]) ∧
        ∃ t : Bool, n.appEvs op i = f ++ (if t then [AppEv.tick] else [])) := by
    intro op' h
    right
    by_cases hc : n.applications.contains i.m.uid = true
    · rw [if_pos hc] at h
      exact ⟨_, fanApp_shape n op', n.ticks op', by rw [← h]⟩
    · rw [if_neg hc] at h
      exact ⟨[], Or.inl rfl, false, by rw [← h]; rfl⟩
  cases op with
  | appReq name r =>
    simp only [Node.appEvs]
    split
    · split
      · split
        · exact Or.inl ⟨_, rfl, by cases r <;> simp [AppReq.ev]⟩
        · exact Or.inr ⟨[], Or.inl rfl, false, rfl⟩
      · exact Or.inr ⟨[], Or.inl rfl, false, rfl⟩
    · exact Or.inr ⟨[], Or.inl rfl, false, rfl⟩
  | appApi u e =>
    simp only [Node.appEvs]
    split
    · split
      · exact Or.inl ⟨_, rfl, by simp⟩
      · exact Or.inl ⟨_, rfl, fun h => ⟨u, by rw [h]⟩⟩
    · exact Or.inr ⟨[], Or.inl rfl, false, rfl⟩
  | _ => exact dflt _ rfl

theorem app_fan_tick_moves (a : App) (f : List AppEv) (hf : f = [] ∨ f = [AppEv.run true] ∨ f = [AppEv.close]) (t : Bool) :
    (a.applyAll (f ++ (if t then [AppEv.tick] else []))).st = a.st ∨
    appDoc a.st (a.applyAll (f ++ (if t then [AppEv.tick] else []))).st = true := by
  rcases a with ⟨st, cd, dur, sw⟩
  rcases hf with rfl | rfl | rfl <;> cases t <;> cases st <;> cases cd <;>
    simp [App.applyAll, App.apply, App.run, App.close, App.tick, appDoc] <;>
    (rename_i c; by_cases h : c - 1 ≤ 0 <;> simp [h])

/-- **`application_moves ⊆ Doc`** for every node state and every operation the code offers
(`forceClosed` is not a method; it only occurs inside `SoftwareManager.install` on the object being constructed). -/
theorem C13_application_moves (n : Node) (op : Op) (i : AppInst) (hop : ∀ u, op ≠ .appApi u .forceClosed) :
    (i.a.applyAll (n.appEvs op i)).st = i.a.st ∨ appDoc i.a.st (i.a.applyAll (n.appEvs op i)).st = true := by
  rcases appEvs_shape n op i with ⟨e, he, hfc⟩ | ⟨f, hf, t, ht⟩
  · rw [he]
    have hne : e ≠ .forceClosed := fun h => by
      obtain ⟨u, hu⟩ := hfc h
      exact hop u hu
    rcases C13_application_event_moves i.a e hne with h | h
    · exact Or.inl h
    · exact Or.inr (appEvDoc_sub _ _ _ h)
  · rw [ht]; exact app_fan_tick_moves i.a f hf t

/-! ### the step function really is "deliver the events" -/

theorem find_map_svc (l : List SvcInst) (u : Nat) (g : SvcInst → Svc) (i : SvcInst)
    (h : l.find? (fun i => i.m.uid == u) = some i) :
    (l.map (fun i => { i with s := g i })).find? (fun i => i.m.uid == u) = some { i with s := g i } := by
  induction l with
  | nil => simp at h
  | cons a t ih =>
    simp only [List.map_cons, List.find?_cons] at h ⊢
    by_cases ha : (a.m.uid == u) = true
    · simp only [ha] at h ⊢
      cases h; rfl
    · simp only [ha] at h ⊢
      exact ih h

theorem find_map_app (l : List AppInst) (u : Nat) (g : AppInst → App) (i : AppInst)
    (h : l.find? (fun i => i.m.uid == u) = some i) :
    (l.map (fun i => { i with a := g i })).find? (fun i => i.m.uid == u) = some { i with a := g i } := by
  induction l with
  | nil => simp at h
  | cons a t ih =>
    simp only [List.map_cons, List.find?_cons] at h ⊢
    by_cases ha : (a.m.uid == u) = true
    · simp only [ha] at h ⊢
      cases h; rfl
    · simp only [ha] at h ⊢
      exact ih h

theorem findSvc_deliver (n : Node) (op : Op) (u : Nat) (i : SvcInst) (h : n.findSvc u = some i) :
    (n.deliverEvs op).findSvc u = some { i with s := i.s.applyAll (n.svcEvs op i) } :=
  find_map_svc n.svcs u (fun i => i.s.applyAll (n.svcEvs op i)) i h

theorem findApp_deliver (n : Node) (op : Op) (u : Nat) (i : AppInst) (h : n.findApp u = some i) :
    (n.deliverEvs op).findApp u = some { i with a := i.a.applyAll (n.appEvs op i) } :=
  find_map_app n.apps u (fun i => i.a.applyAll (n.appEvs op i)) i h

/-- operations that do not fan out deliver nothing to a service unless they address it -/
theorem svcEvs_nil_of_quiet (n : Node) (op : Op) (i : SvcInst)
    (h1 : ∀ name r, op ≠ .svcReq name r) (h2 : ∀ u e, op ≠ .svcApi u e)
    (hf : n.fan op = .none) (ht : n.ticks op = false) : n.svcEvs op i = [] := by
  cases op <;> first
    | exact absurd rfl (h1 _ _)
    | exact absurd rfl (h2 _ _)
    | (simp only [Node.svcEvs, Node.fanSvc, hf, ht]; simp)

theorem appEvs_nil_of_quiet (n : Node) (op : Op) (i : AppInst)
    (h1 : ∀ name r, op ≠ .appReq name r) (h2 : ∀ u e, op ≠ .appApi u e)
    (hf : n.fan op = .none) (ht : n.ticks op = false) : n.appEvs op i = [] := by
  cases op <;> first
    | exact absurd rfl (h1 _ _)
    | exact absurd rfl (h2 _ _)
    | (simp only [Node.appEvs, Node.fanApp, hf, ht]; simp)

theorem svc_applyAll_nil_eta (i : SvcInst) : ({ i with s := i.s.applyAll [] } : SvcInst) = i := rfl

theorem uninstall_heap (n n' : Node) (name : String) (hu : n.uninstall name = some n') :
    n'.svcs = n.svcs ∧ n'.apps = n.apps ∧ n'.next = n.next ∧ n'.power = n.power := by
  unfold Node.uninstall at hu
  split at hu
  · cases hu; exact ⟨rfl, rfl, rfl, rfl⟩
  · split at hu
    · split at hu
      · cases hu; exact ⟨rfl, rfl, rfl, rfl⟩
      · cases hu
    · split at hu
      · split at hu
        · cases hu; exact ⟨rfl, rfl, rfl, rfl⟩
        · cases hu
      · cases hu; exact ⟨rfl, rfl, rfl, rfl⟩

theorem evict_heap (n n1 : Node) (name : String) (h : n.evict name = some n1) :
    n1.svcs = n.svcs ∧ n1.apps = n.apps ∧ n1.next = n.next ∧ n1.power = n.power := by
  unfold Node.evict at h
  split at h
  · exact uninstall_heap n n1 name h
  · cases h; exact ⟨rfl, rfl, rfl, rfl⟩

/-- the object `SoftwareManager.install` constructs for a service class -/
def newSvc (n : Node) (c : Cls) (l : List Nat) (hl : Health) (f : Int) : SvcInst :=
  { m := { uid := n.next, cls := c, listen := l }, s := ((({ sw := Soft.configured hl f } : Svc).start n.isOn).1) }

def newApp (n : Node) (c : Cls) (l : List Nat) (hl : Health) (f : Int) : AppInst :=
  { m := { uid := n.next, cls := c, listen := l },
    a := (if c.ctorRuns then ({ sw := Soft.configured hl f } : App).run n.isOn
          else ({ sw := Soft.configured hl f } : App)).applyAll [.install, .forceClosed] }

/-- an install never touches an existing object: the heap is unchanged (refused) or gets the new object appended -/
theorem installSvc_heap (n n' : Node) (c : Cls) (cfg : Bool) (l : List Nat) (hl : Health) (f : Int)
    (h : n.installSvc c cfg l hl f = some n') :
    (n'.svcs = n.svcs ∨ n'.svcs = n.svcs ++ [newSvc n c l hl f]) ∧ n'.apps = n.apps ∧ n'.power = n.power := by
  unfold Node.installSvc at h
  split at h
  · cases h; exact ⟨Or.inl rfl, rfl, rfl⟩
  · cases he : n.evict c.name with
    | none => simp [he] at h
    | some n1 =>
      obtain ⟨h1, h2, h3, h4⟩ := evict_heap n n1 c.name he
      simp only [he, Option.map_some, Option.some.injEq] at h
      subst h
      refine ⟨Or.inr ?_, h2, h4⟩
      show n1.svcs ++ _ = _
      simp [h1, newSvc, h3, Node.isOn, h4]

theorem installApp_heap (n n' : Node) (c : Cls) (cfg : Bool) (l : List Nat) (hl : Health) (f : Int)
    (h : n.installApp c cfg l hl f = some n') :
    n'.svcs = n.svcs ∧ (n'.apps = n.apps ∨ (n'.apps = n.apps ++ [newApp n c l hl f] ∧ n'.next = n.next + 1)) ∧
      n'.power = n.power := by
  unfold Node.installApp at h
  split at h
  · cases h; exact ⟨rfl, Or.inl rfl, rfl⟩
  · cases he : n.evict c.name with
    | none => simp [he] at h
    | some n1 =>
      obtain ⟨h1, h2, h3, h4⟩ := evict_heap n n1 c.name he
      simp only [he, Option.map_some, Option.some.injEq] at h
      subst h
      refine ⟨h1, Or.inr ⟨?_, ?_⟩, h4⟩
      · show n1.apps ++ _ = _
        simp [h2, newApp, h3, Node.isOn, h4]
      · show n1.next + 1 = _
        rw [h3]

theorem find_append_found {α} (l : List α) (x : α) (p : α → Bool) (i : α) (h : l.find? p = some i) :
    (l ++ [x]).find? p = some i := by
  rw [List.find?_append, h]; rfl

/-- **Refinement.** Unless the operation raises, the service object `u` after `step` is the object before with
exactly the events `svcEvs` applied — for every operation, including installs/uninstalls of other software
(which deliver nothing).  Objects are never destroyed or renamed. -/
theorem C13_step_service (n : Node) (op : Op) (u : Nat) (i : SvcInst) (h : n.findSvc u = some i)
    (hr : (n.step op).2 ≠ .raised) :
    (n.step op).1.findSvc u = some { i with s := i.s.applyAll (n.svcEvs op i) } := by
  have quiet : ∀ n' : Node, n'.svcs = n.svcs → (∀ name r, op ≠ .svcReq name r) → (∀ u e, op ≠ .svcApi u e) →
      n.fan op = .none → n.ticks op = false →
      n'.findSvc u = some { i with s := i.s.applyAll (n.svcEvs op i) } := by
    intro n' hs h1 h2 hf ht
    rw [svcEvs_nil_of_quiet n op i h1 h2 hf ht]
    show n'.svcs.find? _ = _
    rw [hs]; exact h
  have deliv : ∀ n' : Node, n'.svcs = (n.deliverEvs op).svcs →
      n'.findSvc u = some { i with s := i.s.applyAll (n.svcEvs op i) } := by
    intro n' hs
    show n'.svcs.find? _ = _
    rw [hs]; exact findSvc_deliver n op u i h
  cases op with
  | installSvc c cfg l hl f =>
    rw [svcEvs_nil_of_quiet n _ i (by intros; simp) (by intros; simp) rfl rfl]
    simp only [Node.step] at hr ⊢
    cases hi : n.installSvc c cfg l hl f with
    | none => simp [hi] at hr
    | some n' =>
      simp only
      obtain ⟨hs, _, _⟩ := installSvc_heap n n' c cfg l hl f hi
      show n'.svcs.find? _ = _
      rcases hs with hs | hs
      · rw [hs]; exact h
      · rw [hs]; exact find_append_found _ _ _ _ h
  | installApp c cfg l hl f =>
    simp only [Node.step] at hr ⊢
    cases hi : n.installApp c cfg l hl f with
    | none => simp [hi] at hr
    | some n' =>
      simp only
      exact quiet n' (installApp_heap n n' c cfg l hl f hi).1 (by intros; simp) (by intros; simp) rfl rfl
  | uninstall name =>
    simp only [Node.step] at hr ⊢
    cases hu : n.uninstall name with
    | none => simp [hu] at hr
    | some n' =>
      simp only
      refine quiet n' ?_ (by intros; simp) (by intros; simp) rfl rfl
      unfold Node.uninstall at hu
      split at hu
      · cases hu; rfl
      · split at hu
        · split at hu
          · cases hu; rfl
          · cases hu
        · split at hu
          · split at hu
            · cases hu; rfl
            · cases hu
          · cases hu; rfl
  | reqInstall name c =>
    simp only [Node.step] at hr ⊢
    split
    · exact quiet _ rfl (by intros; simp) (by intros; simp) rfl rfl
    · split
      · exact quiet _ rfl (by intros; simp) (by intros; simp) rfl rfl
      · cases c with
        | none => exact quiet _ rfl (by intros; simp) (by intros; simp) rfl rfl
        | some cl =>
          obtain ⟨c, l⟩ := cl
          cases hi : n.installApp c false l .good 2 with
          | none => simp only [hi]; exact quiet _ rfl (by intros; simp) (by intros; simp) rfl rfl
          | some n1 =>
            have hs := (installApp_heap n n1 c false l .good 2 hi).1
            simp only [hi]
            split <;> exact quiet _ hs (by intros; simp) (by intros; simp) rfl rfl
  | reqUninstall name =>
    simp only [Node.step] at hr ⊢
    split
    · exact quiet _ rfl (by intros; simp) (by intros; simp) rfl rfl
    · split
      · exact quiet _ rfl (by intros; simp) (by intros; simp) rfl rfl
      · cases hu : n.uninstall name with
        | none => exfalso; simp_all
        | some n' =>
          simp only
          refine quiet n' ?_ (by intros; simp) (by intros; simp) rfl rfl
          unfold Node.uninstall at hu
          split at hu
          · cases hu; rfl
          · split at hu
            · split at hu
              · cases hu; rfl
              · cases hu
            · split at hu
              · split at hu
                · cases hu; rfl
                · cases hu
              · cases hu; rfl
  | svcReq name r => exact deliv _ rfl
  | appReq name r => exact deliv _ rfl
  | svcApi v e =>
    simp only [Node.step] at hr ⊢
    split
    · split
      · rename_i hraise; simp [*] at hr
      · exact deliv _ rfl
    · rename_i hnone; simp [hnone] at hr
  | appApi v e =>
    simp only [Node.step] at hr ⊢
    split
    · split
      · rename_i hraise; simp [*] at hr
      · exact deliv _ rfl
    · rename_i hnone; simp [hnone] at hr
  | tick =>
    simp only [Node.step] at hr ⊢
    split
    · rename_i hraise; simp [hraise] at hr
    · exact deliv _ rfl
  | powerOn =>
    simp only [Node.step]
    by_cases h0 : n.upDur ≤ 0
    · simp only [h0, if_true]; exact deliv _ rfl
    · simp only [h0, if_false]
      split
      · exact quiet _ rfl (by intros; simp) (by intros; simp) (by simp [Node.fan, h0]) rfl
      · exact quiet _ rfl (by intros; simp) (by intros; simp) (by simp [Node.fan, h0]) rfl
  | powerOff =>
    simp only [Node.step]
    by_cases h0 : n.downDur ≤ 0
    · simp only [h0, if_true]; exact deliv _ rfl
    · simp only [h0, if_false]
      split
      · exact quiet _ rfl (by intros; simp) (by intros; simp) (by simp [Node.fan, h0]) rfl
      · exact quiet _ rfl (by intros; simp) (by intros; simp) (by simp [Node.fan, h0]) rfl
  | reqStartup =>
    simp only [Node.step]
    by_cases hp : n.power = .off
    · by_cases h0 : n.upDur ≤ 0
      · simp only [hp, h0, ne_eq, not_true_eq_false, if_false, if_true]; exact deliv _ rfl
      · simp only [hp, h0, ne_eq, not_true_eq_false, if_false]
        exact quiet _ rfl (by intros; simp) (by intros; simp) (by simp [Node.fan, h0]) rfl
    · simp only [ne_eq, hp, not_false_eq_true, if_true]
      exact quiet _ rfl (by intros; simp) (by intros; simp) (by simp [Node.fan, hp]) rfl
  | reqShutdown =>
    simp only [Node.step]
    by_cases hp : n.power = .on
    · by_cases h0 : n.downDur ≤ 0
      · simp only [hp, h0, ne_eq, not_true_eq_false, if_false, if_true]; exact deliv _ rfl
      · simp only [hp, h0, ne_eq, not_true_eq_false, if_false]
        exact quiet _ rfl (by intros; simp) (by intros; simp) (by simp [Node.fan, h0]) rfl
    · simp only [ne_eq, hp, not_false_eq_true, if_true]
      exact quiet _ rfl (by intros; simp) (by intros; simp) (by simp [Node.fan, hp]) rfl
  | deliver p pr sc => exact quiet _ rfl (by intros; simp) (by intros; simp) rfl rfl
  | frame hd sc =>
    simp only [Node.step]
    split <;> exact quiet _ rfl (by intros; simp) (by intros; simp) rfl rfl
  | send v =>
    simp only [Node.step]
    split <;> exact quiet _ rfl (by intros; simp) (by intros; simp) rfl rfl

theorem find_append_map_app (l : List AppInst) (x : AppInst) (u : Nat) (g : AppInst → App) (i : AppInst)
    (h : l.find? (fun i => i.m.uid == u) = some i) :
    ((l ++ [x]).map (fun i => { i with a := g i })).find? (fun i => i.m.uid == u) = some { i with a := g i } :=
  find_map_app _ u g i (by rw [List.find?_append, h]; rfl)

/-- Refinement for applications (objects created so far have uids below `next`, see `C13_fresh_preserved`). -/
theorem C13_step_application (n : Node) (op : Op) (u : Nat) (i : AppInst) (h : n.findApp u = some i)
    (hfresh : u < n.next) (hr : (n.step op).2 ≠ .raised) :
    (n.step op).1.findApp u = some { i with a := i.a.applyAll (n.appEvs op i) } := by
  have quiet : ∀ n' : Node, n'.apps = n.apps → (∀ name r, op ≠ .appReq name r) → (∀ u e, op ≠ .appApi u e) →
      n.fan op = .none → n.ticks op = false →
      n'.findApp u = some { i with a := i.a.applyAll (n.appEvs op i) } := by
    intro n' hs h1 h2 hf ht
    rw [appEvs_nil_of_quiet n op i h1 h2 hf ht]
    show n'.apps.find? _ = _
    rw [hs]; exact h
  have deliv : ∀ n' : Node, n'.apps = (n.deliverEvs op).apps →
      n'.findApp u = some { i with a := i.a.applyAll (n.appEvs op i) } := by
    intro n' hs
    show n'.apps.find? _ = _
    rw [hs]; exact findApp_deliver n op u i h
  have hfind : n.apps.find? (fun i => i.m.uid == u) = some i := h
  have hiu : i.m.uid = u := by
    have := List.find?_some hfind
    simpa using this
  cases op with
  | installApp c cfg l hl f =>
    rw [appEvs_nil_of_quiet n _ i (by intros; simp) (by intros; simp) rfl rfl]
    simp only [Node.step] at hr ⊢
    cases hi : n.installApp c cfg l hl f with
    | none => simp [hi] at hr
    | some n' =>
      simp only
      obtain ⟨_, hs, _⟩ := installApp_heap n n' c cfg l hl f hi
      show n'.apps.find? _ = _
      rcases hs with hs | ⟨hs, _⟩
      · rw [hs]; exact hfind
      · rw [hs]; exact find_append_found _ _ _ _ hfind
  | installSvc c cfg l hl f =>
    simp only [Node.step] at hr ⊢
    cases hi : n.installSvc c cfg l hl f with
    | none => simp [hi] at hr
    | some n' =>
      simp only
      exact quiet n' (installSvc_heap n n' c cfg l hl f hi).2.1 (by intros; simp) (by intros; simp) rfl rfl
  | uninstall name =>
    simp only [Node.step] at hr ⊢
    cases hu : n.uninstall name with
    | none => simp [hu] at hr
    | some n' =>
      simp only
      refine quiet n' ?_ (by intros; simp) (by intros; simp) rfl rfl
      unfold Node.uninstall at hu
      split at hu
      · cases hu; rfl
      · split at hu
        · split at hu
          · cases hu; rfl
          · cases hu
        · split at hu
          · split at hu
            · cases hu; rfl
            · cases hu
          · cases hu; rfl
  | reqInstall name c =>
    simp only [Node.step] at hr ⊢
    split
    · exact quiet _ rfl (by intros; simp) (by intros; simp) rfl rfl
    · split
      · exact quiet _ rfl (by intros; simp) (by intros; simp) rfl rfl
      · cases c with
        | none => exact quiet _ rfl (by intros; simp) (by intros; simp) rfl rfl
        | some cl =>
          obtain ⟨c, l⟩ := cl
          cases hi : n.installApp c false l .good 2 with
          | none => simp only [hi]; exact quiet _ rfl (by intros; simp) (by intros; simp) rfl rfl
          | some n1 =>
            obtain ⟨_, hs, _⟩ := installApp_heap n n1 c false l .good 2 hi
            have hfind1 : n1.apps.find? (fun i => i.m.uid == u) = some i := by
              rcases hs with hs | ⟨hs, _⟩
              · rw [hs]; exact hfind
              · rw [hs]; exact find_append_found _ _ _ _ hfind
            simp only [hi]
            split
            · rw [appEvs_nil_of_quiet n _ i (by intros; simp) (by intros; simp) rfl rfl]
              show ((n1.apps.map _).find? _) = _
              refine (find_map_app n1.apps u (fun i => if i.m.uid = n.next then i.a.install else i.a) i hfind1).trans ?_
              have hne : ¬ i.m.uid = n.next := by omega
              simp [hne, App.applyAll]
            · rw [appEvs_nil_of_quiet n _ i (by intros; simp) (by intros; simp) rfl rfl]
              exact hfind1
  | reqUninstall name =>
    simp only [Node.step] at hr ⊢
    split
    · exact quiet _ rfl (by intros; simp) (by intros; simp) rfl rfl
    · split
      · exact quiet _ rfl (by intros; simp) (by intros; simp) rfl rfl
      · cases hu : n.uninstall name with
        | none => exfalso; simp_all
        | some n' =>
          simp only
          refine quiet n' ?_ (by intros; simp) (by intros; simp) rfl rfl
          unfold Node.uninstall at hu
          split at hu
          · cases hu; rfl
          · split at hu
            · split at hu
              · cases hu; rfl
              · cases hu
            · split at hu
              · split at hu
                · cases hu; rfl
                · cases hu
              · cases hu; rfl
  | svcReq name r => exact deliv _ rfl
  | appReq name r => exact deliv _ rfl
  | svcApi v e =>
    simp only [Node.step] at hr ⊢
    split
    · split
      · rename_i hraise; simp [*] at hr
      · exact deliv _ rfl
    · rename_i hnone; simp [hnone] at hr
  | appApi v e =>
    simp only [Node.step] at hr ⊢
    split
    · split
      · rename_i hraise; simp [*] at hr
      · exact deliv _ rfl
    · rename_i hnone; simp [hnone] at hr
  | tick =>
    simp only [Node.step] at hr ⊢
    split
    · rename_i hraise; simp [hraise] at hr
    · exact deliv _ rfl
  | powerOn =>
    simp only [Node.step]
    by_cases h0 : n.upDur ≤ 0
    · simp only [h0, if_true]; exact deliv _ rfl
    · simp only [h0, if_false]
      split
      · exact quiet _ rfl (by intros; simp) (by intros; simp) (by simp [Node.fan, h0]) rfl
      · exact quiet _ rfl (by intros; simp) (by intros; simp) (by simp [Node.fan, h0]) rfl
  | powerOff =>
    simp only [Node.step]
    by_cases h0 : n.downDur ≤ 0
    · simp only [h0, if_true]; exact deliv _ rfl
    · simp only [h0, if_false]
      split
      · exact quiet _ rfl (by intros; simp) (by intros; simp) (by simp [Node.fan, h0]) rfl
      · exact quiet _ rfl (by intros; simp) (by intros; simp) (by simp [Node.fan, h0]) rfl
  | reqStartup =>
    simp only [Node.step]
    by_cases hp : n.power = .off
    · by_cases h0 : n.upDur ≤ 0
      · simp only [hp, h0, ne_eq, not_true_eq_false, if_false, if_true]; exact deliv _ rfl
      · simp only [hp, h0, ne_eq, not_true_eq_false, if_false]
        exact quiet _ rfl (by intros; simp) (by intros; simp) (by simp [Node.fan, h0]) rfl
    · simp only [ne_eq, hp, not_false_eq_true, if_true]
      exact quiet _ rfl (by intros; simp) (by intros; simp) (by simp [Node.fan, hp]) rfl
  | reqShutdown =>
    simp only [Node.step]
    by_cases hp : n.power = .on
    · by_cases h0 : n.downDur ≤ 0
      · simp only [hp, h0, ne_eq, not_true_eq_false, if_false, if_true]; exact deliv _ rfl
      · simp only [hp, h0, ne_eq, not_true_eq_false, if_false]
        exact quiet _ rfl (by intros; simp) (by intros; simp) (by simp [Node.fan, h0]) rfl
    · simp only [ne_eq, hp, not_false_eq_true, if_true]
      exact quiet _ rfl (by intros; simp) (by intros; simp) (by simp [Node.fan, hp]) rfl
  | deliver p pr sc => exact quiet _ rfl (by intros; simp) (by intros; simp) rfl rfl
  | frame hd sc =>
    simp only [Node.step]
    split <;> exact quiet _ rfl (by intros; simp) (by intros; simp) rfl rfl
  | send v =>
    simp only [Node.step]
    split <;> exact quiet _ rfl (by intros; simp) (by intros; simp) rfl rfl

/-! ## 3. acceptance -/

/-- documented source states of each service request (masking table; `disable`/`compromise` have no state condition) -/
def svcSources : SvcReq → List SvcState
  | .scan => [.running] | .stop => [.running] | .start => [.stopped] | .pause => [.running]
  | .resume => [.paused] | .restart => [.running] | .enable => [.disabled] | .fix => [.running]
  | .disable => SvcState.all | .compromise => SvcState.all

def appSources : AppReq → List AppState
  | .scan => [.running] | .close => [.running] | .fix => [.running] | .compromise => AppState.all
  | .execute => AppState.all   -- "Node is on." only

/-- the documented sources are the validators of the routes -/
theorem C13_sources_are_validators :
    (∀ r st, st ∈ svcSources r ↔ SvcReq.passes r st = true) ∧ (∀ r st, st ∈ appSources r ↔ AppReq.passes r st = true) := by
  constructor
  · intro r st; cases r <;> cases st <;> simp [svcSources, SvcReq.passes, SvcReq.validator, SvcState.all]
  · intro r st; cases r <;> cases st <;> simp [appSources, AppReq.passes, AppReq.validator, AppState.all]

/-- **A lifecycle request that reached a service on an ON node succeeds iff the service is in a documented source
state of that request** (both directions, every state, every value of the other fields). -/
theorem C13_service_request_accepted_iff (s : Svc) (r : SvcReq) (hr : r ≠ .fix) :
    (s.request r).2 = .success ↔ s.st ∈ svcSources r := by
  rcases s with ⟨st, cd, dur, sw⟩
  cases r <;> first
    | exact absurd rfl hr
    | (cases st <;> simp [Svc.request, SvcReq.passes, SvcReq.validator, SvcReq.ev, Svc.apply, Svc.start, Svc.stop, Svc.pause,
        Svc.resume, Svc.restart, Svc.disable, Svc.enable, Status.ofBool, svcSources, SvcState.all])

/-- `fix` additionally needs something to fix: health GOOD or COMPROMISED (`Software.fix`). -/
theorem C13_service_fix_accepted_iff (s : Svc) :
    (s.request .fix).2 = .success ↔ s.st = .running ∧ (s.sw.actual = .good ∨ s.sw.actual = .compromised) := by
  rcases s with ⟨st, cd, dur, ⟨actual, visible, fixCd, fixDur, fixCount⟩⟩
  cases st <;> cases actual <;>
    simp [Svc.request, SvcReq.passes, SvcReq.validator, SvcReq.ev, Svc.apply, Soft.fix, Status.ofBool]

theorem C13_application_request_accepted_iff (a : App) (r : AppReq) (hr : r ≠ .fix) (hx : r ≠ .execute) :
    (a.request r).2 = .success ↔ a.st ∈ appSources r := by
  rcases a with ⟨st, cd, dur, sw⟩
  cases r <;> first
    | exact absurd rfl hr
    | exact absurd rfl hx
    | (cases st <;> simp [App.request, AppReq.passes, AppReq.validator, AppReq.ev, App.apply, Status.ofBool, appSources, AppState.all])

/-- the generic `execute` opens the application: it succeeds iff the application is RUNNING afterwards, i.e. iff it
was RUNNING or CLOSED (an INSTALLING application cannot be run: `failure`, nothing changes) -/
theorem C13_application_execute_accepted_iff (a : App) :
    (a.request .execute).2 = .success ↔ a.st ≠ .installing := by
  rcases a with ⟨st, cd, dur, sw⟩
  cases st <;> simp [App.request, AppReq.passes, AppReq.validator, AppReq.ev, App.apply, App.run, Status.ofBool]

/-- … and after a successful generic `execute` the application is RUNNING -/
theorem C13_application_execute_runs (a : App) (h : (a.request .execute).2 = .success) :
    (a.request .execute).1.st = .running := by
  rcases a with ⟨st, cd, dur, sw⟩
  revert h
  cases st <;> simp [App.request, AppReq.passes, AppReq.validator, AppReq.ev, App.apply, App.run, Status.ofBool]

theorem C13_application_fix_accepted_iff (a : App) :
    (a.request .fix).2 = .success ↔ a.st = .running ∧ (a.sw.actual = .good ∨ a.sw.actual = .compromised) := by
  rcases a with ⟨st, cd, dur, ⟨actual, visible, fixCd, fixDur, fixCount⟩⟩
  cases st <;> cases actual <;>
    simp [App.request, AppReq.passes, AppReq.validator, AppReq.ev, App.apply, Soft.fix, Status.ofBool]

/-- a refused request changes nothing in the instance -/
theorem C13_service_refused_unchanged (s : Svc) (r : SvcReq) (h : (s.request r).2 ≠ .success) : (s.request r).1 = s := by
  rcases s with ⟨st, cd, dur, ⟨actual, visible, fixCd, fixDur, fixCount⟩⟩
  revert h
  cases r <;> cases st <;>
    simp [Svc.request, SvcReq.passes, SvcReq.validator, SvcReq.ev, Svc.apply, Svc.start, Svc.stop, Svc.pause,
      Svc.resume, Svc.restart, Svc.disable, Svc.enable, Status.ofBool] <;>
    (cases actual <;> simp [Soft.fix])

theorem C13_application_refused_unchanged (a : App) (r : AppReq) (h : (a.request r).2 ≠ .success) : (a.request r).1 = a := by
  rcases a with ⟨st, cd, dur, ⟨actual, visible, fixCd, fixDur, fixCount⟩⟩
  revert h
  cases r <;> cases st <;>
    simp [App.request, AppReq.passes, AppReq.validator, AppReq.ev, App.apply, App.run, Status.ofBool] <;>
    (cases actual <;> simp [Soft.fix])

/-- **Node level, both directions:** the request `[…, 'service', name, r]` answers `success` iff the node is ON, the
name is routed to a service object whose request manager carries the generic routes, and that object is in a
documented source state of `r`.  (Otherwise: `failure` when the node is not ON or the state is wrong,
`unreachable` when nothing is routed under the name.) -/
theorem C13_accepted_iff_source (n : Node) (name : String) (r : SvcReq) (hr : r ≠ .fix) :
    n.svcReqOut name r = .status .success ↔
      n.isOn = true ∧ ∃ u i, dget name n.svcRoutes = some u ∧ n.findSvc u = some i ∧ i.m.cls.baseRoutes = true ∧
        i.s.st ∈ svcSources r := by
  unfold Node.svcReqOut
  cases hon : n.isOn
  · simp
  · cases hd : dget name n.svcRoutes with
    | none => simp
    | some u =>
      cases hf : n.findSvc u with
      | none => simp [hf]
      | some i =>
        cases hb : i.m.cls.baseRoutes
        · simp [hf, hb]
        · simp [hf, hb, C13_service_request_accepted_iff i.s r hr]

theorem C13_application_accepted_iff_source (n : Node) (name : String) (r : AppReq) (hr : r ≠ .fix) (hx : r ≠ .execute) :
    n.appReqOut name r = .status .success ↔
      n.isOn = true ∧ ∃ u i, dget name n.appRoutes = some u ∧ n.findApp u = some i ∧ i.m.cls.baseRoutes = true ∧
        i.a.st ∈ appSources r := by
  unfold Node.appReqOut
  cases hon : n.isOn
  · simp
  · cases hd : dget name n.appRoutes with
    | none => simp
    | some u =>
      cases hf : n.findApp u with
      | none => simp [hf]
      | some i =>
        cases hb : i.m.cls.baseRoutes
        · simp [hf, hb]
        · simp [hf, hb, hx, C13_application_request_accepted_iff i.a r hr hx]

/-- **A refused service request changes nothing** (node level): whenever `[…,'service',name,r]` does not answer `success`
— node not ON, nothing routed, wrong state, or `fix` with nothing to fix — the events it delivers leave every service
object exactly as it was. -/
theorem C13_refused_changes_nothing (n : Node) (name : String) (r : SvcReq) (i : SvcInst)
    (hi : n.findSvc i.m.uid = some i) (h : n.svcReqOut name r ≠ .status .success) :
    i.s.applyAll (n.svcEvs (.svcReq name r) i) = i.s := by
  simp only [Node.svcEvs]
  cases hon : n.isOn
  · rfl
  · cases hd : dget name n.svcRoutes with
    | none => rfl
    | some u =>
      simp only [if_true]
      by_cases hc : u = i.m.uid ∧ i.m.cls.baseRoutes = true ∧ r.passes i.s.st = true
      · rw [if_pos hc]
        obtain ⟨hu, hb, hp⟩ := hc
        have hout : n.svcReqOut name r = .status (i.s.request r).2 := by
          simp [Node.svcReqOut, hon, hd, hu, hi, hb]
        have hne : (i.s.request r).2 ≠ .success := fun hh => h (by rw [hout, hh])
        have := C13_service_refused_unchanged i.s r hne
        simp only [Svc.request, hp, if_true] at this
        simpa [Svc.applyAll] using this
      · rw [if_neg hc]; rfl


/-- **A refused application request changes nothing** (node level; the counterpart of `C13_refused_changes_nothing`): whenever
`[…,'application',name,r]` does not answer `success` — node not ON, nothing routed, wrong state, `fix` with nothing to
fix, the generic `execute` on an INSTALLING application — the events it delivers leave every application object exactly as
it was.  (`unmodelled` = the class registers its own `execute`: that operation is outside this model and excluded.) -/
theorem C13_application_refused_changes_nothing (n : Node) (name : String) (r : AppReq) (i : AppInst)
    (hi : n.findApp i.m.uid = some i) (h : n.appReqOut name r ≠ .status .success) (hx : n.appReqOut name r ≠ .unmodelled) :
    i.a.applyAll (n.appEvs (.appReq name r) i) = i.a := by
  simp only [Node.appEvs]
  cases hon : n.isOn
  · rfl
  · cases hd : dget name n.appRoutes with
    | none => rfl
    | some u =>
      simp only [if_true]
      by_cases hc : u = i.m.uid ∧ i.m.cls.baseRoutes = true ∧ (r = .execute → i.m.cls.genericExecute = true) ∧ r.passes i.a.st = true
      · rw [if_pos hc]
        obtain ⟨hu, hb, hg, hp⟩ := hc
        have hout : n.appReqOut name r = .status (i.a.request r).2 := by
          unfold Node.appReqOut
          simp only [hon, Bool.not_true, Bool.false_eq_true, if_false, hd, hu, hi, hb]
          by_cases hr : r = .execute
          · simp [hr, hg hr]
          · simp [hr]
        have hne : (i.a.request r).2 ≠ .success := fun hh => h (by rw [hout, hh])
        have := C13_application_refused_unchanged i.a r hne
        simp only [App.request, hp, if_true] at this
        cases r <;> simpa [App.applyAll] using this
      · rw [if_neg hc]; rfl

/-- the heap holds one object per uid (true of every reachable node: uids are handed out by a counter) -/
def HeapDistinct (n : Node) : Prop :=
  (∀ i ∈ n.svcs, n.findSvc i.m.uid = some i) ∧ (∀ i ∈ n.apps, n.findApp i.m.uid = some i)

theorem map_id_of_forall {α} (l : List α) (f : α → α) (h : ∀ x ∈ l, f x = x) : l.map f = l := by
  induction l with
  | nil => rfl
  | cons a t ih =>
    simp only [List.map_cons]
    rw [h a (by simp), ih (fun x hx => h x (by simp [hx]))]

/-- **A refused request leaves the WHOLE node as it was** — every service, every application, every registry, the power
state: for service requests and for application requests alike. -/
theorem C13_refused_node_unchanged (n : Node) (hd : HeapDistinct n) (name : String) :
    (∀ r : SvcReq, n.svcReqOut name r ≠ .status .success → (n.step (.svcReq name r)).1 = n) ∧
    (∀ r : AppReq, n.appReqOut name r ≠ .status .success → n.appReqOut name r ≠ .unmodelled →
      (n.step (.appReq name r)).1 = n) := by
  constructor
  · intro r h
    simp only [Node.step, Node.deliverEvs]
    have h1 : n.svcs.map (fun i => { i with s := i.s.applyAll (n.svcEvs (.svcReq name r) i) }) = n.svcs :=
      map_id_of_forall _ _ (fun i hi => by rw [C13_refused_changes_nothing n name r i (hd.1 i hi) h])
    have h2 : n.apps.map (fun i => { i with a := i.a.applyAll (n.appEvs (.svcReq name r) i) }) = n.apps :=
      map_id_of_forall _ _ (fun i _ => by
        rw [appEvs_nil_of_quiet n _ i (by intros; simp) (by intros; simp) rfl rfl]; rfl)
    rw [h1, h2]
  · intro r h hx
    simp only [Node.step, Node.deliverEvs]
    have h1 : n.svcs.map (fun i => { i with s := i.s.applyAll (n.svcEvs (.appReq name r) i) }) = n.svcs :=
      map_id_of_forall _ _ (fun i _ => by
        rw [svcEvs_nil_of_quiet n _ i (by intros; simp) (by intros; simp) rfl rfl]; rfl)
    have h2 : n.apps.map (fun i => { i with a := i.a.applyAll (n.appEvs (.appReq name r) i) }) = n.apps :=
      map_id_of_forall _ _ (fun i hi => by rw [C13_application_refused_changes_nothing n name r i (hd.2 i hi) h hx])
    rw [h1, h2]

/-! ### `HeapDistinct` holds on every reachable node -/

def HeapNodup (n : Node) : Prop := (n.svcs.map (·.m.uid)).Nodup ∧ (n.apps.map (·.m.uid)).Nodup

theorem find_self_of_nodup_svc (l : List SvcInst) (h : (l.map (·.m.uid)).Nodup) (i : SvcInst) (hi : i ∈ l) :
    l.find? (fun j => j.m.uid == i.m.uid) = some i := by
  induction l with
  | nil => cases hi
  | cons a t ih =>
    simp only [List.map_cons, List.nodup_cons] at h
    rcases List.mem_cons.mp hi with rfl | hi
    · exact List.find?_cons_of_pos (by simp)
    · have hne : a.m.uid ≠ i.m.uid := fun he => h.1 (he ▸ List.mem_map.mpr ⟨i, hi, rfl⟩)
      rw [List.find?_cons_of_neg (by simpa using hne)]
      exact ih h.2 hi

theorem find_self_of_nodup_app (l : List AppInst) (h : (l.map (·.m.uid)).Nodup) (i : AppInst) (hi : i ∈ l) :
    l.find? (fun j => j.m.uid == i.m.uid) = some i := by
  induction l with
  | nil => cases hi
  | cons a t ih =>
    simp only [List.map_cons, List.nodup_cons] at h
    rcases List.mem_cons.mp hi with rfl | hi
    · exact List.find?_cons_of_pos (by simp)
    · have hne : a.m.uid ≠ i.m.uid := fun he => h.1 (he ▸ List.mem_map.mpr ⟨i, hi, rfl⟩)
      rw [List.find?_cons_of_neg (by simpa using hne)]
      exact ih h.2 hi

theorem heapDistinct_of_nodup (n : Node) (h : HeapNodup n) : HeapDistinct n :=
  ⟨fun i hi => find_self_of_nodup_svc n.svcs h.1 i hi, fun i hi => find_self_of_nodup_app n.apps h.2 i hi⟩

/-- the uids in the heap after one operation: as before, or with the fresh uid `n.next` appended -/
theorem step_heap_uids (n : Node) (op : Op) :
    ((n.step op).1.svcs.map (·.m.uid) = n.svcs.map (·.m.uid) ∨
      (n.step op).1.svcs.map (·.m.uid) = n.svcs.map (·.m.uid) ++ [n.next]) ∧
    ((n.step op).1.apps.map (·.m.uid) = n.apps.map (·.m.uid) ∨
      (n.step op).1.apps.map (·.m.uid) = n.apps.map (·.m.uid) ++ [n.next]) := by
  have same : ∀ n' : Node, n'.svcs = n.svcs → n'.apps = n.apps →
      (n'.svcs.map (·.m.uid) = n.svcs.map (·.m.uid) ∨ n'.svcs.map (·.m.uid) = n.svcs.map (·.m.uid) ++ [n.next]) ∧
      (n'.apps.map (·.m.uid) = n.apps.map (·.m.uid) ∨ n'.apps.map (·.m.uid) = n.apps.map (·.m.uid) ++ [n.next]) :=
    fun n' h1 h2 => ⟨Or.inl (by rw [h1]), Or.inl (by rw [h2])⟩
  have deliv : ∀ (n' : Node) (o : Op), n'.svcs = (n.deliverEvs o).svcs → n'.apps = (n.deliverEvs o).apps →
      (n'.svcs.map (·.m.uid) = n.svcs.map (·.m.uid) ∨ n'.svcs.map (·.m.uid) = n.svcs.map (·.m.uid) ++ [n.next]) ∧
      (n'.apps.map (·.m.uid) = n.apps.map (·.m.uid) ∨ n'.apps.map (·.m.uid) = n.apps.map (·.m.uid) ++ [n.next]) := by
    intro n' o h1 h2
    refine ⟨Or.inl ?_, Or.inl ?_⟩
    · rw [h1]; simp [Node.deliverEvs, List.map_map, Function.comp_def]
    · rw [h2]; simp [Node.deliverEvs, List.map_map, Function.comp_def]
  cases op with
  | installSvc c cfg l hl f =>
    simp only [Node.step]
    cases hi : n.installSvc c cfg l hl f with
    | none => exact same n rfl rfl
    | some n' =>
      obtain ⟨hs, ha, _⟩ := installSvc_heap n n' c cfg l hl f hi
      refine ⟨?_, Or.inl (by rw [ha])⟩
      rcases hs with hs | hs
      · exact Or.inl (by rw [hs])
      · exact Or.inr (by rw [hs]; simp [newSvc])
  | installApp c cfg l hl f =>
    simp only [Node.step]
    cases hi : n.installApp c cfg l hl f with
    | none => exact same n rfl rfl
    | some n' =>
      obtain ⟨hs, ha, _⟩ := installApp_heap n n' c cfg l hl f hi
      refine ⟨Or.inl (by rw [hs]), ?_⟩
      rcases ha with ha | ⟨ha, _⟩
      · exact Or.inl (by rw [ha])
      · exact Or.inr (by rw [ha]; simp [newApp])
  | uninstall name =>
    simp only [Node.step]
    cases hu : n.uninstall name with
    | none => exact same n rfl rfl
    | some n' =>
      obtain ⟨h1, h2, _, _⟩ := uninstall_heap n n' name hu
      exact same n' h1 h2
  | reqInstall name c =>
    simp only [Node.step]
    split
    · exact same n rfl rfl
    · split
      · exact same n rfl rfl
      · cases c with
        | none => exact same n rfl rfl
        | some cl =>
          obtain ⟨c, l⟩ := cl
          cases hi : n.installApp c false l .good 2 with
          | none => simp only [hi]; exact ⟨Or.inl trivial, Or.inl trivial⟩
          | some n1 =>
            obtain ⟨hs, ha, _⟩ := installApp_heap n n1 c false l .good 2 hi
            simp only [hi]
            have key : (n1.svcs.map (·.m.uid) = n.svcs.map (·.m.uid) ∨ n1.svcs.map (·.m.uid) = n.svcs.map (·.m.uid) ++ [n.next]) ∧
                (n1.apps.map (·.m.uid) = n.apps.map (·.m.uid) ∨ n1.apps.map (·.m.uid) = n.apps.map (·.m.uid) ++ [n.next]) := by
              refine ⟨Or.inl (by rw [hs]), ?_⟩
              rcases ha with ha | ⟨ha, _⟩
              · exact Or.inl (by rw [ha])
              · exact Or.inr (by rw [ha]; simp [newApp])
            split
            · refine ⟨key.1, ?_⟩
              have : (n1.apps.map (fun i => ({ i with a := if i.m.uid = n.next then i.a.install else i.a } : AppInst))).map (·.m.uid) =
                  n1.apps.map (·.m.uid) := by simp [List.map_map, Function.comp_def]
              show (n1.apps.map _).map _ = _ ∨ (n1.apps.map _).map _ = _
              rw [this]; exact key.2
            · exact key
  | reqUninstall name =>
    simp only [Node.step]
    split
    · exact same n rfl rfl
    · split
      · exact same n rfl rfl
      · cases hu : n.uninstall name with
        | none => exact same n rfl rfl
        | some n' =>
          obtain ⟨h1, h2, _, _⟩ := uninstall_heap n n' name hu
          exact same n' h1 h2
  | svcReq name r => exact deliv _ _ rfl rfl
  | appReq name r => exact deliv _ _ rfl rfl
  | svcApi u e =>
    simp only [Node.step]
    split
    · split
      · exact same n rfl rfl
      · exact deliv _ _ rfl rfl
    · exact same n rfl rfl
  | appApi u e =>
    simp only [Node.step]
    split
    · split
      · exact same n rfl rfl
      · exact deliv _ _ rfl rfl
    · exact same n rfl rfl
  | tick =>
    simp only [Node.step]
    split
    · exact same n rfl rfl
    · exact deliv _ .tick rfl rfl
  | powerOn =>
    simp only [Node.step]
    split
    · exact deliv _ .powerOn rfl rfl
    · split <;> exact same _ rfl rfl
  | powerOff =>
    simp only [Node.step]
    split
    · exact deliv _ .powerOff rfl rfl
    · split <;> exact same _ rfl rfl
  | reqStartup =>
    simp only [Node.step]
    split
    · exact same _ rfl rfl
    · split
      · exact deliv _ .reqStartup rfl rfl
      · exact same _ rfl rfl
  | reqShutdown =>
    simp only [Node.step]
    split
    · exact same _ rfl rfl
    · split
      · exact deliv _ .reqShutdown rfl rfl
      · exact same _ rfl rfl
  | deliver p pr sc => exact same _ rfl rfl
  | frame hd sc => simp only [Node.step]; split <;> exact same _ rfl rfl
  | send u => simp only [Node.step]; split <;> exact same _ rfl rfl

theorem nodup_append_fresh (l : List Nat) (k : Nat) (h : l.Nodup) (hlt : ∀ x ∈ l, x < k) : (l ++ [k]).Nodup := by
  rw [List.nodup_append]
  refine ⟨h, by simp, ?_⟩
  intro a ha b hb
  simp only [List.mem_singleton] at hb
  subst hb
  exact Nat.ne_of_lt (hlt a ha)

theorem heapNodup_step (n : Node) (es : List Entry) (hr : Rep n es) (h : HeapNodup n) (op : Op) : HeapNodup (n.step op).1 := by
  obtain ⟨hs, ha⟩ := step_heap_uids n op
  constructor
  · rcases hs with hs | hs
    · rw [hs]; exact h.1
    · rw [hs]
      refine nodup_append_fresh _ _ h.1 ?_
      intro x hx
      obtain ⟨i, hi, rfl⟩ := List.mem_map.mp hx
      exact hr.heapSvcLt i hi
  · rcases ha with ha | ha
    · rw [ha]; exact h.2
    · rw [ha]
      refine nodup_append_fresh _ _ h.2 ?_
      intro x hx
      obtain ⟨i, hi, rfl⟩ := List.mem_map.mp hx
      exact hr.heapAppLt i hi

theorem heapNodup_run (ops : List Op) (n : Node) (es : List Entry) (hr : Rep n es) (h : HeapNodup n) : HeapNodup (n.run ops) := by
  induction ops generalizing n es with
  | nil => exact h
  | cons op ops ih =>
    obtain ⟨es1, h1⟩ := rep_step n es hr op
    exact ih _ es1 h1 (heapNodup_step n es hr h op)

/-- **On every node reachable from the empty one, a refused request — service or application — leaves the whole node as
it was** (`HeapDistinct` is an invariant: uids are handed out by a counter). -/
theorem C13_refused_changes_nothing_reachable (p : Power) (up down : Int) (ops : List Op) (name : String) :
    let n := Node.run { power := p, upDur := up, downDur := down } ops
    (∀ r : SvcReq, n.svcReqOut name r ≠ .status .success → (n.step (.svcReq name r)).1 = n) ∧
    (∀ r : AppReq, n.appReqOut name r ≠ .status .success → n.appReqOut name r ≠ .unmodelled →
      (n.step (.appReq name r)).1 = n) := by
  intro n
  have hn : HeapNodup n := heapNodup_run ops _ [] (C13_rep_init p up down) ⟨by simp, by simp⟩
  exact C13_refused_node_unchanged n (heapDistinct_of_nodup n hn) name

/-- non-vacuity: an INSTALLING application refuses `close` and the generic `execute`, a CLOSED one refuses `scan`; the node is
unchanged each time -/
example :
    let c : Cls := { name := "database-client", port := 5432, proto := 1 }
    let n := ({} : Node).run [.reqInstall "database-client" (some (c, []))]
    n.appReqOut "database-client" .close = .status .failure ∧ n.appReqOut "database-client" .execute = .status .failure ∧
    ((n.step (.appReq "database-client" .execute)).1.findApp 0).map (·.a.st) = some .installing := by decide

/-- non-vacuity: a RUNNING service routed on an ON node accepts `pause`, refuses `start` -/
example :
    let n : Node := ({} : Node).registerSvc { name := "dns-client", port := 53, proto := 1 } [] .good 2
    n.svcReqOut "dns-client" .pause = .status .success ∧ n.svcReqOut "dns-client" .start = .status .failure ∧
    n.svcReqOut "nope" .pause = .status .unreachable := by decide

/-! ## 4. timing -/

/-- while RESTARTING, nothing but `disable` and the tick touches the state or the countdown -/
theorem svc_restarting_inert (s : Svc) (e : SvcEv) (hs : s.st = .restarting) (h1 : e ≠ .disable) (h2 : e ≠ .tick) :
    (s.apply e).1.st = .restarting ∧ (s.apply e).1.cd = s.cd := by
  rcases s with ⟨st, cd, dur, sw⟩
  cases hs
  cases e <;> first
    | exact absurd rfl h1
    | exact absurd rfl h2
    | (rename_i on; cases on <;> simp [Svc.apply, Svc.start])
    | simp [Svc.apply, Svc.stop, Svc.pause, Svc.resume, Svc.restart, Svc.enable]
    | (simp only [Svc.apply]; split; simp)

theorem svc_restarting_tick (s : Svc) (c : Int) (hs : s.st = .restarting) (hc : s.cd = some c) :
    (s.apply .tick).1.cd = some (c - 1) ∧ (s.apply .tick).1.st = (if c ≤ 0 then .running else .restarting) := by
  rcases s with ⟨st, cd, dur, sw⟩
  cases hs; cases hc
  simp [Svc.apply, Svc.tick]

/-- **`restart_timing`.**  A service RESTARTING with countdown `c` (= `restart_duration` at the moment of the restart),
under *any* sequence of events that does not `disable` it: it stays RESTARTING through its first `max(c,0)` ticks,
counting down, whatever else is called on it in between … -/
theorem C13_restart_timing_before (evs : List SvcEv) (s : Svc) (c : Int) (hs : s.st = .restarting) (hc : s.cd = some c)
    (hd : SvcEv.disable ∉ evs) (hk : (evs.count .tick : Int) ≤ max c 0) :
    (s.applyAll evs).st = .restarting ∧ (s.applyAll evs).cd = some (c - evs.count .tick) := by
  induction evs generalizing s c with
  | nil => simp [Svc.applyAll, hs, hc]
  | cons e es ih =>
    simp only [List.mem_cons, not_or] at hd
    by_cases he : e = .tick
    · subst he
      simp only [List.count_cons_self] at hk ⊢
      have hpos : ¬ c ≤ 0 := by omega
      obtain ⟨h1, h2⟩ := svc_restarting_tick s c hs hc
      simp only [hpos, if_false] at h2
      have := ih (s.apply .tick).1 (c - 1) h2 h1 hd.2 (by omega)
      simp only [Svc.applyAll]
      refine ⟨this.1, ?_⟩
      rw [this.2]; congr 1; push_cast; omega
    · have hne : (e == SvcEv.tick) = false := by simpa using he
      simp only [List.count_cons, hne] at hk ⊢
      obtain ⟨h1, h2⟩ := svc_restarting_inert s e hs (fun h => hd.1 h.symm) he
      have := ih (s.apply e).1 c h1 (h2.trans hc) hd.2 (by simpa using hk)
      simp only [Svc.applyAll]
      simpa using this

/-- … and the tick after those, i.e. tick number `max(c,0) + 1` (= `d + 1` for `restart_duration = d ≥ 0`), makes it RUNNING. -/
theorem C13_restart_timing_completes (pre : List SvcEv) (s : Svc) (c : Int) (hs : s.st = .restarting) (hc : s.cd = some c)
    (hd : SvcEv.disable ∉ pre) (hk : (pre.count .tick : Int) = max c 0) :
    (s.applyAll (pre ++ [.tick])).st = .running := by
  obtain ⟨h1, h2⟩ := C13_restart_timing_before pre s c hs hc hd (by omega)
  have happ : ∀ (l : List SvcEv) (s : Svc) (e : SvcEv), s.applyAll (l ++ [e]) = ((s.applyAll l).apply e).1 := by
    intro l; induction l with
    | nil => intro s e; rfl
    | cons a t ih => intro s e; simp only [List.cons_append, Svc.applyAll]; exact ih _ _
  rw [happ]
  obtain ⟨_, h4⟩ := svc_restarting_tick (s.applyAll pre) _ h1 h2
  rw [h4]
  have : c - (pre.count .tick : Int) ≤ 0 := by omega
  simp [this]

/-- non-vacuity and the concrete figure: `restart_duration = 2`: RESTARTING after 2 ticks (with unrelated calls in
between), RUNNING after the 3rd -/
example :
    let s : Svc := ((({ st := .running, dur := 2, sw := { actual := .good } } : Svc).apply .restart).1)
    (s.applyAll [.tick, .pause, .scan, .tick]).st = .restarting ∧ (s.applyAll [.tick, .pause, .scan, .tick, .tick]).st = .running := by
  decide

/-- while INSTALLING, nothing but the tick touches the state or the countdown -/
theorem app_installing_inert (a : App) (e : AppEv) (hs : a.st = .installing) (h1 : e ≠ .forceClosed) (h2 : e ≠ .tick) :
    (a.apply e).1.st = .installing ∧ (a.apply e).1.cd = a.cd := by
  rcases a with ⟨st, cd, dur, sw⟩
  cases hs
  cases e <;> first
    | exact absurd rfl h1
    | exact absurd rfl h2
    | (rename_i on; cases on <;> simp [App.apply, App.run])
    | simp [App.apply, App.close, App.install]
    | (simp only [App.apply]; split; simp)

theorem app_installing_tick (a : App) (c : Int) (hs : a.st = .installing) (hc : a.cd = some c) :
    (a.apply .tick).1.st = (if c - 1 ≤ 0 then .running else .installing) ∧
    (a.apply .tick).1.cd = (if c - 1 ≤ 0 then none else some (c - 1)) ∧
    (c - 1 ≤ 0 → (a.apply .tick).1.sw.actual = .good) := by
  rcases a with ⟨st, cd, dur, sw⟩
  cases hs; cases hc
  by_cases h : c - 1 ≤ 0 <;> simp [App.apply, App.tick, h]

/-- **`install_timing`.**  An application INSTALLING with countdown `c` (= `install_duration`), under any sequence of
method calls: still INSTALLING while fewer than `max(1,c)` ticks have reached it … -/
theorem C13_install_timing_before (evs : List AppEv) (a : App) (c : Int) (hs : a.st = .installing) (hc : a.cd = some c)
    (hd : AppEv.forceClosed ∉ evs) (hk : (evs.count .tick : Int) < max c 1) :
    (a.applyAll evs).st = .installing ∧ (a.applyAll evs).cd = some (c - evs.count .tick) := by
  induction evs generalizing a c with
  | nil => simp [App.applyAll, hs, hc]
  | cons e es ih =>
    simp only [List.mem_cons, not_or] at hd
    by_cases he : e = .tick
    · subst he
      simp only [List.count_cons_self] at hk ⊢
      have hpos : ¬ c - 1 ≤ 0 := by omega
      obtain ⟨h1, h2, _⟩ := app_installing_tick a c hs hc
      simp only [hpos, if_false] at h1 h2
      have := ih (a.apply .tick).1 (c - 1) h1 h2 hd.2 (by omega)
      simp only [App.applyAll]
      refine ⟨this.1, ?_⟩
      rw [this.2]; congr 1; push_cast; omega
    · have hne : (e == AppEv.tick) = false := by simpa using he
      simp only [List.count_cons, hne] at hk ⊢
      obtain ⟨h1, h2⟩ := app_installing_inert a e hs (fun h => hd.1 h.symm) he
      have := ih (a.apply e).1 c h1 (h2.trans hc) hd.2 (by simpa using hk)
      simp only [App.applyAll]
      simpa using this

/-- … and tick number `max(1,c)` makes it RUNNING with health GOOD and the countdown cleared. -/
theorem C13_install_timing_completes (pre : List AppEv) (a : App) (c : Int) (hs : a.st = .installing) (hc : a.cd = some c)
    (hd : AppEv.forceClosed ∉ pre) (hk : (pre.count .tick : Int) = max c 1 - 1) :
    (a.applyAll (pre ++ [.tick])).st = .running ∧ (a.applyAll (pre ++ [.tick])).cd = none ∧
    (a.applyAll (pre ++ [.tick])).sw.actual = .good := by
  obtain ⟨h1, h2⟩ := C13_install_timing_before pre a c hs hc hd (by omega)
  have happ : ∀ (l : List AppEv) (a : App) (e : AppEv), a.applyAll (l ++ [e]) = ((a.applyAll l).apply e).1 := by
    intro l; induction l with
    | nil => intro a e; rfl
    | cons x t ih => intro a e; simp only [List.cons_append, App.applyAll]; exact ih _ _
  rw [happ]
  obtain ⟨h3, h4, h5⟩ := app_installing_tick (a.applyAll pre) _ h1 h2
  have : c - (pre.count .tick : Int) - 1 ≤ 0 := by omega
  simp only [this, if_true] at h3 h4
  exact ⟨h3, h4, h5 this⟩

example :
    let a : App := ((({ st := .closed, dur := 2, sw := { actual := .good } } : App).apply .install).1)
    (a.applyAll [.tick, .scan]).st = .installing ∧ (a.applyAll [.tick, .scan, .tick]).st = .running := by decide

/-- `install_duration = 0` (and negative values) still take one tick: the first tick completes the install -/
example : ((({ st := .closed, dur := 0, sw := { actual := .good } } : App).apply .install).1.applyAll [.tick]).st = .running := by
  decide

/-! ### which node operations deliver a tick / a `disable` / anything at all -/

/-- **Ticks reach a service only from `Node.apply_timestep` while the node is ON after its power countdowns (and the
service is in `node.services`), or from a direct call of its `apply_timestep`**: the countdown is suspended while
the node is not ON. -/
theorem C13_tick_delivered_iff (n : Node) (op : Op) (i : SvcInst) :
    SvcEv.tick ∈ n.svcEvs op i ↔
      (op = .tick ∧ n.services.contains i.m.uid = true ∧ n.powerTick.1 = .on) ∨ op = .svcApi i.m.uid .tick := by
  cases op <;> simp only [Node.svcEvs]
  case svcReq name r =>
    constructor
    · intro h
      split at h
      · split at h
        · split at h
          · simp only [List.mem_singleton] at h; cases r <;> simp [SvcReq.ev] at h
          · simp at h
        · simp at h
      · simp at h
    · simp
  case svcApi u e =>
    constructor
    · intro h
      split at h
      · rename_i hu
        split at h
        · simp at h
        · simp only [List.mem_singleton] at h; subst h; subst hu; exact Or.inr rfl
      · simp at h
    · rintro (h | h)
      · simp at h
      · cases h; simp
  case tick =>
    by_cases hc : n.services.contains i.m.uid = true
    · cases hp : n.powerTick.1 <;> simp [hc, Node.ticks, hp, Node.fanSvc] <;> (cases n.fan .tick <;> simp)
    · have hm : i.m.uid ∉ n.services := by simpa using hc
      simp [hm]
  all_goals
    (simp only [Node.ticks, Node.fanSvc, Node.fan]
     split <;> simp <;> (try split) <;> simp)

/-- **Unrelated requests deliver nothing**: a service request routed to another object (or to nothing, or sent
while the node is not ON) leaves this service without any event; application requests, install/uninstall of
anything, payloads and frames never deliver a service event at all. -/
theorem C13_unrelated_delivers_nothing (n : Node) (i : SvcInst) :
    (∀ name r, dget name n.svcRoutes ≠ some i.m.uid → n.svcEvs (.svcReq name r) i = []) ∧
    (∀ name r, n.svcEvs (.appReq name r) i = []) ∧
    (∀ u e, n.svcEvs (.appApi u e) i = []) ∧
    (∀ c g l h f, n.svcEvs (.installSvc c g l h f) i = [] ∧ n.svcEvs (.installApp c g l h f) i = []) ∧
    (∀ name c, n.svcEvs (.reqInstall name c) i = [] ∧ n.svcEvs (.reqUninstall name) i = [] ∧ n.svcEvs (.uninstall name) i = []) ∧
    (∀ p pr sc h, n.svcEvs (.deliver p pr sc) i = [] ∧ n.svcEvs (.frame h sc) i = []) := by
  refine ⟨?_, ?_, ?_, ?_, ?_, ?_⟩
  · intro name r hne
    simp only [Node.svcEvs]
    split
    · split
      · rename_i u hu
        have : ¬ u = i.m.uid := fun h => hne (h ▸ hu)
        simp [this]
      · rfl
    · rfl
  all_goals (intros; simp [Node.svcEvs, Node.fanSvc, Node.fan, Node.ticks])

/-! ### one node-level timing theorem over `Node.run`

`svcTrace n u ops` is the sequence of lifecycle events that the run `ops`, started in node state `n`, delivers to the
service object `u` (an operation that raises delivers nothing and leaves the node as it was).  `C13_run_service` is the
refinement along a whole run; `C13_node_restart_timing` composes it with the event-level timing theorem and with the
characterisation of the operations that deliver a tick (`C13_tick_delivered_iff`, `ticksTo`). -/

/-- the events operation `op` delivers to service object `u` in node state `n` (none when `op` raises) -/
def svcEvsOf (n : Node) (u : Nat) (op : Op) : List SvcEv :=
  match n.findSvc u with
  | some i => if (n.step op).2 = .raised then [] else n.svcEvs op i
  | none => []

def svcTrace (n : Node) (u : Nat) : List Op → List SvcEv
  | [] => []
  | op :: ops => svcEvsOf n u op ++ svcTrace (n.step op).1 u ops

/-- is a tick delivered to service `u` by `op` in state `n`: `Node.apply_timestep` with the node ON after its power
countdowns and `u` in `node.services`, or `apply_timestep` called on the object itself -/
def tickOp (n : Node) (u : Nat) : Op → Bool
  | .tick => n.services.contains u && (n.powerTick.1 == .on)
  | .svcApi v e => v == u && e == .tick
  | _ => false

def tickTo (n : Node) (u : Nat) (op : Op) : Bool :=
  tickOp n u op && !((n.step op).2 == .raised) && (n.findSvc u).isSome

theorem tickOp_iff (n : Node) (u : Nat) (op : Op) :
    tickOp n u op = true ↔ (op = .tick ∧ n.services.contains u = true ∧ n.powerTick.1 = .on) ∨ op = .svcApi u .tick := by
  cases op <;> simp [tickOp]

/-- number of ticks the run delivers to `u` -/
def ticksTo (n : Node) (u : Nat) : List Op → Nat
  | [] => 0
  | op :: ops => (if tickTo n u op then 1 else 0) + ticksTo (n.step op).1 u ops

/-- an operation that raises leaves every existing service object as it was -/
theorem step_raised_findSvc (n : Node) (op : Op) (u : Nat) (i : SvcInst) (h : n.findSvc u = some i)
    (hr : (n.step op).2 = .raised) : (n.step op).1.findSvc u = some i := by
  have same : ∀ n' : Node, n'.svcs = n.svcs → n'.findSvc u = some i := by
    intro n' hs; show n'.svcs.find? _ = _; rw [hs]; exact h
  cases op with
  | installSvc c cfg l hl f =>
    simp only [Node.step] at hr ⊢
    cases hi : n.installSvc c cfg l hl f with
    | none => exact h
    | some n' => simp [hi] at hr
  | installApp c cfg l hl f =>
    simp only [Node.step] at hr ⊢
    cases hi : n.installApp c cfg l hl f with
    | none => exact h
    | some n' => simp [hi] at hr
  | uninstall name =>
    simp only [Node.step] at hr ⊢
    cases hu : n.uninstall name with
    | none => exact h
    | some n' => simp [hu] at hr
  | reqInstall name c =>
    simp only [Node.step] at hr ⊢
    split
    · exact h
    · split
      · exact h
      · cases c with
        | none => exact h
        | some cl =>
          obtain ⟨c, l⟩ := cl
          cases hi : n.installApp c false l .good 2 with
          | none => simp only [hi]; exact h
          | some n1 =>
            have hs := (installApp_heap n n1 c false l .good 2 hi).1
            simp only [hi]
            split <;> exact same _ hs
  | reqUninstall name =>
    simp only [Node.step] at hr ⊢
    split
    · exact h
    · split
      · exact h
      · cases hu : n.uninstall name with
        | none => exact h
        | some n' => exfalso; simp_all
  | svcReq name r =>
    have hd := findSvc_deliver n (.svcReq name r) u i h
    have hiu : i.m.uid = u := by
      have := List.find?_some h
      simpa using this
    have hnil : n.svcEvs (.svcReq name r) i = [] := by
      simp only [Node.svcEvs]
      split
      · rename_i hon
        split
        · rename_i v hv
          by_cases hvu : v = i.m.uid
          · exfalso
            have hfv : n.findSvc v = some i := by rw [hvu, hiu]; exact h
            revert hr
            simp only [Node.step, Node.svcReqOut, hon, hv, hfv]
            simp
            split <;> simp
          · simp [hvu]
        · rfl
      · rfl
    show (n.deliverEvs _).findSvc u = some i
    rw [hd, hnil]; rfl
  | appReq name r =>
    have hd := findSvc_deliver n (.appReq name r) u i h
    show (n.deliverEvs _).findSvc u = some i
    rw [hd, (C13_unrelated_delivers_nothing n i).2.1 name r]; rfl
  | svcApi v e =>
    cases hf : n.findSvc v with
    | none => simp only [Node.step, hf]; exact h
    | some j =>
      simp only [Node.step, hf] at hr ⊢
      by_cases hcnd : e = SvcEv.tick ∧ (!j.s.tickOk) = true
      · rw [if_pos hcnd]; exact h
      · rw [if_neg hcnd] at hr; simp at hr
  | appApi v e =>
    cases hf : n.findApp v with
    | none => simp only [Node.step, hf]; exact h
    | some j =>
      simp only [Node.step, hf] at hr ⊢
      by_cases hcnd : e = AppEv.tick ∧ (!j.a.tickOk) = true
      · rw [if_pos hcnd]; exact h
      · rw [if_neg hcnd] at hr; simp at hr
  | tick =>
    simp only [Node.step] at hr ⊢
    split
    · exact h
    · rename_i hne; simp [hne] at hr
  | powerOn => exfalso; revert hr; simp only [Node.step]; repeat' split <;> simp
  | powerOff => exfalso; revert hr; simp only [Node.step]; repeat' split <;> simp
  | reqStartup => exfalso; revert hr; simp only [Node.step]; repeat' split <;> simp
  | reqShutdown => exfalso; revert hr; simp only [Node.step]; repeat' split <;> simp
  | deliver p pr sc => exact h
  | frame hd sc => simp only [Node.step]; split <;> exact h
  | send v => simp only [Node.step]; split <;> exact h

theorem svc_applyAll_append (l1 l2 : List SvcEv) (s : Svc) : s.applyAll (l1 ++ l2) = (s.applyAll l1).applyAll l2 := by
  induction l1 generalizing s with
  | nil => rfl
  | cons e t ih => simp only [List.cons_append, Svc.applyAll]; exact ih _

/-- one step, raising or not: the object afterwards is the object before with `svcEvsOf` applied -/
theorem step_service_total (n : Node) (op : Op) (u : Nat) (i : SvcInst) (h : n.findSvc u = some i) :
    (n.step op).1.findSvc u = some { i with s := i.s.applyAll (svcEvsOf n u op) } := by
  unfold svcEvsOf
  rw [h]
  by_cases hr : (n.step op).2 = .raised
  · simp only [hr, if_true]
    exact step_raised_findSvc n op u i h hr
  · simp only [hr, if_false]
    exact C13_step_service n op u i h hr

/-- **Refinement along a whole run.**  For every node state, every service object `u` and EVERY operation sequence
(raising operations included), the object after the run is the object before with exactly `svcTrace` applied. -/
theorem C13_run_service (ops : List Op) (n : Node) (u : Nat) (i : SvcInst) (h : n.findSvc u = some i) :
    (n.run ops).findSvc u = some { i with s := i.s.applyAll (svcTrace n u ops) } := by
  induction ops generalizing n i with
  | nil => exact h
  | cons op ops ih =>
    have h1 := step_service_total n op u i h
    have := ih (n.step op).1 _ h1
    simp only [Node.run, svcTrace]
    rw [this, svc_applyAll_append]

/-- the events one operation delivers: either no tick at all, or some power fan-out events (no tick, no disable) followed
by exactly one tick, which comes last -/
theorem svcEvs_tick_last (n : Node) (op : Op) (i : SvcInst) :
    SvcEv.tick ∉ n.svcEvs op i ∨
    ∃ pre, n.svcEvs op i = pre ++ [SvcEv.tick] ∧ SvcEv.tick ∉ pre ∧ SvcEv.disable ∉ pre := by
  rcases svcEvs_shape n op i with ⟨e, he⟩ | ⟨f, hfs, t, ht⟩
  · by_cases hte : e = .tick
    · exact Or.inr ⟨[], by rw [he, hte]; rfl, by simp, by simp⟩
    · exact Or.inl (by rw [he]; simpa using fun h => hte h.symm)
  · cases t
    · left; rw [ht]; rcases hfs with rfl | rfl | rfl <;> simp
    · right; refine ⟨f, by rw [ht]; rfl, ?_, ?_⟩ <;> rcases hfs with rfl | rfl | rfl <;> simp

/-- the events of one operation contain at most one tick, and exactly when `tickTo` says so -/
theorem count_tick_svcEvsOf (n : Node) (u : Nat) (op : Op) :
    (svcEvsOf n u op).count .tick = if tickTo n u op then 1 else 0 := by
  unfold svcEvsOf tickTo
  cases hf : n.findSvc u with
  | none => simp
  | some i =>
    have hiu : i.m.uid = u := by
      have := List.find?_some hf
      simpa using this
    by_cases hr : (n.step op).2 = .raised
    · simp [hr]
    · have hmem := C13_tick_delivered_iff n op i
      rw [hiu] at hmem
      have hb : tickOp n u op = true ↔ SvcEv.tick ∈ n.svcEvs op i := by
        rw [hmem]; exact tickOp_iff n u op
      have hcnt : (n.svcEvs op i).count .tick = if SvcEv.tick ∈ n.svcEvs op i then 1 else 0 := by
        rcases svcEvs_tick_last n op i with hno | ⟨pre, hp, hpre, _⟩
        · rw [if_neg hno]; exact List.count_eq_zero.mpr hno
        · rw [hp, List.count_append, List.count_eq_zero.mpr hpre]; simp
      simp only [hr, if_false, Option.isSome_some, Bool.and_true, hcnt]
      have hr' : ((n.step op).2 == Out.raised) = false := by simpa using hr
      simp only [hr', Bool.not_false, Bool.and_true]
      by_cases hm : SvcEv.tick ∈ n.svcEvs op i
      · rw [if_pos hm, if_pos (hb.mpr hm)]
      · rw [if_neg hm, if_neg (fun h => hm (hb.mp h))]

theorem count_tick_svcTrace (ops : List Op) (n : Node) (u : Nat) :
    (svcTrace n u ops).count .tick = ticksTo n u ops := by
  induction ops generalizing n with
  | nil => rfl
  | cons op ops ih => simp only [svcTrace, ticksTo, List.count_append, count_tick_svcEvsOf, ih]

/-- **`restart_timing` at node level, one theorem over `Node.run`.**  Service object `u` is RESTARTING with countdown `c`
(`= restart_duration` when the restart was accepted).  For EVERY operation sequence `ops` — requests to this or any other
software, API calls, installs/uninstalls, power events, payloads, raising operations — that never delivers it a `disable`:
* while the run has delivered it at most `max(c,0)` ticks (ticks = `apply_timestep` of the node while it is ON after its
  power countdowns and `u` is in `node.services`, or `apply_timestep` of the object), it is still RESTARTING and its
  countdown is `c −` that number: the restart is suspended while the node is not ON, unaffected by anything else;
* the operation that delivers tick number `max(c,0)+1` makes it RUNNING. -/
theorem C13_node_restart_timing (ops : List Op) (n : Node) (u : Nat) (i : SvcInst) (c : Int)
    (h : n.findSvc u = some i) (hs : i.s.st = .restarting) (hc : i.s.cd = some c)
    (hd : SvcEv.disable ∉ svcTrace n u ops) :
    ((ticksTo n u ops : Int) ≤ max c 0 →
      ∃ j, (n.run ops).findSvc u = some j ∧ j.m = i.m ∧ j.s.st = .restarting ∧ j.s.cd = some (c - ticksTo n u ops)) ∧
    (∀ op, (ticksTo n u ops : Int) = max c 0 → tickTo (n.run ops) u op = true →
      ∃ j, ((n.run ops).step op).1.findSvc u = some j ∧ j.m = i.m ∧ j.s.st = .running) := by
  have hrun := C13_run_service ops n u i h
  have hcount := count_tick_svcTrace ops n u
  constructor
  · intro hk
    obtain ⟨h1, h2⟩ := C13_restart_timing_before (svcTrace n u ops) i.s c hs hc hd (by rw [hcount]; exact hk)
    exact ⟨_, hrun, rfl, h1, by rw [h2, hcount]⟩
  · intro op hk ht
    have hstep := step_service_total (n.run ops) op u _ hrun
    refine ⟨_, hstep, rfl, ?_⟩
    -- the events of `op` are some fan-out events (no tick, no disable) followed by the tick
    have hc1 : (svcEvsOf (n.run ops) u op).count .tick = 1 := by rw [count_tick_svcEvsOf, ht]; rfl
    obtain ⟨pre, hsplit, hpre, hdpre⟩ :
        ∃ pre, svcEvsOf (n.run ops) u op = pre ++ [SvcEv.tick] ∧ SvcEv.tick ∉ pre ∧ SvcEv.disable ∉ pre := by
      unfold svcEvsOf at hc1 ⊢
      rw [hrun] at hc1 ⊢
      simp only at hc1 ⊢
      split at hc1
      · simp at hc1
      · rename_i hnr
        rw [if_neg hnr]
        rcases svcEvs_tick_last (n.run ops) op _ with hno | hyes
        · rw [List.count_eq_zero.mpr hno] at hc1; cases hc1
        · exact hyes
    show (Svc.applyAll _ (svcEvsOf (n.run ops) u op)).st = .running
    rw [hsplit, ← svc_applyAll_append, ← List.append_assoc]
    apply C13_restart_timing_completes (svcTrace n u ops ++ pre) i.s c hs hc
    · simp only [List.mem_append, not_or]; exact ⟨hd, hdpre⟩
    · rw [List.count_append, hcount, List.count_eq_zero.mpr hpre]; simpa using hk

/-- non-vacuity and the concrete figure at node level: dns-client with `restart_duration` 5 (default) on an ON node is
restarted; a shutdown/startup cycle and unrelated operations in between; the ticks delivered while the node is not ON do
not count: RESTARTING as long as at most 5 ticks reached it, RUNNING with the 6th. -/
example :
    let c : Cls := { cid := "DNSClient", name := "dns-client", port := 53, proto := 1 }
    let n0 := ({ upDur := 1, downDur := 1 } : Node).run [.installSvc c true [] .good 2, .svcReq "dns-client" .restart]
    let ops : List Op := [.tick, .svcReq "dns-client" .pause, .reqShutdown, .tick, .tick, .reqStartup, .tick, .tick,
                          .installApp { cid := "NMAP", name := "nmap", port := 0, proto := 0 } false [] .good 2, .tick, .tick, .tick]
    ticksTo n0 0 ops = 5 ∧ ((n0.run ops).findSvc 0).map (·.s.st) = some .restarting ∧
    tickTo (n0.run ops) 0 .tick = true ∧ (((n0.run ops).step .tick).1.findSvc 0).map (·.s.st) = some .running := by decide

/-! ## 5. `apply_timestep` never meets a `None` countdown -/

theorem soft_tick_ok (w : Soft) (h : w.tickOk = true) : w.tick.tickOk = true := by
  rcases w with ⟨actual, visible, fixCd, fixDur, fixCount⟩
  cases actual <;> cases fixCd <;> simp_all [Soft.tick, Soft.tickOk]
  rename_i c
  by_cases hc : c - 1 ≤ 0 <;> simp [hc]

/-- every service method keeps "`apply_timestep` would not raise" -/
theorem svc_tickOk_preserved (s : Svc) (e : SvcEv) (h : s.tickOk = true) : (s.apply e).1.tickOk = true := by
  rcases s with ⟨st, cd, dur, ⟨actual, visible, fixCd, fixDur, fixCount⟩⟩
  cases e with
  | start on => cases on <;> cases st <;> cases cd <;> cases actual <;> cases fixCd <;>
      simp_all [Svc.apply, Svc.start, Svc.tickOk, Soft.tickOk, Soft.goodIfUnused]
  | tick =>
    have hw : (Soft.tick ⟨actual, visible, fixCd, fixDur, fixCount⟩).tickOk = true :=
      soft_tick_ok _ (by simp only [Svc.tickOk, Bool.and_eq_true] at h; exact h.1)
    cases st <;> cases cd <;> simp_all [Svc.apply, Svc.tick, Svc.tickOk]
  | _ => cases st <;> cases cd <;> cases actual <;> cases fixCd <;>
      simp_all [Svc.apply, Svc.stop, Svc.pause, Svc.resume, Svc.restart, Svc.disable, Svc.enable, Svc.tickOk,
        Soft.tickOk, Soft.scan, Soft.fix, Soft.compromise]

theorem app_tickOk_preserved (a : App) (e : AppEv) (h : a.tickOk = true) : (a.apply e).1.tickOk = true := by
  rcases a with ⟨st, cd, dur, ⟨actual, visible, fixCd, fixDur, fixCount⟩⟩
  cases e with
  | run on => cases on <;> cases st <;> cases cd <;> cases actual <;> cases fixCd <;>
      simp_all [App.apply, App.run, App.tickOk, Soft.tickOk, Soft.goodIfUnused]
  | tick =>
    have hw : (Soft.tick ⟨actual, visible, fixCd, fixDur, fixCount⟩).tickOk = true :=
      soft_tick_ok _ (by simp only [App.tickOk, Bool.and_eq_true] at h; exact h.1)
    cases st <;> cases cd <;> simp_all [App.apply, App.tick, App.tickOk]
    rename_i c
    by_cases hc : c - 1 ≤ 0
    · simp [hc, Soft.tickOk]
    · simp [hc, hw]
  | _ => cases st <;> cases cd <;> cases actual <;> cases fixCd <;>
      simp_all [App.apply, App.close, App.install, App.tickOk, Soft.tickOk, Soft.scan, Soft.fix, Soft.compromise]

theorem svc_tickOk_applyAll (evs : List SvcEv) (s : Svc) (h : s.tickOk = true) : (s.applyAll evs).tickOk = true := by
  induction evs generalizing s with
  | nil => exact h
  | cons e es ih => exact ih _ (svc_tickOk_preserved s e h)

theorem app_tickOk_applyAll (evs : List AppEv) (a : App) (h : a.tickOk = true) : (a.applyAll evs).tickOk = true := by
  induction evs generalizing a with
  | nil => exact h
  | cons e es ih => exact ih _ (app_tickOk_preserved a e h)

/-- every object on the node could be ticked without `TypeError` -/
def WellTimed (n : Node) : Prop := (∀ i ∈ n.svcs, i.s.tickOk = true) ∧ (∀ i ∈ n.apps, i.a.tickOk = true)

theorem wellTimed_deliver (n : Node) (op : Op) (h : WellTimed n) : WellTimed (n.deliverEvs op) := by
  constructor
  · intro i hi
    simp only [Node.deliverEvs, List.mem_map] at hi
    obtain ⟨j, hj, rfl⟩ := hi
    exact svc_tickOk_applyAll _ _ (h.1 j hj)
  · intro i hi
    simp only [Node.deliverEvs, List.mem_map] at hi
    obtain ⟨j, hj, rfl⟩ := hi
    exact app_tickOk_applyAll _ _ (h.2 j hj)

theorem wellTimed_of_heap_eq (n n' : Node) (h : WellTimed n) (h1 : n'.svcs = n.svcs) (h2 : n'.apps = n.apps) : WellTimed n' := by
  unfold WellTimed; rw [h1, h2]; exact h

theorem wellTimed_installSvc (n n' : Node) (c cfg l hl f) (h : WellTimed n)
    (hi : n.installSvc c cfg l hl f = some n') : WellTimed n' := by
  obtain ⟨hs, ha, _⟩ := installSvc_heap n n' c cfg l hl f hi
  unfold WellTimed
  rw [ha]
  refine ⟨?_, h.2⟩
  rcases hs with hs | hs
  · rw [hs]; exact h.1
  · rw [hs]
    intro i hi
    simp only [List.mem_append, List.mem_singleton] at hi
    rcases hi with hi | rfl
    · exact h.1 i hi
    · cases hl <;> cases hon : n.isOn <;>
        simp_all [newSvc, Soft.configured, Svc.start, Svc.tickOk, Soft.tickOk, Soft.goodIfUnused]

theorem wellTimed_installApp (n n' : Node) (c cfg l hl f) (h : WellTimed n)
    (hi : n.installApp c cfg l hl f = some n') : WellTimed n' := by
  obtain ⟨hs, ha, _⟩ := installApp_heap n n' c cfg l hl f hi
  unfold WellTimed
  rw [hs]
  refine ⟨h.1, ?_⟩
  rcases ha with ha | ⟨ha, _⟩
  · rw [ha]; exact h.2
  · rw [ha]
    intro i hi
    simp only [List.mem_append, List.mem_singleton] at hi
    rcases hi with hi | rfl
    · exact h.2 i hi
    · apply app_tickOk_applyAll
      cases hl <;> cases n.isOn <;> cases c.ctorRuns <;>
        simp_all [Soft.configured, App.run, App.tickOk, Soft.tickOk, Soft.goodIfUnused]

/-- **Invariant:** no operation produces an object whose `apply_timestep` would raise. -/
theorem C13_wellTimed_preserved (n : Node) (op : Op) (h : WellTimed n) : WellTimed (n.step op).1 := by
  cases op with
  | installSvc c cfg l hl f =>
    simp only [Node.step]
    cases hi : n.installSvc c cfg l hl f with
    | none => exact h
    | some n' => exact wellTimed_installSvc n n' c cfg l hl f h hi
  | installApp c cfg l hl f =>
    simp only [Node.step]
    cases hi : n.installApp c cfg l hl f with
    | none => exact h
    | some n' => exact wellTimed_installApp n n' c cfg l hl f h hi
  | uninstall name =>
    simp only [Node.step]
    cases hu : n.uninstall name with
    | none => exact h
    | some n' => obtain ⟨h1, h2, _⟩ := uninstall_heap n n' name hu; exact wellTimed_of_heap_eq n n' h h1 h2
  | reqUninstall name =>
    simp only [Node.step]
    split
    · exact h
    · split
      · exact h
      · cases hu : n.uninstall name with
        | none => exact h
        | some n' => obtain ⟨h1, h2, _⟩ := uninstall_heap n n' name hu; exact wellTimed_of_heap_eq n n' h h1 h2
  | reqInstall name c =>
    simp only [Node.step]
    split
    · exact h
    · split
      · exact h
      · cases c with
        | none => exact h
        | some cl =>
          obtain ⟨c, l⟩ := cl
          cases hi : n.installApp c false l .good 2 with
          | none => simp only [hi]; exact h
          | some n1 =>
            have h1 := wellTimed_installApp n n1 c false l .good 2 h hi
            simp only [hi]
            split
            · refine ⟨h1.1, ?_⟩
              intro i hi
              simp only [List.mem_map] at hi
              obtain ⟨j, hj, rfl⟩ := hi
              have := h1.2 j hj
              split
              · exact app_tickOk_preserved j.a .install this
              · exact this
            · exact h1
  | svcReq name r => exact wellTimed_deliver n _ h
  | appReq name r => exact wellTimed_deliver n _ h
  | svcApi u e =>
    simp only [Node.step]
    split
    · split
      · exact h
      · exact wellTimed_deliver n _ h
    · exact h
  | appApi u e =>
    simp only [Node.step]
    split
    · split
      · exact h
      · exact wellTimed_deliver n _ h
    · exact h
  | tick =>
    simp only [Node.step]
    split
    · exact h
    · exact wellTimed_of_heap_eq (n.deliverEvs .tick) _ (wellTimed_deliver n _ h) rfl rfl
  | powerOn =>
    simp only [Node.step]
    split
    · exact wellTimed_of_heap_eq (n.deliverEvs .powerOn) _ (wellTimed_deliver n _ h) rfl rfl
    · split <;> exact wellTimed_of_heap_eq n _ h rfl rfl
  | powerOff =>
    simp only [Node.step]
    split
    · exact wellTimed_of_heap_eq (n.deliverEvs .powerOff) _ (wellTimed_deliver n _ h) rfl rfl
    · split <;> exact wellTimed_of_heap_eq n _ h rfl rfl
  | reqStartup =>
    simp only [Node.step]
    split
    · exact h
    · split
      · exact wellTimed_of_heap_eq (n.deliverEvs .reqStartup) _ (wellTimed_deliver n _ h) rfl rfl
      · exact wellTimed_of_heap_eq n _ h rfl rfl
  | reqShutdown =>
    simp only [Node.step]
    split
    · exact h
    · split
      · exact wellTimed_of_heap_eq (n.deliverEvs .reqShutdown) _ (wellTimed_deliver n _ h) rfl rfl
      · exact wellTimed_of_heap_eq n _ h rfl rfl
  | deliver p pr sc => exact h
  | frame hd sc => simp only [Node.step]; split <;> exact h
  | send v => simp only [Node.step]; split <;> exact h

/-- on a well-timed node the tick does not raise -/
theorem wellTimed_tickAllOk (n : Node) (h : WellTimed n) : n.tickAllOk = true := by
  unfold Node.tickAllOk
  simp only [Bool.or_eq_true, Bool.and_eq_true, List.all_eq_true]
  right
  exact ⟨fun i hi => Or.inr (svc_tickOk_applyAll _ _ (h.1 i hi)), fun i hi => Or.inr (app_tickOk_applyAll _ _ (h.2 i hi))⟩

theorem wellTimed_run (ops : List Op) (n : Node) (h : WellTimed n) : WellTimed (n.run ops) := by
  induction ops generalizing n with
  | nil => exact h
  | cons op ops ih => exact ih _ (C13_wellTimed_preserved n op h)

/-- **`Node.apply_timestep` never raises `TypeError`** after any sequence of operations from the empty node (every
install with any configured starting health — FIXING included, whose countdown the constructor now loads —, uninstall,
request, API call, power event, earlier tick …).  No hypothesis on the operations. -/
theorem C13_tick_never_raises (ops : List Op) (n0 : Node) (h0 : n0.svcs = [] ∧ n0.apps = []) :
    ((n0.run ops).step .tick).2 = .done := by
  have hw : WellTimed n0 := by
    unfold WellTimed; rw [h0.1, h0.2]; simp
  have := wellTimed_tickAllOk _ (wellTimed_run ops n0 hw)
  simp [Node.step, this]

/-- software configured `starting_health_state: FIXING` with `fixing_duration` 2: the tick does not raise, and the fix
completes (GOOD, `fixing_count` 1) with the second tick (before the constructor loaded the countdown, the first tick raised) -/
theorem C13_configured_fixing_completes :
    let n := ({} : Node).registerSvc { name := "x", port := 1, proto := 1 } [] .fixing 2
    (n.step .tick).2 = .done ∧
    ((n.run [.tick]).findSvc 0).map (fun i => (i.s.sw.actual, i.s.sw.fixCd)) = some (.fixing, some 1) ∧
    ((n.run [.tick, .tick]).findSvc 0).map (fun i => (i.s.sw.actual, i.s.sw.fixCd, i.s.sw.fixCount)) = some (.good, none, 1) := by
  decide

/-! ## 6. ports and payloads -/

/-- **An open port always has a RUNNING owner**: every port `get_open_ports` reports is the port, or a listening
port, of a RUNNING object that owns a `port_protocol_mapping` entry.  Software that is not running keeps no port open. -/
theorem C13_open_port_has_running_owner (n : Node) (p : Nat) (h : p ∈ n.openPorts) :
    ∃ k u m, (k, u) ∈ n.portMap ∧ n.isRunning u = true ∧ n.metaOf u = some m ∧ (p = m.cls.port ∨ p ∈ m.listen) := by
  unfold Node.openPorts at h
  simp only [List.mem_flatMap] at h
  obtain ⟨⟨k, u⟩, hmem, hp⟩ := h
  by_cases hr : n.isRunning u = true
  · simp only [hr, if_true] at hp
    cases hm : n.metaOf u with
    | none => simp [hm] at hp
    | some m =>
      simp only [hm, List.mem_cons] at hp
      exact ⟨k, u, m, hmem, hr, hm, hp⟩
  · simp [hr] at hp

/-- conversely, a RUNNING object that owns a port-map entry has its port and its listening ports open -/
theorem C13_running_owner_ports_open (n : Node) (k : Nat × Nat) (u : Nat) (m : Meta) (hk : (k, u) ∈ n.portMap)
    (hr : n.isRunning u = true) (hm : n.metaOf u = some m) :
    m.cls.port ∈ n.openPorts ∧ ∀ p ∈ m.listen, p ∈ n.openPorts := by
  unfold Node.openPorts
  simp only [List.mem_flatMap]
  refine ⟨⟨(k, u), hk, by simp [hr, hm]⟩, fun p hp => ⟨(k, u), hk, by simp [hr, hm, hp]⟩⟩

/-- "every RUNNING installed software has its port open" — NOT claimed by C13 and false of the code: two classes with
the same (port, protocol) share one `port_protocol_mapping` slot and only the later-installed one counts. -/
def C13_RunningImpliesOpen : Prop :=
  ∀ ops : List Op, let n := ({} : Node).run ops
    ∀ name u m, (name, u) ∈ n.software → n.isRunning u = true → n.metaOf u = some m → m.cls.port ∈ n.openPorts

/-- web-server (80/tcp, RUNNING) installed before web-browser (80/tcp, CLOSED): port 80 is reported closed -/
theorem C13_running_port_shadowed : ¬ C13_RunningImpliesOpen := by
  intro h
  have := h [.installSvc { name := "web-server", port := 80, proto := 1 } true [] .good 2,
             .installApp { name := "web-browser", port := 80, proto := 1, ctorRuns := true } true [] .good 2]
    "web-server" 0 { uid := 0, cls := { name := "web-server", port := 80, proto := 1 }, listen := [] }
    (by decide) (by decide) (by decide)
  revert this
  decide

/-- **`not_running_no_payload`.**  Whatever is delivered (`receive_payload_from_session_manager` with any port, protocol,
payload kind) in ANY node state: an object gets past its running-guard only if the node is ON and the object is RUNNING.
Full strength since finding F-23 was repaired (every shipped class has the guard: `C13_gen_all_guarded`). -/
theorem C13_payload_guard (n : Node) (port proto : Nat) (scan : Bool) (l : List (Nat × Bool))
    (h : n.deliverOut port proto scan = .recv l) (u : Nat) (hu : (u, true) ∈ l) :
    n.isOn = true ∧ n.isRunning u = true := by
  unfold Node.deliverOut at h
  cases hr : n.receivers port proto scan with
  | none => simp [hr] at h
  | some us =>
    simp only [hr, Out.recv.injEq] at h
    subst h
    simp only [List.mem_map, Prod.mk.injEq] at hu
    obtain ⟨v, _, rfl, hh⟩ := hu
    simpa [Node.handles] using hh

/-- **Delivering a payload never raises**, whatever is installed: a port-scan payload on a node without nmap is dropped
(nobody receives it) — it used to dereference `software.get("nmap")` blindly. -/
theorem C13_deliver_never_raises (n : Node) (port proto : Nat) (scan : Bool) :
    ∃ l, n.deliverOut port proto scan = .recv l ∧
      (scan = true → dget "nmap" n.software = none → l = []) := by
  unfold Node.deliverOut Node.receivers
  cases scan
  · exact ⟨_, rfl, fun h => by cases h⟩
  · cases hd : dget "nmap" n.software with
    | none => exact ⟨[], by simp, fun _ _ => rfl⟩
    | some u => exact ⟨[(u, n.handles u)], by simp, fun _ h => by cases h⟩

/-- the same through `HostNode.receive_frame`: a frame's payload is handled only by RUNNING software on an ON node -/
theorem C13_frame_payload_guard (n : Node) (hd : Hdr) (scan : Bool) (l : List (Nat × Bool))
    (h : (n.step (.frame hd scan)).2 = .recv l) (u : Nat) (hu : (u, true) ∈ l) :
    n.isOn = true ∧ n.isRunning u = true := by
  simp only [Node.step] at h
  split at h
  · exact C13_payload_guard n _ _ scan l h u hu
  · cases h

/-- the statement over whole histories (every node reachable from the empty node by any operation sequence) -/
theorem C13_not_running_no_payload (ops : List Op) (port proto : Nat) (scan : Bool) (l : List (Nat × Bool)) :
    let n := ({} : Node).run ops
    n.deliverOut port proto scan = .recv l → ∀ u, (u, true) ∈ l → n.isOn = true ∧ n.isRunning u = true :=
  fun h u hu => C13_payload_guard _ port proto scan l h u hu

/-- non-vacuity, and the former F-23 witness: terminal STOPPED, an ftp-server listening on 22 is RUNNING; a payload for
22/tcp is handed to both, the STOPPED terminal does not get past its guard, the RUNNING ftp-server does. -/
example :
    (({} : Node).run [.installSvc { name := "terminal", port := 22, proto := 1 } true [] .good 2,
                      .svcReq "terminal" .stop,
                      .installSvc { name := "ftp-server", port := 21, proto := 1 } true [22] .good 2]).deliverOut 22 1 false
      = .recv [(0, false), (1, true)] := by decide

/-- **`send()` leaves the software only while it may act**: `IOSoftware.send` hands the payload to the session manager
(returns True) only if the node is ON and the software RUNNING, and never changes the node's software state. -/
theorem C13_send_guard (n : Node) (u : Nat) :
    (n.step (.send u)).1 = n ∧ ((n.step (.send u)).2 = .ret true → n.isOn = true ∧ n.isRunning u = true) := by
  simp only [Node.step]
  split
  · refine ⟨rfl, fun h => ?_⟩
    simpa [Node.handles] using h
  · exact ⟨rfl, fun h => by cases h⟩

/-- a frame for a closed port is ignored before any software sees it (`HostNode.receive_frame`) -/
theorem C13_frame_closed_port_ignored (n : Node) (h : Hdr) (scan : Bool) (hi : h ≠ .icmp)
    (hp : ∀ p, h.dstPort = some p → p ∉ n.openPorts) (hs : scan = false) :
    n.step (.frame h scan) = (n, .ignored) := by
  have : n.frameAccepted h scan = false := by
    unfold Node.frameAccepted
    subst hs
    cases h with
    | icmp => exact absurd rfl hi
    | tcp p => have := hp p rfl; simp [Hdr.dstPort, this]
    | udp p => have := hp p rfl; simp [Hdr.dstPort, this]
  simp [Node.step, this]

/-- … and an accepted frame is one that is ICMP, or whose port has a RUNNING owner, or a port scan with nmap RUNNING -/
theorem C13_frame_accepted_only_if (n : Node) (h : Hdr) (scan : Bool) (ha : n.frameAccepted h scan = true) :
    h = .icmp ∨ (∃ p, h.dstPort = some p ∧ p ∈ n.openPorts) ∨
    (scan = true ∧ ∃ u i, dget "nmap" n.software = some u ∧ n.findApp u = some i ∧ i.a.st = .running) := by
  unfold Node.frameAccepted at ha
  simp only [Bool.or_eq_true, Bool.and_eq_true, beq_iff_eq] at ha
  rcases ha with (h1 | h2) | h3
  · exact Or.inl h1
  · right; left
    cases hd : h.dstPort with
    | none => simp [hd] at h2
    | some p => exact ⟨p, rfl, by simpa [hd] using h2⟩
  · right; right
    refine ⟨h3.2, ?_⟩
    have h4 := h3.1
    cases hn : dget "nmap" n.software with
    | none => simp [hn] at h4
    | some u =>
      simp only [hn] at h4
      cases hf : n.findApp u with
      | none => simp [hf] at h4
      | some i => exact ⟨u, i, rfl, hf, by simpa [hf] using h4⟩

/-! ## 7. the registries agree

`Rep n es` (Lemmas/RegistriesRep.lean): `software`, `node.services`, `node.applications`, the service routes and the
application routes are the order-preserving projections of ONE list `es` of installed software with distinct names
and distinct objects; every port-map entry belongs to an installed object; every named object exists with that
name and kind.  `rep_step` proves it is kept by every operation under `Op.fresh`, and that `uninstall` never raises. -/

/-- the observer-level statement: the same names in `software_manager.software` as `describe_state` lists
(names of the objects in `node.services` and `node.applications`) -/
def NamesAgree (n : Node) : Prop :=
  ∀ name, name ∈ n.software.map (·.1) ↔ name ∈ (n.services ++ n.applications).filterMap n.nameOf

/-- **`registries_agree`.**  From an empty node, after ANY sequence of operations (installs and uninstalls through the API
and through requests — of anything, installed already or not, with or without a configuration —, requests, API calls, ticks,
power events, payloads): the four registries are projections of one list of installed software; in particular they carry
the same names, the request routes are exactly the names `describe_state` lists, and every port-map entry is owned by an
installed software.  Full strength since finding F-22 was repaired (no freshness hypothesis). -/
theorem C13_registries_agree (p : Power) (up down : Int) (ops : List Op) :
    let n := Node.run { power := p, upDur := up, downDur := down } ops
    (∃ es, Rep n es) ∧ NamesAgree n ∧
    n.svcRoutes.map (·.1) ++ n.appRoutes.map (·.1) = (n.services ++ n.applications).filterMap n.nameOf ∧
    (∀ x ∈ n.portMap, ∃ name, n.nameOf x.2 = some name ∧ (name, x.2) ∈ n.software) := by
  intro n
  obtain ⟨es, h⟩ := rep_run ops _ [] (C13_rep_init p up down)
  obtain ⟨_, h2, h3, h4⟩ := C13_rep_names n es h
  exact ⟨⟨es, h⟩, h3, h2, h4⟩

/-- under agreement `uninstall` cannot hit `remove_request`'s RuntimeError -/
theorem C13_uninstall_never_raises (n : Node) (es : List Entry) (h : Rep n es) (name : String) :
    (n.step (.uninstall name)).2 = .done := by
  obtain ⟨n', hu, _⟩ := rep_uninstall n es h name
  simp [Node.step, hu]

/-- … and neither can an install (whose eviction of the installed instance goes through `uninstall`) -/
theorem C13_install_never_raises (n : Node) (es : List Entry) (h : Rep n es) (c : Cls) (cfg : Bool) (l : List Nat)
    (hl : Health) (f : Int) :
    (n.step (.installSvc c cfg l hl f)).2 = .done ∧ (n.step (.installApp c cfg l hl f)).2 = .done := by
  obtain ⟨n1, _, h1, _⟩ := rep_installSvc n es h c cfg l hl f
  obtain ⟨n2, _, h2, _⟩ := rep_installApp n es h c cfg l hl f
  simp [Node.step, h1, h2]

/-- hence on every node reachable from the empty one, installs and uninstalls never raise -/
theorem C13_install_uninstall_total (p : Power) (up down : Int) (ops : List Op) (op : Op)
    (hop : (∃ c cfg l hl f, op = .installSvc c cfg l hl f) ∨ (∃ c cfg l hl f, op = .installApp c cfg l hl f) ∨
           (∃ name, op = .uninstall name)) :
    ((Node.run { power := p, upDur := up, downDur := down } ops).step op).2 = .done := by
  obtain ⟨es, h⟩ := rep_run ops _ [] (C13_rep_init p up down)
  rcases hop with ⟨c, cfg, l, hl, f, rfl⟩ | ⟨c, cfg, l, hl, f, rfl⟩ | ⟨name, rfl⟩
  · exact (C13_install_never_raises _ es h c cfg l hl f).1
  · exact (C13_install_never_raises _ es h c cfg l hl f).2
  · exact C13_uninstall_never_raises _ es h name

/-- the full statement of the observer-level claim (was refuted before the repair of F-22; now a theorem) -/
def C13_FullRegistries : Prop := ∀ ops : List Op, NamesAgree (({} : Node).run ops)

theorem C13_registries_full : C13_FullRegistries :=
  fun ops => (C13_registries_agree .on 3 3 ops).2.1

/-- The former F-22 witness, now in agreement: a configured install of an installed name REPLACES the instance
(`node.services` holds only the new object); a bare re-install of the class is refused (nothing changes); and after an
uninstall nothing of the name is left anywhere. -/
theorem C13_reinstall_replaces :
    let c : Cls := { cid := "DNSClient", name := "dns-client", port := 53, proto := 1 }
    let n := ({} : Node).run [.installSvc c false [] .good 2, .installSvc c true [] .good 2]
    n.services = [1] ∧ n.software = [("dns-client", 1)] ∧ n.svcRoutes = [("dns-client", 1)] ∧ n.portMap = [((53, 1), 1)] ∧
    n.classMap = [("DNSClient", "dns-client")] ∧
    (n.step (.installSvc c false [] .good 2)).1.services = [1] ∧
    ((n.step (.uninstall "dns-client")).1.services = [] ∧ (n.step (.uninstall "dns-client")).1.software = [] ∧
     (n.step (.uninstall "dns-client")).1.classMap = []) := by decide

/-- two classes that share a name (HostARP / RouterARP: "arp"): the second replaces the first even without a configuration -/
example :
    let n := ({} : Node).run [.installSvc { cid := "HostARP", name := "arp", port := 219, proto := 2 } false [] .good 2,
                              .installSvc { cid := "RouterARP", name := "arp", port := 219, proto := 2 } false [] .good 2]
    n.services = [1] ∧ n.software = [("arp", 1)] ∧ n.classMap = [("RouterARP", "arp")] := by decide

end Primaite.C13
