/-
C18, continued — *which* frames are accounted on a wired link.

In `Model/Link.lean` the answer of the far interface's `receive_frame` is an input (`acc`).  Here it is computed by the
acceptance model of C08 (`Model/Forward.lean`, read-only): the interface is enabled, the TTL survives the decrement, and the
interface kind's addressing test holds (`hostAccepts` / `routerAccepts`; a switch port takes everything).  The rig compares
`farAnswer` with what the real `receive_frame` answered for every frame that crossed a wired link.
-/
import PrimaiteModel.Model.LinkAccept
import PrimaiteModel.Props.C18

namespace Primaite.Link
open Primaite.Forward (hostAccepts routerAccepts)

/-- Tie to C08's model: when `farAnswer` is false on an enabled interface, C08's `ifaceRecv` does what the code does on the
`return False` paths — it logs the reception, decrements the TTL and stops: the node is not involved, nothing is sent. -/
theorem C18_farAnswer_false_is_C08_refusal (fuel : Nat) (st : Forward.St) (n i : Nat) (f : Forward.Frame)
    (nd : Forward.Node) (ifc : Forward.Iface) (hn : st.node? n = some nd) (hi : st.iface? n i = some ifc)
    (hen : ifc.enabled = true) (h : farAnswer nd ifc f = false) :
    Forward.ifaceRecv (fuel + 1) st n i f = (st.emit (.rx n i f.id f.ttl), f.dec) := by
  unfold farAnswer at h
  rw [Forward.ifaceRecv]
  simp only [hn, hi]
  by_cases httl : f.dec.ttl < 1
  · simp [httl]
  · simp only [httl, if_false]
    cases hk : nd.kind with
    | host => simp_all
    | router => simp_all
    | switch => simp_all

theorem set_self_eq (n : Net) (k : Nat) (l : Link) (hl : n.links[k]? = some l) :
    ({ n with links := n.links.set k { l with load := l.load + 0 } } : Net) = n := by
  obtain ⟨hlt, hget⟩ := List.getElem?_eq_some_iff.mp hl
  have : ({ l with load := l.load + 0 } : Link) = l := by cases l; rfl
  rw [this]
  subst hget
  simp

/-- **A frame that crossed the wire is accounted iff the far interface takes it.** On an up link with room for the frame:
* if the far interface refuses it (TTL exhausted, or not addressed to it — C08's acceptance test), the whole network state,
  every load included, is as before, nothing nested runs and the single record says `rejected`;
* if it accepts, the frame is `carried` and its size stays on the link: the load has grown by at least `s` when `send_frame`
  returns (exactly `s` plus what was carried over the same link during the delivery, `runEv_accounts`). -/
theorem C18_accounted_iff_accepted (n : Net) (k : Nat) (fromA : Bool) (s : Nat) (nested : List Ev) (l : Link)
    (nd : Forward.Node) (ifc : Forward.Iface) (f : Forward.Frame)
    (hl : n.links[k]? = some l) (hup : l.isUp = true) (hfit : l.load + s ≤ l.bw) :
    (farAnswer nd ifc f = false →
      (runEv n (.send k fromA s (farAnswer nd ifc f) nested)).1 = n ∧
      ∃ r, (runEv n (.send k fromA s (farAnswer nd ifc f) nested)).2 = [r] ∧ r.verdict = .rejected ∧ r.load = l.load) ∧
    (farAnswer nd ifc f = true →
      loadOf n k + s ≤ loadOf (runEv n (.send k fromA s (farAnswer nd ifc f) nested)).1 k ∧
      ∃ r ∈ (runEv n (.send k fromA s (farAnswer nd ifc f) nested)).2, r.verdict = .carried ∧ r.size = s ∧ r.k = k ∧
        r.wireless = false) := by
  have hS : (if fromA then l.enA else l.enB) = true := by
    unfold Link.isUp at hup; cases fromA <;> simp_all
  have hadm : admits l.load s l.bw = true := by simp [admits]; exact hfit
  constructor
  · intro hacc
    rw [hacc]
    have hself : ({ n with links := n.links.set k { l with load := l.load + s - s } } : Net) = n := by
      have : l.load + s - s = l.load + 0 := by omega
      rw [this]; exact set_self_eq n k l hl
    unfold runEv
    simp only [hl, hS, hup, hadm, Bool.not_true, Bool.false_eq_true, if_false]
    rw [hself]
    exact ⟨rfl, _, rfl, rfl, by simp [loadOf, hl]⟩
  · intro hacc
    rw [hacc]
    have hacct := runEv_accounts n (.send k fromA s true nested) k
    constructor
    · rw [hacct]
      unfold runEv
      simp only [hl, hS, hup, hadm, Bool.not_true, Bool.false_eq_true, if_false, if_true]
      rw [carriedOn_append]
      simp [carriedOn, Rec.carriedBy, Verdict.loaded]
    · unfold runEv
      simp only [hl, hS, hup, hadm, Bool.not_true, Bool.false_eq_true, if_false, if_true]
      exact ⟨_, List.mem_append_right _ (List.mem_singleton.mpr rfl), rfl, rfl, rfl, rfl⟩

/-- A wireless access point answers exactly like a router interface. -/
theorem C18_wap_answers_like_a_router_interface (own : List Ip) (ifc : Forward.Iface) (f : Forward.Frame) :
    farAnswerWap ifc f = farAnswer (farNode .router own) ifc f := by
  simp [farAnswerWap, farAnswer, farNode]

/-- a host NIC refuses a unicast frame for another MAC (a flooded frame): the link's state is untouched -/
example :
    let nd : Forward.Node := { kind := .host, ifaces := [{ mac := 5, ip := 0xC0A80002#32, plen := 24, enabled := true }] }
    let ifc : Forward.Iface := { mac := 5, ip := 0xC0A80002#32, plen := 24, enabled := true }
    let other : Forward.Frame := { id := 0, srcMac := 7, dstMac := 6, srcIp := 0xC0A80003#32, dstIp := 0xC0A80004#32, ttl := 64, pl := .dataReq }
    let mine : Forward.Frame := { other with dstMac := 5, dstIp := 0xC0A80002#32 }
    let dead : Forward.Frame := { mine with ttl := 1 }
    farAnswer nd ifc other = false ∧ farAnswer nd ifc mine = true ∧ farAnswer nd ifc dead = false := by decide

end Primaite.Link
