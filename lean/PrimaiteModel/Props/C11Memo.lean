/-
C11 — a mask entry is a function of (tree, truth of every rule on the path FOR THIS REQUEST'S OPTIONS) and of nothing else.

Class closed here (seeded C11-g): mask computation that shares guard verdicts between the entries of one mask.  One rule OBJECT
often serves every child of a component (the `folder` edge of a file system, the `file` edge of a folder) and reads the child's
NAME from the request options; a verdict remembered per edge then belongs to whichever sibling came first in the action map.

* `C11_memo_sound_of_option_free`  : a per-edge memo computes the right mask for EVERY tree / action map, PROVIDED every rule
                                     ignores its options;
* `C11_memo_counterexample`        : with a name-reading rule (two files of one folder, one deleted) it does not;
* `C11_gen_option_free_rules` / `C11_gen_option_reading_rules` : which of the code's rules (the regenerated translation of
                                     every `RequestPermissionValidator.__call__`, Gen/RequestValidators.lean) are which.
-/
import PrimaiteModel.Model.Mask
import PrimaiteModel.Model.RequestGuards
import PrimaiteModel.Gen.RequestValidators
import PrimaiteModel.Gen.RequestSchema
import PrimaiteModel.Props.C11
namespace Primaite.Request
open Primaite.Mask

/-- every rule ignores the options it is handed -/
def OptionFree (env : Env) : Prop := ∀ v a a', env v a = env v a'

/-- every remembered verdict is the rule's truth (for whatever options) -/
def MemoOK (env : Env) (m : Memo) : Prop := ∀ v b, memoGet m v = some b → ∀ a, env v a = b

theorem MemoOK.nil (env : Env) : MemoOK env [] := by
  intro v b h; simp [memoGet] at h

theorem MemoOK.cons {env : Env} {m : Memo} (hf : OptionFree env) (hm : MemoOK env m) (v : VId) (a : List Key) :
    MemoOK env ((v, env v a) :: m) := by
  intro v' b h a'
  simp only [memoGet] at h
  by_cases hv : v' = v
  · subst hv
    simp only [if_true] at h
    cases h
    exact hf v' a' a
  · simp only [hv, if_false] at h
    exact hm v' b h a'

/-- with option-free rules and a truthful memo, the memoised traversal answers what `check_valid` answers and leaves a truthful
memo — for every tree, every request, every memo content -/
theorem checkValidMemoK_sound (env : Env) (hf : OptionFree env) (p : List Key) :
    ∀ (kids : Kids) (m : Memo), MemoOK env m →
      (checkValidMemoK env kids p m).1 = checkValidK env kids p ∧ MemoOK env (checkValidMemoK env kids p m).2 := by
  induction p with
  | nil => intro kids m hm; exact ⟨by simp [checkValidMemoK, checkValidK], by simpa [checkValidMemoK] using hm⟩
  | cons k rest ih =>
    intro kids m hm
    simp only [checkValidMemoK, checkValidK]
    cases hl : lookup k kids with
    | none => exact ⟨rfl, hm⟩
    | some vs =>
      obtain ⟨v, sub⟩ := vs
      simp only []
      cases hg : memoGet m v with
      | some b =>
        have hb : env v rest = b := hm v b hg rest
        simp only [hb]
        cases b with
        | false => exact ⟨by simp, hm⟩
        | true =>
          cases sub with
          | leaf h => exact ⟨by simp, hm⟩
          | node kids' => simpa using ih kids' m hm
      | none =>
        cases hb : env v rest with
        | false =>
          refine ⟨by simp, ?_⟩
          have := MemoOK.cons hf hm v rest
          simpa [hb] using this
        | true =>
          have hm' : MemoOK env ((v, true) :: m) := by
            have := MemoOK.cons hf hm v rest
            simpa [hb] using this
          cases sub with
          | leaf h => exact ⟨by simp, by simpa using hm'⟩
          | node kids' => simpa using ih kids' ((v, true) :: m) hm'

/-- **Sharing verdicts between the entries of one mask is sound exactly under option-freeness** (this direction: for every tree,
every `form_request`, every action map in any listing order — the memoised mask IS the mask). -/
theorem C11_memo_sound_of_option_free {α} (env : Env) (hf : OptionFree env) (kids : Kids) (form : α → List Key)
    (amap : List (Nat × α)) :
    actionMaskMemo env kids form amap = actionMask (fun a => checkValidK env kids (form a)) amap := by
  unfold actionMaskMemo actionMask
  suffices h : ∀ (l : List (Nat × α)) (st : Option (List Bool)) (m : Memo), MemoOK env m →
      (l.foldl (putBitMemo env kids form) (st, m)).1 = l.foldl (putBit (fun a => checkValidK env kids (form a))) st from
    h amap _ [] (MemoOK.nil env)
  intro l
  induction l with
  | nil => intro st m _; rfl
  | cons e t ih =>
    intro st m hm
    obtain ⟨h1, h2⟩ := checkValidMemoK_sound env hf (form e.2) kids m hm
    simp only [List.foldl_cons, putBitMemo]
    rw [ih _ _ h2]
    congr 1
    cases st with
    | none => rfl
    | some l => simp only [putBit, h1]

/-- the per-edge memo is one instance of a state threaded through the mask loop -/
theorem actionMaskMemo_eq_stateful {α} (env : Env) (kids : Kids) (form : α → List Key) (amap : List (Nat × α)) :
    actionMaskMemo env kids form amap = (actionMaskSt (fun m a => checkValidMemoK env kids (form a) m) [] amap).1 := rfl

/-- **General form of the class**: a mask computed with ANY state threaded through its loop — a cache, something kept from the
previous step's mask (`s0` arbitrary) — is the mask, for every action map, as soon as there is an invariant of the state under
which each verdict is the stateless one and which every evaluation keeps.  (The converse is what the counterexample below and the
sibling-divergence rig are for: where no such invariant exists some map and state show the difference.) -/
theorem C11_stateful_mask_eq_of_transparent {α σ} (valid : α → Bool) (validSt : σ → α → Bool × σ) (Inv : σ → Prop)
    (h : ∀ s a, Inv s → (validSt s a).1 = valid a ∧ Inv (validSt s a).2) (s0 : σ) (h0 : Inv s0) (amap : List (Nat × α)) :
    (actionMaskSt validSt s0 amap).1 = actionMask valid amap ∧ Inv (actionMaskSt validSt s0 amap).2 := by
  unfold actionMaskSt actionMask
  suffices hh : ∀ (l : List (Nat × α)) (st : Option (List Bool)) (s : σ), Inv s →
      (l.foldl (putBitSt validSt) (st, s)).1 = l.foldl (putBit valid) st ∧ Inv (l.foldl (putBitSt validSt) (st, s)).2 from
    hh amap _ s0 h0
  intro l
  induction l with
  | nil => intro st s hs; exact ⟨rfl, hs⟩
  | cons e t ih =>
    intro st s hs
    obtain ⟨h1, h2⟩ := h s e.2 hs
    simp only [List.foldl_cons, putBitSt]
    have := ih (putBit (fun _ => (validSt s e.2).1) st e) (validSt s e.2).2 h2
    refine ⟨?_, this.2⟩
    rw [this.1]
    congr 1
    cases st with
    | none => rfl
    | some l => simp only [putBit, h1]

/-- … consequently also ACROSS masks: two masks computed one after the other with the state handed on are both the mask of
their own valuation, provided the invariant also survives whatever happens to the state between them (`between`) -/
theorem C11_stateful_mask_across_steps {α σ} (valid valid' : α → Bool) (validSt validSt' : σ → α → Bool × σ) (Inv Inv' : σ → Prop)
    (h : ∀ s a, Inv s → (validSt s a).1 = valid a ∧ Inv (validSt s a).2)
    (h' : ∀ s a, Inv' s → (validSt' s a).1 = valid' a ∧ Inv' (validSt' s a).2)
    (between : σ → σ) (hb : ∀ s, Inv s → Inv' (between s)) (s0 : σ) (h0 : Inv s0) (amap : List (Nat × α)) :
    (actionMaskSt validSt s0 amap).1 = actionMask valid amap ∧
    (actionMaskSt validSt' (between (actionMaskSt validSt s0 amap).2) amap).1 = actionMask valid' amap := by
  obtain ⟨e1, i1⟩ := C11_stateful_mask_eq_of_transparent valid validSt Inv h s0 h0 amap
  exact ⟨e1, (C11_stateful_mask_eq_of_transparent valid' validSt' Inv' h' _ (hb _ i1) amap).1⟩

/-- a memo KEPT from the previous step without clearing it (`between = id`) breaks the invariant as soon as a rule's truth
changed: the service was running when the first mask was computed and has stopped since -/
theorem C11_memo_kept_across_steps_counterexample :
    let tree : Kids := [("stop", 0, .leaf 0)]
    let running : Env := fun _ _ => true
    let stopped : Env := fun _ _ => false
    let m1 := actionMaskSt (fun m a => checkValidMemoK running tree a m) [] [(0, ["stop"])]
    m1.1 = some [true] ∧
    (actionMaskSt (fun m a => checkValidMemoK stopped tree a m) m1.2 [(0, ["stop"])]).1 = some [true] ∧
    actionMask (fun a => checkValidK stopped tree a) [(0, ["stop"])] = some [false] := by decide

/-! #### … and why it is NOT sound for the code's file-system rules: two files of one folder, `a.txt` deleted -/

/-- `folder docs` → `file` edge (rule 0, reads the file's name: "exists and is not deleted") → per-file managers with `scan` -/
def sibTree : Kids := [("file", 0, .node [("a.txt", 1, .node [("scan", 2, .leaf 0)]), ("b.txt", 3, .node [("scan", 4, .leaf 1)])])]
/-- `a.txt` has been deleted, `b.txt` has not; every other rule holds -/
def sibEnv : Env := fun v opts => if v = 0 then opts.head? == some "b.txt" else true
def sibMap : List (Nat × List Key) := [(0, ["file", "a.txt", "scan"]), (1, ["file", "b.txt", "scan"])]

theorem C11_memo_counterexample :
    actionMask (fun a => checkValidK sibEnv sibTree a) sibMap = some [false, true] ∧
    actionMaskMemo sibEnv sibTree id sibMap = some [false, false] ∧
    dispatchK sibEnv sibTree ["file", "b.txt", "scan"] 0 = .reached 1 [] ∧
    -- listed the other way round, the memo OFFERS the action on the deleted file
    actionMaskMemo sibEnv sibTree id [(0, ["file", "b.txt", "scan"]), (1, ["file", "a.txt", "scan"])] = some [true, true] ∧
    dispatchK sibEnv sibTree ["file", "a.txt", "scan"] 0 = .failure 0 0 := by decide

/-- non-vacuity of the soundness theorem: an option-free valuation with a false rule, on the same tree and map -/
example : OptionFree (fun v _ => v != 3) := fun _ _ _ => rfl
example : actionMaskMemo (fun v _ => v != 3) sibTree id sibMap = some [true, false] := by decide

/-- each entry of the mask depends on NOTHING but its own action: two well-numbered maps that agree on number `i` give bit `i`
the same value, whatever else they contain and in whatever order (corollary of `C11_mask_by_action_number`) -/
theorem C11_mask_entry_depends_only_on_its_action {α} (valid : α → Bool) (amap amap' : List (Nat × α))
    (h : WellNumbered amap) (h' : WellNumbered amap') (i : Nat) (hi : i < amap.length) (hi' : i < amap'.length)
    (same : actionOf amap i = actionOf amap' i) :
    ∃ r r', actionMask valid amap = some r ∧ actionMask valid amap' = some r' ∧ r[i]? = r'[i]? := by
  obtain ⟨r, hr, _, hb⟩ := C11_mask_by_action_number valid amap h
  obtain ⟨r', hr', _, hb'⟩ := C11_mask_by_action_number valid amap' h'
  obtain ⟨a, ha, hv⟩ := hb i hi
  obtain ⟨a', ha', hv'⟩ := hb' i hi'
  rw [ha, ha'] at same
  cases same
  exact ⟨r, r', hr, hr', by rw [hv, hv']⟩

end Primaite.Request

/-! ### which of the code's rules read their options (regenerated translation of every validator `__call__`) -/
namespace Primaite.Request
open Primaite.Guards Primaite.Schema Primaite.Gen.RequestValidators

/-- does the rule's verdict depend on the request options? (classification used by the two theorems below) -/
def readsOptions : VAtom → Bool
  | .folderExists | .folderNotDeleted | .fsFileExists | .folderFileExists | .fileNotDeleted => true
  | _ => false

/-- the rules on node / NIC / service / application / group edges never look at the options: their verdict may be shared -/
theorem C11_gen_option_free_rules (a : VAtom) (h : readsOptions a = false) (self : VSelf) (r r' : List Key) (c : Context) :
    eval a self r c = eval a self r' c := by
  cases a <;> first | rfl | (simp [readsOptions] at h)

def sibFolder : FolderS := ⟨"docs", false, [⟨"b.txt", false⟩], [⟨"a.txt", true⟩]⟩
def sibSelf : VSelf := { file_system := ⟨[sibFolder], [⟨"old", true, [], []⟩]⟩, folder := sibFolder }

/-- every file-system rule gives DIFFERENT verdicts to two siblings in different conditions — on the translated code -/
theorem C11_gen_option_reading_rules :
    eval .folderExists sibSelf ["docs"] none ≠ eval .folderExists sibSelf ["old"] none ∧
    eval .folderNotDeleted sibSelf ["docs"] none ≠ eval .folderNotDeleted sibSelf ["old"] none ∧
    eval .fsFileExists sibSelf ["docs", "b.txt"] none ≠ eval .fsFileExists sibSelf ["docs", "a.txt"] none ∧
    eval .folderFileExists sibSelf ["b.txt"] none ≠ eval .folderFileExists sibSelf ["a.txt"] none ∧
    eval .fileNotDeleted sibSelf ["b.txt"] none ≠ eval .fileNotDeleted sibSelf ["a.txt"] none := by decide

end Primaite.Request

/-! ### WHERE in the request tree the option-reading rules stand (regenerated schema of every manager, Gen/RequestSchema.lean) -/
namespace Primaite.Request
open Primaite.Schema Primaite.Gen.RequestSchema

/-- every edge (manager, key; `*` = every key of a dynamic manager) whose validator contains a rule that reads the options -/
def optionReadingEdges : List (String × Key) :=
  mgrs.flatMap (fun mm => match mm.2 with
    | .static edges => (edges.filter (fun e => e.2.1.any readsOptions)).map (fun e => (mm.1, e.1))
    | .dynamic _ _ v => if v.any readsOptions then [(mm.1, "*")] else [])

/-- The edges on which ONE rule object judges several siblings by name are exactly the five file-system edges: a file system's
`folder` and `file` edges, a folder's `file` edge, and `delete file` / `delete folder`.  No dynamic manager (services, applications,
NICs, nodes: one edge and one rule object PER child) carries such a rule.  These are the edges the sibling-divergence family of
the rig aims two siblings at; a new name-reading rule elsewhere breaks this theorem and tells where the family has to grow. -/
theorem C11_gen_option_reading_edges :
    optionReadingEdges = [("FileSystem", "folder"), ("FileSystem", "file"), ("Folder", "file"),
                          ("FileSystem._delete_manager", "file"), ("FileSystem._delete_manager", "folder")] := by decide +kernel

end Primaite.Request
