/-
C08, part 11 — float metrics (`inf`, `-inf`, `nan`).  On finite metrics the float loop IS the integer loop of `Model/Route.lean`,
so every route-selection theorem carries over; `inf` behaves as the largest metric; `nan` breaks "lowest metric on ties"
(finding F-C08-r4-1, fixed by a validator on `RouteEntry`): `C08_float_best_spec` holds for every table, the total-order
statement `C08_float_cheapest_constructible` for every table without `nan` (= every constructible one), and the three-entry
counterexample remains as a statement about unvalidated entries.
-/
import PrimaiteModel.Model.RouteMetric
import PrimaiteModel.Props.C08
import PrimaiteModel.Gen.Forward
namespace Primaite.Route

def Route.toM (r : Route) : RouteM := { addr := r.addr, mask := r.mask, nextHop := r.nextHop, metric := .fin r.metric }
def lowToM : Option Int → Metric
  | none => .inf
  | some l => .fin l
def Acc.toM (a : Acc) : AccM := { best := a.best.map (fun x => (x.1, x.2.toM)), longest := a.longest, lowest := lowToM a.lowest }

theorem ltLowest_toM (m : Int) (lo : Option Int) : ltLowest m lo = (Metric.fin m).lt (lowToM lo) := by
  cases lo <;> rfl

theorem iter_toM (dst : Ip) (acc : Acc) (i : Nat) (r : Route) :
    iterM dst acc.toM i r.toM = (iter dst acc i r).map Acc.toM := by
  unfold iterM iter
  show (match maskPrefix r.mask with | none => none | some p => _) = _
  cases hm : maskPrefix r.mask with
  | none => rfl
  | some p =>
    simp only []
    by_cases hin : inNet dst r.addr p = true
    · have hc : (decide ((p : Int) > acc.toM.longest) || ((p : Int) == acc.toM.longest && r.toM.metric.lt acc.toM.lowest)) =
          betterCond p acc.longest r.metric acc.lowest := by
        simp only [betterCond, ltLowest_toM]; rfl
      have hin' : inNet dst r.toM.addr p = true := hin
      simp only [hin, hin', if_true, hc]
      by_cases hb : betterCond p acc.longest r.metric acc.lowest = true
      · simp only [hb, if_true]; rfl
      · have hb' : betterCond p acc.longest r.metric acc.lowest = false := by simpa using hb
        simp only [hb', Bool.false_eq_true, if_false]; rfl
    · have hin1 : inNet dst r.addr p = false := by simpa using hin
      have hin' : inNet dst r.toM.addr p = false := hin1
      simp only [hin1, hin', Bool.false_eq_true, if_false]; rfl

theorem scan_toM (dst : Ip) (rs : List Route) (i : Nat) (acc : Acc) :
    scanM dst (rs.map Route.toM) i acc.toM = (scan dst rs i acc).map Acc.toM := by
  induction rs generalizing i acc with
  | nil => rfl
  | cons r rs ih =>
    simp only [List.map_cons, scanM, scan]
    rw [iter_toM]
    cases iter dst acc i r with
    | none => rfl
    | some acc' => exact ih (i + 1) acc'

/-- **Finite metrics: the float loop is the integer loop.**  Hence `C08_best_matches / _longest / _cheapest /
_first_among_equals / _unique / _raised_iff` hold verbatim for tables of finite float metrics. -/
theorem C08_metric_finite_agrees (t : Table) (dst : Ip) :
    findBestM (t.routes.map Route.toM) dst =
      match findBestRoute t dst with
      | .raised => none
      | .route i r => some (some (i, r.toM))
      | _ => some none := by
  unfold findBestM findBestRoute
  have h := scan_toM dst t.routes 0 {}
  have h0 : ({} : Acc).toM = ({} : AccM) := rfl
  rw [h0] at h
  rw [h]
  cases hs : scan dst t.routes 0 {} with
  | none => rfl
  | some acc =>
    simp only [Option.map_some, Acc.toM]
    cases hb : acc.best with
    | none => cases t.default <;> rfl
    | some x => rfl

/-- the property's clause for tie-breaking, on float metrics: among covering entries of the winning prefix no entry is
strictly cheaper (Python `<`) than the selected one. -/
def C08_Full_float_cheapest : Prop :=
  ∀ (rs : List RouteM) (dst : Ip) (i : Nat) (r : RouteM), findBestM rs dst = some (some (i, r)) →
    ∀ r' ∈ rs, maskPrefix r'.mask = maskPrefix r.mask → (∃ p, maskPrefix r'.mask = some p ∧ inNet dst r'.addr p = true) →
      r'.metric.lt r.metric = false

def nanA : RouteM := { addr := 0x0A010200#32, mask := 0xFFFFFF00#32, nextHop := 0x01010101#32, metric := .nan }
def nanB : RouteM := { addr := 0x0A010200#32, mask := 0xFFFFFF00#32, nextHop := 0x01010102#32, metric := .fin 0 }
def nanC : RouteM := { addr := 0x0A010200#32, mask := 0xFFFFFF00#32, nextHop := 0x01010103#32, metric := .fin (-4) }

/-- **`nan` breaks the tie-break** for UNVALIDATED entries (F-C08-r4-1, fixed: `RouteEntry` now refuses a `nan` metric, so no
constructible table contains one; the counterexample stays as the reason for the validator).  With Python's `<` the clause above is vacuous for a selected `nan` entry
(nothing is `< nan`), so the statement is put on what IS comparable: every covering FINITE entry of the winning prefix is at
least as expensive as the selected one, which is finite too.  `[nan, 0, -4]` refutes it: the `nan` entry is selected first
(`prefix > -1`), becomes `lowest_metric`, and neither `0 < nan` nor `-4 < nan` holds — both cheaper entries are ignored. -/
def C08_Full_float_cheapest_finite : Prop :=
  ∀ (rs : List RouteM) (dst : Ip) (i : Nat) (r : RouteM), findBestM rs dst = some (some (i, r)) →
    ∀ r' ∈ rs, ∀ x, r'.metric = .fin x → maskPrefix r'.mask = maskPrefix r.mask →
      (∃ p, maskPrefix r'.mask = some p ∧ inNet dst r'.addr p = true) → ∃ y, r.metric = .fin y ∧ y ≤ x

theorem C08_float_cheapest_counterexample : ¬ C08_Full_float_cheapest_finite := by
  intro h
  have := h [nanA, nanB, nanC] 0x0A010205#32 0 nanA (by decide) nanB (by decide) 0 rfl rfl ⟨24, by decide, by decide⟩
  obtain ⟨y, hy, _⟩ := this
  cases hy

/-! ### the tie-break for every table, and as a total order for every CONSTRUCTIBLE table (no `nan`: `RouteEntry` refuses it) -/

def CovM (dst : Ip) (r : RouteM) (p : Nat) : Prop := maskPrefix r.mask = some p ∧ inNet dst r.addr p = true

/-- loop invariant of the float loop after the entries `pre`. -/
def InvM (dst : Ip) (pre : List RouteM) (acc : AccM) : Prop :=
  match acc.best with
  | none => acc.longest = -1 ∧ ∀ r ∈ pre, ∀ p, ¬ CovM dst r p
  | some (_, b) => ∃ p : Nat, CovM dst b p ∧ acc.longest = p ∧ acc.lowest = b.metric ∧ b ∈ pre ∧
      ∀ r ∈ pre, ∀ p', CovM dst r p' → p' ≤ p ∧ (p' = p → r.metric.lt b.metric = false)

/-- Python's `<` is transitive where it holds at all (a `nan` never takes part in a true comparison). -/
theorem Metric.lt_trans {a b c : Metric} (h1 : a.lt b = true) (h2 : b.lt c = true) : a.lt c = true := by
  cases a <;> cases b <;> cases c <;> simp [Metric.lt] at h1 h2 ⊢ <;> omega

theorem iterM_inv (dst : Ip) (pre : List RouteM) (acc : AccM) (i : Nat) (r : RouteM) (acc' : AccM)
    (hinv : InvM dst pre acc) (h : iterM dst acc i r = some acc') : InvM dst (pre ++ [r]) acc' := by
  unfold iterM at h
  cases hm : maskPrefix r.mask with
  | none => rw [hm] at h; cases h
  | some p =>
    rw [hm] at h
    simp only at h
    by_cases hin : inNet dst r.addr p = true
    · simp only [hin, if_true] at h
      have hcov : CovM dst r p := ⟨hm, hin⟩
      by_cases hb : (decide ((p : Int) > acc.longest) || ((p : Int) == acc.longest && r.metric.lt acc.lowest)) = true
      · simp only [hb, if_true, Option.some.injEq] at h
        subst h
        refine ⟨p, hcov, rfl, rfl, by simp, ?_⟩
        intro r' hr' p' hc'
        rcases List.mem_append.1 hr' with hr' | hr'
        · -- an earlier entry
          unfold InvM at hinv
          cases hbest : acc.best with
          | none =>
            rw [hbest] at hinv
            exact absurd hc' (hinv.2 r' hr' p')
          | some x =>
            obtain ⟨j, b⟩ := x
            rw [hbest] at hinv
            obtain ⟨q, hcb, hl, hlow, _, hall⟩ := hinv
            obtain ⟨hle, heq⟩ := hall r' hr' p' hc'
            simp only [Bool.or_eq_true, decide_eq_true_eq, Bool.and_eq_true, beq_iff_eq] at hb
            rcases hb with hb | ⟨hb1, hb2⟩
            · rw [hl] at hb
              have : q < p := by exact_mod_cast hb
              exact ⟨by omega, fun h => by omega⟩
            · rw [hl] at hb1
              have hqp : p = q := by exact_mod_cast hb1
              subst hqp
              refine ⟨hle, fun h => ?_⟩
              have h1 := heq h
              rw [hlow] at hb2
              cases hlt : r'.metric.lt r.metric with
              | false => rfl
              | true => rw [Metric.lt_trans hlt hb2] at h1; cases h1
        · have : r' = r := by simpa using hr'
          subst this
          obtain ⟨h1, _⟩ := hc'
          rw [hm] at h1
          have : p = p' := by simpa using h1
          subst this
          exact ⟨Nat.le_refl _, fun _ => by cases hx : r'.metric <;> simp [Metric.lt]⟩
      · have hb' : (decide ((p : Int) > acc.longest) || ((p : Int) == acc.longest && r.metric.lt acc.lowest)) = false := by simpa using hb
        simp only [hb', Bool.false_eq_true, if_false, Option.some.injEq] at h
        subst h
        simp only [Bool.or_eq_false_iff, decide_eq_false_iff_not, Bool.and_eq_false_iff] at hb'
        unfold InvM at hinv ⊢
        cases hbest : acc.best with
        | none =>
          rw [hbest] at hinv
          exfalso
          have := hb'.1
          rw [hinv.1] at this
          omega
        | some x =>
          obtain ⟨j, b⟩ := x
          rw [hbest] at hinv
          simp only
          obtain ⟨q, hcb, hl, hlow, hmem, hall⟩ := hinv
          refine ⟨q, hcb, hl, hlow, List.mem_append_left _ hmem, ?_⟩
          intro r' hr' p' hc'
          rcases List.mem_append.1 hr' with hr' | hr'
          · exact hall r' hr' p' hc'
          · have : r' = r := by simpa using hr'
            subst this
            obtain ⟨h1, _⟩ := hc'
            rw [hm] at h1
            have hpp : p = p' := by simpa using h1
            subst hpp
            have hle : ¬ ((p : Int) > q) := by rw [← hl]; exact hb'.1
            refine ⟨by omega, fun h => ?_⟩
            subst h
            rcases hb'.2 with h2 | h2
            · rw [hl] at h2; simp at h2
            · rw [← hlow]; exact h2
    · have hin' : inNet dst r.addr p = false := by simpa using hin
      simp only [hin', Bool.false_eq_true, if_false, Option.some.injEq] at h
      subst h
      unfold InvM at hinv ⊢
      cases hbest : acc.best with
      | none =>
        rw [hbest] at hinv
        refine ⟨hinv.1, ?_⟩
        intro r' hr' p' hc'
        rcases List.mem_append.1 hr' with hr' | hr'
        · exact hinv.2 r' hr' p' hc'
        · have : r' = r := by simpa using hr'
          subst this
          obtain ⟨h1, h2⟩ := hc'
          rw [hm] at h1
          have : p = p' := by simpa using h1
          subst this
          rw [hin'] at h2; cases h2
      | some x =>
        obtain ⟨j, b⟩ := x
        rw [hbest] at hinv
        simp only
        obtain ⟨q, hcb, hl, hlow, hmem, hall⟩ := hinv
        refine ⟨q, hcb, hl, hlow, List.mem_append_left _ hmem, ?_⟩
        intro r' hr' p' hc'
        rcases List.mem_append.1 hr' with hr' | hr'
        · exact hall r' hr' p' hc'
        · have : r' = r := by simpa using hr'
          subst this
          obtain ⟨h1, h2⟩ := hc'
          rw [hm] at h1
          have : p = p' := by simpa using h1
          subst this
          rw [hin'] at h2; cases h2

theorem scanM_inv (dst : Ip) (rs : List RouteM) : ∀ (pre : List RouteM) (i : Nat) (acc acc' : AccM),
    InvM dst pre acc → scanM dst rs i acc = some acc' → InvM dst (pre ++ rs) acc' := by
  induction rs with
  | nil => intro pre i acc acc' h hs; simp only [scanM, Option.some.injEq] at hs; subst hs; simpa using h
  | cons r rs ih =>
    intro pre i acc acc' h hs
    simp only [scanM] at hs
    cases hi : iterM dst acc i r with
    | none => rw [hi] at hs; cases hs
    | some a1 =>
      rw [hi] at hs
      have := ih (pre ++ [r]) (i + 1) a1 acc' (iterM_inv dst pre acc i r a1 h hi) hs
      simpa using this

/-- **Longest prefix, then no strictly cheaper entry — for EVERY table of float metrics** (`nan` included, unconditional):
the selected entry covers the destination; no covering entry has a longer prefix; no covering entry of the same prefix is
strictly cheaper in Python's `<`. -/
theorem C08_float_best_spec (rs : List RouteM) (dst : Ip) (i : Nat) (r : RouteM) (h : findBestM rs dst = some (some (i, r))) :
    ∃ p, CovM dst r p ∧ r ∈ rs ∧ ∀ r' ∈ rs, ∀ p', CovM dst r' p' → p' ≤ p ∧ (p' = p → r'.metric.lt r.metric = false) := by
  unfold findBestM at h
  cases hs : scanM dst rs 0 {} with
  | none => rw [hs] at h; cases h
  | some acc =>
    rw [hs] at h
    simp only [Option.map_some, Option.some.injEq] at h
    have hinv := scanM_inv dst rs [] 0 {} acc (by unfold InvM; exact ⟨rfl, by intro r hr; cases hr⟩) hs
    unfold InvM at hinv
    rw [h] at hinv
    simp only [List.nil_append] at hinv
    obtain ⟨p, hc, _, _, hmem, hall⟩ := hinv
    exact ⟨p, hc, hmem, hall⟩

/-- the total order of float metrics without `nan`: `-inf ≤ finite ≤ inf`. -/
def Metric.le : Metric → Metric → Bool
  | .ninf, _ => true
  | _, .inf => true
  | .fin a, .fin b => decide (a ≤ b)
  | _, _ => false

theorem Metric.le_of_not_lt {a b : Metric} (ha : a ≠ .nan) (hb : b ≠ .nan) (h : b.lt a = false) : a.le b = true := by
  cases a <;> cases b <;> simp [Metric.lt, Metric.le] at h ha hb ⊢ <;> omega

/-- **Lowest metric on ties, for every CONSTRUCTIBLE table** (metrics are never `nan`: `RouteEntry` refuses it, Gen obligation
`routeMetricRejectsNaN`; `inf` and `-inf` allowed): the selected entry's metric is `≤` the metric of every covering entry of
the same prefix, in the total order `-inf ≤ finite ≤ inf`. -/
theorem C08_float_cheapest_constructible (rs : List RouteM) (hnn : ∀ r ∈ rs, r.metric ≠ .nan) (dst : Ip) (i : Nat) (r : RouteM)
    (h : findBestM rs dst = some (some (i, r))) :
    ∃ p, CovM dst r p ∧ ∀ r' ∈ rs, CovM dst r' p → r.metric.le r'.metric = true := by
  obtain ⟨p, hc, hmem, hall⟩ := C08_float_best_spec rs dst i r h
  exact ⟨p, hc, fun r' hr' hc' => Metric.le_of_not_lt (hnn r hmem) (hnn r' hr') ((hall r' hr' p hc').2 rfl)⟩

/-- … in particular the finite statement that `nan` refuted holds for every constructible table without `-inf`. -/
theorem C08_float_cheapest_finite_constructible (rs : List RouteM) (hnn : ∀ r ∈ rs, r.metric ≠ .nan ∧ r.metric ≠ .ninf)
    (dst : Ip) (i : Nat) (r : RouteM) (h : findBestM rs dst = some (some (i, r))) :
    ∀ r' ∈ rs, ∀ x, r'.metric = .fin x → maskPrefix r'.mask = maskPrefix r.mask →
      (∃ p, maskPrefix r'.mask = some p ∧ inNet dst r'.addr p = true) → ∃ y, r.metric = .fin y ∧ y ≤ x := by
  intro r' hr' x hx hmask ⟨p', hm', hin'⟩
  obtain ⟨p, hc, hmem, hall⟩ := C08_float_best_spec rs dst i r h
  have hpp : p' = p := by
    have := hc.1
    rw [← hmask, hm'] at this
    simpa using this
  subst hpp
  have hlt := (hall r' hr' p' ⟨hm', hin'⟩).2 rfl
  have hr := hnn r hmem
  rw [hx] at hlt
  cases hmr : r.metric with
  | fin y => exact ⟨y, rfl, by rw [hmr] at hlt; simpa [Metric.lt] using hlt⟩
  | inf => rw [hmr] at hlt; simp [Metric.lt] at hlt
  | ninf => exact absurd hmr hr.2
  | nan => exact absurd hmr hr.1

/-- Gen obligation: `RouteEntry` has `@field_validator("metric")` raising `ValueError` when `v != v`. -/
theorem C08_gen_metric_validated : Gen.Forward.routeMetricRejectsNaN = true := by decide

/-- `inf` is harmless: it is the largest metric, an `inf` entry is selected only when nothing cheaper of its prefix exists
(evaluated on the covering cases; the general statement for `nan`-free tables is not proved). -/
example : findBestM [{ nanA with metric := .inf }, nanB] 0x0A010205#32 = some (some (1, nanB)) := by decide
example : findBestM [nanB, { nanA with metric := .inf }] 0x0A010205#32 = some (some (0, nanB)) := by decide
example : findBestM [{ nanA with metric := .inf }, { nanC with metric := .inf }] 0x0A010205#32 =
    some (some (0, { nanA with metric := .inf })) := by decide
example : findBestM [nanB, { nanA with metric := .ninf }] 0x0A010205#32 = some (some (1, { nanA with metric := .ninf })) := by decide
/-- `nan` first: selected and never replaced; `nan` later: never selected. -/
example : findBestM [nanA, nanB, nanC] 0x0A010205#32 = some (some (0, nanA)) := by decide
example : findBestM [nanB, nanA] 0x0A010205#32 = some (some (0, nanB)) := by decide

end Primaite.Route
