/-
C08, part 11 — float metrics (`inf`, `-inf`, `nan`).  On finite metrics the float loop IS the integer loop of `Model/Route.lean`,
so every route-selection theorem carries over; `inf` behaves as the largest metric; `nan` breaks "lowest metric on ties"
(finding F-C08-r4-1, open): the full statement is kept visible, holds on the finite fragment (agreement with the integer
model and its theorems) and is refuted by a three-entry table.
-/
import PrimaiteModel.Model.RouteMetric
import PrimaiteModel.Props.C08
namespace Primaite.Route

def Route.toM (r : Route) : RouteM := { addr := r.addr, mask := r.mask, nextHop := r.nextHop, metric := .fin r.metric }
def lowToM : Option Int → Metric
  | none => .inf
  | some l => .fin l
def Acc.toM (a : Acc) : AccM := { best := a.best.map (fun x => (x.1, x.2.toM)), longest := a.longest, lowest := lowToM a.lowest }

theorem ltLowest_toM (m : Int) (lo : Option Int) : ltLowest m lo = (Metric.fin m).lt (lowToM lo) := by
  cases lo <;> rfl

theorem iter_toM (dst : Ip) (acc : Acc) (i : Nat) (r : Route) :
    iterM dst acc.toM i r.toM = (iter dst acc i r).map Acc.toM := by
  unfold iterM iter
  show (match maskPrefix r.mask with | none => none | some p => _) = _
  cases hm : maskPrefix r.mask with
  | none => rfl
  | some p =>
    simp only []
    by_cases hin : inNet dst r.addr p = true
    · have hc : (decide ((p : Int) > acc.toM.longest) || ((p : Int) == acc.toM.longest && r.toM.metric.lt acc.toM.lowest)) =
          betterCond p acc.longest r.metric acc.lowest := by
        simp only [betterCond, ltLowest_toM]; rfl
      have hin' : inNet dst r.toM.addr p = true := hin
      simp only [hin, hin', if_true, hc]
      by_cases hb : betterCond p acc.longest r.metric acc.lowest = true
      · simp only [hb, if_true]; rfl
      · have hb' : betterCond p acc.longest r.metric acc.lowest = false := by simpa using hb
        simp only [hb', Bool.false_eq_true, if_false]; rfl
    · have hin1 : inNet dst r.addr p = false := by simpa using hin
      have hin' : inNet dst r.toM.addr p = false := hin1
      simp only [hin1, hin', Bool.false_eq_true, if_false]; rfl

theorem scan_toM (dst : Ip) (rs : List Route) (i : Nat) (acc : Acc) :
    scanM dst (rs.map Route.toM) i acc.toM = (scan dst rs i acc).map Acc.toM := by
  induction rs generalizing i acc with
  | nil => rfl
  | cons r rs ih =>
    simp only [List.map_cons, scanM, scan]
    rw [iter_toM]
    cases iter dst acc i r with
    | none => rfl
    | some acc' => exact ih (i + 1) acc'

/-- **Finite metrics: the float loop is the integer loop.**  Hence `C08_best_matches / _longest / _cheapest /
_first_among_equals / _unique / _raised_iff` hold verbatim for tables of finite float metrics. -/
theorem C08_metric_finite_agrees (t : Table) (dst : Ip) :
    findBestM (t.routes.map Route.toM) dst =
      match findBestRoute t dst with
      | .raised => none
      | .route i r => some (some (i, r.toM))
      | _ => some none := by
  unfold findBestM findBestRoute
  have h := scan_toM dst t.routes 0 {}
  have h0 : ({} : Acc).toM = ({} : AccM) := rfl
  rw [h0] at h
  rw [h]
  cases hs : scan dst t.routes 0 {} with
  | none => rfl
  | some acc =>
    simp only [Option.map_some, Acc.toM]
    cases hb : acc.best with
    | none => cases t.default <;> rfl
    | some x => rfl

/-- the property's clause for tie-breaking, on float metrics: among covering entries of the winning prefix no entry is
strictly cheaper (Python `<`) than the selected one. -/
def C08_Full_float_cheapest : Prop :=
  ∀ (rs : List RouteM) (dst : Ip) (i : Nat) (r : RouteM), findBestM rs dst = some (some (i, r)) →
    ∀ r' ∈ rs, maskPrefix r'.mask = maskPrefix r.mask → (∃ p, maskPrefix r'.mask = some p ∧ inNet dst r'.addr p = true) →
      r'.metric.lt r.metric = false

def nanA : RouteM := { addr := 0x0A010200#32, mask := 0xFFFFFF00#32, nextHop := 0x01010101#32, metric := .nan }
def nanB : RouteM := { addr := 0x0A010200#32, mask := 0xFFFFFF00#32, nextHop := 0x01010102#32, metric := .fin 0 }
def nanC : RouteM := { addr := 0x0A010200#32, mask := 0xFFFFFF00#32, nextHop := 0x01010103#32, metric := .fin (-4) }

/-- **`nan` breaks the tie-break** (F-C08-r4-1, open).  With Python's `<` the clause above is vacuous for a selected `nan` entry
(nothing is `< nan`), so the statement is put on what IS comparable: every covering FINITE entry of the winning prefix is at
least as expensive as the selected one, which is finite too.  `[nan, 0, -4]` refutes it: the `nan` entry is selected first
(`prefix > -1`), becomes `lowest_metric`, and neither `0 < nan` nor `-4 < nan` holds — both cheaper entries are ignored. -/
def C08_Full_float_cheapest_finite : Prop :=
  ∀ (rs : List RouteM) (dst : Ip) (i : Nat) (r : RouteM), findBestM rs dst = some (some (i, r)) →
    ∀ r' ∈ rs, ∀ x, r'.metric = .fin x → maskPrefix r'.mask = maskPrefix r.mask →
      (∃ p, maskPrefix r'.mask = some p ∧ inNet dst r'.addr p = true) → ∃ y, r.metric = .fin y ∧ y ≤ x

theorem C08_float_cheapest_counterexample : ¬ C08_Full_float_cheapest_finite := by
  intro h
  have := h [nanA, nanB, nanC] 0x0A010205#32 0 nanA (by decide) nanB (by decide) 0 rfl rfl ⟨24, by decide, by decide⟩
  obtain ⟨y, hy, _⟩ := this
  cases hy

/-- `inf` is harmless: it is the largest metric, an `inf` entry is selected only when nothing cheaper of its prefix exists
(evaluated on the covering cases; the general statement for `nan`-free tables is not proved). -/
example : findBestM [{ nanA with metric := .inf }, nanB] 0x0A010205#32 = some (some (1, nanB)) := by decide
example : findBestM [nanB, { nanA with metric := .inf }] 0x0A010205#32 = some (some (0, nanB)) := by decide
example : findBestM [{ nanA with metric := .inf }, { nanC with metric := .inf }] 0x0A010205#32 =
    some (some (0, { nanA with metric := .inf })) := by decide
example : findBestM [nanB, { nanA with metric := .ninf }] 0x0A010205#32 = some (some (1, { nanA with metric := .ninf })) := by decide
/-- `nan` first: selected and never replaced; `nan` later: never selected. -/
example : findBestM [nanA, nanB, nanC] 0x0A010205#32 = some (some (0, nanA)) := by decide
example : findBestM [nanB, nanA] 0x0A010205#32 = some (some (0, nanB)) := by decide

end Primaite.Route
