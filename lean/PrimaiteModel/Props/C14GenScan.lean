/-
C14 — the SCAN PATH, translated statement by statement from the source (Gen/HealthScan.lean, extractor
harness/extract/health_scan_tr.py), is EQUAL to the hand-written model for every state:

  Software.scan = Sw.scan, File.scan = File.scan, Folder.scan(instant) = Folder.instantScan, Folder.scan() = Folder.scan,
  Folder._scan_timestep = Folder.scanTick, FileSystem.scan(instant) = map instantScan, Node.scan = the `.osScan` update,
  the node-scan block of Node.apply_timestep = Node.scanPhase.

A semantic change of one of these bodies (for instance the blind change C14-g: the "scan already in progress" guard of
`Folder.scan` moved in front of the `instant_scan` branch) makes the corresponding theorem FALSE; `C14g_refuted` keeps the
counter-model of that change (a folder with its own timed scan pending when a whole-node scan completes).
-/
import PrimaiteModel.Lemmas.HealthEff
import PrimaiteModel.Gen.HealthScan
namespace Primaite.Health
open Primaite.Gen.HealthScan

/-- **Gen obligation.** `Software.scan` -/
theorem C14_gen_sw_scan (x : Sw) : swScan x = (x.scan, true) := rfl

/-- **Gen obligation.** `File.scan` (returns False for a deleted file) -/
theorem C14_gen_file_scan (f : File) : fileScan f = (f.scan, !f.deleted) := by
  cases hd : f.deleted <;> simp [fileScan, File.scan, hd]

/-- a loop whose body scans the file and leaves the folder alone -/
theorem loopLive_scan (body : Folder → File → Folder × File)
    (hb : ∀ (F : Folder) (x : File), x.deleted = false → body F x = (F, x.scan)) :
    ∀ (fs : List File) (F : Folder), loopLive body F fs = (F, fs.map File.scan) := by
  intro fs
  induction fs with
  | nil => intro F; rfl
  | cons x xs ih =>
    intro F
    cases hd : x.deleted
    · simp [loopLive, hd, hb F x hd, ih]
    · simp [loopLive, hd, ih, File.scan]

/-- a loop whose body scans the file and marks the folder visibly CORRUPT when the file (now) shows CORRUPT -/
theorem loopLive_instant (body : Folder → File → Folder × File)
    (hb : ∀ (F : Folder) (x : File), x.deleted = false →
      body F x = ((if x.actual = .corrupt then { F with visible := .corrupt } else F), x.scan)) :
    ∀ (fs : List File) (F : Folder), loopLive body F fs =
      ({ F with visible := if anyLiveCorrupt fs then .corrupt else F.visible }, fs.map File.scan) := by
  intro fs
  induction fs with
  | nil => intro F; simp [loopLive, anyLiveCorrupt]
  | cons x xs ih =>
    intro F
    cases hd : x.deleted
    · have hany : anyLiveCorrupt (x :: xs) = (decide (x.actual = .corrupt) || anyLiveCorrupt xs) := by
        simp [anyLiveCorrupt, hd]
      by_cases hc : x.actual = .corrupt
      · simp [loopLive, hd, hb F x hd, ih, hany, hc]
      · simp [loopLive, hd, hb F x hd, ih, hany, hc]
    · have hany : anyLiveCorrupt (x :: xs) = anyLiveCorrupt xs := by simp [anyLiveCorrupt, hd]
      simp [loopLive, hd, ih, hany, File.scan]

set_option linter.unusedSimpArgs false in
/-- **Gen obligation.** `Folder.scan`: with `instant_scan` it is the model's `instantScan` (the whole-node scan reaches EVERY live
folder, whatever its own countdown), without it the model's timed `scan`; it answers False exactly for a deleted folder -/
theorem C14_gen_folder_scan (F : Folder) :
    folderScan F true = (F.instantScan, !F.deleted) ∧ folderScan F false = (F.scan, !F.deleted) := by
  constructor
  · cases hd : F.deleted
    · -- whatever the shape of the loop body: it must scan the file and mark the folder when the file shows CORRUPT
      simp only [folderScan, hd, Bool.false_eq_true, if_false, if_true]
      rw [loopLive_instant]
      · simp [Folder.instantScan, hd]
      · intro F x hx
        by_cases hc : x.actual = .corrupt <;> simp [C14_gen_file_scan, File.scan, hx, hc]
    · simp [folderScan, hd, Folder.instantScan]
  · cases hd : F.deleted
    · -- either orientation of the countdown test (`<= 0` first, or the guard clause `> 0: return`)
      by_cases hc : F.scanCd ≤ 0
      · have h1 : ¬ F.scanCd > 0 := by omega
        have h2 : ¬ 0 < F.scanCd := by omega
        simp [folderScan, hd, Folder.scan, hc, h1]
      · have h1 : F.scanCd > 0 := by omega
        have h2 : 0 < F.scanCd := by omega
        simp [folderScan, hd, Folder.scan, hc, h1]
    · simp [folderScan, hd, Folder.scan]

/-- **Gen obligation.** `Folder._scan_timestep` -/
theorem C14_gen_folder_scan_timestep (F : Folder) : folderScanTimestep F = F.scanTick := by
  by_cases h1 : F.scanCd ≥ 0
  · by_cases h2 : F.scanCd - 1 = 0
    · simp only [folderScanTimestep, Folder.scanTick, h1, h2, if_true]
      rw [loopLive_scan]
      · simp only [worstLive_map_scan]
      · intro F x _
        simp [C14_gen_file_scan]
    · simp only [folderScanTimestep, Folder.scanTick, h1, h2, if_true, if_false]
  · simp only [folderScanTimestep, Folder.scanTick, h1, if_false]

/-- **Gen obligation.** `FileSystem.scan(instant_scan=True)` reaches every live folder with `instantScan` -/
theorem C14_gen_fs_scan (fo : List Folder) :
    fsScan fo true = fo.map Folder.instantScan ∧ fsScan fo false = fo.map Folder.scan := by
  constructor
  · simp only [fsScan]
    apply List.map_congr_left
    intro G _
    cases hd : G.deleted
    · simp [(C14_gen_folder_scan G).1]
    · simp [Folder.instantScan, hd]
  · simp only [fsScan]
    apply List.map_congr_left
    intro G _
    cases hd : G.deleted
    · simp [(C14_gen_folder_scan G).2]
    · simp [Folder.scan, hd]

/-- **Gen obligation.** `Node.scan` loads `max(node_scan_duration, 1)` unconditionally (= the `.osScan` case of `Node.apply`) -/
theorem C14_gen_node_scan_request (m : Node) (hon : m.power = .on) :
    nodeScanRequest m = (m.apply .osScan, true) := by
  simp [nodeScanRequest, Node.apply, hon]

/-- **Gen obligation.** the node-scan block of `Node.apply_timestep` is `Node.scanPhase`: decrement while positive; at 0 scan every
service, every application and — through `FileSystem.scan(instant_scan=True)` — every live folder -/
theorem C14_gen_node_scan_block (m : Node) : nodeScanBlock m = m.scanPhase := by
  by_cases h1 : m.scanCd > 0
  · by_cases h2 : m.scanCd - 1 = 0
    · simp only [nodeScanBlock, Node.scanPhase, h1, h2, if_true, Node.mapSws, Node.mapFolders, (C14_gen_fs_scan _).1,
        List.map_map]
      congr 1
      apply List.map_congr_left
      intro x _
      cases hx : x.isApp <;> simp [Function.comp, hx, C14_gen_sw_scan, Sw.scan]
    · simp only [nodeScanBlock, Node.scanPhase, h1, h2, if_true, if_false]
  · simp only [nodeScanBlock, Node.scanPhase, h1, if_false]

/-! ### the blind change C14-g as a refuted statement -/

/-- `Folder.scan` as the blind change C14-g rewrote it: the "scan already in progress" guard stands BEFORE the `instant_scan` branch -/
def folderScanG (F : Folder) (instant_scan : Bool) : Folder × Bool :=
  if F.deleted = true then (F, false) else
  if F.scanCd > 0 then (F, true) else
  if instant_scan = true then (F.instantScan, true) else
  ({ F with scanCd := max F.scanDur 1 }, true)

/-- counter-model: a folder whose own timed scan is pending (countdown 3) with a file that turned CORRUPT since it was last seen -/
def cmFolderG : Folder :=
  { name := "docs", deleted := false, actual := .good, visible := .good, scanDur := 4, scanCd := 3, restoreDur := 3, restoreCd := 0,
    files := [{ name := "report.txt", actual := .corrupt, visible := .good, deleted := false }] }

def cmNodeG : Node :=
  { power := .on, startDur := 0, startCd := 0, shutDur := 0, shutCd := 0, resetting := false, scanDur := 2, scanCd := 1, sws := [],
    folders := [cmFolderG] }

/-- **C14-g is refuted.** The rewritten `Folder.scan` is NOT the model's: on the counter-model the completing whole-node scan skips the
folder (the file keeps showing GOOD although it is CORRUPT and a scan covering it has completed), while the model — to which
`C14_gen_folder_scan` proves the code as translated equal — shows CORRUPT; the timed path of the rewrite agrees with the model everywhere. -/
theorem C14g_refuted :
    folderScanG cmFolderG true ≠ (cmFolderG.instantScan, true) ∧
    ((folderScanG cmFolderG true).1.files.map (·.visible)) = [.good] ∧
    (cmFolderG.instantScan.files.map (·.visible)) = [.corrupt] ∧
    ((cmNodeG.tick.folders.map (fun G => G.files.map (·.visible)))) = [[.corrupt]] ∧
    (∀ F : Folder, folderScanG F false = (F.scan, !F.deleted)) := by
  refine ⟨by decide, by decide, by decide, by decide, ?_⟩
  intro F
  cases hd : F.deleted
  · by_cases hc : F.scanCd > 0
    · have : ¬ F.scanCd ≤ 0 := by omega
      simp [folderScanG, hd, Folder.scan, hc, this]
    · have : F.scanCd ≤ 0 := by omega
      simp [folderScanG, hd, Folder.scan, hc, this]
  · simp [folderScanG, hd, Folder.scan]

end Primaite.Health
