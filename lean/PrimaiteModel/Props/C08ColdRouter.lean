/-
C08, part 9 — liveness with COLD caches ACROSS ONE ROUTER: host — router — host over direct links, every ARP cache empty.
Three ARP cascades are part of the statement: A asks for its gateway, the router asks for B while it holds A's echo request
(nested inside `process_frame`), and everything learned on the way (B learns the router from its request, the router learns A
and B from their frames) makes the way back warm.
-/
import PrimaiteModel.Props.C08Cold
namespace Primaite.Forward
open Primaite.Route (findBestRoute Table)

/-! ### the router's side of an ARP exchange -/

/-- a plain, powered-on router accepts ARP (exempt from the ACL) and ICMP (default rule). -/
theorem plain_router_permits (nd : Node) (i : Nat) (pl : Pl) (hfw : nd.fw = none)
    (hpl : pl ≠ .dataReq ∧ pl ≠ .dataRep ∧ appDenied nd.serves pl = false) : aclDenies nd i pl = false := by
  unfold aclDenies
  rw [hfw]
  simp only
  have h1 : (pl == .dataReq) = false := by simpa using hpl.1
  have h2 : (pl == .dataRep) = false := by simpa using hpl.2.1
  simp [h1, h2, hpl.2.2]

/-- the router is asked for the address of the interface the request arrives on: it learns the requester and answers. -/
theorem router_arp_req (fuel : Nat) (X : St) (r i : Nat) (nd : Node) (ifc own : Iface) (f : Frame) (sIp : Ip) (sMac : Mac)
    (hn : X.node? r = some nd) (hk : nd.kind = .router) (hon : nd.on = true) (hfw : nd.fw = none)
    (hi : X.iface? r i = some ifc) (hen : ifc.enabled = true) (hown : ifaceWithIp nd.ifaces ifc.ip = some own)
    (hpl : f.pl = .arpReq sIp sMac ifc.ip) (hb : f.dstMac = bcastMac) (hd : f.dstIp = ifc.ip) (httl : 2 ≤ f.ttl) :
    ifaceRecv (fuel + 2) X r i f =
      (sendArpReply fuel (((X.emit (.rx r i f.id f.ttl)).modNode r (fun nd => nd.addArp f.srcIp f.srcMac i)).emit
        (.sw r f.id ifc.ip true)) r (.arpRep ifc.ip ifc.mac sIp sMac), f.dec) := by
  have h1 : ¬ f.dec.ttl < 1 := by unfold Frame.dec; simp only; omega
  have hacc : routerAccepts ifc f.dec = true := by unfold routerAccepts; simp [Frame.dec, hb]
  have hn' : (X.emit (.rx r i f.id f.ttl)).node? r = some nd := hn
  have hi' : (X.emit (.rx r i f.id f.ttl)).iface? r i = some ifc := hi
  have hpl' : f.dec.pl = .arpReq sIp sMac ifc.ip := hpl
  have hacl : aclDenies nd i (.arpReq sIp sMac ifc.ip) = false := plain_router_permits nd i _ hfw ⟨by simp, by simp, rfl⟩
  have hd' : f.dec.dstIp = ifc.ip := hd
  have hbd : (f.dec.dstMac == bcastMac) = true := by simp [Frame.dec, hb]
  have hnd1 : ((Pl.arpReq sIp sMac ifc.ip) == .dataReq || (Pl.arpReq sIp sMac ifc.ip) == .dataRep) = false := rfl
  simp only [ifaceRecv, hn, hi, h1, if_false, hk, hacc, if_true, routerRecv, hn', hi', hfw, hon, Option.isNone_none, Bool.not_true,
    Bool.and_false, Bool.false_eq_true, hacl, hd', hown, hnd1, hpl', hen, beq_self_eq_true, Bool.and_self, hbd]
  rfl

/-- the ARP packet a router sends out of interface `o`. -/
theorem router_arp_reply_send (fuel : Nat) (X : St) (r o : Nat) (nd : Node) (oif : Iface) (sip : Ip) (smac : Mac) (tip : Ip)
    (tmac : Mac) (hn : X.node? r = some nd) (hfe : firstEnabledIn nd.ifaces tip 0 = some o) (ho : X.iface? r o = some oif) :
    sendArpReply (fuel + 3) X r (.arpRep sip smac tip tmac) =
      (sendFrame (fuel + 1) { X with nextId := X.nextId + 1 } r o (mkArpRep X oif sip smac tip tmac)).1 := by
  have hro : ∀ k, resolveOut (k + 1) X r tip = (X, some o) := by intro k; simp only [resolveOut, hn, hfe]
  simp only [sendArpReply, targetOf, hro, sendArpPkt, ho, plDstMac, mkArpRep]

/-- a router asks for an on-link address it has not cached. -/
theorem router_arp_request (fuel : Nat) (X : St) (r o : Nat) (nd : Node) (oif : Iface) (t : Ip) (k0 : Nat)
    (hn : X.node? r = some nd) (hcold : nd.arpGet t = none) (hfi : firstIn nd.ifaces t 0 = some k0)
    (hfe : firstEnabledIn nd.ifaces t 0 = some o) (ho : X.iface? r o = some oif)
    (hnn : t ≠ oif.netAddr) (hnb : t ≠ oif.bcastAddr) :
    sendArpReq (fuel + 3) X r t = (sendFrame (fuel + 1) { X with nextId := X.nextId + 1 } r o (mkArpReq X oif t)).1 := by
  have hro : ∀ k, resolveOut (k + 1) X r t = (X, some o) := by intro k; simp only [resolveOut, hn, hfe]
  have h1 : (t == oif.netAddr) = false := by simpa using hnn
  have h2 : (t == oif.bcastAddr) = false := by simpa using hnb
  simp only [sendArpReq, hn, hcold, Option.isSome_none, Bool.false_eq_true, if_false, hfi, Option.isSome_some, if_true, hro, ho, h1, h2,
    Bool.or_self, sendArpPkt, targetOf, plDstMac, mkArpReq]

/-- the router receives the answer to its own request: it learns the answerer (from the frame and from the payload). -/
theorem router_arp_rep (fuel : Nat) (X : St) (r i : Nat) (nd : Node) (ifc own : Iface) (f : Frame) (sIp : Ip) (sMac : Mac) (tMac : Mac)
    (hn : X.node? r = some nd) (hk : nd.kind = .router) (hon : nd.on = true) (hfw : nd.fw = none)
    (hi : X.iface? r i = some ifc) (hown : ifaceWithIp nd.ifaces ifc.ip = some own)
    (hpl : f.pl = .arpRep sIp sMac ifc.ip tMac) (hm : f.dstMac = ifc.mac) (hnb : ifc.mac ≠ bcastMac) (hd : f.dstIp = ifc.ip)
    (httl : 2 ≤ f.ttl) :
    ifaceRecv (fuel + 2) X r i f =
      ((((X.emit (.rx r i f.id f.ttl)).modNode r (fun nd => nd.addArp f.srcIp f.srcMac i)).emit (.sw r f.id ifc.ip false)).modNode r
        (fun nd => nd.addArp sIp sMac i), f.dec) := by
  have h1 : ¬ f.dec.ttl < 1 := by unfold Frame.dec; simp only; omega
  have hacc : routerAccepts ifc f.dec = true := by unfold routerAccepts; simp [Frame.dec, hm]
  have hn' : (X.emit (.rx r i f.id f.ttl)).node? r = some nd := hn
  have hi' : (X.emit (.rx r i f.id f.ttl)).iface? r i = some ifc := hi
  have hpl' : f.dec.pl = .arpRep sIp sMac ifc.ip tMac := hpl
  have hacl : aclDenies nd i (.arpRep sIp sMac ifc.ip tMac) = false := plain_router_permits nd i _ hfw ⟨by simp, by simp, rfl⟩
  have hd' : f.dec.dstIp = ifc.ip := hd
  have hbd : (f.dec.dstMac == bcastMac) = false := by simp [Frame.dec, hm, hnb]
  have hnd1 : ((Pl.arpRep sIp sMac ifc.ip tMac) == .dataReq || (Pl.arpRep sIp sMac ifc.ip tMac) == .dataRep) = false := rfl
  simp only [ifaceRecv, hn, hi, h1, if_false, hk, hacc, if_true, routerRecv, hn', hi', hfw, hon, Option.isNone_none, Bool.not_true,
    Bool.and_false, Bool.false_eq_true, hacl, hd', hown, hnd1, hpl', beq_self_eq_true, hbd]
  rfl

/-! ### hosts that do not know the sender yet -/

theorem host_echo_req_any (fuel : Nat) (X : St) (b : Nat) (nd : Node) (ifc : Iface) (f : Frame) (ident : Nat)
    (hn : X.node? b = some nd) (hon : nd.on = true) (hifs : nd.ifaces = [ifc]) (hpl : f.pl = .echoReq ident)
    (hd : f.dstIp = ifc.ip) :
    hostRecv (fuel + 1) X b 0 f =
      (match (resolveOut fuel ((X.modNode b (fun nd => nd.addArp f.srcIp f.srcMac 0)).emit
          (.sw b f.id f.dstIp (f.dstMac == bcastMac))) b f.srcIp).2 with
       | none => ((resolveOut fuel ((X.modNode b (fun nd => nd.addArp f.srcIp f.srcMac 0)).emit
          (.sw b f.id f.dstIp (f.dstMac == bcastMac))) b f.srcIp).1, f)
       | some _ => (sendIcmp fuel (resolveOut fuel ((X.modNode b (fun nd => nd.addArp f.srcIp f.srcMac 0)).emit
          (.sw b f.id f.dstIp (f.dstMac == bcastMac))) b f.srcIp).1 b f.srcIp (.echoRep ident), f)) := by
  have hi := iface0_of X b nd ifc hn hifs
  simp only [hostRecv, portClosed, Bool.false_eq_true, if_false, hn, hi, hon, if_true, hpl, hd, bne_self_eq_false, Bool.false_eq_true, if_false]
  rfl

theorem host_echo_rep_any (fuel : Nat) (X : St) (a : Nat) (nd : Node) (ifc : Iface) (f : Frame) (ident : Nat)
    (hn : X.node? a = some nd) (hon : nd.on = true) (hifs : nd.ifaces = [ifc]) (hpl : f.pl = .echoRep ident) :
    hostRecv (fuel + 1) X a 0 f =
      (((X.modNode a (fun nd => nd.addArp f.srcIp f.srcMac 0)).emit (.sw a f.id f.dstIp (f.dstMac == bcastMac))).modNode a
        (fun nd => { nd with replies := bumpReply nd.replies ident }), f) := by
  have hi := iface0_of X a nd ifc hn hifs
  simp only [hostRecv, portClosed, Bool.false_eq_true, if_false, hn, hi, hon, if_true, hpl]

theorem arpGet_addArp_other (nd : Node) (ip ip' : Ip) (mac : Mac) (i : Nat) (h : ip' ≠ ip) :
    (nd.addArp ip mac i).arpGet ip' = nd.arpGet ip' := by
  unfold Node.addArp
  split
  · rfl
  · split
    · rfl
    · unfold Node.arpGet
      have hne : (ip == ip') = false := by simpa using fun h' => h h'.symm
      simp only [List.find?_append]
      cases nd.arp.find? (fun e => e.ip == ip') <;> simp [hne]

/-! ### the two ARP exchanges over a direct host — router link -/

/-- HOST ASKS ROUTER (its gateway): the host `h` (single NIC `ifc`, cabled to interface `i` of the plain, powered-on router
`r`, whose address there is `g`) asks for `g`; the router learns the host and answers; the host learns the router. -/
theorem host_router_arp (fuel : Nat) (X : St) (c : List NodeCfg) (h r o i : Nat) (ndH ndR ndO : Node) (ifc rifc own : Iface)
    (S : Snap X c h o r ndH ndO ndR) (hho : h ≠ o) (hhr : h ≠ r)
    (hifs : ndH.ifaces = [ifc]) (hen : ifc.enabled = true) (hpeer : ifc.peer = some (r, i)) (hkH : ndH.kind = .host) (honH : ndH.on = true)
    (hcold : ndH.arpGet rifc.ip = none) (hin : ifc.inNet rifc.ip = true) (hnn : rifc.ip ≠ ifc.netAddr) (hnb : rifc.ip ≠ ifc.bcastAddr)
    (hmacH : ifc.mac ≠ bcastMac)
    (hkR : ndR.kind = .router) (honR : ndR.on = true) (hfwR : ndR.fw = none) (hri : ndR.ifaces[i]? = some rifc)
    (hren : rifc.enabled = true) (hrpeer : rifc.peer = some (h, 0)) (hown : ifaceWithIp ndR.ifaces rifc.ip = some own)
    (hfe : firstEnabledIn ndR.ifaces ifc.ip 0 = some i) (hor : o ≠ r) :
    ∃ Y, sendArpReq (fuel + 10) X h rifc.ip = Y ∧
      Snap Y c h o r ((ndH.addArp rifc.ip rifc.mac 0).addArp rifc.ip rifc.mac 0) ndO (ndR.addArp ifc.ip ifc.mac i) := by
  have ifH := iface0_of X h ndH ifc S.na hifs
  have ifR : X.iface? r i = some rifc := by unfold St.iface?; have := S.ns; unfold St.node? at this; rw [this]; exact hri
  refine ⟨_, rfl, ?_⟩
  rw [host_arp_request (fuel + 7) X h ndH ifc rifc.ip S.na hifs hen hcold hin hnn hnb]
  generalize hX1 : ({ X with nextId := X.nextId + 1 } : St) = X1
  have S1 : Snap X1 c h o r ndH ndO ndR := by rw [← hX1]; exact S.nextId _
  generalize hQ : mkArpReq X ifc rifc.ip = Q
  have Qs : Q.srcMac = ifc.mac ∧ Q.dstMac = bcastMac ∧ Q.srcIp = ifc.ip ∧ Q.dstIp = rifc.ip ∧ Q.ttl = 64 ∧
      Q.pl = .arpReq ifc.ip ifc.mac rifc.ip := by rw [← hQ]; exact ⟨rfl, rfl, rfl, rfl, rfl, rfl⟩
  obtain ⟨q1, q2, q3, q4, q5, q6⟩ := Qs
  rw [link_step (fuel + 7) X1 h 0 r i ifc rifc Q (by rw [S.iface S1]; exact ifH) hen hpeer (by rw [S.iface S1]; exact ifR) hren]
  rw [router_arp_req (fuel + 5) X1 r i ndR rifc own Q ifc.ip ifc.mac S1.ns hkR honR hfwR (by rw [S.iface S1]; exact ifR) hren hown q6 q2 q4
    (by rw [q5]; decide)]
  show Snap (sendArpReply (fuel + 5) _ r _) c h o r _ _ _
  generalize hX2 : ((X1.emit (.rx r i Q.id Q.ttl)).modNode r (fun nd => nd.addArp Q.srcIp Q.srcMac i)).emit (.sw r Q.id rifc.ip true) = X2
  have S2 : Snap X2 c h o r ndH ndO (ndR.addArp ifc.ip ifc.mac i) := by
    rw [← hX2, q3, q1]
    exact ((S1.emit _).modS _ (fun nd => addArp_cfg nd _ _ _) hhr hor).emit _
  rw [router_arp_reply_send (fuel + 2) X2 r i (ndR.addArp ifc.ip ifc.mac i) rifc rifc.ip rifc.mac ifc.ip ifc.mac S2.ns
    (by rw [addArp_ifaces]; exact hfe) (by rw [S.iface S2]; exact ifR)]
  generalize hX3 : ({ X2 with nextId := X2.nextId + 1 } : St) = X3
  have S3 : Snap X3 c h o r ndH ndO (ndR.addArp ifc.ip ifc.mac i) := by rw [← hX3]; exact S2.nextId _
  generalize hP : mkArpRep X2 rifc rifc.ip rifc.mac ifc.ip ifc.mac = P
  have Ps : P.srcMac = rifc.mac ∧ P.dstMac = ifc.mac ∧ P.srcIp = rifc.ip ∧ P.dstIp = ifc.ip ∧ P.ttl = 64 ∧
      P.pl = .arpRep rifc.ip rifc.mac ifc.ip ifc.mac := by rw [← hP]; exact ⟨rfl, rfl, rfl, rfl, rfl, rfl⟩
  obtain ⟨p1, p2, p3, p4, p5, p6⟩ := Ps
  rw [link_step (fuel + 2) X3 r i h 0 rifc ifc P (by rw [S.iface S3]; exact ifR) hren hrpeer (by rw [S.iface S3]; exact ifH) hen]
  rw [host_arp_rep fuel X3 h ndH ifc P rifc.ip rifc.mac ifc.ip ifc.mac S3.na hkH honH hifs p6 p2 hmacH p4 (by rw [p5]; decide)]
  rw [p3, p1]
  exact ((((S3.emit _).modA _ (fun nd => addArp_cfg nd _ _ _) hho hhr).emit _).modA _ (fun nd => addArp_cfg nd _ _ _) hho hhr)

/-- ROUTER ASKS HOST: the plain, powered-on router `r` asks, out of interface `i` (cabled to the single NIC `ifc` of host
`h`), for the host's address; the host learns the router's pair and answers; the router learns the host. -/
theorem router_host_arp (fuel : Nat) (X : St) (c : List NodeCfg) (h r o i k0 : Nat) (ndH ndR ndO : Node) (ifc rifc own : Iface)
    (S : Snap X c o h r ndO ndH ndR) (hoh : o ≠ h) (hhr : h ≠ r) (hor : o ≠ r)
    (hifs : ndH.ifaces = [ifc]) (hen : ifc.enabled = true) (hpeer : ifc.peer = some (r, i)) (hkH : ndH.kind = .host) (honH : ndH.on = true)
    (hin : ifc.inNet rifc.ip = true)
    (hkR : ndR.kind = .router) (honR : ndR.on = true) (hfwR : ndR.fw = none) (hri : ndR.ifaces[i]? = some rifc)
    (hren : rifc.enabled = true) (hrpeer : rifc.peer = some (h, 0)) (hown : ifaceWithIp ndR.ifaces rifc.ip = some own)
    (hcold : ndR.arpGet ifc.ip = none) (hfi : firstIn ndR.ifaces ifc.ip 0 = some k0) (hfe : firstEnabledIn ndR.ifaces ifc.ip 0 = some i)
    (hnn : ifc.ip ≠ rifc.netAddr) (hnb : ifc.ip ≠ rifc.bcastAddr) (hmacR : rifc.mac ≠ bcastMac) :
    ∃ Y, sendArpReq (fuel + 10) X r ifc.ip = Y ∧
      Snap Y c o h r ndO (ndH.addArp rifc.ip rifc.mac 0) ((ndR.addArp ifc.ip ifc.mac i).addArp ifc.ip ifc.mac i) := by
  have ifH := iface0_of X h ndH ifc S.nb hifs
  have ifR : X.iface? r i = some rifc := by unfold St.iface?; have := S.ns; unfold St.node? at this; rw [this]; exact hri
  refine ⟨_, rfl, ?_⟩
  rw [router_arp_request (fuel + 7) X r i ndR rifc ifc.ip k0 S.ns hcold hfi hfe ifR hnn hnb]
  generalize hX1 : ({ X with nextId := X.nextId + 1 } : St) = X1
  have S1 : Snap X1 c o h r ndO ndH ndR := by rw [← hX1]; exact S.nextId _
  generalize hQ : mkArpReq X rifc ifc.ip = Q
  have Qs : Q.srcMac = rifc.mac ∧ Q.dstMac = bcastMac ∧ Q.srcIp = rifc.ip ∧ Q.dstIp = ifc.ip ∧ Q.ttl = 64 ∧
      Q.pl = .arpReq rifc.ip rifc.mac ifc.ip := by rw [← hQ]; exact ⟨rfl, rfl, rfl, rfl, rfl, rfl⟩
  obtain ⟨q1, q2, q3, q4, q5, q6⟩ := Qs
  rw [link_step (fuel + 7) X1 r i h 0 rifc ifc Q (by rw [S.iface S1]; exact ifR) hren hrpeer (by rw [S.iface S1]; exact ifH) hen]
  rw [host_arp_req (fuel + 5) X1 h ndH ifc Q rifc.ip rifc.mac S1.nb hkH honH hifs q6 q2 q4 (by rw [q5]; decide)]
  show Snap (sendArpReply (fuel + 5) _ h _) c o h r _ _ _
  generalize hX2 : ((X1.emit (.rx h 0 Q.id Q.ttl)).modNode h (fun nd => nd.addArp Q.srcIp Q.srcMac 0)).emit (.sw h Q.id Q.dstIp true) = X2
  have S2 : Snap X2 c o h r ndO (ndH.addArp rifc.ip rifc.mac 0) ndR := by
    rw [← hX2, q3, q1]
    exact ((S1.emit _).modB _ (fun nd => addArp_cfg nd _ _ _) hoh hhr).emit _
  rw [host_arp_reply_send (fuel + 2) X2 h (ndH.addArp rifc.ip rifc.mac 0) ifc ifc.ip ifc.mac rifc.ip rifc.mac S2.nb
    (by rw [addArp_ifaces]; exact hifs) hen hin]
  generalize hX3 : ({ X2 with nextId := X2.nextId + 1 } : St) = X3
  have S3 : Snap X3 c o h r ndO (ndH.addArp rifc.ip rifc.mac 0) ndR := by rw [← hX3]; exact S2.nextId _
  generalize hP : mkArpRep X2 ifc ifc.ip ifc.mac rifc.ip rifc.mac = P
  have Ps : P.srcMac = ifc.mac ∧ P.dstMac = rifc.mac ∧ P.srcIp = ifc.ip ∧ P.dstIp = rifc.ip ∧ P.ttl = 64 ∧
      P.pl = .arpRep ifc.ip ifc.mac rifc.ip rifc.mac := by rw [← hP]; exact ⟨rfl, rfl, rfl, rfl, rfl, rfl⟩
  obtain ⟨p1, p2, p3, p4, p5, p6⟩ := Ps
  rw [link_step (fuel + 2) X3 h 0 r i ifc rifc P (by rw [S.iface S3]; exact ifH) hen hpeer (by rw [S.iface S3]; exact ifR) hren]
  rw [router_arp_rep fuel X3 r i ndR rifc own P ifc.ip ifc.mac rifc.mac S3.ns hkR honR hfwR (by rw [S.iface S3]; exact ifR) hown p6 p2
    hmacR p4 (by rw [p5]; decide)]
  rw [p3, p1]
  exact ((((S3.emit _).modS _ (fun nd => addArp_cfg nd _ _ _) hor hhr).emit _).modS _ (fun nd => addArp_cfg nd _ _ _) hor hhr)

/-! ### the router holds a frame for a destination it has to ask for first -/

/-- A plain router receives, on interface `ia`, a unicast frame its rule list permits (ICMP, or a service it has a rule for) from a sender it already knows, for the on-link host B
(directly cabled to interface `ib`) that it has NOT cached: inside `process_frame` it asks for B, B learns the router and
answers, the router learns B — and then forwards the frame it was holding, TTL − 2, out of `ib` to B's MAC. -/
theorem router_forward_cold (fuel : Nat) (X : St) (c : List NodeCfg) (a r b ia ib : Nat) (ndA ndR ndB : Node)
    (ifB ra rb ownB : Iface) (f : Frame) (es : ArpEntry)
    (S : Snap X c a b r ndA ndB ndR) (hab : a ≠ b) (hbr : b ≠ r) (har : a ≠ r)
    (hkR : ndR.kind = .router) (honR : ndR.on = true) (hfwR : ndR.fw = none)
    (hra : ndR.ifaces[ia]? = some ra) (hrb : ndR.ifaces[ib]? = some rb) (hrben : rb.enabled = true) (hrbpeer : rb.peer = some (b, 0))
    (hownB : ifaceWithIp ndR.ifaces rb.ip = some ownB) (hmacRb : rb.mac ≠ bcastMac)
    (hm : f.dstMac = ra.mac) (hnbA : ra.mac ≠ bcastMac) (hd : f.dstIp = ifB.ip) (hpl : aclDenies ndR ia f.pl = false)
    (hes : ndR.arpGet f.srcIp = some es) (httl : 3 ≤ f.ttl)
    (hnotown : ifaceWithIp ndR.ifaces ifB.ip = none) (hcoldR : ndR.arpGet ifB.ip = none)
    (hfi : firstIn ndR.ifaces ifB.ip 0 = some ib) (hfe : firstEnabledIn ndR.ifaces ifB.ip 0 = some ib) (hinR : rb.inNet ifB.ip = true)
    (hnn : ifB.ip ≠ rb.netAddr) (hnb : ifB.ip ≠ rb.bcastAddr)
    (hifsB : ndB.ifaces = [ifB]) (henB : ifB.enabled = true) (hpeerB : ifB.peer = some (r, ib)) (hkB : ndB.kind = .host)
    (honB : ndB.on = true) (hinB : ifB.inNet rb.ip = true) :
    ∃ Y, ifaceRecv (fuel + 14) X r ia f =
        ifaceRecv (fuel + 10) (Y.emit (.hop r f.id f.dec.ttl)) b 0 (f.dec.dec.stamp rb.mac ifB.mac) ∧
      Snap Y c a b r ndA (ndB.addArp rb.ip rb.mac 0) ((ndR.addArp ifB.ip ifB.mac ib).addArp ifB.ip ifB.mac ib) := by
  have hi : X.iface? r ia = some ra := by unfold St.iface?; have := S.ns; unfold St.node? at this; rw [this]; exact hra
  have h1 : ¬ f.dec.ttl < 1 := by unfold Frame.dec; simp only; omega
  have h2 : ¬ f.dec.dec.ttl < 1 := by unfold Frame.dec; simp only; omega
  have hbm : (f.dec.dstMac == bcastMac) = false := by show (f.dstMac == bcastMac) = false; rw [hm]; simpa using hnbA
  have hacc : routerAccepts ra f.dec = true := by unfold routerAccepts; simp [Frame.dec, hm]
  generalize hX1 : X.emit (.rx r ia f.id f.ttl) = X1
  have S1 : Snap X1 c a b r ndA ndB ndR := by rw [← hX1]; exact S.emit _
  have hi1 : X1.iface? r ia = some ra := by rw [S.iface S1]; exact hi
  have s1 : ifaceRecv (fuel + 14) X r ia f = routerRecv (fuel + 12 + 1) X1 r ia f.dec := by
    simp only [ifaceRecv, S.ns, hi, h1, if_false, hkR, hacc, if_true, hX1]
  have hperm : aclDenies ndR ia f.dec.pl = false := hpl
  have htr : transitOk ndR ia f.dec.pl f.dec.dstIp = true := by
    unfold transitOk; rw [hfwR]; simp [honR, hperm]
  have hlearn : X1.modNode r (fun nd => nd.addArp f.dec.srcIp f.dec.srcMac ia) = X1 := by
    apply modNode_id
    intro nd' hnd'
    rw [S1.ns] at hnd'
    have : nd' = ndR := by simpa using hnd'.symm
    subst this
    exact addArp_known nd' _ _ _ es hes
  have s2 : routerRecv (fuel + 12 + 1) X1 r ia f.dec = routerProcess (fuel + 12) X1 r ia f.dec := by
    rw [C08_router_transit (fuel + 12) X1 r ia f.dec ndR ra S1.ns hi1 htr (by show ifaceWithIp ndR.ifaces f.dstIp = none; rw [hd]; exact hnotown)
      (by intro h; rw [hfwR] at h; cases h),
      hlearn]
  -- the nested exchange
  obtain ⟨Y, hY, SY⟩ := router_host_arp fuel X1 c b r a ib ib ndB ndR ndA ifB rb ownB S1 hab hbr har hifsB henB hpeerB hkB honB hinB hkR
    honR hfwR hrb hrben hrbpeer hownB hcoldR hfi hfe hnn hnb hmacRb
  have hwR : ifaceWithIp ndR.ifaces ifB.ip = none := hnotown
  have hgR : (ndR.addArp ifB.ip ifB.mac ib).arpGet ifB.ip = some { ip := ifB.ip, mac := ifB.mac, ifc := ib } :=
    arpGet_addArp_new ndR ifB.ip ifB.mac ib hwR hcoldR
  have hR2 : (ndR.addArp ifB.ip ifB.mac ib).addArp ifB.ip ifB.mac ib = ndR.addArp ifB.ip ifB.mac ib := addArp_known _ _ _ _ _ hgR
  have hdd : f.dec.dstIp = ifB.ip := hd
  have hifc : arpIfc (fuel + 11) X1 r ifB.ip false false = (X1, some ib) := by
    simp only [arpIfc, S1.ns, hcoldR, hkR, beq_self_eq_true, if_true, hfi]
  have hmac : arpMac (fuel + 11) X1 r ifB.ip false false = (Y, some ifB.mac) := by
    rw [arpMac]
    simp only [S1.ns, hcoldR, arpNext, hkR, routerArpNext, Bool.not_false, if_true, hfi, Option.isSome_some, Bool.and_self, hY]
    rw [arpMac]
    simp only [SY.ns, hR2, hgR]
  have hiY : Y.iface? r ib = some rb := by
    unfold St.iface?; have := SY.ns; unfold St.node? at this; rw [this, Option.bind_some, addArp_ifaces, addArp_ifaces]; exact hrb
  have hiYb : (Y.emit (.hop r f.id f.dec.ttl)).iface? b 0 = some ifB := by
    rw [iface?_emit]
    exact iface0_of Y b _ ifB SY.nb (by rw [addArp_ifaces]; exact hifsB)
  have s3 : routerProcess (fuel + 12) X1 r ia f.dec =
      sendFrame (fuel + 11) (Y.emit (.hop r f.id f.dec.ttl)) r ib (f.dec.dec.stamp rb.mac ifB.mac) := by
    simp only [routerProcess, hbm, Bool.false_eq_true, if_false, hdd, hifc, hmac, hiY, hrben, Bool.not_true, hinR, if_true, h2]
    rfl
  refine ⟨Y, ?_, SY⟩
  rw [s1, s2, s3]
  exact link_step (fuel + 10) _ r ib b 0 rb ifB _ (by rw [iface?_emit]; exact hiY) hrben hrbpeer hiYb henB

/-! ### host — router — host, every cache empty -/

/-- two powered-on single-NIC hosts in different subnets, each cabled directly to an interface of one plain, powered-on
router that is its default gateway; all three ARP caches EMPTY. -/
structure ColdRouted (st : St) (a r b ia ib : Nat) (ndA ndR ndB : Node) (ifA ifB ra rb ownA ownB : Iface) : Prop where
  nodeA : st.node? a = some ndA
  kindA : ndA.kind = .host
  onA : ndA.on = true
  ifsA : ndA.ifaces = [ifA]
  enA : ifA.enabled = true
  peerA : ifA.peer = some (r, ia)
  gwA : ndA.gateway = some ra.ip
  nodeB : st.node? b = some ndB
  kindB : ndB.kind = .host
  onB : ndB.on = true
  ifsB : ndB.ifaces = [ifB]
  enB : ifB.enabled = true
  peerB : ifB.peer = some (r, ib)
  gwB : ndB.gateway = some rb.ip
  nodeR : st.node? r = some ndR
  kindR : ndR.kind = .router
  onR : ndR.on = true
  fwR : ndR.fw = none
  portA : ndR.ifaces[ia]? = some ra
  raEn : ra.enabled = true
  raPeer : ra.peer = some (a, 0)
  portB : ndR.ifaces[ib]? = some rb
  rbEn : rb.enabled = true
  rbPeer : rb.peer = some (b, 0)
  ownA : ifaceWithIp ndR.ifaces ra.ip = some ownA
  ownB : ifaceWithIp ndR.ifaces rb.ip = some ownB
  ab : a ≠ b
  ar : a ≠ r
  br : b ≠ r
  netAg : ifA.inNet ra.ip = true
  offAB : ifA.inNet ifB.ip = false
  netBg : ifB.inNet rb.ip = true
  offBA : ifB.inNet ifA.ip = false
  raA : ra.inNet ifA.ip = true
  rbB : rb.inNet ifB.ip = true
  feA : firstEnabledIn ndR.ifaces ifA.ip 0 = some ia
  feB : firstEnabledIn ndR.ifaces ifB.ip 0 = some ib
  fiB : firstIn ndR.ifaces ifB.ip 0 = some ib
  notOwnA : ifaceWithIp ndR.ifaces ifA.ip = none
  notOwnB : ifaceWithIp ndR.ifaces ifB.ip = none
  macA : ifA.mac ≠ bcastMac
  macB : ifB.mac ≠ bcastMac
  macRa : ra.mac ≠ bcastMac
  macRb : rb.mac ≠ bcastMac
  gNotNet : ra.ip ≠ ifA.netAddr
  gNotBc : ra.ip ≠ ifA.bcastAddr
  bNotNet : ifB.ip ≠ rb.netAddr
  bNotBc : ifB.ip ≠ rb.bcastAddr
  ipAg : ifA.ip ≠ ra.ip
  ipBg : ifB.ip ≠ rb.ip
  ipAB : ifA.ip ≠ ifB.ip
  coldA : ndA.arp = []
  coldR : ndR.arp = []
  coldB : ndB.arp = []

theorem arpGet_nil (nd : Node) (h : nd.arp = []) (ip : Ip) : nd.arpGet ip = none := by
  unfold Node.arpGet; rw [h]; rfl

theorem ifaceWithIp_single (ifc : Iface) (ip : Ip) (h : ifc.ip ≠ ip) : ifaceWithIp [ifc] ip = none := by
  simp [ifaceWithIp, h]

/-- **LIVENESS WITH COLD CACHES ACROSS ONE ROUTER.**  Host A — router — host B over direct links, every ARP cache empty:
`ping` (one echo) from A to B returns `True`.  Part of the statement: A resolves its gateway by ARP (the router learns A);
the router, holding A's echo request inside `process_frame`, resolves B by ARP (B learns the router's address, which is its
gateway) and forwards the request (TTL − 2); B learns "A ↦ the router's MAC" from the request, answers through its (already
learned) gateway; the router forwards the reply from its cache; A counts it.  For every fuel ≥ 16. -/
theorem C08_permitted_exchange_succeeds_cold_routed (fuel : Nat) (st : St) (a r b ia ib : Nat) (ndA ndR ndB : Node)
    (ifA ifB ra rb ownA ownB : Iface) (h : ColdRouted st a r b ia ib ndA ndR ndB ifA ifB ra rb ownA ownB)
    (hrep : replyCount ndA.replies st.nextId = none) (hlo : isLoopback ifB.ip = false) :
    (ping (fuel + 16) st a ifB.ip 1).2 = true := by
  generalize hst0 : ({ st with nextId := st.nextId + 1 } : St) = st0
  have S0 : Snap st0 (cfgOf st) a b r ndA ndB ndR := by rw [← hst0]; exact ⟨rfl, h.nodeA, h.nodeB, h.nodeR⟩
  have cgA := arpGet_nil ndA h.coldA
  have cgR := arpGet_nil ndR h.coldR
  have cgB := arpGet_nil ndB h.coldB
  have hgne : ifB.ip ≠ ra.ip := by intro e; have := h.offAB; rw [e, h.netAg] at this; cases this
  have hgne2 : ifA.ip ≠ rb.ip := by intro e; have := h.offBA; rw [e, h.netBg] at this; cases this
  -- (1) A resolves its gateway
  obtain ⟨Y1, hY1, SY1⟩ := host_router_arp (fuel + 4) st0 (cfgOf st) a r b ia ndA ndR ndB ifA ra ownA S0 h.ab h.ar h.ifsA h.enA h.peerA
    h.kindA h.onA (cgA ra.ip) h.netAg h.gNotNet h.gNotBc h.macA h.kindR h.onR h.fwR h.portA h.raEn h.raPeer h.ownA h.feA h.br
  have hgA : (ndA.addArp ra.ip ra.mac 0).arpGet ra.ip = some { ip := ra.ip, mac := ra.mac, ifc := 0 } :=
    arpGet_addArp_new ndA ra.ip ra.mac 0 (by rw [h.ifsA]; exact ifaceWithIp_single ifA ra.ip h.ipAg) (cgA ra.ip)
  rw [addArp_known _ _ _ _ _ hgA] at SY1
  generalize hA1 : ndA.addArp ra.ip ra.mac 0 = A1 at SY1 hgA
  have A1ifs : A1.ifaces = [ifA] := by rw [← hA1, addArp_ifaces]; exact h.ifsA
  have A1kind : A1.kind = .host := by rw [← hA1, addArp_kind]; exact h.kindA
  have A1on : A1.on = true := by rw [← hA1, addArp_on]; exact h.onA
  have A1gw : A1.gateway = some ra.ip := by rw [← hA1]; unfold Node.addArp; split; exact h.gwA; split <;> exact h.gwA
  have A1rep : A1.replies = ndA.replies := by rw [← hA1]; exact addArp_replies _ _ _ _
  have hgR1 : (ndR.addArp ifA.ip ifA.mac ia).arpGet ifA.ip = some { ip := ifA.ip, mac := ifA.mac, ifc := ia } :=
    arpGet_addArp_new ndR ifA.ip ifA.mac ia h.notOwnA (cgR ifA.ip)
  generalize hR1 : ndR.addArp ifA.ip ifA.mac ia = R1 at SY1 hgR1
  have R1ifs : R1.ifaces = ndR.ifaces := by rw [← hR1]; exact addArp_ifaces _ _ _ _
  have R1kind : R1.kind = .router := by rw [← hR1, addArp_kind]; exact h.kindR
  have R1on : R1.on = true := by rw [← hR1, addArp_on]; exact h.onR
  have R1fw : R1.fw = none := by rw [← hR1]; unfold Node.addArp; split; exact h.fwR; split <;> exact h.fwR
  have R1coldB : R1.arpGet ifB.ip = none := by rw [← hR1, arpGet_addArp_other _ _ _ _ _ (Ne.symm h.ipAB)]; exact cgR ifB.ip
  have hfeA : firstEnabledIn ndA.ifaces ifB.ip 0 = none := by simp [h.ifsA, firstEnabledIn, h.offAB]
  have hnext : hostArpNext ndA ra.ip false false = .go ra.ip true true := by
    unfold hostArpNext; simp [h.gwA]
  have hro0 : resolveOut (fuel + 16) st0 a ifB.ip = (Y1, some 0) := by
    have hne : (ifB.ip == ra.ip) = false := by simpa using hgne
    have hany : ndA.ifaces.any (·.enabled) = true := by simp [h.ifsA, h.enA]
    have hi1 : arpIfc (fuel + 15) st0 a ra.ip false false = (Y1, some 0) := by
      rw [arpIfc]
      simp only [S0.na, cgA ra.ip, h.kindA, arpNext, hnext, hY1]
      have : (Kind.host == Kind.router) = false := rfl
      simp only [this, Bool.false_eq_true, if_false]
      rw [arpIfc]
      simp only [SY1.na, hgA]
    simp only [resolveOut, S0.na, hfeA, h.kindA, h.gwA, hne, Bool.false_eq_true, if_false, hany, if_true, hi1]
  -- (2) A sends the echo request to the router's MAC
  have hY1ra : Y1.iface? r ia = some ra := by
    unfold St.iface?; have := SY1.ns; unfold St.node? at this; rw [this, Option.bind_some, R1ifs]; exact h.portA
  have hsend := host_send_warm (fuel + 13) Y1 a A1 ifA ra ifB.ip { ip := ra.ip, mac := ra.mac, ifc := 0 } (.echoReq st.nextId) r ia
    SY1.na A1kind A1ifs h.enA (Or.inr ⟨h.offAB, ra.ip, A1gw, h.netAg, hgA⟩) rfl h.peerA hY1ra h.raEn
  -- (3) the router asks for B and forwards
  generalize hX2 : ({ Y1 with nextId := Y1.nextId + 1 } : St) = X2 at hsend
  have SX2 : Snap X2 (cfgOf st) a b r A1 ndB R1 := by rw [← hX2]; exact SY1.nextId _
  generalize hE : mkFrame Y1 ifA ra.mac ifB.ip (.echoReq st.nextId) = E at hsend
  have Es : E.srcMac = ifA.mac ∧ E.dstMac = ra.mac ∧ E.srcIp = ifA.ip ∧ E.dstIp = ifB.ip ∧ E.ttl = 64 ∧ E.pl = .echoReq st.nextId := by
    rw [← hE]; exact ⟨rfl, rfl, rfl, rfl, rfl, rfl⟩
  obtain ⟨e1, e2, e3, e4, e5, e6⟩ := Es
  obtain ⟨Y2, hfwd, SY2⟩ := router_forward_cold fuel X2 (cfgOf st) a r b ia ib A1 R1 ndB ifB ra rb ownB E _ SX2 h.ab h.br h.ar
    R1kind R1on R1fw (by rw [R1ifs]; exact h.portA) (by rw [R1ifs]; exact h.portB) h.rbEn h.rbPeer (by rw [R1ifs]; exact h.ownB) h.macRb
    e2 h.macRa e4 (by rw [e6]; exact plain_router_permits R1 ia _ R1fw ⟨by simp, by simp, rfl⟩) (by rw [e3]; exact hgR1) (by rw [e5]; decide) (by rw [R1ifs]; exact h.notOwnB) R1coldB
    (by rw [R1ifs]; exact h.fiB) (by rw [R1ifs]; exact h.feB) h.rbB h.bNotNet h.bNotBc h.ifsB h.enB h.peerB h.kindB h.onB h.netBg
  have hf14 : fuel + 13 + 1 = fuel + 14 := rfl
  rw [hf14, hfwd] at hsend
  -- what the nodes know now
  have hgB1 : (ndB.addArp rb.ip rb.mac 0).arpGet rb.ip = some { ip := rb.ip, mac := rb.mac, ifc := 0 } :=
    arpGet_addArp_new ndB rb.ip rb.mac 0 (by rw [h.ifsB]; exact ifaceWithIp_single ifB rb.ip h.ipBg) (cgB rb.ip)
  have hgR2 : (R1.addArp ifB.ip ifB.mac ib).arpGet ifB.ip = some { ip := ifB.ip, mac := ifB.mac, ifc := ib } :=
    arpGet_addArp_new R1 ifB.ip ifB.mac ib (by rw [R1ifs]; exact h.notOwnB) R1coldB
  rw [addArp_known _ _ _ _ _ hgR2] at SY2
  generalize hB1 : ndB.addArp rb.ip rb.mac 0 = B1 at SY2 hgB1
  have B1ifs : B1.ifaces = [ifB] := by rw [← hB1, addArp_ifaces]; exact h.ifsB
  have B1kind : B1.kind = .host := by rw [← hB1, addArp_kind]; exact h.kindB
  have B1on : B1.on = true := by rw [← hB1, addArp_on]; exact h.onB
  have B1gw : B1.gateway = some rb.ip := by rw [← hB1]; unfold Node.addArp; split; exact h.gwB; split <;> exact h.gwB
  have B1coldA : B1.arpGet ifA.ip = none := by rw [← hB1, arpGet_addArp_other _ _ _ _ _ hgne2]; exact cgB ifA.ip
  generalize hR2 : R1.addArp ifB.ip ifB.mac ib = R2 at SY2 hgR2
  have R2ifs : R2.ifaces = ndR.ifaces := by rw [← hR2, addArp_ifaces]; exact R1ifs
  have R2kind : R2.kind = .router := by rw [← hR2, addArp_kind]; exact R1kind
  have R2on : R2.on = true := by rw [← hR2, addArp_on]; exact R1on
  have R2fw : R2.fw = none := by rw [← hR2]; unfold Node.addArp; split; exact R1fw; split <;> exact R1fw
  have R2A : R2.arpGet ifA.ip = some { ip := ifA.ip, mac := ifA.mac, ifc := ia } := by
    rw [← hR2, arpGet_addArp_other _ _ _ _ _ h.ipAB]; exact hgR1
  -- (4) B receives the request, learns "A ↦ the router", answers through its gateway
  generalize hX3 : Y2.emit (.hop r E.id E.dec.ttl) = X3 at hsend
  have SX3 : Snap X3 (cfgOf st) a b r A1 B1 R2 := by rw [← hX3]; exact SY2.emit _
  generalize hE2 : E.dec.dec.stamp rb.mac ifB.mac = E2 at hsend
  have E2s : E2.srcMac = rb.mac ∧ E2.dstMac = ifB.mac ∧ E2.srcIp = ifA.ip ∧ E2.dstIp = ifB.ip ∧ E2.ttl = 62 ∧ E2.pl = .echoReq st.nextId := by
    rw [← hE2]
    refine ⟨rfl, rfl, e3, e4, ?_, e6⟩
    show E.ttl - 1 - 1 = 62
    rw [e5]; rfl
  obtain ⟨g1, g2, g3, g4, g5, g6⟩ := E2s
  rw [host_end (fuel + 9) X3 b B1 ifB E2 SX3.nb B1kind B1ifs g2 h.macB g4 (by rw [g5]; decide)] at hsend
  rw [host_echo_req_any (fuel + 8) (X3.emit (.rx b 0 E2.id E2.ttl)) b B1 ifB E2.dec st.nextId (SX3.emit _).nb B1on B1ifs g6 g4] at hsend
  have hs1 : E2.dec.srcIp = ifA.ip := g3
  have hs2 : E2.dec.srcMac = rb.mac := g1
  rw [hs1, hs2] at hsend
  generalize hX4 : (((X3.emit (.rx b 0 E2.id E2.ttl)).modNode b (fun nd => nd.addArp ifA.ip rb.mac 0)).emit
    (.sw b E2.dec.id E2.dec.dstIp (E2.dec.dstMac == bcastMac))) = X4 at hsend
  have SX4 : Snap X4 (cfgOf st) a b r A1 (B1.addArp ifA.ip rb.mac 0) R2 := by
    rw [← hX4]; exact (((SX3.emit _).modB _ (fun nd => addArp_cfg nd _ _ _) h.ab h.br).emit _)
  generalize hB2 : B1.addArp ifA.ip rb.mac 0 = B2 at SX4
  have B2ifs : B2.ifaces = [ifB] := by rw [← hB2, addArp_ifaces]; exact B1ifs
  have B2kind : B2.kind = .host := by rw [← hB2, addArp_kind]; exact B1kind
  have B2gw : B2.gateway = some rb.ip := by rw [← hB2]; unfold Node.addArp; split; exact B1gw; split <;> exact B1gw
  have B2g : B2.arpGet rb.ip = some { ip := rb.ip, mac := rb.mac, ifc := 0 } := by
    rw [← hB2, arpGet_addArp_other _ _ _ _ _ (Ne.symm hgne2)]; exact hgB1
  have hrouteB : HostRoute B2 ifB ifA.ip { ip := rb.ip, mac := rb.mac, ifc := 0 } := Or.inr ⟨h.offBA, rb.ip, B2gw, h.netBg, B2g⟩
  obtain ⟨kB, hroB⟩ := host_resolveOut_warm (fuel + 6) X4 b B2 ifB ifA.ip _ SX4.nb B2kind B2ifs h.enB hrouteB
  simp only [hroB] at hsend
  have hX4rb : X4.iface? r ib = some rb := by
    unfold St.iface?; have := SX4.ns; unfold St.node? at this; rw [this, Option.bind_some, R2ifs]; exact h.portB
  rw [host_send_warm (fuel + 5) X4 b B2 ifB rb ifA.ip _ (.echoRep st.nextId) r ib SX4.nb B2kind B2ifs h.enB hrouteB rfl h.peerB hX4rb
    h.rbEn] at hsend
  -- (5) the router forwards the reply from its cache
  have hopR : Hop X4.nodes (.echoRep st.nextId) ifB.ip ifA.ip r ib rb.mac a 0 ra.mac ifA.mac :=
    ⟨⟨R2, rb, _, { ip := ifA.ip, mac := ifA.mac, ifc := ia }, ra, ifA, SX4.ns, R2kind,
      by unfold transitOk; rw [R2fw]; simp [R2on, plain_router_permits R2 ib (.echoRep st.nextId) R2fw ⟨by simp, by simp, rfl⟩],
      by rw [R2ifs]; exact h.portB, rfl, hgR2, by rw [R2ifs]; exact h.notOwnA, Or.inr (Or.inl ⟨R2A, h.raA⟩),
      by rw [R2ifs]; exact h.portA, h.raEn, h.raPeer,
      by have := SX4.na; unfold St.node? at this; rw [this, Option.bind_some, A1ifs]; rfl, h.enA, rfl, rfl⟩⟩
  have pBA : Path X4.nodes (.echoRep st.nextId) ifB.ip ifA.ip r ib ifB.mac rb.mac a 0 ra.mac ifA.mac (0 + 4) (0 + 2) :=
    Path.router hopR h.macA Path.arrive
  obtain ⟨L2, G, j2, Gs, Gd, Gp, _, Gm, Gt, _⟩ := journey pBA (fuel + 1) { X4 with nextId := X4.nextId + 1 }
    (mkFrame X4 ifB rb.mac ifA.ip (.echoRep st.nextId)) rfl rfl rfl rfl rfl h.macRb rfl (by simp [mkFrame, initTtl])
  have hfj : fuel + 5 + 1 = fuel + 1 + (0 + 4) + 1 := by omega
  rw [hfj, j2] at hsend
  -- (6) A counts the reply
  generalize hX6 : ({ ({ X4 with nextId := X4.nextId + 1 } : St) with
    log := L2 ++ ({ X4 with nextId := X4.nextId + 1 } : St).log } : St) = X6 at hsend
  have SX6 : Snap X6 (cfgOf st) a b r A1 B2 R2 := by rw [← hX6]; exact ⟨SX4.cfg, SX4.na, SX4.nb, SX4.ns⟩
  have Gttl : 2 ≤ G.ttl := by rw [Gt]; simp [mkFrame, initTtl]
  rw [host_end (fuel + 1) X6 a A1 ifA G SX6.na A1kind A1ifs Gm h.macA Gd Gttl] at hsend
  rw [host_echo_rep_any fuel (X6.emit (.rx a 0 G.id G.ttl)) a A1 ifA G.dec st.nextId (SX6.emit _).na A1on A1ifs Gp] at hsend
  -- (7) `ping` reads the counter
  have hfinal : (sendIcmp (fuel + 16) Y1 a ifB.ip (.echoReq st.nextId)).node? a =
      some { (A1.addArp G.dec.srcIp G.dec.srcMac 0) with replies := bumpReply (A1.addArp G.dec.srcIp G.dec.srcMac 0).replies st.nextId } := by
    have hf16 : fuel + 16 = fuel + 13 + 3 := by omega
    rw [hf16, hsend]
    simp only [node?_modNode, if_true, node?_emit, SX6.na, Option.map_some]
  unfold ping
  simp only [h.nodeA, h.onA, hlo, Bool.not_true, Bool.false_eq_true, if_false, List.range_one, List.foldl_cons, List.foldl_nil, hst0, hro0,
    hfinal, Bool.true_and]
  rw [addArp_replies, A1rep, replyCount_bump ndA.replies st.nextId hrep]
  rfl

/-! ### non-vacuity: `exNet` of `C08Addressee.lean` (host — router — host, cold) is such a network -/

def crA : Iface := { mac := 1, ip := 0xC0A80102#32, plen := 24, enabled := true, peer := some (1, 0) }
def crRa : Iface := { mac := 2, ip := 0xC0A80101#32, plen := 24, enabled := true, peer := some (0, 0) }
def crRb : Iface := { mac := 3, ip := 0xC0A80201#32, plen := 24, enabled := true, peer := some (2, 0) }
def crB : Iface := { mac := 4, ip := 0xC0A80202#32, plen := 24, enabled := true, peer := some (1, 1) }

theorem crRouted : ColdRouted exNet 0 1 2 0 1 exNet.nodes[0] exNet.nodes[1] exNet.nodes[2] crA crB crRa crRb crRa crRb :=
  { nodeA := rfl, kindA := rfl, onA := rfl, ifsA := rfl, enA := rfl, peerA := rfl, gwA := rfl, nodeB := rfl, kindB := rfl, onB := rfl,
    ifsB := rfl, enB := rfl, peerB := rfl, gwB := rfl, nodeR := rfl, kindR := rfl, onR := rfl, fwR := rfl, portA := rfl, raEn := rfl,
    raPeer := rfl, portB := rfl, rbEn := rfl, rbPeer := rfl, ownA := by decide, ownB := by decide, ab := by decide, ar := by decide,
    br := by decide, netAg := by decide, offAB := by decide, netBg := by decide, offBA := by decide, raA := by decide, rbB := by decide,
    feA := by decide, feB := by decide, fiB := by decide, notOwnA := by decide, notOwnB := by decide, macA := by decide,
    macB := by decide, macRa := by decide, macRb := by decide, gNotNet := by decide, gNotBc := by decide, bNotNet := by decide,
    bNotBc := by decide, ipAg := by decide, ipBg := by decide, ipAB := by decide, coldA := rfl, coldR := rfl, coldB := rfl }

/-- the theorem applies to it, at the smallest budget it allows … -/
example : (ping 16 exNet 0 crB.ip 1).2 = true :=
  C08_permitted_exchange_succeeds_cold_routed 0 exNet 0 1 2 0 1 _ _ _ crA crB crRa crRb crRa crRb crRouted rfl (by decide)
/-- … agrees with evaluation, and 15 levels are NOT enough (the bound of the theorem is tight for this network). -/
example : (ping 16 exNet 0 crB.ip 1).2 = true := by decide +kernel
example : (ping 15 exNet 0 crB.ip 1).1.oof = true := by decide +kernel

end Primaite.Forward
