/-
Property C15, second part: the Python-API entry points of the file system (`create_file(force)`, `copy_file`,
`move_file`, `add_file(force)`, `delete_*_by_id`, `remove_file_by_id`) keep the structural invariant `Inv` too, in any
interleaving with requests and ticks; what they answer; `num_access` and the per-tick counters under them; every
request path (truncated, over-long, unknown) gets an answer that the model states.
-/
import PrimaiteModel.Lemmas.FileSystemApi
import PrimaiteModel.Props.C15
import PrimaiteModel.Gen.FileSystemMethods
namespace Primaite.FileSystem

/-! ### Inv under the API operations -/

/-- The side condition of an operation: only a `move_file` that really moves has one (the moved file's uuid is not already
in the destination folder — cross-folder uuid disjointness is not part of `Inv`); a move within one folder or onto a live
namesake, being a no-op, has none. -/
def AnyOp.ok (s : State) : AnyOp → Prop
  | .api (.moveFile F x G) => MoveFresh s F x G
  | _ => True

/-- A `move_file` within one folder meets the side condition by itself (it is a no-op: the folder has a live file of
that name — the file itself), and so does a move of a file that does not exist. -/
theorem C15_api_move_within_folder_ok (s : State) (F x : Name) : MoveFresh s F x F := by
  intro f hf hnone
  exfalso
  unfold getFile at hf
  cases hsrc : getFolder s F with
  | none => rw [hsrc] at hf; simp at hf
  | some src =>
    rw [hsrc] at hf
    simp only at hf
    have hdst : (getOrCreateFolder s F).2 = src := by unfold getOrCreateFolder; rw [hsrc]
    rw [hdst, (getFile_live hf).2, hf] at hnone
    simp at hnone

theorem C15_api_move_missing_ok (s : State) (F x G : Name) (h : getFile s F x = none) : MoveFresh s F x G := by
  intro f hf; rw [h] at hf; simp at hf

/-- Every API operation keeps `Inv` (for `move_file`: given that the moved uuid is new to the destination).
(Round 3: `Props/C15Disjoint.lean` proves that side condition in every reachable state — `C15_inv2_api_step`,
`C15_any_inv_reachable_full` are the unconditional forms.) -/
theorem C15_api_inv_step_partial {s : State} (h : Inv s) (op : ApiOp) (hok : AnyOp.ok s (.api op)) : Inv (stepApi s op).1 := by
  cases op with
  | createFile F x force => exact inv_apiCreateFile h F x force
  | copyFile F x G => exact inv_apiCopyFile h F x G
  | moveFile F x G => exact inv_apiMoveFile h F x G hok
  | addFile F x force => exact inv_apiAddFile h F x force
  | deleteFileById i j => exact inv_apiDeleteFileById h i j
  | deleteFolderById i => exact inv_apiDeleteFolderById h i
  | removeFileById i j => exact inv_apiRemoveFileById h i j

/-- Without `move_file` no side condition is needed. -/
theorem C15_api_inv_step {s : State} (h : Inv s) (op : ApiOp) (hm : ∀ F x G, op ≠ .moveFile F x G) : Inv (stepApi s op).1 := by
  apply C15_api_inv_step_partial h op
  cases op <;> first | trivial | exact absurd rfl (hm _ _ _)

/-- The side conditions along a run. -/
def runOk (s : State) : List AnyOp → Prop
  | [] => True
  | op :: ops => AnyOp.ok s op ∧ runOk (stepAny s op).1 ops

theorem C15_any_inv_step {s : State} (h : Inv s) (op : AnyOp) (hok : AnyOp.ok s op) : Inv (stepAny s op).1 := by
  cases op with
  | req op => exact C15_inv_step h op
  | api op => exact C15_api_inv_step_partial h op hok

/-- Requests, ticks and API calls in ANY interleaving keep `Inv`. -/
theorem C15_any_inv_run {s : State} (h : Inv s) (ops : List AnyOp) (hok : runOk s ops) : Inv (runAny s ops).1 := by
  induction ops generalizing s with
  | nil => exact h
  | cons op ops ih => exact ih (C15_any_inv_step h op hok.1) hok.2

theorem C15_any_inv_reachable (d : Option Int) (ops : List AnyOp) (hok : runOk (init d) ops) :
    Inv (runAny (init d) ops).1 :=
  C15_any_inv_run (C15_inv_init d) ops hok

/-- Non-vacuity: a run with a copy onto a live namesake, a forced add onto a live namesake and a real move; the side
condition holds and the result has the copy live, the namesakes deleted, the moved file in its new folder only. -/
def exOps4 : List AnyOp := [.req (.createFile "fa" "a" false), .req (.createFile "fb" "a" false),
  .api (.copyFile "fa" "a" "fb"), .api (.addFile "fa" "a" true)]

example :
    runOk (init none) (exOps4 ++ [.api (.moveFile "fb" "a" "fc")]) ∧
    ((runAny (init none) (exOps4 ++ [.api (.moveFile "fb" "a" "fc")])).1.folders.map
        fun g => (g.name, g.files.map File.id, g.deletedFiles.map File.id)) =
      [("root", [], []), ("fa", [6], [2]), ("fb", [], [4]), ("fc", [5], [])] := by
  refine ⟨⟨trivial, trivial, trivial, trivial, ?_, trivial⟩, by decide⟩
  intro f _ _ a ha
  have e1 : (getOrCreateFolder (runAny (init none) exOps4).1 "fc").2.files = [] := by decide
  have e2 : (getOrCreateFolder (runAny (init none) exOps4).1 "fc").2.deletedFiles = [] := by decide
  have ha' : a ∈ (getOrCreateFolder (runAny (init none) exOps4).1 "fc").2.files ∨
      a ∈ (getOrCreateFolder (runAny (init none) exOps4).1 "fc").2.deletedFiles := ha
  rw [e1, e2] at ha'
  simp at ha'

/-- Why the two repairs were needed (the model of the code BEFORE them, in miniature): adding a second live file of a
live name with plain `addFile` — what `add_file(force=True)` did — breaks the invariant. -/
theorem C15_forced_add_without_removal_counterexample :
    ∃ g f, FolderInv g ∧ ¬ FolderInv (g.addFile f) := by
  refine ⟨{ id := 1, name := "fa", files := [{ id := 2, name := "a" }], fileRoutes := [("a", 2)] }, { id := 3, name := "a" }, ?_, ?_⟩
  · constructor <;> simp [lookupRoute]
  · intro h
    have := h.uniqueNames { id := 2, name := "a" } (by simp [Folder.addFile, dictSet]) { id := 3, name := "a" }
      (by simp [Folder.addFile, dictSet]) rfl
    simp at this

/-! ### what the API operations answer -/

theorem createFileIn_out (s : State) (g : Folder) (x : Name) : (createFileIn s g x).2 = .success := by
  unfold createFileIn; split <;> rfl

/-- `create_file`'s target step leaves the state alone, or has just created an (empty) folder. -/
theorem createFileTarget_unchanged_or_fresh (s : State) (F : Name) :
    (createFileTarget s F).1 = s ∨ (∃ g, (createFileTarget s F).2 = some g ∧ g.files = []) := by
  unfold createFileTarget
  by_cases hF : F = ""
  · left; simp [hF]
  · simp only [ne_eq, hF, not_false_eq_true, if_true]
    cases hg : getFolder s F with
    | some g => left; rfl
    | none =>
      right
      refine ⟨(createFolder s F).2, rfl, ?_⟩
      rw [createFolder_eq, hg]
      obtain ⟨_, _, _, f4, _⟩ := setDur_fields s { id := s.next, name := F }
      exact f4

/-- An API call that raises has changed nothing. -/
theorem C15_api_raise_changes_nothing (s : State) (op : ApiOp) (hr : (stepApi s op).2 = .raised) : (stepApi s op).1 = s := by
  cases op with
  | createFile F x force =>
    simp only [stepApi, apiCreateFile] at hr ⊢
    rcases createFileTarget_unchanged_or_fresh s F with h1 | ⟨g, hg, hfiles⟩
    · cases heq : createFileTarget s F with
      | mk s1 og =>
        rw [heq] at hr h1
        have h1' : s1 = s := h1
        subst h1'
        cases og with
        | none => rfl
        | some g =>
          simp only at hr ⊢
          split
          · rfl
          · rename_i hc; rw [if_neg hc, createFileIn_out] at hr; simp at hr
    · cases heq : createFileTarget s F with
      | mk s1 og =>
        rw [heq] at hr hg
        have hg' : og = some g := hg
        subst hg'
        simp only at hr
        have hnone : (g.getFile x).isSome = false := by simp [Folder.getFile, hfiles]
        rw [hnone] at hr
        simp only [Bool.false_and, Bool.false_eq_true, if_false] at hr
        rw [createFileIn_out] at hr; simp at hr
  | copyFile F x G => simp only [stepApi, apiCopyFile] at hr; split at hr <;> simp at hr
  | moveFile F x G =>
    simp only [stepApi, apiMoveFile] at hr
    split at hr
    · simp at hr
    · split at hr
      · simp at hr
      · split at hr <;> simp at hr
  | addFile F x force =>
    simp only [stepApi, apiAddFile] at hr ⊢
    split
    · rfl
    · split
      · rfl
      · rename_i hF _ _ hA
        rw [hF] at hr; simp only [hA] at hr; simp at hr
  | deleteFileById i j =>
    simp only [stepApi, apiDeleteFileById] at hr
    split at hr
    · simp at hr
    · split at hr <;> simp at hr
  | deleteFolderById i =>
    simp only [stepApi, apiDeleteFolderById] at hr ⊢
    split
    · rfl
    · rename_i hF; rw [hF] at hr; simp at hr
  | removeFileById i j =>
    simp only [stepApi, apiRemoveFileById] at hr ⊢
    split
    · rfl
    · split
      · rfl
      · rename_i hF _ _ hA; rw [hF] at hr; simp only [hA] at hr; simp at hr

/-- `create_file(force=True)` called directly is exactly the forced create request; an unforced direct create of a name
that is not live is exactly the unforced request. -/
theorem C15_api_create_is_request (s : State) (F x : Name) :
    apiCreateFile s F x true = createFile s F x true := by
  unfold apiCreateFile createFile
  generalize createFileTarget s F = r
  obtain ⟨s1, og⟩ := r
  cases og <;> simp

/-- `copy_file` and `move_file` never raise; `copy_file` of an existing file counts one creation. -/
theorem C15_api_copy_move_never_raise (s : State) (F x G : Name) :
    (stepApi s (.copyFile F x G)).2 = .success ∧ (stepApi s (.moveFile F x G)).2 = .success := by
  constructor
  · simp only [stepApi, apiCopyFile]; split <;> rfl
  · simp only [stepApi, apiMoveFile]
    split
    · rfl
    · split
      · rfl
      · split <;> rfl

/-- After `move_file` that found its file and a destination without a live namesake, the file is live in the
destination, no longer in the source (neither live nor deleted there unless it was before), and not flagged. -/
theorem C15_api_move_moves {s : State} (h : Inv s) {src : Folder} {f : File} {F x G : Name}
    (hsrc : getFolder s F = some src) (hf : src.getFile x = some f)
    (hfree : ((getOrCreateFolder s G).2.getFile f.name) = none) :
    ∃ dst ∈ (apiMoveFile s F x G).1.folders, dst.name = G ∧ f ∈ dst.files ∧ f.deleted = false ∧
      ∃ src' ∈ (apiMoveFile s F x G).1.folders, src'.id = src.id ∧ ∀ a ∈ src'.files, a.id ≠ f.id := by
  obtain ⟨hsm, _⟩ := getFolder_live hsrc
  obtain ⟨hfm, _⟩ := getFile_live hf
  have hfl : f.deleted = false := (h.folder src (Or.inl hsm)).1.liveFlag f hfm
  obtain ⟨h1, hm, hn, _⟩ := getOrCreateFolder_spec h G
  have hsm1 : src ∈ (getOrCreateFolder s G).1.folders := by
    unfold getOrCreateFolder
    cases hg : getFolder s G with
    | some g => exact hsm
    | none =>
      rw [createFolder_eq, hg]
      simp only
      refine (mem_dictSet Folder.id).mpr (Or.inr ⟨hsm, ?_⟩)
      obtain ⟨f1, _⟩ := setDur_fields s { id := s.next, name := G }
      rw [f1]
      exact Nat.ne_of_lt (h.folder src (Or.inl hsm)).2.2
  have hne : (getOrCreateFolder s G).2.id ≠ src.id := by
    intro e
    have := folder_eq_of_id h1 hsm1 (Or.inl hm) e
    rw [this] at hfree
    exact getFile_none hfree f hfm rfl
  unfold apiMoveFile
  rw [hsrc]; simp only [hf]
  rw [hfree]
  simp only [Option.isSome_none, Bool.false_eq_true, if_false]
  generalize getOrCreateFolder s G = r at h1 hm hn hsm1 hne ⊢
  have hb1 : (r.2.id == src.id) = false := by simpa using hne
  have hb2 : (src.id == r.2.id) = false := by simpa using fun e => hne e.symm
  refine ⟨r.2.addFile f, ?_, ?_, ?_, hfl, { src with files := dictPop File.id src.files f.id }, ?_, rfl, ?_⟩
  · show _ ∈ (updFolder (updFolder r.1 src.id _) r.2.id _).folders
    unfold updFolder
    refine List.mem_map.mpr ⟨r.2, List.mem_map.mpr ⟨r.2, hm, by simp [hb1]⟩, by simp⟩
  · simp [Folder.addFile]; exact hn
  · simp only [Folder.addFile]; exact (mem_dictSet File.id).mpr (Or.inl rfl)
  · show _ ∈ (updFolder (updFolder r.1 src.id _) r.2.id _).folders
    unfold updFolder
    refine List.mem_map.mpr ⟨{ src with files := dictPop File.id src.files f.id }, List.mem_map.mpr ⟨src, hsm1, by simp⟩, by simp [hb2]⟩
  · intro a ha
    exact ((mem_dictPop File.id).mp ha).2

/-! ### no item is lost under the API operations -/

theorem folderKeeps_addFileForced (g : Folder) (f : File) : FolderKeeps g (g.addFileForced f) := by
  unfold Folder.addFileForced
  split
  · split
    · exact (folderKeeps_removeFile g _).trans (folderKeeps_addFile _ f)
    · exact folderKeeps_addFile g f
  · exact folderKeeps_addFile g f

theorem keeps_getOrCreateFolder {s : State} (h : Inv s) (G : Name) : Keeps s (getOrCreateFolder s G).1 := by
  unfold getOrCreateFolder
  split
  · exact Keeps.refl s
  · exact keeps_createFolder h G

/-- Every API operation other than `move_file` keeps every folder uuid and, per folder, every file uuid ("never
neither"); a forced add moves the replaced namesake to the deleted dictionary, it does not drop it. (`move_file` takes
the file out of its folder by design: see `C15_api_move_moves`.) -/
theorem C15_api_no_item_lost {s : State} (h : Inv s) (op : ApiOp) (hm : ∀ F x G, op ≠ .moveFile F x G) :
    Keeps s (stepApi s op).1 := by
  cases op with
  | moveFile F x G => exact absurd rfl (hm F x G)
  | createFile F x force =>
    simp only [stepApi, apiCreateFile]
    have kt : Keeps s (createFileTarget s F).1 := by
      unfold createFileTarget
      split
      · cases getFolder s F with
        | some g => exact Keeps.refl s
        | none => exact keeps_createFolder h F
      · exact Keeps.refl s
    cases heq : createFileTarget s F with
    | mk s1 og =>
      rw [heq] at kt
      cases og with
      | none => exact kt
      | some g =>
        simp only
        split
        · exact kt
        · refine kt.trans ?_
          unfold createFileIn
          cases g.getFile x with
          | some f =>
            exact keeps_updFolder g.id (fun g => g.addFile f) rfl rfl (fun g0 _ _ => ⟨rfl, folderKeeps_addFile g0 f⟩)
          | none =>
            exact keeps_updFolder g.id (fun g => g.addFile { id := s1.next, name := x }) rfl rfl
              (fun g0 _ _ => ⟨rfl, folderKeeps_addFile g0 _⟩)
  | copyFile F x G =>
    simp only [stepApi, apiCopyFile]
    cases getFile s F x with
    | none => exact Keeps.refl s
    | some f =>
      refine (keeps_getOrCreateFolder h G).trans ?_
      exact keeps_updFolder (getOrCreateFolder s G).2.id _ rfl rfl
        (fun g0 _ _ => ⟨(addFileForced_meta g0 _).1, folderKeeps_addFileForced g0 _⟩)
  | addFile F x force =>
    simp only [stepApi, apiAddFile]
    cases getFolder s F with
    | none => exact Keeps.refl s
    | some g =>
      simp only
      split
      · exact Keeps.refl s
      · exact keeps_updFolder g.id _ rfl rfl (fun g0 _ _ => ⟨(addFileForced_meta g0 _).1, folderKeeps_addFileForced g0 _⟩)
  | deleteFileById i j =>
    simp only [stepApi, apiDeleteFileById]
    split
    · exact Keeps.refl s
    · split
      · exact Keeps.refl s
      · exact keeps_step h (.deleteFile _ _)
  | deleteFolderById i =>
    simp only [stepApi, apiDeleteFolderById]
    split
    · exact Keeps.refl s
    · exact keeps_step h (.deleteFolder _)
  | removeFileById i j =>
    simp only [stepApi, apiRemoveFileById]
    split
    · exact Keeps.refl s
    · split
      · exact Keeps.refl s
      · exact keeps_updFolder _ _ rfl rfl (fun g0 _ _ => ⟨removeFile_id g0 _, folderKeeps_removeFile g0 _⟩)

/-! ### counters and `num_access` -/

/-- `pre_timestep` starts the tick with `num_access = 0` on every live file of every live folder — whatever requests
and API calls came before (files in `deleted_files` and files of deleted folders are NOT reset: they keep the access
their deletion counted; stated as the code is). -/
theorem C15_num_access_zero_at_tick_start (x : XState) :
    ∀ g ∈ (stepX x .preTick).1.s.folders, ∀ f ∈ g.files, (stepX x .preTick).1.acc f.id = 0 := by
  intro g hg f hf
  have hs : (stepX x .preTick).1.s.folders = x.s.folders := rfl
  rw [hs] at hg
  have hany : x.s.folders.any (fun g => g.files.any (fun y => y.id == f.id)) = true := by
    simp only [List.any_eq_true, beq_iff_eq]
    exact ⟨g, hg, f, hf, rfl⟩
  show (if x.s.folders.any (fun g => g.files.any (fun y => y.id == f.id)) = true then 0 else _) = 0
  rw [if_pos hany]

/-- and both per-tick counters are zero then, also when the history contains API calls. -/
theorem C15_counters_zero_at_tick_start_any (s : State) (ops : List AnyOp) :
    (step (runAny s ops).1 .preTick).1.numCreations = 0 ∧ (step (runAny s ops).1 .preTick).1.numDeletions = 0 :=
  ⟨rfl, rfl⟩

/-- A successful `access` request counts exactly one access, on the file it names. -/
theorem C15_access_counts (x : XState) {F n : Name} {f : File} (hf : getFile x.s F n = some f) :
    (stepX x (.access F n)).2 = .success ∧ (stepX x (.access F n)).1.acc f.id = x.acc f.id + 1 ∧
    ∀ i, i ≠ f.id → (stepX x (.access F n)).1.acc i = x.acc i := by
  refine ⟨?_, ?_, ?_⟩
  · show (access x.s F n).2 = .success
    simp [access, hf, ofBool]
  · show bump x.acc (reqTouch x (.access F n)) f.id = _
    simp [bump, reqTouch, hf]
  · intro i hi
    show bump x.acc (reqTouch x (.access F n)) i = _
    simp only [bump, reqTouch, hf]
    rw [List.count_eq_zero.mpr (by simp; exact hi)]; rfl

/-- The ledger never influences the structure or an answer: the structural component of the extended step is the
structural step. -/
theorem C15_ledger_is_passive (x : XState) (op : AnyOp) :
    (stepXAny x op).1.s = (stepAny x.s op).1 ∧ (stepXAny x op).2 = (stepAny x.s op).2 := by
  cases op <;> exact ⟨rfl, rfl⟩

/-- The counters under the API calls, as the code counts them: `copy_file` of an existing file is one creation,
a performed `move_file` one deletion and one creation. -/
theorem C15_api_copy_counts (s : State) (F x G : Name) (f : File) (hf : getFile s F x = some f) :
    (stepApi s (.copyFile F x G)).1.numCreations = s.numCreations + 1 ∧
    (stepApi s (.copyFile F x G)).1.numDeletions = s.numDeletions := by
  simp only [stepApi, apiCopyFile, hf]
  have hc : (getOrCreateFolder s G).1.numCreations = s.numCreations ∧ (getOrCreateFolder s G).1.numDeletions = s.numDeletions := by
    unfold getOrCreateFolder
    split
    · exact ⟨rfl, rfl⟩
    · exact createFolder_counters s G
  exact ⟨by simp [hc.1], by simp [updFolder, hc.2]⟩

/-! ### translator tie: the two Folder methods that carry the repairs, translated from the source, ARE the model -/

/-- `Folder.restore_file` as translated statement by statement from folder.py is the model's `Folder.restoreFile`,
for every folder and name (semantic tie: replaces the textual snapshot of this method). -/
theorem C15_gen_restore_file (g : Folder) (n : Name) :
    Gen.FileSystemMethods.folderRestoreFile g n = g.restoreFile n := by
  unfold Gen.FileSystemMethods.folderRestoreFile Folder.restoreFile
  cases g.getFile n true <;> simp [File.restore]

/-- `Folder.add_file` as translated from folder.py is the model's `Folder.addFileApi` (refusals, forced replacement of
a live namesake, registration), for every folder, file and force flag. -/
theorem C15_gen_add_file (g : Folder) (f : File) (force : Bool) :
    Gen.FileSystemMethods.folderAddFile g f force = g.addFileApi f force := by
  unfold Gen.FileSystemMethods.folderAddFile Folder.addFileApi Folder.addFileForced Folder.addFile
  cases hg : g.getFile f.name false <;> cases force <;> simp [hg]
  all_goals (split <;> simp_all [Folder.addFile])

/-- The model's request-level `create_file` uses `addFile` directly; that is what `add_file` does in both situations it
is called in (re-adding the file `get_file` found, or adding a new file whose name is not live). -/
theorem C15_create_file_uses_add_file (g : Folder) (x : Name) (i : Nat) :
    (∀ f, g.getFile x = some f → g.addFileApi f true = some (g.addFile f)) ∧
    (g.getFile x = none → ∀ force, (∀ y ∈ g.files, y.id ≠ i) → g.addFileApi { id := i, name := x } force = some (g.addFile { id := i, name := x })) := by
  constructor
  · intro f hf
    simp [Folder.addFileApi, addFileForced_existing hf]
  · intro hf force hid
    have hany : g.files.any (fun y => y.id == i) = false := by
      simp only [List.any_eq_false, beq_iff_eq]; exact fun y hy => hid y hy
    simp [Folder.addFileApi, hf, hany, addFileForced_new (f := { id := i, name := x }) hf]

/-! ### every request path is answered -/

/-- `resolve` extends `ofRequest`: a well-formed path denotes the same operation. -/
theorem C15_resolve_extends (s : State) (req : List String) (op : Op) (h : ofRequest req = some op) :
    resolve s req = .inl op := by
  unfold ofRequest at h
  split at h
  all_goals first
    | (simp only [Option.some.injEq] at h; subst h; simp [resolve]; done)
    | (split at h
       · simp at h
       · rename_i hv
         simp only [Option.some.injEq] at h; subst h; simp only [not_or] at hv; simp [resolve, hv.1, hv.2])
    | simp at h

/-- Malformed paths on the initial file system: a leaf handler that lacks an option answers `failure` (it used to raise
`IndexError`: repair F-C05-2), like a validator that lacks one; an empty path or an unknown key is `unreachable`; some truncated
paths are operations with an unknown verb; trailing extra elements are ignored. -/
example :
    resolve (init none) ["create", "file", "fa"] = .inr .failure ∧ resolve (init none) ["create", "folder"] = .inr .failure ∧
    resolve (init none) ["restore", "file", "root"] = .inr .failure ∧ resolve (init none) ["restore", "folder"] = .inr .failure ∧
    resolve (init none) ["access", "root"] = .inr .failure ∧ resolve (init none) ["folder", "root", "delete"] = .inr .failure ∧
    resolve (init none) ["folder", "nosuch", "delete"] = .inr .failure ∧
    resolve (init none) [] = .inr .unreachable ∧ resolve (init none) ["delete", "file", "root"] = .inr .failure ∧
    resolve (init none) ["folder"] = .inr .failure ∧ resolve (init none) ["folder", "root", "file"] = .inr .failure ∧
    resolve (init none) ["folder", "root"] = .inl (.folderVerb "root" .other) ∧
    resolve (init none) ["create", "folder", "x", "extra"] = .inl (.createFolder "x") := by
  decide

end Primaite.FileSystem
