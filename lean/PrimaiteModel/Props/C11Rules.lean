/-
C11 — the mask bit, spelled out with the MEANING of the permission rules as read from the source.

`Props/C11.lean` proves mask = reaches-handler for an abstract valuation of the validators.  Here the valuation is the one induced
by the regenerated translation of every `RequestPermissionValidator.__call__` (Gen/RequestValidators.lean, proved equal to the
declarative specification `Guards.holds` in Props/C05Guards.lean), evaluated with the falsy context `{}` that `action_mask`
passes: bit `i` is set exactly when the target of action number `i` exists and EVERY rule along its path — host is on, service is
running / stopped / paused / disabled, application is running, interface is enabled / disabled, folder exists and is not deleted,
file exists and is not deleted — holds on the component that rule is bound to, FOR THE OPTIONS OF THAT REQUEST.
-/
import PrimaiteModel.Props.C11
import PrimaiteModel.Props.C05Guards
namespace Primaite.Request
open Primaite.Mask Primaite.Guards Primaite.Schema

/-- **The property's first sentence on the model, with the rules' meaning from the source.**  For every request tree, every
assignment of rule lists (`vn`) and bound components (`bind`) to the edges, every `form_request`, every well-numbered action map
in any listing order: the mask has one bit per action number and bit `i` = "the path of action `i` exists ∧ every rule of every
validator on it holds (specification) for the options that validator is given". -/
theorem C11_mask_bit_iff_rules_hold {α} (vn : VId → Validator) (bind : VId → VSelf) (kids : Kids) (form : α → List Key)
    (amap : List (Nat × α)) (h : WellNumbered amap) :
    ∃ r, actionMask (fun a => checkValidK (envOf vn bind none) kids (form a)) amap = some r ∧ r.length = amap.length ∧
      ∀ i, i < amap.length → ∃ a, actionOf amap i = some a ∧
        r[i]? = some (pathExistsK kids (form a) &&
          (validatorsOnK kids (form a)).all (fun va => holdsAll (vn va.1) (bind va.1) va.2 none)) := by
  obtain ⟨r, hr, hl, hb⟩ := C11_mask_by_action_number (fun a => checkValidK (envOf vn bind none) kids (form a)) amap h
  refine ⟨r, hr, hl, ?_⟩
  intro i hi
  obtain ⟨a, ha, hv⟩ := hb i hi
  refine ⟨a, ha, ?_⟩
  rw [hv, C11_mask_iff_reaches_K (envOf vn bind none) kids (form a) 0, C05_reaches_iff_rules_hold]

/-- a masked-out action: its target is missing or some rule on its path is false — and that rule can be named -/
theorem C11_masked_out_names_a_false_rule (vn : VId → Validator) (bind : VId → VSelf) (kids : Kids) (p : List Key)
    (h : checkValidK (envOf vn bind none) kids p = false) :
    pathExistsK kids p = false ∨
      ∃ v args a, (v, args) ∈ validatorsOnK kids p ∧ a ∈ vn v ∧ holds a (bind v) args none = false := by
  rw [C11_mask_iff_reaches_K (envOf vn bind none) kids p 0, C05_reaches_iff_rules_hold] at h
  cases hp : pathExistsK kids p with
  | false => exact Or.inl rfl
  | true =>
    right
    rw [hp, Bool.true_and, List.all_eq_false] at h
    obtain ⟨va, hva, hf⟩ := h
    have hf' : holdsAll (vn va.1) (bind va.1) va.2 none = false := by simpa using hf
    unfold holdsAll at hf'
    rw [List.all_eq_false] at hf'
    obtain ⟨a, ha, hfa⟩ := hf'
    exact ⟨va.1, va.2, a, hva, ha, by simpa using hfa⟩

/-! #### non-vacuity: the route of `node-file-scan` with the code's rule lists, two files of one folder in different conditions -/

/-- `node pc` (0: node is on) → `file_system` (1) → `folder` (2: exists + not deleted, by NAME) → `docs` (3) → `file` (4: exists +
not deleted, by NAME) → `a.txt` / `b.txt` (5, 6) → `scan` (7, 8) -/
def exRoute : Kids :=
  [("pc", 0, .node [("file_system", 1, .node [("folder", 2, .node [("docs", 3, .node [("file", 4, .node
    [("a.txt", 5, .node [("scan", 7, .leaf 0)]), ("b.txt", 6, .node [("scan", 8, .leaf 1)])])])])])])]
def exVn : VId → Validator
  | 0 => [.nodeIsOn] | 2 => [.folderExists, .folderNotDeleted] | 4 => [.folderFileExists, .fileNotDeleted] | _ => []
/-- `a.txt` has been deleted (it sits in `deleted_files` with the flag set), `b.txt` has not -/
def exDocs : FolderS := ⟨"docs", false, [⟨"b.txt", false⟩], [⟨"a.txt", true⟩]⟩
def exBind : VId → VSelf := fun _ => { file_system := ⟨[exDocs], []⟩, folder := exDocs }
def exMap : List (Nat × List Key) :=
  [(1, ["pc", "file_system", "folder", "docs", "file", "b.txt", "scan"]), (0, ["pc", "file_system", "folder", "docs", "file", "a.txt", "scan"])]

example : actionMask (fun a => checkValidK (envOf exVn exBind none) exRoute a) exMap = some [false, true] := by decide
/-- the same host shutting down: every entry behind the host's rule is masked out -/
example : actionMask (fun a => checkValidK (envOf exVn (fun _ => { exBind 0 with node := ⟨"SHUTTING_DOWN"⟩ }) none) exRoute a) exMap
    = some [false, false] := by decide

end Primaite.Request

/-! ### for the REGENERATED schema and action templates: an action on present components is masked only by its own guards -/
namespace Primaite.Request
open Primaite.Guards Primaite.Schema
open Primaite.Gen.RequestSchema (schema)
open Primaite.Gen.ActionTemplates (templates)

/-- If the parameters of an action (any regenerated template, any component class it can address) name PRESENT components and the
mask still marks it unavailable, then one of THAT ACTION'S documented guards (`expectedGuards`, the contract table) is false —
its specification, on the component its validator is bound to, for the options of this request.  (The other reason for a 0 bit,
"its target does not exist", is the negation of `present`.) -/
theorem C11_present_action_masked_only_by_its_own_guard (vn : VId → Validator) (bind : VId → VSelf)
    (inv : Inv) (kids : Kids) (hinst : Inst schema vn rootMgr inv kids) (t : Template) (ht : t ∈ templates) (c : String)
    (hc : c ∈ addressable schema t) (ρ : String → Key)
    (hpres : present schema (pickNode schema c) rootMgr inv t.segs ρ = true)
    (h : checkValidK (envOf vn bind none) kids (instantiate ρ t.segs) = false) :
    ∃ args a v, a ∈ (if t.fallback then [] else expectedGuards t.action) ∧ a ∈ vn v ∧ holds a (bind v) args none = false := by
  rw [C11_mask_iff_reaches_K (envOf vn bind none) kids (instantiate ρ t.segs) 0] at h
  cases hd : dispatchK (envOf vn bind none) kids (instantiate ρ t.segs) 0 with
  | unreachable d' =>
    exact absurd hd (C05_regenerated_action_never_unreachable vn inv kids hinst t ht c hc ρ hpres _ 0 d')
  | failure d' v =>
    obtain ⟨args, a, h1, h2, h3⟩ := C05_action_refusal_is_false_expected_guard vn bind none inv kids hinst t ht c hc ρ hpres 0 d' v hd
    exact ⟨args, a, v, h1, h2, h3⟩
  | reached hh a => rw [hd] at h; simp [Outcome.isReached] at h

end Primaite.Request
