/-
C05 (permission rules) — every `RequestPermissionValidator.__call__`, translated from the source (Gen/RequestValidators.lean),
computes exactly the specification of the rule it is named after (`Guards.holds`, Model/RequestGuards.lean); hence the facts
about `failure` (`C05_failure_is_own_rule`, `C05_refusal_is_expected_guard`) can be stated over the TRANSLATED predicates
evaluated on the component each live validator is bound to: a refusal names a rule of the request's own route whose
translated predicate is false on its own component for the options it was given, all earlier rules of the route holding.
-/
import PrimaiteModel.Model.RequestGuards
import PrimaiteModel.Gen.RequestValidators
import PrimaiteModel.Props.C05Schema
namespace Primaite.Guards
open Primaite.Request
open Primaite.Schema (VAtom Validator)
open Primaite.Gen.RequestValidators

/-! ### the translated look-ups are the specified look-ups -/

theorem find?_isSome_eq_any {α} (l : List α) (p : α → Bool) : (l.find? p).isSome = l.any p := by
  induction l with
  | nil => simp
  | cons x xs ih =>
    simp only [List.find?, List.any_cons]
    cases hp : p x <;> simp [ih]

theorem get_folder_spec (fs : FsS) (k : Key) (incl : Bool) : FileSystem_get_folder fs k incl = fs.folder? k incl := by
  unfold FileSystem_get_folder FsS.folder?
  cases h : fs.folders.find? (fun f => f.name == k) with
  | some f => rfl
  | none =>
    cases incl with
    | false => simp
    | true =>
      simp only [if_true]
      cases h' : fs.deleted_folders.find? (fun f => f.name == k) <;> rfl

theorem get_file_live_spec (fo : FolderS) (k : Key) : Folder_get_file fo k false = fo.file? k := by
  unfold Folder_get_file FolderS.file?
  cases h : fo.files.find? (fun f => f.name == k) with
  | some f => rfl
  | none => simp

/-! ### every translated `__call__` meets the specification of its rule (all components, all options, all contexts) -/

theorem C05_validator_translation_meets_spec (a : VAtom) (self : VSelf) (req : List Key) (ctx : Context) :
    eval a self req ctx = holds a self req ctx := by
  cases a with
  | nodeIsOn => rfl
  | nodeIsOff => rfl
  | nicEnabled => rfl
  | nicDisabled => rfl
  | serviceState s => rfl
  | appState s => rfl
  | folderExists =>
    cases req with
    | nil => rfl
    | cons k rest =>
      simp only [eval, folderExists, holds, List.length_cons, List.getD_cons_zero, get_folder_spec, FsS.folder?]
      have : ¬ (rest.length + 1 < 1) := by omega
      simp only [this, decide_false, Bool.false_eq_true, if_false]
      rw [← find?_isSome_eq_any]
      cases fs : self.file_system.folders.find? (fun f => f.name == k) <;> simp
  | folderNotDeleted =>
    cases req with
    | nil => rfl
    | cons k rest =>
      simp only [eval, folderNotDeleted, holds, List.length_cons, List.getD_cons_zero, get_folder_spec]
      have : ¬ (rest.length + 1 < 1) := by omega
      simp only [this, decide_false, Bool.false_eq_true, if_false]
      cases self.file_system.folder? k true <;> rfl
  | fsFileExists =>
    cases req with
    | nil => rfl
    | cons k rest =>
      cases rest with
      | nil => rfl
      | cons k' rest' =>
        simp only [eval, fsFileExists, holds, List.length_cons, List.getD_cons_zero, List.getD_cons_succ,
          FileSystem_get_file, get_folder_spec]
        have : ¬ (rest'.length + 1 + 1 < 2) := by omega
        simp only [this, decide_false, Bool.false_eq_true, if_false]
        cases hf : self.file_system.folder? k false with
        | none => rfl
        | some fo =>
          simp only [get_file_live_spec, FolderS.file?]
          rw [← find?_isSome_eq_any]
  | folderFileExists =>
    cases req with
    | nil => rfl
    | cons k rest =>
      simp only [eval, folderFileExists, holds, List.length_cons, List.getD_cons_zero, get_file_live_spec, FolderS.file?]
      have : ¬ (rest.length + 1 < 1) := by omega
      simp only [this, decide_false, Bool.false_eq_true, if_false]
      rw [← find?_isSome_eq_any]
  | fileNotDeleted =>
    cases req with
    | nil => rfl
    | cons k rest =>
      simp only [eval, fileNotDeleted, holds, List.length_cons, List.getD_cons_zero, get_file_live_spec]
      have : ¬ (rest.length + 1 < 1) := by omega
      simp only [this, decide_false, Bool.false_eq_true, if_false]
      cases self.folder.file? k <;> rfl
  | groupMember =>
    cases ctx with
    | none => rfl
    | some gs =>
      simp only [eval, groupMember, holds]
      rw [← find?_isSome_eq_any]
      cases self.allowed_groups.find? (fun g => gs.contains g.name) <;> rfl

/-! ### refusals, over the translated predicates -/

/-- the valuation of the live validators induced by the TRANSLATED predicates: validator `v` consists of the rules `vn v` and
is bound to the component(s) `bind v`; it answers true iff every one of its rules' translated `__call__` does -/
def envOf (vn : VId → Validator) (bind : VId → VSelf) (ctx : Context) : Env :=
  fun v opts => (vn v).all (fun a => eval a (bind v) opts ctx)

/-- `C05_failure_is_own_rule` over the translated predicates: a `failure` names a validator on the request's own path at the
reported depth, and ONE OF ITS RULES is false — its translated `__call__`, equivalently its specification — on the component
that validator is bound to, for the options it was given; every rule of every earlier validator on the path holds. -/
theorem C05_failure_is_false_translated_rule (vn : VId → Validator) (bind : VId → VSelf) (ctx : Context)
    (kids : Kids) (p : List Key) (d d' : Nat) (v : VId)
    (h : dispatchK (envOf vn bind ctx) kids p d = .failure d' v) :
    d ≤ d' ∧ ∃ args a, (validatorsOnK kids p)[d' - d]? = some (v, args) ∧ a ∈ vn v ∧
      eval a (bind v) args ctx = false ∧ holds a (bind v) args ctx = false ∧
      ∀ j, j < d' - d → ∀ w a', (validatorsOnK kids p)[j]? = some (w, a') →
        ∀ b ∈ vn w, holds b (bind w) a' ctx = true := by
  obtain ⟨hle, args, hget, hfalse, hbefore⟩ := C05_failure_is_own_rule _ kids p d d' v h
  refine ⟨hle, args, ?_⟩
  have hall : (vn v).all (fun a => eval a (bind v) args ctx) = false := hfalse
  rw [List.all_eq_false] at hall
  obtain ⟨a, ha, hev⟩ := hall
  have hev' : eval a (bind v) args ctx = false := by simpa using hev
  refine ⟨a, hget, ha, hev', ?_, ?_⟩
  · rw [← C05_validator_translation_meets_spec]; exact hev'
  · intro j hj w a' hw b hb
    have := hbefore j hj w a' hw
    have hall' : (vn w).all (fun a => eval a (bind w) a' ctx) = true := this
    rw [List.all_eq_true] at hall'
    rw [← C05_validator_translation_meets_spec]
    exact hall' b hb

/-- the handler is reached iff the target exists and EVERY rule of EVERY validator on the path holds (specification) on the
component it is bound to -/
theorem C05_reaches_iff_rules_hold (vn : VId → Validator) (bind : VId → VSelf) (ctx : Context)
    (kids : Kids) (p : List Key) (d : Nat) :
    (dispatchK (envOf vn bind ctx) kids p d).isReached =
      (pathExistsK kids p && (validatorsOnK kids p).all (fun va => holdsAll (vn va.1) (bind va.1) va.2 ctx)) := by
  have hfun : (fun va : VId × List Key => envOf vn bind ctx va.1 va.2) =
      (fun va => holdsAll (vn va.1) (bind va.1) va.2 ctx) := by
    funext va
    simp only [envOf, holdsAll]
    congr 1
    funext a
    exact C05_validator_translation_meets_spec a _ _ _
  rw [C05_reaches_iff, hfun]

open Primaite.Schema in
open Primaite.Gen.RequestSchema (schema) in
open Primaite.Gen.ActionTemplates (templates) in
/-- For the REGENERATED schema and templates: when a request formed from an action whose parameters name present components
is refused, the refusing rule is one of the action's expected guards (`expectedGuards`, the contract) AND its translated
`__call__` is false on the component its validator is bound to — "only that operation's own permission rule can refuse it",
with the rule's meaning read from the source. -/
theorem C05_action_refusal_is_false_expected_guard (vn : VId → Validator) (bind : VId → VSelf) (ctx : Context)
    (inv : Inv) (kids : Kids) (hinst : Inst schema vn rootMgr inv kids) (t : Template) (ht : t ∈ templates) (c : String)
    (hc : c ∈ addressable schema t) (ρ : String → Key)
    (hpres : present schema (pickNode schema c) rootMgr inv t.segs ρ = true) (d d' : Nat) (v : VId)
    (h : dispatchK (envOf vn bind ctx) kids (instantiate ρ t.segs) d = .failure d' v) :
    ∃ args a, a ∈ (if t.fallback then [] else expectedGuards t.action) ∧ a ∈ vn v ∧
      holds a (bind v) args ctx = false := by
  obtain ⟨_, args, a, _, ha, _, hfalse, _⟩ := C05_failure_is_false_translated_rule vn bind ctx kids _ d d' v h
  exact ⟨args, a, C05_refusal_is_expected_guard vn inv kids hinst t ht c hc ρ hpres _ d d' v h a ha, ha, hfalse⟩

/-! ### ties to the regenerated enums, and non-vacuity -/

/-- the states named by the contract tables are members of the state enums the validators compare with -/
theorem C05_gen_contract_states_are_members :
    (∀ s ∈ ["RUNNING", "STOPPED", "PAUSED", "DISABLED"], s ∈ serviceStateMembers) ∧ "RUNNING" ∈ appStateMembers ∧
    "ON" ∈ nodeStateMembers ∧ "OFF" ∈ nodeStateMembers := by decide

def exFs : FsS :=
  { folders := [⟨"root", false, [], []⟩, ⟨"docs", false, [⟨"a.txt", false⟩, ⟨"b.txt", true⟩], [⟨"old.txt", true⟩]⟩],
    deleted_folders := [⟨"gone", true, [], [⟨"x.txt", true⟩]⟩, ⟨"docs", true, [], []⟩] }
def exSelf : VSelf := { node := ⟨"SHUTTING_DOWN"⟩, service := ⟨"PAUSED"⟩, file_system := exFs,
                        folder := ⟨"docs", false, [⟨"a.txt", false⟩, ⟨"b.txt", true⟩], [⟨"old.txt", true⟩]⟩ }

example : eval .nodeIsOn exSelf [] none = false ∧ eval .nodeIsOff exSelf [] none = false := by decide
example : eval (.serviceState "PAUSED") exSelf [] none = true ∧ eval (.serviceState "RUNNING") exSelf [] none = false := by decide
example : eval .folderExists exSelf ["docs", "x"] none = true ∧ eval .folderExists exSelf ["gone"] none = false ∧
    eval .folderExists exSelf [] none = false := by decide
/-- a live folder shadows a deleted namesake; a deleted folder is found and refused; an unknown one is refused -/
example : eval .folderNotDeleted exSelf ["docs"] none = true ∧ eval .folderNotDeleted exSelf ["gone"] none = false ∧
    eval .folderNotDeleted exSelf ["nope"] none = false := by decide
example : eval .fsFileExists exSelf ["docs", "a.txt"] none = true ∧ eval .fsFileExists exSelf ["docs", "old.txt"] none = false ∧
    eval .fsFileExists exSelf ["docs"] none = false ∧ eval .fsFileExists exSelf ["gone", "x.txt"] none = false := by decide
/-- a live file that carries the deleted flag exists but is refused by the not-deleted rule -/
example : eval .folderFileExists exSelf ["b.txt"] none = true ∧ eval .fileNotDeleted exSelf ["b.txt"] none = false ∧
    eval .fileNotDeleted exSelf ["a.txt"] none = true ∧ eval .fileNotDeleted exSelf ["old.txt"] none = false := by decide
example : eval .groupMember { exSelf with allowed_groups := [⟨"DOMAIN_ADMIN"⟩] } [] (some ["LOCAL_USER", "DOMAIN_ADMIN"]) = true ∧
    eval .groupMember { exSelf with allowed_groups := [⟨"DOMAIN_ADMIN"⟩] } [] none = false := by decide

end Primaite.Guards
