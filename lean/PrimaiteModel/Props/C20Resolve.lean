/-
C20 — one attribute, several configuration sources: the loader statements that decide the value, TRANSLATED from
`PrimaiteGame.from_config` on every run (`Gen/ConfigResolve.lean`), resolve to
`the entry's own value if the entry declares one - whatever the value, 0 / '' / False / '0' included - else the default, else what was there`.
Each theorem is stated for ALL values of both sources (`own dflt : Option PV`, `none` = key absent), all initial values and all
other keys, and is proved again from the regenerated translation: a truthiness rewrite (`own.get(k) or dflt.get(k')`) makes the
proof fail, and the grid point where it fails is the scenario file the rig then builds.
-/
import PrimaiteModel.Model.ConfigResolve
import PrimaiteModel.Model.Config
import PrimaiteModel.Gen.ConfigResolve
namespace Primaite.ConfigResolve
open Primaite.Gen.ConfigResolve

/-- unfolds the translated combinators -/
macro "resolve_cases" own:ident dflt:ident : tactic =>
  `(tactic| (cases $own:ident <;> cases $dflt:ident <;>
      simp [effective, Py.cond, Py.and, Py.or, Py.not, Py.has, Py.hasNot, Py.sub, Py.get, Py.getD, Py.int, Py.lit, Py.isNone,
            Py.isNotNone, Py.ifExp, PV.truthy, PV.toInt, Option.bind, Option.map, Primaite.Config.defaultDuration,
            Primaite.Config.defaultBandwidth]))

/-- **a service's `fixing_duration`**: its own `fixing_duration` option as an integer if the entry has the key (0 included), else
`defaults.service_fix_duration` as an integer, else the class default the constructor left. -/
theorem C20_gen_resolve_service_fixing_duration (own dflt : Option PV) (init : R) (other : String → String → Option PV) :
    svcFixingDuration own dflt init other = effective PV.toInt PV.toInt own dflt init := by
  unfold svcFixingDuration
  resolve_cases own dflt

/-- **a node's `start_up_duration`**: the node's own key (0 included), else `defaults.node_start_up_duration`, else the literal 3 — whatever
was assigned before (the temporary 0 that lets every node boot at once does not survive). -/
theorem C20_gen_resolve_node_start_up (own dflt : Option PV) (init : R) (other : String → String → Option PV) :
    nodeStartUp own dflt init other = effective PV.toInt PV.toInt own dflt (some (.int Primaite.Config.defaultDuration)) := by
  unfold nodeStartUp
  resolve_cases own dflt

theorem C20_gen_resolve_node_shut_down (own dflt : Option PV) (init : R) (other : String → String → Option PV) :
    nodeShutDown own dflt init other = effective PV.toInt PV.toInt own dflt (some (.int Primaite.Config.defaultDuration)) := by
  unfold nodeShutDown
  resolve_cases own dflt

/-- **a node's `node_scan_duration`**: a node that declares the key keeps what its constructor made of it (`init`), for every declared
value; only a node that declares none gets `defaults.node_scan_duration`. -/
theorem C20_gen_resolve_node_scan (own dflt : Option PV) (init : R) (other : String → String → Option PV) :
    nodeScan own dflt init other = effective (fun _ => init) PV.toInt own dflt init := by
  unfold nodeScan
  resolve_cases own dflt

/-- a service's `restart_duration` has one source in the file (`defaults.service_restart_duration`); no option of the entry is consulted -/
theorem C20_gen_resolve_service_restart (own dflt : Option PV) (init : R) (other : String → String → Option PV) :
    svcRestart own dflt init other = effective (fun _ => init) PV.toInt none dflt init := by
  unfold svcRestart
  resolve_cases own dflt

/-- **a link's bandwidth**: the entry's `bandwidth` as written (0 included), else the library's default -/
theorem C20_gen_resolve_link_bandwidth (own dflt : Option PV) (init : R) (other : String → String → Option PV) :
    linkBandwidth own dflt init other = effective some some own none (some (.int Primaite.Config.defaultBandwidth)) := by
  unfold linkBandwidth
  resolve_cases own dflt

/-- no write of such an attribute sits under a guard other than the loops over the entries and `the service type is known` -/
theorem C20_gen_resolve_guards :
    structuralGuards = [
      ("svcFixingDuration", ["for node_cfg in nodes_cfg", "if 'services' in node_cfg", "for service_cfg in node_cfg['services']",
                             "if service_class is not None"]),
      ("nodeStartUp", ["for node_cfg in nodes_cfg"]),
      ("nodeShutDown", ["for node_cfg in nodes_cfg"]),
      ("nodeScan", ["for node_cfg in nodes_cfg"]),
      ("svcRestart", ["for node_cfg in nodes_cfg", "if 'services' in node_cfg", "for service_cfg in node_cfg['services']"]),
      ("linkBandwidth", ["for link_cfg in links_cfg"])] := by
  decide

/-- **every truthiness test of a value in the loader functions** (regenerated): the places where a falsy-but-legal value of the file
could take the wrong branch. Each one listed here is followed by the model (`operating_state` falsy = not given; an empty / absent
`ports` / `acl` / `routes` / `default_route` section adds nothing either way; a rule's empty `src_port` / `dst_port` / `protocol` means
"any"; `include_router`) or is not fed from the file (`kwargs.get('sys_log')` …). A NEW `or` / `if value:` in any loader function
changes this list; the falsy family of the rig then looks for the input. -/
theorem C20_gen_truthiness_sites :
    truthinessSites = [
  ("PrimaiteGame.from_config", "or", "cfg.get('io_settings', {}).get('save_step_metadata')"),
  ("PrimaiteGame.from_config", "if", "port"),
  ("Node.__init__", "not", "kwargs.get('sys_log')"),
  ("Node.__init__", "not", "kwargs.get('session_manager')"),
  ("Node.__init__", "not", "kwargs.get('root')"),
  ("Node.__init__", "not", "kwargs.get('file_system')"),
  ("Node.__init__", "not", "kwargs.get('software_manager')"),
  ("Node.__init__", "not", "(p := kwargs['config'].operating_state)"),
  ("Router.from_config", "if", "ports"),
  ("Router.from_config", "if", "acl"),
  ("Router.from_config", "not", "(p := r_cfg.get('src_port'))"),
  ("Router.from_config", "not", "(p := r_cfg.get('dst_port'))"),
  ("Router.from_config", "not", "(p := r_cfg.get('protocol'))"),
  ("Router.from_config", "if", "routes"),
  ("Router.from_config", "if", "default_route"),
  ("Router.from_config", "if", "next_hop_ip_address"),
  ("Router.from_config", "not", "(p := config.get('operating_state'))"),
  ("Router.__init__", "not", "kwargs.get('sys_log')"),
  ("Router.__init__", "not", "kwargs.get('acl')"),
  ("Router.__init__", "not", "kwargs.get('route_table')"),
  ("Firewall.from_config", "if", "config['acl']['internal_inbound_acl']"),
  ("Firewall.from_config", "not", "(p := r_cfg.get('src_port'))"),
  ("Firewall.from_config", "not", "(p := r_cfg.get('dst_port'))"),
  ("Firewall.from_config", "not", "(p := r_cfg.get('protocol'))"),
  ("Firewall.from_config", "if", "config['acl']['internal_outbound_acl']"),
  ("Firewall.from_config", "if", "config['acl']['dmz_inbound_acl']"),
  ("Firewall.from_config", "if", "config['acl']['dmz_outbound_acl']"),
  ("Firewall.from_config", "if", "config['acl'].get('external_inbound_acl')"),
  ("Firewall.from_config", "if", "config['acl'].get('external_outbound_acl')"),
  ("Firewall.from_config", "if", "next_hop_ip_address"),
  ("Firewall.__init__", "not", "kwargs.get('sys_log')"),
  ("WirelessRouter.from_config", "not", "(p := config.get('operating_state'))"),
  ("WirelessRouter.from_config", "not", "(p := r_cfg.get('src_port'))"),
  ("WirelessRouter.from_config", "not", "(p := r_cfg.get('dst_port'))"),
  ("WirelessRouter.from_config", "not", "(p := r_cfg.get('protocol'))"),
  ("WirelessRouter.from_config", "if", "config.get('default_route')"),
  ("WirelessRouter.from_config", "if", "next_hop_ip_address"),
  ("OfficeLANAdder.add_nodes_to_net", "if", "config.include_router"),
  ("EpisodeListScheduler.__call__", "not", "self._exceeded_episode_list")
]  := by
  decide

/-! ### what the specification says on the falsy-but-legal values, and what a truthiness rewrite would do -/

/-- a declared 0 / '0' / False / 0.0 beats the default; a declared '' cannot be a duration and is refused (`int('')` raises) -/
theorem C20_effective_on_falsy_grid (d : Int) :
    falsyGrid.map (fun v => effective PV.toInt PV.toInt (some v) (some (.int d)) (some (.int 2)))
      = [some (.int 0), some (.int 0), none, some (.int 0), some (.int 0)] := by
  simp [falsyGrid, effective, PV.toInt]

/-- the seeded rewrite `int(options.get('fixing_duration') or defaults.get('service_fix_duration'))` as a term -/
def orRewrite (own dflt : Option PV) (init : R) : R :=
  Py.cond (Py.isNotNone (Py.or (Py.get own) (Py.get dflt))) (Py.int (Py.or (Py.get own) (Py.get dflt))) init

/-- … does NOT meet the specification: the counter-model is `own = 0` with any non-zero default -/
theorem C20_or_rewrite_is_not_effective :
    ¬ ∀ own dflt init, orRewrite own dflt init = effective PV.toInt PV.toInt own dflt init := by
  intro h
  have := h (some (.int 0)) (some (.int 7)) (some (.int 2))
  revert this
  decide

/-- a default that wins over a declared own value (the shape `node_scan_duration` had) does not meet it either -/
theorem C20_default_wins_is_not_effective :
    ¬ ∀ own dflt init, defaultWins PV.toInt PV.toInt own dflt init = effective PV.toInt PV.toInt own dflt init := by
  intro h
  have := h (some (.int 4)) (some (.int 7)) (some (.int 10))
  revert this
  decide

/-- the model's closed forms (`Model/Config.lean`: `n.startUp.getD (d.nodeStartUp.getD defaultDuration)` …) are `effective` on
integers: the link between the translated loader statements and the fields of `buildNode` / `declaredNode` / `specNode`. -/
theorem C20_effective_is_getD (own dflt : Option Nat) (lib : Nat) :
    effective PV.toInt PV.toInt (own.map (fun n => PV.int n)) (dflt.map (fun n => PV.int n)) (some (.int lib))
      = some (.int (own.getD (dflt.getD lib) : Nat)) := by
  cases own <;> cases dflt <;> simp [effective, PV.toInt]

/-! ### the other loaders: keyword arguments read from a mapping of the file (`Router` / `Firewall` / `WirelessRouter.from_config`,
the calls inside `PrimaiteGame.from_config`) -/

/-- what a keyword argument must be, by what it configures: the keys it may read and the value it hands on -/
structure KwSpec where
  ownKey : String
  altKey : String
  val : Option PV → Option PV → (String → PV → R) → R

/-- an address of an ACL rule has TWO spellings (`src_ip` in the shipped scenarios, `src_ip_address` in the documentation):
the first declared spelling - whatever its value - else the second, else `None` (= any address). -/
def aclAddress (own alt : Option PV) : R := effective some some own alt (some .none)

/-- **the specification of every keyword argument the loaders read from the file** (by loader, callee and keyword) -/
def kwSpec (function callee keyword : String) : Option KwSpec :=
  match callee, keyword with
  | "add_rule", "src_ip_address" => some ⟨"src_ip", "src_ip_address", fun own alt _ => aclAddress own alt⟩
  | "add_rule", "dst_ip_address" => some ⟨"dst_ip", "dst_ip_address", fun own alt _ => aclAddress own alt⟩
  | "add_rule", "src_wildcard_mask" => some ⟨"src_wildcard_mask", "", fun own _ _ => optionalKey some .none own⟩
  | "add_rule", "dst_wildcard_mask" => some ⟨"dst_wildcard_mask", "", fun own _ _ => optionalKey some .none own⟩
  | "add_rule", "src_port" => some ⟨"src_port", "", fun own _ fn => truthyLookup (fn "PORT_LOOKUP[]") own⟩
  | "add_rule", "dst_port" => some ⟨"dst_port", "", fun own _ fn => truthyLookup (fn "PORT_LOOKUP[]") own⟩
  | "add_rule", "protocol" => some ⟨"protocol", "", fun own _ fn => truthyLookup (fn "PROTOCOL_LOOKUP[]") own⟩
  | "add_rule", "action" => some ⟨"action", "", fun own _ fn => requiredKey (fn "ACLAction[]") own⟩
  | "add_route", "address" => some ⟨"address", "", fun own _ fn => optionalKey (fn "IPv4Address") .none own⟩
  | "add_route", "next_hop_ip_address" => some ⟨"next_hop_ip_address", "", fun own _ fn => optionalKey (fn "IPv4Address") .none own⟩
  | "add_route", "subnet_mask" => some ⟨"subnet_mask", "", fun own _ fn => optionalKey (fn "IPv4Address") (.str "255.255.255.0" none) own⟩
  | "add_route", "metric" => some ⟨"metric", "", fun own _ fn => optionalKey (fn "float") (.int 0) own⟩
  | "configure_port", "ip_address" => some ⟨"ip_address", "", fun own _ _ => requiredKey some own⟩
  | "configure_port", "subnet_mask" => some ⟨"subnet_mask", "", fun own _ fn => optionalKey (fn "IPv4Address") (.str "255.255.255.0" none) own⟩
  | "NIC", "ip_address" => some ⟨"ip_address", "", fun own _ _ => requiredKey some own⟩
  | "NIC", "subnet_mask" => some ⟨"subnet_mask", "", fun own _ _ => requiredKey some own⟩
  | _, "ip_address" =>
      if function = "Firewall.from_config" ∧ callee ∈ ["configure_internal_port", "configure_external_port", "configure_dmz_port"]
      then some ⟨"ip_address", "", fun own _ fn => optionalKey (fn "IPV4Address") .none own⟩ else none
  | _, "subnet_mask" =>
      if function = "Firewall.from_config" ∧ callee ∈ ["configure_internal_port", "configure_external_port", "configure_dmz_port"]
      then some ⟨"subnet_mask", "", fun own _ fn => optionalKey (fn "IPV4Address") (.str "255.255.255.0" none) own⟩ else none
  | _, _ => none

/-- a translated row meets its specification: it reads exactly the specified keys and gives the specified value for EVERY value of
both keys (absent included) and every lookup table / constructor -/
def RowOk (r : KwRow) : Prop :=
  match kwSpec r.function r.callee r.keyword with
  | none => False
  | some s => r.ownKey = s.ownKey ∧ r.altKey = s.altKey ∧ ∀ own alt fn, r.f own alt fn = s.val own alt fn

theorem truthy_bool (b : Bool) : (PV.bool b).truthy = b := rfl
theorem truthy_none : PV.none.truthy = false := rfl

theorem truthyLookup_eq (c : PV → R) (own : Option PV) :
    Py.cond (Py.not (Py.get own)) (Py.lit .none) (Py.app c (Py.get own)) = truthyLookup c own := by
  cases own with
  | none => simp [Py.cond, Py.not, Py.get, Py.lit, truthyLookup, truthy_bool, truthy_none]
  | some v => cases h : v.truthy <;> simp [Py.cond, Py.not, Py.get, Py.lit, Py.app, truthyLookup, truthy_bool, h]

/-- **every keyword argument that `Router` / `Firewall` / `WirelessRouter.from_config` (and the `NIC(..)` call of
`PrimaiteGame.from_config`) read from the file is what `kwSpec` says** - in particular, in ALL the ACLs of all three loaders
(a row per distinct translated expression: a change to one of the six firewall ACLs adds a row), an address is
`the first declared spelling, else the second, else None`, for every value. Replaces the text pin `aclAddressKeys`. -/
theorem C20_gen_kwargs_resolve : AllRows RowOk kwargTable := by
  unfold kwargTable
  simp only [AllRows, and_true, true_and, RowOk, kwSpec]
  repeat' apply And.intro
  all_goals first
    | trivial
    | (intro own _ fn; exact truthyLookup_eq _ own)
    | (intro own alt fn
       cases own <;> cases alt <;>
         simp [aclAddress, effective, optionalKey, requiredKey, truthyLookup, Py.cond, Py.not, Py.sub, Py.has, Py.hasNot, Py.and, Py.or,
               Py.isNone, Py.isNotNone, Py.get, Py.getD, Py.lit, Py.app, Option.bind, truthy_bool, truthy_none] <;>
         (try split) <;> (try simp_all))

/-- the three router-like loaders each have their ACL address rows (non-vacuity of the theorem above on the rows that matter) -/
theorem C20_gen_kwargs_acl_rows_present :
    ["Router.from_config", "Firewall.from_config", "WirelessRouter.from_config"].all (fun f =>
      ["src_ip_address", "dst_ip_address", "src_port", "dst_port", "protocol", "action"].all (fun k =>
        kwargTable.any (fun r => r.function == f && r.callee == "add_rule" && r.keyword == k))) = true := by
  decide

/-- the semantic tie, spelled out: in every row of every loader that hands an ACL address to `add_rule`, the value is the first
declared spelling (for EVERY value, `None` and '' included), else the second, else `None` -/
theorem C20_acl_address_first_declared_spelling (r : KwRow) (h : r ∈ kwargTable) (hc : r.callee = "add_rule")
    (hk : r.keyword = "src_ip_address" ∨ r.keyword = "dst_ip_address") (own alt : Option PV) (fn : String → PV → R) :
    r.f own alt fn = (match own with | some v => some v | none => match alt with | some a => some a | none => some .none) ∧
    r.altKey = r.keyword ∧ (r.ownKey = "src_ip" ∨ r.ownKey = "dst_ip") := by
  have ok := AllRows.mem C20_gen_kwargs_resolve r h
  unfold RowOk at ok
  rcases hk with hk | hk <;> simp only [kwSpec, hc, hk] at ok <;> obtain ⟨h1, h2, h3⟩ := ok <;>
    refine ⟨?_, h2.trans hk.symm, ?_⟩ <;> simp_all [aclAddress, effective] <;> (cases own <;> cases alt <;> rfl)

/-- a loader that preferred the DOCUMENTED spelling, or fell through a falsy first spelling (`r.get('src_ip') or r.get('src_ip_address')`),
does not meet the specification -/
theorem C20_acl_address_or_rewrite_differs :
    ¬ ∀ own alt, Py.or (Py.get own) (Py.get alt) = aclAddress own alt := by
  intro h
  have := h (some (.str "" none)) (some (.str "10.0.0.2" none))
  revert this
  decide

example : aclAddress (some .none) (some (.str "10.0.0.2" none)) = some .none := by decide
example : aclAddress none (some (.str "10.0.0.2" none)) = some (.str "10.0.0.2" none) := by decide

end Primaite.ConfigResolve
