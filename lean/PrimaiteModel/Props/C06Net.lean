/-
C06, third layer: the attacker side is made of MODELLED PrimAITE elements — hosts behind their session manager, switches —
and the closure hypothesis of the class cut theorem ("every frame circulating on the attacker side is in the class") is
PROVED for them:

* `liftSw_pres`: software confined to the opaque software state keeps every predicate that does not read it;
* `C06_host_safe`: a host (arbitrary services / applications above the session manager, the ARP service modelled) turns
  class frames into class frames and keeps its interfaces;  `C06_hostOp_safe`: so does every local operation on it;
* `C06_switch_safe`: a switch forwards the frame it received, unchanged;
* `ClN`: the frame class of a labelled topology = packets of the class (∪ genuine ARP packets) whose ARP payload is
  well-formed for the segment it travels on; `C06_certifyN_sound`; `C06_certifiedN_unchanged`: the theorem for a certified
  network with NO hypothesis on the attacker side and NO hypothesis on a blocking router's software.
-/
import PrimaiteModel.Model.FilterNet
import PrimaiteModel.Model.FilterFwd
import PrimaiteModel.Props.C06Class
import PrimaiteModel.Props.C06Rtr
import PrimaiteModel.Gen.FilterSoft
namespace Primaite.Filter
open Primaite Primaite.Acl Primaite.Cut

variable {W : Type}

/-! ## 1. software that writes only the software state -/

/-- predicates that do not read the software state -/
def SwIndep (P : Node W → Prop) : Prop := ∀ s x, P s → P { s with sw := x }

/-- **Software confined to `sw` keeps every predicate that does not read `sw`** (interfaces still disabled, still the same
addresses, still OFF, lists still denying): whatever it computes, whatever traffic it causes and is re-entered by. -/
theorem liftSw_pres (P : Node W → Prop) (hP : SwIndep P) :
    ∀ (a : SwScript W) (s : Node W), P s → Pres P (liftSw s a) := by
  intro a
  induction a with
  | done w => intro s hs; exact Pres.done (hP s w hs)
  | send w q g k ih => intro s hs; exact Pres.send (hP s w hs) (fun s' hs' => ih s'.sw s' hs')

theorem pres_stamp (P : Node W → Prop) (st : Node W → Nat → Frame → Frame) :
    ∀ a : Script W, Pres P a → Pres P (stampSends st a) := by
  intro a
  induction a with
  | done s => intro h; cases h with | done hp => exact Pres.done hp
  | send s q g k ih =>
    intro h
    cases h with
    | send hp hk => exact Pres.send hp (fun s' hs' => ih s' (hk s' hs'))

/-! ## 1b. `SoftKeeps` as a decidable condition on the software set -/

theorem swItem_run_pres (P : Node W → Prop) (hP : SwIndep P) (it : SwItem W) (h : it.isConfined = true) (s : Node W) (p : Nat)
    (f : Frame) (hs : P s) : Pres P (it.run s p f) := by
  cases it with
  | confined port r => exact liftSw_pres P hP _ s hs
  | free port r => cases h

/-- **`SoftKeeps` from a decidable condition on the software set.**  An element whose installed software is confined to the
software state (`setConfined`: decidable; true of everything a router, firewall, switch or host carries as shipped except
the Terminal — `C06_gen_shipped_software`), with firmware that writes only the software state, keeps every predicate that
does not read the software state — in particular "my boundary interfaces are disabled" (`BoundaryDown`), through any
amount of frame processing and re-entrant traffic.  The hypothesis `SoftKeeps` of the cut theorems remains only for
user-installed (`free`) software and for the Terminal's command execution (the application-level relay). -/
theorem C06_softKeeps_of_confined_set (fw : Firmware W) (items : List (SwItem W)) (h : setConfined items = true)
    (P : Node W → Prop) (hP : SwIndep P) : SoftKeeps (softOf fw items) P := by
  refine ⟨?_, ?_, ?_, ?_⟩
  · intro s p f hs
    simp only [softOf, dispatchSession]
    split
    · rename_i it hfind
      exact swItem_run_pres P hP it (List.all_eq_true.mp h it (List.mem_of_find?_eq_some hfind)) s p f hs
    · exact Pres.done hs
  · intro s p f hs; exact liftSw_pres P hP _ s hs
  · intro s p f hs; exact liftSw_pres P hP _ s hs
  · intro s p f hs; exact liftSw_pres P hP _ s hs

/-- what the condition excludes: ONE free item (say, a terminal executing `network_interface/2/enable` for whoever logged
in) and the boundary interface is up again -/
example : ∃ (items : List (SwItem Unit)) (s : Node Unit) (f : Frame),
    setConfined items = false ∧ portEnabled s 1 = false ∧
    ¬ Pres (fun s' => portEnabled s' 1 = false) (dispatchSession items s 0 f) := by
  refine ⟨[.free 22 (fun s _ _ => .done { s with ifaces := s.ifaces.map (fun i => { i with enabled := true }) })],
    { exRouter with ifaces := exRouter.ifaces.map (fun i => { i with enabled := false }) },
    { exPing with pkt := { exPing.pkt with proto := .tcp, ports := some (22, 22) } }, by decide, by decide, ?_⟩
  intro h
  simp only [dispatchSession, SwItem.port, List.find?, exPing, beq_self_eq_true, SwItem.run] at h
  cases h with
  | done hp => revert hp; decide

/-- the software sets as shipped, and which of their classes are confined: all but the Terminal (its `receive` executes
commands through the request dispatcher) -/
theorem C06_gen_shipped_software :
    Gen.FilterSoft.systemSoftware = shippedSoftware ∧
    (Gen.FilterSoft.systemSoftware.all fun kc => kc.2.all fun c => c == "Terminal" || confinedClass Gen.FilterSoft.receiveReach c) = true ∧
    confinedClass Gen.FilterSoft.receiveReach "Terminal" = false := by decide

/-- the source shapes the host / switch / ARP models follow -/
theorem C06_gen_net_models :
    Gen.FilterSoft.switchReceive = switchOrder ∧ Gen.FilterSoft.arpPacketSites = arpPacketSites ∧
    Gen.FilterSoft.arpReplyCallers = arpReplyCallers ∧ Gen.FilterSoft.generateReply = generateReplyShape ∧
    Gen.FilterSoft.sessionArpBranch = sessionArpBranch ∧ Gen.FilterSoft.hostArpRequest = hostArpRequestOrder := by decide

/-! ## 2. hosts and switches turn class frames into class frames -/

section closure
variable {N : Type} [DecidableEq N]
variable (sys : Sys N Nat Frame (Node W)) (side : N → Bool) (Cl : N → Nat → Frame → Prop) (I : N → Node W → Prop) (n : N)

/-- the frame the session manager builds on interface `i` from what software asked for -/
def stampOn (i : Iface) (g : Frame) : Frame :=
  if g.arp then arpRequestFrame i g.arpTgt else { g with srcMac := i.mac, pkt := { g.pkt with srcIp := i.ip } }

theorem hostStamp_eq (s : Node W) (q : Nat) (i : Iface) (g : Frame) (h : s.ifaces[q]? = some i) :
    hostStamp s q g = stampOn i g := by
  simp [hostStamp, h, stampOn]

/-- what the cut needs of a host's addresses: frames built on its interfaces are in the class at the other end of the wire,
and so is its ARP service's reply to a class request -/
structure HostClosed (ifs : List Iface) : Prop where
  inside : ∀ q m r, sys.wire n q = some (m, r) → side m = true
  app : ∀ q i g m r, ifs[q]? = some i → sys.wire n q = some (m, r) → Cl m r (stampOn i g)
  reply : ∀ p f x q o i m r, SideFacing sys side n p → Cl n p f → subjectToAcl f = some false → f.arpReq = true →
    ifs[q]? = some o → sys.wire n q = some (m, r) → Cl m r (arpReplyFrame o i { f with ttl := x })

variable (ifs : List Iface) (hn : side n = true)
  (hI : ∀ s, I n s ↔ (s.kind = .host ∧ s.ifaces = ifs)) (hc : HostClosed sys side Cl n ifs)

include hn hI hc in
/-- everything a host's software sends through the session manager is in the class; the host keeps its interfaces -/
theorem host_app_safe : ∀ (a : SwScript W) (s : Node W), I n s →
    SafeAct sys side (FromSideC sys side Cl) I n (guardSends portEnabled (stampSends hostStamp (liftSw s a))) := by
  intro a
  induction a with
  | done w =>
    intro s hs
    simp only [liftSw, stampSends, guardSends]
    exact SafeAct.done ((hI _).mpr ((hI s).mp hs))
  | send w q g k ih =>
    intro s hs
    have hs1 : I n ({ s with sw := w } : Node W) := (hI _).mpr ((hI s).mp hs)
    simp only [liftSw, stampSends, guardSends]
    split
    · rename_i hen
      refine SafeAct.send hs1 ?_ (fun s' hs' => ih s'.sw s' hs')
      intro m r hw
      refine ⟨hc.inside q m r hw, ⟨n, q, hn, hw⟩, ?_⟩
      have hifs : ({ s with sw := w } : Node W).ifaces = ifs := ((hI s).mp hs).2
      unfold portEnabled at hen
      cases hi : ({ s with sw := w } : Node W).ifaces[q]? with
      | none => simp [hi] at hen
      | some i =>
        rw [hostStamp_eq _ q i g hi]
        exact hc.app q i g m r (by rw [← hifs]; exact hi) hw
    · exact ih w _ hs1

include hn hI hc in
theorem host_arp_safe (h : HostApp W) (p : Nat) (f f' : Frame) (hf' : f' = { f with ttl := f.ttl - 1 })
    (hsf : SideFacing sys side n p) (hcl : Cl n p f) (hsub0 : subjectToAcl f = some false) (s2 : Node W) (hI2 : I n s2) :
    SafeAct sys side (FromSideC sys side Cl) I n (guardSends portEnabled (hostArpReply h s2 p f')) := by
  have hsw : ∀ (s' : Node W) (x : W), I n s' → I n { s' with sw := x } := fun s' x h' => (hI _).mpr ((hI s').mp h')
  have hifs2 : s2.ifaces = ifs := ((hI s2).mp hI2).2
  unfold hostArpReply
  split
  · simp only [guardSends]; exact SafeAct.done hI2
  · split
    · simp only [guardSends]; exact SafeAct.done hI2
    · rename_i hreq
      split
      · simp only [guardSends]; exact SafeAct.done hI2
      · rename_i i2 _
        split
        · simp only [guardSends]; exact SafeAct.done hI2
        · split
          · simp only [guardSends]; exact SafeAct.done hI2
          · rename_i q hres
            split
            · simp only [guardSends]; exact SafeAct.done hI2
            · rename_i o ho
              have hI3 : I n ({ s2 with sw := h.arpSent s2 q } : Node W) := hsw _ _ hI2
              simp only [guardSends]
              split
              · refine SafeAct.send hI3 ?_ (fun s' hs' => SafeAct.done hs')
                intro m r hw
                have hreq' : f.arpReq = true := by
                  have : f'.arpReq = f.arpReq := by rw [hf']
                  rw [← this]; cases hq : f'.arpReq <;> simp_all
                refine ⟨hc.inside q m r hw, ⟨n, q, hn, hw⟩, ?_⟩
                rw [hf']
                exact hc.reply p f _ q o i2 m r hsf hcl hsub0 hreq' (by rw [← hifs2]; exact ho) hw
              · exact SafeAct.done hI3

include hn hI hc in
/-- the host's software layer from a state satisfying the invariant: the ARP service for genuine ARP packets, everything
else through the session manager -/
theorem host_layer_safe (h : HostApp W) (p : Nat) (f f' : Frame) (hf' : f' = { f with ttl := f.ttl - 1 })
    (hsf : SideFacing sys side n p) (hcl : Cl n p f) (s1 : Node W) (hI1 : I n s1) :
    SafeAct sys side (FromSideC sys side Cl) I n
      (guardSends portEnabled (if (hostStd h).hostAccept s1 f' then (hostStd h).session s1 p f' else .done s1)) := by
  have hsw : ∀ (s' : Node W) (x : W), I n s' → I n { s' with sw := x } := fun s' x h' => (hI _).mpr ((hI s').mp h')
  split
  · simp only [hostStd]
    split
    · rename_i hex
      have hsub : subjectToAcl f' = some false := by simpa [isArpExempt] using hex
      have hsub0 : subjectToAcl f = some false := by rw [hf', subjectToAcl_ttl] at hsub; exact hsub
      exact host_arp_safe sys side Cl I n ifs hn hI hc h p f f' hf' hsf hcl hsub0 _ (hsw _ _ hI1)
    · exact host_app_safe sys side Cl I n ifs hn hI hc _ s1 hI1
  · simp only [guardSends]; exact SafeAct.done hI1

include hn hI hc in
/-- **A host turns class frames into class frames and keeps its interfaces** — for ALL services and applications above
the session manager (`HostApp` is arbitrary). -/
theorem C06_host_safe (h : HostApp W) (s : Node W) (p : Nat) (f : Frame) (hs : I n s) (hsf : SideFacing sys side n p)
    (hcl : Cl n p f) : SafeAct sys side (FromSideC sys side Cl) I n (nodeRx (hostStd h) s p f) := by
  have hsw : ∀ (s' : Node W) (x : W), I n s' → I n { s' with sw := x } := fun s' x h' => (hI _).mpr ((hI s').mp h')
  have hk : s.kind = .host := ((hI s).mp hs).1
  unfold nodeRx
  split
  · exact SafeAct.done hs
  · split
    · rename_i f' hg
      obtain ⟨hf', _⟩ := ifaceRx_up _ _ _ _ _ hg
      have hnl : nodeLayer (hostStd h) s p f' = hostRx (hostStd h) s p f' := by simp [nodeLayer, hk]
      rw [hnl]
      simp only [hostRx]
      refine host_layer_safe sys side Cl I n ifs hn hI hc h p f f' hf' hsf hcl _ ?_
      split
      · exact hsw _ _ (hsw _ _ hs)
      · exact hsw _ _ hs
    · exact SafeAct.done hs

include hn hI hc in
/-- **Every local operation on a host** (an action, an application or attack step, a timestep of its software) is admissible. -/
theorem C06_hostOp_safe (a : Node W → SwScript W) (s : Node W) (hs : I n s) :
    SafeAct sys side (FromSideC sys side Cl) I n (hostOp s (a s)) :=
  host_app_safe sys side Cl I n ifs hn hI hc (a s) s hs

/-- what the cut needs of a switch: a class frame that arrived on one port is a class frame at the far end of every wire -/
structure SwitchClosed : Prop where
  inside : ∀ q m r, sys.wire n q = some (m, r) → side m = true
  fwd : ∀ p f x q m r, SideFacing sys side n p → Cl n p f → sys.wire n q = some (m, r) → Cl m r { f with ttl := x }

variable (hIs : ∀ s, I n s ↔ s.kind = .switch) (hcs : SwitchClosed sys side Cl n)

include hn hIs hcs in
theorem flood_safe (f : Frame) (p : Nat) (hout : ∀ q m r, sys.wire n q = some (m, r) → Cl m r f) :
    ∀ (ports : List Nat) (s : Node W), I n s →
      SafeAct sys side (FromSideC sys side Cl) I n (guardSends portEnabled (floodTo f p ports s)) := by
  intro ports
  induction ports with
  | nil => intro s hs; exact SafeAct.done hs
  | cons q rest ih =>
    intro s hs
    simp only [floodTo]
    split
    · exact ih s hs
    · simp only [guardSends]
      split
      · exact SafeAct.send hs (fun m r hw => ⟨hcs.inside q m r hw, ⟨n, q, hn, hw⟩, hout q m r hw⟩) (fun s' hs' => ih s' hs')
      · exact ih s hs

include hn hIs hcs in
/-- **A switch forwards the frame it received, unchanged**: class frames stay class frames, whatever the MAC table holds. -/
theorem C06_switch_safe (t : SwitchTbl W) (s : Node W) (p : Nat) (f : Frame) (hs : I n s) (hsf : SideFacing sys side n p)
    (hcl : Cl n p f) : SafeAct sys side (FromSideC sys side Cl) I n (nodeRx (switchStd t) s p f) := by
  have hk : s.kind = .switch := (hIs s).mp hs
  unfold nodeRx
  split
  · exact SafeAct.done hs
  · split
    · rename_i f' hg
      obtain ⟨hf', _⟩ := ifaceRx_up _ _ _ _ _ hg
      have hout : ∀ q m r, sys.wire n q = some (m, r) → Cl m r f' := by
        intro q m r hw; rw [hf']; exact hcs.fwd p f _ q m r hsf hcl hw
      have hnl : nodeLayer (switchStd t) s p f' = switchRx (switchStd t) s p f' := by simp [nodeLayer, hk]
      rw [hnl]
      simp only [switchRx, switchStd]
      have hI1 : I n ({ s with sw := t.learn s p f' } : Node W) := (hIs _).mpr hk
      split
      · rename_i q _
        simp only [guardSends]
        split
        · exact SafeAct.send hI1 (fun m r hw => ⟨hcs.inside q m r hw, ⟨n, q, hn, hw⟩, hout q m r hw⟩)
            (fun s' hs' => SafeAct.done hs')
        · exact SafeAct.done hI1
      · exact flood_safe sys side Cl I n hn hIs hcs f' p hout _ _ hI1
    · exact SafeAct.done hs

end closure

/-! ## 3. the class of a labelled topology and the helper facts of the certificate -/

theorem exempt_arp (f : Frame) (h : subjectToAcl f = some false) : f.arp = true :=
  ((C06_router_exempt_iff f).mp h).2.1

theorem srcCovers_holds (cls : List Rule) (a : Ip) (h : srcCovers cls a = true) (pkt : Packet) (hp : pkt.srcIp = a) :
    clsHolds cls pkt = true := by
  simp only [srcCovers, List.any_eq_true, Bool.and_eq_true] at h
  obtain ⟨c, hc, hso, ham⟩ := h
  simp only [clsHolds, List.any_eq_true]
  refine ⟨c, hc, ?_⟩
  simp only [srcOnly, Bool.and_eq_true, Option.isNone_iff_eq_none] at hso
  obtain ⟨⟨⟨h1, h2⟩, h3⟩, h4⟩ := hso
  simp [Rule.hits?, protoMatches, addrMatches, portMatches, h1, h2, h3, h4, hp]
  simpa [addrMatches] using ham

theorem zipIdx_all {α : Type} (P : Nat × α → Bool) : ∀ (l : List α) (k q : Nat) (x : α),
    (zipIdx l k).all P = true → l[q]? = some x → P (k + q, x) = true := by
  intro l
  induction l with
  | nil => intro k q x _ h; simp at h
  | cons y ys ih =>
    intro k q x hall h
    simp only [zipIdx, List.all_cons, Bool.and_eq_true] at hall
    cases q with
    | zero => simp only [List.getElem?_cons_zero, Option.some.injEq] at h; subst h; simpa using hall.1
    | succ q =>
      have := ih (k + 1) q x hall.2 (by simpa using h)
      have e : k + 1 + q = k + (q + 1) := by omega
      rw [e] at this; exact this

theorem ifaceOnLabel_self (i : Iface) (L : Ip × Ip) (h : ifaceOnLabel i L = true) : inLabel L i.ip = true := by
  simp only [ifaceOnLabel, Bool.and_eq_true, beq_iff_eq] at h
  simp only [inLabel, beq_iff_eq]
  rw [← h.1]; exact h.2

theorem ifaceOnLabel_inNet (i : Iface) (L : Ip × Ip) (a : Ip) (h : ifaceOnLabel i L = true) (ha : inLabel L a = true) :
    i.inNet a = true := by
  simp only [ifaceOnLabel, Bool.and_eq_true, beq_iff_eq] at h
  simp only [inLabel, beq_iff_eq] at ha
  simp only [Iface.inNet, beq_iff_eq]
  rw [h.1, ha, ← h.2, h.1]

theorem bindOK_mem (rtr : List (Mac × Ip)) (mac : Mac) (a a' : Ip) (h : bindOK rtr mac a = true)
    (hm : rtr.contains (mac, a') = true) : a = a' := by
  simp only [bindOK, List.all_eq_true] at h
  have hmem : (mac, a') ∈ rtr := by simpa using hm
  have := h _ hmem
  have h2 : a' = a := by simpa using this
  exact h2.symm

section certifyN
variable (t : TopoN) (apps : Nat → HostApp W) (tbls : Nat → SwitchTbl W) (rarps : Nat → RouterArp W) (bases : Nat → Soft W)
  (rops : Nat → RtrOpaque W) (hopsOf : Nat → List Ip)

/-- the software of node `n` of a labelled topology: a host behind its session manager, a switch, a router with its ARP
service in front of arbitrary software, anything for the elements that let nothing in -/
def softsN (n : Nat) : Soft W :=
  match t.role n with
  | .interior =>
    match t.kind n with
    | .host => hostStd (apps n)
    | .switch => switchStd (tbls n)
    | .router => rtrStd (hopsOf n) (rops n)
    | .other => bases n
  | .routerDenyC => routerArpSoft (rarps n) (bases n)
  | _ => bases n

/-- the system a labelled topology denotes: EVERY node is a PrimAITE element -/
def topoSysN : Sys Nat Nat Frame (Node W) :=
  topoSysC t.toTopoC (softsN t apps tbls rarps bases rops hopsOf) (fun n => nodeRx (softsN t apps tbls rarps bases rops hopsOf n))

theorem topoSysN_handler (n : Nat) :
    (topoSysN t apps tbls rarps bases rops hopsOf).handler n = nodeRx (softsN t apps tbls rarps bases rops hopsOf n) := by
  simp only [topoSysN, topoSysC]
  split <;> rfl

def topoRoleN (σ : St Nat (Node W)) (n : Nat) : RoleC W :=
  match t.role n with
  | .interior =>
    match t.kind n with
    | .host => .interiorI (hostStd (apps n)) (fun s => s.kind = .host ∧ s.ifaces = (σ n).ifaces)
    | .switch => .interiorI (switchStd (tbls n)) (fun s => s.kind = .switch)
    | .router => .interiorI (rtrStd (hopsOf n) (rops n)) (fun s => s.kind = .router ∧ s.ifaces = (σ n).ifaces)
    | .other => .interior
  | _ => topoRoleC t.toTopoC (softsN t apps tbls rarps bases rops hopsOf) σ n

/-- an ARP payload that is well-formed for the segment with subnet `L`: a request is a broadcast whose sender address lies
in the segment's subnet and is bound to the frame's source MAC as far as the blocking routers' interfaces are concerned; a
reply is addressed to a (MAC, address) pair that is consistent with them -/
def ArpWf (L : Ip × Ip) (f : Frame) : Prop :=
  (f.arpReq = true → f.dstMac = bcastMac ∧ inLabel L f.arpSnd = true ∧ bindOK t.rtrIfs f.srcMac f.arpSnd = true) ∧
  (f.arpReq = false → bindOK t.rtrIfs f.dstMac f.pkt.dstIp = true)

/-- the frames that circulate on the attacker side of a labelled topology -/
def ClN (n p : Nat) (f : Frame) : Prop :=
  ClT t.toTopoC n p f ∧ (subjectToAcl f = some false → ArpWf t (t.label n p) f)

theorem certifyN_parts (σ : St Nat (Node W)) (hc : certifyN t σ = true) :
    certifyC t.toTopoC σ = true ∧ wiresLabelled t = true ∧
    ∀ n, t.side n = true → certifyNodeN t n (σ n) = true := by
  simp only [certifyN, Bool.and_eq_true] at hc
  refine ⟨hc.1.1, hc.1.2, ?_⟩
  intro n hn
  have hlt : n < t.nodes.length := by
    unfold TopoC.side at hn
    cases hx : t.nodes[n]? with
    | none => simp [hx] at hn
    | some x => exact (List.getElem?_eq_some_iff.mp hx).1
  have := List.all_eq_true.mp hc.2 n (List.mem_range.mpr hlt)
  simpa [hn] using this

theorem label_wire (hl : wiresLabelled t = true) (n q m r : Nat) (hw : t.wire n q = some (m, r)) :
    t.label n q = t.label m r := by
  have := List.all_eq_true.mp hl _ (wire_memC t.toTopoC n q m r hw)
  simpa using this

/-- the class does not read the TTL -/
theorem ClN_ttl (n p m r : Nat) (f : Frame) (x : Nat) (hL : t.label m r = t.label n p) (h : ClN t n p f) :
    ClN t m r { f with ttl := x } := by
  obtain ⟨h1, h2⟩ := h
  refine ⟨?_, ?_⟩
  · rcases h1 with h | ⟨ha, hs⟩
    · exact Or.inl h
    · exact Or.inr ⟨ha, by rw [subjectToAcl_ttl]; exact hs⟩
  · intro hs
    rw [subjectToAcl_ttl] at hs
    rw [hL]
    exact h2 hs

end certifyN

/-! ## 4. soundness of the network-level certificate -/

section certifyN2
variable (t : TopoN) (apps : Nat → HostApp W) (tbls : Nat → SwitchTbl W) (rarps : Nat → RouterArp W) (bases : Nat → Soft W)
  (rops : Nat → RtrOpaque W) (hopsOf : Nat → List Ip)

theorem topoRoleN_noninterior (σ : St Nat (Node W)) (n : Nat) (h : t.role n ≠ .interior) :
    topoRoleN t apps tbls rarps bases rops hopsOf σ n = topoRoleC t.toTopoC (softsN t apps tbls rarps bases rops hopsOf) σ n := by
  unfold topoRoleN
  cases hr : t.role n <;> simp_all

theorem stampOn_srcIp (i : Iface) (g : Frame) : (stampOn i g).pkt.srcIp = i.ip := by
  unfold stampOn; split <;> rfl

/-- a host of a certified labelled topology: frames built on its interfaces, and its ARP replies, are in the class at
the far end of its wires -/
theorem hostClosed_of_certify (σ : St Nat (Node W)) (hc : certifyN t σ = true) (n : Nat) (hn : t.side n = true)
    (hr : t.role n = .interior) (hk : t.kind n = .host) :
    (σ n).kind = .host ∧ HostClosed (topoSysN t apps tbls rarps bases rops hopsOf) t.side (ClN t) n (σ n).ifaces := by
  obtain ⟨hcC, hlab, hnode⟩ := certifyN_parts t σ hc
  have hcn := hnode n hn
  simp only [certifyNodeN, hr, hk, Bool.and_eq_true, beq_iff_eq] at hcn
  obtain ⟨hkind, hall⟩ := hcn
  have hsound := C06_certifyC_sound t.toTopoC (softsN t apps tbls rarps bases rops hopsOf)
    (fun n => nodeRx (softsN t apps tbls rarps bases rops hopsOf n)) σ hcC n hn
  have hfacts : ∀ q i, (σ n).ifaces[q]? = some i → ifaceOnLabel i (t.label n q) = true ∧ srcCovers t.cls i.ip = true ∧
      bindOK t.rtrIfs i.mac i.ip = true := by
    intro q i hi
    have := zipIdx_all _ (σ n).ifaces 0 q i hall hi
    simp only [Nat.zero_add, Bool.and_eq_true] at this
    exact ⟨this.1.1, this.1.2, this.2⟩
  refine ⟨hkind, ⟨hsound.2.1 hr, ?_, ?_⟩⟩
  · intro q i g m r hi hw
    obtain ⟨hlbl, hsc, hb⟩ := hfacts q i hi
    have hL : t.label n q = t.label m r := label_wire t hlab n q m r hw
    refine ⟨Or.inl (srcCovers_holds _ _ hsc _ (stampOn_srcIp i g)), ?_⟩
    intro hsub
    have harp := exempt_arp _ hsub
    by_cases hg : g.arp = true
    · have he : stampOn i g = arpRequestFrame i g.arpTgt := by simp [stampOn, hg]
      rw [he]
      refine ⟨fun _ => ⟨rfl, ?_, hb⟩, fun h => by simp [arpRequestFrame] at h⟩
      rw [← hL]; exact ifaceOnLabel_self i _ hlbl
    · have he : (stampOn i g).arp = g.arp := by simp [stampOn, hg]
      rw [he] at harp; exact absurd harp hg
  · intro p f x q o i m r hsf hcl hsub hreq ho hw
    obtain ⟨_, hsc, _⟩ := hfacts q o ho
    refine ⟨Or.inl (srcCovers_holds _ _ hsc _ rfl), ?_⟩
    intro _
    refine ⟨fun h => by simp [arpReplyFrame] at h, fun _ => ?_⟩
    exact ((hcl.2 hsub).1 hreq).2.2

/-- an interior ROUTER of a certified labelled topology (its rule list may hold anything: denials only remove emissions):
what its software emits of its own accord, and every frame it forwards, is in the class at the far end of its wires -/
theorem rtrClosedN_of_certify (σ : St Nat (Node W)) (hc : certifyN t σ = true) (n : Nat) (hn : t.side n = true)
    (hr : t.role n = .interior) (hk : t.kind n = .router) :
    (σ n).kind = .router ∧
    RtrClosed (topoSysN t apps tbls rarps bases rops hopsOf) t.side (ClN t) n (σ n).ifaces (hopsOf n) ∧
    (∀ p i f, SideFacing (topoSysN t apps tbls rarps bases rops hopsOf) t.side n p → ClN t n p f → (σ n).ifaces[p]? = some i →
      f.dstMac = i.mac → f.dstMac ≠ bcastMac → ownIpL (σ n).ifaces f.pkt.dstIp = false →
      FwdOK (topoSysN t apps tbls rarps bases rops hopsOf) (ClN t) n (σ n).ifaces f) := by
  obtain ⟨hcC, hlab, hnode⟩ := certifyN_parts t σ hc
  have hcn := hnode n hn
  simp only [certifyNodeN, hr, hk, Bool.and_eq_true, beq_iff_eq] at hcn
  obtain ⟨hkind, hall⟩ := hcn
  have hsound := C06_certifyC_sound t.toTopoC (softsN t apps tbls rarps bases rops hopsOf)
    (fun n => nodeRx (softsN t apps tbls rarps bases rops hopsOf n)) σ hcC n hn
  have hfacts : ∀ (q : Nat) (i : Iface), (σ n).ifaces[q]? = some i → ifaceOnLabel i (t.label n q) = true ∧
      srcCovers t.cls i.ip = true ∧ t.rtrIfs.contains (i.mac, i.ip) = true ∧ bindOK t.rtrIfs i.mac i.ip = true := by
    intro q i hi
    have := zipIdx_all _ (σ n).ifaces 0 q i hall hi
    simp only [Nat.zero_add, Bool.and_eq_true] at this
    exact ⟨this.1.1.1, this.1.1.2, this.1.2, this.2⟩
  have hreq : ∀ q o a m r, (σ n).ifaces[q]? = some o → t.wire n q = some (m, r) → ClN t m r (arpRequestFrame o a) := by
    intro q o a m r ho hw
    obtain ⟨hlbl, hsc, _, hb⟩ := hfacts q o ho
    have hL : t.label n q = t.label m r := label_wire t hlab n q m r hw
    refine ⟨Or.inl (srcCovers_holds _ _ hsc _ rfl), fun _ => ⟨fun _ => ⟨rfl, ?_, hb⟩, fun h => by simp [arpRequestFrame] at h⟩⟩
    rw [← hL]; exact ifaceOnLabel_self o _ hlbl
  refine ⟨hkind, ⟨hsound.2.1 hr, ?_, ?_, ?_⟩, ?_⟩
  · intro p f q o a m r _ _ ho hw _
    exact hreq q o a m r ho hw
  · intro p f g q o m r _ _ ho _ hg
    obtain ⟨_, hsc, _, _⟩ := hfacts q o ho
    refine ⟨Or.inl (srcCovers_holds _ _ hsc _ rfl), fun hs => ?_⟩
    have := exempt_arp _ hs
    simp [hg] at this
  · intro p f x q o i m r _ hcl hsub hreq' ho _
    obtain ⟨_, hsc, _, _⟩ := hfacts q o ho
    refine ⟨Or.inl (srcCovers_holds _ _ hsc _ rfl), fun _ => ?_⟩
    exact ⟨fun h => by simp [arpReplyFrame] at h, fun _ => ((hcl.2 hsub).1 hreq').2.2⟩
  · intro p i f _ hcl hi hm hb hown
    have hne : subjectToAcl f ≠ some false := by
      intro hs
      obtain ⟨h1, h2⟩ := hcl.2 hs
      cases hq : f.arpReq
      · have hbnd := h2 hq
        rw [hm] at hbnd
        have := bindOK_mem _ _ _ _ hbnd (hfacts p i hi).2.2.1
        have hany : ownIpL (σ n).ifaces f.pkt.dstIp = true := by
          simp only [ownIpL, List.any_eq_true]
          exact ⟨i, List.mem_of_getElem? hi, by simp [this]⟩
        rw [hown] at hany; cases hany
      · exact hb (h1 hq).1
    have hcls : clsHolds t.cls f.pkt = true := by
      rcases hcl.1 with h | ⟨_, h⟩
      · exact h
      · exact absurd h hne
    intro q o m r ho hw
    refine ⟨fun x dm => ⟨Or.inl hcls, fun hs => absurd hs hne⟩, hreq q o _ m r ho hw⟩

/-- a switch of a certified labelled topology -/
theorem switchClosed_of_certify (σ : St Nat (Node W)) (hc : certifyN t σ = true) (n : Nat) (hn : t.side n = true)
    (hr : t.role n = .interior) (hk : t.kind n = .switch) :
    (σ n).kind = .switch ∧ SwitchClosed (topoSysN t apps tbls rarps bases rops hopsOf) t.side (ClN t) n := by
  obtain ⟨hcC, hlab, hnode⟩ := certifyN_parts t σ hc
  have hcn := hnode n hn
  simp only [certifyNodeN, hr, hk, Bool.and_eq_true, beq_iff_eq] at hcn
  obtain ⟨hkind, hall⟩ := hcn
  have hsound := C06_certifyC_sound t.toTopoC (softsN t apps tbls rarps bases rops hopsOf)
    (fun n => nodeRx (softsN t apps tbls rarps bases rops hopsOf n)) σ hcC n hn
  refine ⟨hkind, ⟨hsound.2.1 hr, ?_⟩⟩
  intro p f x q m r hsf hcl hw
  obtain ⟨n', q', _, hw'⟩ := hsf
  have h1 := List.all_eq_true.mp hall _ (wire_memC t.toTopoC n q m r hw)
  have h2 := List.all_eq_true.mp hall _ (wire_memC t.toTopoC n' q' n p hw')
  simp only [bne_self_eq_false, Bool.false_or, Bool.and_eq_true, beq_iff_eq] at h1 h2
  have hL : t.label m r = t.label n p := by
    rw [← label_wire t hlab n q m r hw, h1.1, h2.2]
  exact ClN_ttl t n p m r f x hL hcl

end certifyN2

/-! ## 5. the theorem for a certified labelled network -/

section certifiedN
variable (t : TopoN) (apps : Nat → HostApp W) (tbls : Nat → SwitchTbl W) (rarps : Nat → RouterArp W) (bases : Nat → Soft W)
  (rops : Nat → RtrOpaque W) (hopsOf : Nat → List Ip)

theorem arpReply_exempt (o i : Iface) (f : Frame) : subjectToAcl (arpReplyFrame o i f) = some false := by
  simp [subjectToAcl, arpReplyFrame]

/-- **C06 for a certified labelled network: nothing is assumed of the attacker side, nothing of a blocking router's software.**
If `certifyN` accepts the network in state `σ`, then for ALL services and applications of the attacker-side hosts (they
reach the network through the session manager), ALL contents of the switches' MAC tables, ALL opaque parts of a blocking
router's ARP service and ALL of its other software, any sequence of local operations on attacker-side hosts — each with all
the traffic it triggers, re-entrance included — leaves every protected node, and every frozen one, exactly as in `σ`.
The only hypothesis left is `FwSecondOK` at a FIREWALL port whose first list lets the class through (vacuous when the first
list denies it). -/
theorem C06_certifiedN_unchanged (σ : St Nat (Node W)) (hc : certifyN t σ = true)
    (hfw : ∀ n, t.side n = true → t.role n = .fwDenyC → ∀ p e,
      SideFacing (topoSysN t apps tbls rarps bases rops hopsOf) t.side n p → portEntry p = some e →
      denyClassCheck t.cls ((σ n).acls (entryAcl e)) = false →
      FwSecondOK (topoSysN t apps tbls rarps bases rops hopsOf) t.side (ClN t) (topoRoleN t apps tbls rarps bases rops hopsOf σ) n
        (softsN t apps tbls rarps bases rops hopsOf n) (clsP t.toTopoC)
        (fun e => denyClassCheck t.cls ((σ n).acls (entryAcl e))) (fun e2 => t.finalToProtected n e2 = false) p e)
    (ops : List (Nat × Op Nat Nat Frame (Node W)))
    (hops : ∀ o ∈ ops, t.side o.2.node = true ∧ t.role o.2.node = .interior ∧ t.kind o.2.node = .host ∧
      ∃ a : Node W → SwScript W, o.2.script = fun s => hostOp s (a s)) :
    ∀ m, (t.side m = false ∨ t.role m = .frozen) → runOps (topoSysN t apps tbls rarps bases rops hopsOf) σ ops m = σ m := by
  obtain ⟨hcC, hlab, hnode⟩ := certifyN_parts t σ hc
  have hsound := fun n hn => C06_certifyC_sound t.toTopoC (softsN t apps tbls rarps bases rops hopsOf)
    (fun n => nodeRx (softsN t apps tbls rarps bases rops hopsOf n)) σ hcC n hn
  have hinvEq : ∀ n s, t.role n ≠ .interior →
      (invC (topoSysN t apps tbls rarps bases rops hopsOf) t.side (topoRoleN t apps tbls rarps bases rops hopsOf σ) n s ↔
       invC (topoSysN t apps tbls rarps bases rops hopsOf) t.side (topoRoleC t.toTopoC (softsN t apps tbls rarps bases rops hopsOf) σ) n s) := by
    intro n s h
    unfold invC
    rw [topoRoleN_noninterior t apps tbls rarps bases rops hopsOf σ n h]
  have hhost : ∀ n, t.role n = .interior → t.kind n = .host → ∀ s,
      invC (topoSysN t apps tbls rarps bases rops hopsOf) t.side (topoRoleN t apps tbls rarps bases rops hopsOf σ) n s ↔
        (s.kind = .host ∧ s.ifaces = (σ n).ifaces) := by
    intro n hr hk s; simp [invC, topoRoleN, hr, hk]
  have hswitch : ∀ n, t.role n = .interior → t.kind n = .switch → ∀ s,
      invC (topoSysN t apps tbls rarps bases rops hopsOf) t.side (topoRoleN t apps tbls rarps bases rops hopsOf σ) n s ↔ s.kind = .switch := by
    intro n hr hk s; simp [invC, topoRoleN, hr, hk]
  have hroles : ∀ n, t.side n = true →
      RoleOKC (topoSysN t apps tbls rarps bases rops hopsOf) t.side (ClN t) (topoRoleN t apps tbls rarps bases rops hopsOf σ) n := by
    intro n hn
    have hs := hsound n hn
    have hcn := hnode n hn
    unfold RoleOKC
    cases hr : t.role n with
    | interior =>
      cases hk : t.kind n with
      | host =>
        simp only [topoRoleN, hr, hk]
        obtain ⟨_, hcl⟩ := hostClosed_of_certify t apps tbls rarps bases rops hopsOf σ hc n hn hr hk
        refine ⟨by rw [topoSysN_handler]; simp [softsN, hr, hk], ?_⟩
        intro s p f hJ hsf hcl'
        exact C06_host_safe _ t.side (ClN t) _ n (σ n).ifaces hn (hhost n hr hk) hcl (apps n) s p f
          ((hhost n hr hk s).mpr hJ) hsf hcl'
      | switch =>
        simp only [topoRoleN, hr, hk]
        obtain ⟨_, hcl⟩ := switchClosed_of_certify t apps tbls rarps bases rops hopsOf σ hc n hn hr hk
        refine ⟨by rw [topoSysN_handler]; simp [softsN, hr, hk], ?_⟩
        intro s p f hJ hsf hcl'
        exact C06_switch_safe _ t.side (ClN t) _ n hn (hswitch n hr hk) hcl (tbls n) s p f
          ((hswitch n hr hk s).mpr hJ) hsf hcl'
      | router =>
        simp only [topoRoleN, hr, hk]
        obtain ⟨_, hclo, hfwd⟩ := rtrClosedN_of_certify t apps tbls rarps bases rops hopsOf σ hc n hn hr hk
        refine ⟨by rw [topoSysN_handler]; simp [softsN, hr, hk], ?_⟩
        intro s p f hJ hsf hcl'
        exact C06_rtr_safe _ t.side (ClN t) _ n (σ n).ifaces (hopsOf n) (fun _ => True) (fun _ _ _ => trivial)
          (fun s' => by simp [invC, topoRoleN, hr, hk]) hn hclo
          (fun p' i f' hsf' hcl'' hi hm hb hown _ => hfwd p' i f' hsf' hcl'' hi hm hb hown) (rops n) s p f
          (by simpa [invC, topoRoleN, hr, hk] using hJ) hsf hcl'
      | other => simp [certifyNodeN, hr, hk] at hcn
    | ifaceDown => simp [certifyNodeN, hr] at hcn
    | routerOff =>
      rw [topoRoleN_noninterior t apps tbls rarps bases rops hopsOf σ n (by rw [hr]; simp)]
      simp only [topoRoleC, hr]
      rw [topoSysN_handler]
    | frozen =>
      rw [topoRoleN_noninterior t apps tbls rarps bases rops hopsOf σ n (by rw [hr]; simp)]
      simp only [topoRoleC, hr]
      rw [topoSysN_handler]
    | fwDenyC =>
      have hne : t.role n ≠ .interior := by rw [hr]; simp
      have hrole := topoRoleN_noninterior t apps tbls rarps bases rops hopsOf σ n hne
      rw [hrole]
      simp only [topoRoleC, hr]
      obtain ⟨harp, hports⟩ := hs.2.2.2 hr
      refine ⟨topoSysN_handler t apps tbls rarps bases rops hopsOf n, ?_, ?_⟩
      · intro p f hcl
        rcases hcl.1 with h | ⟨h, _⟩
        · exact h
        · rw [harp] at h; cases h
      · intro p e hsf hpe
        cases hD : denyClassCheck t.cls ((σ n).acls (entryAcl e)) with
        | true => exact Or.inl rfl
        | false =>
          right
          refine ⟨hfw n hn hr p e hsf hpe hD, ?_⟩
          rcases hports p e hsf hpe with h | h
          · rw [hD] at h; cases h
          · exact h
    | routerDenyC =>
      have hne : t.role n ≠ .interior := by rw [hr]; simp
      have hrole := topoRoleN_noninterior t apps tbls rarps bases rops hopsOf σ n hne
      have hsoft : softsN t apps tbls rarps bases rops hopsOf n = routerArpSoft (rarps n) (bases n) := by simp [softsN, hr]
      simp only [certifyNodeN, hr, Bool.and_eq_true] at hcn
      obtain ⟨harpEx, hall⟩ := hcn
      have hfacts : ∀ q i, (σ n).ifaces[q]? = some i → ifaceOnLabel i (t.label n q) = true ∧
          t.rtrIfs.contains (i.mac, i.ip) = true := by
        intro q i hi
        have := zipIdx_all _ (σ n).ifaces 0 q i hall hi
        simpa only [Nat.zero_add, Bool.and_eq_true] using this
      have hroleN : topoRoleN t apps tbls rarps bases rops hopsOf σ n =
          .routerDenyC (routerArpSoft (rarps n) (bases n)) (clsP t.toTopoC) (σ n).ifaces := by
        rw [hrole]; simp only [topoRoleC, hr, hsoft]
      rw [hroleN]
      simp only
      refine ⟨by rw [topoSysN_handler, hsoft], ?_, ?_⟩
      · intro p f hcl hsub
        rcases hcl.1 with h | ⟨_, h⟩
        · exact h
        · rw [hsub] at h; cases h
      · refine C06_router_arp_safe (topoSysN t apps tbls rarps bases rops hopsOf) t.side (ClN t) (topoRoleN t apps tbls rarps bases rops hopsOf σ) n
          (rarps n) (bases n) (clsP t.toTopoC) (σ n).ifaces hroleN ?_ ?_ ?_ hn
        · -- class facts about genuine ARP packets, from `ClN`
          intro p i f hsf hcl hsub hi
          obtain ⟨hlbl, hmem⟩ := hfacts p i hi
          have hwf := hcl.2 hsub
          refine ⟨fun hreq => ⟨(hwf.1 hreq).1, ifaceOnLabel_inNet i _ _ hlbl (hwf.1 hreq).2.1⟩, ?_⟩
          intro hrep hmac
          have hb := hwf.2 hrep
          rw [hmac] at hb
          exact bindOK_mem _ _ _ _ hb hmem
        · exact hs.2.2.1 hr
        · -- the router's own reply is a well-formed genuine ARP packet
          intro p f x q o i m r' hsf hcl hsub hreq hw
          refine ⟨Or.inr ⟨harpEx, arpReply_exempt _ _ _⟩, ?_⟩
          intro _
          refine ⟨fun h => by simp [arpReplyFrame] at h, fun _ => ?_⟩
          exact ((hcl.2 hsub).1 hreq).2.2
  have hσ : ∀ n, t.side n = true →
      invC (topoSysN t apps tbls rarps bases rops hopsOf) t.side (topoRoleN t apps tbls rarps bases rops hopsOf σ) n (σ n) := by
    intro n hn
    cases hr : t.role n with
    | interior =>
      cases hk : t.kind n with
      | host => exact (hhost n hr hk _).mpr ⟨(hostClosed_of_certify t apps tbls rarps bases rops hopsOf σ hc n hn hr hk).1, rfl⟩
      | switch => exact (hswitch n hr hk _).mpr (switchClosed_of_certify t apps tbls rarps bases rops hopsOf σ hc n hn hr hk).1
      | router =>
        have := (rtrClosedN_of_certify t apps tbls rarps bases rops hopsOf σ hc n hn hr hk).1
        simp only [invC, topoRoleN, hr, hk]
        exact ⟨this, trivial⟩
      | other => have hcn := hnode n hn; simp [certifyNodeN, hr, hk] at hcn
    | ifaceDown => exact (hinvEq n _ (by rw [hr]; simp)).mpr (hsound n hn).1
    | routerOff => exact (hinvEq n _ (by rw [hr]; simp)).mpr (hsound n hn).1
    | routerDenyC => exact (hinvEq n _ (by rw [hr]; simp)).mpr (hsound n hn).1
    | fwDenyC => exact (hinvEq n _ (by rw [hr]; simp)).mpr (hsound n hn).1
    | frozen => exact (hinvEq n _ (by rw [hr]; simp)).mpr (hsound n hn).1
  have hops' : ∀ o ∈ ops, SafeOp (topoSysN t apps tbls rarps bases rops hopsOf) t.side
      (FromSideC (topoSysN t apps tbls rarps bases rops hopsOf) t.side (ClN t))
      (invC (topoSysN t apps tbls rarps bases rops hopsOf) t.side (topoRoleN t apps tbls rarps bases rops hopsOf σ)) o.2 := by
    intro o ho
    obtain ⟨h1, h2, h3, a, ha⟩ := hops o ho
    refine ⟨h1, ?_⟩
    intro s hs
    rw [ha]
    obtain ⟨_, hcl⟩ := hostClosed_of_certify t apps tbls rarps bases rops hopsOf σ hc o.2.node h1 h2 h3
    exact C06_hostOp_safe _ t.side (ClN t) _ o.2.node (σ o.2.node).ifaces h1 (hhost o.2.node h2 h3) hcl a s hs
  intro m hm
  have hgood := runOps_good _ t.side _ _ (C06_cut_class _ t.side (ClN t) _ hroles) ops σ hops' hσ
  cases hsm : t.side m with
  | false => exact hgood.2 m hsm
  | true =>
    rcases hm with hm | hm
    · rw [hsm] at hm; cases hm
    · have h := (hinvEq m _ (by rw [hm]; simp)).mp (hgood.1 m hsm)
      simp only [invC, topoRoleC, hm] at h
      exact h.1

end certifiedN

/-! ## 6. non-vacuity -/

section examples

def exSwitch : Node Unit :=
  { kind := .switch, on := true, ifaces := [{ enabled := true, mac := 21, ip := 0, mask := 0 }, { enabled := true, mac := 22, ip := 0, mask := 0 }],
    acls := fun _ => Acl.empty 0 .deny, sw := () }

def exNetA : Ip × Ip := (0x0A000100#32, 0xFFFFFF00#32)
def exNetB : Ip × Ip := (0x0A000200#32, 0xFFFFFF00#32)

/-- A (0) — SW (1) — R (2) — B (3); R's list denies the source range 10.0.1.0/24 (and permits everything else) -/
def exTopoN : TopoN :=
  { nodes := [(true, .interior), (true, .interior), (true, .routerDenyC), (false, .interior)],
    wires := [((0, 0), (1, 0)), ((1, 0), (0, 0)), ((1, 1), (2, 0)), ((2, 0), (1, 1)), ((2, 1), (3, 0)), ((3, 0), (2, 1))],
    cls := [exSrcRange], arpExempt := true,
    kinds := [.host, .switch, .other, .host],
    labels := [((0, 0), exNetA), ((1, 0), exNetA), ((1, 1), exNetA), ((2, 0), exNetA), ((2, 1), exNetB), ((3, 0), exNetB)],
    rtrIfs := [(11, 0x0A000101#32), (12, 0x0A000201#32)] }

def exStatesN : Nat → Node Unit := fun n =>
  if n = 1 then exSwitch else if n = 2 then exRouterC else exHost (if n = 0 then 0x0A00010A#32 else 0x0A000214#32)

/-- the network-level certificate accepts A — SW — R — B with a source-range rule; it rejects the same network when A's address
is outside the denied range, when the switch's ports are labelled with different subnets, when A carries the MAC of the
router's interface (its ARP requests would then not be bound), when the rule is missing, and when A is declared a node of
unknown kind -/
example : certifyN exTopoN exStatesN = true ∧
    certifyN exTopoN (fun n => if n = 0 then exHost 0x0A00050A#32 else exStatesN n) = false ∧
    certifyN { exTopoN with labels := [((0, 0), exNetA), ((1, 0), exNetA), ((1, 1), exNetB), ((2, 0), exNetB), ((2, 1), exNetB), ((3, 0), exNetB)] }
      exStatesN = false ∧
    certifyN exTopoN (fun n => if n = 0 then { exHost 0x0A00010A#32 with ifaces := [{ enabled := true, mac := 11, ip := 0x0A00010A#32, mask := 0xFFFFFF00#32 }] }
      else exStatesN n) = false ∧
    certifyN exTopoN (fun n => if n = 2 then { exRouterC with acls := fun _ => Acl.empty 24 .permit } else exStatesN n) = false ∧
    certifyN { exTopoN with kinds := [.other, .switch, .other, .host] } exStatesN = false := by decide

/-- the theorem applies: whatever A's software does, whatever the switch has learned, whatever the router's other software is -/
example (apps : Nat → HostApp Unit) (tbls : Nat → SwitchTbl Unit) (rarps : Nat → RouterArp Unit) (bases : Nat → Soft Unit)
    (rops : Nat → RtrOpaque Unit) (hopsOf : Nat → List Ip)
    (ops : List (Nat × Op Nat Nat Frame (Node Unit)))
    (hops : ∀ o ∈ ops, o.2.node = 0 ∧ ∃ a : Node Unit → SwScript Unit, o.2.script = fun s => hostOp s (a s)) :
    runOps (topoSysN exTopoN apps tbls rarps bases rops hopsOf) exStatesN ops 3 = exStatesN 3 := by
  apply C06_certifiedN_unchanged exTopoN apps tbls rarps bases rops hopsOf exStatesN (by decide)
  · intro n _ hr; exfalso; revert hr
    match n with
    | 0 | 1 | 2 | 3 => decide
    | _ + 4 => intro hr; simp [TopoC.role, exTopoN] at hr
  · intro o ho
    obtain ⟨h0, a, ha⟩ := hops o ho
    rw [h0]
    exact ⟨by decide, by decide, by decide, a, ha⟩
  · left; decide

/-- an interior router on the attacker side: A (0) — R1 (1, plain forwarder) — R2 (2, denies everything) — B (3) -/
def exTopoN2 : TopoN :=
  { nodes := [(true, .interior), (true, .interior), (true, .routerDenyC), (false, .interior)],
    wires := [((0, 0), (1, 0)), ((1, 0), (0, 0)), ((1, 1), (2, 0)), ((2, 0), (1, 1)), ((2, 1), (3, 0)), ((3, 0), (2, 1))],
    cls := [anyPattern], arpExempt := true, kinds := [.host, .router, .other, .host],
    labels := [((0, 0), exNetA), ((1, 0), exNetA), ((1, 1), (0x0A000900#32, 0xFFFFFF00#32)), ((2, 0), (0x0A000900#32, 0xFFFFFF00#32)),
               ((2, 1), exNetB), ((3, 0), exNetB)],
    rtrIfs := [(31, 0x0A000101#32), (32, 0x0A000901#32), (33, 0x0A000902#32), (34, 0x0A000201#32)] }

def exR1 : Node Unit :=
  { kind := .router, on := true, acls := fun _ => Acl.empty 24 .permit, sw := (),
    ifaces := [{ enabled := true, mac := 31, ip := 0x0A000101#32, mask := 0xFFFFFF00#32 },
               { enabled := true, mac := 32, ip := 0x0A000901#32, mask := 0xFFFFFF00#32 }] }

def exR2 : Node Unit :=
  { kind := .router, on := true, acls := fun _ => exDenyAllAcl, sw := (),
    ifaces := [{ enabled := true, mac := 33, ip := 0x0A000902#32, mask := 0xFFFFFF00#32 },
               { enabled := true, mac := 34, ip := 0x0A000201#32, mask := 0xFFFFFF00#32 }] }

def exStatesN2 : Nat → Node Unit := fun n =>
  if n = 1 then exR1 else if n = 2 then exR2 else exHost (if n = 0 then 0x0A00010A#32 else 0x0A000214#32)

/-- `certifyN` accepts the interior router (round 4); with a source-exact class it does not: the router's own address is
outside the class (its echo reply would be) -/
example : certifyN exTopoN2 exStatesN2 = true ∧
    certifyN { exTopoN2 with cls := [{ anyPattern with srcIp := some 0x0A00010A#32 }] } exStatesN2 = false := by decide

/-- a host's operation really emits: a stamped frame leaves on port 0 with A's own source -/
example : hostOp (exHost 0x0A00010A#32) (.send () 0 exPing (fun w => .done w)) =
    .send (exHost 0x0A00010A#32) 0 { exPing with srcMac := 5, pkt := { exPing.pkt with srcIp := 0x0A00010A#32 } } (fun s' => .done s') := by
  simp [hostOp, liftSw, stampSends, guardSends, hostStamp, exHost, portEnabled, exPing]

end examples

/-! ## 7. the blocking mechanisms that are "an element that never emits": explicit instances of the cut theorem

A — X — B (`exWire`: A.0—X.0, X.1—B.0).  Which mechanism has which instance:
  denying ACL (router) ........ `routerDeny` / `routerDenyC`  (examples in Props/C06.lean, `C06_certifiedN_unchanged`)
  denying firewall rule ....... `fwDeny` / `fwDenyC`
  router powered off .......... `routerOff` (interfaces may even be enabled)
  B powered off / NIC disabled  `C06_instance_target_down`   (frozen: B's own state is the one that must not change)
  device on the path off ...... `C06_instance_path_device_down` (frozen; any kind — C12: not ON ⇒ interfaces disabled)
  disabled port towards A ..... `C06_instance_path_device_down` (the attacker-facing port is what is disabled)
  disabled port towards B ..... `C06_instance_port_towards_target_disabled` (ifaceDown; `SoftKeeps` from the confined software set)
  missing link ................ `C06_instance_missing_link`
-/

section instances

def sys3 (h : Fin 3 → Node Unit → Nat → Frame → Script Unit) (wire : Fin 3 → Nat → Option (Fin 3 × Nat)) :
    Sys (Fin 3) Nat Frame (Node Unit) := { handler := h, wire := wire }

/-- A — X — B with the three handlers given -/
def sysPath (hA hX hB : Node Unit → Nat → Frame → Script Unit) : Sys (Fin 3) Nat Frame (Node Unit) :=
  sys3 (fun n => if n = 0 then hA else if n = 1 then hX else hB) exWire

theorem exWire_facing2 (p : Nat) (n' : Fin 3) (q : Nat) (h : exWire n' q = some (2, p)) : p = 0 := by
  match n', q with
  | 0, 0 => simp [exWire] at h
  | 0, _ + 1 => simp [exWire] at h
  | 1, 0 => simp [exWire] at h
  | 1, 1 => simp [exWire] at h; exact h.symm
  | 1, _ + 2 => simp [exWire] at h
  | 2, 0 => simp [exWire] at h
  | 2, _ + 1 => simp [exWire] at h

theorem exWire_facing1 (p : Nat) (n' : Fin 3) (q : Nat) (hs : n' ≠ 2) (h : exWire n' q = some (1, p)) : p = 0 := by
  match n', q with
  | 0, 0 => simp [exWire] at h; exact h.symm
  | 0, _ + 1 => simp [exWire] at h
  | 1, 0 => simp [exWire] at h
  | 1, 1 => simp [exWire] at h
  | 1, _ + 2 => simp [exWire] at h
  | 2, _ => exact absurd rfl hs

/-- **B powered off, or B's NIC disabled** (C12: not ON ⇒ interfaces disabled): whatever A and the device X between them do
— arbitrary handlers, arbitrary operations on both — B's state stays exactly as it was, although X's port towards B is
enabled and frames do arrive at B's interface. -/
theorem C06_instance_target_down (hA hX : Node Unit → Nat → Frame → Script Unit) (soft : Soft Unit)
    (ops : List (Nat × Op (Fin 3) Nat Frame (Node Unit))) (hops : ∀ o ∈ ops, o.2.node ≠ 2)
    (σ : St (Fin 3) (Node Unit)) (hd : portEnabled (σ 2) 0 = false) :
    runOps (sysPath hA hX (nodeRx soft)) σ ops 2 = σ 2 := by
  let role : Fin 3 → Role Unit := fun n => if n = 2 then .frozen soft (σ 2) else .interior
  apply C06_frozen_unchanged _ (fun _ => true) role ?_ ops ?_ σ ?_ 2 rfl soft (σ 2) (by simp [role])
  · intro n _
    match n with
    | 0 => simp [RoleOK, role]
    | 1 => simp [RoleOK, role]
    | 2 => simp [RoleOK, role, sysPath, sys3]
  · intro o ho
    have h2 := hops o ho
    have hr : role o.2.node = .interior := by simp [role, h2]
    exact C06_safeOp_interior _ _ _ o.2 rfl hr (fun _ _ _ _ => rfl)
  · intro n _
    match n with
    | 0 => simp [inv, role]
    | 1 => simp [inv, role]
    | 2 =>
      simp only [inv, role, if_true, true_and]
      intro p ⟨n', q, _, hw⟩
      have := exWire_facing2 p n' q hw
      subst this; exact hd

/-- **A device on the path powered off / its attacker-facing port disabled** (switch, router, firewall or host; C12: not ON ⇒
interfaces disabled): X's state and B's state stay exactly as they were, whatever A does and whatever software X carries. -/
theorem C06_instance_path_device_down (hA hB : Node Unit → Nat → Frame → Script Unit) (soft : Soft Unit)
    (ops : List (Nat × Op (Fin 3) Nat Frame (Node Unit))) (hops : ∀ o ∈ ops, o.2.node = 0)
    (σ : St (Fin 3) (Node Unit)) (hd : portEnabled (σ 1) 0 = false) :
    runOps (sysPath hA (nodeRx soft) hB) σ ops 2 = σ 2 ∧
    runOps (sysPath hA (nodeRx soft) hB) σ ops 1 = σ 1 := by
  let role : Fin 3 → Role Unit := fun n => if n = 1 then .frozen soft (σ 1) else .interior
  have hroles : ∀ n, exSide n = true → RoleOK (sysPath hA (nodeRx soft) hB)
      exSide role n := by
    intro n hn
    match n with
    | 0 => exact exInterior0
    | 1 => simp [RoleOK, role, sysPath, sys3]
    | 2 => simp [exSide] at hn
  have hops' : ∀ o ∈ ops, SafeOp (sysPath hA (nodeRx soft) hB) exSide
      (FromSide (sysPath hA (nodeRx soft) hB) exSide) (inv (sysPath hA (nodeRx soft) hB) exSide role) o.2 := by
    intro o ho
    have h0 := hops o ho
    exact C06_safeOp_interior _ _ _ o.2 (by rw [h0]; rfl) (by rw [h0]; rfl) (by rw [h0]; exact exInterior0)
  have hσ : ∀ n, exSide n = true → inv (sysPath hA (nodeRx soft) hB)
      exSide role n (σ n) := by
    intro n hn
    match n with
    | 0 => simp [inv, role]
    | 1 =>
      simp only [inv, role, if_true, true_and]
      intro p ⟨n', q, hs, hw⟩
      have hne : n' ≠ 2 := by intro h; subst h; simp [exSide] at hs
      have := exWire_facing1 p n' q hne hw
      subst this; exact hd
    | 2 => simp [exSide] at hn
  exact ⟨C06_blocked_unchanged _ exSide role hroles ops hops' σ hσ 2 rfl,
    C06_frozen_unchanged _ exSide role hroles ops hops' σ hσ 1 rfl soft (σ 1) (by simp [role])⟩

/-- the same wiring with the link X—B never plugged in -/
def exWireCut : Fin 3 → Nat → Option (Fin 3 × Nat)
  | 0, 0 => some (1, 0)
  | 1, 0 => some (0, 0)
  | _, _ => none

/-- **Missing link**: with no wire between X and B, arbitrary handlers and arbitrary operations on A AND on X leave B alone. -/
theorem C06_instance_missing_link (h : Fin 3 → Node Unit → Nat → Frame → Script Unit)
    (ops : List (Nat × Op (Fin 3) Nat Frame (Node Unit))) (hops : ∀ o ∈ ops, o.2.node ≠ 2)
    (σ : St (Fin 3) (Node Unit)) : runOps (sys3 h exWireCut) σ ops 2 = σ 2 := by
  have hw : ∀ (n : Fin 3) q m r, n ≠ 2 → exWireCut n q = some (m, r) → exSide m = true := by
    intro n q m r _ hh
    match n, q with
    | 0, 0 => simp [exWireCut] at hh; rw [← hh.1]; rfl
    | 0, _ + 1 => simp [exWireCut] at hh
    | 1, 0 => simp [exWireCut] at hh; rw [← hh.1]; rfl
    | 1, _ + 1 => simp [exWireCut] at hh
    | 2, _ => simp [exWireCut] at hh
  apply C06_blocked_unchanged (sys3 h exWireCut) exSide (fun _ => .interior)
  · intro n hn
    have hne : n ≠ 2 := by intro h2; subst h2; simp [exSide] at hn
    exact fun q m r hh => hw n q m r hne hh
  · intro o ho
    have h2 := hops o ho
    have hs : exSide o.2.node = true := by
      match hn : o.2.node with
      | 0 => rfl
      | 1 => rfl
      | 2 => exact absurd hn h2
    exact C06_safeOp_interior _ _ _ o.2 hs rfl (fun q m r hh => hw _ q m r h2 hh)
  · intro n _; simp [inv]
  · rfl

/-- **A disabled port towards B on a device with only confined software** — e.g. a switch (it carries no software at all:
`items = []`), or a router / firewall without a logged-in terminal user: `SoftKeeps` is not a hypothesis here, it follows
from the decidable condition on the software set, for ANY firmware. -/
theorem C06_instance_port_towards_target_disabled (hA hB : Node Unit → Nat → Frame → Script Unit) (fw : Firmware Unit)
    (items : List (SwItem Unit)) (hconf : setConfined items = true)
    (ops : List (Nat × Op (Fin 3) Nat Frame (Node Unit))) (hops : ∀ o ∈ ops, o.2.node = 0)
    (σ : St (Fin 3) (Node Unit)) (hd : portEnabled (σ 1) 1 = false) :
    runOps (sysPath hA (nodeRx (softOf fw items)) hB) σ ops 2 = σ 2 := by
  let sys := sysPath hA (nodeRx (softOf fw items)) hB
  have hbd : ∀ s : Node Unit, BoundaryDown sys exSide 1 s ↔ portEnabled s 1 = false := by
    intro s
    constructor
    · intro h; exact h 1 2 0 rfl rfl
    · intro h q m r hw hm
      match q with
      | 0 => simp [sys, sysPath, sys3, exWire] at hw; rw [← hw.1] at hm; simp [exSide] at hm
      | 1 => exact h
      | _ + 2 => simp [sys, sysPath, sys3, exWire] at hw
  apply C06_blocked_unchanged sys exSide (exRole (.ifaceDown (softOf fw items)))
  · intro n hn
    match n with
    | 0 => exact exInterior0
    | 1 =>
      simp only [RoleOK, exRole, if_true]
      exact ⟨by simp [sys, sysPath, sys3], C06_softKeeps_of_confined_set fw items hconf _ (fun s x h => boundaryDown_sw sys exSide 1 s x h)⟩
    | 2 => simp [exSide] at hn
  · intro o ho
    have h0 := hops o ho
    exact C06_safeOp_interior _ _ _ o.2 (by rw [h0]; rfl) (by rw [h0]; rfl) (by rw [h0]; exact exInterior0)
  · intro n hn
    match n with
    | 0 => simp [inv, exRole]
    | 1 => simp only [inv, exRole, if_true]; exact (hbd _).mpr hd
    | 2 => simp [exSide] at hn
  · rfl

end instances

/-- **C06 for a certified scenario whose blocking-by-disabled-interface elements carry confined software**: `hkeep` of
`C06_certified_unchanged` is discharged by the decidable condition on the software set. -/
theorem C06_certified_unchanged_confined (t : Topo) (softs : Nat → Soft W) (hInt : Nat → Node W → Nat → Frame → Script W)
    (fws : Nat → Firmware W) (items : Nat → List (SwItem W)) (σ : St Nat (Node W)) (hc : certify t σ = true)
    (hsoft : ∀ n, t.side n = true → t.role n = .ifaceDown → softs n = softOf (fws n) (items n) ∧ setConfined (items n) = true)
    (hnoRouterDeny : ∀ n, t.side n = true → t.role n ≠ .routerDeny)
    (ops : List (Nat × Op Nat Nat Frame (Node W)))
    (hops : ∀ o ∈ ops, t.side o.2.node = true ∧ t.role o.2.node = .interior) :
    ∀ m, (t.side m = false ∨ t.role m = .frozen) → runOps (topoSys t softs hInt) σ ops m = σ m := by
  apply C06_certified_unchanged t softs hInt σ hc
  · intro n hn hr
    obtain ⟨h1, h2⟩ := hsoft n hn hr
    rw [h1]
    exact C06_softKeeps_of_confined_set (fws n) (items n) h2 _
      (fun s x h => boundaryDown_sw (topoSys t (softs) hInt) t.side n s x h)
  · intro n hn hr; exact absurd hr (hnoRouterDeny n hn)
  · intro o ho; exact ⟨(hops o ho).1, Or.inl (hops o ho).2⟩

end Primaite.Filter
