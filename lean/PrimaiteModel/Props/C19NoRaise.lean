/-
C19, part 9 (round 7): a CONSTRUCTED TAP003 fed well-formed responses NEVER RAISES — for every accepted configuration,
every start-node draw, every schedule / trial draw, every response sequence, every run length.

This is the theorem the three earlier addenda listed as "not done".  It closes the class of F-C19-2 (IndexError on the
empty history), F-C19-5 (KeyError: knowledge lacks a host), F-C19-6 (KeyError: the address forgotten after a local password
change) and F-C19-7 (IndexError: empty `malicious_acls`) for good: every `raise` branch of the model
(`setNext`, `progress`, `tapStart`, `handleLogin`, `reasonCheck`, `lookBack`, `manipAct`, `exploitBody`) is unreachable
from `Tap3.init`.

The invariant `NR`:
* stage bookkeeping `next = successor(current)` (or FAILED) — `progress` always finds its enum member;
* once the agent is in ACCESS / MANIPULATION / EXPLOIT, PLANNING has run (`planned`), and from then on the knowledge
  COVERS the configuration (`Cov`): every `malicious_acls` router has an entry with an address, every `account_changes`
  host has an entry, with an address unless it is the only possible start node.  `Cov` holds of the configured knowledge
  by the settings validator (`C19_tap3_constructed_knowledge`) and is preserved by both password-change updates
  (`creds_get_set`: the remote update writes an address, the local one keeps it — the repair of F-C19-6);
* `_current_acl < len(malicious_acls)` unless the list is empty;
* the start node is one of the possible start nodes; the account-change queue is a part of the configured list;
* `current_timestep ≥ 0`, `variance ≥ 0`;
* every response in the history is well formed (`Resp.wf`): a failed response carries `data["reason"]`, a successful one
  the login data.
-/
import PrimaiteModel.Props.C19Live
namespace Primaite.Agents
namespace Tap3

/-! ## 30. `d[h] = v` then `d.get(k)` -/

theorem creds_get_map (h k : Val) (v : Cred) : ∀ cr : Creds,
    Creds.get (cr.map (fun e => if e.1 == h then (h, v) else e)) k =
      if k = h then (cr.get k).map (fun _ => v) else cr.get k := by
  intro cr
  induction cr with
  | nil => simp [Creds.get]
  | cons e r ih =>
    unfold Creds.get at ih ⊢
    by_cases he : e.1 = h <;> by_cases hk : k = h <;> by_cases hek : e.1 = k <;>
      simp_all

/-- Reading a dictionary after one assignment. -/
theorem creds_get_set (cr : Creds) (h k : Val) (v : Cred) :
    (cr.set h v).get k = if k = h then some v else cr.get k := by
  unfold Creds.set
  split
  · rename_i hs
    rw [creds_get_map]
    split
    · rename_i hk
      subst hk
      obtain ⟨x, hx⟩ := Option.isSome_iff_exists.1 hs
      rw [hx]; rfl
    · rfl
  · rename_i hs
    have hn : cr.get h = none := by
      cases hg : cr.get h with
      | none => rfl
      | some x => rw [hg] at hs; simp at hs
    unfold Creds.get at hn ⊢
    rw [List.find?_append]
    by_cases hk : k = h
    · subst hk
      have : cr.find? (fun e => e.1 == k) = none := by
        cases hf : cr.find? (fun e => e.1 == k) with
        | none => rfl
        | some e => rw [hf] at hn; cases hn
      simp [this]
    · have : (h == k) = false := by simpa using fun e => hk e.symm
      simp [hk, this]

/-! ## 31. The knowledge covers the configuration -/

/-- The knowledge `cr` holds what the kill chain will read: an entry with an address for every ACL router, an entry for
every account-change host — with an address unless that host is the only possible start node. -/
structure Cov (c : Cfg) (cr : Creds) : Prop where
  acl : ∀ a ∈ c.acls, ∃ x ip, cr.get a.router = some x ∧ x.ip = some ip
  acct : ∀ a ∈ c.accountChanges, ∃ x, cr.get a.host = some x ∧ (x.ip.isSome = true ∨ ∀ n ∈ c.startSet, n = a.host)

/-- An assignment that does not lose an address keeps the cover. -/
theorem cov_set (c : Cfg) (cr : Creds) (h : Val) (v : Cred) (hc : Cov c cr)
    (hv : ∀ x, cr.get h = some x → x.ip.isSome = true → v.ip.isSome = true) : Cov c (cr.set h v) := by
  refine ⟨fun a ha => ?_, fun a ha => ?_⟩
  · obtain ⟨x, ip, hx, hip⟩ := hc.acl a ha
    rw [creds_get_set]
    split
    · rename_i he
      have := hv x (by rw [← he]; exact hx) (by rw [hip]; rfl)
      obtain ⟨ip', hip'⟩ := Option.isSome_iff_exists.1 this
      exact ⟨v, ip', rfl, hip'⟩
    · exact ⟨x, ip, hx, hip⟩
  · obtain ⟨x, hx, hor⟩ := hc.acct a ha
    rw [creds_get_set]
    split
    · rename_i he
      refine ⟨v, rfl, ?_⟩
      rcases hor with hi | hall
      · exact Or.inl (hv x (by rw [← he]; exact hx) hi)
      · exact Or.inr hall
    · exact ⟨x, hx, hor⟩

/-- The validator makes the configured knowledge cover the configuration. -/
theorem cov_init (c : Cfg) (d0 : Int) (k : Nat) (s0 : St) (h0 : init c d0 k = some s0) : Cov c c.creds0 := by
  have := C19_tap3_constructed_knowledge c d0 k s0 h0
  refine ⟨fun a ha => ?_, this.2⟩
  obtain ⟨cr, hg, hi⟩ := this.1 a ha
  obtain ⟨ip, hip⟩ := Option.isSome_iff_exists.1 hi
  exact ⟨cr, ip, hg, hip⟩

/-! ## 32. The invariant -/

/-- A well-formed simulator response: a failure carries `data["reason"]`, a success the login data. -/
def Resp.wf (r : Resp) : Prop := (r.ok = false → r.hasReason = true) ∧ (r.ok = true → r.hasLoginData = true)

/-- What `_handle_login_response` needs of a history item: a SUCCESSFUL remote login carries the login data. -/
def Hist.loginOk (h : Hist) : Prop := h.kind = .remoteLogin → h.resp.ok = true → h.resp.hasLoginData = true

structure NR (c : Cfg) (s : St) : Prop where
  stage : s.cur = .failed ∨ s.nxt = s.cur.succ
  planned : (s.cur = .access ∨ s.cur = .manipulation ∨ s.cur = .exploit) → s.planned = true
  cover : s.planned = true → Cov c s.creds
  cover0 : Cov c c.creds0
  acl : c.acls = [] ∨ s.curAcl < c.acls.length
  start : s.startNode ∈ c.startSet
  queue : ∀ a ∈ s.acctQueue, a ∈ c.accountChanges
  nextA : ∀ a, s.nextAcct = some a → a ∈ c.accountChanges
  hist : ∀ h ∈ s.hist, h.loginOk
  var : 0 ≤ c.variance
  curT : 0 ≤ s.curT
  err : s.err = false

theorem not_mid_failed {P : Prop} (h : Stage.failed = .access ∨ Stage.failed = .manipulation ∨ Stage.failed = .exploit) : P := by
  rcases h with h | h | h <;> cases h

theorem nr_init (c : Cfg) (d0 : Int) (k : Nat) (s0 : St) (h0 : init c d0 k = some s0) : NR c s0 := by
  have hcov := cov_init c d0 k s0 h0
  have hp := (C19_tap3_params_from_config c d0 k s0 [] h0).1
  have hstart : s0.startNode ∈ c.startSet := by
    unfold Cfg.startSet
    rcases hp with ⟨he, hd⟩ | hm
    · simp [he, hd]
    · have : c.startingNodes.isEmpty = false := by
        cases hl : c.startingNodes with
        | nil => rw [hl] at hm; cases hm
        | cons _ _ => rfl
      simp [this, hm]
  have hacl : c.acls = [] ∨ 0 < c.acls.length := by
    cases hl : c.acls with
    | nil => exact Or.inl rfl
    | cons _ _ => exact Or.inr (by simp)
  unfold init at h0
  split at h0
  · rename_i hv
    have hvar : 0 ≤ c.variance := by simpa [randintOk] using hv.1
    cases h0
    exact { stage := Or.inr rfl, planned := (fun h => by rcases h with h | h | h <;> cases h),
            cover := (fun h => by cases h), cover0 := hcov, acl := hacl,
            start := hstart, queue := (fun a ha => ha), nextA := (fun a ha => by cases ha),
            hist := (fun h hh => by cases hh), var := hvar, curT := Int.le_refl 0, err := rfl }
  · cases h0

/-! ## 33. Every method keeps the invariant (so none of them raises) -/

theorem progress_eq (s : St) (x : Stage) (hx : x.chain = true) (hc : s.cur = x) (hn : s.nxt = x.succ) :
    progress s = { s with cur := x.succ, nxt := x.succ.succ, prog := .pending } := by
  cases x <;> simp [Stage.chain] at hx <;>
    simp [progress, hc, hn, Stage.succ, Stage.ofVal?, Stage.all, Stage.val]

theorem nr_progress (c : Cfg) (s : St) (x : Stage) (hx : x.chain = true) (hc : s.cur = x) (hn : s.nxt = x.succ)
    (h : NR c s) (hp : x = .planning → s.planned = true) : NR c (progress s) := by
  rw [progress_eq s x hx hc hn]
  exact { h with
    stage := Or.inr rfl
    planned := fun hh => by
      cases x <;> simp [Stage.chain] at hx <;> simp [Stage.succ] at hh
      · exact hp rfl
      · exact h.planned (Or.inl hc)
      · exact h.planned (Or.inr (Or.inl hc)) }

theorem nr_failStage (c : Cfg) (s : St) (h : NR c s) : NR c (failStage c s) := by
  unfold failStage
  split
  · exact h
  · exact { h with stage := Or.inl rfl, planned := fun hh => not_mid_failed hh }

theorem nr_nothing (c : Cfg) (s : St) (h : NR c s) : NR c { s with chosen := Act.nothing } := { h with }

theorem nr_handleLogin (c : Cfg) (s : St) (h : NR c s) : NR c (handleLogin s) := by
  unfold handleLogin
  split
  · exact h
  · rename_i x hx
    split
    · rename_i hk
      split
      · exact { h with }
      · rename_i hd
        exact absurd (h.hist x (List.mem_of_getLast? hx) hk.1 hk.2) hd
    · exact h

theorem nr_handleChangePw (c : Cfg) (s : St) (h : NR c s) : NR c (handleChangePw c s) := by
  unfold handleChangePw
  split
  · exact h
  · split
    · exact h
    · split
      · exact { h with cover := fun hp => cov_set c _ _ _ (h.cover hp) (fun _ _ _ => rfl) }
      · split
        · exact { h with cover := fun hp => cov_set c _ _ _ (h.cover hp) (fun x hx hi => by simp [hx, hi]) }
        · exact h

theorem nr_preGuard (c : Cfg) (s : St) (h : NR c s) : NR c (preGuardHandlers c s) :=
  nr_handleChangePw c _ (nr_handleLogin c s h)

theorem nr_returnHandler (c : Cfg) (x : Hist) (s : St) (h : NR c s) : NR c (returnHandler c x s) := by
  unfold returnHandler
  split
  · exact { h with stage := Or.inl rfl, planned := fun hh => not_mid_failed hh }
  · exact h

theorem nr_reasonCheck (c : Cfg) (x : Hist) (s : St) (hx : x.resp.ok = false → x.resp.hasReason = true) (h : NR c s) :
    NR c (reasonCheck x s) := by
  unfold reasonCheck
  split
  · rename_i hb
    have hok : x.resp.ok = false := by simpa using hb.1
    exact absurd (hx hok) hb.2
  · exact h

theorem nr_setNext (c : Cfg) (s : St) (b d : Int) (h : NR c s) : NR c (setNext c s b d) := by
  unfold setNext
  rw [if_pos (by simp [randintOk, h.var])]
  exact { h with }

theorem nr_curT (c : Cfg) (s : St) (t : Int) (ht : 0 ≤ t) (h : NR c s) : NR c { s with curT := t } := { h with curT := ht }

theorem nr_outcomeHandler (c : Cfg) (s : St) (h : NR c s) : NR c (outcomeHandler c s) := by
  unfold outcomeHandler
  split
  · split
    · exact { h with }
    · split
      · exact { h with stage := Or.inr rfl, planned := fun hh => by rcases hh with hh | hh | hh <;> cases hh }
      · exact { h with }
  · exact h

/-! the stage methods -/

theorem nr_tapStart (c : Cfg) (s : St) (hc : s.cur = .notStarted) (h : NR c s) : NR c (tapStart s) := by
  have : tapStart s = { s with cur := .reconnaissance, nxt := .planning, chosen := Act.nothing } := by
    simp [tapStart, hc, Stage.ofVal?, Stage.all, Stage.val]
  rw [this]
  exact { h with stage := Or.inr rfl, planned := fun hh => by rcases hh with hh | hh | hh <;> cases hh }

theorem nr_reconnaissance (c : Cfg) (s : St) (hc : s.cur = .reconnaissance) (hn : s.nxt = Stage.succ .reconnaissance)
    (h : NR c s) : NR c (reconnaissance s) := by
  unfold reconnaissance
  rw [if_neg (by simp [hc])]
  exact nr_progress c _ .reconnaissance rfl hc hn (nr_nothing c s h) (fun e => by cases e)

theorem nr_planning (c : Cfg) (i : In) (s : St) (hc : s.cur = .planning) (hn : s.nxt = Stage.succ .planning)
    (h : NR c s) : NR c (planning c i s) := by
  unfold planning
  rw [if_neg (by simp [hc])]
  split
  · by_cases hp : s.planned = true
    · rw [if_pos hp]
      exact nr_progress c s .planning rfl hc hn h (fun _ => hp)
    · rw [if_neg hp]
      exact nr_progress c _ .planning rfl hc hn { h with cover := fun _ => h.cover0, planned := fun _ => rfl } (fun _ => rfl)
  · exact nr_failStage c _ (nr_nothing c s h)

theorem nr_access (c : Cfg) (i : In) (s : St) (hc : s.cur = .access) (hn : s.nxt = Stage.succ .access)
    (h : NR c s) : NR c (access c i s) := by
  unfold access
  rw [if_neg (by simp [hc])]
  split
  · exact nr_nothing c _ (nr_progress c s .access rfl hc hn h (fun e => by cases e))
  · exact nr_failStage c _ (nr_nothing c s h)

theorem manipPick_mem (c : Cfg) (s : St) (h : NR c s) (a : AcctChange) (q1 : List AcctChange)
    (hp : manipPick s = some (a, q1)) : a ∈ c.accountChanges ∧ ∀ x ∈ q1, x ∈ c.accountChanges := by
  unfold manipPick at hp
  split at hp
  · rename_i x q hx
    cases hp
    exact ⟨h.nextA _ hx, h.queue⟩
  · rename_i x r _ hq
    cases hp
    exact ⟨h.queue _ (by rw [hq]; exact List.mem_cons_self), fun y hy => h.queue _ (by rw [hq]; exact List.mem_cons_of_mem _ hy)⟩
  · cases hp

theorem popAcct_mem (c : Cfg) (q : List AcctChange) (hq : ∀ x ∈ q, x ∈ c.accountChanges) :
    (∀ x ∈ (popAcct q).2, x ∈ c.accountChanges) ∧ (∀ a, (popAcct q).1 = some a → a ∈ c.accountChanges) := by
  cases q with
  | nil => exact ⟨fun x hx => (by cases hx), fun a ha => (by cases ha)⟩
  | cons y r =>
    refine ⟨fun x hx => hq x (List.mem_cons_of_mem _ hx), fun a ha => ?_⟩
    simp only [popAcct, Option.some.injEq] at ha
    rw [← ha]; exact hq y List.mem_cons_self

theorem manipAct_cn (c : Cfg) (s : St) : (manipAct c s).cur = s.cur ∧ (manipAct c s).nxt = s.nxt := by
  unfold manipAct; repeat' split
  all_goals simp [St.raise]

/-- `_manipulation`'s action part: with the knowledge covering the configuration no `KeyError` branch is reachable. -/
theorem nr_manipAct (c : Cfg) (s : St) (hpl : s.planned = true) (h : NR c s) : NR c (manipAct c s) := by
  have hcov := h.cover hpl
  unfold manipAct
  split
  · exact h
  · rename_i a q1 hpick
    obtain ⟨ha, hq1⟩ := manipPick_mem c s h a q1 hpick
    obtain ⟨x, hx, hor⟩ := hcov.acct a ha
    have hpop := popAcct_mem c q1 hq1
    split
    · rename_i hhost
      split
      · rename_i hnone
        rw [← hhost, hx] at hnone; cases hnone
      · exact { h with queue := hpop.1, nextA := hpop.2 }
    · rename_i hhost
      have hip : x.ip.isSome = true := by
        rcases hor with hi | hall
        · exact hi
        · exact absurd (hall _ h.start).symm hhost
      obtain ⟨ip, hip'⟩ := Option.isSome_iff_exists.1 hip
      split
      · split
        · exact { h with queue := hq1, nextA := fun b hb => by cases hb; exact ha }
        · exact { h with queue := hpop.1, nextA := hpop.2 }
      · rename_i hno
        exact absurd (by rw [hx]; simp [hip']) (hno x ip hx)

theorem nr_manipulation (c : Cfg) (i : In) (s : St) (hc : s.cur = .manipulation) (hn : s.nxt = Stage.succ .manipulation)
    (h : NR c s) : NR c (manipulation c i s) := by
  have hpl := h.planned (Or.inr (Or.inl hc))
  unfold manipulation
  rw [if_neg (by simp [hc])]
  split
  · have hb : NR c (manipBegin s) := by unfold manipBegin; split; exact { h with }; exact h
    have hbf : (manipBegin s).cur = s.cur ∧ (manipBegin s).nxt = s.nxt ∧ (manipBegin s).planned = s.planned := by
      unfold manipBegin; split <;> simp
    have ha := nr_manipAct c _ (by rw [hbf.2.2]; exact hpl) hb
    have hcn := manipAct_cn c (manipBegin s)
    unfold manipFinish
    split
    · exact nr_progress c _ .manipulation rfl (by rw [hcn.1, hbf.1]; exact hc) (by rw [hcn.2, hbf.2.1]; exact hn) ha
        (fun e => by cases e)
    · exact ha
  · exact nr_failStage c _ (nr_nothing c s h)

/-- `_exploit` after its entry trial: the ACL index is in range, the router's credentials and address are known. -/
theorem nr_exploitBody (c : Cfg) (s : St) (hc : s.cur = .exploit) (hn : s.nxt = Stage.succ .exploit) (h : NR c s) :
    NR c (exploitBody c s) := by
  have hcov := h.cover (h.planned (Or.inr (Or.inr hc)))
  unfold exploitBody
  split
  · exact nr_progress c _ .exploit rfl hc hn { h with } (fun e => by cases e)
  · rename_i hne
    have hne' : c.acls ≠ [] := by intro e; rw [e] at hne; simp at hne
    have hlt : s.curAcl < c.acls.length := by
      rcases h.acl with e | e
      · exact absurd e hne'
      · exact e
    have hpos : 0 < c.acls.length := by omega
    split
    · rename_i hnone
      rw [List.getElem?_eq_getElem hlt] at hnone; cases hnone
    · rename_i a hsome
      obtain ⟨x, ip, hx, hip⟩ := hcov.acl a (List.mem_of_getElem? hsome)
      split
      · rename_i cr ip' _ _
        unfold exploitFinish exploitAct
        split
        · -- login: the index does not move
          split
          · exact nr_progress c _ .exploit rfl hc hn { h with acl := Or.inr hpos } (fun e => by cases e)
          · exact { h with }
        · -- ACL command: the index moves on, and wraps at the end of the list
          split
          · exact nr_progress c _ .exploit rfl hc hn { h with acl := Or.inr hpos } (fun e => by cases e)
          · rename_i hneq
            exact { h with acl := Or.inr (by simp only at hneq ⊢; omega) }
      · rename_i hno
        exact absurd (by rw [hx]; simp [hip]) (hno x ip hx)

theorem nr_exploit (c : Cfg) (i : In) (s : St) (hc : s.cur = .exploit) (hn : s.nxt = Stage.succ .exploit)
    (h : NR c s) : NR c (exploit c i s) := by
  unfold exploit
  rw [if_neg (by simp [hc])]
  split
  · exact nr_failStage c _ (nr_nothing c s h)
  · have he : NR c (exploitEnter s) := by unfold exploitEnter; split; exact { h with }; exact h
    have hf := exploitEnter_fields s
    exact nr_exploitBody c _ (by rw [hf.1]; exact hc) (by rw [hf.2.1]; exact hn) he

theorem bodies_is_bodyAt (c : Cfg) (i : In) (x : Stage) (hx : x.chain = true) (s : St) (h : s.cur = x) (hn : s.nxt = x.succ) :
    bodies c i s = bodyAt c i (rank x) s := by
  have hr : 1 ≤ rank x ∧ rank x ≤ 5 := by cases x <;> simp_all [Stage.chain, rank]
  rw [bodies_eq, applyDown_reach c i s 5 (by rw [h]; exact hr.2), h]
  obtain ⟨k, hk⟩ : ∃ k, rank x = k + 1 := ⟨rank x - 1, by omega⟩
  have hfire := bodyAt_fire c i x hx s h hn
  have hrk := res_rank x hx _ hfire
  rw [hk] at hfire hrk ⊢
  simp only [applyDown]
  rw [applyDown_skip c i k _ (by omega)]

/-- The six stage methods together. -/
theorem nr_bodies (c : Cfg) (i : In) (s : St) (h : NR c s) : NR c (bodies c i s) := by
  have hnx : s.cur ≠ .failed → s.nxt = s.cur.succ := fun hne => by
    rcases h.stage with e | e
    · exact absurd e hne
    · exact e
  cases hc : s.cur with
  | notStarted => rw [bodies_of_notStarted c i s hc]; exact nr_tapStart c s hc h
  | succeeded => rw [bodies_terminal c i s (Or.inl hc)]; exact h
  | failed => rw [bodies_terminal c i s (Or.inr hc)]; exact h
  | embed => rw [bodies_eq, applyDown_skip c i 5 s (by rw [hc]; simp [rank])]; exact h
  | conceal => rw [bodies_eq, applyDown_skip c i 5 s (by rw [hc]; simp [rank])]; exact h
  | extract => rw [bodies_eq, applyDown_skip c i 5 s (by rw [hc]; simp [rank])]; exact h
  | erase => rw [bodies_eq, applyDown_skip c i 5 s (by rw [hc]; simp [rank])]; exact h
  | reconnaissance =>
    have hn := hnx (by rw [hc]; simp); rw [hc] at hn
    rw [bodies_is_bodyAt c i .reconnaissance rfl s hc hn]
    exact nr_reconnaissance c s hc hn h
  | planning =>
    have hn := hnx (by rw [hc]; simp); rw [hc] at hn
    rw [bodies_is_bodyAt c i .planning rfl s hc hn]
    exact nr_planning c i s hc hn h
  | access =>
    have hn := hnx (by rw [hc]; simp); rw [hc] at hn
    rw [bodies_is_bodyAt c i .access rfl s hc hn]
    exact nr_access c i s hc hn h
  | manipulation =>
    have hn := hnx (by rw [hc]; simp); rw [hc] at hn
    rw [bodies_is_bodyAt c i .manipulation rfl s hc hn]
    exact nr_manipulation c i s hc hn h
  | exploit =>
    have hn := hnx (by rw [hc]; simp); rw [hc] at hn
    rw [bodies_is_bodyAt c i .exploit rfl s hc hn]
    exact nr_exploit c i s hc hn h

/-! the whole call -/

theorem pyIndex_mem {α} (l : List α) (i : Int) (x : α) (h : pyIndex l i = some x) : x ∈ l := by
  unfold pyIndex at h
  split at h
  · exact List.mem_of_getElem? h
  · split at h
    · exact List.mem_of_getElem? h
    · cases h

/-- The history item the return handler looks at: the synthetic successful one, or an item of the history. -/
theorem lookBack_cases (s : St) (x : Hist) (hx : lookBack s = some x) : x.resp.ok = true ∨ x ∈ s.hist := by
  unfold lookBack at hx
  split at hx
  · cases hx; exact Or.inl rfl
  · exact Or.inr (pyIndex_mem _ _ _ hx)

theorem nr_mainPath (c : Cfg) (s : St) (t : Int) (i : In) (ht : 0 ≤ t) (h : NR c s) : NR c (mainPath c s t i) :=
  nr_bodies c i _ (nr_outcomeHandler c _ (nr_setNext c _ _ _ (nr_curT c s t ht h)))

theorem nr_failPath (c : Cfg) (s : St) (t : Int) (i : In) (ht : 0 ≤ t) (h : NR c s) : NR c (failPath c s t i) :=
  nr_outcomeHandler c _ (nr_setNext c _ _ _ (nr_curT c s t ht h))

/-- `ReasonOk c s`: IF the call gets past the return handler with a failed look-back response (only PLANNING does), that
response carries `data["reason"]`.  The two run-level theorems discharge it differently. -/
def ReasonOk (c : Cfg) (s : St) : Prop :=
  ∀ x, lookBack s = some x → passes x (returnHandler c x s) = true → x.resp.ok = false → x.resp.hasReason = true

theorem nr_getActionCore (c : Cfg) (s : St) (t : Int) (i : In) (ht : 0 ≤ t) (hp : NR c s) (hrs : ReasonOk c s) :
    NR c (getActionCore c s t i).1 := by
  by_cases hex : executes s t = true
  · obtain ⟨x, hx⟩ := lookBack_some s hp.curT
    have hr2 := hrs x hx
    have hr := nr_returnHandler c x s hp
    unfold getActionCore
    rw [if_neg (by simp [hex])]
    simp only [hx]
    generalize returnHandler c x s = s1 at hr hr2 ⊢
    split
    · rename_i hpass
      have := nr_mainPath c (reasonCheck x s1) t i ht (nr_reasonCheck c x s1 (hr2 hpass) hr)
      dsimp only
      exact this
    · have := nr_failPath c s1 t i ht hr
      dsimp only
      exact this
  · unfold getActionCore
    rw [if_pos hex]
    exact hp

theorem reasonOk_preGuard (c : Cfg) (s : St) (h : ReasonOk c s) : ReasonOk c (preGuardHandlers c s) := by
  intro x hx hp
  rw [lookBack_preGuard] at hx
  refine h x hx ?_
  have hf := preGuard_fields c s
  unfold passes returnHandler at hp ⊢
  split at hp <;> split <;> simp_all

theorem nr_getAction (c : Cfg) (s : St) (t : Int) (i : In) (ht : 0 ≤ t) (h : NR c s) (hrs : ReasonOk c s) :
    NR c (getAction c s t i).1 :=
  nr_getActionCore c _ t i ht (nr_preGuard c s h) (reasonOk_preGuard c s hrs)

/-- One tick of a live agent in a state satisfying the invariant: if the look-back response is usable (`ReasonOk`) and the
response to the action of this tick, should it be a successful login, carries the login data, the call does not raise, the
agent stays alive, the invariant holds again, and the history grew by exactly this action and its response. -/
theorem nr_step (c : Cfg) (s : St) (t : Int) (i : In) (ht : 0 ≤ t) (hrs : ReasonOk c s)
    (hi : Hist.loginOk { act := (getAction c s t i).2, resp := i.resp }) (hd : s.dead = false) (h : NR c s) :
    NR c (step c s t i).1 ∧ (step c s t i).1.dead = false ∧ (step c s t i).2 = .act (getAction c s t i).2 ∧
    (step c s t i).1.hist = s.hist ++ [{ act := (getAction c s t i).2, resp := i.resp }] ∧
    (step c s t i).1.cur = (getAction c s t i).1.cur ∧ (step c s t i).1.curT = (getAction c s t i).1.curT := by
  have hg := nr_getAction c s t i ht h hrs
  have hdead : (getAction c s t i).1.dead = false := by rw [getAction_dead]; exact hd
  have hh := getAction_hist c s t i
  unfold step
  rw [if_neg (by simp [hd]), if_neg (by simp [hg.err])]
  refine ⟨{ hg with hist := fun x hx => ?_ }, hdead, rfl, by simp only []; rw [hh], rfl, rfl⟩
  rcases List.mem_append.1 hx with hx | hx
  · exact hg.hist x hx
  · simp only [List.mem_singleton] at hx
    rw [hx]; exact hi

/-! ## 34. Run level, responses well formed whatever the action -/

/-- every failed response of the history carries a reason -/
def AllReason (s : St) : Prop := ∀ h ∈ s.hist, h.resp.ok = false → h.resp.hasReason = true

theorem reasonOk_of_allReason (c : Cfg) (s : St) (h : AllReason s) : ReasonOk c s := by
  intro x hx _ hok
  rcases lookBack_cases s x hx with e | e
  · rw [e] at hok; cases hok
  · exact h x e hok

theorem run_nr (c : Cfg) : ∀ (ins : List In) (s : St) (t : Int), 0 ≤ t → (∀ i ∈ ins, i.resp.wf) → s.dead = false → NR c s →
    AllReason s →
    (NR c (after c s t ins) ∧ (after c s t ins).dead = false ∧ AllReason (after c s t ins)) ∧
    ∀ o ∈ runOut c s t ins, o.2 ≠ .raised := by
  intro ins
  induction ins with
  | nil => intro s t _ _ hd h hall; exact ⟨⟨h, hd, hall⟩, fun o ho => (by cases ho)⟩
  | cons i is ih =>
    intro s t ht hwf hd h hall
    have hwi := hwf i List.mem_cons_self
    obtain ⟨h1, hd1, ho1, hh1, _, _⟩ := nr_step c s t i ht (reasonOk_of_allReason c s hall) (fun _ hok => hwi.2 hok) hd h
    have hall1 : AllReason (step c s t i).1 := by
      intro x hx
      rw [hh1] at hx
      rcases List.mem_append.1 hx with hx | hx
      · exact hall x hx
      · simp only [List.mem_singleton] at hx
        rw [hx]; exact hwi.1
    obtain ⟨ha, hr⟩ := ih (step c s t i).1 (t + 1) (by omega) (fun j hj => hwf j (List.mem_cons_of_mem _ hj)) hd1 h1 hall1
    refine ⟨by simpa [after] using ha, fun o ho => ?_⟩
    simp only [runOut, List.mem_cons] at ho
    rcases ho with ho | ho
    · rw [ho, ho1]; exact fun e => (by cases e)
    · exact hr o ho

/-- **A validated TAP003 never raises.**  For every configuration the constructor accepts (settings validator
`check_network_knowledge_covers_targets`, `variance ≥ 0`, a start node can be selected), every first schedule draw and
start-node draw, every sequence of schedule draws, trial draws and WELL-FORMED responses of any length fed at the ticks
`0, 1, 2, …`: no call of `get_action` raises (no output is `raised`), the agent is alive at the end and the invariant `NR`
holds — in particular the knowledge still covers every host the kill chain is told to log into, after any number of
password changes and restarts of the chain. -/
theorem C19_tap3_validated_never_raises (c : Cfg) (d0 : Int) (k : Nat) (s0 : St) (ins : List In)
    (h0 : init c d0 k = some s0) (hwf : ∀ i ∈ ins, i.resp.wf) :
    (∀ o ∈ runOut c s0 0 ins, o.2 ≠ .raised) ∧ (after c s0 0 ins).dead = false ∧ (after c s0 0 ins).err = false ∧
    NR c (after c s0 0 ins) := by
  have hd : s0.dead = false := by
    unfold init at h0; split at h0
    · cases h0; rfl
    · cases h0
  have hall : AllReason s0 := by
    unfold init at h0; split at h0
    · cases h0; intro x hx; cases hx
    · cases h0
  obtain ⟨⟨hn, hdd, _⟩, ho⟩ := run_nr c ins s0 0 (Int.le_refl 0) hwf hd (nr_init c d0 k s0 h0) hall
  exact ⟨ho, hdd, hn.err, hn⟩

/-- **Liveness of the schedule of a validated TAP003 without the escape clause.**  `C19_tap3_next_slot` (round 6) said "the
agent reaches its next execution slot — unless a pre-guard response handler raises on the way".  With well-formed
responses nothing raises: after ANY prefix of a run from the constructor, an agent that has not concluded is alive and
gets past its schedule guard exactly `max now next_execution_timestep − now` ticks later. -/
theorem C19_tap3_validated_next_slot (c : Cfg) (d0 : Int) (k : Nat) (s0 : St) (h0 : init c d0 k = some s0) (pre w : List In)
    (hpre : ∀ i ∈ pre, i.resp.wf) (hw : ∀ i ∈ w, i.resp.wf) (hc : (after c s0 0 pre).concluded = false)
    (hlen : (w.length : Int) = max (pre.length : Int) (after c s0 0 pre).nextExec - pre.length) :
    (after c s0 0 (pre ++ w)).dead = false ∧ (after c s0 0 (pre ++ w)).concluded = false ∧
    executes (after c s0 0 (pre ++ w)) (pre.length + w.length) = true := by
  have hd0 : s0.dead = false := by
    unfold init at h0; split at h0
    · cases h0; rfl
    · cases h0
  have hall0 : AllReason s0 := by
    unfold init at h0; split at h0
    · cases h0; intro x hx; cases hx
    · cases h0
  obtain ⟨⟨hn1, hd1, hall1⟩, _⟩ := run_nr c pre s0 0 (Int.le_refl 0) hpre hd0 (nr_init c d0 k s0 h0) hall0
  obtain ⟨⟨_, hd2, _⟩, _⟩ := run_nr c w (after c s0 0 pre) (0 + pre.length) (by omega) hw hd1 hn1 hall1
  rw [after_append]
  have hslot := C19_tap3_next_slot c w (after c s0 0 pre) (0 + pre.length) hd1 hc (by omega)
  rcases hslot with hdead | ⟨h1, _, h3⟩
  · rw [hd2] at hdead; cases hdead
  · refine ⟨hd2, h1, ?_⟩
    have e : (0 : Int) + pre.length + w.length = pre.length + w.length := by omega
    rw [e] at h3; exact h3

/-! non-vacuity -/

/-- The hypotheses are satisfiable by a non-trivial configuration (a local and a remote account change, one ACL): the
constructor accepts `exCfg`, all responses are well formed, and the 16-tick run walks the whole chain twice. -/
example : ∃ s0, init exCfg 0 0 = some s0 ∧ (∀ i ∈ List.replicate 16 exIn, i.resp.wf) ∧
    (runOut exCfg s0 0 (List.replicate 16 exIn)).all (fun o => o.2 != .raised) = true := by
  refine ⟨_, rfl, fun i hi => ?_, by decide⟩
  rw [List.eq_of_mem_replicate hi]
  exact ⟨fun e => (by cases e), fun _ => rfl⟩

/-- The validator is what the theorem rests on: the same configuration WITHOUT the router's address is rejected by the
constructor (`init = none`) … -/
def exCfgNoIp : Cfg := { exCfg with creds0 := [("pc", { user := "u0", pw := "p0" }), ("rt", { user := "u1", pw := "p1" })] }
example : init exCfgNoIp 0 0 = none := by decide

/-- … and an agent forced past the validator raises (KeyError 'ip_address') when MANIPULATION logs into the router —
this is F-C19-5. -/
example : (runOut exCfgNoIp { nextExec := 1, acctQueue := exCfgNoIp.accountChanges, numAcls := 1, startNode := "pc" } 0
    (List.replicate 8 exIn)).any (fun o => o.2 == .raised) = true := by decide

/-- The well-formedness hypothesis is used as well: a successful login response without login data makes
`_handle_login_response` raise. -/
example : ∃ s0, init exCfg 0 0 = some s0 ∧
    (runOut exCfg s0 0 (List.replicate 8 { exIn with resp := { ok := true, hasLoginData := false } })).any
      (fun o => o.2 == .raised) = true := by
  refine ⟨_, rfl, by decide⟩

end Tap3
end Primaite.Agents
