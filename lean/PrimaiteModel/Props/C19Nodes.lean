/-
C19, part 6 (round 3) — two more run-level theorems for TAP001:

* which action runs where: the actions of DOWNLOAD … COMMAND_AND_CONTROL on the selected start node, the `c2-server-*`
  actions of PAYLOAD on the configured C2 server (true only after the repair of F-C19-4: a re-attack resets the stage
  progress; before it DOWNLOAD could create its file on the C2 server);
* `progress_only_after_success` against the run's own responses (the TAP003 version is in C19Run.lean).
-/
import PrimaiteModel.Props.C19Params
namespace Primaite.Agents
namespace Tap1

/-! ## 17b. TAP001: which action runs where -/

/-- the actions of DOWNLOAD … COMMAND_AND_CONTROL -/
def Kind.onStart : Kind → Bool
  | .folderCreate | .fileCreate | .fileAccess | .installRansomware | .installC2 | .configureC2 | .executeC2
  | .pingScan | .portScan | .reconScan => true
  | _ => false

/-- the `c2-server-*` actions of PAYLOAD -/
def Kind.onC2 : Kind → Bool
  | .ransomwareConfigure | .exfiltrate | .ransomwareLaunch => true
  | _ => false

abbrev KindNode (c : Cfg) (n : Val) (a : Act) : Prop :=
  (a.kind.onStart = true → a.node = n) ∧ (a.kind.onC2 = true → a.node = c.c2Server)

/-- `current_host` is the start node, except while PAYLOAD runs / after the chain ended / before the first stage has
set it; and it is the C2 server while PAYLOAD is in progress. -/
abbrev HostOK (c : Cfg) (n : Val) (s : St) : Prop :=
  (s.cur = .payload → s.prog = .inProgress → s.host = c.c2Server) ∧
  (s.host = n ∨ s.cur = .payload ∨ s.cur = .succeeded ∨ s.cur = .failed ∨
    (s.prog = .pending ∧ (s.cur = .notStarted ∨ s.cur = .download)))

abbrev HInv (c : Cfg) (n : Val) (s : St) : Prop := s.startNode = n ∧ KindNode c n s.chosen ∧ HostOK c n s

theorem kn_nothing (c : Cfg) (n : Val) : KindNode c n Act.nothing :=
  ⟨(fun h => by simp [Act.nothing, Kind.onStart] at h), (fun h => by simp [Act.nothing, Kind.onC2] at h)⟩

theorem kn_start (c : Cfg) (n : Val) (k : Kind) (hk : k.onC2 = false) : KindNode c n { kind := k, node := n } :=
  ⟨fun _ => rfl, (fun h => by rw [hk] at h; cases h)⟩

theorem hostOK_failed (c : Cfg) (n : Val) (s : St) (h : s.cur = .failed) : HostOK c n s :=
  ⟨(fun hc => by rw [h] at hc; cases hc), Or.inr (Or.inr (Or.inr (Or.inl h)))⟩

/-- inside a stage other than PAYLOAD, with `current_host` = start node -/
abbrev SI (c : Cfg) (n : Val) (s : St) : Prop :=
  s.startNode = n ∧ KindNode c n s.chosen ∧ s.host = n ∧ s.cur ≠ .payload

theorem HInv_of_SI (c : Cfg) (n : Val) (s : St) (h : SI c n s) : HInv c n s :=
  ⟨h.1, h.2.1, fun hc => absurd hc h.2.2.2, Or.inl h.2.2.1⟩

/- `scl` closes `SI c n s'` for a state that keeps `starting_node`, `current_host` and the stage (or fails), and leaves the
chosen action alone, sets it to do-nothing, or to a scan on `current_host`. -/
set_option hygiene false in
macro "scl" : tactic => `(tactic| first
  | exact h
  | exact ⟨h.1, h.2.1, h.2.2.1, (fun hc => by cases hc)⟩
  | exact ⟨h.1, kn_nothing c n, h.2.2.1, h.2.2.2⟩
  | exact ⟨h.1, kn_nothing c n, h.2.2.1, (fun hc => by cases hc)⟩
  | exact ⟨h.1, by rw [h.2.2.1]; exact kn_start c n _ rfl, h.2.2.1, h.2.2.2⟩)

theorem S_failStage (c : Cfg) (n : Val) (s : St) (h : SI c n s) : SI c n (failStage c s) := by
  unfold failStage; split <;> scl

theorem S_nothing (c : Cfg) (n : Val) (s : St) (h : SI c n s) : SI c n { s with chosen := Act.nothing } := by scl

theorem S_updateNextScanTarget (c : Cfg) (i : In) (e : Bool) (n : Val) (s : St) (h : SI c n s) :
    SI c n (updateNextScanTarget c i e s) := by
  unfold updateNextScanTarget; repeat' split
  all_goals scl

theorem S_scanResponseHandler (c : Cfg) (i : In) (r : Resp) (n : Val) (s : St) (h : SI c n s) :
    SI c n (scanResponseHandler c i r s) := by
  unfold scanResponseHandler
  split
  · split <;> scl
  · split
    · scl
    · exact S_updateNextScanTarget c i _ n _ (by scl)

theorem S_scanMark (c : Cfg) (p : Hist) (n : Val) (s : St) (h : SI c n s) : SI c n (scanMark p s) := by
  unfold scanMark; split <;> scl

theorem S_scanAbsorb (c : Cfg) (i : In) (p : Hist) (n : Val) (s : St) (h : SI c n s) : SI c n (scanAbsorb c i p s) := by
  unfold scanAbsorb; split
  · exact S_scanResponseHandler c i _ n s h
  · exact h

theorem S_scanLogic (c : Cfg) (n : Val) (s : St) (h : SI c n s) : SI c n (scanLogic s).1 := by
  unfold scanLogic; repeat' split
  all_goals scl

theorem S_scanAction (c : Cfg) (ty : ScanType) (n : Val) (s : St) (h : SI c n s) : SI c n (scanAction ty s) := by
  unfold scanAction; split
  all_goals scl

theorem S_scanProgress (c : Cfg) (n : Val) (s : St) (h : SI c n s) : SI c n (scanProgress s).1 := by
  unfold scanProgress; repeat' split
  all_goals scl

theorem S_scanDecide (c : Cfg) (n : Val) (s : St) (h : SI c n s) : SI c n (scanDecide c s).1 := by
  unfold scanDecide; split
  · exact S_failStage c n _ (S_nothing c n s h)
  · exact S_scanProgress c n _ (S_scanAction c _ n _ (S_scanLogic c n s h))

theorem S_scanHandler (c : Cfg) (i : In) (n : Val) (s : St) (h : SI c n s) : SI c n (scanHandler c i s).1 := by
  unfold scanHandler
  split
  · scl
  · split
    · scl
    · exact S_scanDecide c n _ (S_scanAbsorb c i _ n _ (S_scanMark c _ n _ (by scl)))

/-- `_progress_kill_chain` keeps the invariant when `current_host` is the start node, or when it finishes PAYLOAD. -/
theorem H_progress (c : Cfg) (n : Val) (s : St) (h : HInv c n s)
    (hh : s.host = n ∨ (s.cur = .payload ∧ s.nxt = .succeeded)) : HInv c n (progress s) := by
  unfold progress
  split
  · rename_i hn
    split
    · refine ⟨h.1, h.2.1, (fun _ hp => by cases hp), ?_⟩
      rcases hh with hh | hh
      · exact Or.inl hh
      · rw [hh.2] at hn; cases hn
    · exact h
  · split
    · exact ⟨h.1, h.2.1, (fun hc => by cases hc), Or.inr (Or.inr (Or.inl rfl))⟩
    · rename_i hn1 hn2
      split
      · refine ⟨h.1, h.2.1, (fun _ hp => by cases hp), ?_⟩
        rcases hh with hh | hh
        · exact Or.inl hh
        · exact absurd hh.2 hn2
      · exact h

theorem H_progress_SI (c : Cfg) (n : Val) (s : St) (h : SI c n s) : HInv c n (progress s) :=
  H_progress c n s (HInv_of_SI c n s h) (Or.inl h.2.2.1)

theorem host_of_stage (c : Cfg) (n : Val) (s : St) (h : HInv c n s) (h1 : s.cur ≠ .payload) (h2 : s.cur ≠ .succeeded)
    (h3 : s.cur ≠ .failed) (h4 : ¬ (s.prog = .pending ∧ (s.cur = .notStarted ∨ s.cur = .download))) : s.host = n := by
  rcases h.2.2.2 with hh | hh | hh | hh | hh
  · exact hh
  · exact absurd hh h1
  · exact absurd hh h2
  · exact absurd hh h3
  · exact absurd hh h4

theorem H_failStage (c : Cfg) (n : Val) (s : St) (h : HInv c n s) : HInv c n (failStage c s) := by
  unfold failStage; split
  · exact h
  · exact ⟨h.1, h.2.1, hostOK_failed c n _ rfl⟩

theorem H_nothing (c : Cfg) (n : Val) (s : St) (h : HInv c n s) : HInv c n { s with chosen := Act.nothing } :=
  ⟨h.1, kn_nothing c n, h.2.2⟩

theorem H_payload (c : Cfg) (i : In) (n : Val) (s : St) (h : HInv c n s) (hinv : Inv s) : HInv c n (payload c i s) := by
  unfold payload
  split
  · exact h
  · rename_i hcur
    have hcur' : s.cur = .payload := by simpa using hcur
    have hnxt : s.nxt = .succeeded := by
      rcases hinv with hf | hn
      · rw [hcur'] at hf; cases hf
      · rw [hn, hcur']; rfl
    -- after `payloadContinue`
    have h1 : HInv c n (payloadContinue s) ∧ (payloadContinue s).cur = .payload ∧ (payloadContinue s).nxt = .succeeded := by
      unfold payloadContinue
      split
      · rename_i hp
        have hhost : s.host = c.c2Server := h.2.2.1 hcur' hp
        unfold payloadHandler
        split
        · split
          all_goals exact ⟨⟨h.1, ⟨(fun hk => by cases hk), fun _ => hhost⟩, fun _ _ => hhost, Or.inr (Or.inl hcur')⟩, hcur', hnxt⟩
        · split
          · exact ⟨⟨h.1, ⟨(fun hk => by cases hk), fun _ => hhost⟩, fun _ _ => hhost, Or.inr (Or.inl hcur')⟩, hcur', hnxt⟩
          · exact ⟨⟨h.1, h.2.1, fun _ _ => hhost, Or.inr (Or.inl hcur')⟩, hcur', hnxt⟩
      · exact ⟨h, hcur', hnxt⟩
    generalize payloadContinue s = s1 at h1
    obtain ⟨hs1, hc1, hn1⟩ := h1
    have h2 : HInv c n (payloadEnter c i s1) ∧
        (((payloadEnter c i s1).cur = .payload ∧ (payloadEnter c i s1).nxt = .succeeded) ∨ (payloadEnter c i s1).prog = .pending) := by
      unfold payloadEnter
      split
      · rename_i hp
        split
        · exact ⟨⟨hs1.1, ⟨(fun hk => by cases hk), fun _ => rfl⟩, fun _ _ => rfl, Or.inr (Or.inl hc1)⟩, Or.inl ⟨hc1, hn1⟩⟩
        · refine ⟨H_failStage c n _ (H_nothing c n s1 hs1), Or.inr ?_⟩
          unfold failStage; split <;> exact hp
      · exact ⟨hs1, Or.inl ⟨hc1, hn1⟩⟩
    generalize payloadEnter c i s1 = s2 at h2
    obtain ⟨hs2, hcase⟩ := h2
    unfold progressIfFinished
    split
    · rename_i hf
      rcases hcase with hcase | hcase
      · exact H_progress c n s2 hs2 (Or.inr hcase)
      · rw [hcase] at hf; cases hf
    · exact hs2

theorem H_c2c (c : Cfg) (i : In) (n : Val) (s : St) (h : HInv c n s) : HInv c n (c2c c i s) := by
  unfold c2c
  split
  · exact h
  · rename_i hcur
    have hcur' : s.cur = .c2 := by simpa using hcur
    have hhost : s.host = n := host_of_stage c n s h (by rw [hcur']; simp) (by rw [hcur']; simp) (by rw [hcur']; simp)
      (by rw [hcur']; simp)
    have hsi : SI c n s := ⟨h.1, h.2.1, hhost, by rw [hcur']; simp⟩
    split
    · split
      · exact HInv_of_SI c n _ (by have h := hsi; scl)
      · exact HInv_of_SI c n _ (S_failStage c n _ (S_nothing c n s hsi))
    · split
      · split
        · exact HInv_of_SI c n _ (by have h := hsi; scl)
        · exact H_progress_SI c n _ (by have h := hsi; scl)
      · exact h

theorem H_propagate (c : Cfg) (i : In) (n : Val) (s : St) (h : HInv c n s) : HInv c n (propagate c i s) := by
  unfold propagate
  split
  · exact h
  · rename_i hcur
    have hcur' : s.cur = .propagate := by simpa using hcur
    have hhost : s.host = n := host_of_stage c n s h (by rw [hcur']; simp) (by rw [hcur']; simp) (by rw [hcur']; simp)
      (by rw [hcur']; simp)
    have hsi : SI c n s := ⟨h.1, h.2.1, hhost, by rw [hcur']; simp⟩
    split
    · have hs := S_scanHandler c i n s hsi
      have hs' : SI c n { (scanHandler c i s).1 with prog := (scanHandler c i s).2 } := hs
      unfold progressIfFinished
      split
      · exact H_progress_SI c n _ hs'
      · exact HInv_of_SI c n _ hs'
    · split
      · apply HInv_of_SI
        unfold propagateFirstScan propagatePrep propagateReset
        split
        · split
          · exact ⟨h.1, by simp only []; rw [h.1]; exact kn_start c n _ rfl, h.1, by simp only []; rw [hcur']; simp⟩
          · exact ⟨h.1, by simp only [St.raise]; rw [h.1]; exact kn_start c n _ rfl, h.1, by simp only [St.raise]; rw [hcur']; simp⟩
        · exact ⟨h.1, by simp only []; rw [hhost]; exact kn_start c n _ rfl, hhost, by simp only []; rw [hcur']; simp⟩
      · exact HInv_of_SI c n _ (S_failStage c n _ (S_nothing c n s hsi))

theorem H_activate (c : Cfg) (n : Val) (s : St) (h : HInv c n s) : HInv c n (activate s) := by
  unfold activate
  split
  · exact h
  · rename_i hcur
    have hcur' : s.cur = .activate := by simpa using hcur
    exact H_progress_SI c n _ ⟨h.1, by simp only []; rw [h.1]; exact kn_start c n _ rfl, h.1, by simp only []; rw [hcur']; simp⟩

theorem H_install (c : Cfg) (n : Val) (s : St) (h : HInv c n s) : HInv c n (install s) := by
  unfold install
  split
  · exact h
  · rename_i hcur
    have hcur' : s.cur = .install := by simpa using hcur
    exact H_progress_SI c n _ ⟨h.1, by simp only []; rw [h.1]; exact kn_start c n _ rfl, h.1, by simp only []; rw [hcur']; simp⟩

theorem H_download (c : Cfg) (n : Val) (s : St) (h : HInv c n s) : HInv c n (download s) := by
  unfold download
  split
  · exact h
  · rename_i hcur
    have hcur' : s.cur = .download := by simpa using hcur
    have hne : s.cur ≠ .payload := by rw [hcur']; simp
    unfold downloadAct
    split
    · -- PENDING: current_host := starting_node, folder-create
      have : SI c n { s with host := s.startNode, chosen := { kind := .folderCreate, node := s.startNode }, prog := .inProgress } :=
        ⟨h.1, by simp only []; rw [h.1]; exact kn_start c n _ rfl, h.1, hne⟩
      unfold progressIfFinished
      rw [if_neg (by simp)]
      exact HInv_of_SI c n _ this
    · rename_i hp
      have hhost : s.host = n := host_of_stage c n s h hne (by rw [hcur']; simp) (by rw [hcur']; simp)
        (by intro hx; exact hp hx.1)
      split
      · have : SI c n { s with chosen := { kind := .fileCreate, node := s.host }, prog := .finished } :=
          ⟨h.1, by simp only []; rw [hhost]; exact kn_start c n _ rfl, hhost, hne⟩
        unfold progressIfFinished
        rw [if_pos (by simp)]
        exact H_progress_SI c n _ this
      · unfold progressIfFinished
        split
        · exact H_progress_SI c n s ⟨h.1, h.2.1, hhost, hne⟩
        · exact h

theorem H_tapStart (c : Cfg) (n : Val) (s : St) (h : HInv c n s) : HInv c n (tapStart s) := by
  unfold tapStart
  split
  · exact h
  · rename_i hcur
    have hcur' : s.cur = .notStarted := by simpa using hcur
    split
    · refine ⟨h.1, kn_nothing c n, (fun hc => by cases hc), ?_⟩
      rcases h.2.2.2 with hh | hh | hh | hh | hh
      · exact Or.inl hh
      · rw [hcur'] at hh; cases hh
      · rw [hcur'] at hh; cases hh
      · rw [hcur'] at hh; cases hh
      · exact Or.inr (Or.inr (Or.inr (Or.inr ⟨hh.1, Or.inr rfl⟩)))
    · exact h

theorem H_outcomeHandler (c : Cfg) (n : Val) (s : St) (h : HInv c n s) : HInv c n (outcomeHandler c s) := by
  unfold outcomeHandler
  split
  · split
    · exact H_nothing c n s h
    · split
      · exact ⟨h.1, kn_nothing c n, (fun hc => by cases hc), Or.inr (Or.inr (Or.inr (Or.inr ⟨rfl, Or.inl rfl⟩)))⟩
      · exact ⟨h.1, kn_nothing c n, h.2.2⟩
  · exact h

theorem H_setNext (c : Cfg) (b d : Int) (n : Val) (s : St) (h : HInv c n s) : HInv c n (setNext c s b d) := by
  unfold setNext; split <;> exact h

theorem H_returnHandler (c : Cfg) (x : Hist) (n : Val) (s : St) (h : HInv c n s) : HInv c n (returnHandler c x s) := by
  unfold returnHandler; split
  · exact ⟨h.1, h.2.1, hostOK_failed c n _ rfl⟩
  · exact h

theorem H_curT (c : Cfg) (t : Int) (n : Val) (s : St) (h : HInv c n s) : HInv c n { s with curT := t } := h

theorem inv_returnHandler (c : Cfg) (x : Hist) (s : St) (hi : Inv s) : Inv (returnHandler c x s) := by
  unfold returnHandler; split
  · exact Or.inl rfl
  · exact hi

theorem inv_outcome_setNext (c : Cfg) (s : St) (t b d : Int) (hi : Inv s) :
    Inv (outcomeHandler c (setNext c { s with curT := t } b d)) := by
  have hf := setNext_fields c { s with curT := t } b d
  have hi2 : Inv (setNext c { s with curT := t } b d) := by
    unfold Inv; rw [hf.1, hf.2.1]; exact hi
  generalize setNext c { s with curT := t } b d = s2 at hi2
  unfold outcomeHandler
  split
  · split
    · exact hi2
    · split
      · exact Or.inr rfl
      · exact hi2
  · exact hi2

theorem H_bodies (c : Cfg) (i : In) (n : Val) (s : St) (h : HInv c n s) (hi : Inv s) : HInv c n (bodies c i s) := by
  unfold bodies
  exact H_tapStart c n _ (H_download c n _ (H_install c n _ (H_activate c n _ (H_propagate c i n _
    (H_c2c c i n _ (H_payload c i n s h hi))))))

theorem H_mainPath (c : Cfg) (t : Int) (i : In) (n : Val) (s : St) (h : HInv c n s) (hi : Inv s) :
    HInv c n (mainPath c s t i) := by
  unfold mainPath
  exact H_bodies c i n _ (H_outcomeHandler c n _ (H_setNext c _ _ n _ (H_curT c t n s h))) (inv_outcome_setNext c s t _ _ hi)

theorem H_failPath (c : Cfg) (t : Int) (i : In) (n : Val) (s : St) (h : HInv c n s) : HInv c n (failPath c s t i) := by
  unfold failPath
  exact H_setNext c _ _ n _ (H_curT c t n _ (H_outcomeHandler c n _ (H_setNext c _ _ n s h)))

theorem H_getAction (c : Cfg) (t : Int) (i : In) (n : Val) (s : St) (h : HInv c n s) (hi : Inv s) :
    HInv c n (getAction c s t i).1 ∧ KindNode c n (getAction c s t i).2 := by
  unfold getAction
  split
  · exact ⟨h, kn_nothing c n⟩
  · split
    · exact ⟨h, kn_nothing c n⟩
    · rename_i x _
      have hr := H_returnHandler c x n s h
      have hm := H_mainPath c t i n _ hr (inv_returnHandler c x s hi)
      have hf := H_failPath c t i n _ hr
      generalize mainPath c (returnHandler c x s) t i = M at hm ⊢
      generalize failPath c (returnHandler c x s) t i = F at hf ⊢
      split
      · exact ⟨hm, hm.2.1⟩
      · exact ⟨hf, hf.2.1⟩

theorem H_step (c : Cfg) (t : Int) (i : In) (n : Val) (s : St) (h : HInv c n s) (hi : Inv s) :
    HInv c n (step c s t i).1 ∧ ∀ a, (step c s t i).2 = .act a → KindNode c n a := by
  have hg := H_getAction c t i n s h hi
  unfold step
  split
  · exact ⟨h, fun a ha => by cases ha⟩
  · split
    · exact ⟨h, fun a ha => by cases ha⟩
    · exact ⟨hg.1, fun a ha => by cases ha; exact hg.2⟩

theorem run_H (c : Cfg) (n : Val) : ∀ (ins : List In) (s : St) (t : Int), HInv c n s → Inv s →
    ∀ t' a, (t', Out.act a) ∈ runOut c s t ins → KindNode c n a := by
  intro ins
  induction ins with
  | nil => intro s t _ _ t' a hm; simp [runOut] at hm
  | cons i is ih =>
    intro s t h hi t' a hm
    have hs := H_step c t i n s h hi
    have hi' := (C19_tap1_stage_step c s t i hi).2
    simp only [runOut, List.mem_cons] at hm
    rcases hm with heq | hm
    · exact hs.2 a (Prod.mk.inj heq).2.symm
    · exact ih _ (t + 1) hs.1 hi' t' a hm

/-- **Which action runs where (TAP001, run level; after the repair of F-C19-4).**  In every run from the constructor every
action of the DOWNLOAD … COMMAND_AND_CONTROL stages (folder / file create, file access, the two application installs,
configure / execute C2 beacon, the three scans) is returned with `node_name` / `source_node` = the selected START NODE, and
every `c2-server-*` action of PAYLOAD with `node_name` = the configured C2 server — whatever failed, was repeated or
restarted before.  (With the unrepaired `_tap_outcome_handler` this is false: `fc19_4_tap1_restart_keeps_progress`.) -/
theorem C19_tap1_actions_on_start_node (c : Cfg) (d0 : Int) (k1 k2 : Nat) (s0 : St) (ins : List In)
    (h0 : init c d0 k1 k2 = some s0) :
    ∀ t a, (t, Out.act a) ∈ runOut c s0 0 ins →
      (a.kind.onStart = true → a.node = s0.startNode) ∧ (a.kind.onC2 = true → a.node = c.c2Server) := by
  have hinit : HInv c s0.startNode s0 ∧ Inv s0 := by
    unfold init at h0
    split at h0
    · cases h0
      exact ⟨⟨rfl, kn_nothing c _, (fun hc => by cases hc), Or.inl rfl⟩, Or.inr rfl⟩
    · cases h0
  exact run_H c _ ins s0 0 hinit.1 hinit.2

/-- every action other than do-nothing is of one of the two classes -/
theorem kind_classes (k : Kind) : k = .doNothing ∨ k.onStart = true ∨ k.onC2 = true := by
  cases k <;> simp [Kind.onStart, Kind.onC2]

/-! ## 17c. TAP001: progress only after success, over a whole run -/

theorem after_dead (c : Cfg) : ∀ (w : List In) (s : St) (t : Int), s.dead = true → after c s t w = s := by
  intro w
  induction w with
  | nil => intro s t _; rfl
  | cons i is ih =>
    intro s t hd
    have : step c s t i = (s, .raised) := by simp [step, hd]
    simp only [after, this]
    exact ih s (t + 1) hd

/-- The responses stored in the history of a live agent are the responses the run fed it, in order. -/
theorem hist_after (c : Cfg) : ∀ (pre : List In) (s : St) (t : Int), (after c s t pre).dead = false →
    (after c s t pre).hist.map (·.resp) = s.hist.map (·.resp) ++ pre.map (·.resp) := by
  intro pre
  induction pre with
  | nil => intro s t _; simp [after]
  | cons i is ih =>
    intro s t hfin
    simp only [after] at hfin ⊢
    have hd1 : (step c s t i).1.dead = false := by
      cases hdd : (step c s t i).1.dead with
      | false => rfl
      | true => rw [after_dead c is _ _ hdd] at hfin; rw [hdd] at hfin; cases hfin
    rw [ih _ _ hfin]
    have hh : (step c s t i).1.hist.map (·.resp) = s.hist.map (·.resp) ++ [i.resp] := by
      have hd : s.dead = false := by
        cases hdd : s.dead with
        | false => rfl
        | true => simp [step, hdd] at hd1
      by_cases herr : (getAction c s t i).1.err = true
      · simp [step, hd, herr] at hd1
      · have hstep : step c s t i = ({ (getAction c s t i).1 with
            hist := (getAction c s t i).1.hist ++ [{ kind := (getAction c s t i).2.kind, resp := i.resp }] },
            .act (getAction c s t i).2) := by
          unfold step
          rw [if_neg (by simp [hd]), if_neg herr]
        rw [hstep]
        simp only [List.map_append, List.map_cons, List.map_nil, getAction_hist]
    rw [hh]
    simp [List.append_assoc]

/-- **progress_only_after_success over a whole run (TAP001).**  Whenever a tick of a run from the constructor moves the stage
of the chain to its successor, that tick was an execution slot, and the response the run gave at the agent's previous
execution tick (`pre[current_timestep]`) was a success — except in PROPAGATE (which inspects its scan responses itself) and
in PAYLOAD in progress with `continue_on_failed_exfil` (as coded). -/
theorem C19_tap1_run_progress_only_after_success (c : Cfg) (d0 : Int) (k1 k2 : Nat) (s0 : St)
    (h0 : init c d0 k1 k2 = some s0) (pre : List In) (i : In) (hch : (after c s0 0 pre).cur.chain = true)
    (hadv : (after c s0 0 (pre ++ [i])).cur = (after c s0 0 pre).cur.succ) :
    executes (after c s0 0 pre) pre.length = true ∧
    ∃ j, pre[(after c s0 0 pre).curT.toNat]? = some j ∧
      (j.resp.ok = true ∨ (after c s0 0 pre).cur = .propagate ∨
        ((after c s0 0 pre).cur = .payload ∧ (after c s0 0 pre).prog = .inProgress ∧ c.continueOnFailedExfil = true)) := by
  have hw := wf_after c pre s0 0 (wf_init c d0 k1 k2 s0 h0)
  rw [Int.zero_add] at hw
  have e2 : after c s0 0 (pre ++ [i]) = (step c (after c s0 0 pre) pre.length i).1 := by
    rw [after_append]; simp [after]
  rw [e2] at hadv
  have hs0 : s0.hist = [] := by
    unfold init at h0
    split at h0
    · cases h0; rfl
    · cases h0
  have hne : (after c s0 0 pre).cur.succ ≠ (after c s0 0 pre).cur := by
    revert hch; cases (after c s0 0 pre).cur <;> simp [Stage.succ, Stage.chain]
  have hd : (after c s0 0 pre).dead = false := by
    cases hdd : (after c s0 0 pre).dead with
    | false => rfl
    | true => simp [step, hdd] at hadv; exact absurd hadv.symm hne
  have hhist := hist_after c pre s0 0 hd
  rw [hs0] at hhist
  simp only [List.map_nil, List.nil_append] at hhist
  generalize after c s0 0 pre = s at *
  have hadv' : (getAction c s pre.length i).1.cur = s.cur.succ := by
    unfold step at hadv
    rw [if_neg (by simp [hd])] at hadv
    split at hadv
    · exact absurd hadv.symm hne
    · exact hadv
  obtain ⟨hex, h, hh, hok⟩ := C19_tap1_progress_only_after_success c s pre.length i hch hadv'
  refine ⟨hex, ?_⟩
  have hlt : s.curT < pre.length := by
    rcases hw.curT_lt with h' | h'
    · exact h'
    · rw [h'] at hch; simp [Stage.chain] at hch
  have hlen : s.hist.length = pre.length := by
    have := congrArg List.length hhist
    simpa using this
  unfold lookBack at hh
  rw [if_neg (by omega)] at hh
  unfold pyIndex at hh
  rw [if_pos hw.curT] at hh
  have hj : (pre.map (·.resp))[s.curT.toNat]? = some h.resp := by
    rw [← hhist, List.getElem?_map, hh]; rfl
  rw [List.getElem?_map] at hj
  cases hp : pre[s.curT.toNat]? with
  | none => rw [hp] at hj; cases hj
  | some j =>
    rw [hp] at hj
    simp only [Option.map_some, Option.some.injEq] at hj
    exact ⟨j, rfl, by rw [hj]; exact hok⟩

end Tap1
end Primaite.Agents
